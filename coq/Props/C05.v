(* C05 — relations are sets: a tuple is inserted exactly once, inputs are never lost (serial evaluation).
   Property theorems only; proofs in Engine/{Strata,SemiNaive,StrataAgg,SemiNaiveAgg,Main}.v. *)
From Coq Require Import List ZArith Bool.
From AV Require Import Engine.Core Engine.Sem Engine.Eval Engine.Validate Engine.Naive Engine.Interface Engine.InterfaceAgg Engine.Main Engine.MainAgg Engine.SemiNaiveAgg.
From AV Require Import Engine.ParStep Engine.InterfacePar Engine.MainPar.
Import ListNotations.

(* every input row is still there, unmodified and in place; evaluation appends only tuples that were absent, each once *)
Theorem c05_inputs_kept_rows_added_once : forall (I : interp) swap arities P pl fuel F0 st,
  arities_functional arities -> wf_facts arities F0 = true -> no_agg P = true ->
  validate arities P pl = true ->
  run_plan I swap fuel pl (init_state F0) = Some st ->
  exists added, rows st = F0 ++ added /\ NoDup added /\ (forall f, In f added -> ~ In f F0).
Proof. intros I swap arities P pl fuel F0 st H1 H2 H3 H4 H5. exact (proj2 (run_plan_correct_full I swap arities P pl fuel F0 st H1 H2 H3 H4 H5)). Qed.

(* with a duplicate-free input the number of rows equals the number of distinct tuples, aggregates included *)
Theorem c05_rows_are_a_set : forall (I : interp) swap arities P pl fuel F0 st,
  arities_functional arities -> wf_facts arities F0 = true -> NoDup F0 -> agg_perm_invariant I ->
  validate arities P pl = true ->
  run_plan I swap fuel pl (init_state F0) = Some st ->
  NoDup (rows st) /\ exists added, rows st = F0 ++ added.
Proof.
  intros I swap arities P pl fuel F0 st H1 H2 H3 H4 H5 H6.
  exact (proj2 (proj2 (proj2 (run_plan_strat_correct_full I swap arities P pl fuel F0 st H1 H2 H3 H4 H5 H6)))).
Qed.

(* parallel evaluation: for EVERY distribution of the derived facts over the workers and EVERY interleaving of
   their atomic steps, in every iteration of every SCC: inputs kept in place, each new tuple appended exactly once
   (exactly one insert_if_not_present succeeds per tuple, however many workers derive it at the same time) *)
Theorem c05_parallel_rows_added_once : forall (I : interp) swap arities P pl F0 st,
  arities_functional arities -> wf_facts arities F0 = true -> no_agg P = true ->
  validate arities P pl = true ->
  par_run_plan I swap pl (init_state F0) st ->
  exists added, rows st = F0 ++ added /\ NoDup added /\ (forall f, In f added -> ~ In f F0).
Proof. intros I swap arities P pl F0 st H1 H2 H3 H4 H5. exact (proj2 (par_run_correct_full I swap arities P pl F0 st H1 H2 H3 H4 H5)). Qed.

(* PARTIAL: lattice keys (one row per key, serial) are C03's c03_unique_key; the parallel lattice protocol (key
   mutex + re-check) and parallel runs with aggregates are exercised by the ties of C02 / C05 but are not theorems;
   the real DashMap entry operation is assumed atomic (C19 proves the one-winner property for every interleaving of
   the modelled atomic steps: Props/C19.v c19_cfi_concurrent_one_winner). *)

Print Assumptions c05_inputs_kept_rows_added_once. Print Assumptions c05_rows_are_a_set. Print Assumptions c05_parallel_rows_added_once.
