(* C06 — results are invariant under reordering and consistent renaming.
   Property theorems only; proofs in Engine/Main.v and Engine/Invariance*.v. *)
From Coq Require Import List ZArith Bool Permutation.
From AV Require Import Engine.Core Engine.Sem Engine.Eval Engine.Validate Engine.Naive Engine.Interface Engine.Main.
From AV Require Import Engine.InterfaceInvariance Engine.Invariance.
Import ListNotations.

(* The computed relations are a function of the SET of rules and the SET of input facts: two accepted plans for
   two permutations of the rules (whatever SCC order, variants, index choices and join orders they contain — so in
   particular whatever the textual order of rules and declarations made the planner choose), run on two
   permutations of the input with any two join-order oracles, compute the same relations. *)
Theorem c06_rule_and_input_permutation : forall I swap swap' arities P P' pl pl' fuel fuel' F0 F0' st st',
  arities_functional arities -> no_agg P = true ->
  Permutation P P' -> Permutation F0 F0' -> wf_facts arities F0 = true ->
  validate arities P pl = true -> validate arities P' pl' = true ->
  run_plan I swap fuel pl (init_state F0) = Some st ->
  run_plan I swap' fuel' pl' (init_state F0') = Some st' ->
  same_set (rows st) (rows st').
Proof. exact run_perm_invariant. Qed.

Theorem c06_least_model_of_sets : forall I P P' F0 F0' M,
  (forall r, In r P <-> In r P') -> same_set F0 F0' -> least_model I P F0 M -> least_model I P' F0' M.
Proof. intros I P P' F0 F0' M HP HF HM. apply (least_model_same_input I P' F0 F0' M HF). exact (least_model_perm_rules I P P' F0 M HP HM). Qed.

(* what a rule derives does not depend on the order of its head clauses ... *)
Theorem c06_head_clause_permutation : forall I db r hs', Permutation (heads r) hs' ->
  same_facts (derive_rule I db r) (derive_rule I db {| heads := hs'; body := body r |}).
Proof. exact head_perm. Qed.

(* ... nor on the order of two adjacent body items that mention no common variable (any item kinds, aggregates included) *)
Theorem c06_independent_body_items_swap : forall I db hs pre b1 b2 post, independent b1 b2 ->
  same_facts (derive_rule I db {| heads := hs; body := pre ++ b1 :: b2 :: post |})
             (derive_rule I db {| heads := hs; body := pre ++ b2 :: b1 :: post |}).
Proof. exact body_swap. Qed.

(* ... nor on the names of its variables (any injective renaming) *)
Theorem c06_variable_renaming : forall I db r (s : var -> var), (forall x y, s x = s y -> x = y) ->
  same_facts (derive_rule I db r) (derive_rule I db (rename_rule s r)).
Proof. exact alpha. Qed.

(* the least model commutes with every injective renaming of the relations ... *)
Theorem c06_relation_renaming : forall I P F0 M (q : rel -> rel), (forall a b, q a = q b -> a = b) ->
  least_model I P F0 M -> least_model I (map (rename_rel_rule q) P) (map (rename_rel_fact q) F0) (map (rename_rel_fact q) M).
Proof. exact rel_rename. Qed.

(* ... and, for programs without interpreted functions, with every injective renaming of the constants (a change of
   the column type is such a renaming) *)
Theorem c06_constant_renaming : forall I P F0 M (f : Z -> Z), (forall a b, f a = f b -> a = b) -> forallb pure_rule P = true ->
  least_model I P F0 M -> least_model I (map (map_rule f) P) (map (map_fact f) F0) (map (map_fact f) M).
Proof. exact const_rename. Qed.

(* These five are statements about the SPECIFICATION (Engine/Sem.v); together with C01 (the engine computes the least
   model for whatever plan the macro produces for the permuted / renamed program) they give the invariance of the
   computed relations.  "Identifiers reserved by the generated code aside": the name spaces the desugarer generates
   from are C07's known finding.  The metamorphic tie (gen/props/c06.py) runs every variant through the real macro. *)

Print Assumptions c06_rule_and_input_permutation. Print Assumptions c06_least_model_of_sets.
Print Assumptions c06_head_clause_permutation. Print Assumptions c06_independent_body_items_swap.
Print Assumptions c06_variable_renaming. Print Assumptions c06_relation_renaming. Print Assumptions c06_constant_renaming.

(* ================= through the planner =================
   With the planner inside the model (Plan/PlanModel.v compile_model, C01), the invariance no longer needs two dumped and
   validated plans: for ANY two orderings of the rules, any SCC partitions of them meeting the decidable sccs_ok, and any two
   orderings of the input, what planner + engine compute is the same set of facts. *)
From AV Require Plan.PlanModel.
From AV Require Plan.PlanWf.
From AV Require Plan.PlanProofs.

Theorem c06_planned_runs_invariant : forall I swap swap' arities P P' sccs sccs' fuel fuel' F0 F0' st st',
  arities_functional arities -> no_agg P = true ->
  Permutation P P' -> Permutation F0 F0' -> wf_facts arities F0 = true ->
  PlanWf.wf_core arities P = true -> PlanWf.sccs_ok P sccs = true ->
  PlanWf.wf_core arities P' = true -> PlanWf.sccs_ok P' sccs' = true ->
  run_plan I swap fuel (PlanModel.compile_model arities P sccs) (init_state F0) = Some st ->
  run_plan I swap' fuel' (PlanModel.compile_model arities P' sccs') (init_state F0') = Some st' ->
  same_set (rows st) (rows st').
Proof.
  intros I swap swap' arities P P' sccs sccs' fuel fuel' F0 F0' st st' Har Hna HP HF Hwf Hw Hs Hw' Hs' Hr Hr'.
  exact (run_perm_invariant I swap swap' arities P P' _ _ fuel fuel' F0 F0' st st' Har Hna HP HF Hwf
           (PlanProofs.compile_model_valid arities P sccs Hw Hs) (PlanProofs.compile_model_valid arities P' sccs' Hw' Hs') Hr Hr').
Qed.
Print Assumptions c06_planned_runs_invariant.

(* ================= the textual order of the rules and the ORDER of the strata =================
   c06_planned_runs_invariant holds for any two partitions meeting sccs_ok.  Plan/PlanOrder.v: a partition that puts a consumer
   before one of its producers does NOT meet it (whatever the textual order that suggested it), and the example shows that
   the hypothesis cannot be dropped: the same six rules, the stratum {link symmetric, link transitive} feeding `out` through two
   rule-level edges next to the producer chain cand -> hub; with `out` evaluated right after the link stratum (where a sort that
   mixes stratum in-degrees with rule-level edges puts it when `out` is written first) the planned run leaves `out` empty, in
   dependency order it is the least model (5 tuples).  The tie runs rule-order variants of programs of that kind
   (gen/scc_shapes.py). *)
From AV Require Plan.PlanOrder.
From AV Require Engine.Vocab.

Theorem c06_consumer_before_producer_rejected : forall P sccs j j' r r' k k',
  nth_error P j = Some r -> nth_error P j' = Some r' -> PlanOrder.reads_from r r' = true ->
  PlanWf.part_index sccs j 0 = Some k -> PlanWf.part_index sccs j' 0 = Some k' -> (k < k')%nat ->
  PlanWf.sccs_ok P sccs = false.
Proof. exact PlanOrder.sccs_ok_rejects_consumer_first. Qed.

Example c06_double_edge_dependency_order :
  PlanWf.wf_core PlanOrder.de_arities PlanOrder.de_prog = true
  /\ PlanWf.sccs_ok PlanOrder.de_prog PlanOrder.de_good = true
  /\ PlanOrder.same_rows (PlanOrder.run_rows PlanOrder.de_arities PlanOrder.de_prog PlanOrder.de_good PlanOrder.de_facts)
                         (naive_fix Vocab.std_interp 200%nat PlanOrder.de_prog PlanOrder.de_facts) = true
  /\ length (PlanOrder.facts_of 5%nat (PlanOrder.run_rows PlanOrder.de_arities PlanOrder.de_prog PlanOrder.de_good PlanOrder.de_facts)) = 5%nat.
Proof.
  split; [exact PlanOrder.de_wf|]. split; [exact (proj1 PlanOrder.de_good_ok)|].
  split; [exact (proj1 PlanOrder.de_good_runs)|exact (proj2 PlanOrder.de_good_runs)].
Qed.

Example c06_double_edge_consumer_first_loses_tuples :
  PlanWf.sccs_ok PlanOrder.de_prog PlanOrder.de_premature = false
  /\ validate PlanOrder.de_arities PlanOrder.de_prog (PlanModel.compile_model PlanOrder.de_arities PlanOrder.de_prog PlanOrder.de_premature) = false
  /\ PlanOrder.facts_of 5%nat (PlanOrder.run_rows PlanOrder.de_arities PlanOrder.de_prog PlanOrder.de_premature PlanOrder.de_facts) = []
  /\ length (PlanOrder.facts_of 5%nat (naive_fix Vocab.std_interp 200%nat PlanOrder.de_prog PlanOrder.de_facts)) = 5%nat.
Proof.
  split; [exact PlanOrder.de_premature_rejected|]. split; [exact (proj1 PlanOrder.de_premature_loses_tuples)|].
  split; [exact (proj1 (proj2 PlanOrder.de_premature_loses_tuples))|exact (proj1 (proj2 (proj2 PlanOrder.de_premature_loses_tuples)))].
Qed.

Print Assumptions c06_consumer_before_producer_rejected.
Print Assumptions c06_double_edge_dependency_order.
Print Assumptions c06_double_edge_consumer_first_loses_tuples.

(* ---- the same invariance through the PARALLEL macro (Engine/InvariancePar.v; the tie sends every variant through
   ascent_par! as well): a parallel run — any distribution of the work over workers, any interleaving of their atomic
   steps, any join-order oracle — of an accepted plan for a permutation of the rules on a permutation of the input computes
   the relations of the serial run of the original; and two parallel runs agree with each other *)
From AV Require Engine.ParStep.
From AV Require Engine.InvariancePar.

Theorem c06_parallel_variant_equals_serial_original : forall I swap swap' arities P P' pl pl' fuel F0 F0' st st',
  arities_functional arities -> no_agg P = true ->
  Permutation P P' -> Permutation F0 F0' -> wf_facts arities F0 = true ->
  validate arities P pl = true -> validate arities P' pl' = true ->
  run_plan I swap fuel pl (init_state F0) = Some st ->
  ParStep.par_run_plan I swap' pl' (init_state F0') st' ->
  same_set (rows st) (rows st').
Proof. exact InvariancePar.par_run_perm_invariant. Qed.

Theorem c06_parallel_variants_agree : forall I swap swap' arities P P' pl pl' F0 F0' st st',
  arities_functional arities -> no_agg P = true ->
  Permutation P P' -> Permutation F0 F0' -> wf_facts arities F0 = true ->
  validate arities P pl = true -> validate arities P' pl' = true ->
  ParStep.par_run_plan I swap pl (init_state F0) st ->
  ParStep.par_run_plan I swap' pl' (init_state F0') st' ->
  same_set (rows st) (rows st').
Proof. exact InvariancePar.par_par_perm_invariant. Qed.

Print Assumptions c06_parallel_variant_equals_serial_original.
Print Assumptions c06_parallel_variants_agree.
