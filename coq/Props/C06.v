(* C06 — results are invariant under reordering and consistent renaming.
   Property theorems only; proofs in Engine/Main.v. *)
From Coq Require Import List ZArith Bool Permutation.
From AV Require Import Engine.Core Engine.Sem Engine.Eval Engine.Validate Engine.Naive Engine.Interface Engine.Main.
Import ListNotations.

(* The computed relations are a function of the SET of rules and the SET of input facts: two accepted plans for
   two permutations of the rules (whatever SCC order, variants, index choices and join orders they contain), run
   on two permutations of the input with any two join-order oracles, compute the same relations. *)
Theorem c06_rule_and_input_permutation : forall I swap swap' arities P P' pl pl' fuel fuel' F0 F0' st st',
  arities_functional arities -> no_agg P = true ->
  Permutation P P' -> Permutation F0 F0' -> wf_facts arities F0 = true ->
  validate arities P pl = true -> validate arities P' pl' = true ->
  run_plan I swap fuel pl (init_state F0) = Some st ->
  run_plan I swap' fuel' pl' (init_state F0') = Some st' ->
  same_set (rows st) (rows st').
Proof. exact run_perm_invariant. Qed.

(* the least model itself only depends on the sets *)
Theorem c06_least_model_of_sets : forall I P P' F0 F0' M,
  (forall r, In r P <-> In r P') -> same_set F0 F0' -> least_model I P F0 M -> least_model I P' F0' M.
Proof. intros I P P' F0 F0' M HP HF HM. apply (least_model_same_input I P' F0 F0' M HF). exact (least_model_perm_rules I P P' F0 M HP HM). Qed.

(* PARTIAL: the full statement of C06 also covers (a) permutation of head clauses within a rule and of mutually
   independent body items, (b) alpha-renaming of variables / relations, (c) injective renaming of the constants for
   programs without interpreted functions.  (a)-(c) are not yet theorems; they are exercised by the tie
   (gen/props/c06.py: every variant through the real macro must equal the base program's least model mapped). *)

Print Assumptions c06_rule_and_input_permutation. Print Assumptions c06_least_model_of_sets.
