(* C17 — property theorems only.  Statements are pinned with Check; proofs are
   one-line references into Agg/AggLaws.v.  Model: Agg/AggModel.v (mirror of
   ascent/src/aggregators.rs, values in Z, panics explicit). *)
From Coq Require Import List ZArith Permutation.
From AV Require Import Agg.AggModel Agg.AggLaws.
From AV Require Import Agg.AggClauseModel.
From AV Require Import Agg.AggClauseLaws.
Import ListNotations.
Open Scope Z_scope.

(* min / max: nothing on empty input, otherwise the least / greatest element *)
Theorem c17_min : forall l, (l = [] -> agg_min l = []) /\ (l <> [] -> exists m, agg_min l = [m] /\ is_min m l).
Proof. intros l; split; [intros ->; exact agg_min_empty | exact (agg_min_spec l)]. Qed.
Theorem c17_max : forall l, (l = [] -> agg_max l = []) /\ (l <> [] -> exists m, agg_max l = [m] /\ is_max m l).
Proof. intros l; split; [intros ->; exact agg_max_empty | exact (agg_max_spec l)]. Qed.

(* sum: the sum, zero on empty input *)
Theorem c17_sum : forall l, agg_sum l = [zsum l] /\ agg_sum [] = [0].
Proof. intros l; split; [exact (agg_sum_spec l) | exact agg_sum_empty]. Qed.

(* count: the cardinality, for every size hint the iterator may legally report *)
Theorem c17_count : forall hint n, hint_ok hint n -> agg_count hint n = [n].
Proof. exact agg_count_spec. Qed.

(* mean: nothing on empty input, otherwise the rational sum / length *)
Theorem c17_mean : forall l, agg_mean [] = [] /\ (l <> [] -> agg_mean l = [(zsum l, zlen l)] /\ zlen l > 0).
Proof. intros l; split; [exact agg_mean_empty | exact (agg_mean_nonempty l)]. Qed.

(* not: one unit exactly when there is no input *)
Theorem c17_not : forall n, 0 <= n -> (agg_not n = [0] <-> n = 0) /\ (agg_not n = [] <-> n <> 0).
Proof. exact agg_not_spec. Qed.

(* percentile: total for every p (no panic), nothing on empty input, otherwise the element
   of the input whose rank in sorted order is floor(len * p / 100) capped at len - 1 *)
Theorem c17_percentile_total : forall pn pd l, exists r, agg_percentile pn pd l = Ok r.
Proof. exact agg_percentile_total. Qed.
Theorem c17_percentile_empty : forall pn pd, agg_percentile pn pd [] = Ok [].
Proof. exact agg_percentile_empty. Qed.
Theorem c17_percentile_rank : forall pn pd l, l <> [] -> 0 < pd -> 0 <= pn <= 100 * pd ->
  exists x, agg_percentile pn pd l = Ok [x] /\ In x l /\
            rank_elem (Z.min ((zlen l * pn) / (pd * 100)) (zlen l - 1)) l = Some x.
Proof. intros pn pd l; exact (agg_percentile_rank pn pd l). Qed.
Theorem c17_percentile_endpoints : forall pd len, 0 < pd -> 0 < len ->
  pct_index 0 pd len = 0 /\ pct_index (100 * pd) pd len = len - 1.
Proof. exact pct_index_endpoints. Qed.
Theorem c17_rank_monotone : forall k k' l x y, 0 <= k <= k' -> rank_elem k l = Some x -> rank_elem k' l = Some y -> x <= y.
Proof. exact rank_elem_mono. Qed.

(* every aggregator depends only on the multiset of its input (needed by C04) *)
Theorem c17_permutation_invariant : forall l l', Permutation l l' ->
  agg_min l = agg_min l' /\ agg_max l = agg_max l' /\ agg_sum l = agg_sum l' /\ agg_mean l = agg_mean l' /\
  forall pn pd, agg_percentile pn pd l = agg_percentile pn pd l'.
Proof. intros l l' P; repeat split; [exact (agg_min_perm _ _ P) | exact (agg_max_perm _ _ P) | exact (agg_sum_perm _ _ P) | exact (agg_mean_perm _ _ P) | intros; exact (agg_percentile_perm _ _ _ _ P)]. Qed.

(* non-vacuity: a concrete input meets the hypotheses and exercises the end point *)
Example c17_example : agg_percentile 100 1 [3; 1; 2] = Ok [3] /\ agg_percentile 50 1 [3; 1; 2] = Ok [2] /\
  agg_min [3; 1; 2] = [1] /\ agg_mean [3; 1; 2] = [(6, 3)] /\ agg_count (0, None) 3 = [3].
Proof. vm_compute. repeat split. Qed.

Print Assumptions c17_min. Print Assumptions c17_max. Print Assumptions c17_sum. Print Assumptions c17_count.
Print Assumptions c17_mean. Print Assumptions c17_not. Print Assumptions c17_percentile_total.
Print Assumptions c17_percentile_empty. Print Assumptions c17_percentile_rank. Print Assumptions c17_percentile_endpoints.
Print Assumptions c17_rank_monotone. Print Assumptions c17_permutation_invariant. Print Assumptions c17_example.

(* ---- program level: one `agg` body item of a rule (Agg/AggClauseModel.v: key lookup + aggregator + continuation) ---- *)

(* "on empty input sum yields zero and count yields 0", min / max / mean / percentile nothing, not() its unit -- for every
   binding whose key matches no row, whether the relation has other rows or none at all *)
Theorem c17_clause_empty_input : forall k p col rows, matching p rows = [] ->
  agg_clause k p col rows = Ok (match k with ASum | ACount | ANot => [(0, 1)] | _ => [] end).
Proof. exact agg_clause_no_match_explicit. Qed.
Theorem c17_clause_empty_group_is_empty_relation : forall k p col rows, matching p rows = [] ->
  agg_clause k p col rows = agg_clause k p col [].
Proof. exact agg_clause_empty_group_eq. Qed.

(* the item applies the aggregator's definition to the aggregated column of exactly the rows that agree with the key *)
Theorem c17_clause_matching : forall p rows r, In r (matching p rows) <-> In r rows /\ Forall2 col_ok p r.
Proof. exact matching_in. Qed.
Theorem c17_clause_sum_count_not : forall p col rows,
  agg_clause ASum p col rows = Ok [(zsum (group p col rows), 1)] /\
  agg_clause ACount p col rows = Ok [(zlen (group p col rows), 1)] /\
  agg_clause ANot p col rows = Ok (if is_nil (matching p rows) then [(0, 1)] else []).
Proof. intros p col rows; repeat split; [exact (agg_clause_sum p col rows) | exact (agg_clause_count p col rows) | exact (agg_clause_not p col rows)]. Qed.
Theorem c17_clause_min_max_mean : forall p col rows, group p col rows <> [] ->
  (exists m, agg_clause AMin p col rows = Ok [(m, 1)] /\ is_min m (group p col rows)) /\
  (exists m, agg_clause AMax p col rows = Ok [(m, 1)] /\ is_max m (group p col rows)) /\
  agg_clause AMean p col rows = Ok [(zsum (group p col rows), zlen (group p col rows))] /\ zlen (group p col rows) > 0.
Proof. intros p col rows H; split; [exact (agg_clause_min p col rows H) | split; [exact (agg_clause_max p col rows H) | exact (agg_clause_mean p col rows H)]]. Qed.
Theorem c17_clause_percentile : forall pn pd p col rows, group p col rows <> [] -> 0 < pd -> 0 <= pn <= 100 * pd ->
  exists x, agg_clause (APct pn pd) p col rows = Ok [(x, 1)] /\ In x (group p col rows) /\
            rank_elem (Z.min ((zlen (group p col rows) * pn) / (pd * 100)) (zlen (group p col rows) - 1)) (group p col rows) = Some x.
Proof. exact agg_clause_pct. Qed.
Theorem c17_clause_total : forall k p col rows, exists r, agg_clause k p col rows = Ok r.
Proof. exact agg_clause_total. Qed.
Theorem c17_clause_row_order_irrelevant : forall k p col rows rows', Permutation rows rows' ->
  agg_clause k p col rows = agg_clause k p col rows'.
Proof. exact agg_clause_perm. Qed.

(* a code generator may let the aggregated relation take part in the rule's "some relation is empty" short circuit
   exactly for the aggregators that yield nothing on empty input; for sum, count and not() the short circuit is refuted *)
Theorem c17_clause_skip_sound_iff : forall k,
  (forall p col rows, agg_clause_skipping_empty_rel k p col rows = agg_clause k p col rows) <->
  match k with ASum | ACount | ANot => False | _ => True end.
Proof. exact skipping_sound_iff_explicit. Qed.
Theorem c17_clause_skip_variant_refuted : exists p col rows, agg_clause_skipping_empty_rel ASum p col rows <> agg_clause ASum p col rows.
Proof. exact (skipping_refuted ASum eq_refl). Qed.
Theorem c17_clause_guard_over_clauses_sound : forall (clause_rels : list (list row)) (body : list (Z * Z)),
  (existsb is_nil clause_rels = true -> body = []) -> rule_guard clause_rels body = body.
Proof. intros cr body; exact (rule_guard_sound cr body). Qed.

Example c17_clause_example :
  agg_clause ASum [Some 1; None] 1 [[1; 5]; [2; 3]; [1; -2]] = Ok [(3, 1)] /\
  agg_clause ASum [Some 0; None] 1 [[1; 5]; [2; 3]; [1; -2]] = Ok [(0, 1)] /\
  agg_clause ASum [Some 0; None] 1 [] = Ok [(0, 1)] /\
  agg_clause AMean [Some 1; None; None] 1 [[1; 4; 0]; [1; 4; 1]; [1; -1; 0]] = Ok [(7, 3)] /\
  agg_clause (APct 50 1) [None; None; Some 1] 1 [[1; 4; 1]; [2; 4; 1]; [1; -1; 1]; [0; 9; 0]] = Ok [(4, 1)] /\
  agg_clause AMin [Some 0; None] 1 [] = Ok [] /\
  agg_clause_skipping_empty_rel ASum [Some 0; None] 1 [] = Ok [].
Proof. vm_compute. repeat split. Qed.

Print Assumptions c17_clause_empty_input. Print Assumptions c17_clause_empty_group_is_empty_relation.
Print Assumptions c17_clause_matching. Print Assumptions c17_clause_sum_count_not. Print Assumptions c17_clause_min_max_mean.
Print Assumptions c17_clause_percentile. Print Assumptions c17_clause_total. Print Assumptions c17_clause_row_order_irrelevant.
Print Assumptions c17_clause_skip_sound_iff. Print Assumptions c17_clause_skip_variant_refuted.
Print Assumptions c17_clause_guard_over_clauses_sound. Print Assumptions c17_clause_example.

(* ---- value range: what the column type N does and does not limit (Agg/AggRange.v, Agg/AggRangeLaws.v) ---- *)
From AV Require Import Agg.AggRange.
From AV Require Import Agg.AggRangeLaws.

(* mean: every input is converted to f64 before it is added, so NO intermediate has the column type.  For every column
   type of at most 32 bits (all integer types with `Into<f64>`) and at most 2^21 rows, the code's f64 fold holds every
   prefix total exactly -- whatever the values, in particular when the total leaves the column type -- and returns the
   rational sum / count of the unbounded model (one correctly rounded IEEE division: trusted base) *)
Theorem c17_mean_not_limited_by_column_type : forall t l, 0 < bits t <= 32 -> Forall (in_range t) l -> zlen l <= 2 ^ 21 ->
  agg_mean_f64 l = Exact (agg_mean l).
Proof. intros t l [H B]; exact (mean_f64_exact t l H B). Qed.

(* sum: adds in the column type; its range IS the caller's responsibility.  With overflow checks on it is the sum when
   every prefix total is a value of N and panics otherwise; with checks off it is the sum exactly when the total is one;
   an order independent sufficient precondition: the negative and the positive inputs each total within N *)
Theorem c17_sum_in_column_type : forall t l, 0 < bits t ->
  (prefixes_in_range t l 0 -> agg_sum_checked t l = Ok (agg_sum l)) /\
  (~ prefixes_in_range t l 0 -> agg_sum_checked t l = Panic) /\
  (agg_sum_wrapped t l = agg_sum l <-> in_range t (zsum l)) /\
  (ty_min t <= neg_part l -> pos_part l <= ty_max t ->
   forall l', Permutation l l' -> agg_sum_checked t l' = Ok (agg_sum l) /\ agg_sum_wrapped t l' = agg_sum l).
Proof.
  intros t l H. split; [exact (agg_sum_checked_ok t l) | split; [exact (agg_sum_checked_panic t l) | split;
    [exact (agg_sum_wrapped_ok_iff t l H) | exact (sum_in_type_correct t l H)]]].
Qed.

(* the variant "mean through a total held in the column type" (overflow checks off: wrapped to the column width; on: panic)
   agrees with mean exactly when the total / every prefix total is a value of the column type ... *)
Theorem c17_mean_via_column_sum_iff : forall t l, 0 < bits t -> l <> [] ->
  (agg_mean_colsum_wrapped t l = agg_mean l <-> in_range t (zsum l)) /\
  (prefixes_in_range t l 0 -> agg_mean_colsum_checked t l = Ok (agg_mean l)) /\
  (~ prefixes_in_range t l 0 -> agg_mean_colsum_checked t l = Panic).
Proof.
  intros t l H N. split; [exact (agg_mean_colsum_wrapped_ok_iff t l H N) | split;
    [exact (agg_mean_colsum_checked_ok t l) | exact (agg_mean_colsum_checked_panic t l)]].
Qed.
(* ... hence it is refuted as an implementation of mean: inputs and mean inside the column type, result wrong / a panic *)
Theorem c17_mean_via_column_sum_refuted : exists t l, forallb (in_rangeb t) l = true /\
  agg_mean_colsum_wrapped t l <> agg_mean l /\ agg_mean_colsum_checked t l = Panic /\ agg_mean_f64 l = Exact (agg_mean l).
Proof. exact agg_mean_colsum_refuted. Qed.

Example c17_range_example :
  agg_mean [2000000000; 2000000000] = [(4000000000, 2)] /\ agg_mean_f64 [2000000000; 2000000000] = Exact [(4000000000, 2)] /\
  agg_mean_colsum_wrapped i32 [2000000000; 2000000000] = [(-294967296, 2)] /\
  agg_mean_colsum_checked i32 [2000000000; 2000000000] = Panic /\
  agg_mean_colsum_wrapped u8 [200; 100] = [(44, 2)] /\ agg_mean [200; 100] = [(300, 2)] /\
  agg_sum_checked i32 [2147483647; -2147483648] = Ok [-1] /\ agg_sum_checked i32 [2147483647; 1; -2147483648] = Panic /\
  agg_sum_wrapped i32 [2147483647; 1; -2147483648] = [0] /\ agg_sum_wrapped u8 [200; 100] = [44] /\
  agg_min [-2147483648; 2147483647] = [-2147483648] /\ agg_percentile 100 1 [4294967295; 0] = Ok [4294967295].
Proof. vm_compute. repeat split. Qed.

Print Assumptions c17_mean_not_limited_by_column_type. Print Assumptions c17_sum_in_column_type.
Print Assumptions c17_mean_via_column_sum_iff. Print Assumptions c17_mean_via_column_sum_refuted. Print Assumptions c17_range_example.

(* ---- one aggregator VALUE applied more than once (Agg/AggStateless.v, Agg/AggStatelessLaws.v) ----
   An aggregator value is a machine (private state + one step per application).  The code's values carry no state
   (fn items; percentile(p)'s closure captures the f64 p only and is `Fn`): code_machine.  agg_seq k ins = the results
   of applying ONE value of aggregator k to the inputs ins in a row. *)
From AV Require Import Agg.AggStateless.
From AV Require Import Agg.AggStatelessLaws.

(* applications are independent: the results of a sequence are the definition applied to each input on its own ... *)
Theorem c17_applications_independent : forall k ins, agg_seq k ins = map (agg_apply k) ins.
Proof. exact agg_seq_independent. Qed.
(* ... so the result at any position is the one of a fresh aggregator, whatever was aggregated before and after *)
Theorem c17_application_ignores_history : forall k pre i post,
  nth_error (agg_seq k (pre ++ i :: post)) (length pre) = Some (agg_apply k i) /\ agg_seq k [i] = [agg_apply k i].
Proof. intros k pre i post; split; [exact (agg_seq_nth k pre i post) | exact (agg_seq_independent k [i])]. Qed.
(* in general: a machine whose results do not depend on its state is a function of each input *)
Theorem c17_output_only_machine_is_function : forall (S : Type) (m : machine S) (f : ainput -> aresult),
  (forall s i, snd (m_step m s i) = f i) -> forall ins, run_seq m ins = map f ins.
Proof. intros S m f; exact (stateless_machine_is_map m f). Qed.

(* the clauses of the property at an arbitrary position of an arbitrary sequence of applications *)
Theorem c17_seq_empty_input : forall k pre h post,
  nth_error (agg_seq k (pre ++ (h, []) :: post)) (length pre) =
  Some (match k with ASum => Ok [(0, 1)] | ANot => Ok [(0, 1)] | ACount => Ok (ints (agg_count h 0)) | _ => Ok [] end).
Proof. exact agg_seq_empty_input. Qed.
Theorem c17_seq_percentile_rank : forall pn pd pre h l post, l <> [] -> 0 < pd -> 0 <= pn <= 100 * pd ->
  exists x, nth_error (agg_seq (APct pn pd) (pre ++ (h, l) :: post)) (length pre) = Some (Ok [(x, 1)]) /\ In x l /\
            rank_elem (Z.min ((zlen l * pn) / (pd * 100)) (zlen l - 1)) l = Some x.
Proof. exact agg_seq_percentile_rank. Qed.
Theorem c17_seq_min_max : forall pre h l post, l <> [] ->
  (exists m, nth_error (agg_seq AMin (pre ++ (h, l) :: post)) (length pre) = Some (Ok [(m, 1)]) /\ is_min m l) /\
  (exists m, nth_error (agg_seq AMax (pre ++ (h, l) :: post)) (length pre) = Some (Ok [(m, 1)]) /\ is_max m l).
Proof. exact agg_seq_min_max. Qed.
Theorem c17_seq_sum_count_mean : forall pre h l post,
  nth_error (agg_seq ASum (pre ++ (h, l) :: post)) (length pre) = Some (Ok [(zsum l, 1)]) /\
  (hint_ok h (zlen l) -> nth_error (agg_seq ACount (pre ++ (h, l) :: post)) (length pre) = Some (Ok [(zlen l, 1)])) /\
  (l <> [] -> nth_error (agg_seq AMean (pre ++ (h, l) :: post)) (length pre) = Some (Ok [(zsum l, zlen l)])).
Proof. exact agg_seq_sum_count_mean. Qed.

(* variants that carry state between applications are refuted: percentile with its sort buffer kept in the aggregator
   value (each application leaves the elements below its index behind), sum / count with a running accumulator, min
   remembering the best value so far *)
Theorem c17_percentile_kept_buffer_refuted : exists pn pd ins, 0 < pd /\ 0 <= pn <= 100 * pd /\
  run_seq (pct_buffered pn pd) ins <> agg_seq (APct pn pd) ins.
Proof. exact pct_buffered_refuted. Qed.
Theorem c17_running_accumulators_refuted :
  (exists ins, run_seq sum_running ins <> agg_seq ASum ins) /\
  (exists ins, run_seq count_running ins <> agg_seq ACount ins) /\
  (exists ins, run_seq min_remembering ins <> agg_seq AMin ins).
Proof. exact running_variants_refuted. Qed.

Example c17_seq_example :
  agg_seq (APct 50 1) w_seq = [Ok [(30, 1)]; Ok [(2, 1)]; Ok []; Ok [(7, 1)]] /\
  run_seq (pct_buffered 50 1) w_seq = [Ok [(30, 1)]; Ok [(3, 1)]; Ok [(2, 1)]; Ok [(7, 1)]] /\
  run_seq (pct_buffered 100 1) w_seq = [Ok [(40, 1)]; Ok [(30, 1)]; Ok [(20, 1)]; Ok [(10, 1)]] /\
  run_seq (pct_buffered 0 1) w_seq = agg_seq (APct 0 1) w_seq /\
  run_seq (pct_buffered_cleared 50 1) w_seq = agg_seq (APct 50 1) w_seq.
Proof. exact pct_buffered_witness. Qed.

Print Assumptions c17_applications_independent. Print Assumptions c17_application_ignores_history.
Print Assumptions c17_output_only_machine_is_function. Print Assumptions c17_seq_empty_input.
Print Assumptions c17_seq_percentile_rank. Print Assumptions c17_seq_min_max. Print Assumptions c17_seq_sum_count_mean.
Print Assumptions c17_percentile_kept_buffer_refuted. Print Assumptions c17_running_accumulators_refuted.
Print Assumptions c17_seq_example.
