(* C17 — property theorems only.  Statements are pinned with Check; proofs are
   one-line references into Agg/AggLaws.v.  Model: Agg/AggModel.v (mirror of
   ascent/src/aggregators.rs, values in Z, panics explicit). *)
From Coq Require Import List ZArith Permutation.
From AV Require Import Agg.AggModel Agg.AggLaws.
Import ListNotations.
Open Scope Z_scope.

(* min / max: nothing on empty input, otherwise the least / greatest element *)
Theorem c17_min : forall l, (l = [] -> agg_min l = []) /\ (l <> [] -> exists m, agg_min l = [m] /\ is_min m l).
Proof. intros l; split; [intros ->; exact agg_min_empty | exact (agg_min_spec l)]. Qed.
Theorem c17_max : forall l, (l = [] -> agg_max l = []) /\ (l <> [] -> exists m, agg_max l = [m] /\ is_max m l).
Proof. intros l; split; [intros ->; exact agg_max_empty | exact (agg_max_spec l)]. Qed.

(* sum: the sum, zero on empty input *)
Theorem c17_sum : forall l, agg_sum l = [zsum l] /\ agg_sum [] = [0].
Proof. intros l; split; [exact (agg_sum_spec l) | exact agg_sum_empty]. Qed.

(* count: the cardinality, for every size hint the iterator may legally report *)
Theorem c17_count : forall hint n, hint_ok hint n -> agg_count hint n = [n].
Proof. exact agg_count_spec. Qed.

(* mean: nothing on empty input, otherwise the rational sum / length *)
Theorem c17_mean : forall l, agg_mean [] = [] /\ (l <> [] -> agg_mean l = [(zsum l, zlen l)] /\ zlen l > 0).
Proof. intros l; split; [exact agg_mean_empty | exact (agg_mean_nonempty l)]. Qed.

(* not: one unit exactly when there is no input *)
Theorem c17_not : forall n, 0 <= n -> (agg_not n = [0] <-> n = 0) /\ (agg_not n = [] <-> n <> 0).
Proof. exact agg_not_spec. Qed.

(* percentile: total for every p (no panic), nothing on empty input, otherwise the element
   of the input whose rank in sorted order is floor(len * p / 100) capped at len - 1 *)
Theorem c17_percentile_total : forall pn pd l, exists r, agg_percentile pn pd l = Ok r.
Proof. exact agg_percentile_total. Qed.
Theorem c17_percentile_empty : forall pn pd, agg_percentile pn pd [] = Ok [].
Proof. exact agg_percentile_empty. Qed.
Theorem c17_percentile_rank : forall pn pd l, l <> [] -> 0 < pd -> 0 <= pn <= 100 * pd ->
  exists x, agg_percentile pn pd l = Ok [x] /\ In x l /\
            rank_elem (Z.min ((zlen l * pn) / (pd * 100)) (zlen l - 1)) l = Some x.
Proof. intros pn pd l; exact (agg_percentile_rank pn pd l). Qed.
Theorem c17_percentile_endpoints : forall pd len, 0 < pd -> 0 < len ->
  pct_index 0 pd len = 0 /\ pct_index (100 * pd) pd len = len - 1.
Proof. exact pct_index_endpoints. Qed.
Theorem c17_rank_monotone : forall k k' l x y, 0 <= k <= k' -> rank_elem k l = Some x -> rank_elem k' l = Some y -> x <= y.
Proof. exact rank_elem_mono. Qed.

(* every aggregator depends only on the multiset of its input (needed by C04) *)
Theorem c17_permutation_invariant : forall l l', Permutation l l' ->
  agg_min l = agg_min l' /\ agg_max l = agg_max l' /\ agg_sum l = agg_sum l' /\ agg_mean l = agg_mean l' /\
  forall pn pd, agg_percentile pn pd l = agg_percentile pn pd l'.
Proof. intros l l' P; repeat split; [exact (agg_min_perm _ _ P) | exact (agg_max_perm _ _ P) | exact (agg_sum_perm _ _ P) | exact (agg_mean_perm _ _ P) | intros; exact (agg_percentile_perm _ _ _ _ P)]. Qed.

(* non-vacuity: a concrete input meets the hypotheses and exercises the end point *)
Example c17_example : agg_percentile 100 1 [3; 1; 2] = Ok [3] /\ agg_percentile 50 1 [3; 1; 2] = Ok [2] /\
  agg_min [3; 1; 2] = [1] /\ agg_mean [3; 1; 2] = [(6, 3)] /\ agg_count (0, None) 3 = [3].
Proof. vm_compute. repeat split. Qed.

Print Assumptions c17_min. Print Assumptions c17_max. Print Assumptions c17_sum. Print Assumptions c17_count.
Print Assumptions c17_mean. Print Assumptions c17_not. Print Assumptions c17_percentile_total.
Print Assumptions c17_percentile_empty. Print Assumptions c17_percentile_rank. Print Assumptions c17_percentile_endpoints.
Print Assumptions c17_rank_monotone. Print Assumptions c17_permutation_invariant. Print Assumptions c17_example.
