(* C16 — property theorems only (work in progress: base types). *)
From Coq Require Import List ZArith Bool.
From AV Require Import Lattice.LatModel.
From AV Require Import Lattice.LatLaws.
From AV Require Import Lattice.LatTotal.
Import ListNotations.
Open Scope Z_scope.

Theorem c16_base_partial : forall lo hi, lo <= hi -> LatOK (IntLat lo hi) /\ LatOK BoolLat /\ LatOK UnitLat.
Proof. intros lo hi H; exact (conj (IntLat_ok lo hi H) (conj BoolLat_ok UnitLat_ok)). Qed.
Print Assumptions c16_base_partial.
