(* C16 — property theorems only.  Statements are pinned here; proofs are one-line references into
   Lattice/*.v.  Model: Lattice/LatModel.v (`denote : lty -> LatImpl`, one Gallina mirror per impl of
   ascent_base/src/lattice.rs and lattice/*.rs).

   Reading guide:  `wf_lty t = true` = the Rust type exists (trait bounds: `Ord` components for tuples,
   OrdLattice, Set and BoundedSet elements, non-empty integer range, BOUND >= 0);  `wf L a` = a is a value of the type (integers in range,
   sets canonical = strictly increasing in the element type's Ord, BoundedSet within its bound, arrays of length N);  `le L a b` = Rust's `a <= b`
   (partial_cmp is Some(Less | Equal));  jv / mv = by-value join / meet;  jm / mm = join_mut / meet_mut as
   (receiver afterwards, returned flag);  bnd = (bottom, top) where BoundedLattice is implemented;
   ocmp = Ord::cmp where Ord is implemented.  Every theorem holds for EVERY well-formed type, i.e. every
   nesting depth, every tuple / Product arity >= 1, every array length, every integer range, every BOUND. *)
From Coq Require Import List ZArith Bool.
From AV Require Import Lattice.LatModel.
From AV Require Import Lattice.LatLaws.
From AV Require Import Lattice.LatTotal.
From AV Require Import Lattice.LatWrap.
From AV Require Import Lattice.LatProd.
From AV Require Import Lattice.LatArr.
From AV Require Import Lattice.LatSet.
From AV Require Import Lattice.LatMain.
Import ListNotations.
Open Scope Z_scope.

(* the per-type obligation (partial order, lub / glb, closure, exact flags, by-value = in-place, extremal
   bounds, cmp = partial_cmp), by induction on the type syntax *)
Theorem c16_laws : forall t, wf_lty t = true -> LatOK (denote t).
Proof. exact denote_ok. Qed.

(* join and meet stay inside the type *)
Theorem c16_closed : forall t, wf_lty t = true -> forall a b, wf (denote t) a -> wf (denote t) b ->
  wf (denote t) (jv (denote t) a b) /\ wf (denote t) (mv (denote t) a b).
Proof. intros t H; exact (law_closed _ (denote_laws t H)). Qed.

Theorem c16_commutative : forall t, wf_lty t = true -> forall a b, wf (denote t) a -> wf (denote t) b ->
  jv (denote t) a b = jv (denote t) b a /\ mv (denote t) a b = mv (denote t) b a.
Proof. intros t H; exact (law_comm _ (denote_laws t H)). Qed.

Theorem c16_associative : forall t, wf_lty t = true -> forall a b c, wf (denote t) a -> wf (denote t) b -> wf (denote t) c ->
  jv (denote t) (jv (denote t) a b) c = jv (denote t) a (jv (denote t) b c) /\
  mv (denote t) (mv (denote t) a b) c = mv (denote t) a (mv (denote t) b c).
Proof. intros t H; exact (law_assoc _ (denote_laws t H)). Qed.

Theorem c16_idempotent : forall t, wf_lty t = true -> forall a, wf (denote t) a ->
  jv (denote t) a a = a /\ mv (denote t) a a = a.
Proof. intros t H; exact (law_idem _ (denote_laws t H)). Qed.

Theorem c16_absorbing : forall t, wf_lty t = true -> forall a b, wf (denote t) a -> wf (denote t) b ->
  jv (denote t) a (mv (denote t) a b) = a /\ mv (denote t) a (jv (denote t) a b) = a.
Proof. intros t H; exact (law_absorb _ (denote_laws t H)). Qed.

(* agreement with the type's PartialOrd: a <= b iff join(a,b) = b iff meet(a,b) = a *)
Theorem c16_order_agreement : forall t, wf_lty t = true -> forall a b, wf (denote t) a -> wf (denote t) b ->
  (le (denote t) a b <-> jv (denote t) a b = b) /\ (le (denote t) a b <-> mv (denote t) a b = a).
Proof. intros t H; exact (law_order _ (denote_laws t H)). Qed.

(* PartialOrd is a partial order; partial_cmp and == are determined by <= *)
Theorem c16_partial_order : forall t, wf_lty t = true ->
  (forall a, wf (denote t) a -> le (denote t) a a) /\
  (forall a b, wf (denote t) a -> wf (denote t) b -> le (denote t) a b -> le (denote t) b a -> a = b) /\
  (forall a b c, wf (denote t) a -> wf (denote t) b -> wf (denote t) c -> le (denote t) a b -> le (denote t) b c -> le (denote t) a c).
Proof. intros t H; exact (conj (law_refl _ (denote_laws t H)) (conj (law_antisym _ (denote_laws t H)) (law_trans _ (denote_laws t H)))). Qed.

Theorem c16_partial_cmp : forall t, wf_lty t = true -> forall a b, wf (denote t) a -> wf (denote t) b ->
  (pcmp (denote t) a b = Some Eq <-> a = b) /\
  (pcmp (denote t) a b = Some Lt <-> le (denote t) a b /\ a <> b) /\
  (pcmp (denote t) a b = Some Gt <-> le (denote t) b a /\ a <> b) /\
  (pcmp (denote t) a b = None <-> ~ le (denote t) a b /\ ~ le (denote t) b a).
Proof. intros t H; exact (law_pcmp _ (denote_laws t H)). Qed.

Theorem c16_eq_structural : forall t, wf_lty t = true -> forall a b, eqb (denote t) a b = true <-> a = b.
Proof. intros t H; exact (law_eq _ (denote_laws t H)). Qed.

(* join is the least upper bound and meet the greatest lower bound of that order *)
Theorem c16_join_is_lub : forall t, wf_lty t = true -> forall a b c, wf (denote t) a -> wf (denote t) b -> wf (denote t) c ->
  le (denote t) a (jv (denote t) a b) /\ le (denote t) b (jv (denote t) a b) /\
  (le (denote t) a c -> le (denote t) b c -> le (denote t) (jv (denote t) a b) c).
Proof. intros t H; exact (law_lub _ (denote_laws t H)). Qed.

Theorem c16_meet_is_glb : forall t, wf_lty t = true -> forall a b c, wf (denote t) a -> wf (denote t) b -> wf (denote t) c ->
  le (denote t) (mv (denote t) a b) a /\ le (denote t) (mv (denote t) a b) b /\
  (le (denote t) c a -> le (denote t) c b -> le (denote t) c (mv (denote t) a b)).
Proof. intros t H; exact (law_glb _ (denote_laws t H)). Qed.

(* join_mut / meet_mut leave the same value as join / meet ... *)
Theorem c16_mut_equals_by_value : forall t, wf_lty t = true -> forall a b, wf (denote t) a -> wf (denote t) b ->
  fst (jm (denote t) a b) = jv (denote t) a b /\ fst (mm (denote t) a b) = mv (denote t) a b.
Proof. intros t H; exact (law_mut_value _ (denote_laws t H)). Qed.

(* ... and return true exactly when the receiver changed *)
Theorem c16_flag_exact : forall t, wf_lty t = true -> forall a b, wf (denote t) a -> wf (denote t) b ->
  (snd (jm (denote t) a b) = true <-> fst (jm (denote t) a b) <> a) /\
  (snd (mm (denote t) a b) = true <-> fst (mm (denote t) a b) <> a).
Proof. intros t H; exact (law_mut_flag _ (denote_laws t H)). Qed.

(* equivalently (what the fix-point engine relies on): no change reported iff the argument was already below / above *)
Theorem c16_flag_order : forall t, wf_lty t = true -> forall a b, wf (denote t) a -> wf (denote t) b ->
  (snd (jm (denote t) a b) = false <-> le (denote t) b a) /\ (snd (mm (denote t) a b) = false <-> le (denote t) a b).
Proof. intros t H a b Ha Hb; exact (conj (jm_flag_le _ (denote_ok t H) a b Ha Hb) (mm_flag_le _ (denote_ok t H) a b Ha Hb)). Qed.

(* top / bottom are the extremal elements (and neutral / absorbing for the operations) *)
Theorem c16_bounds_extremal : forall t, wf_lty t = true -> forall bo tp, bnd (denote t) = Some (bo, tp) ->
  wf (denote t) bo /\ wf (denote t) tp /\
  forall a, wf (denote t) a ->
    le (denote t) bo a /\ le (denote t) a tp /\
    jv (denote t) a tp = tp /\ mv (denote t) a bo = bo /\ jv (denote t) bo a = a /\ mv (denote t) tp a = a.
Proof. intros t H; exact (law_bounds _ (denote_laws t H)). Qed.

(* Dual and Reverse swap the two operations (by-value and in-place, flags included), the order and the bounds *)
Theorem c16_dual_swaps : forall t,
  (forall a b, jv (denote (LDual t)) a b = mv (denote t) a b) /\ (forall a b, mv (denote (LDual t)) a b = jv (denote t) a b) /\
  (forall a b, jm (denote (LDual t)) a b = mm (denote t) a b) /\ (forall a b, mm (denote (LDual t)) a b = jm (denote t) a b) /\
  (forall a b, pcmp (denote (LDual t)) a b = pcmp (denote t) b a) /\
  (forall a b, le (denote (LDual t)) a b <-> le (denote t) b a) /\
  (forall bo tp, bnd (denote t) = Some (bo, tp) -> bnd (denote (LDual t)) = Some (tp, bo)).
Proof. intros t; exact (dual_swaps (denote t)). Qed.

Theorem c16_reverse_swaps : forall t,
  (forall a b, jv (denote (LReverse t)) a b = mv (denote t) a b) /\ (forall a b, mv (denote (LReverse t)) a b = jv (denote t) a b) /\
  (forall a b, jm (denote (LReverse t)) a b = mm (denote t) a b) /\ (forall a b, mm (denote (LReverse t)) a b = jm (denote t) a b) /\
  (forall a b, pcmp (denote (LReverse t)) a b = pcmp (denote t) b a) /\
  (forall a b, le (denote (LReverse t)) a b <-> le (denote t) b a) /\
  (forall bo tp, bnd (denote t) = Some (bo, tp) -> bnd (denote (LReverse t)) = Some (tp, bo)).
Proof. intros t; exact (reverse_swaps (denote t)). Qed.

(* where the type implements Ord, cmp is partial_cmp (the order is total); Ord is implemented exactly by the
   types built from integers, bool, (), Option, Rc, Arc, Box, Reverse, Dual, OrdLattice and tuples *)
Theorem c16_cmp_total : forall t, wf_lty t = true -> forall c, ocmp (denote t) = Some c ->
  forall a b, wf (denote t) a -> wf (denote t) b -> pcmp (denote t) a b = Some (c a b).
Proof. intros t H; exact (law_cmp _ (denote_laws t H)). Qed.
Theorem c16_ord_types : forall t, has_ord (denote t) = ord_lty t.
Proof. exact has_ord_syntactic. Qed.

(* non-vacuity on a nested type: Dual<Option<Product<(i32, bool)>>> is well-formed, the values are values of
   the type, and the model computes (join, meet, join_mut, meet_mut, partial_cmp, bottom/top) *)
Example c16_example :
  let t := LDual (LOption (LProd (LCons i32 (LOne LBool)))) in
  let a : carrier (denote t) := Some (1, true) in
  let b : carrier (denote t) := Some (-2, false) in
  let c : carrier (denote t) := Some (3, false) in
  wf_lty t = true /\ wf (denote t) a /\ wf (denote t) b /\ wf (denote t) c /\
  jv (denote t) a b = Some (-2, false) /\ mv (denote t) a b = Some (1, true) /\
  jm (denote t) a b = (Some (-2, false), true) /\ mm (denote t) a b = (Some (1, true), false) /\
  pcmp (denote t) a b = Some Lt /\ pcmp (denote t) a c = None /\
  jm (denote t) a c = (Some (1, false), true) /\ mm (denote t) a c = (Some (3, true), true) /\
  bnd (denote t) = Some (Some (2147483647, true), None) /\
  wf_lty (LTuple (LCons i32 (LOne (LSet i32)))) = false /\ wf_lty (LSet (LSet i32)) = false /\
  jm (denote (LBSet 2 i32)) (Some [0; 1]) (Some [2]) = (None, true) /\
  jm (denote (LSet i32)) [2] [0; 1] = ([0; 1; 2], true) /\ mm (denote (LSet i32)) [0; 1] [1; 2] = ([1], true) /\
  jm (denote (LSet (LReverse i32))) [2] [1; 0] = ([2; 1; 0], true).
Proof. vm_compute. repeat split. Qed.

Print Assumptions c16_laws. Print Assumptions c16_closed. Print Assumptions c16_commutative. Print Assumptions c16_associative.
Print Assumptions c16_idempotent. Print Assumptions c16_absorbing. Print Assumptions c16_order_agreement.
Print Assumptions c16_partial_order. Print Assumptions c16_partial_cmp. Print Assumptions c16_eq_structural.
Print Assumptions c16_join_is_lub. Print Assumptions c16_meet_is_glb. Print Assumptions c16_mut_equals_by_value.
Print Assumptions c16_flag_exact. Print Assumptions c16_flag_order. Print Assumptions c16_bounds_extremal.
Print Assumptions c16_dual_swaps. Print Assumptions c16_reverse_swaps. Print Assumptions c16_cmp_total.
Print Assumptions c16_ord_types. Print Assumptions c16_example.

(* the CONSUMERS of Ord (Lattice/LatOrdOps.v): on every well-formed type that implements Ord, cmp is antisymmetric, Equal exactly on
   equal values, the order is total, and sorting a pair by cmp / collecting it into a BTreeSet / Ord::max / Ord::min are determined by
   the lattice: [a, b].sort_by(Ord::cmp) = [meet, join], the set iterates meet then join, max = join, min = meet.  (Inside ascent_base
   the tuple lattices' join_mut / meet_mut are such consumers: they go through Ord::cmp of every component type.) *)
From AV Require Import Lattice.LatOrdOps.
Theorem c16_ord_consumers : forall t, wf_lty t = true -> forall c, ocmp (denote t) = Some c ->
  forall a b, wf (denote t) a -> wf (denote t) b ->
    c b a = CompOpp (c a b) /\ (c a b = Eq <-> a = b) /\ (le (denote t) a b \/ le (denote t) b a) /\
    sort2 c a b = (mv (denote t) a b, jv (denote t) a b) /\
    bts2 c a b = (if eqb (denote t) a b then [a] else [mv (denote t) a b; jv (denote t) a b]) /\
    ord_max (denote t) a b = jv (denote t) a b /\ ord_min (denote t) a b = mv (denote t) a b.
Proof. exact ord_consumers. Qed.
(* (Dual<i32>, i32): the pair ((Dual 1, 2), (Dual 3, 0)) - the first is the larger one (lower raw first component) *)
Example c16_ord_consumers_example :
  ord_row (denote (LTuple (LCons (LDual i32) (LOne i32)))) (1, 2)%Z (3, 0)%Z =
    Some (OR Gt Lt (1, 2)%Z (3, 0)%Z ((3, 0)%Z, (1, 2)%Z) [(3, 0)%Z; (1, 2)%Z]).
Proof. vm_compute. reflexivity. Qed.
Print Assumptions c16_ord_consumers. Print Assumptions c16_ord_consumers_example.
