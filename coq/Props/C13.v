(* C13 — run() is idempotent and monotone re-runs equal a fresh run.
   Property theorems only; proofs in Engine/Main.v.  Model of the program value between runs: Engine/Rerun.v
   (rows kept and appended to by the caller; run() rebuilds its indices from the rows — after the fix commit
   949309d in /repo; before it the model refuted idempotence for aggregating programs, see known_findings.json). *)
From Coq Require Import List ZArith Bool.
From AV Require Import Engine.Core Engine.Sem Engine.Eval Engine.Validate Engine.Naive Engine.Interface Engine.Main Engine.Rerun.
From AV Require Import Engine.InterfaceAgg Engine.InterfaceInvariance Engine.EvalSpecAgg Engine.RerunAgg.
Import ListNotations.

(* a second run() on an unmodified program value changes nothing — not even the order of the rows *)
Theorem c13_idempotent : forall (I : interp) (swap : list tuple -> list tuple -> bool) arities P pl,
  arities_functional arities -> no_agg P = true -> validate arities P pl = true ->
  forall fuel fuel' F0 st1 st2, wf_facts arities F0 = true ->
  run_plan I swap fuel pl (init_state F0) = Some st1 ->
  wf_facts arities (rows st1) = true ->
  run_plan I swap fuel' pl st1 = Some st2 ->
  rows st2 = rows st1.
Proof. exact rerun_idempotent. Qed.

(* pushing further facts (into any relation, derived ones included) and running again gives the relations of a
   fresh run on the union of all inputs *)
Theorem c13_incremental : forall (I : interp) (swap : list tuple -> list tuple -> bool) arities P pl,
  arities_functional arities -> no_agg P = true -> validate arities P pl = true ->
  forall fuel fuel' F0 F1 st1 st2 M, wf_facts arities F0 = true ->
  run_plan I swap fuel pl (init_state F0) = Some st1 ->
  wf_facts arities (rows (push_facts F1 st1)) = true ->
  run_plan I swap fuel' pl (push_facts F1 st1) = Some st2 ->
  least_model I P (F0 ++ F1) M ->
  same_set (rows st2) M.
Proof. exact rerun_incremental. Qed.

(* a run only depends on the rows of the program value: the indices left by earlier runs are irrelevant *)
Theorem c13_run_depends_on_rows_only : forall I swap fuel pl st, run_plan I swap fuel pl st = run_plan I swap fuel pl (init_state (rows st)).
Proof. exact run_plan_rows_only. Qed.

(* idempotence also holds with aggregation and negation (duplicate-free input, permutation-invariant aggregators) *)
Theorem c13_idempotent_with_aggregates : forall (I : interp) swap arities P pl fuel fuel' F0 st1 st2,
  arities_functional arities -> wf_facts arities F0 = true -> NoDup F0 -> agg_perm_invariant I ->
  validate arities P pl = true ->
  run_plan I swap fuel pl (init_state F0) = Some st1 ->
  run_plan I swap fuel' pl st1 = Some st2 ->
  rows st2 = rows st1.
Proof. intros I swap. exact (rerun_idempotent_agg I swap (eval_variant_spec_agg I swap)). Qed.

(* ================= per-index state between runs =================
   What a program value carries from one run() to the next is its rows AND its stored index fields.  Engine/IndexedEval.v
   keeps one physical index per (relation, column set) as the generated code does; run() = update_indices (every index reset
   and refilled from the rows) followed by the SCCs.  A second run() leaves the rows unchanged and all indices of a relation
   in agreement; the stored indices after ANY run list exactly the rows (lock-step), whatever the previous run left in them.
   Tied to the real index fields after `run(); push; run()` by gen/indexed_tie.py. *)
From AV Require Engine.IndexedEval.
From AV Require Engine.IndexedRefine.
From AV Require Engine.IndexedLockstep.

Theorem c13_indexed_rerun_idempotent : forall (I : interp) swap decls pl, IndexedEval.plan_idx_ok decls pl = true ->
  forall arities P, arities_functional arities -> no_agg P = true -> validate arities P pl = true ->
  forall fuel fuel' F0 c1 c2, wf_facts arities F0 = true -> NoDup F0 -> (forall f, In f F0 -> IndexedEval.fact_idx_ok decls f = true) ->
  IndexedEval.run_plan_idx I swap fuel pl (IndexedEval.init_istate decls F0) = Some c1 ->
  wf_facts arities (IndexedEval.irows c1) = true -> (forall f, In f (IndexedEval.irows c1) -> IndexedEval.fact_idx_ok decls f = true) ->
  IndexedEval.run_plan_idx I swap fuel' pl c1 = Some c2 ->
  IndexedEval.irows c2 = IndexedEval.irows c1 /\ IndexedRefine.indices_agree (IndexedEval.istored c2).
Proof. exact IndexedRefine.indexed_rerun_idempotent. Qed.

Theorem c13_stored_indices_rebuilt_by_every_run : forall (I : interp) swap decls fuel pl c c', IndexedEval.plan_idx_ok decls pl = true ->
  IndexedSim.pshape (IndexedEval.istored c) = decls -> (forall f, In f (IndexedEval.irows c) -> IndexedEval.fact_idx_ok decls f = true) ->
  IndexedEval.run_plan_idx I swap fuel pl c = Some c' ->
  IndexedRefine.indices_agree (IndexedEval.istored c') /\ IndexedSim.pshape (IndexedEval.istored c') = decls.
Proof. exact IndexedLockstep.indexed_run_indices_agree_any_input. Qed.

Print Assumptions c13_indexed_rerun_idempotent. Print Assumptions c13_stored_indices_rebuilt_by_every_run.

(* Lattice relations: "equal lattice values" and monotone re-runs are the theorems c13_lattice_* at the end of this
   file, about C03's lattice engine model (programs mixing relations and lattices, no aggregation / negation).
   PARTIAL (what is still not a theorem here): programs that combine lattices WITH aggregation / negation, BYODS
   relations and the parallel engine are exercised by their ties only; the lattice theorems need the runs to
   terminate within the fuel (a lattice of infinite height may make the real run() diverge) and carry C03's
   hypotheses (lattice laws - discharged for every shipped type by C16 -, monotone program, validated plan). *)

Print Assumptions c13_idempotent. Print Assumptions c13_incremental. Print Assumptions c13_run_depends_on_rows_only. Print Assumptions c13_idempotent_with_aggregates.

(* ================= lattice relations =================
   Model: LatEngine/LatEval.v run_plan (C03): run() = update_indices (every index rebuilt from the rows; nothing else
   of an earlier run survives, so the program value between runs IS its rows) followed by the SCCs.  Proofs:
   LatEngine/{LatRBase,LatRerun,LatRExample}.v.  Reading guide as in Props/C03.v; input_ok = declared arities, lattice
   columns hold lattice elements, AT MOST ONE ROW PER KEY in every lattice relation. *)
From Coq Require Import Permutation.
From AV Require Import LatEngine.LatSyntax LatEngine.LatEval LatEngine.LatPlan LatEngine.LatSem LatEngine.LatBase LatEngine.LatHead.
From AV Require Import LatEngine.LatKeys LatEngine.LatScc LatEngine.LatMain LatEngine.LatVocab LatEngine.LatExample.
From AV Require Import LatEngine.LatRBase LatEngine.LatRerun LatEngine.LatRExample.
(* the executable histories the tie evaluates next to the real code (gen/c13_lat.py): built and audited with this file *)
From AV Require Import LatEngine.LatRScript.

(* a second run() on the unmodified rows of a TERMINATED run changes nothing: every relation is the same list of rows -
   the same number of rows, equal lattice values, even the same order *)
Theorem c13_lattice_idempotent : forall (V : Type) (I : linterp V) islat lle jm shuffle swap_oracle arities P pl Rin fuel fuel' st1 st2,
  veqb_ok I -> (forall r, islat r = true -> lat_laws (lle r) (jm r)) ->
  (forall n l x, In x (shuffle n l) <-> In x l) ->
  arities_functional arities -> no_agg P = true -> monotone_program I islat lle P ->
  validate arities P pl = true -> lat_plan_ok islat arities pl = true ->
  input_ok I islat lle arities Rin ->
  run_plan I islat jm shuffle swap_oracle fuel pl Rin = Some st1 ->
  run_plan I islat jm shuffle swap_oracle fuel' pl (l_rows st1) = Some st2 ->
  forall r, l_rows st2 r = l_rows st1 r.
Proof.
  intros V I islat lle jm shuffle swap_oracle arities P pl Rin fuel fuel' st1 st2 H1 H2 H3 H4 H5 H6 H7 H8.
  exact (lat_rerun_idempotent I H1 islat lle jm H2 shuffle H3 swap_oracle arities H4 P H5 H6 pl H7 H8 Rin fuel fuel' st1 st2).
Qed.

(* more generally: a run started from ANY legal rows that are closed under the rules changes nothing *)
Theorem c13_lattice_closed_rows_unchanged : forall (V : Type) (I : linterp V) islat lle jm shuffle swap_oracle arities P pl R1 fuel st2,
  veqb_ok I -> (forall r, islat r = true -> lat_laws (lle r) (jm r)) ->
  (forall n l x, In x (shuffle n l) <-> In x l) ->
  arities_functional arities -> no_agg P = true -> monotone_program I islat lle P ->
  validate arities P pl = true -> lat_plan_ok islat arities pl = true ->
  input_ok I islat lle arities R1 -> closedH I islat lle P (dbof R1) ->
  run_plan I islat jm shuffle swap_oracle fuel pl R1 = Some st2 ->
  forall r, l_rows st2 r = R1 r.
Proof.
  intros V I islat lle jm shuffle swap_oracle arities P pl R1 fuel st2 H1 H2 H3 H4 H5 H6 H7 H8.
  exact (closed_run_unchanged I H1 islat lle jm H2 shuffle H3 swap_oracle arities H4 P H5 H6 pl H7 H8 R1 fuel st2).
Qed.

(* monotone re-runs.  lub_of A D B: the facts B are a least directed upper bound of A and D together ("A with the facts
   D joined in": raising lattice values in place by join, pushing rows with new keys - into any relation, derived ones
   included).  run; join Delta into the rows; run  =  ONE fresh run on the input with Delta joined in: the same rows in
   every relation, and for lattice relations the same number of rows.  Guard: the modified rows are a legal input. *)
Theorem c13_lattice_incremental : forall (V : Type) (I : linterp V) islat lle jm shuffle swap_oracle arities P pl
    Rin fuel st1 (Delta : db) R1' Rall fuel2 fuel3 st2 st3,
  veqb_ok I -> (forall r, islat r = true -> lat_laws (lle r) (jm r)) ->
  (forall n l x, In x (shuffle n l) <-> In x l) ->
  arities_functional arities -> no_agg P = true -> monotone_program I islat lle P ->
  validate arities P pl = true -> lat_plan_ok islat arities pl = true ->
  input_ok I islat lle arities Rin -> run_plan I islat jm shuffle swap_oracle fuel pl Rin = Some st1 ->
  input_ok I islat lle arities R1' -> lub_of I islat lle (dbof (l_rows st1)) Delta (dbof R1') ->
  input_ok I islat lle arities Rall -> lub_of I islat lle (dbof Rin) Delta (dbof Rall) ->
  run_plan I islat jm shuffle swap_oracle fuel2 pl R1' = Some st2 ->
  run_plan I islat jm shuffle swap_oracle fuel3 pl Rall = Some st3 ->
  (forall r t, In t (l_rows st2 r) <-> In t (l_rows st3 r)) /\
  (forall r, islat r = true -> Permutation (l_rows st2 r) (l_rows st3 r)).
Proof.
  intros V I islat lle jm shuffle swap_oracle arities P pl Rin fuel st1 Delta R1' Rall fuel2 fuel3 st2 st3 H1 H2 H3 H4 H5 H6 H7 H8.
  exact (lat_rerun_incremental I H1 islat lle jm H2 shuffle H3 swap_oracle arities H4 P H5 H6 pl H7 H8 Rin fuel st1 Delta R1' Rall fuel2 fuel3 st2 st3).
Qed.

(* ... for EVERY history run; modify; run; modify; run ... (hist Rall R: such a history leaves the rows R, and Rall is the
   join of everything the caller ever put in) *)
Theorem c13_lattice_history : forall (V : Type) (I : linterp V) islat lle jm shuffle swap_oracle arities P pl Rall R fuel st,
  veqb_ok I -> (forall r, islat r = true -> lat_laws (lle r) (jm r)) ->
  (forall n l x, In x (shuffle n l) <-> In x l) ->
  arities_functional arities -> no_agg P = true -> monotone_program I islat lle P ->
  validate arities P pl = true -> lat_plan_ok islat arities pl = true ->
  hist I islat lle jm shuffle swap_oracle arities pl Rall R ->
  run_plan I islat jm shuffle swap_oracle fuel pl Rall = Some st ->
  (forall r t, In t (R r) <-> In t (l_rows st r)) /\ (forall r, islat r = true -> Permutation (R r) (l_rows st r)).
Proof.
  intros V I islat lle jm shuffle swap_oracle arities P pl Rall R fuel st H1 H2 H3 H4 H5 H6 H7 H8.
  exact (lat_history_fresh I H1 islat lle jm H2 shuffle H3 swap_oracle arities H4 P H5 H6 pl H7 H8 Rall R fuel st).
Qed.

(* the two concrete caller operations.  Pushing rows F (into any relation) whose keys are new w.r.t. EVERY row present: *)
Theorem c13_lattice_push : forall (V : Type) (I : linterp V) islat lle jm shuffle swap_oracle arities P pl Rin F fuel st1 fuel2 fuel3 st2 st3,
  veqb_ok I -> (forall r, islat r = true -> lat_laws (lle r) (jm r)) ->
  (forall n l x, In x (shuffle n l) <-> In x l) ->
  arities_functional arities -> no_agg P = true -> monotone_program I islat lle P ->
  validate arities P pl = true -> lat_plan_ok islat arities pl = true ->
  input_ok I islat lle arities Rin -> run_plan I islat jm shuffle swap_oracle fuel pl Rin = Some st1 ->
  input_ok I islat lle arities (appr (l_rows st1) F) ->
  run_plan I islat jm shuffle swap_oracle fuel2 pl (appr (l_rows st1) F) = Some st2 ->
  run_plan I islat jm shuffle swap_oracle fuel3 pl (appr Rin F) = Some st3 ->
  (forall r t, In t (l_rows st2 r) <-> In t (l_rows st3 r)) /\
  (forall r, islat r = true -> Permutation (l_rows st2 r) (l_rows st3 r)).
Proof.
  intros V I islat lle jm shuffle swap_oracle arities P pl Rin F fuel st1 fuel2 fuel3 st2 st3 H1 H2 H3 H4 H5 H6 H7 H8.
  exact (lat_rerun_push I H1 islat lle jm H2 shuffle H3 swap_oracle arities H4 P H5 H6 pl H7 H8 Rin F fuel st1 fuel2 fuel3 st2 st3).
Qed.

(* raising the value of input row i of a lattice relation in place (join_mut with v) *)
Theorem c13_lattice_raise : forall (V : Type) (I : linterp V) islat lle jm shuffle swap_oracle arities P pl Rin r i v fuel st1 fuel2 fuel3 st2 st3,
  veqb_ok I -> (forall r, islat r = true -> lat_laws (lle r) (jm r)) ->
  (forall n l x, In x (shuffle n l) <-> In x l) ->
  arities_functional arities -> no_agg P = true -> monotone_program I islat lle P ->
  validate arities P pl = true -> lat_plan_ok islat arities pl = true ->
  input_ok I islat lle arities Rin -> run_plan I islat jm shuffle swap_oracle fuel pl Rin = Some st1 ->
  islat r = true -> lle r v v -> (i < length (Rin r))%nat -> (exists n, arity_ok arities r n = true) ->
  run_plan I islat jm shuffle swap_oracle fuel2 pl (raise_at I jm r i v (l_rows st1)) = Some st2 ->
  run_plan I islat jm shuffle swap_oracle fuel3 pl (raise_at I jm r i v Rin) = Some st3 ->
  (forall q t, In t (l_rows st2 q) <-> In t (l_rows st3 q)) /\
  (forall q, islat q = true -> Permutation (l_rows st2 q) (l_rows st3 q)).
Proof.
  intros V I islat lle jm shuffle swap_oracle arities P pl Rin r i v fuel st1 fuel2 fuel3 st2 st3 H1 H2 H3 H4 H5 H6 H7 H8.
  exact (lat_rerun_raise I H1 islat lle jm H2 shuffle H3 swap_oracle arities H4 P H5 H6 pl H7 H8 Rin r i v fuel st1 fuel2 fuel3 st2 st3).
Qed.

(* REFUTED outside the guard - a genuine misbehaviour of the code (LatRExample.v: remark + experiment crate replaying it
   on the real code): pushing a row whose KEY is already present - here the key of a row DERIVED by the first run; the
   fresh input is legal - leaves two rows for that key, among them the stale row, which a fresh run does not hold:
   the re-run is NOT the fresh run on the union of the inputs and "one row per key" is lost.  update_indices never
   merges rows of one key (the key index keeps the last, the other indices all of them). *)
Theorem c13_lattice_dupkey_refuted :
  exists st1 st2 st3,
    sp_run dk_input = Some st1 /\ sp_run (appr (l_rows st1) dk_push) = Some st2 /\ sp_run (appr dk_input dk_push) = Some st3 /\
    NoDup (map tkey (appr dk_input dk_push 1%nat)) /\
    l_rows st2 1%nat = [[0; 1; 4]; [1; 2; 4]; [0; 2; 5]; [1; 2; 1]]%Z /\
    l_rows st3 1%nat = [[1; 2; 1]; [0; 1; 4]; [0; 2; 5]]%Z /\
    ~ NoDup (map tkey (l_rows st2 1%nat)) /\
    ~ (forall t, In t (l_rows st2 1%nat) -> In t (l_rows st3 1%nat)).
Proof. exact lat_rerun_dupkey_refuted. Qed.

(* non-vacuity: the shortest-path program of c03_example_hypotheses (plan dumped from the real macro), its input is
   legal, the model runs and a second run returns the same 25 distances *)
Example c13_lattice_example_input : input_ok lv_interp sp_islat sp_lle sp_arities sp_input.
Proof. exact sp_input_ok. Qed.
Example c13_lattice_example_runs :
  match sp_run sp_input with
  | Some st1 => option_map (fun st2 => sp_obs (l_rows st2)) (sp_run (l_rows st1)) = Some (sp_obs (l_rows st1)) /\ length (l_rows st1 1%nat) = 25%nat
  | None => False
  end.
Proof. exact sp_rerun_runs. Qed.

Print Assumptions c13_lattice_idempotent. Print Assumptions c13_lattice_closed_rows_unchanged. Print Assumptions c13_lattice_incremental.
Print Assumptions c13_lattice_history. Print Assumptions c13_lattice_push. Print Assumptions c13_lattice_raise.
Print Assumptions c13_lattice_dupkey_refuted. Print Assumptions c13_lattice_example_input. Print Assumptions c13_lattice_example_runs.

(* ================= lattice relations WITH aggregation / negation =================
   Model: LatEngine/LatAggEval.v arun_plan (C04 over lattices: LatEval.v + the MirBodyItem::Agg arm; run() = update_indices
   followed by the SCCs, so the program value between runs IS its rows).  Proofs: LatEngine/LatAggRerun.v (on top of
   LatAggMain.lat_agg_stratified_model and LatParAggMain.strat_lat_model_unique).  For programs with aggregation C13 demands
   idempotence only (a monotone re-run keeps the aggregate results of the earlier run: no `fresh run on the union` statement).
   ainput_ok = declared arities, lattice columns hold lattice elements, at most one row per key in every lattice relation,
   duplicate-free plain relations.  Tied by gen/c13_latagg.py (histories run;run and run;push;run;run of the lattice +
   aggregate family of gen/c04_lat.py on the real code, serial and parallel; model column LatAggRerunScript.lat_agg_script). *)
From AV Require LatEngine.LatAggSem.
From AV Require LatEngine.LatAggTrans.
From AV Require LatEngine.LatAggMain.
From AV Require LatEngine.LatAggRerun.
From AV Require LatEngine.LatAggExample.
From AV Require LatEngine.LatAggRerunExample.
From AV Require Import Engine.InterfaceAgg.
(* the executable histories the tie evaluates next to the real code: built and audited with this file *)
From AV Require LatEngine.LatAggRerunScript.

(* a second run() on the unmodified rows of a TERMINATED run leaves every relation the same rows up to their order: the
   same set, the same number of rows, equal lattice values - also when later strata aggregate / negate lattice relations *)
Theorem c13_lattice_agg_idempotent : forall (V : Type) (I : LatSyntax.linterp V), LatSyntax.veqb_ok I ->
  forall vagg : nat -> list (list V) -> list V, (forall a l l', Permutation l l' -> vagg a l = vagg a l') ->
  forall (islat : rel -> bool) (lle : rel -> V -> V -> Prop) (jm : rel -> V -> V -> V * bool),
  (forall r, islat r = true -> LatSem.lat_laws (lle r) (jm r)) ->
  forall shuffle : nat -> list nat -> list nat, (forall n l x, In x (shuffle n l) <-> In x l) ->
  forall ashuffle : nat -> list nat -> list nat, (forall n l, Permutation (ashuffle n l) l) ->
  forall (swap_oracle : nat -> list nat -> list nat -> bool) (arities : list (rel * nat)), arities_functional arities ->
  forall (P : list rule) (N : var), LatAggSem.amonotone_program I islat lle N P ->
  forall pl : plan, validate arities P pl = true -> LatAggEval.alat_plan_ok islat arities pl = true -> LatAggTrans.plan_below N pl = true ->
  forall (fuel fuel' : nat) (Rin : rel -> list (LatSyntax.vtuple V)) (st1 st2 : LatEval.lstate),
  LatAggMain.ainput_ok I islat lle arities Rin ->
  LatAggEval.arun_plan I vagg islat jm shuffle ashuffle swap_oracle fuel pl Rin = Some st1 ->
  LatAggEval.arun_plan I vagg islat jm shuffle ashuffle swap_oracle fuel' pl (LatEval.l_rows st1) = Some st2 ->
  forall r, Permutation (LatEval.l_rows st2 r) (LatEval.l_rows st1 r).
Proof. exact @LatAggRerun.lat_agg_rerun_idempotent. Qed.

(* why: the rows a terminated run leaves are legal rows closed under the rules of EVERY stratum, the aggregates / negations
   evaluated over those same final rows ... *)
Theorem c13_lattice_agg_run_closed : forall (V : Type) (I : LatSyntax.linterp V), LatSyntax.veqb_ok I ->
  forall vagg : nat -> list (list V) -> list V, (forall a l l', Permutation l l' -> vagg a l = vagg a l') ->
  forall (islat : rel -> bool) (lle : rel -> V -> V -> Prop) (jm : rel -> V -> V -> V * bool),
  (forall r, islat r = true -> LatSem.lat_laws (lle r) (jm r)) ->
  forall shuffle : nat -> list nat -> list nat, (forall n l x, In x (shuffle n l) <-> In x l) ->
  forall ashuffle : nat -> list nat -> list nat, (forall n l, Permutation (ashuffle n l) l) ->
  forall (swap_oracle : nat -> list nat -> list nat -> bool) (arities : list (rel * nat)), arities_functional arities ->
  forall (P : list rule) (N : var), LatAggSem.amonotone_program I islat lle N P ->
  forall pl : plan, validate arities P pl = true -> LatAggEval.alat_plan_ok islat arities pl = true -> LatAggTrans.plan_below N pl = true ->
  forall (fuel : nat) (Rin : rel -> list (LatSyntax.vtuple V)) (st : LatEval.lstate),
  LatAggMain.ainput_ok I islat lle arities Rin ->
  LatAggEval.arun_plan I vagg islat jm shuffle ashuffle swap_oracle fuel pl Rin = Some st ->
  LatAggMain.ainput_ok I islat lle arities (LatEval.l_rows st)
  /\ forall s, In s (plan_strata P pl) -> LatAggSem.aclosedH I vagg islat lle (LatEval.l_rows st) s (LatSem.dbof (LatEval.l_rows st)).
Proof. exact @LatAggRerun.lat_agg_run_closed. Qed.

(* ... and a run started from ANY such rows leaves every relation unchanged *)
Theorem c13_lattice_agg_closed_rows_unchanged : forall (V : Type) (I : LatSyntax.linterp V), LatSyntax.veqb_ok I ->
  forall vagg : nat -> list (list V) -> list V, (forall a l l', Permutation l l' -> vagg a l = vagg a l') ->
  forall (islat : rel -> bool) (lle : rel -> V -> V -> Prop) (jm : rel -> V -> V -> V * bool),
  (forall r, islat r = true -> LatSem.lat_laws (lle r) (jm r)) ->
  forall shuffle : nat -> list nat -> list nat, (forall n l x, In x (shuffle n l) <-> In x l) ->
  forall ashuffle : nat -> list nat -> list nat, (forall n l, Permutation (ashuffle n l) l) ->
  forall (swap_oracle : nat -> list nat -> list nat -> bool) (arities : list (rel * nat)), arities_functional arities ->
  forall (P : list rule) (N : var), LatAggSem.amonotone_program I islat lle N P ->
  forall pl : plan, validate arities P pl = true -> LatAggEval.alat_plan_ok islat arities pl = true -> LatAggTrans.plan_below N pl = true ->
  forall (fuel : nat) (R : rel -> list (LatSyntax.vtuple V)) (st : LatEval.lstate),
  LatAggMain.ainput_ok I islat lle arities R ->
  (forall s, In s (plan_strata P pl) -> LatAggSem.aclosedH I vagg islat lle R s (LatSem.dbof R)) ->
  LatAggEval.arun_plan I vagg islat jm shuffle ashuffle swap_oracle fuel pl R = Some st ->
  forall r, Permutation (LatEval.l_rows st r) (R r).
Proof. exact @LatAggRerun.lat_agg_closed_rows_unchanged. Qed.

(* non-vacuity: shortest paths over Dual (rows raised over several iterations) with a count and a negation over the lattice
   (LatAggExample.v, plan shape of the macro; its hypotheses are discharged there: ag_checks, ag_monotone, ag_input_ok):
   both runs of the model terminate and the second returns the identical five relations; the theorem applies to the first
   run for every fuel of the second *)
Example c13_lattice_agg_example_runs :
  match LatAggRerunExample.ag_run LatAggExample.ag_input with
  | Some st1 => option_map (fun st2 => LatAggRerunExample.ag_obs (LatEval.l_rows st2))
                  (LatAggRerunExample.ag_run (LatAggRerunScript.afreeze LatAggRerunExample.ag_rels (LatEval.l_rows st1)))
                = Some (LatAggRerunExample.ag_obs (LatEval.l_rows st1))
                /\ map (@length _) (LatAggRerunExample.ag_obs (LatEval.l_rows st1)) = [4; 6; 6; 3; 3]%nat
  | None => False
  end.
Proof. exact LatAggRerunExample.ag_rerun_runs. Qed.
Example c13_lattice_agg_example : exists st1,
  LatAggRerunExample.ag_run LatAggExample.ag_input = Some st1
  /\ forall fuel' st2, LatAggEval.arun_plan LatVocab.lv_interp Vocab.std_aint LatExample.sp_islat LatExample.sp_jm LatVocab.lv_shuffle LatVocab.lv_shuffle LatVocab.lv_swap
                         fuel' LatAggExample.ag_plan (LatEval.l_rows st1) = Some st2 ->
     forall r, Permutation (LatEval.l_rows st2 r) (LatEval.l_rows st1 r).
Proof. exact LatAggRerunExample.ag_rerun_instance. Qed.

Print Assumptions c13_lattice_agg_idempotent. Print Assumptions c13_lattice_agg_run_closed. Print Assumptions c13_lattice_agg_closed_rows_unchanged.
Print Assumptions c13_lattice_agg_example_runs. Print Assumptions c13_lattice_agg_example.
