(* C13 — run() is idempotent and monotone re-runs equal a fresh run.
   Property theorems only; proofs in Engine/Main.v.  Model of the program value between runs: Engine/Rerun.v
   (rows kept and appended to by the caller; run() rebuilds its indices from the rows — after the fix commit
   949309d in /repo; before it the model refuted idempotence for aggregating programs, see known_findings.json). *)
From Coq Require Import List ZArith Bool.
From AV Require Import Engine.Core Engine.Sem Engine.Eval Engine.Validate Engine.Naive Engine.Interface Engine.Main Engine.Rerun.
From AV Require Import Engine.InterfaceAgg Engine.InterfaceInvariance Engine.EvalSpecAgg Engine.RerunAgg.
Import ListNotations.

(* a second run() on an unmodified program value changes nothing — not even the order of the rows *)
Theorem c13_idempotent : forall (I : interp) (swap : list tuple -> list tuple -> bool) arities P pl,
  arities_functional arities -> no_agg P = true -> validate arities P pl = true ->
  forall fuel fuel' F0 st1 st2, wf_facts arities F0 = true ->
  run_plan I swap fuel pl (init_state F0) = Some st1 ->
  wf_facts arities (rows st1) = true ->
  run_plan I swap fuel' pl st1 = Some st2 ->
  rows st2 = rows st1.
Proof. exact rerun_idempotent. Qed.

(* pushing further facts (into any relation, derived ones included) and running again gives the relations of a
   fresh run on the union of all inputs *)
Theorem c13_incremental : forall (I : interp) (swap : list tuple -> list tuple -> bool) arities P pl,
  arities_functional arities -> no_agg P = true -> validate arities P pl = true ->
  forall fuel fuel' F0 F1 st1 st2 M, wf_facts arities F0 = true ->
  run_plan I swap fuel pl (init_state F0) = Some st1 ->
  wf_facts arities (rows (push_facts F1 st1)) = true ->
  run_plan I swap fuel' pl (push_facts F1 st1) = Some st2 ->
  least_model I P (F0 ++ F1) M ->
  same_set (rows st2) M.
Proof. exact rerun_incremental. Qed.

(* a run only depends on the rows of the program value: the indices left by earlier runs are irrelevant *)
Theorem c13_run_depends_on_rows_only : forall I swap fuel pl st, run_plan I swap fuel pl st = run_plan I swap fuel pl (init_state (rows st)).
Proof. exact run_plan_rows_only. Qed.

(* idempotence also holds with aggregation and negation (duplicate-free input, permutation-invariant aggregators) *)
Theorem c13_idempotent_with_aggregates : forall (I : interp) swap arities P pl fuel fuel' F0 st1 st2,
  arities_functional arities -> wf_facts arities F0 = true -> NoDup F0 -> agg_perm_invariant I ->
  validate arities P pl = true ->
  run_plan I swap fuel pl (init_state F0) = Some st1 ->
  run_plan I swap fuel' pl st1 = Some st2 ->
  rows st2 = rows st1.
Proof. intros I swap. exact (rerun_idempotent_agg I swap (eval_variant_spec_agg I swap)). Qed.

(* PARTIAL: "equal lattice values" for lattice relations is not a theorem here (C03's model is separate); lattice
   and BYODS programs are exercised by their own ties. *)

Print Assumptions c13_idempotent. Print Assumptions c13_incremental. Print Assumptions c13_run_depends_on_rows_only. Print Assumptions c13_idempotent_with_aggregates.
