(* C10 — a relation tagged #[ds(ascent_byods_rels::eqrel)] behaves as its explicit equivalence closure.

   Model: Byods/EqRelModel.v (union_find.rs EqRel with path compression; eqrel_ind.rs old/combined pair, its
   views and merge; ceqrel_ind.rs parallel wrapper; eqrel_ternary.rs per-key map + reverse map AS WRITTEN, driven
   the way ascent_codegen.rs drives a provider).  Interface: Byods/Provider.v, laws P1-P5 over what the views
   return, for a closure operator; closure: Byods/Closure.v.  Proofs: Byods/EqRelUF.v (union-find), EqRelProofs.v
   (binary provider), EqRelPar.v (parallel wrapper), Ternary.v (generic per-key lifting), EqRelTernary.v.

   What is a theorem here and what is carried by the tie (gen/props/c10.py):
   * PROVED, for every history of insertions / merges / stratum boundaries (no bound on length, element or class
     count; every schedule of concurrent insertions is a history because one insertion is one atomic step):
     the binary provider, serial and parallel, satisfies P1-P5 with cl = equivalence closure on mentioned
     elements, every view ([0,1], [0], [1], none; index_get, iter_all, contains_key) being proved against the
     closure; the parallel wrapper never panics; the per-key lifting of ANY provider that meets the laws meets
     them with the per-key closure, provided the merge keeps every key's versions.
   * REFUTED (computed witnesses, replayed on the real code by the tie): the ternary structure as written.
   * `_partial`: the statement of the property itself is about PROGRAMS ("run() leaves exactly the least model of
     the program plus the explicit reflexivity / symmetry / transitivity rules, and every rule reading the
     relation derives what it would derive from that explicit relation").  That is the composition of the
     provider laws with the engine theorem:

       engine_with_providers :
         validate arities P pl = true -> every `ds` relation r of P is served by a provider meeting
         provider_ok with closure cl_r -> run_plan_ds fuel pl (init_state F0) = Some st ->
         least_model I (P ++ closure_rules P) F0 (rows st ++ what the providers' totals serve)

     It needs (1) an engine model `run_plan_ds` (Engine/Eval.v extended) in which a clause over a ds relation reads
     `p_get / p_all` of the provider state instead of an index of the shared multiset, the head update is
     `p_contains total || p_contains delta || p_ins`, and the per-iteration / per-stratum protocol is PMerge /
     PRestart; (2) Engine/EvalSpec.v's eval_variant_spec for such clauses, from P4 (a Delta position may be
     over-approximated inside total + delta: sound because total + delta is inside every closed superset, harmless
     for completeness), P5; (3) Engine/SemiNaive.v's stratum invariant with "closed" extended by the closure rules:
     Provider.merge_total is (SN) for the closure rules, Provider.served_closed is their closedness at every loop
     head, Provider.quiescent_exit / first_insert_succeeds give "changed = false => the stored total is closed",
     Provider.restart_serves hands the relation to the next stratum.  The provider-side lemmas are proved below
     (the c10_engine_facing theorems); the engine-side extension is not done: the program-level statement is carried by the
     PROG half of the tie (tagged program vs explicit program against the specification oracle). *)
From Coq Require Import List ZArith Bool.
From AV Require Import Byods.EqRelModel.
From AV Require Import Byods.EqRelUF.
From AV Require Import Byods.Closure.
From AV Require Import Byods.Provider.
From AV Require Import Byods.EqRelProofs.
From AV Require Import Byods.EqRelPar.
From AV Require Import Byods.Ternary.
From AV Require Import Byods.EqRelTernary.
Import ListNotations.
Open Scope Z_scope.

(* the closure the laws speak about is the one of the explicit rules: least relation containing the pairs,
   reflexive on mentioned elements, symmetric, transitive; and it is a closure operator *)
Theorem c10_closure_is_explicit_rules : forall l x y, In (x, y) (eqv l) <-> eqv_rel l x y.
Proof. exact eqv_spec. Qed.
Theorem c10_closure_operator : closure_op T2 eqv.
Proof. exact eqv_closure_op. Qed.

(* union_find.rs: add joins the classes of its arguments (and nothing else), reports false exactly when they were
   already related; path compression does not change the relation; the invariant is kept *)
Theorem c10_union_find_add : forall e x y, wf e ->
  wf (fst (e_add e x y)) /\ (forall a b, erel (fst (e_add e x y)) a b <-> joined e x y a b)
  /\ snd (e_add e x y) = negb (e_contains e x y).
Proof. exact e_add_spec. Qed.

(* binary form, serial: P1-P5 for every history *)
Theorem c10_eqrel_binary_provider_ok_partial : provider_ok T2 eqrel_binary eqv.
Proof. exact eqrel_binary_provider_ok. Qed.

(* binary form, parallel: the same laws (insertions are atomic steps), and no panic on the protocol *)
Theorem c10_eqrel_par_provider_ok_partial : provider_ok T2 eqrel_par eqv.
Proof. exact eqrel_par_provider_ok. Qed.
Theorem c10_eqrel_par_never_panics : forall h,
  (forall x y, exists r, p_insert (run T2 eqrel_par h) x y = Ok r)
  /\ (exists s', EqRelModel.p_merge (run T2 eqrel_par h) = Ok s')
  /\ (exists d t, unwrap_frozen (EqRelModel.p_delta (run T2 eqrel_par h)) = Ok d /\ unwrap_frozen (EqRelModel.p_total (run T2 eqrel_par h)) = Ok t).
Proof. exact eqrel_par_never_panics. Qed.

(* what the engine consumes from the laws (any provider, any closure operator) *)
Theorem c10_engine_facing_merge : forall (P : provider T2) cl, provider_ok T2 P cl ->
  forall h, same_set (p_read T2 P (run T2 P (h ++ [PMerge])) VTotal) (served T2 P (run T2 P h)).
Proof. intros P cl H h. exact (merge_total T2 P cl H h). Qed.
Theorem c10_engine_facing_closed : forall (P : provider T2) cl, closure_op T2 cl -> provider_ok T2 P cl ->
  forall h, incl (cl (served T2 P (run T2 P h))) (served T2 P (run T2 P h)).
Proof. intros P cl Hc H h. exact (served_closed T2 P cl Hc H h). Qed.
Theorem c10_engine_facing_exit : forall (P : provider T2) cl, provider_ok T2 P cl ->
  forall h, g_new T2 (ghost_of T2 h) = [] ->
  same_set (p_read T2 P (run T2 P (h ++ [PMerge])) VTotal) (served T2 P (run T2 P (h ++ [PMerge]))).
Proof. intros P cl H h Hn. exact (quiescent_exit T2 P cl H h Hn). Qed.
Theorem c10_engine_facing_first_insert : forall (P : provider T2) cl, closure_op T2 cl -> provider_ok T2 P cl ->
  forall h t s' b, g_new T2 (ghost_of T2 h) = [] -> p_ins T2 P (run T2 P h) t = (s', b) -> b = true.
Proof. intros P cl Hc H h t s' b. exact (first_insert_succeeds T2 P cl Hc H h t s' b). Qed.
Theorem c10_engine_facing_restart : forall (P : provider T2) cl, closure_op T2 cl -> provider_ok T2 P cl ->
  forall h, same_set (served T2 P (run T2 P (h ++ [PRestart]))) (p_read T2 P (run T2 P h) VTotal)
            /\ p_read T2 P (run T2 P (h ++ [PRestart])) VTotal = [].
Proof. intros P cl Hc H h. exact (restart_serves T2 P cl Hc H h). Qed.

(* per-key lifting: a map from the first column to providers meeting the laws meets them with the per-key
   closure, IF the merge applies the binary merge to every key and keeps the result (Ternary.l_merge) *)
Theorem c10_ternary_lifting : forall (T : Type) (B : provider T) cl, closure_op T cl -> provider_ok T B cl ->
  provider_ok (T3 T) (lift T B) (cl3 T cl) /\ closure_op (T3 T) (cl3 T cl).
Proof. intros T B cl Hc H. split; [exact (lift_provider_ok T B cl Hc H)|exact (cl3_closure_op T cl Hc)]. Qed.
Theorem c10_eqrel_ternary_lifted_ok : provider_ok T3z eqrel_ternary_lifted eqv3.
Proof. exact eqrel_ternary_lifted_ok. Qed.

(* the ternary structure as written does not meet the laws: neither its merge alone (F1: the merged delta of a
   key is dropped) nor as driven by generated code (the full-index write view merges a second time), and
   iter_all of the view on columns [1,2] is unsound *)
Theorem c10_ternary_refuted :
  ~ provider_ok T3z (eqrel_ternary_real false) eqv3 /\ ~ provider_ok T3z (eqrel_ternary_real true) eqv3.
Proof. split; [exact ternary_merge_refuted|exact ternary_protocol_refuted]. Qed.
Theorem c10_ternary_refuted_witness_f1 :
  In (0, (1, 2)) (eqv3 (g_td T3z (ghost_of T3z h_f1)))
  /\ ~ In (0, (1, 2)) (served T3z (eqrel_ternary_real false) (run T3z (eqrel_ternary_real false) h_f1))
  /\ ~ In (0, (1, 2)) (p_read T3z (eqrel_ternary_real false) (run T3z (eqrel_ternary_real false) (h_f1 ++ [PMerge])) VTotal).
Proof. split; [exact f1_in_closure|split; [exact f1_not_served|exact f1_lost]]. Qed.
Theorem c10_ternary_refuted_witness_protocol :
  In (0, (0, 1)) (eqv3 (g_td T3z (ghost_of T3z h_twice2)))
  /\ ~ In (0, (0, 1)) (served T3z (eqrel_ternary_real true) (run T3z (eqrel_ternary_real true) h_twice2)).
Proof. exact twice_loses. Qed.
Theorem c10_ternary_refuted_ind12 : forall b,
  exists l, In (TV12 0 1, l) (p_all T3z (eqrel_ternary_real b) (run T3z (eqrel_ternary_real b) h_i12) VTotal TI12) /\ In (1, (0, 1)) l
            /\ ~ In (1, (0, 1)) (served T3z (eqrel_ternary_real b) (run T3z (eqrel_ternary_real b) h_i12)).
Proof. intros b. destruct (i12_entry b) as [l [H1 H2]]. exists l. split; [exact H1|split; [exact H2|exact (i12_not_served b)]]. Qed.

(* non-vacuity: a history with facts for one class over two rounds, a stratum boundary, and the readings *)
Example c10_example_binary :
  let h := [PIns (0, 1); PMerge; PIns (1, 2); PIns (0, 2); PMerge] in
  p_read T2 eqrel_binary (run T2 eqrel_binary h) VTotal = [(0, 0); (1, 0); (0, 1); (1, 1)]
  /\ length (p_read T2 eqrel_binary (run T2 eqrel_binary h) VDelta) = 5%nat
  /\ length (eqv (g_td T2 (ghost_of T2 h))) = 9%nat
  /\ bget (run T2 eqrel_binary h) VDelta (VI0 0) = Some [(0, 2)]
  /\ p_read T2 eqrel_binary (run T2 eqrel_binary (h ++ [PMerge; PRestart])) VTotal = [].
Proof. vm_compute. repeat split. Qed.
Example c10_example_lifted_keeps_what_real_loses :
  In (0, (1, 2)) (served T3z eqrel_ternary_lifted (run T3z eqrel_ternary_lifted h_f1)).
Proof. exact lifted_keeps_f1. Qed.

Print Assumptions c10_closure_is_explicit_rules. Print Assumptions c10_closure_operator.
Print Assumptions c10_union_find_add.
Print Assumptions c10_eqrel_binary_provider_ok_partial. Print Assumptions c10_eqrel_par_provider_ok_partial.
Print Assumptions c10_eqrel_par_never_panics.
Print Assumptions c10_engine_facing_merge. Print Assumptions c10_engine_facing_closed. Print Assumptions c10_engine_facing_exit.
Print Assumptions c10_engine_facing_first_insert. Print Assumptions c10_engine_facing_restart.
Print Assumptions c10_ternary_lifting. Print Assumptions c10_eqrel_ternary_lifted_ok.
Print Assumptions c10_ternary_refuted. Print Assumptions c10_ternary_refuted_witness_f1.
Print Assumptions c10_ternary_refuted_witness_protocol. Print Assumptions c10_ternary_refuted_ind12.
Print Assumptions c10_example_binary. Print Assumptions c10_example_lifted_keeps_what_real_loses.
