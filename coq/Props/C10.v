(* C10 placeholder while the proofs are being built *)
From Coq Require Import List ZArith.
From AV Require Import Byods.EqRelModel.
