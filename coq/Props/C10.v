(* C10 — a relation tagged #[ds(ascent_byods_rels::eqrel)] behaves as its explicit equivalence closure.

   Model: Byods/EqRelModel.v (union_find.rs EqRel with path compression; eqrel_ind.rs old/combined pair, its
   views and merge; ceqrel_ind.rs parallel wrapper; eqrel_ternary.rs per-key map + reverse map, as repaired by
   /repo commits bfc5173 0f251c7 539a1e3 187eab3 c6810ff, driven the way ascent_codegen.rs drives a provider).
   Interface: Byods/Provider.v, laws P1-P5 over what the views return, for a closure operator; closure:
   Byods/Closure.v.  Proofs: Byods/EqRelUF.v (union-find), EqRelProofs.v (binary provider), EqRelPar.v (parallel
   wrapper), Ternary.v (generic per-key lifting), EqRelTernary.v (ternary provider), EqRelTernaryBeforeFix.v.

   PROVED, for every history of insertions / merges / stratum boundaries (no bound on length, keys, elements or
   classes; keys come, pause and resume in any order; every schedule of concurrent insertions is a history because
   one insertion is one atomic step): the binary provider (serial and parallel) and the ternary provider satisfy
   P1-P5 with cl = (per-key) equivalence closure on mentioned elements, every view — binary [0,1] [0] [1] none,
   ternary [0,1,2] none [0] [0,1] [0,2] and, through the reverse map, [1] [2] [1,2]; index_get, iter_all,
   contains_key — being proved against the closure; neither the parallel wrapper nor the reverse-map views panic.

   The statement of the property itself is about PROGRAMS: "run() leaves exactly the least model of the program
   plus the explicit reflexivity / symmetry / transitivity rules, and every rule reading the relation derives what
   it would derive from that explicit relation".  This is a theorem too (engine_with_providers):
   Engine/EvalProv.v is the engine model with one provider-backed relation r0 (rules read p_read of total / delta,
   the head update is contains_key(total) || contains_key(delta) || insert_if_not_present(new), PMerge per
   iteration, PRestart per stratum), Engine/ProvProofs.v proves `prun_plan_correct` from `provider_ok`, and
   Byods/EqRelProgram.v instantiates it with the proved providers transported to `list Z` tuples
   (Byods/Transport.v) and proves that being closed under the closure operator IS being closed under the explicit
   rules as Engine/Core.v rules (rules2 / rules3, per key for the ternary form):
     c10_program_binary / _binary_par / _ternary    least_model_cl I P cl r0 F0 (pfacts ...)
     c10_bridge_binary / _ternary                    least_model_cl I P cl r0 F0 M <-> least_model I (P ++ rules r0) F0 M
     c10_binary_is_explicit_closure / ...            the two composed: the property's wording.
   Scope of the program-level theorems: programs without aggregates, one tagged relation, input without rows of
   the tagged relation (it has no Vec), every interpretation of the expression symbols, every join-order oracle,
   every plan accepted by the validator, every terminating run.  The parallel provider appears as a sequential
   provider of atomic insertions inside the SERIAL engine model; the parallel engine around it (rayon iteration,
   concurrent head updates of the plain relations) is C02's subject.  What remains carried by the tie only:
   the correspondence of the models (provider and engine) with the real code, keyed-view use by generated code
   (the engine model reads through p_read; P4 relates the keyed views to it), aggregates over the tagged relation. *)
From Coq Require Import List ZArith Bool.
From AV Require Import Engine.Core.
From AV Require Import Engine.Sem.
From AV Require Import Engine.Validate.
From AV Require Import Engine.Naive.
From AV Require Import Engine.EvalProv.
From AV Require Import Engine.InterfaceProv.
From AV Require Import Byods.EqRelModel.
From AV Require Import Byods.EqRelUF.
From AV Require Import Byods.Closure.
From AV Require Import Byods.Provider.
From AV Require Import Byods.EqRelProofs.
From AV Require Import Byods.EqRelPar.
From AV Require Import Byods.Ternary.
From AV Require Import Byods.EqRelTernary.
From AV Require Import Byods.EqRelTernaryBeforeFix.
From AV Require Import Byods.EqRelProgram.
Import ListNotations.
Open Scope Z_scope.

(* the closure the laws speak about is the one of the explicit rules: least relation containing the pairs,
   reflexive on mentioned elements, symmetric, transitive; and it is a closure operator *)
Theorem c10_closure_is_explicit_rules : forall l x y, In (x, y) (eqv l) <-> eqv_rel l x y.
Proof. exact eqv_spec. Qed.
Theorem c10_closure_operator : closure_op T2 eqv.
Proof. exact eqv_closure_op. Qed.

(* union_find.rs: add joins the classes of its arguments (and nothing else), reports false exactly when they were
   already related; path compression does not change the relation; the invariant is kept *)
Theorem c10_union_find_add : forall e x y, wf e ->
  wf (fst (e_add e x y)) /\ (forall a b, erel (fst (e_add e x y)) a b <-> joined e x y a b)
  /\ snd (e_add e x y) = negb (e_contains e x y).
Proof. exact e_add_spec. Qed.

(* binary form, serial: P1-P5 for every history *)
Theorem c10_eqrel_binary_provider_ok : provider_ok T2 eqrel_binary eqv.
Proof. exact eqrel_binary_provider_ok. Qed.

(* binary form, parallel: the same laws (insertions are atomic steps), and no panic on the protocol *)
Theorem c10_eqrel_par_provider_ok : provider_ok T2 eqrel_par eqv.
Proof. exact eqrel_par_provider_ok. Qed.
Theorem c10_eqrel_par_never_panics : forall h,
  (forall x y, exists r, p_insert (run T2 eqrel_par h) x y = Ok r)
  /\ (exists s', EqRelModel.p_merge (run T2 eqrel_par h) = Ok s')
  /\ (exists d t, unwrap_frozen (EqRelModel.p_delta (run T2 eqrel_par h)) = Ok d /\ unwrap_frozen (EqRelModel.p_total (run T2 eqrel_par h)) = Ok t).
Proof. exact eqrel_par_never_panics. Qed.

(* what the engine consumes from the laws (any provider, any closure operator) *)
Theorem c10_engine_facing_merge : forall (P : provider T2) cl, provider_ok T2 P cl ->
  forall h, same_set (p_read T2 P (run T2 P (h ++ [PMerge])) VTotal) (served T2 P (run T2 P h)).
Proof. intros P cl H h. exact (merge_total T2 P cl H h). Qed.
Theorem c10_engine_facing_closed : forall (P : provider T2) cl, closure_op T2 cl -> provider_ok T2 P cl ->
  forall h, incl (cl (served T2 P (run T2 P h))) (served T2 P (run T2 P h)).
Proof. intros P cl Hc H h. exact (served_closed T2 P cl Hc H h). Qed.
Theorem c10_engine_facing_exit : forall (P : provider T2) cl, provider_ok T2 P cl ->
  forall h, g_new T2 (ghost_of T2 h) = [] ->
  same_set (p_read T2 P (run T2 P (h ++ [PMerge])) VTotal) (served T2 P (run T2 P (h ++ [PMerge]))).
Proof. intros P cl H h Hn. exact (quiescent_exit T2 P cl H h Hn). Qed.
Theorem c10_engine_facing_first_insert : forall (P : provider T2) cl, closure_op T2 cl -> provider_ok T2 P cl ->
  forall h t s' b, g_new T2 (ghost_of T2 h) = [] -> p_ins T2 P (run T2 P h) t = (s', b) -> b = true.
Proof. intros P cl Hc H h t s' b. exact (first_insert_succeeds T2 P cl Hc H h t s' b). Qed.
Theorem c10_engine_facing_restart : forall (P : provider T2) cl, closure_op T2 cl -> provider_ok T2 P cl ->
  forall h, same_set (served T2 P (run T2 P (h ++ [PRestart]))) (p_read T2 P (run T2 P h) VTotal)
            /\ p_read T2 P (run T2 P (h ++ [PRestart])) VTotal = [].
Proof. intros P cl Hc H h. exact (restart_serves T2 P cl Hc H h). Qed.

(* per-key lifting: a map from the first column to providers meeting the laws meets them with the per-key
   closure, IF the merge applies the binary merge to every key and keeps the result (Ternary.l_merge) *)
Theorem c10_ternary_lifting : forall (T : Type) (B : provider T) cl, closure_op T cl -> provider_ok T B cl ->
  provider_ok (T3 T) (lift T B) (cl3 T cl) /\ closure_op (T3 T) (cl3 T cl).
Proof. intros T B cl Hc H. split; [exact (lift_provider_ok T B cl Hc H)|exact (cl3_closure_op T cl Hc)]. Qed.
Theorem c10_eqrel_ternary_lifted_ok : provider_ok T3z eqrel_ternary_lifted eqv3.
Proof. exact eqrel_ternary_lifted_ok. Qed.

(* ternary form (EqRel2IndCommon with reverse map, as repaired): P1-P5 with the per-key equivalence closure for
   every history; every keyed and key-free view incl. [2] and the filtered iter_all of [1,2]; the reverse-map
   views of delta and of total never hit Option::unwrap on None *)
Theorem c10_eqrel_ternary_provider_ok : provider_ok T3z eqrel_ternary eqv3.
Proof. exact eqrel_ternary_provider_ok. Qed.
Theorem c10_eqrel_ternary_closure : closure_op T3z eqv3 /\ forall k t l, In (k, t) (eqv3 l) <-> In t (eqv (proj T2 k l)).
Proof. split; [exact eqv3_closure_op|intros k t l; exact (cl3_in T2 eqv eqv_closure_op k t l)]. Qed.
Theorem c10_eqrel_ternary_never_panics : forall h v,
  (forall x, exists l, tv_ind1_get (tver (run T3z eqrel_ternary h) v) x = None \/ tv_ind1_get (tver (run T3z eqrel_ternary h) v) x = Some (Ok l))
  /\ (exists l, tv_ind1_all (tver (run T3z eqrel_ternary h) v) = Ok l)
  /\ (forall x y, exists l, tv_ind12_get (tver (run T3z eqrel_ternary h) v) x y = None \/ tv_ind12_get (tver (run T3z eqrel_ternary h) v) x y = Some (Ok l)).
Proof. exact eqrel_ternary_never_panics. Qed.
(* the real structure is, key by key and step for step, the binary provider on the key's part of the history *)
Theorem c10_eqrel_ternary_is_per_key_binary : forall h k,
  mkB (get_or_default k (t_map (ts_new (run T3z eqrel_ternary h)))) (get_or_default k (t_map (ts_delta (run T3z eqrel_ternary h))))
      (get_or_default k (t_map (ts_total (run T3z eqrel_ternary h)))) = run T2 eqrel_binary (hproj T2 k h).
Proof. intros h k. exact (ti_sim h _ (tinv_run h) k). Qed.

(* BEFORE the repairs the ternary structure did not meet the laws (old definitions of the model; record only) *)
Theorem c10_ternary_refuted_before_fix :
  ~ provider_ok T3z (eqrel_ternary_before_fix false) eqv3 /\ ~ provider_ok T3z (eqrel_ternary_before_fix true) eqv3.
Proof. split; [exact ternary_merge_refuted_before_fix|exact ternary_protocol_refuted_before_fix]. Qed.
Theorem c10_ternary_ind12_refuted_before_fix : forall b,
  exists l, In (TV12 0 1, l) (p_all T3z (eqrel_ternary_before_fix b) (run T3z (eqrel_ternary_before_fix b) h_i12) VTotal TI12) /\ In (1, (0, 1)) l
            /\ ~ In (1, (0, 1)) (served T3z (eqrel_ternary_before_fix b) (run T3z (eqrel_ternary_before_fix b) h_i12)).
Proof. exact ternary_i12_refuted_before_fix. Qed.

(* ------------------------------------------------------------------ programs (engine_with_providers) *)
(* binary form, serial *)
Theorem c10_program_binary : forall (I : interp) (swap : list tuple -> list tuple -> bool) (r0 : Core.rel) arities P pl fuel F0 st,
  In (r0, 2%nat) arities -> arities_functional arities -> wf_facts arities F0 = true -> no_agg P = true ->
  (forall f, In f F0 -> fst f <> r0) -> validate arities P pl = true ->
  prun_plan I swap eqrel_binary_tuple r0 fuel pl F0 = Some st ->
  least_model_cl I P eqv_cl2 r0 F0 (pfacts eqrel_binary_tuple r0 st).
Proof. exact program_binary. Qed.
(* binary form, the parallel provider as a sequential provider of atomic steps (the parallel engine is C02's subject) *)
Theorem c10_program_binary_par : forall (I : interp) (swap : list tuple -> list tuple -> bool) (r0 : Core.rel) arities P pl fuel F0 st,
  In (r0, 2%nat) arities -> arities_functional arities -> wf_facts arities F0 = true -> no_agg P = true ->
  (forall f, In f F0 -> fst f <> r0) -> validate arities P pl = true ->
  prun_plan I swap eqrel_par_tuple r0 fuel pl F0 = Some st ->
  least_model_cl I P eqv_cl2 r0 F0 (pfacts eqrel_par_tuple r0 st).
Proof. exact program_binary_par. Qed.
(* ternary form *)
Theorem c10_program_ternary : forall (I : interp) (swap : list tuple -> list tuple -> bool) (r0 : Core.rel) arities P pl fuel F0 st,
  In (r0, 3%nat) arities -> arities_functional arities -> wf_facts arities F0 = true -> no_agg P = true ->
  (forall f, In f F0 -> fst f <> r0) -> validate arities P pl = true ->
  prun_plan I swap eqrel_ternary_tuple r0 fuel pl F0 = Some st ->
  least_model_cl I P eqv_cl3 r0 F0 (pfacts eqrel_ternary_tuple r0 st).
Proof. exact program_ternary. Qed.

(* the bridge to the property's wording: least model with the closure operator on r0 = least model of the program
   extended with the explicit rules
     rules2 r0:  eq(x,x), eq(y,y), eq(y,x) <-- eq(x,y);        eq(x,z) <-- eq(x,y), eq(y,z);
     rules3 r0:  eq(k,x,x), eq(k,y,y), eq(k,y,x) <-- eq(k,x,y);  eq(k,x,z) <-- eq(k,x,y), eq(k,y,z);   *)
Theorem c10_bridge_binary : forall (I : interp) P (r0 : Core.rel) F0 M,
  least_model_cl I P eqv_cl2 r0 F0 M <-> least_model I (P ++ rules2 r0) F0 M.
Proof. exact bridge_binary. Qed.
Theorem c10_bridge_ternary : forall (I : interp) P (r0 : Core.rel) F0 M,
  least_model_cl I P eqv_cl3 r0 F0 M <-> least_model I (P ++ rules3 r0) F0 M.
Proof. exact bridge_ternary. Qed.

(* composed: what the program value holds after run() is the least model of the program with the explicit rules *)
Theorem c10_binary_is_explicit_closure : forall (I : interp) (swap : list tuple -> list tuple -> bool) (r0 : Core.rel) arities P pl fuel F0 st,
  In (r0, 2%nat) arities -> arities_functional arities -> wf_facts arities F0 = true -> no_agg P = true ->
  (forall f, In f F0 -> fst f <> r0) -> validate arities P pl = true ->
  prun_plan I swap eqrel_binary_tuple r0 fuel pl F0 = Some st ->
  least_model I (P ++ rules2 r0) F0 (pfacts eqrel_binary_tuple r0 st).
Proof. intros I swap r0 arities P pl fuel F0 st H1 H2 H3 H4 H5 H6 H7. apply bridge_binary. exact (program_binary I swap r0 arities P pl fuel F0 st H1 H2 H3 H4 H5 H6 H7). Qed.
Theorem c10_binary_par_is_explicit_closure : forall (I : interp) (swap : list tuple -> list tuple -> bool) (r0 : Core.rel) arities P pl fuel F0 st,
  In (r0, 2%nat) arities -> arities_functional arities -> wf_facts arities F0 = true -> no_agg P = true ->
  (forall f, In f F0 -> fst f <> r0) -> validate arities P pl = true ->
  prun_plan I swap eqrel_par_tuple r0 fuel pl F0 = Some st ->
  least_model I (P ++ rules2 r0) F0 (pfacts eqrel_par_tuple r0 st).
Proof. intros I swap r0 arities P pl fuel F0 st H1 H2 H3 H4 H5 H6 H7. apply bridge_binary. exact (program_binary_par I swap r0 arities P pl fuel F0 st H1 H2 H3 H4 H5 H6 H7). Qed.
Theorem c10_ternary_is_explicit_closure : forall (I : interp) (swap : list tuple -> list tuple -> bool) (r0 : Core.rel) arities P pl fuel F0 st,
  In (r0, 3%nat) arities -> arities_functional arities -> wf_facts arities F0 = true -> no_agg P = true ->
  (forall f, In f F0 -> fst f <> r0) -> validate arities P pl = true ->
  prun_plan I swap eqrel_ternary_tuple r0 fuel pl F0 = Some st ->
  least_model I (P ++ rules3 r0) F0 (pfacts eqrel_ternary_tuple r0 st).
Proof. intros I swap r0 arities P pl fuel F0 st H1 H2 H3 H4 H5 H6 H7. apply bridge_ternary. exact (program_ternary I swap r0 arities P pl fuel F0 st H1 H2 H3 H4 H5 H6 H7). Qed.

(* non-vacuity: a history with facts for one class over two rounds, a stratum boundary, and the readings *)
Example c10_example_binary :
  let h := [PIns (0, 1); PMerge; PIns (1, 2); PIns (0, 2); PMerge] in
  p_read T2 eqrel_binary (run T2 eqrel_binary h) VTotal = [(0, 0); (1, 0); (0, 1); (1, 1)]
  /\ length (p_read T2 eqrel_binary (run T2 eqrel_binary h) VDelta) = 5%nat
  /\ length (eqv (g_td T2 (ghost_of T2 h))) = 9%nat
  /\ bget (run T2 eqrel_binary h) VDelta (VI0 0) = Some [(0, 2)]
  /\ p_read T2 eqrel_binary (run T2 eqrel_binary (h ++ [PMerge; PRestart])) VTotal = [].
Proof. vm_compute. repeat split. Qed.
Example c10_example_ternary :
  let h := [PIns (0, (0, 1)); PIns (1, (5, 5)); PMerge; PIns (0, (1, 2)); PMerge] : list (pop T3z) in
  length (p_read T3z eqrel_ternary (run T3z eqrel_ternary h) VTotal) = 5%nat
  /\ length (p_read T3z eqrel_ternary (run T3z eqrel_ternary h) VDelta) = 5%nat
  /\ length (eqv3 (g_td T3z (ghost_of T3z h))) = 10%nat
  /\ tget (run T3z eqrel_ternary h) VDelta (TV2 2) = Some [(0, (0, 2)); (0, (1, 2)); (0, (2, 2))]
  /\ tget (run T3z eqrel_ternary h) VDelta (TV12 0 2) = Some [(0, (0, 2))]
  /\ tget (run T3z eqrel_ternary h) VTotal (TV1 5) = Some [(1, (5, 5))].
Proof. vm_compute. repeat split. Qed.

Print Assumptions c10_closure_is_explicit_rules. Print Assumptions c10_closure_operator.
Print Assumptions c10_union_find_add.
Print Assumptions c10_eqrel_binary_provider_ok. Print Assumptions c10_eqrel_par_provider_ok.
Print Assumptions c10_eqrel_par_never_panics.
Print Assumptions c10_engine_facing_merge. Print Assumptions c10_engine_facing_closed. Print Assumptions c10_engine_facing_exit.
Print Assumptions c10_engine_facing_first_insert. Print Assumptions c10_engine_facing_restart.
Print Assumptions c10_ternary_lifting. Print Assumptions c10_eqrel_ternary_lifted_ok.
Print Assumptions c10_eqrel_ternary_provider_ok. Print Assumptions c10_eqrel_ternary_closure.
Print Assumptions c10_eqrel_ternary_never_panics. Print Assumptions c10_eqrel_ternary_is_per_key_binary.
Print Assumptions c10_ternary_refuted_before_fix. Print Assumptions c10_ternary_ind12_refuted_before_fix.
Print Assumptions c10_program_binary. Print Assumptions c10_program_binary_par. Print Assumptions c10_program_ternary.
Print Assumptions c10_bridge_binary. Print Assumptions c10_bridge_ternary.
Print Assumptions c10_binary_is_explicit_closure. Print Assumptions c10_binary_par_is_explicit_closure. Print Assumptions c10_ternary_is_explicit_closure.
Print Assumptions c10_example_binary. Print Assumptions c10_example_ternary.
