(* C15 — ill-formed programs are rejected at compile time, never miscompiled.
   Property theorems only; proofs in Check/CheckProofs.v, computed instances in Check/CheckExamples.v.

   Model: Check/CheckModel.v.  [check c0 P k] is the verdict of the front end of the four macros (k) on program P once
   every include_source! is resolved (what rustc finally reports), [invoke] the verdict of one invocation of
   ascent_impl (what the in-process driver observes); c0 is the state of the process-wide fresh-identifier counter.
   The model mirrors the order of the real checks: parse level (attributes in front of rules / macros /
   include_source!, empty lattice, include_source! inside ascent_source!)  <  macro expansion, rule by rule
   (undefined macro, argument count, depth guard 100)  <  rules against declarations, rule by rule and inside a rule
   in the order clause identifiers, relation lookup, clause conditions / generators / let / aggregate patterns,
   relation of the aggregate, aggregated variables (undeclared relation, arity against the LAST declaration of the
   name, rebinding — a variable repeated across clauses is a join, never a rebinding —, aggregated variable that is
   not an argument of the aggregated relation)  <  program attributes (unknown < inter_rule_parallelism outside a parallel
   macro < several ds)  <  relation attributes per surviving declaration (several ds < ds on a lattice)
   <  stratification  <  code generation (can only panic).
   Stratification is modelled as reachability, not through SCCs: rule a aggregates rel and some rule reachable from a
   along "derives a relation that .. reads" derives rel (a producer of rel always feeds a, so this is "same SCC").

   A violation (CheckProofs.violation) carries its position; [vloc] is the position in the detection order above,
   [verr] its error class.  Violations of later stages are defined on the resolved / macro-expanded / desugared
   program (CheckProofs.occurs).  A self-referential macro counts as a violation where it is INVOKED (a recursive
   macro nobody invokes is accepted by the real code and by the model: Example c15_verdicts, p_recursive_unused).

   Accepted programs are evaluated correctly: for every plan the validator accepts, Engine/Main.v
   (run_plan_correct_full, Props/C01.v) and Engine/MainAgg.v (run_plan_strat_correct_full, Props/C04.v) prove that
   run() computes the least / stratified model; the plan of every accepted generated program is validated there. *)
From Coq Require Import List Bool Arith Relations.
From AV Require Import Check.CheckModel Check.CheckProofs Check.CheckExamples.
From AV Require Import Check.PatCtxModel.
From AV Require Import Check.PatCtxLaws.
Import ListNotations.

(* acceptance is sound: an accepted program exhibits none of the violations, at any position *)
Theorem c15_accept_sound : forall c0 P k, check c0 P k = Accept -> well_formed c0 P k.
Proof. exact accept_sound_v. Qed.

(* rejection is complete, with the priority: a program exhibiting violation v (any constructor, any position) is
   rejected; the error reported was detected at a position <= the position of v in the detection order, and is
   itself a violation that occurs at that position with exactly the reported class *)
Theorem c15_reject_complete : forall c0 P k v, occurs c0 P k v ->
  exists e l, check c0 P k = Reject e /\ check_loc c0 P k = Err e l /\ loc_le l (vloc v) /\
              exists v', occurs c0 P k v' /\ vloc v' = l /\ verr v' = e.
Proof. exact reject_complete_v. Qed.

(* hence: when every violation of the program has the class of v (exactly one injected violation), the verdict is
   the class of v *)
Theorem c15_single_violation_class : forall c0 P k v, occurs c0 P k v ->
  (forall v', occurs c0 P k v' -> verr v' = verr v) -> check c0 P k = Reject (verr v).
Proof. exact single_class_rejected_v. Qed.

(* rejection is sound: every reported error is a violation that occurs (well-formed programs are never rejected) *)
Theorem c15_reject_sound : forall c0 P k e, check c0 P k = Reject e -> exists v, occurs c0 P k v /\ verr v = e.
Proof. exact reject_sound_v. Qed.

(* check is total (a Gallina function); on a well-formed program it can only accept or panic ... *)
Theorem c15_well_formed_accept_or_panic : forall c0 P k, well_formed c0 P k -> check c0 P k = Accept \/ check c0 P k = Panics.
Proof. exact well_formed_verdict. Qed.

(* ... and the panic case is unreachable when the macro-expanded rules use no identifier ending in "_" / "_<number>"
   as a clause argument *)
Theorem c15_no_panic_guarded : forall c0 P k, panic_guard P -> check c0 P k <> Panics.
Proof. exact no_panic_guarded_v. Qed.
Theorem c15_well_formed_accepted : forall c0 P k, well_formed c0 P k -> panic_guard P -> check c0 P k = Accept.
Proof. exact well_formed_accepted. Qed.

(* the unguarded statement "the macros never panic" is refuted by the faithful model (finding F9): a well-formed
   program on which the front end panics under all four macros — and is accepted once the counter has advanced *)
Theorem c15_no_panic_refuted : exists c0 P, (forall k, well_formed c0 P k) /\ (forall k, check c0 P k = Panics).
Proof. exact f9_refutes. Qed.
(* the other unwrap of code generation (aggregated variable looked up among the arguments of the aggregated relation)
   is never the reason of a panic: the rule stage rejects such an aggregate first (check added by commit 9b40028) *)
Theorem c15_panic_is_a_clause_panic : forall c0 P k, check c0 P k = Panics ->
  exists its xr r, flatten 0 (p_items P) = OK its /\ expand_rules (macros_of its) (rules_of its) = OK xr /\
    In r (ds_rules c0 xr) /\ body_clause_panics (decls_of its) [] (c_body r) = true.
Proof. exact panic_is_a_clause_panic_v. Qed.
(* a panic is never a wrong rejection or acceptance of a listed violation: it happens only after every check passed *)
Theorem c15_panic_only_after_all_checks : forall c0 P k, check c0 P k = Panics -> well_formed c0 P k.
Proof. exact panics_only_when_checks_pass_v. Qed.

(* invoking a self-referential macro — directly or through a cycle S of macros — is a violation (so it is rejected) *)
Theorem c15_self_referential_macro : forall c0 P k S its ri r m args d,
  resolves P its -> self_referential (macros_of its) S -> S m -> lookup_macro (macros_of its) m = Some d ->
  length args = m_nparams d -> nth_error (rules_of its) ri = Some r -> In (SCall m args) (s_body r) ->
  occurs c0 P k (VMacro ri ERecursiveMacro).
Proof. exact self_referential_occurs. Qed.

(* include_source!: without one, an invocation decides what check decides; with one, the invocation defers *)
Theorem c15_invoke_is_check : forall c0 P k, no_include P -> invoke c0 P k = check c0 P k.
Proof. exact invoke_is_check. Qed.
Theorem c15_invoke_deferred : forall c0 P k pre src post, p_items P = map IPlain pre ++ IInclude 0 src :: post ->
  (forall i, In i pre -> item0_err i = None) -> invoke c0 P k = Deferred.
Proof. exact invoke_deferred. Qed.

(* the last declaration of a relation name decides *)
Theorem c15_last_declaration_wins : forall ds d ds' r, d_name d = r -> (forall d', In d' ds' -> d_name d' <> r) ->
  lookup_rel (ds ++ d :: ds') r = Some d.
Proof. exact lookup_rel_last. Qed.

(* attributes of a relation other than ds never influence the macro's verdict (they are handed to the struct field;
   rejecting an unknown one is rustc's business — confirmed on generated crates by the tie) *)
Theorem c15_relation_attributes_pass_through : forall c0 P k, check c0 (strip_other P) k = check c0 P k.
Proof. exact rel_attrs_passthrough_v. Qed.

(* stratification check = reachability in the rule dependency graph *)
Theorem c15_reach_is_reachability : forall rs i b, In b (reach rs (length rs) i) <-> clos_refl_trans nat (feeds rs) i b.
Proof. exact reach_is_reachability. Qed.

(* non-vacuity and computed instances *)
Example c15_tc_accepted : map (check [] tc) allk = [Accept; Accept; Accept; Accept] /\ panic_guard tc /\ forall k, well_formed [] tc k.
Proof. exact tc_all. Qed.
Example c15_verdicts :
  check [] p_undeclared KAscent = Reject (EUndeclared 7) /\
  check [] p_arity KAscentPar = Reject (EArity 0 2 1) /\
  check [] p_neg_self KAscentRun = Reject (ENotStratified 1) /\
  check [] p_agg_via_other KAscent = Reject (ENotStratified 0) /\
  check [] p_shadow KAscentRunPar = Reject (EShadow x) /\
  check [] p_join KAscent = Accept /\
  check [] p_recursive KAscent = Reject ERecursiveMacro /\
  check [] p_recursive_unused KAscent = Accept /\
  check [] p_include_in_source KAscent = Reject EIncludeInSource /\
  invoke [] p_include_in_source KAscent = Deferred /\
  check [] p_ds_on_lattice KAscent = Reject (EDsOnLattice 1) /\
  check [] p_unknown_attr KAscent = Reject EUnknownAttr /\
  check [] p_rule_attr KAscent = Reject EUnexpectedAttr /\
  map (check [] p_irp) allk = [Reject EInterRuleSerial; Accept; Reject EInterRuleSerial; Accept] /\
  check [] p_rel_other_attr KAscent = Accept /\
  check [] p_redeclared KAscent = Accept.
Proof. exact verdicts. Qed.
Example c15_recursive_occurs : occurs [] p_recursive KAscent (VMacro 0 ERecursiveMacro).
Proof. exact p_recursive_occurs. Qed.
Example c15_f9_accepted_later : check [(x, 1)] f9 KAscent = Accept.
Proof. exact f9_later_accepted. Qed.
(* res(s) <-- agg s = sum(z) in r(x, _): rejected at the aggregate since commit 9b40028 (it used to panic) *)
Example c15_agg_var_rejected : map (check [] agg_unbound) allk = [Reject (EAggVar z 0); Reject (EAggVar z 0); Reject (EAggVar z 0); Reject (EAggVar z 0)]
  /\ occurs [] agg_unbound KAscent (VRule 0 2 (EAggVar z 0)).
Proof. exact (conj agg_unbound_rejected agg_unbound_occurs). Qed.

Print Assumptions c15_accept_sound. Print Assumptions c15_reject_complete. Print Assumptions c15_single_violation_class.
Print Assumptions c15_reject_sound. Print Assumptions c15_well_formed_accept_or_panic. Print Assumptions c15_no_panic_guarded.
Print Assumptions c15_well_formed_accepted. Print Assumptions c15_no_panic_refuted. Print Assumptions c15_panic_only_after_all_checks.
Print Assumptions c15_self_referential_macro. Print Assumptions c15_invoke_is_check. Print Assumptions c15_invoke_deferred.
Print Assumptions c15_last_declaration_wins. Print Assumptions c15_relation_attributes_pass_through. Print Assumptions c15_reach_is_reachability.
Print Assumptions c15_tc_accepted. Print Assumptions c15_verdicts. Print Assumptions c15_recursive_occurs.
Print Assumptions c15_f9_accepted_later. Print Assumptions c15_agg_var_rejected. Print Assumptions c15_panic_is_a_clause_panic.

(* ------------------------------------------------------------------ the position of an attribute
   [text]: the program as written — an optional struct signature and the items, each with the outer attributes written in
   front of it; [parse_text] mirrors how parse_ascent_program hands those attributes out (the attributes at the top are
   read before the parser knows whether a signature follows: CheckModel stage 0). *)

(* every attribute reaches what it is written in front of: the signature gets its own, every item gets its own *)
Theorem c15_attributes_reach_their_item : forall X sig (items : list (list rattr * X)), distribute sig items = (sig, items).
Proof. exact @distribute_exact. Qed.

(* hence an attribute on a rule, a macro definition or an include_source! (of the program or of an included source) is a
   violation at that item, whatever its position (first item or later) and with or without a signature ... *)
Theorem c15_attribute_on_non_relation_occurs : forall c0 T k p q, attr_on_nonrel T p q ->
  occurs c0 (parse_text T) k (VParse p q EUnexpectedAttr).
Proof. exact attr_on_nonrel_occurs. Qed.
(* ... so the text is rejected, by an error detected no later than that item ... *)
Theorem c15_attribute_on_non_relation_rejected : forall c0 T k p q, attr_on_nonrel T p q ->
  exists e l, check_text c0 T k = Reject e /\ check_loc c0 (parse_text T) k = Err e l /\ loc_le l (1, p, q).
Proof. exact text_attr_rejected. Qed.
(* ... with exactly this class when the item is the first of the text (the seeded shape), by the invocation itself *)
Theorem c15_attribute_on_first_item_rejected : forall c0 T k a x tl, t_items T = (a, x) :: tl -> a <> [] ->
  match x with BPlain b => nonrel0 b | BInclude _ => True end ->
  invoke_text c0 T k = Reject EUnexpectedAttr /\ check_text c0 T k = Reject EUnexpectedAttr.
Proof. exact first_item_attr_rejected. Qed.
(* the class is reported for nothing else *)
Theorem c15_attribute_rejection_sound : forall c0 T k, check_text c0 T k = Reject EUnexpectedAttr -> exists p q, attr_on_nonrel T p q.
Proof. exact text_attr_reject_sound. Qed.
(* an attribute on a relation is handed to that relation *)
Theorem c15_relation_attributes_reach_relation : forall T p a n tys lat, nth_error (t_items T) p = Some (a, BPlain (BRel n tys lat)) ->
  nth_error (p_items (parse_text T)) p = Some (IPlain (IRel {| d_name := n; d_tys := tys; d_lat := lat; d_attrs := a |})).
Proof. exact rel_attrs_reach_relation. Qed.
Example c15_attribute_positions :
  map (fun T => (map (invoke_text [] T) allk, map (check_text [] T) allk)) attr_cases =
  repeat (repeat (Reject EUnexpectedAttr) 4, repeat (Reject EUnexpectedAttr) 4) 81.
Proof. exact attr_positions_rejected. Qed.

(* ------------------------------------------------------------------ patterns
   The lists of bound variables in the model's syntax are what syn_utils.rs pattern_get_vars reports; [pat_vars paren]
   mirrors it, [paren] = "has an arm for Pat::Paren" (CheckModel.pattern_get_vars_traverses_paren: the value for the code
   under verification).  The theorems above speak about the variables the helper reports, so "rebinding is rejected"
   holds for the real binders exactly when the helper is complete. *)
Theorem c15_pattern_vars_sound : forall V b (p : pat V), incl (pat_vars b p) (pat_binds p).
Proof. exact @pat_vars_sound. Qed.
Theorem c15_pattern_vars_complete_with_paren_arm : forall V (p : pat V), pat_vars true p = pat_binds p.
Proof. exact @pat_vars_complete_with_paren_arm. Qed.
Theorem c15_pattern_vars_complete_paren_free : forall V (p : pat V), paren_free p = true -> pat_vars false p = pat_binds p.
Proof. exact @pat_vars_complete_paren_free. Qed.
(* the helper of the code under verification (CheckModel.get_vars, with the Pat::Paren arm since the repair d5a5c02) reports
   exactly the variables a pattern binds, so the rebinding / grounding theorems above speak about the real binders *)
Theorem c15_pattern_helper_complete : forall V (p : pat V), get_vars p = pat_binds p.
Proof. intros V p. exact (@pat_vars_complete_with_paren_arm V p). Qed.
(* BEFORE that repair (helper without the arm = pat_vars false) "rebinding an already bound variable is rejected" was refuted
   by the faithful model: a rule that rebinds v through a parenthesised pattern was accepted under all four macros
   (bar(x) <-- foo(x), let (x) = 5 compiled and yielded bar = [(5,)]; fixed entry paren_pattern_escapes_shadow_check) *)
Theorem c15_rebinding_rejected_refuted_before_fix : exists (mk : (pat ident -> list ident) -> program) (v : ident),
  (forall k, check [] (mk pat_binds) k = Reject (EShadow v)) /\ (forall k, check [] (mk (pat_vars false)) k = Accept).
Proof. exact shadow_paren_refutes. Qed.
Example c15_rebinding_through_parentheses :
  map (check [] (p_shadow_paren pat_binds)) allk = repeat (Reject (EShadow x)) 4 /\
  map (check [] (p_shadow_paren (pat_vars true))) allk = repeat (Reject (EShadow x)) 4 /\
  map (check [] (p_shadow_paren (pat_vars false))) allk = repeat Accept 4 /\
  map (fun P => map (check [] P) allk) (p_shadow_paren_forms pat_binds) = repeat (repeat (Reject (EShadow x)) 4) 5 /\
  map (fun P => map (check [] P) allk) (p_shadow_paren_forms (pat_vars false)) = repeat (repeat Accept 4) 5.
Proof. exact shadow_paren_verdicts. Qed.

Print Assumptions c15_attributes_reach_their_item. Print Assumptions c15_attribute_on_non_relation_occurs.
Print Assumptions c15_attribute_on_non_relation_rejected. Print Assumptions c15_attribute_on_first_item_rejected.
Print Assumptions c15_attribute_rejection_sound. Print Assumptions c15_relation_attributes_reach_relation.
Print Assumptions c15_attribute_positions. Print Assumptions c15_pattern_vars_sound.
Print Assumptions c15_pattern_vars_complete_with_paren_arm. Print Assumptions c15_pattern_vars_complete_paren_free.
Print Assumptions c15_rebinding_rejected_refuted_before_fix. Print Assumptions c15_pattern_helper_complete. Print Assumptions c15_rebinding_through_parentheses.

(* ------------------------------------------------------------------ patterns in full, every constructor as a context
   Check/PatCtxModel.v: [xpat] has one constructor per arm of pattern_get_vars that recurses (x @ p, (p), &p, tuple, slice,
   tuple struct, struct, or-pattern, p : T); [xpat_vars] mirrors the helper arm by arm (or-pattern = the variables reported
   for every alternative), [binds] is the specification (what the Rust pattern binds), a context [c] is a stack of frames —
   one frame per recursive constructor — around one hole, [frame_ok u] asks of an or-frame that the other alternatives
   bind u too (Rust demands it).  p_rebind f bs:  path(x, y) <-- edge(x, y), B   where B is the binder position f
   (let / if let / for / agg / ?pattern argument / let or if let attached to a clause) whose pattern reports bs. *)

(* the helper reports exactly what a pattern binds (eqb: the equality of identifiers) *)
Theorem c15_pattern_vars_full_spec : forall V (eqb : V -> V -> bool), (forall a b, eqb a b = true <-> a = b) ->
  forall p x, In x (xpat_vars eqb true p) <-> binds x p.
Proof. exact xpat_vars_spec. Qed.
(* the model of the theorems above (CheckModel.pat, pat_vars) is the restriction of this one *)
Theorem c15_pattern_vars_embed : forall V (eqb : V -> V -> bool) b (p : pat V), xpat_vars eqb b (embed p) = pat_vars b p.
Proof. exact xpat_vars_embed. Qed.
(* a variable below ANY stack of pattern constructors is reported *)
Theorem c15_variable_below_any_context_reported : forall V (eqb : V -> V -> bool), (forall a b, eqb a b = true <-> a = b) ->
  forall x (c : list (frame V)), Forall (frame_ok x) c -> In x (xpat_vars eqb true (plug c (XVar x))).
Proof. exact hole_reported_below_any_context. Qed.
(* hence binding x or y again below any context, in any binder position, under any macro, is rejected with the shadowing
   error about a variable the pattern binds ... *)
Theorem c15_rebinding_below_any_context_rejected : forall f c k u, In u [x; y] -> Forall (frame_ok u) c ->
  exists u', check [] (p_rebind f (xv (plug c (XVar u)))) k = Reject (EShadow u') /\ binds u' (plug c (XVar u)).
Proof. exact rebinding_below_any_context_rejected. Qed.
(* ... and so is binding again, by a plain `let`, a variable whose FIRST binder sits below any context (the other
   variables of that pattern being new and distinct) *)
Theorem c15_first_binder_below_any_context_rejected : forall f c k u, Forall (frame_ok u) c ->
  NoDup (xv (plug c (XVar u))) -> (forall u', binds u' (plug c (XVar u)) -> ~ In u' [x; y; z]) ->
  check [] (p_rebind_first f (xv (plug c (XVar u))) u) k = Reject (EShadow u).
Proof. exact first_binder_below_any_context_rejected. Qed.
(* computed: all 183 contexts of depth <= 2 over 13 frames (each recursive constructor at least once) x 7 binder positions
   x 4 macros: x bound again is rejected naming x; a first binder below the context is seen by the later `let`; a NEW
   variable below the same contexts is accepted *)
Example c15_contexts_depth2 :
  length (sample_ctxs x) = 183 /\
  for_all_samples x (fun f bs k => is_shadow x (check [] (p_rebind f bs) k)) = true /\
  for_all_samples wc (fun f bs k => is_shadow wc (check [] (p_rebind_first f bs wc) k)) = true /\
  for_all_samples wc (fun f bs k => is_accept (check [] (p_rebind f bs) k)) = true.
Proof. exact sample_ctxs_verdicts. Qed.
Example c15_at_subpattern_reported : xv (XAt wa (XTupleStruct [XVar x])) = [wa; x] /\ xv (XAt wa (XAt wb (XVar x))) = [wa; wb; x] /\
  xv (XOr [XAt wa (XVar x); XTuple [XVar x; XVar wa]; XVar wb]) = [] /\ xv (XOr [XAt wa (XVar x); XTuple [XVar x; XVar wa]]) = [wa; x].
Proof. exact at_subpattern_reported. Qed.

Print Assumptions c15_pattern_vars_full_spec. Print Assumptions c15_pattern_vars_embed.
Print Assumptions c15_variable_below_any_context_reported. Print Assumptions c15_rebinding_below_any_context_rejected.
Print Assumptions c15_first_binder_below_any_context_rejected. Print Assumptions c15_contexts_depth2.
Print Assumptions c15_at_subpattern_reported.

(* ------------------------------------------------------------------ the SPELLING of an attribute
   Check/AttrPaths.v: an attribute is its path (leading `::`, segments) and the form of its arguments (none / a delimited
   list / `= value`); [sp_check] / [sp_invoke] are the front end on a text whose attributes are spelled, at every position
   (#![..] of the program, struct signature, relation, rule, macro definition, include_source!, items of an included source).
   The real code decides "recognised" on the WHOLE path: syn's is_ident / get_ident are Some only for a path without leading
   `::` that has exactly one segment.  [lower_text] classifies every attribute the way the real code does and yields the
   text of the theorems above. *)
From AV Require Import Check.AttrPaths.
From AV Require Import Check.AttrPathsLaws.

(* recognised = the path IS one of measure_rule_times, generate_run_timeout, inter_rule_parallelism, ds; the arguments play
   no part; a leading `::` or a second segment makes the attribute unrecognised whatever its last segment is *)
Theorem c15_recognised_is_exact_path : forall a, recognised a = true <-> exists n, In n recognised_names /\ sa_path a = ident_path n.
Proof. exact recognised_spec. Qed.
Theorem c15_path_prefix_not_recognised : forall a, length (ap_segs (sa_path a)) <> 1 -> recognised a = false.
Proof. exact not_recognised_several_segments. Qed.
Theorem c15_leading_colon_not_recognised : forall a, ap_lead (sa_path a) = true -> recognised a = false.
Proof. exact not_recognised_leading_colon. Qed.

(* program position: an attribute that is not recognised is rejected, in any spelling, under every macro ... *)
Theorem c15_unrecognised_program_attribute_rejected : forall c0 T k a, In a (st_attrs T) -> recognised a = false ->
  exists e, sp_check c0 T k = SReject e.
Proof. exact unrecognised_program_attribute_rejected. Qed.
(* ... by the invocation that sees it unless that invocation stops at an include_source! (the re-invocation sees the same #![..]) ... *)
Theorem c15_unrecognised_program_attribute_invocation : forall c0 T k a, In a (st_attrs T) -> recognised a = false ->
  sp_invoke c0 T k = SDeferred \/ exists e, sp_invoke c0 T k = SReject e.
Proof. exact unrecognised_program_attribute_invoke. Qed.
(* ... with the error "unrecognized attribute" as soon as the earlier stages pass and the flags of the program are bare paths *)
Theorem c15_unrecognised_program_attribute_class : forall c0 T k a its xr, In a (st_attrs T) -> recognised a = false ->
  flatten 0 (p_items (sp_program T)) = OK its -> expand_rules (macros_of its) (rules_of its) = OK xr ->
  check_rules (decls_of its) (ds_rules c0 xr) = OK tt -> flags_ok (st_attrs T) = true ->
  sp_check c0 T k = SReject (SBase EUnknownAttr).
Proof. exact unrecognised_program_attribute_class. Qed.
Theorem c15_unrecognised_attribute_stage : forall sa k a, In a sa -> recognised a = false ->
  sp_check_attrs sa k = RErr (if flags_ok sa then SBase EUnknownAttr else SFlagArgs).
Proof. exact sp_check_attrs_unrecognised. Qed.

(* rule / macro definition / include_source! position (of the program or of an included source): ANY attribute, in any
   spelling, is rejected; with the class "unexpected attribute(s)" by the invocation itself when the item comes first *)
Theorem c15_spelled_attribute_on_non_relation_rejected : forall c0 T k p a x, nth_error (st_items T) p = Some (a, x) -> a <> [] ->
  sp_nonrel x -> exists e, sp_check c0 T k = SReject e.
Proof. exact spelled_attribute_on_non_relation_rejected. Qed.
Theorem c15_spelled_attribute_in_source_rejected : forall c0 T k p a src q a' y, nth_error (st_items T) p = Some (a, SBInclude src) ->
  nth_error src q = Some (a', y) -> a' <> [] -> sp_nonrel1 y -> exists e, sp_check c0 T k = SReject e.
Proof. exact spelled_attribute_in_source_rejected. Qed.
Theorem c15_spelled_attribute_on_first_item_rejected : forall c0 T k a x tl, st_items T = (a, x) :: tl -> a <> [] -> sp_nonrel x ->
  sp_invoke c0 T k = SReject (SBase EUnexpectedAttr) /\ sp_check c0 T k = SReject (SBase EUnexpectedAttr).
Proof. exact spelled_attribute_on_first_item_rejected. Qed.

(* relation position: only an attribute whose path is exactly `ds` is the macro's; every other one (`ascent::ds(..)`,
   `::ds(..)`, `my_tools::profile(level = 3)`) is handed to the struct field (its rejection is rustc's: checked on generated
   crates by the tie); the attributes of the signature never reach a check *)
Theorem c15_relation_decision_ignores_other_attributes : forall d a, sp_check_decl (d, filter (named n_ds) a) = sp_check_decl (d, a).
Proof. exact relation_decision_ignores_other_attributes. Qed.
Theorem c15_field_attributes : forall a x, In x (field_attrs a) <-> In x a /\ sa_path x <> ident_path n_ds.
Proof. exact field_attrs_spec. Qed.
(* at the level of the whole front end: erase the signature's attributes and, on every relation and lattice of the program and
   of its included sources, everything but an exact `ds` — both verdicts are unchanged *)
Theorem c15_handed_on_attributes_pass_through : forall c0 T k,
  sp_check c0 (sstrip T) k = sp_check c0 T k /\ sp_invoke c0 (sstrip T) k = sp_invoke c0 T k.
Proof. exact handed_on_attributes_pass_through. Qed.
Theorem c15_signature_attributes_ignored : forall c0 T k s,
  sp_check c0 {| st_attrs := st_attrs T; st_sig := s; st_items := st_items T |} k = sp_check c0 T k /\
  sp_invoke c0 {| st_attrs := st_attrs T; st_sig := s; st_items := st_items T |} k = sp_invoke c0 T k.
Proof. exact signature_attributes_ignored. Qed.

(* the spelled model extends the classified one conservatively: it accepts only what that one accepts, rejects whatever that
   one rejects, and IS that one when every recognised attribute has the argument form its name demands — so every theorem
   above about [check_text] speaks about spelled texts *)
Theorem c15_spelled_accept_sound : forall c0 T k, sp_check c0 T k = SAccept -> check_text c0 (lower_text T) k = Accept.
Proof. exact sp_accept_sound. Qed.
Theorem c15_spelled_reject_complete : forall c0 T k e, check_text c0 (lower_text T) k = Reject e -> exists e', sp_check c0 T k = SReject e'.
Proof. exact sp_reject_complete. Qed.
Theorem c15_spelled_invoke_reject_complete : forall c0 T k e, invoke_text c0 (lower_text T) k = Reject e -> exists e', sp_invoke c0 T k = SReject e'.
Proof. exact sp_invoke_reject_complete. Qed.
Theorem c15_spelled_conservative : forall c0 T k, text_canonical T ->
  sp_check c0 T k = inj_verdict (check_text c0 (lower_text T) k) /\ sp_invoke c0 T k = inj_verdict (invoke_text c0 (lower_text T) k).
Proof. intros c0 T k H. exact (conj (sp_check_conservative c0 T k H) (sp_invoke_conservative c0 T k H)). Qed.

(* the flags: one written with arguments is rejected when it is the first attribute of its name (AscentConfig::new looks the
   flag up with `find`) — the full statement "a flag with arguments is rejected" is refuted by the faithful model:
   #![measure_rule_times] #![measure_rule_times(1)] is accepted (by the real code too) *)
Theorem c15_flag_with_arguments_rejected_partial : forall sa k pre a post n, sa = pre ++ a :: post ->
  In n [n_measure_rule_times; n_generate_run_timeout; n_inter_rule_parallelism] -> named n a = true -> path_only a = false ->
  (forall b, In b pre -> named n b = false) -> sp_check_attrs sa k = RErr SFlagArgs.
Proof. exact flag_with_arguments_rejected_partial. Qed.
Theorem c15_flag_with_arguments_rejected_refuted : exists sa, In mrt_with_args sa /\ forall k, sp_check_attrs sa k = ROK tt.
Proof. exact flag_with_arguments_rejected_refuted. Qed.

(* a front end that dispatches on the NAME of an attribute (one pass over the attributes for which get_ident is Some) agrees
   with AscentConfig::new on single identifiers and silently drops every path attribute *)
Theorem c15_dispatch_by_name_agrees_on_identifiers : forall sa k, forallb has_name sa = true -> sp_check_attrs_by_name sa k = sp_check_attrs sa k.
Proof. exact by_name_agrees. Qed.
Theorem c15_dispatch_by_name_refuted : exists a, recognised a = false /\ forall k, sp_check_attrs_by_name [a] k = ROK tt.
Proof. exact by_name_dispatch_refuted. Qed.

(* computed: #![ascent::trace_rules] #![::trace_rules] #![my_tools::profile(..)] #![ascent::measure_rule_times] #![::ds(..)]
   #![a::b::c = v] — unrecognised, rejected by AscentConfig::new, dropped by the dispatch on names; at every position x 4 macros *)
Example c15_path_attributes :
  forallb (fun a => negb (recognised a)) unnamed_samples = true /\
  map (fun a => sp_check_attrs [a] KAscentPar) unnamed_samples = repeat (RErr (SBase EUnknownAttr)) 6 /\
  map (fun a => sp_check_attrs_by_name [a] KAscentPar) unnamed_samples = repeat (ROK tt) 6.
Proof. exact unnamed_samples_verdicts. Qed.
Example c15_unrecognised_at_every_position :
  forallb (fun a =>
    forallb (fun pos =>
      match pos with
      | AtProgram => forallb (fun v => match v with SReject (SBase EUnknownAttr) | SDeferred => true | _ => false end) (verdicts (place pos a))
                     && forallb (fun v => match v with SReject (SBase EUnknownAttr) => true | _ => false end) (map (sp_check [] (place pos a)) all_kinds)
      | AtRule | AtMacro | AtInclude | AtSourceRule =>
          forallb (fun v => match v with SReject (SBase EUnexpectedAttr) | SDeferred => true | _ => false end) (verdicts (place pos a))
          && forallb (fun v => match v with SReject (SBase EUnexpectedAttr) => true | _ => false end) (map (sp_check [] (place pos a)) all_kinds)
      | _ => forallb (fun v => match v with SAccept | SDeferred => true | _ => false end) (verdicts (place pos a))
      end) positions) unnamed_samples = true.
Proof. exact unrecognised_at_every_position. Qed.

Print Assumptions c15_recognised_is_exact_path. Print Assumptions c15_path_prefix_not_recognised. Print Assumptions c15_leading_colon_not_recognised.
Print Assumptions c15_unrecognised_program_attribute_rejected. Print Assumptions c15_unrecognised_program_attribute_invocation.
Print Assumptions c15_unrecognised_program_attribute_class. Print Assumptions c15_unrecognised_attribute_stage.
Print Assumptions c15_spelled_attribute_on_non_relation_rejected. Print Assumptions c15_spelled_attribute_in_source_rejected.
Print Assumptions c15_spelled_attribute_on_first_item_rejected. Print Assumptions c15_relation_decision_ignores_other_attributes.
Print Assumptions c15_field_attributes. Print Assumptions c15_signature_attributes_ignored. Print Assumptions c15_handed_on_attributes_pass_through.
Print Assumptions c15_spelled_accept_sound. Print Assumptions c15_spelled_reject_complete. Print Assumptions c15_spelled_invoke_reject_complete.
Print Assumptions c15_spelled_conservative. Print Assumptions c15_flag_with_arguments_rejected_partial.
Print Assumptions c15_flag_with_arguments_rejected_refuted. Print Assumptions c15_dispatch_by_name_agrees_on_identifiers.
Print Assumptions c15_dispatch_by_name_refuted. Print Assumptions c15_path_attributes. Print Assumptions c15_unrecognised_at_every_position.

(* ------------------------------------------------------------------ include_source! nested in an ascent_source!: every position
   (Check/NestedInclude.v).  The rejection is the business of ascent_source! (ascent_source_impl walks ALL items of the body with the
   program parser); no invocation of a program macro sees it (c15_invoke_deferred), so the tie of this class is at the level of rustc:
   gen/c15_nest.py, crates whose ascent_source! definition must fail with the dedicated message. *)
From AV Require Import Check.NestedInclude.

(* a source included at ANY position of a host whose earlier items parse, the nested include at ANY position of a body whose earlier
   items parse — relations, lattices, rules, facts, any number of macro definitions —: the dedicated error, located at the nested
   include, whatever follows, for every macro kind and every state of the identifier counter *)
Theorem c15_nested_include_rejected_at_every_position : forall c0 P k hpre spre spost hpost,
  p_items P = hpre ++ IInclude 0 (spre ++ I1Include 0 :: spost) :: hpost ->
  forallb cleanI hpre = true -> forallb clean1 spre = true ->
  check c0 P k = Reject EIncludeInSource /\ check_loc c0 P k = Err EIncludeInSource (1, length hpre, S (length spre)).
Proof. exact nested_include_rejected_at_every_position. Qed.

(* in particular directly behind macro definitions (the items that do not end with `;`) *)
Theorem c15_nested_include_behind_macro_definitions_rejected : forall c0 P k hpre spre ms spost hpost,
  p_items P = hpre ++ IInclude 0 (spre ++ macro_items ms ++ I1Include 0 :: spost) :: hpost ->
  forallb cleanI hpre = true -> forallb clean1 spre = true -> check c0 P k = Reject EIncludeInSource.
Proof. exact nested_include_behind_macro_definitions_rejected. Qed.

(* without any hypothesis on the other items: a program including a source whose body has an include_source! ANYWHERE (attributed or
   not) is rejected, by a parse-level error detected no later than the nested include; the same on a text with spelled attributes *)
Theorem c15_nested_include_program_rejected : forall c0 P k p n src q m,
  nth_error (p_items P) p = Some (IInclude n src) -> nth_error src q = Some (I1Include m) ->
  exists e l, check c0 P k = Reject e /\ check_loc c0 P k = Err e l /\ loc_le l (1, p, S q).
Proof. exact nested_include_program_rejected. Qed.
Theorem c15_spelled_nested_include_rejected : forall c0 T k p a src q a',
  nth_error (st_items T) p = Some (a, SBInclude src) -> nth_error src q = Some (a', B1Include) -> exists e, sp_check c0 T k = SReject e.
Proof. exact spelled_nested_include_rejected. Qed.

(* the walk of ascent_source_impl itself: found at its own position behind any well-formed items; never accepted behind any items *)
Theorem c15_nested_include_found_at_every_position : forall p q0 pre post, forallb clean1 pre = true ->
  scan_src p q0 (pre ++ I1Include 0 :: post) = Err EIncludeInSource (1, p, S (q0 + length pre)).
Proof. exact nested_include_found_at_every_position. Qed.
Theorem c15_nested_include_never_accepted : forall p q0 src q n, nth_error src q = Some (I1Include n) ->
  exists e q', q' <= q /\ scan_src p q0 src = Err e (1, p, S (q0 + q')).
Proof. exact nested_include_never_accepted. Qed.

(* the variant "look for the include only at the token that starts an item, items starting at the beginning of the body and after
   every top-level `;`" (lex_accepts; the seeded change): the same verdicts on bodies without macro definitions, blind behind a macro
   definition — hence REFUTED as a check of this class *)
Theorem c15_lexical_scan_agrees_without_macro_definitions : forall src, forallb ends_semi src = true -> lex_accepts src = full_accepts src.
Proof. exact lex_scan_agrees_without_macro_definitions. Qed.
Theorem c15_lexical_scan_misses_behind_macro_definitions : forall pre m ms n post,
  forallb (fun x => negb (is_include1 x)) pre = true -> forallb (fun x => negb (is_include1 x)) post = true ->
  lex_finds true (pre ++ macro_items (ms ++ [m]) ++ I1Include n :: post) = false.
Proof. exact lex_scan_misses_behind_macro_definitions. Qed.
Theorem c15_lexical_scan_rejects_every_nested_include_refuted :
  exists src, In (I1Include 0) src /\ lex_accepts src = true /\ full_accepts src = false /\
              (forall p q0, exists l, scan_src p q0 src = Err EIncludeInSource l).
Proof. exact lex_scan_rejects_every_nested_include_refuted. Qed.

(* computed: behind 0, 1, 2, 3 macro definitions (lexical scan accepts from 1 on; the walk rejects at the include's position); a body
   relation, lattice, rule, fact, macro, macro, macro, relation with the nested include at each of its 9 positions, the source included
   at each of the 4 positions of a host, under the 4 macros: sp_check = the dedicated error, sp_invoke = deferred *)
Example c15_lexical_scan_behind_1_2_3_macro_definitions :
  map (fun k => (lex_accepts (behind_macros k), full_accepts (behind_macros k), scan_src 7 0 (behind_macros k))) [0; 1; 2; 3] =
  [(false, false, Err EIncludeInSource (1, 7, 1)); (true, false, Err EIncludeInSource (1, 7, 2));
   (true, false, Err EIncludeInSource (1, 7, 3)); (true, false, Err EIncludeInSource (1, 7, 4))].
Proof. exact lex_scan_behind_1_2_3_macro_definitions. Qed.
Example c15_nested_include_every_position_every_macro :
  forallb (fun p => forallb (fun q => forallb (fun k =>
    match sp_check [] (ex_text p q) k, sp_invoke [] (ex_text p q) k with
    | SReject (SBase EIncludeInSource), SDeferred => true
    | _, _ => false
    end) [KAscent; KAscentPar; KAscentRun; KAscentRunPar]) (seq 0 9)) (seq 0 4) = true.
Proof. exact nested_include_every_position_every_macro. Qed.

Print Assumptions c15_nested_include_rejected_at_every_position. Print Assumptions c15_nested_include_behind_macro_definitions_rejected.
Print Assumptions c15_nested_include_program_rejected. Print Assumptions c15_spelled_nested_include_rejected.
Print Assumptions c15_nested_include_found_at_every_position. Print Assumptions c15_nested_include_never_accepted.
Print Assumptions c15_lexical_scan_agrees_without_macro_definitions. Print Assumptions c15_lexical_scan_misses_behind_macro_definitions.
Print Assumptions c15_lexical_scan_rejects_every_nested_include_refuted. Print Assumptions c15_lexical_scan_behind_1_2_3_macro_definitions.
Print Assumptions c15_nested_include_every_position_every_macro.
