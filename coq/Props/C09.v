(* C09 — packaging variants of a program are semantically transparent.
   Property theorems only; models in Pack/PackModel.v (declaration lists, token lists with spans and hygiene sites,
   the ascent_run! / Default code paths with the index build after the initialisers as an explicit, switchable step, the
   run_timeout guard, the timing wrappers) over the engine model Engine/Eval.v, and Pack/PackLatModel.v (the same run block
   over LatEngine/LatEval.v, programs with lattices), and Pack/PackAttrModel.v (parse_ascent_program with its parse state:
   inner attributes / signature / items, the include path, AscentConfig); proofs in Pack/PackProofs.v, Pack/PackLatProofs.v,
   Pack/PackAttrProofs.v.

   These are small theorems about the packaging LOGIC.  That rustc, macro_rules expansion, span printing, cargo
   feature resolution and the generated glue agree with the models is carried by the tie (gen/props/c09.py): every
   logical program is compiled in 14-17 packagings x {segment-codegen off, on} and every relation is compared with
   the specification oracle of the logical program.

   include_source_drops_prefix_when_spans_coincide was repaired in /repo (commit 9a74b6c: positional split); the model
   follows the repaired code, c09_include_is_splice is unguarded, and c09_old_span_split_refuted records the old behaviour.
   One finding remains part of the faithful model (known_findings.json, property C09):
   - include_source_hides_captured_locals: c09_include_hygiene_refuted (compile-time rejection, never a wrong result). *)
From Coq Require Import List ZArith Bool.
From AV Require Import Engine.Core.
From AV Require Import Engine.Sem.
From AV Require Import Engine.Eval.
From AV Require Import Engine.Validate.
From AV Require Import Engine.Naive.
From AV Require Import Engine.Main.
From AV Require Import Engine.Timeout.
From AV Require Import Engine.Vocab.
From AV Require Import Engine.Examples.
From AV Require Import Pack.PackModel.
From AV Require Import Pack.PackProofs.
From AV Require Import LatEngine.LatSyntax.
From AV Require LatEngine.LatEval.
From AV Require Import LatEngine.LatVocab.
From AV Require Import Pack.PackLatModel.
From AV Require Import Pack.PackLatProofs.
From AV Require Import Pack.PackAttrModel.
From AV Require Import Pack.PackAttrProofs.
Import ListNotations.
Open Scope Z_scope.

(* ---- a later re-declaration of a relation wins ---- *)
(* for every list of declarations: if all declarations of the name n have the same column types, the generated struct has
   exactly one field for n, and it comes from the LAST declaration — the one every rule resolves the name to
   (prog_get_relation) —, so its initialiser, or the absence of one, is what the program starts from *)
Theorem c09_redecl_last_wins : forall (ds : list decl) (n : nat) (z : decl),
  (forall a b, In a ds -> In b ds -> d_name a = n -> d_name b = n -> d_sig a = d_sig b) ->
  prog_get_relation n ds = Some z ->
  fields_named n ds = [z].
Proof. exact redecl_last_wins. Qed.

(* in particular the assignments `_self.n = e` generated for n are exactly the initialiser of the LAST declaration — none at
   all when the last declaration is bare, whatever initialisers earlier declarations of n carried *)
Theorem c09_redecl_last_initialiser : forall (ds : list decl) (n : nat) (z : decl),
  (forall a b, In a ds -> In b ds -> d_name a = n -> d_name b = n -> d_sig a = d_sig b) ->
  prog_get_relation n ds = Some z ->
  initialisers_emitted n ds = match d_init z with Some e => [e] | None => [] end.
Proof. exact redecl_last_initialiser. Qed.
Example c09_example_init_then_bare :
  let ds := [ {| d_name := 0; d_sig := 5; d_init := Some 7%nat |}; {| d_name := 0; d_sig := 5; d_init := None |} ] in
  initialisers_emitted 0 ds = [] /\ initialisers_emitted 0 (rev ds) = [7%nat].
Proof. exact redecl_init_then_bare. Qed.

(* the deduplication itself, for every comparison that is an equivalence: of each class exactly the last element stays *)
Theorem c09_dedup_keeps_last : forall (A : Type) (cmp : A -> A -> bool) (l : list A) (x : A),
  (forall a b, cmp a b = true -> cmp b a = true) ->
  (forall a b c, cmp a b = true -> cmp b c = true -> cmp a c = true) ->
  filter (cmp x) (dedup_all_keep_last_by cmp l) = match find (cmp x) (rev l) with Some z => [z] | None => [] end.
Proof. exact @dedup_equivalence_keeps_last. Qed.

(* ---- relation r(..) = e starts from exactly the tuples of e; ascent_run! = ascent! + run() ---- *)
(* ascent_run!: default value, initialisers assigned (rows set, indices EMPTY), indices built once (iff there is an
   initialiser), SCCs — and no other index build in the block —
   = run() on the input consisting of exactly the initialisers' tuples; for every plan, interpretation and oracle *)
Theorem c09_init_is_input : forall (I : interp) (swap : list tuple -> list tuple -> bool) fuel pl (inits : list (rel * list tuple)),
  ascent_run_code I swap fuel pl inits = run_plan I swap fuel pl (init_state (assign_inits inits)).
Proof. exact init_is_input. Qed.

(* the index build is an explicit step of the modelled block (PackModel.default_value_when): after the assignments alone the
   rows are set and the indices are empty (`assigned`); the generated `update_indices_priv()` establishes what the SCC code
   relies on, `indexed` (stored = rows), and c09_init_is_input is proved THROUGH that precondition *)
Theorem c09_index_build_establishes_precondition : forall (inits : list (rel * list tuple)),
  indexed (default_value inits) /\ rows (default_value inits) = assign_inits inits.
Proof. exact index_build_establishes_precondition. Qed.
Theorem c09_assigned_not_indexed : forall (inits : list (rel * list tuple)), assign_inits inits <> [] -> ~ indexed (assigned inits).
Proof. exact assigned_not_indexed. Qed.
Theorem c09_run_sccs_indexed : forall (I : interp) swap fuel pl st, indexed st -> run_sccs I swap fuel pl st = run_plan I swap fuel pl st.
Proof. exact run_sccs_indexed. Qed.

(* the block with the statement generated or not: it is run() on the initialisers' tuples if the build is generated or
   there is nothing to index (the code generates it iff there is an initialiser: both cases of default_value) ... *)
Theorem c09_run_block_when_correct : forall (I : interp) swap (emit : bool) fuel pl inits,
  emit = true \/ assign_inits inits = [] ->
  run_block_when I swap emit fuel pl inits = run_plan I swap fuel pl (init_state (assign_inits inits)).
Proof. exact run_block_when_correct. Qed.
(* ... and ONLY then: a run block that omits the index build does not satisfy c09_init_is_input (the head update looks every
   derived row up in the stored indices, also for relations that no rule body reads) *)
Theorem c09_index_build_needed : forall emit : bool,
  (forall fuel pl inits, run_block_when std_interp std_swap emit fuel pl inits
                         = run_plan std_interp std_swap fuel pl (init_state (assign_inits inits))) ->
  emit = true.
Proof. exact index_build_needed. Qed.
(* about a NARROWER generation condition only (not the code's): "index only when some rule body reads an initialised
   relation" omits the build for write-only accumulators; the result then holds a row twice and is not run() on the
   initialisers' tuples, while the block as generated is *)
Theorem c09_index_build_only_if_read_refuted :
  exists pl inits st,
    some_initialised_read pl inits = false
    /\ run_block_when std_interp std_swap (some_initialised_read pl inits) 5 pl inits = Some st
    /\ ~ NoDup (rows st)
    /\ run_plan std_interp std_swap 5 pl (init_state (assign_inits inits)) <> Some st
    /\ ascent_run_code std_interp std_swap 5 pl inits = run_plan std_interp std_swap 5 pl (init_state (assign_inits inits)).
Proof. exact index_build_only_if_read_refuted. Qed.
Example c09_example_write_only_initialised :
  option_map rows (run_block_when std_interp std_swap true 5 wo_plan wo_inits) = Some [(1%nat, [1]); (0%nat, [1])]
  /\ option_map rows (run_block_when std_interp std_swap false 5 wo_plan wo_inits) = Some [(1%nat, [1]); (0%nat, [1]); (1%nat, [1])]
  /\ option_map rows (ascent_run_code std_interp std_swap 5 wo_plan wo_inits) = Some [(1%nat, [1]); (0%nat, [1])].
Proof. exact wo_example. Qed.

(* the same block over the model of the generated code for programs WITH LATTICES (LatEngine/LatEval.v): one index build,
   then the SCCs = run() on the initialisers' rows, for every interpretation, join and iteration-order oracle; without the
   build a lattice gets a second row for a key its initialiser already holds *)
Theorem c09_lattice_init_is_input : forall (V : Type) (I : linterp V) islat jm shuffle swap_oracle fuel pl (R : rel -> list (vtuple V)),
  lat_ascent_run_code I islat jm shuffle swap_oracle fuel pl R = LatEval.run_plan I islat jm shuffle swap_oracle fuel pl R.
Proof. exact @lat_init_is_input. Qed.
Theorem c09_lattice_without_index_build_refuted :
  exists rows, wl_block false = Some rows /\ ~ NoDup (map (@tkey Z) rows)
               /\ wl_block false <> option_map (fun st => LatEval.l_rows st 1%nat) (LatEval.run_plan lv_interp (lv_islat wl_lats) (lv_jm wl_lats) lv_shuffle lv_swap 5 wl_plan wl_rows).
Proof. exact lat_without_index_build_refuted. Qed.
Example c09_example_lattice_index_build :
  wl_block true = Some [[1; 6]; [2; 2]] /\ wl_block false = Some [[1; 6]; [1; 1]; [2; 2]].
Proof. exact lat_index_build_needed. Qed.

(* ascent! with initialisers: Default::default() followed by run() is the same function of the initialisers *)
Theorem c09_ascent_run_equals_struct_run : forall (I : interp) swap fuel pl inits,
  ascent_run_code I swap fuel pl inits = default_then_run I swap fuel pl inits.
Proof. exact ascent_run_equals_struct_run. Qed.

(* with the engine theorem (C01): an ascent_run! program returns the least model over the initialisers' tuples, which
   stay in place at the front of the rows *)
Theorem c09_ascent_run_least_model : forall (I : interp) swap arities P pl fuel inits st,
  arities_functional arities -> wf_facts arities (assign_inits inits) = true -> no_agg P = true ->
  validate arities P pl = true ->
  ascent_run_code I swap fuel pl inits = Some st ->
  least_model I P (assign_inits inits) (rows st)
  /\ exists added, rows st = assign_inits inits ++ added /\ NoDup added /\ (forall f, In f added -> ~ In f (assign_inits inits)).
Proof. exact ascent_run_least_model. Qed.

(* ---- #![generate_run_timeout] ---- *)
(* for every clock: run_timeout(Duration::MAX) returns true and leaves exactly what run() leaves (the guard
   `timeout < Duration::MAX && elapsed >= timeout` cannot fire); run() of such a program is that call *)
Theorem c09_run_is_timeout_max : forall (I : interp) swap (clock : nat -> Z) fuel pl st,
  run_timeout_code I swap clock fuel pl DURATION_MAX st = option_map (fun s => (true, s)) (run_plan I swap fuel pl st).
Proof. exact run_is_timeout_max. Qed.
Theorem c09_run_via_timeout_is_run : forall (I : interp) swap clock fuel pl st,
  run_via_timeout I swap clock fuel pl st = run_plan I swap fuel pl st.
Proof. exact run_via_timeout_is_run. Qed.

(* ---- #![measure_rule_times], SCC times, segment-codegen ---- *)
(* for every clock, both settings of measure_rule_times and both settings of the segment-codegen feature: the
   instrumented run terminates exactly when the plain one does, with the same rows and the same stored indices *)
Theorem c09_timing_flags_inert : forall (I : interp) swap (now : nat -> Z) (measure segment : bool) fuel pl st tm,
  option_map fst (run_plan_timed I swap now measure segment fuel pl st tm) = run_plan I swap fuel pl st.
Proof. exact timing_flags_inert. Qed.

(* ---- include_source! ---- *)
(* for every token list — whatever spans its tokens print — with any number of includes at any positions and every
   assignment of sources (which cannot contain includes): the chain of re-invocations ends after one step per include
   on exactly the text with every source pasted in place *)
Theorem c09_include_is_splice : forall (srcs : nat -> list tok) (ts : list tok) (fuel : nat),
  (forall p, no_inc (srcs p) = true) ->
  (count_includes ts < fuel)%nat ->
  expand fuel srcs ts = Some (paste srcs ts).
Proof. exact include_is_splice. Qed.

(* ---- include_source! inside the parse it interrupts: program-level inner attributes, signature, items ---- *)
(* Pack/PackAttrModel.v: parse_ascent_program with its parse state.  The input is  #![..]*  [signature]  items ; at an include
   the parsed program is thrown away and only before_tokens / after_tokens reach the re-invocation, so whatever was parsed —
   `#![ds(..)]`, `#![measure_rule_times]`, `#![generate_run_timeout]`, `#![inter_rule_parallelism]` included — must be in
   `before`.  For every input (any attributes, with or without a signature, includes at ANY position, the very first item
   included, any number of them) and all sources without includes: the chain of invocations ends in exactly the parse of the
   pasted text — the same attributes, signature and items, or the same parse error *)
Theorem c09_include_is_splice_with_attributes : forall (srcs : nat -> list xtok) (ts : list xtok) (fuel : nat),
  (forall p, no_xinc (srcs p) = true) ->
  (count_xinc ts < fuel)%nat ->
  xexpand fuel srcs ts = Some (parse_program (xpaste srcs ts)).
Proof. exact attr_include_is_splice. Qed.
(* hence the same configuration (AscentConfig::new): the default data structure of every relation without its own #[ds],
   whether run_timeout is generated, whether rule times are measured; serial and parallel macros alike *)
Theorem c09_include_same_configuration : forall (srcs : nat -> list xtok) (ts : list xtok) (fuel : nat) (is_parallel : bool),
  (forall p, no_xinc (srcs p) = true) ->
  (count_xinc ts < fuel)%nat ->
  outcome_config is_parallel (xexpand fuel srcs ts) = outcome_config is_parallel (Some (parse_program (xpaste srcs ts))).
Proof. exact attr_include_config. Qed.
(* and the inner attributes written at the top of a program are attributes of the program that is finally compiled,
   whatever follows them (`rest` may start with an include and hold no signature) *)
Theorem c09_include_keeps_inner_attributes : forall (srcs : nat -> list xtok) (A : list attr) (rest : list xtok) (fuel : nat) attrs sig items,
  (forall p, no_xinc (srcs p) = true) ->
  (count_xinc rest < fuel)%nat ->
  xexpand fuel srcs (map XAttr A ++ rest) = Some (OProg attrs sig items) ->
  exists more, attrs = A ++ more.
Proof. exact attr_include_keeps_inner_attributes. Qed.
(* about a VARIANT only (not the code's): `before` taken to be empty "when no signature, relation, rule or macro has been
   parsed yet" forgets the attributes: a program that opens with an include below `#![ds(7)] #![measure_rule_times]
   #![generate_run_timeout]` is compiled with the default configuration, the pasted text is not; the code as it is agrees
   with the pasted text on that input *)
Theorem c09_include_shortcut_refuted :
  exists srcs ts, (forall p, no_xinc (srcs p) = true)
    /\ outcome_config false (xexpand_when true 5 srcs ts)
       = Some {| c_measure := false; c_timeout := false; c_inter := false; c_default_ds := 0%nat |}
    /\ outcome_config false (Some (parse_program (xpaste srcs ts)))
       = Some {| c_measure := true; c_timeout := true; c_inter := false; c_default_ds := 7%nat |}
    /\ outcome_config false (xexpand 5 srcs ts) = outcome_config false (Some (parse_program (xpaste srcs ts))).
Proof. exact attr_shortcut_refuted. Qed.
Example c09_example_attr_include :
  xexpand 5 (fun p => match p with O => [xk 1] | _ => [xk 2] end) [XAttr (ADs 3); XAttr ATimeout; xinc 0; xk 9; xinc 1]
  = Some (OProg [ADs 3; ATimeout] [] [{| t_span := 1; t_site := 0; t_sym := TOther 1 |}; {| t_span := 9; t_site := 0; t_sym := TOther 9 |}; {| t_span := 2; t_site := 0; t_sym := TOther 2 |}])
  /\ xexpand 5 (xsrc_of [XAttr AMeasure; xk 1]) [XAttr (ADs 3); xinc 0] = Some (OProg [ADs 3; AMeasure] [] [{| t_span := 1; t_site := 0; t_sym := TOther 1 |}])
  /\ xexpand 5 (xsrc_of [XAttr AMeasure; xk 1]) [XAttr (ADs 3); XSig 0; xinc 0] = Some OError
  /\ config_of false [ADs 3; ADs 4] = None /\ config_of false [AInterRule] = None
  /\ config_of true [AInterRule; AMeasure] = Some {| c_measure := true; c_timeout := false; c_inter := true; c_default_ds := 0 |}.
Proof. exact attr_include_example. Qed.

(* about the OLD span-based split only (before /repo commit 9a74b6c, known_findings.json entry
   include_source_drops_prefix_when_spans_coincide, status fixed): with all tokens printing one span everything before
   the include was dropped; the current positional split yields the pasted text on that input *)
Theorem c09_old_span_split_refuted :
  exists srcs ts r, (forall p, no_inc (srcs p) = true)
                    /\ expand_old 5 srcs ts = Some r /\ r <> paste srcs ts /\ r = srcs O ++ [tk 0 (TOther 3)]
                    /\ expand 5 srcs ts = Some (paste srcs ts).
Proof. exact include_old_split_refuted_equal_spans. Qed.

(* name resolution: a source that mentions no captured local is transparent; one that does is not (macro_rules hygiene):
   the pasted text resolves, the included one is rejected by rustc (finding include_source_hides_captured_locals) *)
Theorem c09_include_hygiene_ok : forall srcs ts,
  (forall p, no_local (srcs p) = true) -> locals_resolve ts = true -> locals_resolve (paste srcs ts) = true.
Proof. exact include_hygiene_ok. Qed.
Theorem c09_include_hygiene_refuted :
  exists srcs ts r, (forall p, no_inc (srcs p) = true)
                    /\ locals_resolve (map at_call_site (paste srcs ts)) = true
                    /\ expand 5 srcs ts = Some r /\ locals_resolve r = false.
Proof. exact include_hygiene_refuted. Qed.

(* ---- non-vacuity, computed ---- *)
Example c09_example_dedup_vectors :
  dedup_all_keep_last_by Nat.eqb [1;2;2;3;1;1;4;5;6;3;2]%nat = [1;4;5;6;3;2]%nat
  /\ dedup_all_keep_last_by Nat.eqb [1;1;2;2;1;3;3;3;4]%nat = [2;1;3;4]%nat
  /\ dedup_all_keep_last_by Nat.eqb ([] : list nat) = [].
Proof. exact dedup_test_vectors. Qed.
Example c09_example_timeout_fires :
  option_map fst (run_timeout_code std_interp std_swap (fun _ => 5) 20 tc_plan 0 (init_state tc_input)) = Some false.
Proof. exact timeout_fires. Qed.
Example c09_example_ascent_run_tc :
  option_map (fun st => length (rows st)) (ascent_run_code std_interp std_swap 20 tc_plan [(0%nat, [[1; 2]; [2; 3]; [3; 4]; [4; 1]; [4; 5]])]) = Some 25%nat.
Proof. vm_compute. reflexivity. Qed.

(* NOT theorems here (carried by the tie only): that a generic struct signature / diverging impl signature leaves the
   generated evaluation code unchanged (the signature is only spliced into `struct`/`impl` headers), that ascent_par! /
   ascent_run_par! agree with the serial macros (C02's subject), and name resolution / spans / feature resolution of the
   real toolchain. *)

Print Assumptions c09_redecl_last_wins. Print Assumptions c09_redecl_last_initialiser. Print Assumptions c09_example_init_then_bare. Print Assumptions c09_dedup_keeps_last.
Print Assumptions c09_init_is_input. Print Assumptions c09_ascent_run_equals_struct_run. Print Assumptions c09_ascent_run_least_model.
Print Assumptions c09_index_build_establishes_precondition. Print Assumptions c09_assigned_not_indexed. Print Assumptions c09_run_sccs_indexed.
Print Assumptions c09_run_block_when_correct. Print Assumptions c09_index_build_needed. Print Assumptions c09_index_build_only_if_read_refuted.
Print Assumptions c09_example_write_only_initialised.
Print Assumptions c09_lattice_init_is_input. Print Assumptions c09_lattice_without_index_build_refuted. Print Assumptions c09_example_lattice_index_build.
Print Assumptions c09_run_is_timeout_max. Print Assumptions c09_run_via_timeout_is_run.
Print Assumptions c09_timing_flags_inert.
Print Assumptions c09_include_is_splice. Print Assumptions c09_old_span_split_refuted.
Print Assumptions c09_include_is_splice_with_attributes. Print Assumptions c09_include_same_configuration. Print Assumptions c09_include_keeps_inner_attributes.
Print Assumptions c09_include_shortcut_refuted. Print Assumptions c09_example_attr_include.
Print Assumptions c09_include_hygiene_ok. Print Assumptions c09_include_hygiene_refuted.
Print Assumptions c09_example_dedup_vectors. Print Assumptions c09_example_timeout_fires. Print Assumptions c09_example_ascent_run_tc.

(* ---- SIZE and ORDER of the declaration list (Pack/PackOrder.v; tie: family `big` of gen/c09_big.py, programs of 21-64 declarations) ----
   c09_redecl_last_wins above holds for declaration lists of any length.  What a pass that REORDERS the declarations must respect:
   the relation a rule resolves a name to, the generated field and the emitted initialiser depend on the list only through
   `named n ds`, the declarations of name n in their order *)
From AV Require Import Pack.PackOrder.
From Coq Require Import Permutation Sorted.
Theorem c09_reorder_keeping_names : forall (ds ds' : list decl),
  sig_consistent ds ->
  (forall n, named n ds' = named n ds) ->
  forall n, prog_get_relation n ds' = prog_get_relation n ds
            /\ fields_named n ds' = fields_named n ds
            /\ initialisers_emitted n ds' = initialisers_emitted n ds.
Proof. exact reorder_keeping_names. Qed.
(* in particular a STABLE sort of the declarations by name (sort_by_name: insertion sort) is invisible, for every length and order *)
Theorem c09_stable_sort_by_name_transparent : forall (ds : list decl),
  sig_consistent ds ->
  Permutation ds (sort_by_name ds) /\ Sorted name_le (sort_by_name ds)
  /\ forall n, prog_get_relation n (sort_by_name ds) = prog_get_relation n ds
               /\ fields_named n (sort_by_name ds) = fields_named n ds
               /\ initialisers_emitted n (sort_by_name ds) = initialisers_emitted n ds.
Proof. exact stable_sort_by_name_transparent. Qed.
(* NOT so for a sort by name that may permute declarations of equal name (slice::sort_unstable_by above 20 elements): a name-sorted
   permutation of a list of 30 declarations that only permutes inside the groups of equal names, under which the overridden decoy
   initialisers 101 / 102 are emitted and the initialiser 55 of a last declaration is lost (the class of the seeded change
   C09_relations_sorted_unstably_redeclaration_order) *)
Theorem c09_unstable_sort_by_name_refuted :
  exists ds ds', (length ds > 20)%nat /\ sig_consistent ds /\ Permutation ds ds' /\ Sorted name_le ds'
                 /\ (forall n, Permutation (named n ds) (named n ds'))
                 /\ initialisers_emitted 7 ds = [77]%nat /\ initialisers_emitted 7 ds' = [101]%nat
                 /\ initialisers_emitted 3 ds = [] /\ initialisers_emitted 3 ds' = [102]%nat
                 /\ initialisers_emitted 19 ds = [55]%nat /\ initialisers_emitted 19 ds' = [].
Proof. exact unstable_sort_by_name_refuted. Qed.
(* computed: 30 declarations in no particular order, relation 7 declared three times, 3 and 19 twice *)
Example c09_example_big_last_wins :
  length big_decls = 30%nat /\ length (hir_relations big_decls) = 26%nat
  /\ initialisers_emitted 7 big_decls = [77]%nat /\ initialisers_emitted 3 big_decls = [] /\ initialisers_emitted 19 big_decls = [55]%nat
  /\ prog_get_relation 7 big_decls = Some (dc 7 (Some 77%nat)) /\ prog_get_relation 3 big_decls = Some (dc 3 None)
  /\ map d_name (sort_by_name big_decls) = [1;2;3;3;4;5;6;7;7;7;8;9;10;11;12;13;14;16;17;18;19;19;21;22;24;25;26;27;29;30]%nat
  /\ map (fun n => initialisers_emitted n (sort_by_name big_decls)) [3; 7; 19; 22]%nat = [[]; [77]; [55]; [40]]%nat
  /\ map (fun n => initialisers_emitted n (rev big_decls)) [3; 7; 19]%nat = [[102]; [100]; []]%nat.
Proof. exact big_last_wins. Qed.
Print Assumptions c09_reorder_keeping_names. Print Assumptions c09_stable_sort_by_name_transparent. Print Assumptions c09_unstable_sort_by_name_refuted.
Print Assumptions c09_example_big_last_wins.

(* ---- relations that NEVER receive a tuple: optional inputs nobody fills (Pack/PackDeadRules.v; tie: family `opt` of gen/c09_dead.py) ----
   c09_init_is_input above is unconditional in the plan, so it covers programs with aggregates; with the stratified engine theorem
   (C04, Engine/MainAgg.v) the run block of ascent_run! on a validated plan of a program WITH aggregates / negation returns the
   stratified model over the initialisers' tuples.  No hypothesis asks a relation to have an initialiser or a rule that can fire: a
   relation that is declared and never filled is absent from `inits`, and count / sum / not() over it fire (0 / 0 / holds) as the
   specification says *)
From AV Require Import Engine.Interface.
From AV Require Import Engine.InterfaceAgg.
From AV Require Import Engine.Strat.
From AV Require Import Engine.StratFixed.
From AV Require Import Engine.SemiNaiveAgg.
From AV Require Import Pack.PackDeadRules.
Theorem c09_ascent_run_stratified_model : forall (I : interp) swap arities P pl fuel (inits : list (rel * list tuple)) st,
  arities_functional arities -> wf_facts arities (assign_inits inits) = true -> NoDup (assign_inits inits) ->
  agg_perm_invariant I ->
  validate arities P pl = true ->
  ascent_run_code I swap fuel pl inits = Some st ->
  stratified (plan_strata P pl) = true
  /\ (forall r, In r P <-> In r (concat (plan_strata P pl)))
  /\ strat_model_fixed I (plan_strata P pl) (assign_inits inits) (rows st)
  /\ NoDup (rows st)
  /\ exists added, rows st = assign_inits inits ++ added.
Proof. exact ascent_run_strat_model. Qed.
(* computed, on the plan the macro produces for
     nblk(n as i32) <-- agg n = count() in blk(_);   cost(x, t) <-- start(x), agg t = sum(wv) in w(x, wv);
     lo(x, m) <-- start(x), agg m = min(wv) in w(x, wv);   out(x, k) <-- cost(x, t), nblk(k), !lo(x, _);
   with `relation start(i32) = vec![(1,), (2,)]` the only initialiser (blk, w: never filled): nblk(0), cost(x, 0) and out(x, 0) are derived,
   lo is not; the specification oracle strat_fix derives exactly the same facts *)
Example c09_example_count_over_never_filled :
  option_map rows (ascent_run_code std_interp std_swap 20 opt_plan opt_inits) = Some opt_result
  /\ In (3%nat, [0]) opt_result /\ In (4%nat, [1; 0]) opt_result /\ In (6%nat, [2; 0]) opt_result
  /\ filter (fun f => Nat.eqb (fst f) 5) opt_result = []
  /\ option_map (fun fs => forallb (fun f => existsb (fact_eqb f) opt_result) fs && forallb (fun f => existsb (fact_eqb f) fs) opt_result)
                (strat_fix std_interp 20 (plan_strata opt_rules opt_plan) (assign_inits opt_inits)) = Some true.
Proof. exact opt_example. Qed.
Example c09_example_yields_on_empty : map (yields_on_empty std_interp) [0; 1; 2; 3; 4]%nat = [true; true; false; false; true].
Proof. exact std_yields_on_empty. Qed.
(* about a VARIANT only (not the code's; the class of the seeded change C09_ascent_run_dead_rule_elimination_count_sum): a dead-rule
   elimination for ascent_run! that keeps a rule only if every clause AND every aggregate other than negation ranges over a relation
   that is initialised, head of a surviving rule or dynamic in its SCC ("count / sum have nothing to aggregate").  On a validated
   program it deletes every rule — the run returns the initialisers' tuples alone — while the block as generated derives nblk(0) *)
Theorem c09_dead_rules_count_sum_like_clause_refuted :
  exists arities P pl inits,
    validate arities P pl = true /\ wf_facts arities (assign_inits inits) = true
    /\ option_map rows (ascent_run_code std_interp std_swap 20 pl inits) = Some opt_result
    /\ option_map rows (ascent_run_pruned negation_only std_interp std_swap 20 pl inits) = Some (assign_inits inits)
    /\ prune negation_only (map fst inits) pl = []
    /\ In (3%nat, [0]) opt_result /\ ~ In (3%nat, [0]) (assign_inits inits).
Proof. exact dead_rules_negation_only_refuted. Qed.
(* the same pass with every aggregator that yields on the empty input exempt leaves the instance alone (only the rule of min goes);
   its correctness for all programs is NOT proved here *)
Example c09_example_dead_rules_yielding_exempt :
  option_map rows (ascent_run_pruned (yields_on_empty std_interp) std_interp std_swap 20 opt_plan opt_inits) = Some opt_result
  /\ length (prune (yields_on_empty std_interp) (map fst opt_inits) opt_plan) = 3%nat.
Proof. exact dead_rules_yielding_exempt_example. Qed.
Print Assumptions c09_ascent_run_stratified_model. Print Assumptions c09_example_count_over_never_filled. Print Assumptions c09_example_yields_on_empty.
Print Assumptions c09_dead_rules_count_sum_like_clause_refuted. Print Assumptions c09_example_dead_rules_yielding_exempt.
