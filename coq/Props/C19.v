(* C19 — property theorems (under construction: model only so far). *)
From Coq Require Import List ZArith Permutation.
From AV Require Import Index.MultiMap.
From AV Require Import Index.IndexModel.
Import ListNotations.
Open Scope Z_scope.
