(* C19 — index building blocks behave as multimaps.  Property theorems only: each statement is given in
   full and proved by reference into Index/IndexRefine.v (serial types) and Index/ConcIndex.v (concurrent
   types).  Specification: Index/MultiMap.v (multimap = list of (key, value) entries up to Permutation;
   set = duplicate-free list up to Permutation).  Model: Index/IndexModel.v (mirror of ascent/src/internal.rs,
   rel_index_read.rs, c_rel_index.rs, c_rel_full_index.rs, c_lat_index.rs, c_rel_no_index.rs).
   Every theorem holds for EVERY order oracle [sh] (hash map / hash set iteration and drain order) that
   permutes its argument, and for EVERY shard placement [hash].  Concurrency: every DashMap entry operation /
   RwLock-protected push is one atomic step; [interleave threads schedule] ranges over all interleavings.
   Invariants: hv_wf / lat_wf / cri_wf / cfi_wf / clat_wf hold of the empty index and are preserved by every
   operation (part of each statement), i.e. they hold of every reachable state. *)
From Coq Require Import List ZArith Bool Permutation.
From AV Require Import Index.MultiMap.
From AV Require Import Index.IndexModel.
From AV Require Import Index.IndexRefine.
From AV Require Import Index.ConcIndex.
Import ListNotations.
Open Scope Z_scope.

(* ================================================================ RelIndexType1 (hash map of vectors) *)
(* index_insert adds exactly one entry *)
Theorem c19_hv_insert : forall k v m,
  Permutation (hv_abs (hv_insert k v m)) (mm_insert k v (hv_abs m)) /\ (hv_wf m -> hv_wf (hv_insert k v m)).
Proof. intros k v m; split; [exact (hv_insert_abs k v m) | exact (hv_insert_wf k v m)]. Qed.

(* index_get returns exactly the values stored under the key (with multiplicity, in order); None iff there are none *)
Theorem c19_hv_lookup : forall k m, hv_wf m ->
  match hv_get k m with
  | Some vs => vs = mm_lookup k (hv_abs m) /\ vs <> []
  | None => mm_lookup k (hv_abs m) = []
  end.
Proof. exact hv_get_spec. Qed.

(* after any sequence of inserts into an empty index a lookup returns exactly the values inserted under that key *)
Theorem c19_hv_inserts_then_lookup : forall (l : list (Z * Z)) k,
  hv_wf (hv_of_inserts l) /\
  Permutation (hv_abs (hv_of_inserts l)) (mm_of_inserts l) /\
  hv_get k (hv_of_inserts l) = match mm_lookup k l with [] => None | vs => Some vs end.
Proof. intros l k; split; [exact (hv_of_inserts_wf l) | split; [exact (hv_of_inserts_abs l) | exact (hv_of_inserts_get l k)]]. Qed.

(* iter_all yields every entry once and every key once *)
Theorem c19_hv_iter_all : forall sh, permuting sh -> forall m,
  Permutation (hv_abs (hv_iter_all sh m)) (mm_entries (hv_abs m)) /\ (hv_wf m -> NoDup (map fst (hv_iter_all sh m))).
Proof. intros sh P m; split; [exact (hv_iter_all_abs sh P m) | exact (hv_iter_all_keys sh P m)]. Qed.

(* len_estimate = number of distinct keys; is_empty iff no entry *)
Theorem c19_hv_len : forall m, hv_wf m -> hv_len m = zlen (mm_keys (hv_abs m)) /\ (hv_is_empty m = true <-> hv_abs m = []).
Proof. intros m W; split; [exact (hv_len_spec m W) | exact (hv_is_empty_spec m W)]. Qed.

(* move_index_contents, whichever side is larger (the size test swaps the two maps, and per key the two vectors):
   source emptied, destination = union *)
Theorem c19_hv_move : forall sh, permuting sh -> forall from to,
  fst (hv_move sh from to) = [] /\
  Permutation (hv_abs (snd (hv_move sh from to))) (mm_union (hv_abs to) (hv_abs from)) /\
  (hv_wf from -> hv_wf to -> hv_wf (snd (hv_move sh from to))) /\
  snd (hv_move sh from to) = (if (length to <? length from)%nat then hv_drain_into sh to from else hv_drain_into sh from to).
Proof.
  intros sh P from to;
    exact (conj (proj1 (hv_move_spec sh P from to)) (conj (proj1 (proj2 (hv_move_spec sh P from to)))
          (conj (proj2 (proj2 (hv_move_spec sh P from to))) (hv_move_swaps sh from to)))).
Qed.

(* merge_delta_to_total_new_to_delta: total' = total + delta, delta' = new, new' = empty *)
Theorem c19_hv_merge : forall sh, permuting sh -> forall new delta total,
  let '(n', d', t') := merge3 (hv_move sh) new delta total in
  n' = [] /\ d' = new /\ Permutation (hv_abs t') (mm_union (hv_abs total) (hv_abs delta)) /\
  (hv_wf delta -> hv_wf total -> hv_wf t').
Proof. exact hv_merge_spec. Qed.

(* ALL operation sequences: after any history of inserts, moves (any two distinct versions, either side larger) and
   merges over the three versions new / delta / total, every version satisfies the invariant and abstracts to the
   multimap computed by the same history on the specification; hence every lookup made afterwards answers from
   the abstract content.  [run (I_hv sh)] is the interpreter the correspondence runs evaluate. *)
Theorem c19_hv_history : forall sh, permuting sh -> forall ops, Forall wop_ok ops ->
  rel3 (hv_run_writes sh ops) (mm_run_writes ops) /\
  (forall s k, match hv_get k (slot_get s (hv_run_writes sh ops)) with
               | Some vs => Permutation vs (mm_lookup k (slot_get s (mm_run_writes ops))) /\ vs <> []
               | None => mm_lookup k (slot_get s (mm_run_writes ops)) = []
               end) /\
  (forall r, run (I_hv sh) (map to_op ops ++ r) ([], [], []) = run (I_hv sh) r (hv_run_writes sh ops)).
Proof.
  intros sh P ops F; split; [exact (hv_history sh P ops F) | split;
    [intros s k; exact (hv_history_lookup sh P ops s k F) | intros r; exact (run_hv_writes sh ops r F ([], [], []))]].
Qed.

(* ================================================================ RelFullIndexType (hashbrown map; a set of keys) *)
Theorem c19_full_insert : forall k v m, NoDup (fm_keys m) ->
  set_eq (fm_keys (fm_insert k v m)) (ks_ins k (fm_keys m)) /\
  (forall k', fm_get k' (fm_insert k v m) = if k =? k' then Some v else fm_get k' m).
Proof. exact fm_insert_spec. Qed.

(* insert_if_not_present returns true iff the key is absent, and inserts exactly then *)
Theorem c19_full_insert_if_not_present : forall k v m, NoDup (fm_keys m) ->
  let '(m', b) := fm_insert_if_not_present k v m in
  b = negb (fm_contains k m) /\ (b = false -> m' = m) /\ NoDup (fm_keys m') /\
  set_eq (fm_keys m') (ks_ins k (fm_keys m)) /\
  (forall k', fm_get k' m' = if b && (k =? k') then Some v else fm_get k' m).
Proof. exact fm_insert_if_not_present_spec. Qed.

Theorem c19_full_contains : forall k m,
  fm_contains k m = ks_mem k (fm_keys m) /\ fm_index_get k m = match fm_get k m with Some v => Some [v] | None => None end.
Proof. intros k m; split; [exact (fm_contains_spec k m) | exact (fm_index_get_spec k m)]. Qed.

(* move_index_contents, whichever side is larger: key set = union; a key on both sides keeps the value of the
   side that was drained; with disjoint key sets (what generated code maintains) every entry survives *)
Theorem c19_full_move : forall sh, permuting sh -> forall from to, NoDup (fm_keys from) -> NoDup (fm_keys to) ->
  fst (fm_move sh from to) = [] /\
  NoDup (fm_keys (snd (fm_move sh from to))) /\
  set_eq (fm_keys (snd (fm_move sh from to))) (ks_union (fm_keys to) (fm_keys from)) /\
  (forall k, fm_get k (snd (fm_move sh from to)) =
     if (length to <? length from)%nat
     then match fm_get k to with Some v => Some v | None => fm_get k from end
     else match fm_get k from with Some v => Some v | None => fm_get k to end).
Proof. exact fm_move_spec. Qed.

Theorem c19_full_move_disjoint : forall sh, permuting sh -> forall from to, NoDup (fm_keys from) -> NoDup (fm_keys to) ->
  (forall k, In k (fm_keys from) -> ~ In k (fm_keys to)) ->
  forall k, fm_get k (snd (fm_move sh from to)) = match fm_get k from with Some v => Some v | None => fm_get k to end.
Proof. exact fm_move_disjoint. Qed.

Theorem c19_full_merge : forall sh, permuting sh -> forall new delta total, NoDup (fm_keys delta) -> NoDup (fm_keys total) ->
  let '(n', d', t') := merge3 (fm_move sh) new delta total in
  n' = [] /\ d' = new /\ NoDup (fm_keys t') /\ set_eq (fm_keys t') (ks_union (fm_keys total) (fm_keys delta)).
Proof. exact fm_merge_spec. Qed.

Theorem c19_full_iter_all : forall sh, permuting sh -> forall m,
  Permutation (hv_abs (fm_iter_all sh m)) m /\ (NoDup (fm_keys m) -> NoDup (map fst (fm_iter_all sh m))) /\
  fm_len m = zlen (fm_keys m).
Proof. intros sh P m; split; [exact (fm_iter_all_abs sh P m) | split; [exact (fm_iter_all_keys sh P m) | exact (fm_len_spec m)]]. Qed.

(* ================================================================ LatticeIndexType (key -> set of rows) *)
Theorem c19_lat_insert : forall k v m, lat_wf m ->
  lat_wf (lat_insert k v m) /\ set_eq (hv_abs (lat_insert k v m)) (ps_ins k v (hv_abs m)).
Proof. exact lat_insert_spec. Qed.

Theorem c19_lat_lookup : forall sh, permuting sh -> forall k m, lat_wf m ->
  match lat_get sh k m with
  | Some vs => Permutation vs (mm_lookup k (hv_abs m)) /\ NoDup vs /\ vs <> []
  | None => mm_lookup k (hv_abs m) = []
  end.
Proof. exact lat_get_spec. Qed.

Theorem c19_lat_iter_all : forall sh, permuting sh -> forall m,
  Permutation (hv_abs (lat_iter_all sh m)) (mm_entries (hv_abs m)) /\
  (lat_wf m -> NoDup (map fst (lat_iter_all sh m)) /\ NoDup (hv_abs m)).
Proof.
  intros sh P m; split; [exact (lat_iter_all_abs sh P m) | intros W; exact (conj (lat_iter_all_keys sh P m W) (hv_abs_NoDup m W))].
Qed.

Theorem c19_lat_move : forall sh, permuting sh -> forall from to, lat_wf from -> lat_wf to ->
  fst (lat_move sh from to) = [] /\ lat_wf (snd (lat_move sh from to)) /\
  set_eq (hv_abs (snd (lat_move sh from to))) (ps_union (hv_abs to) (hv_abs from)).
Proof. exact lat_move_spec. Qed.

Theorem c19_lat_merge : forall sh, permuting sh -> forall new delta total, lat_wf delta -> lat_wf total ->
  let '(n', d', t') := merge3 (lat_move sh) new delta total in
  n' = [] /\ d' = new /\ lat_wf t' /\ set_eq (hv_abs t') (ps_union (hv_abs total) (hv_abs delta)).
Proof. exact lat_merge_spec. Qed.

(* ================================================================ RelNoIndexType (vector) and RelIndexCombined *)
Theorem c19_noindex : forall v l new delta total,
  Permutation (ni_insert v l) (v :: l) /\ merge3 ni_move new delta total = ([], new, total ++ delta).
Proof. intros v l new delta total; split; [exact (ni_insert_spec v l) | exact (ni_merge_spec new delta total)]. Qed.

(* the combined view answers with total's values followed by delta's: lookup and iteration of the sum *)
Theorem c19_combined : forall k m1 m2, NoDup (hv_keys m1) -> NoDup (hv_keys m2) ->
  flat_opt (comb_get (hv_get k m1) (hv_get k m2)) = mm_lookup k (mm_union (hv_abs m1) (hv_abs m2)) /\
  (comb_get (hv_get k m1) (hv_get k m2) = None <-> hv_get k m1 = None /\ hv_get k m2 = None) /\
  hv_abs (comb_iter_all m1 m2) = mm_union (hv_abs m1) (hv_abs m2).
Proof.
  intros k m1 m2 N1 N2; split; [exact (comb_get_spec k m1 m2 N1 N2) | split; [exact (comb_get_none _ _) | exact (comb_iter_all_abs m1 m2)]].
Qed.

(* ================================================================ CRelIndex (DashMap of vectors) *)
Theorem c19_cri_insert : forall hash k v c, fst c = false -> has_shards hvec c ->
  exists c', cri_insert hash k v c = Ok c' /\ fst c' = false /\ length (snd c') = length (snd c) /\
             Permutation (cri_abs c') (mm_insert k v (cri_abs c)) /\ (cri_wf hash c -> cri_wf hash c').
Proof. exact cri_insert_spec. Qed.

Theorem c19_cri_lookup : forall hash k c, fst c = true -> has_shards hvec c -> cri_wf hash c ->
  exists r, cri_get hash k c = Ok r /\
    match r with
    | Some vs => vs = mm_lookup k (cri_abs c) /\ vs <> []
    | None => mm_lookup k (cri_abs c) = []
    end.
Proof. exact cri_get_spec. Qed.

Theorem c19_cri_iter_all : forall sh, permuting sh -> forall hash c, fst c = true ->
  exists l, cri_iter_all sh c = Ok l /\ Permutation (hv_abs l) (mm_entries (cri_abs c)) /\ (cri_wf hash c -> NoDup (map fst l)).
Proof. exact cri_iter_all_spec. Qed.

(* freeze / unfreeze: identity on the contents; reads need the frozen, writes the unfrozen state *)
Theorem c19_cri_freeze : forall hash (c : cri),
  cri_abs (dm_freeze c) = cri_abs c /\ cri_abs (dm_unfreeze c) = cri_abs c /\
  (cri_wf hash c -> cri_wf hash (dm_freeze c) /\ cri_wf hash (dm_unfreeze c)) /\
  (forall k v, fst c = true -> cri_insert hash k v c = Panic) /\ (forall k, fst c = false -> cri_get hash k c = Panic).
Proof.
  intros hash c;
    exact (conj (proj1 (cri_freeze_spec hash c)) (conj (proj1 (proj2 (cri_freeze_spec hash c))) (conj (proj2 (proj2 (cri_freeze_spec hash c)))
          (conj (fun k v => cri_insert_frozen hash k v c) (fun k => cri_get_unfrozen hash k c))))).
Qed.

Theorem c19_cri_merge : forall sh, permuting sh -> forall hash (new : cri) delta total,
  fst delta = false -> fst total = false -> length (snd delta) = length (snd total) ->
  exists n' t', merge3r (cri_move sh) new delta total = Ok (n', new, t') /\
    cri_abs n' = [] /\ fst n' = false /\ fst t' = false /\
    Permutation (cri_abs t') (mm_union (cri_abs total) (cri_abs delta)) /\
    (cri_wf hash delta -> cri_wf hash total -> cri_wf hash n' /\ cri_wf hash t').
Proof. exact cri_merge_spec. Qed.

(* concurrent inserts from many threads are all retained: for EVERY interleaving of the atomic steps *)
Theorem c19_cri_concurrent : forall hash (threads : list (list (Z * Z))) schedule c,
  fst c = false -> has_shards hvec c -> interleave threads schedule ->
  exists c', steps (cri_step hash) schedule c = Ok c' /\
             Permutation (cri_abs c') (mm_union (mm_of_inserts (concat threads)) (cri_abs c)) /\
             (cri_wf hash c -> cri_wf hash c').
Proof. exact cri_concurrent_inserts. Qed.

(* end to end: whatever the interleaving, after the parallel phase and a freeze every lookup returns exactly the
   values inserted under the key by all threads together *)
Theorem c19_cri_concurrent_then_lookup : forall hash n (threads : list (list (Z * Z))) schedule, n <> O -> interleave threads schedule ->
  exists c', steps (cri_step hash) schedule (dm_default [] n) = Ok c' /\
    forall k, exists r, cri_get hash k (dm_freeze c') = Ok r /\
      match r with
      | Some vs => Permutation vs (mm_lookup k (mm_of_inserts (concat threads))) /\ vs <> []
      | None => mm_lookup k (mm_of_inserts (concat threads)) = []
      end.
Proof. exact cri_concurrent_then_lookup. Qed.

(* the stratum protocol: any number of iterations "parallel inserts into new (any interleaving); merge", starting
   from three empty indices with n shards: no panic, invariants kept, and new / delta / total abstract to the
   multimaps the specification computes (total' = total + delta, delta' = new + inserts, new' = empty, each round) *)
Theorem c19_cri_stratum_protocol : forall sh, permuting sh -> forall hash n, n <> O ->
  forall rounds : list (list (list (Z * Z)) * list (Z * Z)),
  Forall (fun ts => interleave (fst ts) (snd ts)) rounds ->
  exists c', cri_rounds sh hash (map snd rounds) (dm_default [] n, dm_default [] n, dm_default [] n) = Ok c' /\
             cri_ok3 hash n c' (mm_rounds (map (fun ts => concat (fst ts)) rounds) (mm_empty, mm_empty, mm_empty)).
Proof. intros sh P hash n Hn rounds F; exact (cri_rounds_spec sh P hash n Hn rounds _ _ F (cri_ok3_initial hash n)). Qed.

(* ================================================================ CRelFullIndex (DashMap; a set of keys) *)
Theorem c19_cfi_insert_if_not_present : forall hash k v c, fst c = false -> has_shards fmap c ->
  exists c', cfi_insert_if_not_present hash k v c = Ok (c', negb (cfi_has hash k c)) /\ fst c' = false /\
    length (snd c') = length (snd c) /\
    (forall k', cfi_lookup hash k' c' = if negb (cfi_has hash k c) && (k =? k') then Some v else cfi_lookup hash k' c) /\
    (forall k', cfi_has hash k' c' = cfi_has hash k' c || (k =? k')) /\
    (cfi_wf hash c -> cfi_wf hash c').
Proof. exact cfi_insert_if_not_present_spec. Qed.

Theorem c19_cfi_insert : forall hash k v c, fst c = false -> has_shards fmap c ->
  exists c', cfi_insert hash k v c = Ok c' /\ fst c' = false /\ length (snd c') = length (snd c) /\
    (forall k', cfi_lookup hash k' c' = if k =? k' then Some v else cfi_lookup hash k' c) /\ (cfi_wf hash c -> cfi_wf hash c').
Proof. exact cfi_insert_spec. Qed.

(* reads: index_get / contains_key / iter_all all present the same set of entries *)
Theorem c19_cfi_reads : forall sh, permuting sh -> forall hash c, fst c = true -> has_shards fmap c ->
  (forall k, cfi_get hash k c = Ok (match cfi_lookup hash k c with Some v => Some [v] | None => None end) /\
             cfi_contains hash k c = Ok (cfi_has hash k c)) /\
  (cfi_wf hash c -> forall k v, In (k, v) (cfi_entries c) <-> cfi_lookup hash k c = Some v) /\
  (exists l, cfi_iter_all sh c = Ok l /\ Permutation (hv_abs l) (mm_entries (cfi_entries c)) /\ (cfi_wf hash c -> NoDup (map fst l))) /\
  cfi_len c = Ok (mm_size (cfi_entries c)).
Proof.
  intros sh P hash c Hf Hs; split; [intros k; exact (cfi_get_spec hash k c Hf Hs) | split;
    [intros W k v; exact (cfi_lookup_entries hash k v c Hs W) | split;
      [exact (cfi_iter_all_spec sh P hash c Hf) | exact (proj1 (cfi_len_spec c Hf))]]].
Qed.

Theorem c19_cfi_freeze : forall hash (c : cfi),
  cfi_entries (dm_freeze c) = cfi_entries c /\ cfi_entries (dm_unfreeze c) = cfi_entries c /\
  (forall k, cfi_lookup hash k (dm_freeze c) = cfi_lookup hash k c /\ cfi_lookup hash k (dm_unfreeze c) = cfi_lookup hash k c) /\
  (cfi_wf hash c -> cfi_wf hash (dm_freeze c) /\ cfi_wf hash (dm_unfreeze c)).
Proof. exact cfi_freeze_spec. Qed.

Theorem c19_cfi_move : forall sh, permuting sh -> forall hash from to,
  fst from = false -> fst to = false -> length (snd from) = length (snd to) -> has_shards fmap to ->
  exists f' t', cfi_move sh from to = Ok (f', t') /\ fst f' = false /\ fst t' = false /\
    cfi_entries f' = [] /\ length (snd f') = length (snd from) /\ length (snd t') = length (snd to) /\
    (forall k, cfi_lookup hash k t' = fm_get k (snd (fm_move sh (cfi_shard hash k from) (cfi_shard hash k to)))) /\
    (cfi_wf hash from -> cfi_wf hash to ->
       cfi_wf hash f' /\ cfi_wf hash t' /\
       (forall k, cfi_has hash k t' = cfi_has hash k from || cfi_has hash k to) /\
       (forall k v, cfi_lookup hash k t' = Some v -> cfi_lookup hash k from = Some v \/ cfi_lookup hash k to = Some v) /\
       ((forall k, cfi_has hash k from = true -> cfi_has hash k to = false) ->
          forall k, cfi_lookup hash k t' = match cfi_lookup hash k from with Some v => Some v | None => cfi_lookup hash k to end)).
Proof. exact cfi_move_spec. Qed.

(* insert-if-absent succeeds for exactly one of the callers racing on a key: for EVERY interleaving *)
Theorem c19_cfi_concurrent_one_winner : forall hash (threads : list (list (Z * Z))) schedule c,
  fst c = false -> has_shards fmap c -> interleave threads schedule ->
  exists c' rs, cfi_np_steps hash schedule c = Ok (c', rs) /\
    (forall k, winners k rs = if cfi_has hash k c then 0%nat else if called k (concat threads) then 1%nat else 0%nat) /\
    (forall k, cfi_has hash k c' = cfi_has hash k c || called k (concat threads)) /\
    (forall k v, cfi_lookup hash k c' = Some v -> cfi_lookup hash k c = Some v \/ (cfi_has hash k c = false /\ In (k, v) (concat threads))) /\
    (cfi_wf hash c -> cfi_wf hash c').
Proof. exact cfi_concurrent_insert_if_not_present. Qed.

(* threads mixing index_insert (overwrite) and insert_if_not_present: never two winners on a key; none if the key
   was present; exactly one if it was absent and nobody overwrites it in the phase *)
Theorem c19_cfi_concurrent_mixed : forall hash (threads : list (list (bool * Z * Z))) schedule c,
  fst c = false -> has_shards fmap c -> interleave threads schedule ->
  exists c' rs, cfi_mixed_steps hash schedule c = Ok (c', rs) /\
    (forall k, (winners k rs <= 1)%nat) /\
    (forall k, cfi_has hash k c = true -> winners k rs = 0%nat) /\
    (forall k, cfi_has hash k c = false -> mcalled false k (concat threads) = false ->
               winners k rs = if mcalled true k (concat threads) then 1%nat else 0%nat) /\
    (forall k, cfi_has hash k c' = cfi_has hash k c || mcalled true k (concat threads) || mcalled false k (concat threads)) /\
    (cfi_wf hash c -> cfi_wf hash c').
Proof. exact cfi_concurrent_mixed. Qed.

(* ================================================================ CLatIndex (DashMap of sets) *)
Theorem c19_clat_insert : forall hash k v c, fst c = false -> has_shards lmap c -> clat_wf hash c ->
  exists c', clat_insert hash k v c = Ok c' /\ fst c' = false /\ length (snd c') = length (snd c) /\ clat_wf hash c' /\
             set_eq (clat_abs c') (ps_ins k v (clat_abs c)).
Proof. exact clat_insert_spec. Qed.

Theorem c19_clat_lookup : forall sh, permuting sh -> forall hash k c, fst c = true -> has_shards lmap c -> clat_wf hash c ->
  exists r, clat_get sh hash k c = Ok r /\
    match r with
    | Some vs => Permutation vs (mm_lookup k (clat_abs c)) /\ NoDup vs /\ vs <> []
    | None => mm_lookup k (clat_abs c) = []
    end.
Proof. exact clat_get_spec. Qed.

Theorem c19_clat_iter_all : forall sh, permuting sh -> forall hash c, fst c = true ->
  exists l, clat_iter_all sh c = Ok l /\ Permutation (hv_abs l) (mm_entries (clat_abs c)) /\ (clat_wf hash c -> NoDup (map fst l)).
Proof. exact clat_iter_all_spec. Qed.

Theorem c19_clat_freeze : forall hash (c : clat),
  clat_abs (dm_freeze c) = clat_abs c /\ clat_abs (dm_unfreeze c) = clat_abs c /\
  (clat_wf hash c -> clat_wf hash (dm_freeze c) /\ clat_wf hash (dm_unfreeze c)).
Proof. exact clat_freeze_spec. Qed.

Theorem c19_clat_merge : forall sh, permuting sh -> forall hash (new : clat) delta total,
  fst delta = false -> fst total = false -> length (snd delta) = length (snd total) ->
  clat_wf hash delta -> clat_wf hash total ->
  exists n' t', merge3r (clat_move sh) new delta total = Ok (n', new, t') /\
    clat_abs n' = [] /\ fst n' = false /\ fst t' = false /\ clat_wf hash n' /\ clat_wf hash t' /\
    set_eq (clat_abs t') (ps_union (clat_abs total) (clat_abs delta)).
Proof. exact clat_merge_spec. Qed.

Theorem c19_clat_concurrent : forall hash (threads : list (list (Z * Z))) schedule c,
  fst c = false -> has_shards lmap c -> clat_wf hash c -> interleave threads schedule ->
  exists c', steps (clat_step hash) schedule c = Ok c' /\ clat_wf hash c' /\ NoDup (clat_abs c') /\
             (forall e, In e (clat_abs c') <-> In e (concat threads) \/ In e (clat_abs c)).
Proof. exact clat_concurrent_inserts. Qed.

Theorem c19_clat_concurrent_then_lookup : forall sh, permuting sh -> forall hash n (threads : list (list (Z * Z))) schedule,
  n <> O -> interleave threads schedule ->
  exists c', steps (clat_step hash) schedule (dm_default [] n) = Ok c' /\
    forall k, exists r, clat_get sh hash k (dm_freeze c') = Ok r /\
      match r with
      | Some vs => NoDup vs /\ vs <> [] /\ forall v, In v vs <-> In (k, v) (concat threads)
      | None => forall v, ~ In (k, v) (concat threads)
      end.
Proof. exact clat_concurrent_then_lookup. Qed.

(* ================================================================ CRelNoIndex (per-thread shard vectors) *)
Theorem c19_cni_insert : forall tid v c, fst c = false -> snd c <> [] ->
  exists c', cni_insert tid v c = Ok c' /\ fst c' = false /\ length (snd c') = length (snd c) /\
             Permutation (cni_abs c') (v :: cni_abs c).
Proof. exact cni_insert_spec. Qed.

Theorem c19_cni_reads_freeze : forall c,
  (fst c = true -> cni_get c = Ok (Some (cni_abs c))) /\ (fst c = false -> cni_get c = Panic) /\
  cni_abs (cni_freeze c) = cni_abs c /\ cni_abs (cni_unfreeze c) = cni_abs c.
Proof.
  intros c; exact (conj (cni_get_spec c) (conj (cni_get_unfrozen c)
                    (conj (proj1 (cni_freeze_spec c)) (proj1 (proj2 (cni_freeze_spec c)))))).
Qed.

(* the merge equation, under its explicit precondition: equal shard counts (values created in the same pool) *)
Theorem c19_cni_merge : forall (new : cni) delta total, length (snd delta) = length (snd total) ->
  exists n' t', merge3r cni_move new delta total = Ok (n', new, t') /\
    cni_abs n' = [] /\ Permutation (cni_abs t') (cni_abs total ++ cni_abs delta).
Proof. exact cni_merge_spec. Qed.

(* without the precondition nothing is lost or duplicated across new + delta + total taken together ... *)
Theorem c19_cni_merge_conserves : forall new delta total : cni,
  exists n' t', merge3r cni_move new delta total = Ok (n', new, t') /\
    Permutation (cni_abs n' ++ cni_abs new ++ cni_abs t') (cni_abs new ++ cni_abs delta ++ cni_abs total).
Proof. exact cni_merge_conserves. Qed.

(* ... but the equation itself fails: delta's extra shards are not moved to total and come back as the next new *)
Theorem c19_noindex_merge_unequal_refuted :
  exists (new delta total n' d' t' : cni),
    length (snd delta) <> length (snd total) /\
    merge3r cni_move new delta total = Ok (n', d', t') /\
    cni_abs new = [] /\ cni_abs delta = [7; 8] /\ cni_abs total = [9] /\
    cni_abs t' = [9; 7] /\ cni_abs n' = [8] /\ cni_abs d' = [].
Proof. exact cni_merge_unequal_refuted. Qed.

(* concurrent pushes are all retained, for every interleaving and every assignment of threads to shards *)
Theorem c19_cni_concurrent : forall (threads : list (list (nat * Z))) schedule c,
  fst c = false -> snd c <> [] -> interleave threads schedule ->
  exists c', steps cni_step schedule c = Ok c' /\ Permutation (cni_abs c') (map snd (concat threads) ++ cni_abs c).
Proof. exact cni_concurrent_inserts. Qed.

Theorem c19_cni_concurrent_then_lookup : forall pool (threads : list (list (nat * Z))) schedule, interleave threads schedule ->
  exists c', steps cni_step schedule (cni_default pool) = Ok c' /\
    exists vs, cni_get (cni_freeze c') = Ok (Some vs) /\ Permutation vs (map snd (concat threads)).
Proof. exact cni_concurrent_then_lookup. Qed.

(* ================================================================ non-vacuity: oracles exist, the empty indices satisfy the
   invariants, and concrete histories run (merge with delta larger than total; a lost-shard merge; a race) *)
Example c19_oracles_exist : permuting sh_rev /\ permuting sh_id.
Proof. exact (conj sh_rev_permuting sh_id_permuting). Qed.

Example c19_empty_indices : forall hash n,
  hv_wf [] /\ lat_wf [] /\ cri_wf hash (dm_default [] n) /\ cfi_wf hash (dm_default [] n) /\ clat_wf hash (dm_default [] n) /\
  (n <> O -> has_shards hvec (dm_default [] n)).
Proof.
  intros hash n; exact (conj (conj (NoDup_nil _) (Forall_nil _)) (conj (conj (NoDup_nil _) (Forall_nil _))
    (conj (proj1 (cri_default_wf hash n)) (conj (proj1 (cfi_default_wf hash n)) (conj (proj1 (clat_default_wf hash n))
    (dm_default_has_shards hvec [] n)))))).
Qed.

Example c19_interleaving_exists :
  interleave [[(1, 10); (2, 20)]; [(1, 11)]] [(1, 10); (1, 11); (2, 20)].
Proof.
  exact (il_step [] (1, 10) [(2, 20)] [[(1, 11)]] _ (il_step [[(2, 20)]] (1, 11) [] [] _ (il_step [] (2, 20) [] [[]] _
          (il_done [[]; []] (Forall_cons _ eq_refl (Forall_cons _ eq_refl (Forall_nil _))))))).
Qed.

Example c19_example_serial :
  run0 (I_hv sh_rev) [OIns 1 3 7; OIns 1 3 8; OIns 1 4 5; OIns 2 3 1; OMerge; OGet 2 3; OGet 2 9; OLen 2; OGet 1 3; OIns 1 3 2; OCombGet 3]
  = [RGet (Some [7; 8; 1]); RGet None; RNum 2; RGet None; RGet (Some [7; 8; 1; 2])].
Proof. vm_compute. reflexivity. Qed.

Example c19_example_concurrent :
  run0 (I_cfi sh_rev (fun k => Z.to_nat k) 4) [ONp 2 1 7; OPar 2 [(1, 1, 5); (1, 6, 6); (1, 6, 9); (0, 2, 2)]; OFrz 2; OGet 2 6; OHas 2 1; OLen 2]
  = [RBool true; RPar [(1, false); (6, true); (6, false)]; RGet (Some [6]); RBool true; RNum 3] /\
  run0 (I_cni 2 3 2) [OIns 1 0 7; OIns 1 2 8; OIns 2 1 9; OMerge; OFrz 2; OFrz 0; OGet 2 0; OGet 0 0]
  = [RGet (Some [7; 9]); RGet (Some [8])].
Proof. vm_compute. split; reflexivity. Qed.

Print Assumptions c19_hv_insert. Print Assumptions c19_hv_lookup. Print Assumptions c19_hv_inserts_then_lookup.
Print Assumptions c19_hv_iter_all. Print Assumptions c19_hv_len. Print Assumptions c19_hv_move. Print Assumptions c19_hv_merge.
Print Assumptions c19_full_insert. Print Assumptions c19_full_insert_if_not_present. Print Assumptions c19_full_contains.
Print Assumptions c19_full_move. Print Assumptions c19_full_move_disjoint. Print Assumptions c19_full_merge. Print Assumptions c19_full_iter_all.
Print Assumptions c19_lat_insert. Print Assumptions c19_lat_lookup. Print Assumptions c19_lat_iter_all. Print Assumptions c19_lat_move.
Print Assumptions c19_lat_merge. Print Assumptions c19_noindex. Print Assumptions c19_combined.
Print Assumptions c19_cri_insert. Print Assumptions c19_cri_lookup. Print Assumptions c19_cri_iter_all. Print Assumptions c19_cri_freeze.
Print Assumptions c19_cri_merge. Print Assumptions c19_cri_concurrent.
Print Assumptions c19_cfi_insert_if_not_present. Print Assumptions c19_cfi_insert. Print Assumptions c19_cfi_reads. Print Assumptions c19_cfi_freeze.
Print Assumptions c19_cfi_move. Print Assumptions c19_cfi_concurrent_one_winner.
Print Assumptions c19_clat_insert. Print Assumptions c19_clat_lookup. Print Assumptions c19_clat_iter_all. Print Assumptions c19_clat_freeze.
Print Assumptions c19_clat_merge. Print Assumptions c19_clat_concurrent.
Print Assumptions c19_cni_insert. Print Assumptions c19_cni_reads_freeze. Print Assumptions c19_cni_merge. Print Assumptions c19_cni_merge_conserves.
Print Assumptions c19_noindex_merge_unequal_refuted. Print Assumptions c19_cni_concurrent.
Print Assumptions c19_hv_history. Print Assumptions c19_cri_concurrent_then_lookup. Print Assumptions c19_cfi_concurrent_mixed.
Print Assumptions c19_clat_concurrent_then_lookup. Print Assumptions c19_cni_concurrent_then_lookup.
Print Assumptions c19_cri_stratum_protocol. Print Assumptions c19_interleaving_exists. Print Assumptions c19_oracles_exist. Print Assumptions c19_empty_indices. Print Assumptions c19_example_serial. Print Assumptions c19_example_concurrent.

(* ================= the index model types UNDER the generated code =================
   Engine/ConcreteEval.v is the per-index engine (Engine/IndexedEval.v, C01 / C13) with every index field a VALUE of the model
   types of this file's subject (hvec = RelIndexType1, fmap = RelFullIndexType, the Combined view) and every step a call of the
   modelled operation the generated code calls (index_insert, contains_key, insert_if_not_present, merge_delta_to_total_new_to_delta
   with move_index_contents and its swap on size, index_get, iter_all, len_estimate).  It simulates IndexedEval, which refines
   Engine/Eval.v, the subject of the least-model theorems: the chain code-level index types -> abstract engine is closed. *)
From Coq Require Import List ZArith Bool Permutation.
From AV Require Import Index.IndexModel.
From AV Require Import Index.IndexRefine.
From AV Require Import Engine.Core Engine.Sem Engine.Eval Engine.Validate Engine.Naive Engine.Interface Engine.Main Engine.Vocab Engine.Examples.
From AV Require Import Engine.InterfaceAgg Engine.MainAgg.
From AV Require Import Engine.IndexedEval Engine.IndexedSim Engine.IndexedRefine.
From AV Require Import Engine.ConcreteEval Engine.ConcreteBase Engine.ConcreteRefine.
Import ListNotations.
Open Scope Z_scope.

(* the engine whose every index field is a C19 model value simulates the engine with per-index entry lists: same termination,
   rows equal up to Permutation, every index field abstracts (hv_abs / key set) to the entry list of its index up to Permutation *)
Theorem c19_engine_on_model_types_refines_indexed_engine :
  forall (sh : forall A : Type, list A -> list A), permuting sh ->
  forall (enc : list Z -> Z) (dec : Z -> list Z), (forall l, dec (enc l) = l) ->
  forall (I : interp), agg_perm_invariant I ->
  forall swap, swap_perm_invariant swap ->
  forall decls, forallb (decl_ok decls) decls = true ->
  forall fuel pl c a, plan_idx_ok decls pl = true ->
  Permutation (crows c) (irows a) -> Forall2 Rshape (cstored c) (istored a) -> pshape (istored a) = decls ->
  (forall f, In f (irows a) -> fact_idx_ok decls f = true) ->
  orel (Rst enc decls) (run_plan_concrete sh enc dec I swap fuel pl c) (run_plan_idx I swap fuel pl a).
Proof. exact run_plan_concrete_sim. Qed.

(* what the relation says about one stored index field: read through iter_all (what the DS / PROG harness does), it lists exactly the
   entries of the index of IndexedEval, up to Permutation *)
Theorem c19_index_field_entries :
  forall (sh : forall A : Type, list A -> list A), permuting sh ->
  forall (enc : list Z -> Z) (dec : Z -> list Z), (forall l, dec (enc l) = l) ->
  forall decls, forallb (decl_ok decls) decls = true ->
  forall r a c x es, In (r, a, c) decls -> Rix enc a c x es -> Permutation (cix_entries sh dec a c x) es.
Proof. exact entries_sim. Qed.

(* the row order is NOT preserved (so the statement above cannot be an equality of lists) *)
Theorem c19_engine_on_model_types_row_order_refuted : exists c a,
  run_plan_concrete sh_rev enc_list dec_list std_interp std_swap 20 tc_plan (c_init_state tc_decls tc_input) = Some c
  /\ run_plan_idx std_interp std_swap 20 tc_plan (init_istate tc_decls tc_input) = Some a
  /\ crows c <> irows a.
Proof. exact tc_concrete_rows_differ_refuted. Qed.

(* PARTIAL: the generated code decides the order of a reorderable simple join by `len_estimate() <= len_estimate()` on the two
   indices (ConcreteEval.real_swap_dec, computed by hv_len / fm_len / comb_len); the theorems above are for a decision that is a
   function of the rows (the oracle of Eval.v).  Proved: where no rule variant is reorderable the two engines are the same function.
   Missing: reorderable variants under real_swap_dec (needs the symmetry of the simple join at the level of IndexedEval). *)
Theorem c19_engine_real_len_estimate_partial :
  forall sh enc dec I swap fuel pl st, no_reorder pl ->
  run_plan_concrete_real sh enc dec I fuel pl st = run_plan_concrete sh enc dec I swap fuel pl st.
Proof. exact run_plan_concrete_real_eq. Qed.
Print Assumptions c19_engine_on_model_types_refines_indexed_engine. Print Assumptions c19_index_field_entries.
Print Assumptions c19_engine_on_model_types_row_order_refuted. Print Assumptions c19_engine_real_len_estimate_partial.

(* ================= CRelNoIndex: the shard lock of the concurrent insert (Index/NoIndexRace.v) =================
   The concurrency theorems above take `self.vec[shard].write().push(value)` as one atomic step.  NoIndexRace.v opens the step
   (read the length; store the value in that slot and set the length) and states what the lock buys. *)
From AV Require Import Index.NoIndexRace.

(* with the lock held (the two halves adjacent) the opened push IS the atomic step cni_insert of the theorems above *)
Theorem c19_cni_push_locked_is_insert : forall t v c,
  ConcIndex.steps rstep_run (push_steps t v) (c, []) = IndexModel.bind (cni_insert t v c) (fun c' => IndexModel.Ok (c', [])).
Proof. exact push_locked_is_insert. Qed.

(* without the lock "concurrent inserts are all retained" FAILS as soon as two threads share a shard (here workers 0 and 2 filling
   an index created inside a pool of 2): there is an interleaving of the two opened pushes after which only one value is stored *)
Theorem c19_cni_push_unlocked_shared_shard_refuted :
  exists sch st, interleave [push_steps 0 7; push_steps 2 8] sch /\
    ConcIndex.steps rstep_run sch (cni_default 2, []) = IndexModel.Ok st /\ cni_abs (fst st) = [8] /\ snd st = [].
Proof. exact push_unlocked_shared_shard_refuted. Qed.

(* all 70 interleavings of two threads x two pushes, 2 shards: own shards -> every schedule retains all four values;
   shared shard -> exactly the 6 schedules the lock allows retain them, the other 64 lose at least one *)
Example c19_cni_push_unlocked_bounded :
  length (interleavings (thread_steps 0 [1; 2]) (thread_steps 1 [3; 4])) = 70%nat /\
  forallb (retains 2 [1; 2; 3; 4]) (interleavings (thread_steps 0 [1; 2]) (thread_steps 1 [3; 4])) = true /\
  NoIndexRace.count (fun s => match run_unlocked 2 s with IndexModel.Ok l => Nat.eqb (length l) 4 | _ => false end)
        (interleavings (thread_steps 0 [1; 2]) (thread_steps 2 [3; 4])) = 6%nat /\
  NoIndexRace.count (fun s => match run_unlocked 2 s with IndexModel.Ok l => Nat.ltb (length l) 4 | _ => false end)
        (interleavings (thread_steps 0 [1; 2]) (thread_steps 2 [3; 4])) = 64%nat.
Proof. exact push_unlocked_bounded. Qed.
Print Assumptions c19_cni_push_locked_is_insert. Print Assumptions c19_cni_push_unlocked_shared_shard_refuted. Print Assumptions c19_cni_push_unlocked_bounded.
