(* C12 — a relation tagged #[ds(trrel_uf)] behaves as its reflexive transitive closure.

   Model: Byods/TrUfProvModel.v (New / Delta / Total protocol of TrRelIndCommon, the binary index views, the generic
   BinRelToTernary adaptor with its reverse maps) on top of the C18 model of TrRelUnionFind (UF/TrUfModel.v), following the code
   AFTER the five repairs this property led to (/repo c22d480, fda3f9e, 2e6bc3e, 8bc4a03, 36a9ed3).

   What is proved here (all unconditional; "partial" = a part of the property's statement, see "what is missing" below)
   -- the program level
     c12_program_binary            a program whose relation r0 is tagged #[ds(trrel_uf)], run by the engine model on a validated plan,
                                   computes the least model of the program extended with the explicit rules
                                     r0(x,x) <-- r0(x,_);  r0(y,y) <-- r0(_,y);  r0(x,z) <-- r0(x,y), r0(y,z)
     c12_program_ternary           the same for the ternary form (with or without reverse maps), closure per value of column 0:
                                     r0(k,x,x) <-- r0(k,x,_);  r0(k,y,y) <-- r0(k,_,y);  r0(k,x,z) <-- r0(k,x,y), r0(k,y,z)
     c12_engine_theorem            the engine theorem for a provider-backed relation from laws over the histories generated code
                                   produces (a stratum boundary only after a merge that moved nothing); it generalises
                                   Engine/ProvProofsW.prun_plan_correct_w (c12_engine_laws_generalise)
     c12_binary_engine_laws        the packaged binary provider meets those laws with cl = reflexive transitive closure on mentioned
                                   elements;  c12_rules_bridge: closed under that cl = closed under the three explicit rules
     c12_ternary_engine_laws, c12_rules_bridge_ternary   the same for the ternary form
   -- the binary provider on EVERY history (Provider.v histories PIns / PMerge / PRestart with a boundary only after a merge that
      moved nothing, which is where generated code ends a stratum; insertions are arbitrary, guarded or not)
     c12_binary_exact              after every operation total + delta serve EXACTLY the reflexive transitive closure of the pairs
                                   merged so far (soundness and completeness, recursive histories included)
     c12_binary_p3_weak            law P3 in the weak form  total' subset of (total + delta) + delta'  at every merge
     c12_binary_quiescent          after a merge with nothing new, delta adds nothing to total (loop exit)
     c12_binary_ops_never_fail     no operation of the model fails (insert, merge, iter_all, contains of both versions)
     c12_binary_contains           contains_key agrees with iter_all for both versions
     c12_binary_boundary           a boundary hands total over as the next delta and empties total
     c12_binary_provider_is_model  the packaged provider walks through exactly the states of the operation-sequence model
                                   (run_state (bin_prov dom)) that the tie compares with the real provider, for every history
     c12_binary_keyed_views        index [0] / [1] (ind0 / ind1 index_get and iter_all) of both versions serve, for their key, exactly what
                                   the full index of that version serves, and never fail
     c12_any_boundary_refuted      the exactness statement does NOT extend to a boundary in the middle of a round: total holds the
                                   reflexive pair of the elements of the last `new` while the ghost of Byods/Provider.v drops the
                                   round (so Engine/ProvLaws.engine_laws, quantified over boundaries anywhere, is not met; the
                                   engine never produces such a history)
   -- the generic ternary adaptor on EVERY history (same histories; both settings of the two reverse maps)
     c12_ternary_exact             after every operation total + delta serve, for every key, EXACTLY the reflexive transitive closure of the
                                   pairs merged under that key (full index: iter_all / contains_key)
     c12_ternary_ops_never_fail    insert, merge (its two loops, the unwraps on the reverse maps, the rebuild of the delta's reverse maps),
                                   iter_all and contains_key of both versions never fail
     c12_ternary_contains, c12_ternary_p3_weak, c12_ternary_quiescent, c12_ternary_boundary   as for the binary form
     c12_ternary_keyed_views       index [0], [0,1], [0,2] (index_get and iter_all) of both versions agree with the full index, never fail
     c12_ternary_reverse_get / _all / _12_get / _12_all   the views through the reverse maps (index [1], [2], [1,2]; when the maps exist)
                                   never fail (no unwrap on a listed key, no division by zero) and return a tuple iff its key is listed
                                   under the column value AND the full index has it (soundness; exact characterisation)
     c12_ternary_reverse_complete_delta   the delta's reverse maps list every tuple of delta: its views [1], [2], [1,2] are complete
     c12_ternary_reverse_complete_total   a tuple of total is listed in total's reverse maps, or delta has it as well (completeness
                                   modulo the weak form of P3: the reflexive pairs of the elements of the last round)
     c12_ternary_provider_is_model whenever the operation-sequence model of the ternary form (which also reads every view) runs a
                                   history, the packaged provider is in the same state
   -- earlier statements
     c12_nonrecursive_exact        binary form, non-recursive use: a stratum that only inserts ends without failure, and every view of
                                   what it leaves serves EXACTLY the reflexive transitive closure (soundness and completeness)
     c12_total_exact               a Total-shaped version over a structure satisfying C18's invariant (in its weak form, which every
                                   structure the provider builds satisfies) serves exactly the closure of the pairs it was built from
   -- EVERY sequence of operations (stratum starts, stratum ends, merges, inserts, head updates in any order; keys pausing and resuming)
     c12_never_panics              both forms (the ternary one with or without reverse maps): no operation fails — no assert, unwrap,
                                   index out of range, division by zero, "unexpected shape" panic in the modelled paths (list: header of
                                   Byods/TrUfProvModel.v), the inner semi-naive loop of every merge terminates (within (number of
                                   classes)^2 + 2 rounds), and so does reading EVERY view of delta and total after each stratum start and
                                   each merge (read_bin / read_ter: index_get over the finite domain, iter_all, contains_key, len_estimate);
                                   = c12_binary_never_panics /\ c12_ternary_never_panics
     c12_ternary_runs              the state invariant behind the ternary half: per key the shapes of the binary provider, generalised to
                                   absent entries (an empty Total-shaped delta is accepted next to any total), and every key listed in a
                                   reverse map of delta / total / the stored relation has an entry in that version's map
     c12_views_once_binary         every view of the delta version (Delta- or Total-shaped), of the total version and of the stored
                                   relation returns each tuple ONCE: iter_all, ind0 / ind1 index_get, ind0 / ind1 iter_all (the keys it
                                   yields and the values under each key) are duplicate-free (nodup_version)
     c12_views_once_ternary        the same for the eight index views of the ternary form (nodup_tern): None / [0] / full iter_all (tuples and
                                   keys), [0] index_get, [0,1] / [0,2] index_get and iter_all, [1] / [2] index_get and iter_all (through the reverse
                                   maps), [1,2] index_get and iter_all; so a rule reading a trrel_uf relation fires once per tuple, and an
                                   aggregate over it (C04) counts each tuple once
     c12_reads_once_binary, c12_reads_once_ternary   the same at the level of the observations the tie compares with the real provider: at
                                   EVERY read of EVERY history (run_bin / run_ter: after each stratum start and each merge), each of the 9
                                   (binary) / 11 or 17 (ternary) views of delta and of total — index_get evaluated for every key of the finite
                                   domain, iter_all, contains_key, flattened to tuples in column order — lists each tuple once
     c12_delta_views_once, c12_total_views_once   the two ingredients, for ANY structure satisfying C18's invariant in its weak form: a Delta
                                   with duplicate-free connection maps / a Total serves each tuple once
     c12_merge_keeps_maps_disjoint whenever the merge of TrRelIndCommon returns — no hypothesis on the union-find structure —, a Delta-shaped
                                   result has duplicate-free connection maps: every pair the inner loop adds passed can_add (not in
                                   delta_delta, not in delta_total), so each unchecked move delta_delta -> delta_total is disjoint
     c12_sound_partial             binary form: every operation runs, and everything any view of delta, total or the stored relation
                                   serves lies in the closure of the pairs handed to insert.  Partial: the soundness half only (completeness
                                   on histories with a boundary in the middle of a round is refuted: c12_any_boundary_refuted), and not
                                   stated per key for the ternary form
     c12_protocol_any_union_find   soundness and panic freedom of the binary form for ANY union-find structure satisfying the interface [truf_iface]
     c12_iface_discharged          C18's invariant in its weak form satisfies that interface (tr_add, add_node_new, the queries)
     c12_inner_loop_round          one round of the inner loop of the merge keeps the invariant "every processed class pair is
                                   saturated against total and new" (the class-level core of c12_binary_exact)
   Provider law P3 (nothing becomes readable from total without having been served as delta) holds in the form
     total_{i+1}  subset of  total_i + delta_i + delta_{i+1}
   (c12_binary_p3_weak; checker p3_check for the tie).  The literal form  total_{i+1} subset of total_i + delta_i  of DESIGN 5/C10 is
   violated by the repaired provider, necessarily: an element mentioned for the first time becomes a node of total in the same merge
   that serves its reflexive pair as delta, so the pair is readable from total and from delta in the same round
   (c12_literal_p3_fails); the semi-naive argument only needs the weaker form, because the delta variants of the coming iteration
   cover such a tuple (that is what c12_engine_theorem proves).
   The five former refutations are now positive (the theorems c12_witness_...); the refutations themselves are kept on the model of the code
   before the repairs (Byods/TrUfProvBeforeFix.v, module BeforeFix): the theorems c12_before_fix_refuted_...
   What is missing (carried by the tie only): soundness on EVERY sequence of operations is stated for the binary form only
   (c12_sound_partial; for the ternary form exactness is proved on the histories generated code produces: c12_ternary_exact); the statements
   about exactness are about histories whose stratum boundaries follow a merge that moved nothing (what generated code does), not boundaries
   anywhere (c12_any_boundary_refuted shows why).  The multiplicity theorems are about the model, in which a HashSet is its content listed in
   insertion order: they hold for every order in which the pairs of a round are inserted and their argument never uses the order of a list;
   that the model's views equal the real ones WITH multiplicity is the tie (sorted lists; delta views are compared modulo the tuples of the same view of total, see gen/c12_ds.py). *)
From Coq Require Import List Arith Bool ZArith.
From AV Require Import Engine.Core Engine.Sem Engine.Eval Engine.Validate Engine.Naive Engine.Interface.
From AV Require Import Byods.Provider Engine.EvalProv Engine.InterfaceProv Engine.ProvLaws.
From AV Require Import UF.UfBase.
From AV Require Import UF.TrUfModel.
From AV Require Import UF.TrUfInv.
From AV Require Import Byods.TrUfProvModel.
From AV Require Import Byods.TrUfProvProofs.
From AV Require Import Byods.TrUfProvBeforeFix.
From AV Require Import Byods.TrUfProvLaws.
From AV Require Import Byods.TrUfProvTernary.
From AV Require Import Byods.TrUfProvViews.
From AV Require Import Byods.TrUfProvRevViews.
From AV Require Import Byods.TrUfProvEngine.
From AV Require Import Byods.TrUfProvProgram.
From AV Require Import Byods.TrUfProvTernarySafe.
From AV Require Import Byods.TrUfProvMult.
From AV Require Import Byods.TrUfProvReads.
Import ListNotations.
Close Scope Z_scope.

(* ---- the program level, binary form *)
Theorem c12_program_binary : forall I swap r0 arities P pl fuel F0 st,
  In (r0, 2%nat) arities -> arities_functional arities -> wf_facts arities F0 = true -> no_agg P = true ->
  (forall f, In f F0 -> fst f <> r0) -> validate arities P pl = true ->
  prun_plan I swap trrel_uf_binary r0 fuel pl F0 = Some st ->
  least_model I (P ++ rtc_rules r0) F0 (pfacts trrel_uf_binary r0 st).
Proof. exact trrel_uf_program_binary. Qed.

Theorem c12_engine_theorem : forall I swap (PV : provider tuple) (cl : list tuple -> list tuple) (r0 : rel) (n0 : nat) arities P pl fuel F0 st,
  closure_op tuple cl -> qengine_laws PV cl -> cl_arity cl n0 -> In (r0, n0) arities ->
  arities_functional arities -> wf_facts arities F0 = true -> no_agg P = true ->
  (forall f, In f F0 -> fst f <> r0) -> validate arities P pl = true ->
  prun_plan I swap PV r0 fuel pl F0 = Some st ->
  least_model_cl I P cl r0 F0 (pfacts PV r0 st).
Proof. exact prun_plan_correct_q. Qed.

Theorem c12_engine_laws_generalise : forall PV cl, engine_laws PV cl -> qengine_laws PV cl.
Proof. exact qlaws_of_engine_laws. Qed.

Theorem c12_binary_engine_laws : closure_op tuple rtc2 /\ cl_arity rtc2 2 /\ qengine_laws trrel_uf_binary rtc2.
Proof. exact (conj rtc2_closure_op (conj rtc2_arity trrel_uf_binary_qengine_laws)). Qed.

Theorem c12_rules_bridge : forall I P r0 F0 M,
  least_model_cl I P rtc2 r0 F0 M <-> least_model I (P ++ rtc_rules r0) F0 M.
Proof. exact least_model_rtc2_iff. Qed.

Theorem c12_program_ternary : forall h1 h2 I swap r0 arities P pl fuel F0 st,
  In (r0, 3%nat) arities -> arities_functional arities -> wf_facts arities F0 = true -> no_agg P = true ->
  (forall f, In f F0 -> fst f <> r0) -> validate arities P pl = true ->
  prun_plan I swap (trrel_uf_ternary h1 h2) r0 fuel pl F0 = Some st ->
  least_model I (P ++ rtc_rules3 r0) F0 (pfacts (trrel_uf_ternary h1 h2) r0 st).
Proof. exact trrel_uf_program_ternary. Qed.

Theorem c12_ternary_engine_laws : forall h1 h2,
  closure_op tuple rtc3 /\ cl_arity rtc3 3 /\ qengine_laws (trrel_uf_ternary h1 h2) rtc3.
Proof. intros h1 h2. exact (conj rtc3_closure_op (conj rtc3_arity (trrel_uf_ternary_qengine_laws h1 h2))). Qed.

Theorem c12_rules_bridge_ternary : forall I P r0 F0 M,
  least_model_cl I P rtc3 r0 F0 M <-> least_model I (P ++ rtc_rules3 r0) F0 M.
Proof. exact least_model_rtc3_iff. Qed.

(* a non-trivial instance of the closure operator on tuples: a chain and a back edge, and a tuple of the wrong shape left alone *)
Example c12_example_rtc2 : length (rtc2 [[1; 2]; [2; 3]; [3; 1]; [7]; [5; 5]]%Z) = 11%nat.
Proof. vm_compute. reflexivity. Qed.

(* ---- the binary provider on every history *)
Theorem c12_binary_exact : forall h, qhist h ->
  forall x y, In (x, y) (Provider.served T2 PU (Provider.run T2 PU h)) <-> rtc (g_td T2 (ghost_of T2 h)) x y.
Proof. exact pu_served. Qed.

Theorem c12_binary_p3_weak : forall h, qhist h ->
  incl (Provider.p_read T2 PU (Provider.run T2 PU (h ++ [PMerge])) VTotal)
       (Provider.served T2 PU (Provider.run T2 PU h) ++ Provider.p_read T2 PU (Provider.run T2 PU (h ++ [PMerge])) VDelta).
Proof. exact pu_merge_total. Qed.

Theorem c12_binary_quiescent : forall h, qhist h -> g_new T2 (ghost_of T2 h) = [] ->
  incl (Provider.served T2 PU (Provider.run T2 PU (h ++ [PMerge]))) (Provider.p_read T2 PU (Provider.run T2 PU (h ++ [PMerge])) VTotal).
Proof. exact pu_quiescent. Qed.

Theorem c12_binary_ops_never_fail : forall h n d t, qhist h -> Provider.run T2 PU h = (n, d, t) ->
  (forall x y, exists r, c_insert n x y = Ok r) /\ (exists r, c_merge n d t = Ok r) /\
  (forall v, exists l, c_iter_all (pu_ver (n, d, t) v) = Ok l) /\
  (forall v x y, exists b, c_contains (pu_ver (n, d, t) v) x y = Ok b).
Proof. exact pu_ops_ok_eq. Qed.

Theorem c12_binary_contains : forall h v p, qhist h ->
  (Provider.p_contains T2 PU (Provider.run T2 PU h) v p = true <-> In p (Provider.p_read T2 PU (Provider.run T2 PU h) v)).
Proof. exact pu_contains_iff. Qed.

Theorem c12_binary_boundary : forall h,
  incl (Provider.p_read T2 PU (Provider.run T2 PU h) VTotal) (Provider.served T2 PU (Provider.run T2 PU (h ++ [PRestart]))) /\
  Provider.p_read T2 PU (Provider.run T2 PU (h ++ [PRestart])) VTotal = [].
Proof. intros h. exact (conj (pu_restart_serves h) (pu_restart_total h)). Qed.

Theorem c12_binary_provider_is_model : forall dom h,
  exists st, run_state (bin_prov dom) (ps_init (bin_prov dom)) (ops_of h) = Ok st /\
             Provider.run T2 PU h = (s_new st, s_delta st, s_total st).
Proof. exact pu_is_model. Qed.

Theorem c12_binary_keyed_views : forall h v, qhist h ->
  keyed_ok (pu_ver (Provider.run T2 PU h) v) (Provider.p_read T2 PU (Provider.run T2 PU h) v).
Proof. exact pu_keyed. Qed.

Theorem c12_any_boundary_refuted :
  exists h x y, In (x, y) (Provider.served T2 PU (Provider.run T2 PU h)) /\ ~ rtc (g_td T2 (ghost_of T2 h)) x y.
Proof. exact pu_any_boundary_refuted. Qed.

(* ---- the ternary adaptor on every history *)
Theorem c12_ternary_exact : forall h1 h2 h, qhist3 h ->
  forall k x y, In (k, (x, y)) (Provider.served T3 (PT h1 h2) (Provider.run T3 (PT h1 h2) h)) <->
                rtc (proj k (g_td T3 (ghost_of T3 h))) x y.
Proof. exact pt_served. Qed.

Theorem c12_ternary_ops_never_fail : forall h1 h2 h n d t, qhist3 h -> Provider.run T3 (PT h1 h2) h = (n, d, t) ->
  (forall k x y, exists r, t_insert n k x y = Ok r) /\ (exists r, t_merge n d t = Ok r) /\
  (forall v, exists L, t_all (pt_ver (n, d, t) v) = Ok L) /\
  (forall v k x y, exists b, t_contains (pt_ver (n, d, t) v) k x y = Ok b).
Proof. exact pt_ops_ok. Qed.

Theorem c12_ternary_contains : forall h1 h2 h v p, qhist3 h ->
  (Provider.p_contains T3 (PT h1 h2) (Provider.run T3 (PT h1 h2) h) v p = true <->
   In p (Provider.p_read T3 (PT h1 h2) (Provider.run T3 (PT h1 h2) h) v)).
Proof. exact pt_contains_iff. Qed.

Theorem c12_ternary_p3_weak : forall h1 h2 h, qhist3 h ->
  incl (Provider.p_read T3 (PT h1 h2) (Provider.run T3 (PT h1 h2) (h ++ [PMerge])) VTotal)
       (Provider.served T3 (PT h1 h2) (Provider.run T3 (PT h1 h2) h) ++
        Provider.p_read T3 (PT h1 h2) (Provider.run T3 (PT h1 h2) (h ++ [PMerge])) VDelta).
Proof. exact pt_merge_total. Qed.

Theorem c12_ternary_quiescent : forall h1 h2 h, qhist3 h -> g_new T3 (ghost_of T3 h) = [] ->
  incl (Provider.served T3 (PT h1 h2) (Provider.run T3 (PT h1 h2) (h ++ [PMerge])))
       (Provider.p_read T3 (PT h1 h2) (Provider.run T3 (PT h1 h2) (h ++ [PMerge])) VTotal).
Proof. exact pt_quiescent. Qed.

Theorem c12_ternary_boundary : forall h1 h2 h,
  incl (Provider.p_read T3 (PT h1 h2) (Provider.run T3 (PT h1 h2) h) VTotal)
       (Provider.served T3 (PT h1 h2) (Provider.run T3 (PT h1 h2) (h ++ [PRestart]))) /\
  Provider.p_read T3 (PT h1 h2) (Provider.run T3 (PT h1 h2) (h ++ [PRestart])) VTotal = [].
Proof. intros h1 h2 h. exact (conj (pt_restart_serves h1 h2 h) (pt_restart_total h1 h2 h)). Qed.

Theorem c12_ternary_keyed_views : forall h1 h2 h v, qhist3 h ->
  let s := Provider.run T3 (PT h1 h2) h in let t := pt_ver s v in
  (forall k, exists o, t_i0_get t k = Ok o /\
     (forall l, o = Some l -> forall p, In p l <-> In (k, p) (Provider.p_read T3 (PT h1 h2) s v)) /\
     (o = None -> forall p, ~ In (k, p) (Provider.p_read T3 (PT h1 h2) s v))) /\
  (forall rev k x, exists o, t_i0x_get rev t k x = Ok o /\
     (forall ys, o = Some ys -> forall y, In y ys <-> In (k, opair rev x y) (Provider.p_read T3 (PT h1 h2) s v)) /\
     (o = None -> forall y, ~ In (k, opair rev x y) (Provider.p_read T3 (PT h1 h2) s v))) /\
  (forall rev, exists L, t_i0x_all rev t = Ok L /\
     (forall k x ys, In (k, x, ys) L -> forall y, In y ys <-> In (k, opair rev x y) (Provider.p_read T3 (PT h1 h2) s v)) /\
     (forall k x y, In (k, opair rev x y) (Provider.p_read T3 (PT h1 h2) s v) -> exists ys, In (k, x, ys) L)).
Proof. exact pt_keyed. Qed.

(* the views through the reverse maps; i = false: index [1] / reverse_map1, i = true: index [2] / reverse_map2 *)
Theorem c12_ternary_reverse_get : forall h1 h2 h v i m, qhist3 h -> rmsel i (pt_ver (Provider.run T3 (PT h1 h2) h) v) = Some m ->
  forall x, exists o, t_i12x_get i (pt_ver (Provider.run T3 (PT h1 h2) h) v) x = Ok o /\
    (o = None <-> aget x m = None) /\
    (forall l, o = Some l -> forall k y, In (k, y) l <->
       (mhas x k m = true /\ In (k, opair i x y) (Provider.p_read T3 (PT h1 h2) (Provider.run T3 (PT h1 h2) h) v))).
Proof. exact pt_rev_get. Qed.

Theorem c12_ternary_reverse_all : forall h1 h2 h v i m, qhist3 h -> rmsel i (pt_ver (Provider.run T3 (PT h1 h2) h) v) = Some m ->
  exists L, t_i12x_all i (pt_ver (Provider.run T3 (PT h1 h2) h) v) = Ok L /\
    (forall x l, In (x, l) L -> forall k y, In (k, y) l <->
       (mhas x k m = true /\ In (k, opair i x y) (Provider.p_read T3 (PT h1 h2) (Provider.run T3 (PT h1 h2) h) v))) /\
    (forall x, aget x m <> None -> exists l, In (x, l) L).
Proof. exact pt_rev_all. Qed.

Theorem c12_ternary_reverse_12_get : forall h1 h2 h v m1 m2, qhist3 h ->
  rm1 (pt_ver (Provider.run T3 (PT h1 h2) h) v) = Some m1 -> rm2 (pt_ver (Provider.run T3 (PT h1 h2) h) v) = Some m2 ->
  forall x1 x2, exists o, t_i12_get (pt_ver (Provider.run T3 (PT h1 h2) h) v) x1 x2 = Ok o /\
    (forall l, o = Some l -> forall k, In k l <->
       (mhas x1 k m1 = true /\ mhas x2 k m2 = true /\
        In (k, (x1, x2)) (Provider.p_read T3 (PT h1 h2) (Provider.run T3 (PT h1 h2) h) v))).
Proof. exact pt_rev12_get. Qed.

Theorem c12_ternary_reverse_12_all : forall h1 h2 h v m1 m2, qhist3 h ->
  rm1 (pt_ver (Provider.run T3 (PT h1 h2) h) v) = Some m1 -> rm2 (pt_ver (Provider.run T3 (PT h1 h2) h) v) = Some m2 ->
  (exists L, t_i12_all (pt_ver (Provider.run T3 (PT h1 h2) h) v) = Ok L) /\
  (exists n, t_i12_len_estimate (pt_ver (Provider.run T3 (PT h1 h2) h) v) = Ok n).
Proof. exact pt_rev12_all. Qed.

Theorem c12_ternary_reverse_complete_delta : forall h1 h2 h i m, qhist3 h ->
  rmsel i (pt_ver (Provider.run T3 (PT h1 h2) h) VDelta) = Some m ->
  forall k x y, In (k, (x, y)) (Provider.p_read T3 (PT h1 h2) (Provider.run T3 (PT h1 h2) h) VDelta) -> mhas (csel i x y) k m = true.
Proof. exact pt_rev_complete_delta. Qed.

Theorem c12_ternary_reverse_complete_total : forall h1 h2 h i m, qhist3 h ->
  rmsel i (pt_ver (Provider.run T3 (PT h1 h2) h) VTotal) = Some m ->
  forall k x y, In (k, (x, y)) (Provider.p_read T3 (PT h1 h2) (Provider.run T3 (PT h1 h2) h) VTotal) ->
    mhas (csel i x y) k m = true \/ In (k, (x, y)) (Provider.p_read T3 (PT h1 h2) (Provider.run T3 (PT h1 h2) h) VDelta).
Proof. exact pt_rev_complete_total. Qed.

Theorem c12_ternary_provider_is_model : forall h1 h2 dom kdom h st,
  run_state (ter_prov h1 h2 dom kdom) (ps_init (ter_prov h1 h2 dom kdom)) (ops_of3 h) = Ok st ->
  Provider.run T3 (PT h1 h2) h = (s_new st, s_delta st, s_total st).
Proof. exact pt_is_model. Qed.

(* a non-trivial instance: two keys, a cycle under key 0 closed while a delta exists; 9 + 3 tuples *)
Example c12_example_ternary :
  length (Provider.p_read T3 (PT true true)
            (Provider.run T3 (PT true true) [PIns (0, (0, 1)); PIns (0, (1, 2)); PIns (1, (5, 6)); PMerge; PIns (0, (2, 0)); PMerge; PMerge]) VTotal) = 12.
Proof. vm_compute. reflexivity. Qed.

(* ---- non-recursive use: exact, unconditional *)
Theorem c12_nonrecursive_exact : forall dom ins,
  exists U st1 st2,
    run_state (bin_prov dom) (ps_init (bin_prov dom)) (OStart :: heads ins ++ [OMerge]) = Ok st1 /\
    s_delta st1 = CTotal U /\ s_total st1 = CTotal tr_empty /\
    run_state (bin_prov dom) st1 [OMerge; OEnd] = Ok st2 /\
    s_stored st2 = CTotal U /\
    tinv (uniq ins []) U /\ exact_version ins (CTotal U).
Proof. exact nonrec_exact. Qed.

Theorem c12_total_exact : forall (P : nat -> Prop) E st, tinvP P E st -> exact_version E (CTotal st).
Proof. exact total_exact. Qed.

(* ---- every history of the binary form *)
Theorem c12_sound_partial : forall dom ops,
  exists st, run_state (bin_prov dom) (ps_init (bin_prov dom)) ops = Ok st /\
     sound_version (args ops) (s_delta st) /\ sound_version (args ops) (s_total st) /\ sound_version (args ops) (s_stored st).
Proof. exact bin_sound. Qed.

(* ---- every sequence of operations: nothing fails, binary and ternary form *)
Theorem c12_binary_never_panics : forall dom ops n e, ~ In (RPanic n e) (run_bin dom ops).
Proof. exact bin_never_panics. Qed.

Theorem c12_ternary_never_panics : forall has1 has2 dom kdom ops n e, ~ In (RPanic n e) (run_ter has1 has2 dom kdom ops).
Proof. exact ter_never_panics. Qed.

Theorem c12_never_panics :
  (forall dom ops n e, ~ In (RPanic n e) (run_bin dom ops)) /\
  (forall has1 has2 dom kdom ops n e, ~ In (RPanic n e) (run_ter has1 has2 dom kdom ops)).
Proof. exact (conj bin_never_panics ter_never_panics). Qed.

Theorem c12_ternary_runs : forall has1 has2 dom kdom ops,
  exists st, run_state (ter_prov has1 has2 dom kdom) (ps_init (ter_prov has1 has2 dom kdom)) ops = Ok st /\
             pst_ok has1 has2 (args ops) st.
Proof. exact ter_sound. Qed.

(* ---- every sequence of operations: every view returns each tuple once *)
Theorem c12_views_once_binary : forall dom ops,
  exists st, run_state (bin_prov dom) (ps_init (bin_prov dom)) ops = Ok st /\
    nodup_version (s_delta st) /\ nodup_version (s_total st) /\ nodup_version (s_stored st).
Proof. exact bin_mult. Qed.

Theorem c12_views_once_ternary : forall has1 has2 dom kdom ops,
  exists st, run_state (ter_prov has1 has2 dom kdom) (ps_init (ter_prov has1 has2 dom kdom)) ops = Ok st /\
    nodup_tern (s_delta st) /\ nodup_tern (s_total st) /\ nodup_tern (s_stored st).
Proof. exact ter_mult. Qed.

Theorem c12_reads_once_binary : forall dom ops d t, In (RRead d t) (run_bin dom ops) ->
  forall v, In v d \/ In v t -> NoDup (vtuples v).
Proof. exact bin_reads_once. Qed.

Theorem c12_reads_once_ternary : forall has1 has2 dom kdom ops d t, In (RRead d t) (run_ter has1 has2 dom kdom ops) ->
  forall v, In v d \/ In v t -> NoDup (vtuples v).
Proof. exact ter_reads_once. Qed.

Theorem c12_delta_views_once : forall d E, tinv_weak E (d_total d) -> mwf (d_conn d) -> mwf (d_rev d) -> nodup_version (CDelta d).
Proof. exact delta_nodup. Qed.

Theorem c12_total_views_once : forall E t, tinv_weak E t -> nodup_version (CTotal t).
Proof. exact total_nodup. Qed.

Theorem c12_merge_keeps_maps_disjoint : forall n d t n' d' t', c_merge n d t = Ok (n', d', t') -> dwf d' /\ dwf t'.
Proof. exact c_merge_dwf. Qed.

(* a non-trivial instance: a chain closed into a cycle while a delta exists, plus a new element; the delta is Delta-shaped, lists 10
   pairs over 4 connection entries, and the ternary delta over two keys lists 4 values of column 1 through reverse_map1 *)
Example c12_example_delta_views :
  (do st <- run_state (bin_prov 4) (ps_init (bin_prov 4)) [OStart; OHead 0 0 1; OHead 0 1 2; OMerge; OHead 0 2 0; OHead 0 3 0; OMerge];
   do l <- c_iter_all (s_delta st);
   Ok (match s_delta st with CDelta d => length (d_conn d) | _ => 0 end, length l)) = Ok (4, 10) /\
  (do st <- run_state (ter_prov true true 4 2) (ps_init (ter_prov true true 4 2))
              [OStart; OHead 0 0 1; OHead 1 1 2; OMerge; OHead 0 1 0; OHead 1 2 3; OMerge];
   do l <- t_i12x_all false (s_delta st); Ok (map (fun xl => (fst xl, length (snd xl))) l)) = Ok [(1, 3); (0, 1); (2, 1); (3, 1)].
Proof. vm_compute. split; reflexivity. Qed.

(* the protocol layer is correct for any union-find structure with the interface; C18's structure has it *)
Theorem c12_protocol_any_union_find : forall I, truf_iface I ->
  (forall dom ops, exists st, run_state (bin_prov dom) (ps_init (bin_prov dom)) ops = Ok st /\
     sound_version (args ops) (s_delta st) /\ sound_version (args ops) (s_total st) /\ sound_version (args ops) (s_stored st)) /\
  (forall dom ops n e, ~ In (RPanic n e) (run_bin dom ops)).
Proof. intros I HI. split; [exact (bin_protocol_sound I HI)|exact (bin_never_panics_partial I HI)]. Qed.

Theorem c12_iface_discharged : truf_iface tinv_weak.
Proof. exact tinv_weak_iface. Qed.

(* ---- the inner loop of the merge, class level: one round keeps "every processed pair is saturated against total and new" *)
Theorem c12_inner_loop_round : forall conn rev ncm,
  (forall a b, a <> b -> (Rm conn a b <-> Rm rev b a)) -> NoDup (map fst conn) -> NoDup (map fst ncm) ->
  forall dd ddr dt dtr, linv conn ncm dd ddr dt dtr ->
    let ca := fun x y => negb (mhas x y dd) && negb (mhas x y dt) && negb (mhas x y conn) in
    let j3 := join ca ncm ddr (join ca conn ddr (join ca dd rev ([], [], false))) in
    linv conn ncm (fst (fst j3)) (snd (fst j3)) (mmove dd dt) (mmove ddr dtr) /\
    (snd j3 = false -> fst (fst j3) = []).
Proof. exact round_ok. Qed.

(* ---- law P3: the form that holds, and why the literal form cannot *)
Theorem c12_literal_p3_fails : protocol_ok wit_f10 = true /\ p3_check wit_f10 (run_bin 3 wit_f10) None = true /\
  p3_literal_check wit_f10 (run_bin 3 wit_f10) None = false.
Proof. exact wit_f10_literal. Qed.

(* ---- the witnesses of the five repaired defects pass *)
Theorem c12_witness_new_reflexive : protocol_ok wit_f10 = true /\ p3_check wit_f10 (run_bin 3 wit_f10) None = true /\
  (let '(d, t) := last_read (run_bin 3 (firstn 5 wit_f10)) in lmem [2; 2] (served 0 d) = true /\ lmem [2; 2] (served 0 t) = true).
Proof. exact wit_f10_passes. Qed.

Theorem c12_witness_ternary_resume : protocol_ok wit_f5 = true /\ any_panic (run_ter false false 3 1 wit_f5) = false /\
  any_panic (run_ter true true 3 1 wit_f5) = false /\ length (served 0 (snd (last_read (run_ter true true 3 1 wit_f5)))) = 6.
Proof. exact wit_f5_passes. Qed.

Theorem c12_witness_ternary_reverse_views : protocol_ok wit_rev = true /\
  let '(d, t) := last_read (run_ter true true 3 1 wit_rev) in
  lmem [0; 1; 1] (served 4 t) = true /\ lmem [0; 1; 1] (served 8 t) = true /\ lmem [0; 0; 0] (served 10 t) = true.
Proof. exact wit_rev_passes. Qed.

Theorem c12_witness_ternary_len_estimate : t_i12_len_estimate (t_default true true) = Ok 0.
Proof. exact wit_len_estimate_passes. Qed.

Theorem c12_witness_ternary_dropped_delta : protocol_ok wit_drop = true /\ any_panic (run_ter true true 2 1 wit_drop) = false /\
  any_panic (run_ter false false 2 1 wit_drop) = false.
Proof. exact wit_drop_passes. Qed.

(* ---- BEFORE the repairs (module BeforeFix = the model of the unrepaired code): the refutations that led to them *)
Theorem c12_before_fix_refuted_new_reflexive : exists ops, BeforeFix.protocol_ok ops = true /\
  BeforeFix.p3_check ops (BeforeFix.run_bin 3 ops) None = false.
Proof. exists BeforeFix.wit_f10. exact BeforeFix.wit_f10_refutes. Qed.

Theorem c12_before_fix_refuted_ternary_resume : exists ops, BeforeFix.protocol_ok ops = true /\
  BeforeFix.has_panic AssertFail (BeforeFix.run_ter false false 3 1 ops) = true /\
  BeforeFix.has_panic AssertFail (BeforeFix.run_ter true true 3 1 ops) = true.
Proof. exists BeforeFix.wit_f5. exact BeforeFix.wit_f5_refutes. Qed.

Theorem c12_before_fix_refuted_ternary_reverse_views : exists ops, BeforeFix.protocol_ok ops = true /\
  let '(d, t) := BeforeFix.last_read (BeforeFix.run_ter true true 3 1 ops) in
  BeforeFix.lmem [0; 1; 1] (BeforeFix.served 4 t) = true /\
  BeforeFix.lmem [0; 1; 1] (BeforeFix.served 8 d ++ BeforeFix.served 8 t) = false.
Proof. exists BeforeFix.wit_rev. exact BeforeFix.wit_rev_refutes. Qed.

Theorem c12_before_fix_refuted_ternary_len_estimate :
  BeforeFix.t_i12_len_estimate (BeforeFix.t_default true true) = Err AssertFail.
Proof. exact BeforeFix.wit_len_estimate_refutes. Qed.

Theorem c12_before_fix_refuted_ternary_dropped_delta : exists ops, BeforeFix.protocol_ok ops = true /\
  BeforeFix.has_panic UnwrapNone (BeforeFix.run_ter true true 2 1 ops) = true /\
  BeforeFix.has_panic UnwrapNone (BeforeFix.run_ter false false 2 1 ops) = false.
Proof. exists BeforeFix.wit_drop. exact BeforeFix.wit_drop_refutes. Qed.

(* ---- a non-trivial instance: a chain closed into a cycle (three classes collapse while a delta exists) runs to the end, law P3
   holds at every merge and the total version serves all 9 pairs *)
Example c12_example_cycle : protocol_ok wit_cycle = true /\ any_panic (run_bin 3 wit_cycle) = false /\
  p3_check wit_cycle (run_bin 3 wit_cycle) None = true /\
  length (served 0 (snd (last_read (run_bin 3 wit_cycle)))) = 9.
Proof. exact wit_cycle_runs. Qed.

Print Assumptions c12_program_binary.
Print Assumptions c12_program_ternary.
Print Assumptions c12_ternary_engine_laws.
Print Assumptions c12_rules_bridge_ternary.
Print Assumptions c12_ternary_exact.
Print Assumptions c12_ternary_ops_never_fail.
Print Assumptions c12_ternary_contains.
Print Assumptions c12_ternary_p3_weak.
Print Assumptions c12_ternary_quiescent.
Print Assumptions c12_ternary_boundary.
Print Assumptions c12_ternary_provider_is_model.
Print Assumptions c12_binary_keyed_views.
Print Assumptions c12_ternary_keyed_views.
Print Assumptions c12_ternary_reverse_get.
Print Assumptions c12_ternary_reverse_all.
Print Assumptions c12_ternary_reverse_12_get.
Print Assumptions c12_ternary_reverse_12_all.
Print Assumptions c12_ternary_reverse_complete_delta.
Print Assumptions c12_ternary_reverse_complete_total.
Print Assumptions c12_example_ternary.
Print Assumptions c12_engine_theorem.
Print Assumptions c12_engine_laws_generalise.
Print Assumptions c12_binary_engine_laws.
Print Assumptions c12_rules_bridge.
Print Assumptions c12_example_rtc2.
Print Assumptions c12_binary_exact.
Print Assumptions c12_binary_p3_weak.
Print Assumptions c12_binary_quiescent.
Print Assumptions c12_binary_ops_never_fail.
Print Assumptions c12_binary_contains.
Print Assumptions c12_binary_boundary.
Print Assumptions c12_binary_provider_is_model.
Print Assumptions c12_any_boundary_refuted.
Print Assumptions c12_nonrecursive_exact.
Print Assumptions c12_total_exact.
Print Assumptions c12_sound_partial.
Print Assumptions c12_binary_never_panics.
Print Assumptions c12_ternary_never_panics.
Print Assumptions c12_never_panics.
Print Assumptions c12_ternary_runs.
Print Assumptions c12_views_once_binary.
Print Assumptions c12_views_once_ternary.
Print Assumptions c12_reads_once_binary.
Print Assumptions c12_reads_once_ternary.
Print Assumptions c12_delta_views_once.
Print Assumptions c12_total_views_once.
Print Assumptions c12_merge_keeps_maps_disjoint.
Print Assumptions c12_example_delta_views.
Print Assumptions c12_protocol_any_union_find.
Print Assumptions c12_iface_discharged.
Print Assumptions c12_inner_loop_round.
Print Assumptions c12_literal_p3_fails.
Print Assumptions c12_witness_new_reflexive.
Print Assumptions c12_witness_ternary_resume.
Print Assumptions c12_witness_ternary_reverse_views.
Print Assumptions c12_witness_ternary_len_estimate.
Print Assumptions c12_witness_ternary_dropped_delta.
Print Assumptions c12_before_fix_refuted_new_reflexive.
Print Assumptions c12_before_fix_refuted_ternary_resume.
Print Assumptions c12_before_fix_refuted_ternary_reverse_views.
Print Assumptions c12_before_fix_refuted_ternary_len_estimate.
Print Assumptions c12_before_fix_refuted_ternary_dropped_delta.
Print Assumptions c12_example_cycle.
