(* C12 — a relation tagged #[ds(trrel_uf)] behaves as its reflexive transitive closure.

   Model: Byods/TrUfProvModel.v (New / Delta / Total protocol of TrRelIndCommon, the binary index views, the generic
   BinRelToTernary adaptor with its reverse maps) on top of the C18 model of TrRelUnionFind (UF/TrUfModel.v).

   What is proved here
     c12_nonrecursive_exact        (full, unconditional, binary form) a stratum that only inserts (non-recursive use) ends without
                                   failure, and every view of what it leaves serves exactly the reflexive transitive closure
     c12_total_exact               a Total-shaped version over a structure satisfying C18's invariant serves exactly the closure
     c12_sound_partial             (binary form, EVERY sequence of operations) everything served lies in the closure of the inserted pairs
     c12_never_panics_partial      (binary form, EVERY sequence of operations) no operation of the provider fails and the inner
                                   semi-naive loop of every merge terminates (within (number of classes)^2 + 2 rounds)
                                   both relative to the interface [truf_iface] of the union-find structure
     c12_iface_tinv_except_node    C18's invariant satisfies every clause of that interface except the one for add_node
   What the faithful model refutes (computed witnesses, each replayed on the real code by the tie)
     c12_refuted_new_reflexive             provider law P3 (F10)
     c12_refuted_ternary_resume            ternary form panics when a key pauses and resumes (F5)
     c12_refuted_ternary_reverse_views     views [1], [2], [1,2] of the ternary form are incomplete
     c12_refuted_ternary_len_estimate      len_estimate of view [1,2] divides by zero on an empty relation
     c12_refuted_ternary_dropped_delta     a dropped delta entry makes the reverse-map views of delta panic
   What is missing (carried by the tie only): the discharge of [truf_iface] for structures that went through add_node on a new
   element (C18's invariant asks for an entry of every live class in both connection maps, add_node creates none);
   completeness of delta + total for recursive use and the
   guarded form of law P3; soundness and panic-freedom of the ternary adaptor outside the five refuted behaviours. *)
From Coq Require Import List Arith Bool ZArith.
From AV Require Import UF.UfBase.
From AV Require Import UF.TrUfModel.
From AV Require Import UF.TrUfInv.
From AV Require Import Byods.TrUfProvModel.
From AV Require Import Byods.TrUfProvProofs.
Import ListNotations.

(* ---- non-recursive use: exact, unconditional *)
Theorem c12_nonrecursive_exact : forall dom ins,
  exists U st1 st2,
    run_state (bin_prov dom) (ps_init (bin_prov dom)) (OStart :: heads ins ++ [OMerge]) = Ok st1 /\
    s_delta st1 = CTotal U /\ s_total st1 = CTotal tr_empty /\
    run_state (bin_prov dom) st1 [OMerge; OEnd] = Ok st2 /\
    s_stored st2 = CTotal U /\
    tinv (uniq ins []) U /\ exact_version ins (CTotal U).
Proof. exact nonrec_exact. Qed.

Theorem c12_total_exact : forall E st, tinv E st -> exact_version E (CTotal st).
Proof. exact total_exact. Qed.

(* ---- every history of the binary form, relative to the interface of the union-find structure *)
Theorem c12_sound_partial : forall I, truf_iface I -> forall dom ops,
  exists st, run_state (bin_prov dom) (ps_init (bin_prov dom)) ops = Ok st /\
     sound_version (args ops) (s_delta st) /\ sound_version (args ops) (s_total st) /\ sound_version (args ops) (s_stored st).
Proof. exact bin_protocol_sound. Qed.

Theorem c12_never_panics_partial : forall I, truf_iface I -> forall dom ops n e, ~ In (RPanic n e) (run_bin dom ops).
Proof. exact bin_never_panics_partial. Qed.

Theorem c12_iface_tinv_except_node : iface_except_node tinv.
Proof. exact tinv_iface_except_node. Qed.

(* ---- refuted by the faithful model *)
Theorem c12_refuted_new_reflexive : exists ops, protocol_ok ops = true /\ p3_check ops (run_bin 3 ops) None = false.
Proof. exists wit_f10. exact wit_f10_refutes. Qed.

Theorem c12_refuted_ternary_resume : exists ops, protocol_ok ops = true /\
  has_panic AssertFail (run_ter false false 3 1 ops) = true /\ has_panic AssertFail (run_ter true true 3 1 ops) = true.
Proof. exists wit_f5. exact wit_f5_refutes. Qed.

Theorem c12_refuted_ternary_reverse_views : exists ops, protocol_ok ops = true /\
  let '(d, t) := last_read (run_ter true true 3 1 ops) in
  lmem [0; 1; 1] (served 4 t) = true /\ lmem [0; 1; 1] (served 8 d ++ served 8 t) = false.
Proof. exists wit_rev. exact wit_rev_refutes. Qed.

Theorem c12_refuted_ternary_len_estimate : t_i12_len_estimate (t_default true true) = Err AssertFail.
Proof. exact wit_len_estimate_refutes. Qed.

Theorem c12_refuted_ternary_dropped_delta : exists ops, protocol_ok ops = true /\
  has_panic UnwrapNone (run_ter true true 2 1 ops) = true /\ has_panic UnwrapNone (run_ter false false 2 1 ops) = false.
Proof. exists wit_drop. exact wit_drop_refutes. Qed.

(* ---- a non-trivial instance: a chain closed into a cycle (three classes collapse while a delta exists) runs to the end and the
   total version serves all 9 pairs *)
Example c12_example_cycle : protocol_ok wit_cycle = true /\ has_panic AssertFail (run_bin 3 wit_cycle) = false /\
  length (served 0 (snd (last_read (run_bin 3 wit_cycle)))) = 9.
Proof. exact wit_cycle_runs. Qed.

Print Assumptions c12_nonrecursive_exact.
Print Assumptions c12_total_exact.
Print Assumptions c12_sound_partial.
Print Assumptions c12_never_panics_partial.
Print Assumptions c12_iface_tinv_except_node.
Print Assumptions c12_refuted_new_reflexive.
Print Assumptions c12_refuted_ternary_resume.
Print Assumptions c12_refuted_ternary_reverse_views.
Print Assumptions c12_refuted_ternary_len_estimate.
Print Assumptions c12_refuted_ternary_dropped_delta.
Print Assumptions c12_example_cycle.
