(* C08 — placeholder while the proofs are being written *)
From Coq Require Import List String.
From AV Require Import Macros.MacroModel.
From AV Require Import Macros.MacroEval.
