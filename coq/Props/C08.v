(* C08 — in-program macros expand hygienically.
   Property theorems only; model in Macros/MacroModel.v (faithful expansion [expand_rule] mirroring
   rule_expand_macro_invocations / invoke_macro / body_items_rename_macro_originated_vars, identifiers carry an origin
   tag = the model's counterpart of a token span; hygienic reference expansion [hexpand_rule]: every invocation gets a
   scope number, all identifiers of the macro body are stamped with it, parameters are replaced by the actuals, which keep
   their scopes, nothing is renamed); proofs in Macros/MacroSim.v, MacroNested.v, MacroProofs.v, MacroErrors.v, MacroRefuted.v, MacroDisj.v.

   LEVEL: alpha-equivalence of rules (syntactic).  [hygienic_image r' h phi] says that the real expansion r' IS the
   reference expansion h in which the scoped identifier (iname, isc) is spelled [phi iname isc], with phi injective on the
   identifiers of h and the identity on call-site identifiers (scope 0) — i.e. r' is a consistent renaming of "write the
   body at the call site with the parameters substituted and every macro-local variable fresh for this invocation".
   That an injective renaming of variables does not change the least model is NOT proved here (C06 lists alpha-renaming
   as not yet a theorem); the tie evaluates both expansions under Engine/Sem.v on every generated program.

   The theorem holds for ARBITRARY nesting depth (up to the implementation's depth budget, beyond which expand_rule
   returns an error), in body and in head position. *)
From Coq Require Import List String ZArith Bool.
From AV Require Import Macros.MacroModel.
From AV Require Import Macros.MacroProofs.
From AV Require Import Macros.MacroErrors.
From AV Require Import Macros.MacroRefuted.
From AV Require Import Macros.MacroDisj.
Import ListNotations.

(* Hypotheses (all decidable, computed by the tie for every generated program; Macros/MacroModel.v):
     wf_macros rk HM M:  for every definition d of the table
       (1) wf_def_ids    its identifiers are not spelled like generated names (no prefix "__")  [and carry d's origin tag]
       (2) wf_def_bound  every identifier of the body is a "bound" identifier in the sense of MACROS.MD:
                         - it occurs in a binding position of the body itself (argument of a clause, pattern of let / if let /
                           for, also in a condition attached to a clause), or
                         - it is bound THROUGH NESTED INVOCATIONS: it is the actual of a parameter that the invoked macro has in
                           a binding position of its body, in this same sense, at any nesting depth (MacroModel.xbv_item) —
                           `mid` in `macro two($x, $z) { hop!($x, mid), hop!(mid, $z) }` with `macro hop($a, $b) { e($a, $b) }`.
                           No direct item of such a body binds `mid`; the renaming pass finds it only because the nested
                           invocations are expanded BEFORE the variables of the body are renamed (the order of
                           rule_expand_macro_invocations, mirrored by MacroModel.expand_item; c08_nested_binder_example and
                           c08_early_renaming_variant_not_hygienic below; proof: Macros/MacroNested.v xbv_sound)
       (3) wf_def_rank   it invokes only macros of smaller rank rk (no recursion; any acyclic table has such a rank)
       (4) wf_head_def   the macros HM used in head position have no identifiers of their own and invoke only such macros
     wf_rule HM r:  the rule's identifiers are call-site identifiers not spelled like generated names, no `$p` in the rule,
                    head invocations are in HM.
   Each of (1), (2), (4) is NECESSARY: see the c08_hygiene_refuted_* theorems below (faithful model; every witness is
   replayed against the real macro by the tie, corpus/C08.jsonl; known findings generated_name_collides_with_user_identifier
   and unbound_macro_identifier_captured).  A former hypothesis "no condition attached to a clause of a macro body" is gone:
   the renaming pass skipped attached conditions until fix 931a20f (c08_attached_condition_renamed below). *)
Theorem c08_hygiene : forall M rk HM r r',
  wf_macros rk HM M = true -> wf_rule HM r = true -> expand_rule M r = OK r' ->
  exists h phi, hexpand_rule M r = OK h /\ hygienic_image r' h phi.
Proof. exact hygiene_thm. Qed.

(* Two identifier occurrences that belong to different invocations (isc differs: two invocations of the same or of
   different macros, an invocation and the one it is nested in, an invocation and the call site) never get the same name. *)
Theorem c08_two_invocations_disjoint : forall M rk HM r r',
  wf_macros rk HM M = true -> wf_rule HM r = true -> expand_rule M r = OK r' ->
  exists h, hexpand_rule M r = OK h /\ List.length (ids_rule r') = List.length (ids_rule h) /\
    forall p q d, p < List.length (ids_rule h) -> q < List.length (ids_rule h) ->
      isc (nth p (ids_rule h) d) <> isc (nth q (ids_rule h) d) ->
      iname (nth p (ids_rule r') d) <> iname (nth q (ids_rule r') d).
Proof. exact two_invocations_disjoint. Qed.

(* No capture in either direction, parameters unify with the call site. *)
Theorem c08_no_capture : forall M rk HM r r',
  wf_macros rk HM M = true -> wf_rule HM r = true -> expand_rule M r = OK r' ->
  exists h, hexpand_rule M r = OK h /\ List.length (ids_rule r') = List.length (ids_rule h) /\
    (forall p d, p < List.length (ids_rule h) -> isc (nth p (ids_rule h) d) = 0 ->
       iname (nth p (ids_rule r') d) = iname (nth p (ids_rule h) d)) /\
    (forall p q d, p < List.length (ids_rule h) -> q < List.length (ids_rule h) ->
       iname (nth p (ids_rule h) d) = iname (nth q (ids_rule h) d) -> isc (nth p (ids_rule h) d) = isc (nth q (ids_rule h) d) ->
       iname (nth p (ids_rule r') d) = iname (nth q (ids_rule r') d)) /\
    (forall p q d, p < List.length (ids_rule h) -> q < List.length (ids_rule h) ->
       isc (nth p (ids_rule h) d) = 0 -> isc (nth q (ids_rule h) d) <> 0 ->
       iname (nth p (ids_rule r') d) <> iname (nth q (ids_rule r') d)).
Proof. exact no_capture. Qed.

(* A rule that invokes — in its body or in its head, directly or through other macros — a macro that refers to itself
   (directly or mutually: [diverges]) is never expanded successfully, whatever else the table contains ... *)
Theorem c08_recursive_rejected : forall M r,
  (exists m, In m (invs_items (rbody r) ++ flat_map hinvs (rheads r)) /\ diverges M m) ->
  forall r', expand_rule M r <> OK r'.
Proof. exact recursive_rejected. Qed.

(* ... and when the invocations are statically well-formed (defined macros, right number and kinds of actuals: [table_ok],
   [rule_ok]) the result is exactly the dedicated error.  [expand_rule] is a total function (structural recursion on the
   depth budget 100): it never "expands forever".  The COST of the rejection is not modelled; the tie checks that the real
   macro comes back within seconds on the two witnesses that took 2^100 / 2^50 steps before fix 815514e. *)
Theorem c08_recursive_error : forall M HM r, table_ok HM M = true -> rule_ok HM M r = true ->
  (exists m, In m (invs_items (rbody r) ++ flat_map hinvs (rheads r)) /\ diverges M m) ->
  expand_rule M r = Err ERecursive.
Proof. intros M HM r HT HR HB. exact (recursive_error M HM HT r HR HB). Qed.

(* ---- where the code is not hygienic (the model is faithful to it): each hypothesis of c08_hygiene is necessary *)
Theorem c08_hygiene_refuted_generated_name : wf_macros (fun m => m) [] M_gen = true /\ not_hygienic M_gen r_gen.
Proof. exact refuted_generated_name_collision. Qed.
Theorem c08_hygiene_refuted_renamed_twice :
  forallb (wf_def_bound M_twice) M_twice = true /\ forallb (wf_def_rank (fun m => m)) M_twice = true
  /\ wf_rule [] r_twice = true /\ not_hygienic M_twice r_twice.
Proof. exact refuted_renamed_twice. Qed.
Theorem c08_hygiene_refuted_head_identifier : forallb (wf_def (fun m => m) M_head) M_head = true /\ wf_rule [0] r_head = true /\ not_hygienic M_head r_head.
Proof. exact refuted_head_identifier_captured. Qed.
Theorem c08_hygiene_refuted_unbound_identifier :
  forallb wf_def_ids M_free = true /\ forallb (wf_def_rank (fun m => m)) M_free = true
  /\ forallb (wf_head_def []) M_free = true /\ wf_rule [] r_free = true /\ not_hygienic M_free r_free.
Proof. exact refuted_unbound_identifier_captured. Qed.

(* ---- macro locals bound only through nested invocations are inside the theorem.
   The hypothesis admitted before ("a direct item of the body binds it", wf_def_bound_direct) implies the present one ... *)
Theorem c08_bound_direct_weaker : forall M d, wf_def_bound_direct d = true -> wf_def_bound M d = true.
Proof. exact bound_direct_weaker. Qed.
(* ... strictly: on  macro hop($p0, $p1) { e0($p0, $p1) }  macro two($p0, $p1) { hop!($p0, mid), hop!(mid, $p1) }
       d0(a, mid) <-- two!(a, b), two!(b, mid);
   the former hypothesis fails, the hypotheses of c08_hygiene hold, and each invocation gets a `mid` of its own, distinct
   from the call-site `mid` *)
Example c08_nested_binder_example :
  wf_macros (fun m => m) [] M_two = true /\ forallb wf_def_bound_direct M_two = false /\ wf_rule [] r_two = true
  /\ expand_rule M_two r_two =
      OK (mkRule [HClause 3 [TV (cs "a"); TV (cs "mid")]]
                 [IClause 0 [TV (cs "a"); TV (VId (mkId "__mid_" (OMac 1) 0))] []; IClause 0 [TV (VId (mkId "__mid_" (OMac 1) 0)); TV (cs "b")] [];
                  IClause 0 [TV (cs "b"); TV (VId (mkId "__mid_1" (OMac 1) 0))] []; IClause 0 [TV (VId (mkId "__mid_1" (OMac 1) 0)); TV (cs "mid")] []]).
Proof. exact nested_binder_example. Qed.
(* The order is essential.  [expand_rule_early] (Macros/MacroRefuted.v) is the expansion with the two steps of an invocation
   swapped: the variables of the substituted body are renamed first — among items in which the nested invocations are still
   opaque and bind nothing — and the nested invocations are expanded afterwards.  On the same table that variant is NOT
   hygienic: `mid` keeps its spelling, both invocations share it and the call-site `mid` captures it.  (This is a statement
   about a variant of the model, not about the code; the tie runs the two_hops family with designed inputs on every check.) *)
Theorem c08_early_renaming_variant_not_hygienic :
  wf_macros (fun m => m) [] M_two = true /\ wf_rule [] r_two = true
  /\ exists r' h, expand_rule_early M_two r_two = OK r' /\ hexpand_rule M_two r_two = OK h /\ ~ exists phi, hygienic_image r' h phi.
Proof. exact refuted_rename_before_nested_expansion. Qed.

(* ---- disjunctions inside macro bodies are inside the theorem (wf_def_bound counts the binding positions of every disjunct,
   at any depth: MacroModel.bv_item, arm IDisj).  The renaming pass collects the bound variables of the expanded items ONE
   ENTRY PER OCCURRENCE and decides per occurrence, from its origin (span), whether the spelling is renamed: a spelling is
   renamed iff SOME binding occurrence of it was written in the macro body — whatever else is spelled alike, e.g. a call-site
   identifier that came in through a parameter and stands before it in the same disjunction. *)
Theorem c08_renaming_decided_per_occurrence : forall m l s,
  In s (originated m l) <-> exists i, In i (bv_items l) /\ org_is m i = true /\ iname i = s.
Proof. exact originated_iff. Qed.
(* On  macro m0($p0: ident) { (e0($p0, t), u0(t) | u1($p0)) }   d1(s) <-- m0!(s);   the local t — bound only inside the
   disjunction, after the parameter — gets a name of its own for EVERY call-site spelling s, s = "t" included ... *)
Example c08_disjunction_local_renamed : forall s,
  expand_rule M_dj (r_dj s) =
    OK (mkRule [HClause 4 [TV (cs s)]]
               [IDisj [[IClause 0 [TV (cs s); TV (VId (mkId "__t_" (OMac 0) 0))] []; IClause 1 [TV (VId (mkId "__t_" (OMac 0) 0))] []];
                       [IClause 2 [TV (cs s)] []]]]).
Proof. exact disj_local_renamed. Qed.
(* ... whereas the variant [expand_rule_uniq] (Macros/MacroDisj.v), whose collector reports every spelling of a disjunction
   once, the first occurrence standing for the others (identifier equality ignores the span), is NOT hygienic on that table
   with s = "t": the call-site occurrence comes first, no occurrence with the macro's origin is left, nothing is renamed and
   the local is captured.  (A statement about a variant of the model, not about the code; the tie runs the family
   gen/c08_disj.py — 17 macro shapes x 8 rule shapes with one spelling bound with two origins — on every check.) *)
Theorem c08_disjunction_dedup_variant_not_hygienic :
  wf_macros (fun m => m) [] M_dj = true /\ wf_rule [] (r_dj "t") = true
  /\ exists r' h, expand_rule_uniq M_dj (r_dj "t") = OK r' /\ hexpand_rule M_dj (r_dj "t") = OK h /\ ~ exists phi, hygienic_image r' h phi.
Proof. exact refuted_disjunction_dedup. Qed.

(* ---- the hypotheses are satisfiable on a non-trivial table: nested macros, one macro invoked twice in a rule and once more
   inside another macro, the spelling z used at the call site, in the outer and in the inner macro, an invocation inside a
   disjunction, a condition attached to a clause of a macro body, nested head macros *)
Example c08_hypotheses_satisfiable : wf_macros (fun m => m) [2; 3] M_ex = true /\ wf_rule [2; 3] r_ex = true
  /\ exists r', expand_rule M_ex r_ex = OK r' /\ List.length (ids_rule r') = 36.
Proof. exact example_wf. Qed.
(* the witness of the fixed finding attached_condition_not_renamed: the attached condition is renamed with its clause *)
Example c08_attached_condition_renamed :
  wf_macros (fun m => m) [] M_att = true /\ wf_rule [] r_att = true
  /\ expand_rule M_att r_att =
      OK (mkRule [HClause 3 [TV (cs "a"); TV (cs "y")]]
                 [IClause 2 [TV (cs "y")] []; IClause 1 [TV (cs "a")] [];
                  IClause 0 [TV (cs "a"); TV (VId (mkId "__y_" (OMac 0) 0))] [CIf 0 [cs "a"; VId (mkId "__y_" (OMac 0) 0)]]]).
Proof. exact attached_condition_renamed. Qed.
(* a recursive table on which c08_recursive_error applies (mutual recursion reached through a third macro) *)
Example c08_recursive_example : table_ok [] M_rec = true /\ rule_ok [] M_rec r_rec = true /\ expand_rule M_rec r_rec = Err ERecursive.
Proof. vm_compute. auto. Qed.

Print Assumptions c08_hygiene. Print Assumptions c08_two_invocations_disjoint. Print Assumptions c08_no_capture.
Print Assumptions c08_recursive_rejected. Print Assumptions c08_recursive_error.
Print Assumptions c08_hygiene_refuted_generated_name. Print Assumptions c08_attached_condition_renamed.
Print Assumptions c08_hygiene_refuted_renamed_twice. Print Assumptions c08_hygiene_refuted_head_identifier.
Print Assumptions c08_hygiene_refuted_unbound_identifier.
Print Assumptions c08_hypotheses_satisfiable. Print Assumptions c08_recursive_example.
Print Assumptions c08_bound_direct_weaker. Print Assumptions c08_nested_binder_example.
Print Assumptions c08_early_renaming_variant_not_hygienic.
Print Assumptions c08_renaming_decided_per_occurrence. Print Assumptions c08_disjunction_local_renamed.
Print Assumptions c08_disjunction_dedup_variant_not_hygienic.

From AV Require Import Macros.MacroArgs.
(* ---- NESTED argument expressions (Macros/MacroArgs.v).  An `expr` actual is an arbitrary Rust expression; MacroModel.term
   is its normal form "function symbol applied to the variable leaves" (ids_term = ALL leaves), so c08_hygiene covers actuals
   of any nesting, but the model could not say how many delimiter groups `( .. )`, `f( .. )`, `[ .. ]`, `{ .. }` stand around a
   leaf.  MacroArgs.aexp adds that structure ([aexp_of_term tbl]: the symbols >= XBASE of a term denote the shapes of a table,
   the symbols of the fixed vocabulary parenthesise every operand; [occs]: every identifier occurrence with its depth).
   The renaming of the variables originating in macro m visits EVERY occurrence of an argument expression and decides from the
   origin (span) of that occurrence alone: the k-th occurrence, d groups deep, keeps its spelling if it was not written in the
   body of m (a call-site identifier; a local of an enclosing macro passed on), whatever d ... *)
Theorem c08_argument_renaming_commutes_with_nesting : forall tbl R t,
  aexp_of_term tbl (map_term R t) = map_aexp R (aexp_of_term tbl t).
Proof. exact aexp_of_term_map. Qed.
Theorem c08_argument_occurrence_of_other_origin_untouched : forall m mp e k d i,
  nth_error (occs 0 e) k = Some (d, i) -> org_is m i = false ->
  nth_error (occs 0 (map_aexp (ren m mp) e)) k = Some (d, i).
Proof. exact arg_occurrence_other_origin_untouched. Qed.
(* ... and is renamed like the rest of m's body if it was (a local of m inside the argument of a nested invocation) *)
Theorem c08_argument_occurrence_of_macro_origin_renamed : forall m mp e k d i s,
  nth_error (occs 0 e) k = Some (d, i) -> org_is m i = true -> sassoc mp (iname i) = Some s ->
  nth_error (occs 0 (map_aexp (ren m mp) e)) k = Some (d, set_name s i).
Proof. exact arg_occurrence_macro_origin_renamed. Qed.
Theorem c08_call_site_argument_untouched : forall m mp e,
  (forall i, In i (ids_aexp e) -> iorg i = OCall) -> map_aexp (ren m mp) e = e.
Proof. exact arg_call_site_untouched. Qed.
(* A renaming pass with the fast path "look at the origin of an identifier only if its spelling occurs among the identifiers
   [argn] of the invocation's arguments" ([ren_fast], [expand_rule_scan]) is the faithful visitor on every identifier that
   came in through the arguments PROVIDED the arguments are scanned by a full traversal ([scan_full]: every leaf of every
   actual, at any depth) ... *)
Theorem c08_fast_path_sound_with_full_argument_scan : forall tbl acts m mp i,
  forallb (term_covered tbl) acts = true -> In i (flat_map ids_term acts) -> ren_fast (scan_full tbl acts) m mp i = ren m mp i.
Proof. exact ren_fast_full_scan_on_arguments. Qed.
(* ... on  macro m0($p0: expr) { u0(t), e0(t, $p0) }   d1(t) <-- u1(t), m0!(A);   with A = `(t + 1).min(7)` (t one group deep),
   `((t - 1).max(0) + 1).min(7)` (two groups), `t.min(6) + 1` (top level), `t.max(t)` (both) the faithful expansion and the
   full-scan fast path give  u1(t), u0(__t_), e0(__t_, A)  with the call-site t of A untouched ... *)
Example c08_nested_argument_example : forall a, In a [a_grp1; a_grp2; a_top; a_both] ->
  expand_rule M_arg (r_arg a) = OK (expected_arg a) /\ expand_rule_scan (scan_full tbl_arg) M_arg (r_arg a) = OK (expected_arg a).
Proof. exact nested_argument_example. Qed.
(* ... whereas with the scan of the TOP-LEVEL tokens of the arguments ([scan_flat]: it never enters a group) the fast path is
   NOT hygienic as soon as the colliding identifier stands only inside a group — one group deep, two groups deep — and one
   level down, where an enclosing macro passes its own local t inside a group to a macro with a local t:
       macro m1($p0: ident) { e0($p0, t), m0!((t + 1).min(7)) }     d1(a) <-- u1(a), m1!(a);
   (the tables and rules satisfy the hypotheses of c08_hygiene).  With the colliding identifier at top level (also) the flat
   scan changes nothing.  (Statements about a variant of the model, not about the code: the code has no fast path.  The tie
   runs the family gen/c08_args.py — 17 macro shapes x 7 placements of the colliding identifier x 4 rule shapes, every kind of
   delimiter, depth 1-3 — on every check.) *)
Theorem c08_flat_argument_scan_variant_not_hygienic :
  wf_macros (fun m => m) [] M_arg = true /\ wf_rule [] (r_arg a_grp1) = true /\ wf_rule [] (r_arg a_grp2) = true
  /\ not_hygienic_scan (scan_flat tbl_arg) M_arg (r_arg a_grp1) /\ not_hygienic_scan (scan_flat tbl_arg) M_arg (r_arg a_grp2).
Proof. exact refuted_flat_argument_scan. Qed.
Theorem c08_flat_argument_scan_variant_not_hygienic_nested_invocation :
  wf_macros (fun m => m) [] M_arg2 = true /\ wf_rule [] r_arg2 = true /\ not_hygienic_scan (scan_flat []) M_arg2 r_arg2.
Proof. exact refuted_flat_argument_scan_nested_invocation. Qed.
Example c08_flat_argument_scan_top_level_control :
  expand_rule_scan (scan_flat tbl_arg) M_arg (r_arg a_top) = OK (expected_arg a_top)
  /\ expand_rule_scan (scan_flat tbl_arg) M_arg (r_arg a_both) = OK (expected_arg a_both).
Proof. exact flat_scan_top_level_control. Qed.
Example c08_nested_invocation_argument_example :
  wf_macros (fun m => m) [] M_arg2 = true /\ wf_rule [] r_arg2 = true
  /\ expand_rule M_arg2 r_arg2 =
       OK (mkRule [HClause 4 [TV (cs "a")]]
                  [IClause 2 [TV (cs "a")] []; IClause 0 [TV (cs "a"); TV (VId (mkId "__t_1" (OMac 1) 0))] [];
                   IClause 1 [TV (VId (mkId "__t_" (OMac 0) 0))] [];
                   IClause 0 [TV (VId (mkId "__t_" (OMac 0) 0)); TF 0 [VId (mkId "__t_1" (OMac 1) 0)]] []])
  /\ expand_rule_scan (scan_full []) M_arg2 r_arg2 = expand_rule M_arg2 r_arg2.
Proof. exact nested_invocation_argument_example. Qed.

Print Assumptions c08_argument_renaming_commutes_with_nesting. Print Assumptions c08_argument_occurrence_of_other_origin_untouched.
Print Assumptions c08_argument_occurrence_of_macro_origin_renamed. Print Assumptions c08_call_site_argument_untouched.
Print Assumptions c08_fast_path_sound_with_full_argument_scan. Print Assumptions c08_nested_argument_example.
Print Assumptions c08_flat_argument_scan_variant_not_hygienic. Print Assumptions c08_flat_argument_scan_variant_not_hygienic_nested_invocation.
Print Assumptions c08_flat_argument_scan_top_level_control. Print Assumptions c08_nested_invocation_argument_example.

(* ------------------------------------------------------------------------------------------------------------------------
   EXPRESSION-LEVEL SCOPES (Macros/MacroScopes.v; the tie runs the family gen/c08_scopes.py on every check).
   The model above treats an expression as a tree of vocabulary functions over variables.  A Rust expression has binders of
   its own — a block's `let`, a closure parameter, a match arm (with a guard), `if let`, `for` — and the renaming finds the
   occurrences of a macro local inside it through the free-variable walk of ascent_macro/src/syn_utils.rs.  MacroScopes.sx is
   an expression language with those binders; identifiers = (spelling, origin); [eval same_id] reads the instantiated macro
   body hygienically (an identifier is its spelling AND the invocation that wrote it), [eval same_nm] as rustc does (spelling
   only); [ren c m bound e] is the walk + renaming ([m]: macro-originated rule-level binder -> generated spelling; the binders
   of the expression are never renamed, as in the code); [ren_env m] renames the rule-level binders.
   Hypothesis [hyp m dom [] e] (decidable, computed by the tie for every program):
     - every occurrence that rustc resolves to a binder of the expression (the innermost one of its spelling) IS that binder's
       identifier (same origin): no binder written in the macro body stands above an identifier of the same spelling coming
       from the call site through a parameter, and vice versa;
     - the remaining (free) occurrences and the rule-level identifiers [dom] keep apart once renamed;
     - no binder of the expression is spelled like a generated name. *)
From AV Require Import Macros.MacroScopes.

(* Rust's scoping, as equations on the free occurrences: the initialiser of a let is OUTSIDE the let's scope; a closure
   parameter scopes over the closure body, not over the argument; an arm's binder over its guard and body, not over the
   scrutinee nor the other arm; the binder of `if let` over the then-block only; the binder of `for` over the loop body only. *)
Theorem c08_scopes_let_initialiser_is_outside_the_lets_scope : forall bound b i body,
  free_occs rust_walk bound (SLet b i body) = free_occs rust_walk bound i ++ free_occs rust_walk (iname b :: bound) body.
Proof. exact free_occs_let. Qed.
Theorem c08_scopes_closure_parameter_scopes_over_the_body_only : forall bound b body a,
  free_occs rust_walk bound (SClo b body a) = free_occs rust_walk (iname b :: bound) body ++ free_occs rust_walk bound a.
Proof. exact free_occs_clo. Qed.
Theorem c08_scopes_match_arm_scopes_over_guard_and_body : forall bound s b g body els,
  free_occs rust_walk bound (SMatchG s b g body els) =
  free_occs rust_walk bound s ++ free_occs rust_walk (iname b :: bound) g ++ free_occs rust_walk (iname b :: bound) body ++ free_occs rust_walk bound els.
Proof. exact free_occs_matchg. Qed.
Theorem c08_scopes_if_let_scopes_over_the_then_block_only : forall bound b s thn els,
  free_occs rust_walk bound (SIfLet b s thn els) = free_occs rust_walk bound s ++ free_occs rust_walk (iname b :: bound) thn ++ free_occs rust_walk bound els.
Proof. exact free_occs_iflet. Qed.
Theorem c08_scopes_for_scopes_over_the_loop_body_only : forall bound b bd body,
  free_occs rust_walk bound (SFor b bd body) = free_occs rust_walk bound bd ++ free_occs rust_walk (iname b :: bound) body.
Proof. exact free_occs_for. Qed.

(* the renaming touches exactly the free occurrences (whatever the walk decides to call free) and no binder *)
Theorem c08_scopes_renaming_touches_exactly_the_free_occurrences : forall c m e bound,
  map fst (occs c bound (ren c m bound e)) = map (fun p : MacroScopes.ident * bool => if snd p then ren_ident m (fst p) else fst p) (occs c bound e)
  /\ binders (ren c m bound e) = binders e.
Proof. exact ren_spec. Qed.

(* NO CAPTURE, for the walk with Rust's scoping: renaming the free occurrences of the macro locals together with the rule-level
   binders, then reading by spelling alone, is the hygienic reading *)
Theorem c08_scopes_hygiene_rust_scoping : forall m outer e,
  hyp m (map fst outer) [] e = true ->
  eval same_nm (ren_env m outer) (ren rust_walk m [] e) = eval same_id outer e.
Proof. exact ren_sound. Qed.

(* the walk of the code as it is (real_walk; since fix e64116b the guard of a match arm is walked inside the arm's scope, so
   the walk IS Rust's scoping): NO CAPTURE under hyp alone.  PARTIAL only in this sense: the link to the rule level
   (MacroScopesEval.run_rule: one rule of clauses / let / if let / for / conditions / negations over these expressions, several
   invocations = several passes) is evaluated by the tie on every program, not proved. *)
Theorem c08_scopes_hygiene_real_walk_partial : forall m outer e,
  hyp m (map fst outer) [] e = true ->
  eval same_nm (ren_env m outer) (ren real_walk m [] e) = eval same_id outer e.
Proof. exact ren_sound_real. Qed.
Theorem c08_scopes_real_walk_is_rust_scoping : forall m e bound, ren real_walk m bound e = ren rust_walk m bound e.
Proof. exact real_walk_is_rust_scoping. Qed.
(* HISTORY (finding match_guard_walked_outside_arm_scope, repaired by e64116b): walk_before_fix visited the guard outside the
   arm's scope; it was free of capture only under the extra hypothesis guards_ok (no guard mentions, under the spelling of its
   arm's binder, an identifier that the renaming maps) and is refuted without it — on a witness that the code as it is gets
   right: match 0 { x if x > 0 => 5, _ => 6 } in a macro body whose local is x. *)
Theorem c08_scopes_hygiene_walk_before_fix_needed_guards_ok : forall m outer e,
  hyp m (map fst outer) [] e = true -> guards_ok m e = true ->
  eval same_nm (ren_env m outer) (ren walk_before_fix m [] e) = eval same_id outer e.
Proof. exact ren_sound_before_fix. Qed.
Theorem c08_scopes_walk_before_fix_guard_outside_arm_refuted : exists m outer e,
  hyp m (map fst outer) [] e = true
  /\ eval same_nm (ren_env m outer) (ren real_walk m [] e) = eval same_id outer e
  /\ eval same_nm (ren_env m outer) (ren walk_before_fix m [] e) <> eval same_id outer e.
Proof. exact before_fix_guard_refuted. Qed.

(* several invocations (a nested one, expanded and renamed first, then the enclosing one; two invocations in one rule): the
   passes applied one after the other are the single pass of the theorem with both mappings, provided the second pass does not
   rename again a name generated by the first ([apart]: the name supply is threaded through the rule) *)
Theorem c08_scopes_hygiene_two_invocations : forall m1 m2 outer e,
  apart m1 m2 ->
  hyp (m1 ++ m2) (map fst outer) [] e = true ->
  eval same_nm (ren_env m2 (ren_env m1 outer)) (ren rust_walk m2 [] (ren rust_walk m1 [] e)) = eval same_id outer e.
Proof. exact ren_sound_two_passes. Qed.

(* REFUTED variant (not the code: seed C08 round 5): a block's `let v = <init>` that binds v already inside <init> — the macro
   local read by the initialiser of a shadowing let is not renamed and is captured by the call site's variable of that spelling;
   the hypothesis of the theorem above holds for the witness { let x = incs(x); x } *)
Theorem c08_scopes_let_bound_inside_its_initialiser_refuted : exists m outer e,
  hyp m (map fst outer) [] e = true
  /\ eval same_nm (ren_env m outer) (ren seed_walk m [] e) <> eval same_id outer e.
Proof. exact seed_walk_refuted. Qed.
Example c08_scopes_shadowing_let_example :
  ren real_walk w_map [] w_shadow = SLet X1 (SOp1 0 (SVar ("__x_"%string, 1%nat))) (SVar X1)
  /\ ren rust_walk w_map [] w_shadow = ren real_walk w_map [] w_shadow
  /\ ren seed_walk w_map [] w_shadow = w_shadow
  /\ free_occs rust_walk [] w_shadow = [X1] /\ free_occs seed_walk [] w_shadow = []
  /\ eval same_id w_outer w_shadow = Some 7%Z
  /\ eval same_nm (ren_env w_map w_outer) (ren real_walk w_map [] w_shadow) = Some 7%Z
  /\ eval same_nm (ren_env w_map w_outer) (ren seed_walk w_map [] w_shadow) = Some 2%Z.
Proof. exact shadow_example. Qed.

(* outside hyp (finding expression_binder_resolved_by_spelling): the binders of expressions are not renamed, so a `let x`
   written in the macro body captures the call site's x that an argument brings below it — whatever the walk *)
Theorem c08_scopes_expression_binder_captures_refuted : exists m outer e,
  hyp m (map fst outer) [] e = false
  /\ ren real_walk m [] e = e /\ ren walk_before_fix m [] e = e
  /\ eval same_nm (ren_env m outer) e <> eval same_id outer e.
Proof. exact expression_binder_captures_refuted. Qed.

Print Assumptions c08_scopes_let_initialiser_is_outside_the_lets_scope. Print Assumptions c08_scopes_closure_parameter_scopes_over_the_body_only.
Print Assumptions c08_scopes_match_arm_scopes_over_guard_and_body. Print Assumptions c08_scopes_if_let_scopes_over_the_then_block_only.
Print Assumptions c08_scopes_for_scopes_over_the_loop_body_only. Print Assumptions c08_scopes_renaming_touches_exactly_the_free_occurrences.
Print Assumptions c08_scopes_hygiene_rust_scoping. Print Assumptions c08_scopes_hygiene_real_walk_partial.
Print Assumptions c08_scopes_real_walk_is_rust_scoping. Print Assumptions c08_scopes_hygiene_walk_before_fix_needed_guards_ok.
Print Assumptions c08_scopes_walk_before_fix_guard_outside_arm_refuted.
Print Assumptions c08_scopes_let_bound_inside_its_initialiser_refuted. Print Assumptions c08_scopes_shadowing_let_example.
Print Assumptions c08_scopes_expression_binder_captures_refuted.
Print Assumptions c08_scopes_hygiene_two_invocations.

(* ------------------------------------------------------------------ what an invocation expands to depends on the ORIGINS of its
   argument identifiers (Macros/MacroMemo.v; generators of the class: gen/c08_memo.py).
   `step!(x, y)` written by a rule and `step!($x, y)` written in `macro two($x, $z) { step!($x, y), step!(y, $z) }` and instantiated
   by `two!(x, w)` are spelled alike and are different invocations: in the second one y is a local of two!, and the renaming pass
   of two! recognises it by its origin alone. *)
From AV Require Import Macros.MacroMemo.

(* two invocations equal up to spelling, different in the origin of one argument identifier: the faithful expansions differ, and
   the renaming of the enclosing macro 1 renames the one and leaves the other *)
Theorem c08_expansion_of_an_invocation_depends_on_the_origin_of_its_arguments :
  let a := [TV (cs "x"); TV (cs "y")] in
  let a' := [TV (cs "x"); TV (ml 1 "y")] in
  spelled_alike a a'
  /\ expand_item DEPTH M_memo (IInv 0 a) [] = OK ([IClause 0 a []], [])
  /\ expand_item DEPTH M_memo (IInv 0 a') [] = OK ([IClause 0 a' []], [])
  /\ expand_item DEPTH M_memo (IInv 0 a) [] <> expand_item DEPTH M_memo (IInv 0 a') []
  /\ fst (rename_originated 1 [IClause 0 a []] []) = [IClause 0 a []]
  /\ fst (rename_originated 1 [IClause 0 a' []] []) = [IClause 0 [TV (cs "x"); TV (VId (mkId "__y_"%string (OMac 1) 0))] []].
Proof. exact expansion_depends_on_origin. Qed.
Theorem c08_renaming_tells_one_spelling_apart_by_origin : forall m mp (i j : MacroModel.ident) s,
  MacroModel.iname i = MacroModel.iname j -> MacroModel.org_is m i = true -> MacroModel.org_is m j = false ->
  MacroModel.sassoc mp (MacroModel.iname i) = Some s -> s <> MacroModel.iname i ->
  MacroMemo.forget i = MacroMemo.forget j /\ MacroModel.ren m mp i <> MacroModel.ren m mp j.
Proof. exact ren_reads_the_origin. Qed.

(* REFUTED variant (not the code: seed C08 round 6): the expansion that remembers the instantiated body of an invocation per
   program under the key (macro, argument SPELLING) — MacroMemo.expand_prog_memo, which differs from MacroModel.expand_prog only in
   that table — is not hygienic on a program inside the hypotheses of c08_hygiene: the first invocation inside two! comes back
   with the call-site y, two! does not rename it, and it is captured.  Identically spelled invocations in one rule ... *)
Theorem c08_memo_by_argument_spelling_same_rule_refuted :
  wf_macros (fun m => m) [] M_memo = true /\ wf_rule [] r_memo = true
  /\ exists r' h, expand_prog_memo M_memo [r_memo] = OK [r'] /\ hexpand_rule M_memo r_memo = OK h /\ ~ exists phi, hygienic_image r' h phi.
Proof. exact refuted_memo_by_spelling_same_rule. Qed.
(* ... and in two rules, the call-site one first: a rule is expanded wrongly because of a rule that stands before it (alone it
   expands as in the faithful model; in the other order both do, up to the origin tags of the result) *)
Theorem c08_memo_by_argument_spelling_across_rules_refuted :
  wf_macros (fun m => m) [] M_memo = true /\ wf_rule [] r_memo_a = true /\ wf_rule [] r_memo_b = true
  /\ (exists ra r' h, expand_prog_memo M_memo [r_memo_a; r_memo_b] = OK [ra; r'] /\ hexpand_rule M_memo r_memo_b = OK h
                      /\ ~ exists phi, hygienic_image r' h phi)
  /\ spelling_of (expand_prog_memo M_memo [r_memo_b; r_memo_a]) = spelling_of (expand_prog M_memo [r_memo_b; r_memo_a])
  /\ expand_prog_memo M_memo [r_memo_b] = expand_prog M_memo [r_memo_b].
Proof. exact refuted_memo_by_spelling_across_rules. Qed.
Example c08_memo_by_argument_spelling_example :
  expand_prog_memo M_memo [r_memo] =
      OK [mkRule [HClause 3 [TV (cs "x"); TV (cs "w")]; HClause 4 [TV (cs "x"); TV (cs "y")]]
                 [IClause 0 [TV (cs "x"); TV (cs "y")] [];
                  IClause 0 [TV (cs "x"); TV (cs "y")] []; IClause 0 [TV (VId (mkId "__y_"%string (OMac 1) 0)); TV (cs "w")] []]].
Proof. exact memo_program_by_spelling. Qed.

(* remembering is sound under a key that KEEPS the origins: keyed by the argument tokens, the table answers an invocation exactly
   as MacroModel.instantiate does and stays exact (one step of the expansion; that the whole expansion with the exact table equals
   expand_prog is computed on the program above, not proved in general) *)
Theorem c08_memo_by_argument_tokens_answers_as_instantiate : forall M m acts tb,
  memo_exact M tb ->
  match instantiate_memo (fun i => i) M m acts tb with
  | OK (b, tb') => instantiate M m acts (fun b => b) = OK b /\ memo_exact M tb'
  | Err e => instantiate M m acts (fun b => b) = Err e
  end.
Proof. exact instantiate_memo_exact. Qed.
Theorem c08_memo_by_argument_spelling_answers_otherwise :
  exists tb b b', instantiate_memo MacroMemo.forget M_memo 0 [TV (cs "x"); TV (cs "y")] [] = OK (b, tb)
    /\ instantiate_memo MacroMemo.forget M_memo 0 [TV (cs "x"); TV (ml 1 "y")] tb = OK (b, tb)
    /\ instantiate M_memo 0 [TV (cs "x"); TV (ml 1 "y")] (fun b => b) = OK b' /\ b <> b'.
Proof. exact instantiate_memo_by_spelling_differs. Qed.
Example c08_memo_by_argument_tokens_example :
  expand_prog_memo_exact M_memo [r_memo] = expand_prog M_memo [r_memo]
  /\ expand_prog_memo_exact M_memo [r_memo_a; r_memo_b] = expand_prog M_memo [r_memo_a; r_memo_b].
Proof. exact memo_exact_example. Qed.

Print Assumptions c08_expansion_of_an_invocation_depends_on_the_origin_of_its_arguments. Print Assumptions c08_renaming_tells_one_spelling_apart_by_origin.
Print Assumptions c08_memo_by_argument_spelling_same_rule_refuted. Print Assumptions c08_memo_by_argument_spelling_across_rules_refuted.
Print Assumptions c08_memo_by_argument_spelling_example. Print Assumptions c08_memo_by_argument_tokens_answers_as_instantiate.
Print Assumptions c08_memo_by_argument_spelling_answers_otherwise. Print Assumptions c08_memo_by_argument_tokens_example.
