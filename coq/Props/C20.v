(* C20 — instances are isolated and pool-independent: the index-level theorems (Index/NoIndexPools.v).
   Property theorems only.  Model: the life of one CRelNoIndex-backed index across a run of a parallel program
   (update_indices, which re-creates the index in the run pool and inserts every row; then per SCC either
   "take / Default total / Default new / loop { inserts into new; merge } / store total" or "freeze, take, put
   back"), with the stored value's shard count (pool of construction or of an earlier run) independent of the run
   pool's size c, arbitrary rayon thread indices and arbitrary orders of the atomic inserts. *)
From Coq Require Import List ZArith Bool Permutation.
From AV Require Import Index.MultiMap.
From AV Require Import Index.IndexModel.
From AV Require Import Index.IndexRefine.
From AV Require Import Index.ConcIndex.
From AV Require Import Index.NoIndexPools.
From AV Require Import Index.NoIndexLife.
Import ListNotations.
Open Scope Z_scope.

(* (1) a whole run, for EVERY stored value (any shard count, any content, frozen or not), every run pool size c, every
   thread index of every insert, every order of the atomic inserts, every sequence of SCC visits: no panic, the index
   ends with the run pool's shard count, and the rows readable from it (iter_all / index_get after freeze) are exactly
   the rows inserted — all rows, nothing lost, nothing duplicated *)
Theorem c20_noindex_no_loss : forall c rows vs (stored : cni),
  exists f', run_index c rows vs stored = Ok f' /\
    length (snd f') = Nat.max c 1 /\
    Permutation (cni_abs f') (map snd rows ++ visits_rows vs) /\
    cni_get (cni_freeze f') = Ok (Some (cni_abs f')).
Proof. exact run_index_no_loss. Qed.

Theorem c20_noindex_rows_once : forall c rows vs (stored : cni), NoDup (map snd rows ++ visits_rows vs) ->
  exists f', run_index c rows vs stored = Ok f' /\ NoDup (cni_abs f') /\
             forall r, In r (cni_abs f') <-> In r (map snd rows ++ visits_rows vs).
Proof. exact run_index_rows_once. Qed.

(* which shard-count combinations arise: update_indices replaces the stored value by one created in the run pool, and
   total / new are created in the run pool: all four have max c 1 shards, whatever was stored *)
Theorem c20_noindex_counts_equal : forall c rows (old : cni),
  exists f, update_indices c rows old = Ok f /\
    length (snd f) = length (snd (cni_default c)) /\ length (snd (cni_default c)) = Nat.max c 1.
Proof. exact run_counts_equal. Qed.

(* the SCC protocol alone is already exact for any taken value with between 1 and (run pool size) shards *)
Theorem c20_noindex_scc_smaller_field : forall c rounds (field : cni), (1 <= length (snd field) <= Nat.max c 1)%nat ->
  exists f', scc_dynamic c rounds field = Ok f' /\ fst f' = false /\ length (snd f') = Nat.max c 1 /\
             Permutation (cni_abs f') (cni_abs field ++ map snd (concat rounds)).
Proof. exact scc_dynamic_spec. Qed.

(* without the reset at run start (the code before commit 949309d): still exact when the stored value has no more
   shards than the run pool ... *)
Theorem c20_noindex_without_reset_small : forall c rows vs (stored : cni),
  fst stored = false -> (1 <= length (snd stored) <= Nat.max c 1)%nat ->
  exists f', run_index_noreset c rows vs stored = Ok f' /\
    Permutation (cni_abs f') (cni_abs stored ++ map snd rows ++ visits_rows vs).
Proof. exact run_index_noreset_small. Qed.

(* ... and lossy when it has more (a value left by a run in a larger pool): the reset is what makes (1) hold *)
Theorem c20_noindex_without_reset_large_refuted :
  exists c (stored f' : cni),
    (length (snd stored) > Nat.max c 1)%nat /\
    run_index_noreset c [] [VDyn []] stored = Ok f' /\
    cni_abs stored = [1; 2] /\ cni_abs f' = [1].
Proof. exact run_index_noreset_large_refuted. Qed.

(* (2) index_insert: the shard index is thread_index % len — always in bounds for a non-empty vector, the thread's own
   shard when thread_index < len, wrapped around (never a panic) when a value created in a smaller pool is written
   from a larger one; the only panic is the frozen assert *)
Theorem c20_noindex_insert_in_bounds : forall tid v (c : cni),
  (snd c <> [] -> (cni_shard_of tid c < length (snd c))%nat) /\
  ((tid < length (snd c))%nat -> cni_shard_of tid c = tid) /\
  (fst c = false -> snd c <> [] ->
     cni_insert tid v c = Ok (false, upd_nth (cni_shard_of tid c) (fun l => l ++ [v]) (snd c))) /\
  (fst c = true -> cni_insert tid v c = Panic).
Proof.
  intros tid v c; exact (conj (cni_shard_in_bounds tid c) (conj (cni_shard_own tid c)
                        (conj (cni_insert_lands tid v c) (NoIndexPools.cni_insert_frozen tid v c)))).
Qed.

(* (3) DashMap based indices: one shard count n per process (shards_count(), c_rel_index.rs:320-326, a Lazy static);
   Default, freeze, unfreeze, writes and moves keep it, so the assert_eq! in move_index_contents cannot fire *)
Theorem c20_dashmap_counts_constant : forall (M : Type) (e : M) n (smove : M -> M -> M * M) (from to : dmap M),
  length (snd (dm_default e n)) = n /\
  length (snd (dm_freeze from)) = length (snd from) /\ length (snd (dm_unfreeze from)) = length (snd from) /\
  (fst from = false -> fst to = false -> length (snd from) = n -> length (snd to) = n ->
     exists f' t', dm_move smove from to = Ok (f', t') /\ length (snd f') = n /\ length (snd t') = n).
Proof. intros M e n smove from to; exact (dm_counts_constant e n smove from to). Qed.

Theorem c20_dashmap_write_keeps_count : forall (M : Type) hash k (f : M -> M) (c c' : dmap M),
  dm_write hash k f c = Ok c' -> length (snd c') = length (snd c).
Proof. intros M hash k f c c'; exact (dm_write_keeps_count hash k f c c'). Qed.

(* (4) the LIFE of the index (Index/NoIndexLife.v): the stored value a run meets is not arbitrary by accident — it is built by
   update_indices_priv() at the end of Default::default() (relations with initial values) or by the public update_indices(),
   in whatever pool is current there, and the user may assign the row vectors in between.  "run() rebuilds every index from the
   rows, in the run pool" is an explicit step of the model (policy AlwaysRebuild); for EVERY history of assignments, index
   builds in any pools and earlier runs in any pools, every worker assignment and every SCC visit sequence: no panic, and after
   a run in a pool of c threads the no-bound-column index has c shards and holds exactly the relation's rows, so a count()
   aggregate over r(_, .., _) returns the number of rows *)
Theorem c20_noindex_life_total : forall evs st, exists st', life AlwaysRebuild evs st = Ok st'.
Proof. exact life_always_total. Qed.

Theorem c20_noindex_life_no_loss : forall evs c tids vs st,
  exists st', life AlwaysRebuild (evs ++ [ERun c tids vs]) st = Ok st' /\
    length (snd (l_index st')) = Nat.max c 1 /\
    Permutation (cni_abs (l_index st')) (l_rows st') /\
    cni_get (cni_freeze (l_index st')) = Ok (Some (cni_abs (l_index st'))) /\
    noindex_count st' = Z.of_nat (length (l_rows st')).
Proof. exact life_always_no_loss. Qed.

(* the omission of that step — a run() that keeps the indices it finds when the relation has the size it had when they were
   built — is harmless as long as they were built in a pool no larger than the run pool ... *)
Theorem c20_noindex_keep_prebuilt_small_pool : forall a0 rows a tids c tids' vs, (a <= Nat.max c 1)%nat ->
  exists st', life KeepIfSizeUnchanged [ESet rows; EBuild a tids; ERun c tids' vs] (fresh_state a0) = Ok st' /\
    Permutation (cni_abs (l_index st')) (l_rows st').
Proof. exact life_keep_small_pool. Qed.

(* ... and refuted otherwise: 300 initial rows indexed at construction in a pool of 8, run in a pool of 2 (one SCC visit deriving
   2 rows): the relation has 302 distinct rows, a count() over it returns 78 *)
Theorem c20_noindex_keep_prebuilt_large_pool_refuted :
  exists st', life KeepIfSizeUnchanged
                [ESet (ids 0 300); EBuild 8 (spread 8 300); ERun 2 [] [VDyn [[(0%nat, 300); (1%nat, 301)]]]] (fresh_state 8) = Ok st' /\
    length (l_rows st') = 302%nat /\ NoDup (l_rows st') /\ noindex_count st' = 78 /\
    ~ Permutation (cni_abs (l_index st')) (l_rows st').
Proof. exact life_keep_large_pool_refuted. Qed.

(* the same history with the rebuild: 302 *)
Example c20_example_life :
  option_map noindex_count
    (match life AlwaysRebuild [ESet (ids 0 300); EBuild 8 (spread 8 300); ERun 2 [] [VDyn [[(0%nat, 300); (1%nat, 301)]]];
                               ESet (ids 0 40); EBuild 16 (spread 16 40); ERun 1 (spread 1 40) [VBody]] (fresh_state 3)
     with Ok st => Some st | _ => None end) = Some 40.
Proof. vm_compute. reflexivity. Qed.

(* non-vacuity: a run in a pool of 2 over a frozen 3-shard value left by an earlier run; workers 0, 1 and (from a
   nested larger pool) 5; one dynamic SCC with two productive rounds, one body-only visit *)
Example c20_example_run :
  run_index 2 [(0%nat, 0); (1%nat, 1); (5%nat, 2)] [VDyn [[(1%nat, 3)]; [(0%nat, 4); (1%nat, 5)]]; VBody]
            (true, [[7]; [8]; [9]])
  = Ok (true, [[0; 4]; [1; 2; 3; 5]]).
Proof. vm_compute. reflexivity. Qed.

Print Assumptions c20_noindex_no_loss. Print Assumptions c20_noindex_rows_once. Print Assumptions c20_noindex_counts_equal.
Print Assumptions c20_noindex_scc_smaller_field. Print Assumptions c20_noindex_without_reset_small.
Print Assumptions c20_noindex_without_reset_large_refuted. Print Assumptions c20_noindex_insert_in_bounds.
Print Assumptions c20_dashmap_counts_constant. Print Assumptions c20_dashmap_write_keeps_count. Print Assumptions c20_example_run.
Print Assumptions c20_noindex_life_total. Print Assumptions c20_noindex_life_no_loss. Print Assumptions c20_noindex_keep_prebuilt_small_pool.
Print Assumptions c20_noindex_keep_prebuilt_large_pool_refuted. Print Assumptions c20_example_life.

(* ================= pool dependence inside an ENGINE run (Engine/ParIndexed*.v, see Props/C02.v) =================
   update_indices in the run pool establishes the run pool's shard shape whatever the fields held before; without that hypothesis the
   engine-level conclusions fail: a no-index field created for a smaller pool with the modulo dropped panics, a delta created in a larger pool
   merged shard-wise into a fresh total loses a row in the no-index while the full and hash indices keep it. *)
From Coq Require Import List ZArith Bool Arith Permutation.
From AV Require Import Index.IndexModel.
From AV Require Import Engine.Core Engine.Sem Engine.Eval Engine.Validate Engine.Naive Engine.ParStep.
From AV Require Import Engine.ParIndexedModel Engine.ParIndexedValue Engine.ParIndexedIter Engine.ParIndexedRefine Engine.ParIndexedExample.
Import ListNotations.
Local Open Scope nat_scope.
Theorem c20_par_indexed_update_indices_establishes_pool_shape :
  forall (hash : Z -> nat) (enc : list Z -> Z) (nsh : nat), nsh <> 0%nat ->
  forall (nomod : bool) (pool : nat) st st',
    pix_update_indices hash enc nsh nomod pool st st' ->
    abs_x st' = update_indices (abs_x st) /\ fields_good hash enc nsh pool (xstored st') (xfields st')
    /\ map fst (xfields st') = map fst (xfields st).
Proof. intros hash enc nsh Hn nomod pool. exact (pix_update_indices_good hash enc nsh Hn nomod pool). Qed.

(* ---- without the pool hypothesis *)
(* no-index variables created for a SMALLER pool (1 thread; e.g. a shard count cached process-wide in the first pool) and
   the modulo dropped: thread 1 of the run pool indexes shard 1 of a 1-shard vector = Panic; the real insert (modulo) on
   the same store, work and schedule succeeds *)
Theorem c20_par_indexed_small_pool_nomod_refuted :
  iteration_fn sh_id ex_hash ConcreteEval.enc_list true ex_rows (ex_store 1 1 [(0, [1; 2]%Z)]) ex_work ex_sched = Panic
  /\ exists s', iteration_fn sh_id ex_hash ConcreteEval.enc_list false ex_rows (ex_store 1 1 [(0, [1; 2]%Z)]) ex_work ex_sched
                = Ok ([(0, [3; 4]%Z); (0, [5; 6]%Z)], [(0, [1; 2]%Z); (0, [3; 4]%Z); (0, [5; 6]%Z)], true, s').
Proof. exact ex_small_pool_nomod_refuted. Qed.

(* a delta field created in a LARGER pool (2 threads, its row in shard 1) merged shard-wise into a total created in the run
   pool of 1 thread: afterwards the full and the hash index of total hold the row, the no-index does not (lock-step broken,
   the row is dropped with new at the end of the SCC) — the engine-level face of NoIndexPools.run_index_noreset_large_refuted *)
Theorem c20_par_indexed_large_pool_merge_refuted :
  exists s', iteration_fn sh_id ex_hash ConcreteEval.enc_list false ex_rows (ex_store 1 2 [(1, [1; 2]%Z)]) [[]; []] [] = Ok ([], ex_rows, false, s')
    /\ sdump s' = [ ([([1; 2]%Z, [])],  [],  []);
                    ([([1]%Z, [2]%Z)],  [],  []);
                    ([],                [],  [([], [1; 2]%Z)]) ].
Proof. exact ex_large_pool_merge_refuted. Qed.

(* a 2-worker iteration with 3 indices (full, hash, no-index), evaluated: the hypotheses are satisfiable and the result is
   the expected one in all three indices *)
Print Assumptions c20_par_indexed_update_indices_establishes_pool_shape.
Print Assumptions c20_par_indexed_small_pool_nomod_refuted.
Print Assumptions c20_par_indexed_large_pool_merge_refuted.

(* ================= the key mutex of the parallel LATTICE head update is a requirement of the RUN pool (Engine/ParLatLocks*.v) =================
   The mutex stripes that serialise the first insertion of a lattice key are a field of the program value, created at CONSTRUCTION; the
   workers that need them belong to the pool the value is RUN in.  Model: Engine/ParLat.v with steps (4) lock / (7) unlock following a
   stripe assignment [lockof] (None = no lock is taken).  Tie: gen/c20_contention.py (big lattice programs constructed under one pool and
   run under another, one row per key with the least upper bound). *)
From AV Require Engine.ParLat.
From AV Require Engine.ParLatProofs.
From AV Require Engine.ParLatLocks.
From AV Require Engine.ParLatLocksProofs.
From AV Require LatEngine.LatSem.
Section LatticeKeyMutex.
Context {K V : Type}.
Variable keqb : K -> K -> bool.
Hypothesis keqb_spec : forall a b : K, keqb a b = true <-> a = b.
Variable le : V -> V -> Prop.
Variable jm : V -> V -> V * bool.
Hypothesis laws : LatSem.lat_laws le jm.
Variable kfirst : bool.
Variables dl tt : K -> option nat.
Variable R0 : list (K * V).
Variable nk0 : list (K * nat).
Variable ot0 : list nat.
Variable ch0 : bool.
Variable work : list (list (K * V)).               (* one list of contributions per worker of the RUN pool: any number of workers *)
Hypothesis init : ParLatProofs.init_ok keqb le dl tt R0 nk0 ot0 ch0 work.
Notation lrun lockof sched := (ParLatLocks.lrun_sched keqb jm lockof kfirst true dl tt (ParLat.par_init R0 nk0 ot0 ch0 work) sched).

(* a value with ANY number n > 0 of stripes (whatever pool was current when it was constructed), any hash, run by any number of workers
   under every schedule: one row per key in every reachable state, and after a finishing schedule the serial values *)
Theorem c20_lattice_key_mutex_any_stripes_one_row_per_key : forall (hash : K -> nat) (stripes : nat), stripes <> 0%nat ->
  forall sched, NoDup (map fst (ParLat.lrows (lrun (ParLatLocks.stripe_lock hash stripes) sched))).
Proof. exact (ParLatLocksProofs.parlat_striped_one_row_per_key keqb keqb_spec le jm laws kfirst true dl tt R0 nk0 ot0 ch0 work init). Qed.

Theorem c20_lattice_key_mutex_any_stripes_values : forall (hash : K -> nat) (stripes : nat), stripes <> 0%nat ->
  forall sched, ParLat.finished (lrun (ParLatLocks.stripe_lock hash stripes) sched) = true ->
  forall k, ParLat.valof keqb (ParLat.lrows (lrun (ParLatLocks.stripe_lock hash stripes) sched)) k
            = ParLat.valof keqb (ParLat.ser_run keqb jm R0 (concat work)) k.
Proof. exact (ParLatLocksProofs.parlat_striped_values keqb keqb_spec le jm laws kfirst true dl tt R0 nk0 ot0 ch0 work init). Qed.

(* the code: shards_count() stripes - a process constant > 0; the pool current at construction is not consulted *)
Theorem c20_lattice_key_mutex_code_policy : forall (hash : K -> nat) (n construction_pool : nat), n <> 0%nat ->
  forall sched, NoDup (map fst (ParLat.lrows (lrun (ParLatLocks.stripe_lock hash (ParLatLocks.stripes_process_constant n construction_pool)) sched))).
Proof. exact (ParLatLocksProofs.parlat_process_constant_policy keqb keqb_spec le jm laws kfirst true dl tt R0 nk0 ot0 ch0 work init). Qed.

(* no lock at all is sound exactly when the RUN pool has one worker (the construction pool does not occur) *)
Theorem c20_lattice_no_key_mutex_single_run_worker : length work = 1%nat -> forall sched,
  NoDup (map fst (ParLat.lrows (lrun (@ParLatLocksProofs.nolock K) sched))) /\
  (ParLat.finished (lrun (@ParLatLocksProofs.nolock K) sched) = true ->
   forall k, ParLat.valof keqb (ParLat.lrows (lrun (@ParLatLocksProofs.nolock K) sched)) k
             = ParLat.valof keqb (ParLat.ser_run keqb jm R0 (concat work)) k).
Proof. exact (ParLatLocksProofs.parlat_no_lock_single_worker keqb keqb_spec le jm laws kfirst true dl tt R0 nk0 ot0 ch0 work init). Qed.
End LatticeKeyMutex.

(* ... and refuted with two workers: a value WITHOUT stripes (0 stripes = what "sized by the construction pool, none for a single thread"
   gives a value constructed under a 1-thread pool), contributions (5, 1) and (5, 2) for the new key 5 on two workers of the run pool,
   schedule race_sched (both pass the look-ups and the re-check before either inserts): finished with TWO rows of key 5; new's key index
   points at the second, the first - the one a reader of the rows meets first - keeps the stale value 1; the serial value is 2 *)
Theorem c20_lattice_no_key_mutex_two_run_workers_refuted : forall kfirst,
  let s := ParLatLocksProofs.zlrun kfirst (ParLatLocks.stripe_lock ParLatLocksProofs.zhash 0) [(7, 0)%Z] [[(5, 1)%Z]; [(5, 2)%Z]] ParLatLocksProofs.race_sched in
  ParLat.finished s = true /\ ParLat.lrows s = [(7, 0); (5, 1); (5, 2)]%Z /\ ~ NoDup (map fst (ParLat.lrows s)) /\
  ParLat.klook Z.eqb 5%Z (ParLat.lnkey s) = Some 2%nat /\
  ParLat.valof Z.eqb (ParLat.lrows s) 5%Z = Some 1%Z /\
  ParLat.valof Z.eqb (ParLat.ser_run Z.eqb ParLatProofs.zjm [(7, 0)%Z] [(5, 1)%Z; (5, 2)%Z]) 5%Z = Some 2%Z.
Proof. exact ParLatLocksProofs.parlat_no_lock_refuted. Qed.

(* the sizing policy "by the pool current at construction": no stripes for 1 thread, next_power_of_two(4 a) > 0 for a >= 2; the value
   constructed under a 1-thread pool and run by two workers is the refutation above *)
Theorem c20_lattice_key_mutex_by_construction_pool_refuted :
  ParLatLocks.stripes_by_construction_pool 1 = 0%nat /\ ParLatLocks.stripes_by_construction_pool 2 = 8%nat /\ ParLatLocks.stripes_by_construction_pool 8 = 32%nat /\
  (forall a, (2 <= a)%nat -> ParLatLocks.stripes_by_construction_pool a <> 0%nat) /\
  forall kfirst,
    let s := ParLatLocksProofs.zlrun kfirst (ParLatLocks.stripe_lock ParLatLocksProofs.zhash (ParLatLocks.stripes_by_construction_pool 1)) [(7, 0)%Z] [[(5, 1)%Z]; [(5, 2)%Z]] ParLatLocksProofs.race_sched in
    ParLat.finished s = true /\ ParLat.lrows s = [(7, 0); (5, 1); (5, 2)]%Z.
Proof. exact ParLatLocksProofs.parlat_by_construction_pool_refuted. Qed.

(* the same contributions and schedule (completed) on values with 1 and with 8 stripes: one row holding the maximum *)
Example c20_example_key_mutex_same_schedule : forall kfirst,
  let s1 := ParLatLocksProofs.zlrun kfirst (ParLatLocks.stripe_lock ParLatLocksProofs.zhash 1) [(7, 0)%Z] [[(5, 1)%Z]; [(5, 2)%Z]] (ParLatLocksProofs.race_sched ++ [1; 1; 1; 1])%nat in
  let s8 := ParLatLocksProofs.zlrun kfirst (ParLatLocks.stripe_lock ParLatLocksProofs.zhash 8) [(7, 0)%Z] [[(5, 1)%Z]; [(5, 2)%Z]] (ParLatLocksProofs.race_sched ++ [1; 1; 1; 1])%nat in
  ParLat.finished s1 = true /\ ParLat.lrows s1 = [(7, 0); (5, 2)]%Z /\ ParLat.finished s8 = true /\ ParLat.lrows s8 = [(7, 0); (5, 2)]%Z.
Proof. exact ParLatLocksProofs.ex_striped_same_schedule. Qed.

Print Assumptions c20_lattice_key_mutex_any_stripes_one_row_per_key.
Print Assumptions c20_lattice_key_mutex_any_stripes_values.
Print Assumptions c20_lattice_key_mutex_code_policy.
Print Assumptions c20_lattice_no_key_mutex_single_run_worker.
Print Assumptions c20_lattice_no_key_mutex_two_run_workers_refuted.
Print Assumptions c20_lattice_key_mutex_by_construction_pool_refuted.
Print Assumptions c20_example_key_mutex_same_schedule.
