(* C20 — property theorems (under construction: Index/NoIndexPools.v) *)
From Coq Require Import List ZArith.
Import ListNotations.
