(* C01 — property theorems (under construction: see Engine/Sound.v, Engine/Complete.v) *)
From Coq Require Import List ZArith.
From AV Require Import Engine.Core Engine.Sem Engine.Eval Engine.Validate.
Import ListNotations.
