(* C01 — run() computes exactly the least model of the rules over the input facts.
   Property theorems only; proofs are in Engine/{EvalSpec,NaiveLemmas,Strata,SemiNaive,Main}.v.

   Model: Engine/Eval.v (run_plan executes the plan dumped from the real macro; Engine/Validate.v
   validate is the proved-sound acceptance check for plans); specification: Engine/Sem.v. *)
From Coq Require Import List ZArith Bool.
From AV Require Import Engine.Core Engine.Sem Engine.Eval Engine.Validate Engine.Naive Engine.Interface Engine.Main Engine.Vocab Engine.Examples.
Import ListNotations.

(* for every interpretation of the expression symbols, every run-time join-order oracle, every program without
   aggregates, every plan accepted by the validator, every finite input and every terminating run: the rows after
   run() are the least model — they contain the input, are closed under every rule, and are contained in every
   closed superset of the input (every tuple present is derivable, every derivable tuple is present) *)
Theorem c01_least_model : forall (I : interp) (swap : list tuple -> list tuple -> bool) arities P pl fuel F0 st,
  arities_functional arities -> wf_facts arities F0 = true -> no_agg P = true ->
  validate arities P pl = true ->
  run_plan I swap fuel pl (init_state F0) = Some st ->
  least_model I P F0 (rows st).
Proof. intros I swap arities P pl fuel F0 st H1 H2 H3 H4 H5. exact (proj1 (run_plan_correct_full I swap arities P pl fuel F0 st H1 H2 H3 H4 H5)). Qed.

(* input facts are part of the result, unmodified and in place; what is added is new and duplicate free *)
Theorem c01_inputs_kept : forall (I : interp) swap arities P pl fuel F0 st,
  arities_functional arities -> wf_facts arities F0 = true -> no_agg P = true ->
  validate arities P pl = true ->
  run_plan I swap fuel pl (init_state F0) = Some st ->
  exists added, rows st = F0 ++ added /\ NoDup added /\ (forall f, In f added -> ~ In f F0).
Proof. intros I swap arities P pl fuel F0 st H1 H2 H3 H4 H5. exact (proj2 (run_plan_correct_full I swap arities P pl fuel F0 st H1 H2 H3 H4 H5)). Qed.

(* evaluation stops only when no rule can add anything: the final rows are closed *)
Theorem c01_stops_only_at_fixpoint : forall (I : interp) swap arities P pl fuel F0 st,
  arities_functional arities -> wf_facts arities F0 = true -> no_agg P = true ->
  validate arities P pl = true ->
  run_plan I swap fuel pl (init_state F0) = Some st ->
  forall f, derives I P (rows st) f -> In f (rows st).
Proof. intros I swap arities P pl fuel F0 st H1 H2 H3 H4 H5. exact (proj1 (proj2 (proj1 (run_plan_correct_full I swap arities P pl fuel F0 st H1 H2 H3 H4 H5)))). Qed.

(* least models are unique as sets, and the executable oracle used by the correspondence runs computes one *)
Theorem c01_least_model_unique : forall I P F0 M1 M2, least_model I P F0 M1 -> least_model I P F0 M2 -> same_set M1 M2.
Proof. exact least_model_unique. Qed.
Theorem c01_oracle_correct : forall I P fuel F0 M, no_agg P = true -> naive_fix I fuel P F0 = Some M -> least_model I P F0 M.
Proof. exact naive_fix_correct. Qed.

(* non-vacuity: transitive closure on a 4-cycle with a tail, with the plan the real macro produced *)
Example c01_example_hypotheses : validate tc_arities tc_prog tc_plan = true /\ no_agg tc_prog = true /\ wf_facts tc_arities tc_input = true.
Proof. exact tc_hyps. Qed.
Example c01_example_runs : exists st, run_plan std_interp std_swap 20 tc_plan (init_state tc_input) = Some st /\ length (rows st) = 25%nat.
Proof. exact tc_runs. Qed.

Print Assumptions c01_least_model. Print Assumptions c01_inputs_kept. Print Assumptions c01_stops_only_at_fixpoint.
Print Assumptions c01_least_model_unique. Print Assumptions c01_oracle_correct.
Print Assumptions c01_example_hypotheses. Print Assumptions c01_example_runs.
