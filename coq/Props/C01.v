(* C01 — run() computes exactly the least model of the rules over the input facts.
   Property theorems only; proofs are in Engine/{EvalSpec,NaiveLemmas,Strata,SemiNaive,Main}.v.

   Model: Engine/Eval.v (run_plan executes the plan dumped from the real macro; Engine/Validate.v
   validate is the proved-sound acceptance check for plans); specification: Engine/Sem.v. *)
From Coq Require Import List ZArith Bool.
From AV Require Import Engine.Core Engine.Sem Engine.Eval Engine.Validate Engine.Naive Engine.Interface Engine.Main Engine.Vocab Engine.Examples.
Import ListNotations.

(* for every interpretation of the expression symbols, every run-time join-order oracle, every program without
   aggregates, every plan accepted by the validator, every finite input and every terminating run: the rows after
   run() are the least model — they contain the input, are closed under every rule, and are contained in every
   closed superset of the input (every tuple present is derivable, every derivable tuple is present) *)
Theorem c01_least_model : forall (I : interp) (swap : list tuple -> list tuple -> bool) arities P pl fuel F0 st,
  arities_functional arities -> wf_facts arities F0 = true -> no_agg P = true ->
  validate arities P pl = true ->
  run_plan I swap fuel pl (init_state F0) = Some st ->
  least_model I P F0 (rows st).
Proof. intros I swap arities P pl fuel F0 st H1 H2 H3 H4 H5. exact (proj1 (run_plan_correct_full I swap arities P pl fuel F0 st H1 H2 H3 H4 H5)). Qed.

(* input facts are part of the result, unmodified and in place; what is added is new and duplicate free *)
Theorem c01_inputs_kept : forall (I : interp) swap arities P pl fuel F0 st,
  arities_functional arities -> wf_facts arities F0 = true -> no_agg P = true ->
  validate arities P pl = true ->
  run_plan I swap fuel pl (init_state F0) = Some st ->
  exists added, rows st = F0 ++ added /\ NoDup added /\ (forall f, In f added -> ~ In f F0).
Proof. intros I swap arities P pl fuel F0 st H1 H2 H3 H4 H5. exact (proj2 (run_plan_correct_full I swap arities P pl fuel F0 st H1 H2 H3 H4 H5)). Qed.

(* evaluation stops only when no rule can add anything: the final rows are closed *)
Theorem c01_stops_only_at_fixpoint : forall (I : interp) swap arities P pl fuel F0 st,
  arities_functional arities -> wf_facts arities F0 = true -> no_agg P = true ->
  validate arities P pl = true ->
  run_plan I swap fuel pl (init_state F0) = Some st ->
  forall f, derives I P (rows st) f -> In f (rows st).
Proof. intros I swap arities P pl fuel F0 st H1 H2 H3 H4 H5. exact (proj1 (proj2 (proj1 (run_plan_correct_full I swap arities P pl fuel F0 st H1 H2 H3 H4 H5)))). Qed.

(* least models are unique as sets, and the executable oracle used by the correspondence runs computes one *)
Theorem c01_least_model_unique : forall I P F0 M1 M2, least_model I P F0 M1 -> least_model I P F0 M2 -> same_set M1 M2.
Proof. exact least_model_unique. Qed.
Theorem c01_oracle_correct : forall I P fuel F0 M, no_agg P = true -> naive_fix I fuel P F0 = Some M -> least_model I P F0 M.
Proof. exact naive_fix_correct. Qed.

(* non-vacuity: transitive closure on a 4-cycle with a tail, with the plan the real macro produced *)
Example c01_example_hypotheses : validate tc_arities tc_prog tc_plan = true /\ no_agg tc_prog = true /\ wf_facts tc_arities tc_input = true.
Proof. exact tc_hyps. Qed.
Example c01_example_runs : exists st, run_plan std_interp std_swap 20 tc_plan (init_state tc_input) = Some st /\ length (rows st) = 25%nat.
Proof. exact tc_runs. Qed.

Print Assumptions c01_least_model. Print Assumptions c01_inputs_kept. Print Assumptions c01_stops_only_at_fixpoint.
Print Assumptions c01_least_model_unique. Print Assumptions c01_oracle_correct.
Print Assumptions c01_example_hypotheses. Print Assumptions c01_example_runs.

(* ================= the PLANNER inside the model =================
   Plan/PlanModel.v compile_model is a Gallina mirror of the macro's planner (ascent_hir.rs: index columns per clause,
   simple-join detection, reorderable; ascent_mir.rs: semi-naive version vectors, dynamic relations, is_looping), taking the
   SCC partition (petgraph's condensation, dumped) as an input.  It is compared structurally with the plan the real macro
   dumps on every run (gen/plan_model.py).  For EVERY well-formed core program and EVERY partition satisfying the decidable
   condition sccs_ok the computed plan is accepted by the validator, hence planner + engine compute the least model: the
   statement no longer depends on a plan having been dumped and validated for the particular program. *)
From AV Require Plan.PlanModel.
From AV Require Plan.PlanWf.
From AV Require Plan.PlanProofs.
From AV Require Plan.PlanMain.

Theorem c01_planner_output_is_valid : forall arities P sccs,
  PlanWf.wf_core arities P = true -> PlanWf.sccs_ok P sccs = true ->
  validate arities P (PlanModel.compile_model arities P sccs) = true.
Proof. exact PlanProofs.compile_model_valid. Qed.

Theorem c01_planner_and_engine_least_model : forall (I : interp) swap arities P sccs fuel F0 st,
  arities_functional arities -> wf_facts arities F0 = true -> no_agg P = true ->
  PlanWf.wf_core arities P = true -> PlanWf.sccs_ok P sccs = true ->
  run_plan I swap fuel (PlanModel.compile_model arities P sccs) (init_state F0) = Some st ->
  least_model I P F0 (rows st)
  /\ exists added, rows st = F0 ++ added /\ NoDup added /\ (forall f, In f added -> ~ In f F0).
Proof. exact PlanMain.planner_engine_correct. Qed.

(* ================= per-index state =================
   Engine/IndexedEval.v keeps, as the generated code does, one physical index per (relation, column set) with its own
   total / delta / new and its stored copy in the program value (update_indices resets and refills every index; the head
   update checks the full index of total / delta, inserts into the full index of new and then into every other index of
   new; the merge runs per index).  It refines the abstract engine above (rows equal as lists), so the least-model theorem
   holds for it, and all indices of a relation list the same rows at the end ("lock-step", what a skipped index insertion
   breaks).  Tied to the REAL index fields after run() by gen/indexed_tie.py. *)
From AV Require Engine.IndexedEval.
From AV Require Engine.IndexedRefine.
From AV Require Engine.IndexedLockstep.

Theorem c01_indexed_engine_least_model : forall (I : interp) swap decls pl,
  IndexedEval.plan_idx_ok decls pl = true ->
  forall arities P, arities_functional arities -> no_agg P = true -> validate arities P pl = true ->
  forall fuel F0 c, wf_facts arities F0 = true -> NoDup F0 -> (forall f, In f F0 -> IndexedEval.fact_idx_ok decls f = true) ->
  IndexedEval.run_plan_idx I swap fuel pl (IndexedEval.init_istate decls F0) = Some c ->
  least_model I P F0 (IndexedEval.irows c)
  /\ (exists added, IndexedEval.irows c = F0 ++ added /\ NoDup added /\ (forall f, In f added -> ~ In f F0))
  /\ IndexedRefine.indices_agree (IndexedEval.istored c).
Proof. exact IndexedRefine.indexed_run_least_model. Qed.

(* the indexed engine and the abstract engine return the same rows (as lists), from any pair of states with equal rows *)
Theorem c01_indexed_engine_refines : forall (I : interp) swap decls pl, IndexedEval.plan_idx_ok decls pl = true ->
  forall fuel c a, IndexedEval.irows c = rows a -> IndexedSim.pshape (IndexedEval.istored c) = decls -> NoDup (rows a) ->
  (forall f, In f (rows a) -> IndexedEval.fact_idx_ok decls f = true) ->
  option_map IndexedEval.irows (IndexedEval.run_plan_idx I swap fuel pl c) = option_map rows (run_plan I swap fuel pl a).
Proof. exact IndexedRefine.indexed_rows_eq. Qed.

(* lock-step for ANY input (duplicate caller rows included), without reference to the abstract engine *)
Theorem c01_indices_agree_after_run : forall (I : interp) swap decls fuel pl c c', IndexedEval.plan_idx_ok decls pl = true ->
  IndexedSim.pshape (IndexedEval.istored c) = decls -> (forall f, In f (IndexedEval.irows c) -> IndexedEval.fact_idx_ok decls f = true) ->
  IndexedEval.run_plan_idx I swap fuel pl c = Some c' ->
  IndexedRefine.indices_agree (IndexedEval.istored c') /\ IndexedSim.pshape (IndexedEval.istored c') = decls.
Proof. exact IndexedLockstep.indexed_run_indices_agree_any_input. Qed.

Print Assumptions c01_planner_output_is_valid. Print Assumptions c01_planner_and_engine_least_model.
Print Assumptions c01_indexed_engine_least_model. Print Assumptions c01_indexed_engine_refines. Print Assumptions c01_indices_agree_after_run.

(* ================= run() on ANY program value =================
   Engine/IndexedHistory.v: what a caller can do to a program value between two calls (push rows; OVERWRITE the Vec
   fields of relations with other rows - the index fields then still describe the old rows) and what an interrupted
   run_timeout leaves behind (the index fields its SCC had moved out are EMPTY, the others intact: the indices of one
   relation disagree with each other and with the rows).  Tied to the real index fields around every call of such
   histories by gen/indexed_tie.py.  update_indices rebuilds EVERY index field from the rows, hence: *)
From AV Require Engine.Timeout.
From AV Require Engine.IndexedHistory.
From AV Require Engine.IndexedHistoryProofs.

(* whatever the index fields hold when run() starts, the result is that of a program value with the same rows *)
Theorem c01_run_depends_on_rows_only : forall (I : interp) swap fuel pl c1 c2,
  IndexedSim.pshape (IndexedEval.istored c1) = IndexedSim.pshape (IndexedEval.istored c2) -> IndexedEval.irows c1 = IndexedEval.irows c2 ->
  IndexedEval.run_plan_idx I swap fuel pl c1 = IndexedEval.run_plan_idx I swap fuel pl c2.
Proof. exact IndexedHistoryProofs.run_plan_idx_rows_only. Qed.

(* every run() on ANY program value c (index fields arbitrary: of an earlier run, stale, partly emptied) ends in the least
   model of the rows present when it was called; those rows stay in place, what is added is new and duplicate free; all
   index fields are in step afterwards *)
Theorem c01_run_on_any_program_value : forall (I : interp) swap decls pl, IndexedEval.plan_idx_ok decls pl = true ->
  forall arities P, arities_functional arities -> no_agg P = true -> validate arities P pl = true ->
  forall fuel c c', IndexedSim.pshape (IndexedEval.istored c) = decls ->
  wf_facts arities (IndexedEval.irows c) = true -> NoDup (IndexedEval.irows c) ->
  (forall f, In f (IndexedEval.irows c) -> IndexedEval.fact_idx_ok decls f = true) ->
  IndexedEval.run_plan_idx I swap fuel pl c = Some c' ->
  least_model I P (IndexedEval.irows c) (IndexedEval.irows c')
  /\ (exists added, IndexedEval.irows c' = IndexedEval.irows c ++ added /\ NoDup added /\ (forall f, In f added -> ~ In f (IndexedEval.irows c)))
  /\ IndexedRefine.indices_agree (IndexedEval.istored c').
Proof. exact IndexedHistoryProofs.indexed_run_any_value. Qed.

(* run_timeout with per-index state (an interrupted call loses exactly the index fields of the SCC that was running)
   returns the flag and the rows of Engine/Timeout.v run_timeout *)
Theorem c01_run_timeout_indexed_refines : forall (I : interp) swap (deadline : nat -> bool) decls pl, IndexedEval.plan_idx_ok decls pl = true ->
  forall fuel c a, IndexedEval.irows c = rows a -> IndexedSim.pshape (IndexedEval.istored c) = decls -> NoDup (rows a) ->
  (forall f, In f (rows a) -> IndexedEval.fact_idx_ok decls f = true) ->
  option_map (fun r => (fst r, IndexedEval.irows (snd r))) (IndexedHistory.run_timeout_idx I swap deadline fuel pl c)
  = option_map (fun r => (fst r, rows (snd r))) (Timeout.run_timeout I swap deadline fuel pl a).
Proof. exact IndexedHistoryProofs.indexed_timeout_rows_eq. Qed.

(* whichever deadline check fired: run() on the value the interrupted run_timeout left ends in the least model of the
   ORIGINAL input *)
Theorem c01_run_after_interrupted_run_timeout : forall (I : interp) swap (deadline : nat -> bool) decls pl, IndexedEval.plan_idx_ok decls pl = true ->
  forall arities P, arities_functional arities -> no_agg P = true -> validate arities P pl = true ->
  forall fuel fuel' F0 b c1 c2,
  wf_facts arities F0 = true -> NoDup F0 -> (forall f, In f F0 -> IndexedEval.fact_idx_ok decls f = true) ->
  IndexedHistory.run_timeout_idx I swap deadline fuel pl (IndexedEval.init_istate decls F0) = Some (b, c1) ->
  IndexedEval.run_plan_idx I swap fuel' pl c1 = Some c2 ->
  least_model I P F0 (IndexedEval.irows c2) /\ IndexedRefine.indices_agree (IndexedEval.istored c2)
  /\ IndexedSim.pshape (IndexedEval.istored c1) = decls.
Proof. exact IndexedHistoryProofs.indexed_timeout_then_run. Qed.

(* non-vacuity on transitive closure: run; overwrite edge with as many other rows, clear path; run  and
   run_timeout interrupted inside the recursive SCC (edge's index through column 1 and path's indices empty, edge's other
   index fields complete); run *)
Example c01_example_overwrite_history : exists snaps M,
  IndexedHistory.run_history_idx std_interp std_swap 20 tc_plan
    [IndexedHistory.HSet [0%nat] tc_input; IndexedHistory.HRun; IndexedHistory.HSet [0%nat; 1%nat] IndexedHistoryProofs.tc_input2; IndexedHistory.HRun]
    (IndexedEval.init_istate IndexedRefine.tc_decls []) = Some snaps
  /\ naive_fix std_interp 20 tc_prog IndexedHistoryProofs.tc_input2 = Some M
  /\ match snaps with [_; (b, R, _)] => b = true /\ length R = 25%nat /\ forallb (fun f => mem_fact f R) M && forallb (fun f => mem_fact f M) R = true | _ => False end.
Proof. exact IndexedHistoryProofs.tc_overwrite_history. Qed.

Example c01_example_resume_history : exists snaps,
  IndexedHistory.run_history_idx std_interp std_swap 20 tc_plan [IndexedHistory.HSet [0%nat] tc_input; IndexedHistory.HTimeout 2; IndexedHistory.HRun]
    (IndexedEval.init_istate IndexedRefine.tc_decls []) = Some snaps
  /\ match snaps with
     | [(b1, R1, ix1); (b2, R2, ix2)] =>
         b1 = false /\ length R1 = 15%nat
         /\ map (fun e => (fst (fst e), snd (fst e), length (snd e))) ix1
            = [(0%nat, [], 5%nat); (0%nat, [1%nat], 0%nat); (0%nat, [0%nat; 1%nat], 5%nat); (1%nat, [0%nat], 0%nat); (1%nat, [0%nat; 1%nat], 0%nat)]
         /\ b2 = true /\ length R2 = 25%nat
     | _ => False
     end.
Proof. exact IndexedHistoryProofs.tc_resume_history. Qed.

(* the excluded code change - an update_indices that keeps the stored indices of a relation whose row count equals the
   length of its full index - violates both statements (computed witnesses on the same program) *)
Theorem c01_count_trusting_update_refuted_overwrite : exists c1 c2 M,
  IndexedEval.run_plan_idx std_interp std_swap 20 tc_plan (IndexedEval.init_istate IndexedRefine.tc_decls tc_input) = Some c1
  /\ IndexedHistory.run_plan_trusting IndexedHistory.trust_full_len std_interp std_swap 20 tc_plan
       (IndexedHistory.set_rels_i [0%nat; 1%nat] IndexedHistoryProofs.tc_input2 c1) = Some c2
  /\ naive_fix std_interp 20 tc_prog (IndexedEval.irows (IndexedHistory.set_rels_i [0%nat; 1%nat] IndexedHistoryProofs.tc_input2 c1)) = Some M
  /\ mem_fact (1%nat, [11; 12]%Z) M = true /\ mem_fact (1%nat, [11; 12]%Z) (IndexedEval.irows c2) = false
  /\ mem_fact (1%nat, [1; 2]%Z) (IndexedEval.irows c2) = true /\ mem_fact (1%nat, [1; 2]%Z) M = false.
Proof. exact IndexedHistoryProofs.trusting_update_refuted_overwrite. Qed.

Theorem c01_count_trusting_update_refuted_resume : exists c1 c2 M,
  IndexedHistory.run_timeout_idx std_interp std_swap (Timeout.fire_at 2) 20 tc_plan (IndexedEval.init_istate IndexedRefine.tc_decls tc_input) = Some (false, c1)
  /\ IndexedHistory.run_plan_trusting IndexedHistory.trust_full_len std_interp std_swap 20 tc_plan c1 = Some c2
  /\ naive_fix std_interp 20 tc_prog tc_input = Some M
  /\ length (IndexedEval.irows c2) = 15%nat /\ length M = 25%nat
  /\ mem_fact (1%nat, [1; 1]%Z) M = true /\ mem_fact (1%nat, [1; 1]%Z) (IndexedEval.irows c2) = false.
Proof. exact IndexedHistoryProofs.trusting_update_refuted_resume. Qed.

Print Assumptions c01_run_depends_on_rows_only. Print Assumptions c01_run_on_any_program_value.
Print Assumptions c01_run_timeout_indexed_refines. Print Assumptions c01_run_after_interrupted_run_timeout.
Print Assumptions c01_example_overwrite_history. Print Assumptions c01_example_resume_history.
Print Assumptions c01_count_trusting_update_refuted_overwrite. Print Assumptions c01_count_trusting_update_refuted_resume.
