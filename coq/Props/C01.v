(* C01 — run() computes exactly the least model of the rules over the input facts.
   Property theorems only; proofs are in Engine/{EvalSpec,NaiveLemmas,Strata,SemiNaive,Main}.v.

   Model: Engine/Eval.v (run_plan executes the plan dumped from the real macro; Engine/Validate.v
   validate is the proved-sound acceptance check for plans); specification: Engine/Sem.v. *)
From Coq Require Import List ZArith Bool.
From AV Require Import Engine.Core Engine.Sem Engine.Eval Engine.Validate Engine.Naive Engine.Interface Engine.Main Engine.Vocab Engine.Examples.
Import ListNotations.

(* for every interpretation of the expression symbols, every run-time join-order oracle, every program without
   aggregates, every plan accepted by the validator, every finite input and every terminating run: the rows after
   run() are the least model — they contain the input, are closed under every rule, and are contained in every
   closed superset of the input (every tuple present is derivable, every derivable tuple is present) *)
Theorem c01_least_model : forall (I : interp) (swap : list tuple -> list tuple -> bool) arities P pl fuel F0 st,
  arities_functional arities -> wf_facts arities F0 = true -> no_agg P = true ->
  validate arities P pl = true ->
  run_plan I swap fuel pl (init_state F0) = Some st ->
  least_model I P F0 (rows st).
Proof. intros I swap arities P pl fuel F0 st H1 H2 H3 H4 H5. exact (proj1 (run_plan_correct_full I swap arities P pl fuel F0 st H1 H2 H3 H4 H5)). Qed.

(* input facts are part of the result, unmodified and in place; what is added is new and duplicate free *)
Theorem c01_inputs_kept : forall (I : interp) swap arities P pl fuel F0 st,
  arities_functional arities -> wf_facts arities F0 = true -> no_agg P = true ->
  validate arities P pl = true ->
  run_plan I swap fuel pl (init_state F0) = Some st ->
  exists added, rows st = F0 ++ added /\ NoDup added /\ (forall f, In f added -> ~ In f F0).
Proof. intros I swap arities P pl fuel F0 st H1 H2 H3 H4 H5. exact (proj2 (run_plan_correct_full I swap arities P pl fuel F0 st H1 H2 H3 H4 H5)). Qed.

(* evaluation stops only when no rule can add anything: the final rows are closed *)
Theorem c01_stops_only_at_fixpoint : forall (I : interp) swap arities P pl fuel F0 st,
  arities_functional arities -> wf_facts arities F0 = true -> no_agg P = true ->
  validate arities P pl = true ->
  run_plan I swap fuel pl (init_state F0) = Some st ->
  forall f, derives I P (rows st) f -> In f (rows st).
Proof. intros I swap arities P pl fuel F0 st H1 H2 H3 H4 H5. exact (proj1 (proj2 (proj1 (run_plan_correct_full I swap arities P pl fuel F0 st H1 H2 H3 H4 H5)))). Qed.

(* least models are unique as sets, and the executable oracle used by the correspondence runs computes one *)
Theorem c01_least_model_unique : forall I P F0 M1 M2, least_model I P F0 M1 -> least_model I P F0 M2 -> same_set M1 M2.
Proof. exact least_model_unique. Qed.
Theorem c01_oracle_correct : forall I P fuel F0 M, no_agg P = true -> naive_fix I fuel P F0 = Some M -> least_model I P F0 M.
Proof. exact naive_fix_correct. Qed.

(* non-vacuity: transitive closure on a 4-cycle with a tail, with the plan the real macro produced *)
Example c01_example_hypotheses : validate tc_arities tc_prog tc_plan = true /\ no_agg tc_prog = true /\ wf_facts tc_arities tc_input = true.
Proof. exact tc_hyps. Qed.
Example c01_example_runs : exists st, run_plan std_interp std_swap 20 tc_plan (init_state tc_input) = Some st /\ length (rows st) = 25%nat.
Proof. exact tc_runs. Qed.

Print Assumptions c01_least_model. Print Assumptions c01_inputs_kept. Print Assumptions c01_stops_only_at_fixpoint.
Print Assumptions c01_least_model_unique. Print Assumptions c01_oracle_correct.
Print Assumptions c01_example_hypotheses. Print Assumptions c01_example_runs.

(* ================= the PLANNER inside the model =================
   Plan/PlanModel.v compile_model is a Gallina mirror of the macro's planner (ascent_hir.rs: index columns per clause,
   simple-join detection, reorderable; ascent_mir.rs: semi-naive version vectors, dynamic relations, is_looping), taking the
   SCC partition (petgraph's condensation, dumped) as an input.  It is compared structurally with the plan the real macro
   dumps on every run (gen/plan_model.py).  For EVERY well-formed core program and EVERY partition satisfying the decidable
   condition sccs_ok the computed plan is accepted by the validator, hence planner + engine compute the least model: the
   statement no longer depends on a plan having been dumped and validated for the particular program. *)
From AV Require Plan.PlanModel.
From AV Require Plan.PlanWf.
From AV Require Plan.PlanProofs.
From AV Require Plan.PlanMain.

Theorem c01_planner_output_is_valid : forall arities P sccs,
  PlanWf.wf_core arities P = true -> PlanWf.sccs_ok P sccs = true ->
  validate arities P (PlanModel.compile_model arities P sccs) = true.
Proof. exact PlanProofs.compile_model_valid. Qed.

Theorem c01_planner_and_engine_least_model : forall (I : interp) swap arities P sccs fuel F0 st,
  arities_functional arities -> wf_facts arities F0 = true -> no_agg P = true ->
  PlanWf.wf_core arities P = true -> PlanWf.sccs_ok P sccs = true ->
  run_plan I swap fuel (PlanModel.compile_model arities P sccs) (init_state F0) = Some st ->
  least_model I P F0 (rows st)
  /\ exists added, rows st = F0 ++ added /\ NoDup added /\ (forall f, In f added -> ~ In f F0).
Proof. exact PlanMain.planner_engine_correct. Qed.

(* ================= per-index state =================
   Engine/IndexedEval.v keeps, as the generated code does, one physical index per (relation, column set) with its own
   total / delta / new and its stored copy in the program value (update_indices resets and refills every index; the head
   update checks the full index of total / delta, inserts into the full index of new and then into every other index of
   new; the merge runs per index).  It refines the abstract engine above (rows equal as lists), so the least-model theorem
   holds for it, and all indices of a relation list the same rows at the end ("lock-step", what a skipped index insertion
   breaks).  Tied to the REAL index fields after run() by gen/indexed_tie.py. *)
From AV Require Engine.IndexedEval.
From AV Require Engine.IndexedRefine.
From AV Require Engine.IndexedLockstep.

Theorem c01_indexed_engine_least_model : forall (I : interp) swap decls pl,
  IndexedEval.plan_idx_ok decls pl = true ->
  forall arities P, arities_functional arities -> no_agg P = true -> validate arities P pl = true ->
  forall fuel F0 c, wf_facts arities F0 = true -> NoDup F0 -> (forall f, In f F0 -> IndexedEval.fact_idx_ok decls f = true) ->
  IndexedEval.run_plan_idx I swap fuel pl (IndexedEval.init_istate decls F0) = Some c ->
  least_model I P F0 (IndexedEval.irows c)
  /\ (exists added, IndexedEval.irows c = F0 ++ added /\ NoDup added /\ (forall f, In f added -> ~ In f F0))
  /\ IndexedRefine.indices_agree (IndexedEval.istored c).
Proof. exact IndexedRefine.indexed_run_least_model. Qed.

(* the indexed engine and the abstract engine return the same rows (as lists), from any pair of states with equal rows *)
Theorem c01_indexed_engine_refines : forall (I : interp) swap decls pl, IndexedEval.plan_idx_ok decls pl = true ->
  forall fuel c a, IndexedEval.irows c = rows a -> IndexedSim.pshape (IndexedEval.istored c) = decls -> NoDup (rows a) ->
  (forall f, In f (rows a) -> IndexedEval.fact_idx_ok decls f = true) ->
  option_map IndexedEval.irows (IndexedEval.run_plan_idx I swap fuel pl c) = option_map rows (run_plan I swap fuel pl a).
Proof. exact IndexedRefine.indexed_rows_eq. Qed.

(* lock-step for ANY input (duplicate caller rows included), without reference to the abstract engine *)
Theorem c01_indices_agree_after_run : forall (I : interp) swap decls fuel pl c c', IndexedEval.plan_idx_ok decls pl = true ->
  IndexedSim.pshape (IndexedEval.istored c) = decls -> (forall f, In f (IndexedEval.irows c) -> IndexedEval.fact_idx_ok decls f = true) ->
  IndexedEval.run_plan_idx I swap fuel pl c = Some c' ->
  IndexedRefine.indices_agree (IndexedEval.istored c') /\ IndexedSim.pshape (IndexedEval.istored c') = decls.
Proof. exact IndexedLockstep.indexed_run_indices_agree_any_input. Qed.

Print Assumptions c01_planner_output_is_valid. Print Assumptions c01_planner_and_engine_least_model.
Print Assumptions c01_indexed_engine_least_model. Print Assumptions c01_indexed_engine_refines. Print Assumptions c01_indices_agree_after_run.

(* ================= run() on ANY program value =================
   Engine/IndexedHistory.v: what a caller can do to a program value between two calls (push rows; OVERWRITE the Vec
   fields of relations with other rows - the index fields then still describe the old rows) and what an interrupted
   run_timeout leaves behind (the index fields its SCC had moved out are EMPTY, the others intact: the indices of one
   relation disagree with each other and with the rows).  Tied to the real index fields around every call of such
   histories by gen/indexed_tie.py.  update_indices rebuilds EVERY index field from the rows, hence: *)
From AV Require Engine.Timeout.
From AV Require Engine.IndexedHistory.
From AV Require Engine.IndexedHistoryProofs.

(* whatever the index fields hold when run() starts, the result is that of a program value with the same rows *)
Theorem c01_run_depends_on_rows_only : forall (I : interp) swap fuel pl c1 c2,
  IndexedSim.pshape (IndexedEval.istored c1) = IndexedSim.pshape (IndexedEval.istored c2) -> IndexedEval.irows c1 = IndexedEval.irows c2 ->
  IndexedEval.run_plan_idx I swap fuel pl c1 = IndexedEval.run_plan_idx I swap fuel pl c2.
Proof. exact IndexedHistoryProofs.run_plan_idx_rows_only. Qed.

(* every run() on ANY program value c (index fields arbitrary: of an earlier run, stale, partly emptied) ends in the least
   model of the rows present when it was called; those rows stay in place, what is added is new and duplicate free; all
   index fields are in step afterwards *)
Theorem c01_run_on_any_program_value : forall (I : interp) swap decls pl, IndexedEval.plan_idx_ok decls pl = true ->
  forall arities P, arities_functional arities -> no_agg P = true -> validate arities P pl = true ->
  forall fuel c c', IndexedSim.pshape (IndexedEval.istored c) = decls ->
  wf_facts arities (IndexedEval.irows c) = true -> NoDup (IndexedEval.irows c) ->
  (forall f, In f (IndexedEval.irows c) -> IndexedEval.fact_idx_ok decls f = true) ->
  IndexedEval.run_plan_idx I swap fuel pl c = Some c' ->
  least_model I P (IndexedEval.irows c) (IndexedEval.irows c')
  /\ (exists added, IndexedEval.irows c' = IndexedEval.irows c ++ added /\ NoDup added /\ (forall f, In f added -> ~ In f (IndexedEval.irows c)))
  /\ IndexedRefine.indices_agree (IndexedEval.istored c').
Proof. exact IndexedHistoryProofs.indexed_run_any_value. Qed.

(* run_timeout with per-index state (an interrupted call loses exactly the index fields of the SCC that was running)
   returns the flag and the rows of Engine/Timeout.v run_timeout *)
Theorem c01_run_timeout_indexed_refines : forall (I : interp) swap (deadline : nat -> bool) decls pl, IndexedEval.plan_idx_ok decls pl = true ->
  forall fuel c a, IndexedEval.irows c = rows a -> IndexedSim.pshape (IndexedEval.istored c) = decls -> NoDup (rows a) ->
  (forall f, In f (rows a) -> IndexedEval.fact_idx_ok decls f = true) ->
  option_map (fun r => (fst r, IndexedEval.irows (snd r))) (IndexedHistory.run_timeout_idx I swap deadline fuel pl c)
  = option_map (fun r => (fst r, rows (snd r))) (Timeout.run_timeout I swap deadline fuel pl a).
Proof. exact IndexedHistoryProofs.indexed_timeout_rows_eq. Qed.

(* whichever deadline check fired: run() on the value the interrupted run_timeout left ends in the least model of the
   ORIGINAL input *)
Theorem c01_run_after_interrupted_run_timeout : forall (I : interp) swap (deadline : nat -> bool) decls pl, IndexedEval.plan_idx_ok decls pl = true ->
  forall arities P, arities_functional arities -> no_agg P = true -> validate arities P pl = true ->
  forall fuel fuel' F0 b c1 c2,
  wf_facts arities F0 = true -> NoDup F0 -> (forall f, In f F0 -> IndexedEval.fact_idx_ok decls f = true) ->
  IndexedHistory.run_timeout_idx I swap deadline fuel pl (IndexedEval.init_istate decls F0) = Some (b, c1) ->
  IndexedEval.run_plan_idx I swap fuel' pl c1 = Some c2 ->
  least_model I P F0 (IndexedEval.irows c2) /\ IndexedRefine.indices_agree (IndexedEval.istored c2)
  /\ IndexedSim.pshape (IndexedEval.istored c1) = decls.
Proof. exact IndexedHistoryProofs.indexed_timeout_then_run. Qed.

(* non-vacuity on transitive closure: run; overwrite edge with as many other rows, clear path; run  and
   run_timeout interrupted inside the recursive SCC (edge's index through column 1 and path's indices empty, edge's other
   index fields complete); run *)
Example c01_example_overwrite_history : exists snaps M,
  IndexedHistory.run_history_idx std_interp std_swap 20 tc_plan
    [IndexedHistory.HSet [0%nat] tc_input; IndexedHistory.HRun; IndexedHistory.HSet [0%nat; 1%nat] IndexedHistoryProofs.tc_input2; IndexedHistory.HRun]
    (IndexedEval.init_istate IndexedRefine.tc_decls []) = Some snaps
  /\ naive_fix std_interp 20 tc_prog IndexedHistoryProofs.tc_input2 = Some M
  /\ match snaps with [_; (b, R, _)] => b = true /\ length R = 25%nat /\ forallb (fun f => mem_fact f R) M && forallb (fun f => mem_fact f M) R = true | _ => False end.
Proof. exact IndexedHistoryProofs.tc_overwrite_history. Qed.

Example c01_example_resume_history : exists snaps,
  IndexedHistory.run_history_idx std_interp std_swap 20 tc_plan [IndexedHistory.HSet [0%nat] tc_input; IndexedHistory.HTimeout 2; IndexedHistory.HRun]
    (IndexedEval.init_istate IndexedRefine.tc_decls []) = Some snaps
  /\ match snaps with
     | [(b1, R1, ix1); (b2, R2, ix2)] =>
         b1 = false /\ length R1 = 15%nat
         /\ map (fun e => (fst (fst e), snd (fst e), length (snd e))) ix1
            = [(0%nat, [], 5%nat); (0%nat, [1%nat], 0%nat); (0%nat, [0%nat; 1%nat], 5%nat); (1%nat, [0%nat], 0%nat); (1%nat, [0%nat; 1%nat], 0%nat)]
         /\ b2 = true /\ length R2 = 25%nat
     | _ => False
     end.
Proof. exact IndexedHistoryProofs.tc_resume_history. Qed.

(* the excluded code change - an update_indices that keeps the stored indices of a relation whose row count equals the
   length of its full index - violates both statements (computed witnesses on the same program) *)
Theorem c01_count_trusting_update_refuted_overwrite : exists c1 c2 M,
  IndexedEval.run_plan_idx std_interp std_swap 20 tc_plan (IndexedEval.init_istate IndexedRefine.tc_decls tc_input) = Some c1
  /\ IndexedHistory.run_plan_trusting IndexedHistory.trust_full_len std_interp std_swap 20 tc_plan
       (IndexedHistory.set_rels_i [0%nat; 1%nat] IndexedHistoryProofs.tc_input2 c1) = Some c2
  /\ naive_fix std_interp 20 tc_prog (IndexedEval.irows (IndexedHistory.set_rels_i [0%nat; 1%nat] IndexedHistoryProofs.tc_input2 c1)) = Some M
  /\ mem_fact (1%nat, [11; 12]%Z) M = true /\ mem_fact (1%nat, [11; 12]%Z) (IndexedEval.irows c2) = false
  /\ mem_fact (1%nat, [1; 2]%Z) (IndexedEval.irows c2) = true /\ mem_fact (1%nat, [1; 2]%Z) M = false.
Proof. exact IndexedHistoryProofs.trusting_update_refuted_overwrite. Qed.

Theorem c01_count_trusting_update_refuted_resume : exists c1 c2 M,
  IndexedHistory.run_timeout_idx std_interp std_swap (Timeout.fire_at 2) 20 tc_plan (IndexedEval.init_istate IndexedRefine.tc_decls tc_input) = Some (false, c1)
  /\ IndexedHistory.run_plan_trusting IndexedHistory.trust_full_len std_interp std_swap 20 tc_plan c1 = Some c2
  /\ naive_fix std_interp 20 tc_prog tc_input = Some M
  /\ length (IndexedEval.irows c2) = 15%nat /\ length M = 25%nat
  /\ mem_fact (1%nat, [1; 1]%Z) M = true /\ mem_fact (1%nat, [1; 1]%Z) (IndexedEval.irows c2) = false.
Proof. exact IndexedHistoryProofs.trusting_update_refuted_resume. Qed.

Print Assumptions c01_run_depends_on_rows_only. Print Assumptions c01_run_on_any_program_value.
Print Assumptions c01_run_timeout_indexed_refines. Print Assumptions c01_run_after_interrupted_run_timeout.
Print Assumptions c01_example_overwrite_history. Print Assumptions c01_example_resume_history.
Print Assumptions c01_count_trusting_update_refuted_overwrite. Print Assumptions c01_count_trusting_update_refuted_resume.

(* ================= END TO END: surface program -> desugar -> planner -> engine =================
   For every SURFACE program (disjunctions, ?patterns, wildcards, repeated variables, negation, several heads ...) meeting the
   decidable wf_surface (C07) and wf_binding, every state of the name counters, every SCC partition meeting sccs_ok, every input
   and join-order oracle: running the plan the planner model computes for the desugared program yields the least model of the
   program under its DIRECT surface denotation (Syntax/Surface.v).  Proofs: Syntax/EndToEnd*.v (composition of C07's
   desugaring theorems, the new lemma 'the desugarer's output is wf_core', the planner theorem and the engine theorem). *)
From Coq Require Import List ZArith Bool Arith Ascii String.
From AV Require Import Engine.Core.
From AV Require Import Engine.Sem.
From AV Require Import Engine.Eval.
From AV Require Import Engine.Naive.
From AV Require Import Engine.InterfaceAgg.
From AV Require Import Engine.MainAgg.
From AV Require Import Engine.Vocab.
From AV Require Import Plan.PlanModel.
From AV Require Import Plan.PlanWf.
From AV Require Import Syntax.Surface.
From AV Require Import Syntax.Desugar.
From AV Require Import Syntax.ToCore.
From AV Require Import Syntax.C07Main.
From AV Require Import Syntax.C07Example.
From AV Require Import Syntax.EndToEndDefs.
From AV Require Import Syntax.EndToEndWf.
From AV Require Import Syntax.EndToEndNoAgg.
From AV Require Import Syntax.EndToEnd.
From AV Require Import Syntax.EndToEndSugared.
Import ListNotations.
(* ================= proposed for Props/C01.v ================= *)
(* END TO END, relations only.  For every surface program without aggregation / negation meeting the two boolean
   well-formedness predicates, every interpretation in which `==` is equality, not() negation and `let` evaluates its
   expression, every state of the name counters: the front end's output translates to a core program Pc that is
   well formed, and for EVERY SCC partition accepted by sccs_ok, every input of the declared arities, every join-order
   oracle and fuel: if the run of the plan COMPUTED by the planner model terminates within the fuel, its rows are the least
   model of the SURFACE program under its direct denotation, and they extend the input without duplicates. *)
Theorem c01_end_to_end_least_model : forall (I : interp) swap arities P cs,
  wf_surface P = true -> wf_binding arities P = true -> no_agg_surface P = true -> interp_ok I (prog_fsyms P) ->
  exists Pc, core_of_prog (desugar_prog cs P) = Some Pc /\ wf_core arities Pc = true /\ no_agg Pc = true
    /\ forall sccs fuel F0 st,
         arities_functional arities -> wf_facts arities F0 = true -> sccs_ok Pc sccs = true ->
         run_plan I swap fuel (compile_model arities Pc sccs) (init_state F0) = Some st ->
         sleast_model I P F0 (rows st)
         /\ exists added, rows st = F0 ++ added /\ NoDup added /\ (forall f, In f added -> ~ In f F0).
Proof. exact end_to_end_least_model. Qed.
(* the same, written with the function to_core = core translation of the desugared program *)
Theorem c01_end_to_end_least_model_fn : forall (I : interp) swap arities P cs sccs fuel F0 st,
  wf_surface P = true -> wf_binding arities P = true -> no_agg_surface P = true -> interp_ok I (prog_fsyms P) ->
  arities_functional arities -> wf_facts arities F0 = true -> sccs_ok (to_core cs P) sccs = true ->
  run_plan I swap fuel (compile_model arities (to_core cs P) sccs) (init_state F0) = Some st ->
  sleast_model I P F0 (rows st)
  /\ exists added, rows st = F0 ++ added /\ NoDup added /\ (forall f, In f added -> ~ In f F0).
Proof. exact end_to_end_least_model_fn. Qed.
(* hence the result does not depend on the counter state, the SCC partition, the join-order oracle or the fuel *)
Theorem c01_end_to_end_deterministic : forall (I : interp) swap swap' arities P cs cs' sccs sccs' fuel fuel' F0 st st',
  wf_surface P = true -> wf_binding arities P = true -> no_agg_surface P = true -> interp_ok I (prog_fsyms P) ->
  arities_functional arities -> wf_facts arities F0 = true ->
  sccs_ok (to_core cs P) sccs = true -> sccs_ok (to_core cs' P) sccs' = true ->
  run_plan I swap fuel (compile_model arities (to_core cs P) sccs) (init_state F0) = Some st ->
  run_plan I swap' fuel' (compile_model arities (to_core cs' P) sccs') (init_state F0) = Some st' ->
  forall f, In f (rows st) <-> In f (rows st').
Proof. exact end_to_end_deterministic. Qed.

(* END TO END with aggregation / negation, EVERY sccs_ok partition.  An arbitrary partition may put two rules of the disjunction
   product of one sugared rule into different SCCs, so the strata are groups of DESUGARED rules: the rows are the stratified
   model (aggregated relations of a stratum held fixed) of the strata the partition induces on desugar_prog cs P read with the
   DIRECT surface denotation, and the desugared program derives from every fact set exactly what P derives. *)
Theorem c01_end_to_end_strat_model_desugared : forall (I : interp) swap arities P cs,
  wf_surface P = true -> wf_binding arities P = true -> interp_ok I (prog_fsyms P) ->
  exists Pc, core_of_prog (desugar_prog cs P) = Some Pc /\ wf_core arities Pc = true
    /\ (forall F f, sderives I P F f <-> sderives I (desugar_prog cs P) F f)
    /\ forall sccs fuel F0 st,
         arities_functional arities -> wf_facts arities F0 = true -> NoDup F0 -> agg_perm_invariant I -> sccs_ok Pc sccs = true ->
         run_plan I swap fuel (compile_model arities Pc sccs) (init_state F0) = Some st ->
         sstrat_model_fixed I (surface_strata (desugar_prog cs P) sccs) F0 (rows st)
         /\ NoDup (rows st) /\ exists added, rows st = F0 ++ added.
Proof. exact end_to_end_strat_model. Qed.

(* END TO END with aggregation / negation, strata of P's OWN sugared rules: for every ordered grouping [groups] of the rule
   numbers of P, the partition whose SCCs are the rule numbers (in the desugared program) of the disjunction products of each
   group's rules: if it is sccs_ok and the run terminates, the rows are the stratified model of the groups of SUGARED rules under
   the direct denotation, the relations a group aggregates or negates held fixed in its stratum. *)
Theorem c01_end_to_end_strat_model_sugared :
  forall (I : interp) swap arities P cs (groups : list (list nat)) fuel F0 st,
    wf_surface P = true -> wf_binding arities P = true -> interp_ok I (prog_fsyms P) ->
    arities_functional arities -> wf_facts arities F0 = true -> NoDup F0 -> agg_perm_invariant I ->
    let sccs := map (fun g => flat_map (fun k => nth k (block_numbers cs P 0) []) g) groups in
    sccs_ok (to_core cs P) sccs = true ->
    run_plan I swap fuel (compile_model arities (to_core cs P) sccs) (init_state F0) = Some st ->
    sstrat_model_sugared I (map (fun g => filter_map (fun k => nth_error P k) g) groups) F0 (rows st).
Proof. exact end_to_end_strat_model_sugared. Qed.

(* ================= an instance, by computation =================
   edge = 0 (arity 2), path = 1 (2), node = 2 (1), loop = 3 (1)
     path(x, y) <-- (edge(x, y) | edge(y, x));          disjunction
     path(x, z) <-- edge(x, y), path(y, z);             transitive closure
     node(x)    <-- edge(x, _);                         wildcard
     loop(x)    <-- path(x, x);                         repeated variable                                        *)
Open Scope Z_scope.
Definition va (s : string) : sarg := AT (SVar (i s)).
Definition tv (s : string) : sterm := SVar (i s).
Definition tc_prog : list srule :=
  [ {| sheads := [(1%nat, [tv "x"; tv "y"])]; sbody := [IDisj [[IClause 0%nat [va "x"; va "y"] []]; [IClause 0%nat [va "y"; va "x"] []]]] |};
    {| sheads := [(1%nat, [tv "x"; tv "z"])]; sbody := [IClause 0%nat [va "x"; va "y"] []; IClause 1%nat [va "y"; va "z"] []] |};
    {| sheads := [(2%nat, [tv "x"])]; sbody := [IClause 0%nat [va "x"; AWildS] []] |};
    {| sheads := [(3%nat, [tv "x"])]; sbody := [IClause 1%nat [va "x"; va "x"] []] |} ].
Definition tc_arities : list (rel * nat) := [(0, 2); (1, 2); (2, 1); (3, 1)]%nat.
(* 5 desugared rules: the two disjuncts and the recursive rule form the SCC of path *)
Definition tc_sccs : list (list nat) := [[0; 1; 2]; [3]; [4]]%nat.
Definition tc_input : list fact := [(0%nat, [1; 2]); (0%nat, [2; 3]); (0%nat, [4; 4])].
Definition tc_rows : list fact :=
  [(0%nat, [1; 2]); (0%nat, [2; 3]); (0%nat, [4; 4]); (1%nat, [1; 2]); (1%nat, [2; 3]); (1%nat, [4; 4]);
   (1%nat, [2; 1]); (1%nat, [3; 2]); (1%nat, [1; 3]); (1%nat, [1; 1]); (1%nat, [2; 2]); (2%nat, [1]);
   (2%nat, [2]); (2%nat, [4]); (3%nat, [4]); (3%nat, [1]); (3%nat, [2])].
Definition same_set (a b : list fact) : bool := forallb (fun f => mem_fact f b) a && forallb (fun f => mem_fact f a) b.

(* the hypotheses hold by computation; the pipeline desugar -> to_core -> compile_model -> run_plan yields tc_rows; the naive
   fix-point of the SURFACE program under its direct denotation has the same facts *)
Example e2e_example_hypotheses :
  wf_surface tc_prog = true /\ wf_binding tc_arities tc_prog = true /\ no_agg_surface tc_prog = true
  /\ List.length (to_core [] tc_prog) = 5%nat /\ sccs_ok (to_core [] tc_prog) tc_sccs = true /\ wf_facts tc_arities tc_input = true.
Proof. repeat split; vm_compute; reflexivity. Qed.
Example e2e_example_runs :
  option_map rows (run_plan std_interp std_swap 50 (compile_model tc_arities (to_core [] tc_prog) tc_sccs) (init_state tc_input)) = Some tc_rows
  /\ exists M, snaive_fix std_interp 50 tc_prog tc_input = Some M /\ same_set M tc_rows = true.
Proof. split; [vm_compute; reflexivity|]. eexists. split; vm_compute; reflexivity. Qed.
Lemma std_interp_ok_nil : interp_ok std_interp [].
Proof. split; [intros a b; reflexivity|]. split; [intros [|t ts]; reflexivity | intros f vs []]. Qed.
Lemma arities_functional_dec : forall ar,
  forallb (fun p => forallb (fun q => negb (Nat.eqb (fst p) (fst q)) || Nat.eqb (snd p) (snd q)) ar) ar = true -> arities_functional ar.
Proof.
  intros ar H r n m Hn Hm. rewrite forallb_forall in H. specialize (H _ Hn). rewrite forallb_forall in H. specialize (H _ Hm). cbn [fst snd] in H.
  rewrite Nat.eqb_refl in H. cbn [negb orb] in H. apply Nat.eqb_eq. exact H.
Qed.
Lemma tc_arities_functional : arities_functional tc_arities.
Proof. apply arities_functional_dec. vm_compute. reflexivity. Qed.
(* and by the theorem, tc_rows is the least model of the sugared program over the input *)
Example e2e_example_least_model : sleast_model std_interp tc_prog tc_input tc_rows.
Proof.
  destruct (run_plan std_interp std_swap 50 (compile_model tc_arities (to_core [] tc_prog) tc_sccs) (init_state tc_input)) as [st|] eqn:E.
  - assert (Hr : rows st = tc_rows). { pose proof (proj1 e2e_example_runs) as H. rewrite E in H. cbn [option_map] in H. inversion H. reflexivity. }
    rewrite <- Hr. destruct e2e_example_hypotheses as [H1 [H2 [H3 [_ [H5 H6]]]]].
    exact (proj1 (end_to_end_least_model_fn std_interp std_swap tc_arities tc_prog [] tc_sccs 50 tc_input st H1 H2 H3 std_interp_ok_nil
                    tc_arities_functional H6 H5 E)).
  - pose proof (proj1 e2e_example_runs) as H. rewrite E in H. discriminate H.
Qed.

(* with negation, strata of the SUGARED rules:   unreach(x) <-- node(x), !path(1, x);   unreach = 4 (arity 1) *)
Definition neg_rule : srule :=
  {| sheads := [(4%nat, [tv "x"])]; sbody := [IClause 2%nat [va "x"] []; INeg 1%nat [NKey (SConst 1); NKey (SVar (i "x"))]] |}.
Definition neg_prog : list srule := tc_prog ++ [neg_rule].
Definition neg_arities : list (rel * nat) := tc_arities ++ [(4, 1)]%nat.
Definition neg_groups : list (list nat) := [[0; 1]; [2]; [3]; [4]]%nat.                 (* groups of SUGARED rules *)
Definition neg_sccs : list (list nat) := map (fun g => flat_map (fun k => nth k (block_numbers [] neg_prog 0) []) g) neg_groups.
Definition neg_rows : list fact := tc_rows ++ [(4%nat, [4])].
Example e2e_example_neg_hypotheses :
  wf_surface neg_prog = true /\ wf_binding neg_arities neg_prog = true /\ neg_sccs = [[0; 1; 2]; [3]; [4]; [5]]%nat
  /\ sccs_ok (to_core [] neg_prog) neg_sccs = true /\ wf_facts neg_arities tc_input = true.
Proof. repeat split; vm_compute; reflexivity. Qed.
Example e2e_example_neg_runs :
  option_map rows (run_plan std_interp std_swap 50 (compile_model neg_arities (to_core [] neg_prog) neg_sccs) (init_state tc_input)) = Some neg_rows
  /\ exists M, sstrat_fix std_interp 50 (map (fun g => filter_map (fun k => nth_error neg_prog k) g) neg_groups) tc_input = Some M
              /\ same_set M neg_rows = true.
Proof. split; [vm_compute; reflexivity|]. eexists. split; vm_compute; reflexivity. Qed.
Example e2e_example_neg_strat_model :
  sstrat_model_sugared std_interp (map (fun g => filter_map (fun k => nth_error neg_prog k) g) neg_groups) tc_input neg_rows.
Proof.
  destruct (run_plan std_interp std_swap 50 (compile_model neg_arities (to_core [] neg_prog) neg_sccs) (init_state tc_input)) as [st|] eqn:E.
  - assert (Hr : rows st = neg_rows). { pose proof (proj1 e2e_example_neg_runs) as H. rewrite E in H. cbn [option_map] in H. inversion H. reflexivity. }
    rewrite <- Hr. destruct e2e_example_neg_hypotheses as [H1 [H2 [_ [H4 H5]]]].
    assert (Har : arities_functional neg_arities) by (apply arities_functional_dec; vm_compute; reflexivity).
    assert (Hnd : NoDup tc_input). { repeat constructor; cbn; intuition discriminate. }
    exact (end_to_end_strat_model_sugared std_interp std_swap neg_arities neg_prog [] neg_groups 50%nat tc_input st H1 H2 std_interp_ok_nil
             Har H5 Hnd std_interp_agg_perm_invariant H4 E).
  - pose proof (proj1 e2e_example_neg_runs) as H. rewrite E in H. discriminate H.
Qed.

Print Assumptions c01_end_to_end_least_model. Print Assumptions c01_end_to_end_least_model_fn. Print Assumptions c01_end_to_end_deterministic.
Print Assumptions c01_end_to_end_strat_model_desugared. Print Assumptions c01_end_to_end_strat_model_sugared.
Print Assumptions e2e_example_hypotheses. Print Assumptions e2e_example_runs. Print Assumptions e2e_example_least_model.
Print Assumptions e2e_example_neg_hypotheses. Print Assumptions e2e_example_neg_runs. Print Assumptions e2e_example_neg_strat_model.

(* ================= the engine on the MODEL INDEX TYPES of C19 =================
   Engine/ConcreteEval.v: every index field a value of Index/IndexModel.v's hvec / fmap, every step the modelled operation the
   generated code calls; simulates the per-index engine above (Props/C19.v c19_engine_on_model_types_refines_indexed_engine). *)
From Coq Require Import List ZArith Bool Permutation.
From AV Require Import Index.IndexModel.
From AV Require Import Index.IndexRefine.
From AV Require Import Engine.Core Engine.Sem Engine.Eval Engine.Validate Engine.Naive Engine.Interface Engine.Main Engine.Vocab Engine.Examples.
From AV Require Import Engine.InterfaceAgg Engine.MainAgg.
From AV Require Import Engine.IndexedEval Engine.IndexedSim Engine.IndexedRefine.
From AV Require Import Engine.ConcreteEval Engine.ConcreteBase Engine.ConcreteRefine.
Import ListNotations.
Open Scope Z_scope.

(* ================= proposed for Props/C01.v: the engine theorem on the concrete index types ================= *)
Theorem c01_concrete_engine_least_model :
  forall (sh : forall A : Type, list A -> list A), permuting sh ->
  forall (enc : list Z -> Z) (dec : Z -> list Z), (forall l, dec (enc l) = l) ->
  forall (I : interp), agg_perm_invariant I ->
  forall swap, swap_perm_invariant swap ->
  forall decls pl, plan_idx_ok decls pl = true ->
  forall arities P, arities_functional arities -> no_agg P = true -> validate arities P pl = true ->
  forall fuel F0 c, wf_facts arities F0 = true -> NoDup F0 -> (forall f, In f F0 -> fact_idx_ok decls f = true) ->
  run_plan_concrete sh enc dec I swap fuel pl (c_init_state decls F0) = Some c ->
  least_model I P F0 (crows c)
  /\ (exists added, Permutation (crows c) (F0 ++ added) /\ NoDup added /\ (forall f, In f added -> ~ In f F0))
  /\ concrete_indices_agree sh dec (cstored c).
Proof. exact concrete_run_least_model. Qed.

(* all concrete index fields of a relation agree after run(), from any related program values (duplicate rows included, no validity
   of the plan with respect to a source program needed) *)
Theorem c01_concrete_indices_agree :
  forall (sh : forall A : Type, list A -> list A), permuting sh ->
  forall (enc : list Z -> Z) (dec : Z -> list Z), (forall l, dec (enc l) = l) ->
  forall (I : interp), agg_perm_invariant I ->
  forall swap, swap_perm_invariant swap ->
  forall decls pl, plan_idx_ok decls pl = true ->
  forall fuel c a c', Rst enc decls c a ->
  run_plan_concrete sh enc dec I swap fuel pl c = Some c' -> concrete_indices_agree sh dec (cstored c').
Proof. exact concrete_indices_agree_after_run. Qed.

Theorem c01_concrete_rerun_idempotent :
  forall (sh : forall A : Type, list A -> list A), permuting sh ->
  forall (enc : list Z -> Z) (dec : Z -> list Z), (forall l, dec (enc l) = l) ->
  forall (I : interp), agg_perm_invariant I ->
  forall swap, swap_perm_invariant swap ->
  forall decls pl, plan_idx_ok decls pl = true ->
  forall arities P, arities_functional arities -> no_agg P = true -> validate arities P pl = true ->
  forall fuel fuel' F0 c1 c2, wf_facts arities F0 = true -> NoDup F0 -> (forall f, In f F0 -> fact_idx_ok decls f = true) ->
  run_plan_concrete sh enc dec I swap fuel pl (c_init_state decls F0) = Some c1 ->
  wf_facts arities (crows c1) = true ->
  run_plan_concrete sh enc dec I swap fuel' pl c1 = Some c2 ->
  Permutation (crows c2) (crows c1) /\ concrete_indices_agree sh dec (cstored c2).
Proof. exact concrete_rerun_idempotent. Qed.

(* the hypotheses are satisfiable: the plan the real macro dumped for transitive closure, the reversing order oracle, the example encoding *)
Example c01_concrete_example_hypotheses :
  permuting sh_rev /\ (forall l, dec_list (enc_list l) = l) /\ agg_perm_invariant std_interp /\ swap_perm_invariant std_swap
  /\ plan_idx_ok tc_decls tc_plan = true /\ forallb (fact_idx_ok tc_decls) tc_input = true.
Proof.
  split; [exact sh_rev_permuting|]. split; [exact dec_enc_list|]. split; [exact std_interp_agg_perm_invariant|].
  split; [exact std_swap_perm_invariant|]. exact tc_indexed_hyps.
Qed.

Example c01_concrete_example_runs : exists c,
  run_plan_concrete sh_rev enc_list dec_list std_interp std_swap 20 tc_plan (c_init_state tc_decls tc_input) = Some c
  /\ length (crows c) = 25%nat
  /\ map (fun x => snd (fst x)) (c_dump_stored sh_rev dec_list c) = [[]; [1%nat]; [0%nat; 1%nat]; [0%nat]; [0%nat; 1%nat]]
  /\ map snd (c_dump_lens c) = [1; 5; 5; 4; 20].
Proof. exact tc_concrete_runs. Qed.

Example c01_concrete_example_least_model : exists c,
  run_plan_concrete sh_rev enc_list dec_list std_interp std_swap 20 tc_plan (c_init_state tc_decls tc_input) = Some c
  /\ least_model std_interp tc_prog tc_input (crows c)
  /\ concrete_indices_agree sh_rev dec_list (cstored c).
Proof. exact tc_concrete_least_model. Qed.

Print Assumptions c01_concrete_engine_least_model.
Print Assumptions c01_concrete_indices_agree.
Print Assumptions c01_concrete_rerun_idempotent.
Print Assumptions c01_concrete_example_hypotheses.
Print Assumptions c01_concrete_example_runs.
Print Assumptions c01_concrete_example_least_model.

Print Assumptions std_interp_ok_nil. Print Assumptions arities_functional_dec. Print Assumptions tc_arities_functional.

(* ================= the ORDER in which the strata are evaluated =================
   The planner theorems above take the SCC partition as an input checked by the decidable PlanWf.sccs_ok (the macro gets it from
   petgraph's condensation).  Plan/PlanOrder.v says exactly what that check means for the ORDER of the strata, and that it is
   needed: a partition that puts a consumer before one of its producers is rejected, and on programs with a deep stratum DAG the
   plan compiled from such a partition makes the engine model lose derivable tuples.  The tie runs programs of that kind
   (gen/scc_shapes.py: 4-13 strata, producers at different depths, recursive strata in the middle, shuffled text order). *)
From AV Require Plan.PlanOrder.

Theorem c01_strata_order_exact : forall P sccs,
  PlanWf.sccs_ok P sccs = true <->
  (forall sc j, In sc sccs -> In j sc -> (j < length P)%nat)
  /\ (forall j, (j < length P)%nat -> PlanWf.part_count sccs j = 1%nat)
  /\ (forall j j' r r', nth_error P j = Some r -> nth_error P j' = Some r' ->
        exists k k', PlanWf.part_index sccs j 0 = Some k /\ PlanWf.part_index sccs j' 0 = Some k'
          /\ (PlanOrder.reads_from r r' = true -> (k' <= k)%nat) /\ (PlanOrder.aggregates_from r r' = true -> (k' < k)%nat)).
Proof. exact PlanOrder.sccs_ok_spec. Qed.

Theorem c01_consumer_before_producer_rejected : forall P sccs j j' r r' k k',
  nth_error P j = Some r -> nth_error P j' = Some r' -> PlanOrder.reads_from r r' = true ->
  PlanWf.part_index sccs j 0 = Some k -> PlanWf.part_index sccs j' 0 = Some k' -> (k < k')%nat ->
  PlanWf.sccs_ok P sccs = false.
Proof. exact PlanOrder.sccs_ok_rejects_consumer_first. Qed.

(* six strata, a recursive one in the middle, `hot` reached over chains of length 1 and 4, `alarm` reading it: in dependency
   order the planned run is the least model; in the order of a single-visit breadth-first level numbering (alarm before hot)
   the partition is rejected, the compiled plan is rejected by the validator, and alarm stays empty (4 tuples derivable) *)
Example c01_deep_dag_dependency_order :
  PlanWf.wf_core PlanOrder.dd_arities PlanOrder.dd_prog = true
  /\ PlanWf.sccs_ok PlanOrder.dd_prog PlanOrder.dd_good = true
  /\ PlanOrder.same_rows (PlanOrder.run_rows PlanOrder.dd_arities PlanOrder.dd_prog PlanOrder.dd_good PlanOrder.dd_facts)
                         (naive_fix std_interp 200%nat PlanOrder.dd_prog PlanOrder.dd_facts) = true.
Proof. split; [exact PlanOrder.dd_wf|]. split; [exact (proj1 PlanOrder.dd_good_ok)|exact (proj1 PlanOrder.dd_good_runs)]. Qed.

Example c01_deep_dag_consumer_first_loses_tuples :
  PlanWf.sccs_ok PlanOrder.dd_prog PlanOrder.dd_bfs = false
  /\ validate PlanOrder.dd_arities PlanOrder.dd_prog (PlanModel.compile_model PlanOrder.dd_arities PlanOrder.dd_prog PlanOrder.dd_bfs) = false
  /\ PlanOrder.facts_of 5%nat (PlanOrder.run_rows PlanOrder.dd_arities PlanOrder.dd_prog PlanOrder.dd_bfs PlanOrder.dd_facts) = []
  /\ PlanOrder.facts_of 5%nat (naive_fix std_interp 200%nat PlanOrder.dd_prog PlanOrder.dd_facts) = [[1]; [2]; [3]; [4]]%Z.
Proof.
  split; [exact PlanOrder.dd_bfs_rejected|]. split; [exact (proj1 PlanOrder.dd_bfs_loses_tuples)|].
  split; [exact (proj1 (proj2 PlanOrder.dd_bfs_loses_tuples))|exact (proj1 (proj2 (proj2 PlanOrder.dd_bfs_loses_tuples)))].
Qed.

Print Assumptions c01_strata_order_exact.
Print Assumptions c01_consumer_before_producer_rejected.
Print Assumptions c01_deep_dag_dependency_order.
Print Assumptions c01_deep_dag_consumer_first_loses_tuples.
