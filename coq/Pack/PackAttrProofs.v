(* C09 — proofs about Pack/PackAttrModel.v: the include path carries the whole parse state — the program-level inner
   attributes, the signature, the items — into the re-invocation, so the chain of invocations ends in exactly the parse
   of the pasted text, with the pasted text's attributes and hence its configuration. *)
From Coq Require Import List Arith Bool Lia.
From AV Require Import Pack.PackModel.
From AV Require Import Pack.PackProofs.
From AV Require Import Pack.PackAttrModel.
Import ListNotations.

Lemma no_xinc_app a b : no_xinc (a ++ b) = no_xinc a && no_xinc b.
Proof. unfold no_xinc. apply forallb_app. Qed.

Lemma count_xinc_cons x ts : count_xinc (x :: ts) = (if is_xinc x then S (count_xinc ts) else count_xinc ts).
Proof. unfold count_xinc. cbn [filter]. destruct (is_xinc x); reflexivity. Qed.

(* a piece that is not an include is consumed by `step` *)
Lemma walk_cons_noinc sc all st x rest : is_xinc x = false ->
  walk sc all st (x :: rest) = match step st x with Some st' => walk sc all st' rest | None => OError end.
Proof.
  intros H. cbn [walk]. destruct x as [a|n|t]; try reflexivity.
  cbn in H. unfold is_inc in H. destruct (t_sym t); [discriminate|reflexivity|reflexivity].
Qed.

(* the walk through an include-free prefix is the state machine `steps` *)
Lemma walk_app sc all : forall pre st suf, no_xinc pre = true ->
  walk sc all st (pre ++ suf) = match steps st pre with Some st' => walk sc all st' suf | None => OError end.
Proof.
  induction pre as [|x pre IH]; intros st suf H; [reflexivity|].
  cbn in H. apply andb_prop in H as [Hx Hp]. apply negb_true_iff in Hx.
  cbn [app]. rewrite (walk_cons_noinc _ _ _ _ _ Hx). cbn [steps].
  destruct (step st x) as [st'|]; [apply IH; exact Hp|reflexivity].
Qed.

Lemma walk_noinc sc all st ts : no_xinc ts = true ->
  walk sc all st ts = match steps st ts with
                      | Some st' => OProg (rev (ps_attrs st')) (rev (ps_sig st')) (rev (ps_items st'))
                      | None => OError
                      end.
Proof. intros H. rewrite <- (app_nil_r ts) at 1. rewrite (walk_app sc all ts st [] H). reflexivity. Qed.

Lemma xpaste_app srcs a b : xpaste srcs (a ++ b) = xpaste srcs a ++ xpaste srcs b.
Proof. unfold xpaste. apply flat_map_app. Qed.

Lemma xpaste_cons_noinc srcs x rest : is_xinc x = false -> xpaste srcs (x :: rest) = x :: xpaste srcs rest.
Proof.
  intros H. unfold xpaste. cbn [flat_map]. destruct x as [a|n|t]; try reflexivity.
  cbn in H. unfold is_inc in H. destruct (t_sym t); [discriminate|reflexivity|reflexivity].
Qed.

Lemma xexpand_paste_gen srcs : (forall p, no_xinc (srcs p) = true) ->
  forall ts done fuel, no_xinc done = true -> (count_xinc ts < fuel)%nat ->
  xexpand fuel srcs (done ++ ts) = Some (parse_program (done ++ xpaste srcs ts)).
Proof.
  intros Hsrc. induction ts as [|x rest IH]; intros done fuel Hdone Hfuel.
  - destruct fuel as [|f]; [cbn in Hfuel; lia|]. cbn [xpaste flat_map]. rewrite app_nil_r.
    unfold xexpand, parse_program. cbn [xexpand_when]. unfold parse_when. rewrite (walk_noinc _ _ _ _ Hdone).
    destruct (steps ps_init done); reflexivity.
  - rewrite count_xinc_cons in Hfuel. destruct (is_xinc x) eqn:Ex.
    + (* the first include of the input *)
      destruct x as [a|n|t]; try discriminate. cbn in Ex. unfold is_inc in Ex.
      destruct (t_sym t) as [p|y|n] eqn:Et; try discriminate.
      destruct fuel as [|f]; [lia|]. unfold xexpand. cbn [xexpand_when]. unfold parse_when at 1.
      rewrite (walk_app _ _ _ _ _ Hdone).
      assert (Hpaste : xpaste srcs (XItem t :: rest) = srcs p ++ xpaste srcs rest).
      { unfold xpaste. cbn [flat_map]. rewrite Et. reflexivity. }
      rewrite Hpaste.
      destruct (steps ps_init done) as [st'|] eqn:Est.
      * cbn [walk]. rewrite Et. cbn [andb]. rewrite (dropping_back_app done (XItem t :: rest)).
        replace (done ++ srcs p ++ rest) with ((done ++ srcs p) ++ rest) by (rewrite app_assoc; reflexivity).
        fold (xexpand f srcs ((done ++ srcs p) ++ rest)). rewrite (IH (done ++ srcs p) f).
        -- rewrite <- !app_assoc. reflexivity.
        -- rewrite no_xinc_app, Hdone, Hsrc. reflexivity.
        -- lia.
      * (* a parse error before the include is reached: the same error in the pasted text *)
        unfold parse_program, parse_when. rewrite (walk_app _ _ _ _ _ Hdone), Est. reflexivity.
    + replace (done ++ x :: rest) with ((done ++ [x]) ++ rest) by (rewrite <- app_assoc; reflexivity).
      rewrite (IH (done ++ [x]) fuel).
      * rewrite (xpaste_cons_noinc _ _ _ Ex). rewrite <- !app_assoc. reflexivity.
      * rewrite no_xinc_app, Hdone. unfold no_xinc. cbn. rewrite Ex. reflexivity.
      * exact Hfuel.
Qed.

(* for every input — any inner attributes, with or without a signature, includes at any position (the very first item
   included), any number of them — and sources without includes: the chain of invocations ends, after one invocation per
   include, in exactly what parsing the pasted text gives: the same program with the same attributes, or the same error *)
Theorem attr_include_is_splice srcs ts fuel :
  (forall p, no_xinc (srcs p) = true) ->
  (count_xinc ts < fuel)%nat ->
  xexpand fuel srcs ts = Some (parse_program (xpaste srcs ts)).
Proof. intros Hsrc Hf. exact (xexpand_paste_gen srcs Hsrc ts [] fuel eq_refl Hf). Qed.

(* hence the program is compiled under the configuration of the pasted text: default data structure of the relations,
   run_timeout generated or not, rule times measured or not *)
Corollary attr_include_config srcs ts fuel par :
  (forall p, no_xinc (srcs p) = true) ->
  (count_xinc ts < fuel)%nat ->
  outcome_config par (xexpand fuel srcs ts) = outcome_config par (Some (parse_program (xpaste srcs ts))).
Proof. intros Hsrc Hf. rewrite (attr_include_is_splice srcs ts fuel Hsrc Hf). reflexivity. Qed.

(* the attributes collected so far stay at the front of the attributes of the parsed program *)
Lemma steps_attrs_grow : forall ts st st', steps st ts = Some st' -> exists more, ps_attrs st' = more ++ ps_attrs st.
Proof.
  induction ts as [|x ts IH]; intros st st' H.
  - cbn in H. injection H as <-. exists []. reflexivity.
  - cbn [steps] in H. destruct (step st x) as [s1|] eqn:E1; [|discriminate].
    destruct (IH s1 st' H) as [more Hm].
    destruct x as [a|n|t]; cbn in E1.
    + destruct (ps_phase st); try discriminate. injection E1 as <-. cbn in Hm. exists (more ++ [a]). rewrite Hm, <- app_assoc. reflexivity.
    + destruct (ps_phase st); try discriminate; injection E1 as <-; cbn in Hm; exists more; exact Hm.
    + injection E1 as <-. cbn in Hm. exists more. exact Hm.
Qed.

Lemma steps_attr_prefix : forall A st, ps_phase st = PhAttrs ->
  exists st', steps st (map XAttr A) = Some st' /\ ps_phase st' = PhAttrs /\ ps_attrs st' = rev A ++ ps_attrs st.
Proof.
  induction A as [|a A IH]; intros st Hph.
  - exists st. repeat split; assumption.
  - cbn [map steps step]. rewrite Hph.
    destruct (IH {| ps_phase := PhAttrs; ps_attrs := a :: ps_attrs st; ps_sig := ps_sig st; ps_items := ps_items st |} eq_refl) as [st' [H1 [H2 H3]]].
    exists st'. repeat split; [exact H1|exact H2|]. rewrite H3. cbn. rewrite <- app_assoc. reflexivity.
Qed.

Lemma count_xinc_attrs A rest : count_xinc (map XAttr A ++ rest) = count_xinc rest.
Proof. induction A as [|a A IHA]; [reflexivity|]. cbn [map app]. rewrite count_xinc_cons. exact IHA. Qed.

Lemma xpaste_attrs srcs A : xpaste srcs (map XAttr A) = map XAttr A.
Proof. induction A as [|a A IHA]; [reflexivity|]. cbn [map]. rewrite xpaste_cons_noinc by reflexivity. rewrite IHA. reflexivity. Qed.

Lemma no_xinc_attrs A : no_xinc (map XAttr A) = true.
Proof. induction A as [|a A IHA]; [reflexivity|exact IHA]. Qed.

(* the rest of a walk only adds attributes behind the ones already collected *)
Lemma walk_prog_attrs : forall tl all st a s i, walk false all st tl = OProg a s i -> exists more, a = rev (ps_attrs st) ++ more.
Proof.
  induction tl as [|x tl IH]; intros all st a s i H.
  - cbn in H. injection H as <- _ _. exists []. rewrite app_nil_r. reflexivity.
  - destruct (is_xinc x) eqn:Ex.
    + destruct x as [b|n|t]; try discriminate. cbn in Ex. unfold is_inc in Ex. cbn [walk] in H.
      destruct (t_sym t); discriminate.
    + rewrite (walk_cons_noinc _ _ _ _ _ Ex) in H. destruct (step st x) as [s1|] eqn:E1; [|discriminate].
      destruct (IH all s1 a s i H) as [more Hm].
      assert (Hs : steps st [x] = Some s1) by (cbn [steps]; rewrite E1; reflexivity).
      destruct (steps_attrs_grow [x] st s1 Hs) as [m2 Hm2]. rewrite Hm2, rev_app_distr, <- app_assoc in Hm.
      exists (rev m2 ++ more). exact Hm.
Qed.

(* in particular: the inner attributes A written at the top of the program are attributes of the program that is finally
   compiled, whatever follows them — an include as the very first item, no signature — and whatever the sources hold *)
Theorem attr_include_keeps_inner_attributes srcs (A : list attr) rest fuel attrs sig items :
  (forall p, no_xinc (srcs p) = true) ->
  (count_xinc rest < fuel)%nat ->
  xexpand fuel srcs (map XAttr A ++ rest) = Some (OProg attrs sig items) ->
  exists more, attrs = A ++ more.
Proof.
  intros Hsrc Hf H.
  rewrite (attr_include_is_splice srcs _ fuel Hsrc) in H by (rewrite count_xinc_attrs; exact Hf).
  injection H as H. rewrite xpaste_app, xpaste_attrs in H. unfold parse_program, parse_when in H.
  rewrite (walk_app _ _ _ _ _ (no_xinc_attrs A)) in H.
  destruct (steps_attr_prefix A ps_init eq_refl) as [st1 [H1 [_ H3]]]. rewrite H1 in H. cbn in H3. rewrite app_nil_r in H3.
  destruct (walk_prog_attrs _ _ st1 attrs sig items H) as [more Hm]. rewrite H3, rev_involutive in Hm. exists more. exact Hm.
Qed.

(* ---------------------------------------------------------------- the shortcut variant (NOT the code) *)
Definition xk (n : nat) : xtok := XItem {| t_span := n; t_site := 0; t_sym := TOther n |}.
Definition xinc (p : nat) : xtok := XItem {| t_span := 0; t_site := 0; t_sym := TInc p |}.
Definition xsrc_of (l : list xtok) (p : nat) : list xtok := match p with O => l | _ => [] end.

(* about the variant only: taking `before` to be empty "when no signature, relation, rule or macro has been parsed yet"
   loses the inner attributes of a program whose first item is an include: the program is compiled with the default
   configuration (every relation an ordinary ::ascent::rel, no run_timeout, no rule times), the pasted text is not; the
   code as it is yields the pasted text's configuration on the same input *)
Lemma attr_shortcut_refuted :
  exists srcs ts, (forall p, no_xinc (srcs p) = true)
    /\ outcome_config false (xexpand_when true 5 srcs ts)
       = Some {| c_measure := false; c_timeout := false; c_inter := false; c_default_ds := 0 |}
    /\ outcome_config false (Some (parse_program (xpaste srcs ts)))
       = Some {| c_measure := true; c_timeout := true; c_inter := false; c_default_ds := 7 |}
    /\ outcome_config false (xexpand 5 srcs ts) = outcome_config false (Some (parse_program (xpaste srcs ts))).
Proof.
  exists (xsrc_of [xk 1; xk 2]), [XAttr (ADs 7); XAttr AMeasure; XAttr ATimeout; xinc 0; xk 3].
  split; [intros [|p]; reflexivity|]. repeat split; vm_compute; reflexivity.
Qed.

(* the shortcut is harmless exactly where the old path is taken: a signature or an item before the include *)
Example attr_shortcut_other_positions :
  xexpand_when true 5 (xsrc_of [xk 1; xk 2]) [XAttr (ADs 7); XSig 0; xinc 0; xk 3]
  = Some (OProg [ADs 7] [0] [{| t_span := 1; t_site := 0; t_sym := TOther 1 |}; {| t_span := 2; t_site := 0; t_sym := TOther 2 |}; {| t_span := 3; t_site := 0; t_sym := TOther 3 |}])
  /\ outcome_config false (xexpand_when true 5 (xsrc_of [xk 1; xk 2]) [XAttr (ADs 7); xk 3; xinc 0])
     = outcome_config false (Some (parse_program (xpaste (xsrc_of [xk 1; xk 2]) [XAttr (ADs 7); xk 3; xinc 0]))).
Proof. split; vm_compute; reflexivity. Qed.

(* non-vacuity: first-item include below three attributes, a second include later, a source that starts with an attribute *)
Example attr_include_example :
  xexpand 5 (fun p => match p with O => [xk 1] | _ => [xk 2] end) [XAttr (ADs 3); XAttr ATimeout; xinc 0; xk 9; xinc 1]
  = Some (OProg [ADs 3; ATimeout] [] [{| t_span := 1; t_site := 0; t_sym := TOther 1 |}; {| t_span := 9; t_site := 0; t_sym := TOther 9 |}; {| t_span := 2; t_site := 0; t_sym := TOther 2 |}])
  /\ xexpand 5 (xsrc_of [XAttr AMeasure; xk 1]) [XAttr (ADs 3); xinc 0] = Some (OProg [ADs 3; AMeasure] [] [{| t_span := 1; t_site := 0; t_sym := TOther 1 |}])
  /\ xexpand 5 (xsrc_of [XAttr AMeasure; xk 1]) [XAttr (ADs 3); XSig 0; xinc 0] = Some OError
  /\ config_of false [ADs 3; ADs 4] = None /\ config_of false [AInterRule] = None
  /\ config_of true [AInterRule; AMeasure] = Some {| c_measure := true; c_timeout := false; c_inter := true; c_default_ds := 0 |}.
Proof. repeat split; vm_compute; reflexivity. Qed.
