(* C09 — the run block of ascent_run! for programs with lattices: with the index build it is run(); without it a lattice
   gets a second row for a key its initialiser already holds *)
From Coq Require Import List ZArith Bool Arith.
From AV Require Import Engine.Core.
From AV Require Import Engine.Eval.
From AV Require Import LatEngine.LatSyntax.
From AV Require Import LatEngine.LatEval.
From AV Require Import LatEngine.LatVocab.
From AV Require Import Pack.PackLatModel.
Import ListNotations.
Open Scope Z_scope.

Section LatRun.
Context {V : Type}.
Variable I : linterp V.
Variable islat : rel -> bool.
Variable jm : rel -> V -> V -> V * bool.
Variable shuffle : nat -> list nat -> list nat.
Variable swap_oracle : nat -> list nat -> list nat -> bool.

Lemma lat_update_indices_indexed (R : rel -> list (vtuple V)) : lat_indexed (LatEval.update_indices R).
Proof. intros r. reflexivity. Qed.

(* ascent_run! = Default + run() = run() on exactly the initialisers' rows: ONE index build, then the SCCs *)
Theorem lat_init_is_input fuel pl (R : rel -> list (vtuple V)) :
  lat_ascent_run_code I islat jm shuffle swap_oracle fuel pl R = LatEval.run_plan I islat jm shuffle swap_oracle fuel pl R.
Proof. reflexivity. Qed.
End LatRun.

(* relation 0 = input(i32), 1 = lattice best(i32, i32) (join = max), write-only:
     input(1); input(2);   best(x, x) <-- input(x);
   run block: `_self.best = vec![(1, 6)];` — the only initialised relation is read by no rule body *)
Definition wl_lats : list (rel * nat) := [(1%nat, 0%nat)].
Definition wl_plan : plan :=
  [{| s_vars := [{| v_rule := 0%nat; v_heads := [(0%nat, [TConst 1])]; v_items := []; v_sj := None; v_reord := false |};
                 {| v_rule := 1%nat; v_heads := [(0%nat, [TConst 2])]; v_items := []; v_sj := None; v_reord := false |}];
      s_dyn := [0%nat]; s_loop := false |};
   {| s_vars := [{| v_rule := 2%nat; v_heads := [(1%nat, [TVar 0%nat; TVar 0%nat])]; v_items := [PClause 0%nat [TVar 0%nat] [] [] VTotal]; v_sj := None; v_reord := false |}];
      s_dyn := [1%nat]; s_loop := false |}].
Definition wl_rows : rel -> list (list Z) := fun r => if Nat.eqb r 1 then [[1; 6]] else [].
Definition wl_block (emit : bool) : option (list (list Z)) :=
  option_map (fun st => l_rows st 1%nat) (lat_run_block_when lv_interp (lv_islat wl_lats) (lv_jm wl_lats) lv_shuffle lv_swap emit 5 wl_plan wl_rows).

(* with the index build the derived (1, 1) joins into the initial row (1, 6) of key 1; without it the key index is empty,
   the row is not found and key 1 gets a second row *)
Lemma lat_index_build_needed :
  wl_block true = Some [[1; 6]; [2; 2]] /\ wl_block false = Some [[1; 6]; [1; 1]; [2; 2]].
Proof. vm_compute. split; reflexivity. Qed.

Lemma lat_without_index_build_refuted :
  exists rows, wl_block false = Some rows /\ ~ NoDup (map (@tkey Z) rows)
               /\ wl_block false <> option_map (fun st => l_rows st 1%nat) (LatEval.run_plan lv_interp (lv_islat wl_lats) (lv_jm wl_lats) lv_shuffle lv_swap 5 wl_plan wl_rows).
Proof.
  eexists. split; [vm_compute; reflexivity|]. split; [|vm_compute; discriminate].
  cbn. intros H. inversion H as [|x l Hnotin _]. apply Hnotin. left. reflexivity.
Qed.
