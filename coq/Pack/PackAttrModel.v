(* C09 — the include path of parse_ascent_program WITH the parse state it runs in (no proofs here).

   Pack/PackModel.v section 2 models the split `before / include / after` on a flat token list: `before` is a function of
   the position of the include alone.  The real function (ascent_macro/src/ascent_syntax.rs parse_ascent_program) reaches
   the include in the middle of a parse that has already consumed, in this order,
      1. the program-level INNER attributes  `#![ds(..)]  #![measure_rule_times]  #![generate_run_timeout]
         #![inter_rule_parallelism]`           (Attribute::parse_inner, into `attributes`),
      2. the optional struct / impl signature  (Signatures::parse, into `signatures`),
      3. the items before the include          (the item loop, into `relations` / `rules` / `macros`),
   and on the include path the parsed AscentProgram is thrown away: ONLY before_tokens / after_tokens reach the
   re-invocation  `path! { {macro}, {before}, {after} }`  =>  `macro! { before source after }`.  So everything parsed so
   far — the inner attributes included — has to be inside `before`.  The code achieves that by taking the cursor
   `input_clone` BEFORE step 1 and computing before_tokens = all tokens of input_clone minus the not yet consumed ones.

   This file makes the three sections and the parse state explicit, so that "what `before` contains" is a statement about
   the attributes / signature / items, and gives the attributes their meaning (AscentConfig::new, ascent_hir.rs). *)
From Coq Require Import List Arith Bool.
From AV Require Import Pack.PackModel.
Import ListNotations.

(* one inner attribute `#![..]` of the program; the provider of ds is a path, encoded as a number (0 = ::ascent::rel) *)
Inductive attr := ADs (provider : nat) | AMeasure | ATimeout | AInterRule | AUnknown (n : nat).

(* a top-level piece of the macro input.  XAttr: the three token trees `#` `!` `[..]` of one inner attribute;
   XSig: a token of the struct / impl signature (`pub struct Prog;`, `impl<T> Prog<T>;`);
   XItem: a token of the item section (Pack/PackModel.v tok: declarations, rules, macro definitions, TInc = include_source!(p);) *)
Inductive xtok := XAttr (a : attr) | XSig (n : nat) | XItem (t : tok).

Definition is_xinc (x : xtok) : bool := match x with XItem t => is_inc t | _ => false end.
Definition no_xinc (ts : list xtok) : bool := forallb (fun x => negb (is_xinc x)) ts.
Definition count_xinc (ts : list xtok) : nat := length (filter is_xinc ts).

(* the parse state: which section the parser is in and what it has collected (accumulators in reverse order) *)
Inductive phase := PhAttrs | PhSig | PhItems.
Record pstate := { ps_phase : phase; ps_attrs : list attr; ps_sig : list nat; ps_items : list tok }.
Definition ps_init : pstate := {| ps_phase := PhAttrs; ps_attrs := []; ps_sig := []; ps_items := [] |}.

(* consuming one piece that is not an include.  Attribute::parse_inner takes the maximal prefix of `#![..]`; an inner
   attribute anywhere later is a parse error (parse_outer meets `#` `!`), so is a signature token inside the item loop *)
Definition step (st : pstate) (x : xtok) : option pstate :=
  match x with
  | XAttr a => match ps_phase st with
               | PhAttrs => Some {| ps_phase := PhAttrs; ps_attrs := a :: ps_attrs st; ps_sig := ps_sig st; ps_items := ps_items st |}
               | _ => None
               end
  | XSig n => match ps_phase st with
              | PhItems => None
              | _ => Some {| ps_phase := PhSig; ps_attrs := ps_attrs st; ps_sig := n :: ps_sig st; ps_items := ps_items st |}
              end
  | XItem t => Some {| ps_phase := PhItems; ps_attrs := ps_attrs st; ps_sig := ps_sig st; ps_items := t :: ps_items st |}
  end.
Fixpoint steps (st : pstate) (ts : list xtok) : option pstate :=
  match ts with [] => Some st | x :: rest => match step st x with Some st' => steps st' rest | None => None end end.

(* Result<Either<AscentProgram, IncludeSourceMacroCall>> *)
Inductive outcome :=
| OProg (attributes : list attr) (signature : list nat) (items : list tok)      (* Either::Left *)
| OInclude (path : nat) (before after : list xtok)                               (* Either::Right *)
| OError.

(* `signatures.is_none() && relations.is_empty() && rules.is_empty() && macros.is_empty()`: a test a shortcut might use
   for "nothing to carry over" — it forgets `attributes` *)
Definition nothing_parsed_but_attrs (st : pstate) : bool :=
  match ps_sig st, ps_items st with [], [] => true | _, _ => false end.

(* the walk over the input.  `all` = input_clone.token_stream(), the whole input INCLUDING the inner attributes;
   at an include: remaining_count = length ts (the include node is not consumed yet),
   before_tokens = all.dropping_back(remaining_count), after_tokens = what follows the include node.
   shortcut = false is the code.  shortcut = true is NOT the code: the variant "when nothing but attributes has been
   parsed there is nothing to carry over" (Pack/PackAttrProofs.v refutes it: the attributes are lost) *)
Fixpoint walk (shortcut : bool) (all : list xtok) (st : pstate) (ts : list xtok) : outcome :=
  match ts with
  | [] => OProg (rev (ps_attrs st)) (rev (ps_sig st)) (rev (ps_items st))
  | x :: rest =>
      match x with
      | XItem t => match t_sym t with
                   | TInc p => OInclude p (if shortcut && nothing_parsed_but_attrs st then [] else dropping_back all (length ts)) rest
                   | _ => match step st x with Some st' => walk shortcut all st' rest | None => OError end
                   end
      | _ => match step st x with Some st' => walk shortcut all st' rest | None => OError end
      end
  end.
Definition parse_when (shortcut : bool) (ts : list xtok) : outcome := walk shortcut ts ps_init ts.
(* parse_ascent_program as it is *)
Definition parse_program (ts : list xtok) : outcome := parse_when false ts.

(* the chain of macro invocations: an include re-invokes the macro on before ++ source ++ after; anything else ends it *)
Fixpoint xexpand_when (shortcut : bool) (fuel : nat) (srcs : nat -> list xtok) (ts : list xtok) : option outcome :=
  match fuel with
  | O => None
  | S n => match parse_when shortcut ts with
           | OInclude p before after => xexpand_when shortcut n srcs (before ++ srcs p ++ after)
           | o => Some o
           end
  end.
Definition xexpand := xexpand_when false.

(* specification: the text of the source pasted in place of every include *)
Definition xpaste (srcs : nat -> list xtok) (ts : list xtok) : list xtok :=
  flat_map (fun x => match x with
                     | XItem t => match t_sym t with TInc p => srcs p | _ => [x] end
                     | _ => [x]
                     end) ts.

(* ---------------------------------------------------------------- what the attributes mean: AscentConfig::new *)
Record config := { c_measure : bool;            (* include_rule_times: ruleI_J_duration fields, per-rule part of scc_times_summary() *)
                   c_timeout : bool;            (* generate_run_partial: run_timeout exists (ascent! / ascent_par!) *)
                   c_inter : bool;              (* inter_rule_parallelism *)
                   c_default_ds : nat }.        (* provider of every relation without its own #[ds(..)]; 0 = ::ascent::rel *)
Definition is_measure (a : attr) : bool := match a with AMeasure => true | _ => false end.
Definition is_timeout (a : attr) : bool := match a with ATimeout => true | _ => false end.
Definition is_inter (a : attr) : bool := match a with AInterRule => true | _ => false end.
Definition is_unknown (a : attr) : bool := match a with AUnknown _ => true | _ => false end.
Definition ds_of (a : attr) : list nat := match a with ADs p => [p] | _ => [] end.
(* None = compile error ("unrecognized attribute", "attribute only allowed in parallel Ascent", "multiple `ds` attributes specified") *)
Definition config_of (is_parallel : bool) (attrs : list attr) : option config :=
  if existsb is_unknown attrs then None
  else if existsb is_inter attrs && negb is_parallel then None
  else match flat_map ds_of attrs with
       | [] => Some {| c_measure := existsb is_measure attrs; c_timeout := existsb is_timeout attrs; c_inter := existsb is_inter attrs; c_default_ds := 0 |}
       | [p] => Some {| c_measure := existsb is_measure attrs; c_timeout := existsb is_timeout attrs; c_inter := existsb is_inter attrs; c_default_ds := p |}
       | _ => None
       end.
(* the configuration the program is finally compiled with (None: the chain did not end / ended in an error) *)
Definition outcome_config (is_parallel : bool) (o : option outcome) : option config :=
  match o with Some (OProg attrs _ _) => config_of is_parallel attrs | _ => None end.
(* compile_ascent_program_to_hir: the provider of a non-lattice relation = its own #[ds(..)] or the default of the program *)
Definition relation_provider (c : config) (own : option nat) : nat := match own with Some p => p | None => c_default_ds c end.
