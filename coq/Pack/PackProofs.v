(* C09 — proofs about the packaging models of Pack/PackModel.v *)
From Coq Require Import List ZArith Bool Arith Lia.
From AV Require Import Engine.Core.
From AV Require Import Engine.Sem.
From AV Require Import Engine.Eval.
From AV Require Import Engine.Validate.
From AV Require Import Engine.Naive.
From AV Require Import Engine.Interface.
From AV Require Import Engine.Main.
From AV Require Import Engine.Timeout.
From AV Require Import Engine.Vocab.
From AV Require Import Engine.Examples.
From AV Require Import Pack.PackModel.
Import ListNotations.
Open Scope Z_scope.

(* ================================================================== 1. re-declarations *)

Section Dedup.
Context {A : Type}.
Variable cmp : A -> A -> bool.
Variable p : A -> bool.                       (* a class of elements, e.g. "is named n" *)
Variable U : list A.
(* within U, the members of the class are pairwise identified by cmp, and cmp never relates a member to a non-member *)
Hypothesis class_cmp : forall a b, In a U -> In b U -> p a = true -> p b = true -> cmp a b = true.
Hypothesis cmp_class : forall a b, In a U -> In b U -> cmp a b = true -> p a = p b.

Lemma dedup_rev_incl kept r : incl kept U -> incl r U -> incl (dedup_rev cmp kept r) U.
Proof.
  revert kept. induction r as [|y rest IH]; intros kept Hk Hr; cbn [dedup_rev]; [exact Hk|].
  assert (incl rest U) as Hrest by (intros a Ha; apply Hr; right; exact Ha).
  destruct (existsb (fun x => cmp y x) kept); apply IH; try assumption.
  intros a [<-|Ha]; [apply Hr; left; reflexivity | apply Hk; exact Ha].
Qed.

Lemma dedup_rev_class kept r : incl kept U -> incl r U ->
  (forall z, filter p kept = [z] -> filter p (dedup_rev cmp kept r) = [z])
  /\ (filter p kept = [] -> filter p (dedup_rev cmp kept r) = match find p r with Some z => [z] | None => [] end).
Proof.
  revert kept. induction r as [|y rest IH]; intros kept Hk Hr.
  - cbn. split; [intros z H; exact H | intros H; exact H].
  - assert (incl rest U) as Hrest by (intros a Ha; apply Hr; right; exact Ha).
    assert (In y U) as Hy by (apply Hr; left; reflexivity).
    assert (incl (y :: kept) U) as Hk' by (intros a [<-|Ha]; [exact Hy | apply Hk; exact Ha]).
    cbn [dedup_rev find]. split.
    + intros z Hz.
      destruct (p y) eqn:Py.
      * (* a later member exists among the kept ones: y is deleted *)
        assert (In z kept /\ p z = true) as [Zin Pz].
        { apply filter_In. rewrite Hz. left. reflexivity. }
        assert (existsb (fun x => cmp y x) kept = true) as E.
        { apply existsb_exists. exists z. split; [exact Zin|]. apply class_cmp; auto. }
        rewrite E. apply (proj1 (IH kept Hk Hrest)). exact Hz.
      * destruct (existsb (fun x => cmp y x) kept).
        -- apply (proj1 (IH kept Hk Hrest)). exact Hz.
        -- apply (proj1 (IH (y :: kept) Hk' Hrest)). cbn [filter]. rewrite Py. exact Hz.
    + intros Hnil.
      destruct (p y) eqn:Py.
      * assert (existsb (fun x => cmp y x) kept = false) as E.
        { destruct (existsb (fun x => cmp y x) kept) eqn:E; [|reflexivity]. exfalso.
          apply existsb_exists in E as [x [Xin Cx]].
          assert (p x = true) as Px by (rewrite <- (cmp_class y x Hy (Hk x Xin) Cx); exact Py).
          assert (In x (filter p kept)) as F by (apply filter_In; split; assumption).
          rewrite Hnil in F. destruct F. }
        rewrite E. apply (proj1 (IH (y :: kept) Hk' Hrest)). cbn [filter]. rewrite Py, Hnil. reflexivity.
      * destruct (existsb (fun x => cmp y x) kept).
        -- apply (proj2 (IH kept Hk Hrest)). exact Hnil.
        -- apply (proj2 (IH (y :: kept) Hk' Hrest)). cbn [filter]. rewrite Py. exact Hnil.
Qed.
End Dedup.

(* what survives is a part of the vector *)
Lemma dedup_incl {A} (cmp : A -> A -> bool) l : incl (dedup_all_keep_last_by cmp l) l.
Proof.
  unfold dedup_all_keep_last_by. apply dedup_rev_incl; [intros a [] | intros a Ha; apply in_rev; exact Ha].
Qed.

(* of a class identified by cmp exactly one element survives: the LAST one of the vector *)
Theorem dedup_keeps_last_of_class {A} (cmp : A -> A -> bool) (p : A -> bool) (l : list A) :
  (forall a b, In a l -> In b l -> p a = true -> p b = true -> cmp a b = true) ->
  (forall a b, In a l -> In b l -> cmp a b = true -> p a = p b) ->
  filter p (dedup_all_keep_last_by cmp l) = match find p (rev l) with Some z => [z] | None => [] end.
Proof.
  intros H1 H2. unfold dedup_all_keep_last_by.
  apply (proj2 (dedup_rev_class cmp p l H1 H2 [] (rev l) (fun a (F : In a []) => match F with end)
                                (fun a Ha => proj2 (in_rev l a) Ha))).
  reflexivity.
Qed.

(* for an equivalence: of the elements equivalent to x only the last survives *)
Corollary dedup_equivalence_keeps_last {A} (cmp : A -> A -> bool) (l : list A) (x : A) :
  (forall a b, cmp a b = true -> cmp b a = true) ->
  (forall a b c, cmp a b = true -> cmp b c = true -> cmp a c = true) ->
  filter (cmp x) (dedup_all_keep_last_by cmp l) = match find (cmp x) (rev l) with Some z => [z] | None => [] end.
Proof.
  intros Hsym Htr. apply dedup_keeps_last_of_class.
  - intros a b _ _ Ha Hb. apply (Htr a x b); [apply Hsym; exact Ha | exact Hb].
  - intros a b _ _ Hab. destruct (cmp x a) eqn:Ea, (cmp x b) eqn:Eb; try reflexivity.
    + rewrite <- Eb. symmetry. apply (Htr x a b); assumption.
    + rewrite <- Ea. apply (Htr x b a); [exact Eb | apply Hsym; exact Hab].
Qed.

(* the property: if every declaration of name n has the same column types, then the struct gets exactly one
   field for n, generated from the LAST declaration — the one every rule resolves the name to —, so its
   initialiser (or its absence) is the one that counts *)
Theorem redecl_last_wins ds n z :
  (forall a b, In a ds -> In b ds -> d_name a = n -> d_name b = n -> d_sig a = d_sig b) ->
  prog_get_relation n ds = Some z ->
  fields_named n ds = [z].
Proof.
  intros Hsig Hget. unfold fields_named, hir_relations.
  rewrite (dedup_keeps_last_of_class same_identity (fun d => Nat.eqb (d_name d) n) ds).
  - unfold prog_get_relation in Hget. rewrite Hget. reflexivity.
  - intros a b Ha Hb Na Nb. apply Nat.eqb_eq in Na, Nb. unfold same_identity.
    rewrite Na, Nb, Nat.eqb_refl. cbn. apply Nat.eqb_eq. apply Hsig; assumption.
  - intros a b _ _ Hab. unfold same_identity in Hab. apply andb_prop in Hab as [Hn _].
    apply Nat.eqb_eq in Hn. rewrite Hn. reflexivity.
Qed.

(* the initialiser of the LAST declaration, or none if the last declaration is bare — whatever earlier declarations said *)
Corollary redecl_last_initialiser ds n z :
  (forall a b, In a ds -> In b ds -> d_name a = n -> d_name b = n -> d_sig a = d_sig b) ->
  prog_get_relation n ds = Some z ->
  initialisers_emitted n ds = match d_init z with Some e => [e] | None => [] end.
Proof.
  intros Hsig Hget. unfold initialisers_emitted. rewrite (redecl_last_wins ds n z Hsig Hget). cbn. apply app_nil_r.
Qed.

Lemma redecl_undeclared ds n : prog_get_relation n ds = None -> fields_named n ds = [].
Proof.
  intros Hget. unfold fields_named.
  destruct (filter (fun d => Nat.eqb (d_name d) n) (hir_relations ds)) as [|d rest] eqn:E; [reflexivity|exfalso].
  assert (In d (filter (fun d => Nat.eqb (d_name d) n) (hir_relations ds))) as Hin by (rewrite E; left; reflexivity).
  apply filter_In in Hin as [Hin Hn]. apply dedup_incl in Hin.
  unfold prog_get_relation in Hget. apply -> in_rev in Hin. pose proof (find_none _ _ Hget d Hin) as Hf. cbn beta in Hf.
  rewrite Hn in Hf. discriminate.
Qed.

(* ================================================================== 2. include_source! *)

Definition no_inc (ts : list tok) : bool := forallb (fun t => negb (is_inc t)) ts.

Lemma scan_no_inc all ts : no_inc ts = true -> scan all ts = None.
Proof.
  induction ts as [|t rest IH]; intros H; [reflexivity|]. cbn in H. apply andb_prop in H as [Ht Hr].
  cbn [scan]. unfold is_inc in Ht. destruct (t_sym t); [discriminate| |]; apply IH; exact Hr.
Qed.

Lemma scan_app all done ts : no_inc done = true -> scan all (done ++ ts) = scan all ts.
Proof.
  induction done as [|t rest IH]; intros H; [reflexivity|]. cbn in H. apply andb_prop in H as [Ht Hr].
  cbn [app scan]. unfold is_inc in Ht. destruct (t_sym t); [discriminate| |]; apply IH; exact Hr.
Qed.

(* the positional split: dropping the not yet consumed token trees from the back leaves exactly the consumed ones *)
Lemma dropping_back_app {A} (pre post : list A) : dropping_back (pre ++ post) (length post) = pre.
Proof.
  unfold dropping_back. rewrite app_length, Nat.add_sub. rewrite firstn_app, firstn_all, Nat.sub_diag. cbn. apply app_nil_r.
Qed.

Lemma no_inc_app a b : no_inc (a ++ b) = no_inc a && no_inc b.
Proof. unfold no_inc. apply forallb_app. Qed.

Lemma count_includes_cons t ts : count_includes (t :: ts) = (if is_inc t then S (count_includes ts) else count_includes ts).
Proof. unfold count_includes. cbn [filter]. destruct (is_inc t); reflexivity. Qed.

Lemma expand_paste_gen srcs : (forall p, no_inc (srcs p) = true) ->
  forall ts done fuel, no_inc done = true -> (count_includes ts < fuel)%nat ->
  expand fuel srcs (done ++ ts) = Some (done ++ paste srcs ts).
Proof.
  intros Hsrc. induction ts as [|t rest IH]; intros done fuel Hdone Hfuel.
  - destruct fuel as [|f]; [cbn in Hfuel; lia|]. cbn [expand]. unfold reinvoke, include_call.
    rewrite app_nil_r. rewrite (scan_no_inc _ _ Hdone). cbn. rewrite app_nil_r. reflexivity.
  - rewrite count_includes_cons in Hfuel. unfold is_inc in Hfuel.
    destruct (t_sym t) as [p|x|n] eqn:Et.
    + (* the first include of the stream *)
      destruct fuel as [|f]; [lia|]. cbn [expand]. unfold reinvoke, include_call.
      rewrite (scan_app _ _ _ Hdone). cbn [scan]. rewrite Et.
      rewrite (dropping_back_app done (t :: rest)).
      replace (done ++ srcs p ++ rest) with ((done ++ srcs p) ++ rest) by (rewrite app_assoc; reflexivity).
      rewrite (IH (done ++ srcs p) f).
      * unfold paste. cbn [flat_map]. rewrite Et. rewrite <- !app_assoc. reflexivity.
      * rewrite no_inc_app, Hdone, Hsrc. reflexivity.
      * lia.
    + replace (done ++ t :: rest) with ((done ++ [t]) ++ rest) by (rewrite <- app_assoc; reflexivity).
      rewrite (IH (done ++ [t]) fuel).
      * unfold paste. cbn [flat_map]. rewrite Et. rewrite <- !app_assoc. reflexivity.
      * rewrite no_inc_app, Hdone. unfold no_inc, is_inc. cbn. rewrite Et. reflexivity.
      * exact Hfuel.
    + replace (done ++ t :: rest) with ((done ++ [t]) ++ rest) by (rewrite <- app_assoc; reflexivity).
      rewrite (IH (done ++ [t]) fuel).
      * unfold paste. cbn [flat_map]. rewrite Et. rewrite <- !app_assoc. reflexivity.
      * rewrite no_inc_app, Hdone. unfold no_inc, is_inc. cbn. rewrite Et. reflexivity.
      * exact Hfuel.
Qed.

(* for every token list — whatever its spans —, includes at any position, any number of them, empty sources, adjacent
   includes: the chain of macro invocations ends, after one invocation per include, on exactly the pasted text *)
Theorem include_is_splice srcs ts fuel :
  (forall p, no_inc (srcs p) = true) ->            (* ascent_source_impl rejects include_source! inside a source *)
  (count_includes ts < fuel)%nat ->
  expand fuel srcs ts = Some (paste srcs ts).
Proof. intros Hsrc Hf. exact (expand_paste_gen srcs Hsrc ts [] fuel eq_refl Hf). Qed.

Definition tk (sp : nat) (s : sym) : tok := {| t_span := sp; t_site := 0; t_sym := s |}.
Definition src_of (l : list tok) (p : nat) : list tok := match p with O => l | _ => [] end.

(* the defect repaired by /repo commit 9a74b6c, stated about the OLD span-based split: when all tokens print one span
   (a program produced by another procedural macro with quote!) the tokens before the include were lost; the current
   split gives the pasted text on the same input *)
Lemma include_old_split_refuted_equal_spans :
  exists srcs ts r, (forall p, no_inc (srcs p) = true)
                    /\ expand_old 5 srcs ts = Some r /\ r <> paste srcs ts /\ r = srcs O ++ [tk 0 (TOther 3)]
                    /\ expand 5 srcs ts = Some (paste srcs ts).
Proof.
  exists (src_of [{| t_span := 7; t_site := 1; t_sym := TOther 9 |}]),
         [tk 0 (TOther 1); tk 0 (TOther 2); tk 0 (TInc 0); tk 0 (TOther 3)].
  eexists. split; [intros [|p]; reflexivity|].
  split; [vm_compute; reflexivity|]. split; [vm_compute; discriminate|]. split; [reflexivity | vm_compute; reflexivity].
Qed.

(* hygiene: the tokens of a source keep the site of the generated macro_rules body, so a local variable captured by
   ascent_run! is visible to the pasted text but not to the included source *)
Lemma include_hygiene_refuted :
  exists srcs ts r, (forall p, no_inc (srcs p) = true)
                    /\ locals_resolve (map at_call_site (paste srcs ts)) = true
                    /\ expand 5 srcs ts = Some r /\ locals_resolve r = false.
Proof.
  exists (src_of [{| t_span := 7; t_site := 1; t_sym := TOther 9 |}; {| t_span := 8; t_site := 1; t_sym := TLocal 0 |}]),
         [tk 1 (TOther 1); tk 2 (TInc 0); tk 3 (TOther 3)].
  eexists. split; [intros [|p]; reflexivity|]. repeat split; vm_compute; reflexivity.
Qed.

Definition no_local (ts : list tok) : bool := forallb (fun t => match t_sym t with TLocal _ => false | _ => true end) ts.

(* sources that mention no captured local are transparent for name resolution as well *)
Lemma include_hygiene_ok srcs ts : (forall p, no_local (srcs p) = true) -> locals_resolve ts = true -> locals_resolve (paste srcs ts) = true.
Proof.
  intros Hs. induction ts as [|t rest IH]; intros H; [reflexivity|].
  cbn in H. apply andb_prop in H as [Ht Hr]. unfold paste. cbn [flat_map]. unfold locals_resolve. rewrite forallb_app.
  apply andb_true_intro. split; [|apply IH; exact Hr].
  destruct (t_sym t) eqn:Et.
  - specialize (Hs path). unfold no_local in Hs. rewrite forallb_forall in Hs. apply forallb_forall. intros u Hu.
    specialize (Hs u Hu). destruct (t_sym u); [reflexivity|discriminate|reflexivity].
  - cbn. rewrite Et. rewrite Ht. reflexivity.
  - cbn. rewrite Et. reflexivity.
Qed.

(* ================================================================== 3. initialisers *)

Section Run.
Variable I : interp.
Variable swap : list tuple -> list tuple -> bool.

Lemma rows_default_value inits : rows (default_value inits) = assign_inits inits.
Proof. unfold default_value, default_value_when. destruct inits; reflexivity. Qed.

(* after the assignments alone the precondition of the SCC code does NOT hold (unless nothing was assigned) ... *)
Lemma assigned_not_indexed inits : assign_inits inits <> [] -> ~ indexed (assigned inits).
Proof. intros Hne Hi. unfold indexed, assigned in Hi. cbn in Hi. apply Hne. symmetry. exact Hi. Qed.

(* ... the index build establishes it ... *)
Lemma update_indices_indexed st : indexed (update_indices st).
Proof. reflexivity. Qed.

(* ... and the block as generated (index build iff there is an initialiser) always reaches the SCCs with it *)
Lemma index_build_establishes_precondition inits : indexed (default_value inits) /\ rows (default_value inits) = assign_inits inits.
Proof. split; [|apply rows_default_value]. unfold indexed, default_value, default_value_when. destruct inits; reflexivity. Qed.

(* from an indexed value, entering the SCCs directly is run() (whose own index build changes nothing) *)
Lemma run_sccs_indexed fuel pl st : indexed st -> run_sccs I swap fuel pl st = run_plan I swap fuel pl st.
Proof.
  intros H. unfold run_plan, update_indices. destruct st as [r s]. unfold indexed in H. cbn [rows stored] in *. subst s. reflexivity.
Qed.

(* ascent_run!: assigning the initialisers, indexing once and running the SCCs is run() on that input.  The proof goes
   through the precondition: ascent_run_code has no second index build *)
Theorem init_is_input fuel pl inits :
  ascent_run_code I swap fuel pl inits = run_plan I swap fuel pl (init_state (assign_inits inits)).
Proof.
  unfold ascent_run_code. destruct (index_build_establishes_precondition inits) as [Hi Hr].
  rewrite (run_sccs_indexed fuel pl _ Hi). rewrite run_plan_rows_only, Hr. reflexivity.
Qed.

(* the block with the index build as a switch: it is run() on the initialisers' tuples when the statement is generated,
   or when there is nothing to index *)
Theorem run_block_when_correct emit fuel pl inits :
  emit = true \/ assign_inits inits = [] ->
  run_block_when I swap emit fuel pl inits = run_plan I swap fuel pl (init_state (assign_inits inits)).
Proof.
  intros [->|E]; [reflexivity|]. destruct emit; [reflexivity|].
  unfold run_block_when, default_value_when, assigned, run_plan, update_indices, init_state. cbn [rows stored]. rewrite E. reflexivity.
Qed.

(* ascent!: Default::default() evaluates the initialisers; run() indexes the rows again from scratch *)
Theorem default_then_run_is_input fuel pl inits :
  default_then_run I swap fuel pl inits = run_plan I swap fuel pl (init_state (assign_inits inits)).
Proof. unfold default_then_run. rewrite run_plan_rows_only, rows_default_value. reflexivity. Qed.

Corollary ascent_run_equals_struct_run fuel pl inits :
  ascent_run_code I swap fuel pl inits = default_then_run I swap fuel pl inits.
Proof. rewrite init_is_input, default_then_run_is_input. reflexivity. Qed.

(* with the engine theorem: an ascent_run! program computes the least model over exactly the initialisers' tuples *)
Theorem ascent_run_least_model arities P pl fuel inits st :
  arities_functional arities -> wf_facts arities (assign_inits inits) = true -> no_agg P = true ->
  validate arities P pl = true ->
  ascent_run_code I swap fuel pl inits = Some st ->
  least_model I P (assign_inits inits) (rows st)
  /\ exists added, rows st = assign_inits inits ++ added /\ NoDup added /\ (forall f, In f added -> ~ In f (assign_inits inits)).
Proof.
  intros Har Hwf Hna Hval Hrun. rewrite init_is_input in Hrun.
  exact (run_plan_correct_full I swap arities P pl fuel (assign_inits inits) st Har Hwf Hna Hval Hrun).
Qed.

(* ================================================================== 4. run = run_timeout(Duration::MAX) *)

Section NoDeadline.
Variable deadline : nat -> bool.
Hypothesis never : forall k, deadline k = false.

Lemma scc_loop_t_never fuel sc S T D R k :
  match scc_loop I swap fuel sc S T D R with
  | Some (T', R') => exists k', scc_loop_t I swap deadline fuel sc S T D R k = Some (inl (T', R', k'))
  | None => scc_loop_t I swap deadline fuel sc S T D R k = None
  end.
Proof.
  revert T D R k. induction fuel as [|n IH]; intros T D R k; [reflexivity|].
  cbn [scc_loop scc_loop_t]. destruct (scc_iteration I swap sc S T D R) as [N R'].
  destruct N as [|f N]; [exists k; reflexivity|]. rewrite never. apply IH.
Qed.

Lemma run_scc_t_never fuel sc st k :
  match run_scc I swap fuel sc st with
  | Some st' => exists k', run_scc_t I swap deadline fuel sc st k = TDone st' k'
  | None => run_scc_t I swap deadline fuel sc st k = TFuel
  end.
Proof.
  unfold run_scc, run_scc_t. destruct (s_loop sc).
  - pose proof (scc_loop_t_never fuel sc (filter (fun f => negb (fact_dyn (s_dyn sc) f)) (stored st)) []
                                 (filter (fact_dyn (s_dyn sc)) (stored st)) (rows st) k) as H.
    destruct (scc_loop I swap fuel sc _ [] _ (rows st)) as [[T R]|].
    + destruct H as [k' H]. rewrite H. exists k'. reflexivity.
    + rewrite H. reflexivity.
  - destruct (scc_iteration I swap sc _ [] _ (rows st)) as [N R]. rewrite never. eexists. reflexivity.
Qed.

Lemma run_sccs_t_never fuel pl : forall st k,
  run_sccs_t I swap deadline fuel pl st k = option_map (fun s => (true, s)) (run_sccs I swap fuel pl st).
Proof.
  induction pl as [|sc pl IH]; intros st k; [reflexivity|]. cbn [run_sccs_t run_sccs].
  pose proof (run_scc_t_never fuel sc st k) as H. destruct (run_scc I swap fuel sc st) as [st'|].
  - destruct H as [k' H]. rewrite H. apply IH.
  - rewrite H. reflexivity.
Qed.

Lemma run_timeout_never fuel pl st :
  run_timeout I swap deadline fuel pl st = option_map (fun s => (true, s)) (run_plan I swap fuel pl st).
Proof. unfold run_timeout, run_plan. apply run_sccs_t_never. Qed.
End NoDeadline.

Lemma guard_max elapsed : guard DURATION_MAX elapsed = false.
Proof. unfold guard. rewrite Z.ltb_irrefl. reflexivity. Qed.

(* whatever the clock reads, run_timeout(Duration::MAX) returns true and leaves the program value run() leaves *)
Theorem run_is_timeout_max clock fuel pl st :
  run_timeout_code I swap clock fuel pl DURATION_MAX st = option_map (fun s => (true, s)) (run_plan I swap fuel pl st).
Proof. unfold run_timeout_code. apply run_timeout_never. intros k. apply guard_max. Qed.

Corollary run_via_timeout_is_run clock fuel pl st : run_via_timeout I swap clock fuel pl st = run_plan I swap fuel pl st.
Proof. unfold run_via_timeout. rewrite run_is_timeout_max. destruct (run_plan I swap fuel pl st); reflexivity. Qed.

(* ================================================================== 5. timing instrumentation is inert *)

Variable now : nat -> Z.

Lemma timed_fold measure segment i cont T D vs : forall N R tm j,
  (let '(N', R', _, _) := fold_left (timed_rule I swap now measure segment i cont T D) vs (N, R, tm, j) in (N', R'))
  = fold_left (fun acc v => fold_left (head_update T D) (eval_variant I swap cont v) acc) vs (N, R).
Proof.
  induction vs as [|v vs IH]; intros N R tm j; [reflexivity|]. cbn [fold_left].
  unfold timed_rule at 2.
  destruct (if measure then tick now tm else (0, tm)) as [t0 tm1].
  assert ((if segment then @run_rule_segment (list fact * list fact) else @run_rule_inline (list fact * list fact))
            (fun _ => fold_left (head_update T D) (eval_variant I swap cont v) (N, R))
          = fold_left (head_update T D) (eval_variant I swap cont v) (N, R)) as E by (destruct segment; reflexivity).
  rewrite E. destruct (fold_left (head_update T D) (eval_variant I swap cont v) (N, R)) as [N' R'].
  apply IH.
Qed.

Lemma scc_iteration_timed_proj measure segment i sc S T D R tm :
  (let '(N, R', _) := scc_iteration_timed I swap now measure segment i sc S T D R tm in (N, R')) = scc_iteration I swap sc S T D R.
Proof.
  unfold scc_iteration_timed, scc_iteration.
  pose proof (timed_fold measure segment i (contents S T D (s_dyn sc)) T D (s_vars sc) [] R tm O) as H.
  destruct (fold_left (timed_rule I swap now measure segment i (contents S T D (s_dyn sc)) T D) (s_vars sc) ([], R, tm, O)) as [[[N R'] tm'] j].
  exact H.
Qed.

Lemma scc_loop_timed_proj measure segment i fuel sc S : forall T D R tm,
  option_map (fun x => let '(T', R', _) := x in (T', R')) (scc_loop_timed I swap now measure segment i fuel sc S T D R tm)
  = scc_loop I swap fuel sc S T D R.
Proof.
  induction fuel as [|n IH]; intros T D R tm; [reflexivity|]. cbn [scc_loop_timed scc_loop].
  pose proof (scc_iteration_timed_proj measure segment i sc S T D R tm) as H.
  destruct (scc_iteration_timed I swap now measure segment i sc S T D R tm) as [[N R'] tm'].
  rewrite <- H. destruct N as [|f N]; [reflexivity|]. apply IH.
Qed.

Lemma run_scc_timed_proj measure segment i fuel sc st tm :
  option_map fst (run_scc_timed I swap now measure segment i fuel sc st tm) = run_scc I swap fuel sc st.
Proof.
  unfold run_scc_timed, run_scc. destruct (tick now tm) as [t0 tm0].
  destruct (s_loop sc).
  - pose proof (scc_loop_timed_proj measure segment i fuel sc (filter (fun f => negb (fact_dyn (s_dyn sc) f)) (stored st)) []
                                    (filter (fact_dyn (s_dyn sc)) (stored st)) (rows st) tm0) as H.
    destruct (scc_loop_timed I swap now measure segment i fuel sc _ [] _ (rows st) tm0) as [[[T R] tm']|]; rewrite <- H; cbn [option_map].
    + destruct (tick now tm') as [t1 tm'']. reflexivity.
    + reflexivity.
  - pose proof (scc_iteration_timed_proj measure segment i sc (filter (fun f => negb (fact_dyn (s_dyn sc) f)) (stored st)) []
                                         (filter (fact_dyn (s_dyn sc)) (stored st)) (rows st) tm0) as H.
    destruct (scc_iteration_timed I swap now measure segment i sc _ [] _ (rows st) tm0) as [[N R] tm'].
    rewrite <- H. destruct (tick now tm') as [t1 tm'']. reflexivity.
Qed.

Lemma run_sccs_timed_proj measure segment fuel pl : forall i st tm,
  option_map fst (run_sccs_timed I swap now measure segment i fuel pl st tm) = run_sccs I swap fuel pl st.
Proof.
  induction pl as [|sc pl IH]; intros i st tm; [reflexivity|]. cbn [run_sccs_timed run_sccs].
  pose proof (run_scc_timed_proj measure segment i fuel sc st tm) as H.
  destruct (run_scc_timed I swap now measure segment i fuel sc st tm) as [[st' tm']|]; rewrite <- H; cbn [option_map fst].
  - apply IH.
  - reflexivity.
Qed.

(* for every clock, with and without #![measure_rule_times], with and without segment-codegen: the relations (rows and
   stored indices) after run() are those of the uninstrumented run; the instrumentation neither makes a terminating
   run fail nor the converse *)
Theorem timing_flags_inert measure segment fuel pl st tm :
  option_map fst (run_plan_timed I swap now measure segment fuel pl st tm) = run_plan I swap fuel pl st.
Proof. unfold run_plan_timed, run_plan. apply run_sccs_timed_proj. Qed.
End Run.

(* ================================================================== 3b. the index build cannot be left out *)

(* relation 0 = input, 1 = seen (write-only: no rule body reads it);   input(1);   seen(x) <-- input(x);
   run block: `_self.seen = vec![(1,)];`  — the only initialised relation is read by no rule *)
Definition wo_plan : plan :=
  [{| s_vars := [{| v_rule := 0%nat; v_heads := [(0%nat, [TConst 1])]; v_items := []; v_sj := None; v_reord := false |}];
      s_dyn := [0%nat]; s_loop := false |};
   {| s_vars := [{| v_rule := 1%nat; v_heads := [(1%nat, [TVar 0%nat])]; v_items := [PClause 0%nat [TVar 0%nat] [] [] VTotal]; v_sj := None; v_reord := false |}];
      s_dyn := [1%nat]; s_loop := false |}].
Definition wo_inits : list (rel * list tuple) := [(1%nat, [[1]])].

(* with the index build: seen keeps its single row.  Without it the head update does not find the initial row and pushes
   the derived (1,) a second time *)
Lemma wo_example :
  option_map rows (run_block_when std_interp std_swap true 5 wo_plan wo_inits) = Some [(1%nat, [1]); (0%nat, [1])]
  /\ option_map rows (run_block_when std_interp std_swap false 5 wo_plan wo_inits) = Some [(1%nat, [1]); (0%nat, [1]); (1%nat, [1])]
  /\ option_map rows (ascent_run_code std_interp std_swap 5 wo_plan wo_inits) = Some [(1%nat, [1]); (0%nat, [1])].
Proof. vm_compute. repeat split. Qed.

(* NECESSITY: no run block that omits the index build satisfies the statement of init_is_input for all programs *)
Theorem index_build_needed (emit : bool) :
  (forall fuel pl inits, run_block_when std_interp std_swap emit fuel pl inits
                         = run_plan std_interp std_swap fuel pl (init_state (assign_inits inits))) ->
  emit = true.
Proof.
  destruct emit; intros H; [reflexivity|]. specialize (H 5%nat wo_plan wo_inits). vm_compute in H. discriminate H.
Qed.

(* the narrower condition "generate the index build only when some rule body reads an initialised relation" is refuted:
   on a program whose initialised relations are write-only it omits the build, the result is not run() on the initialisers'
   tuples, and a row is held twice *)
Lemma index_build_only_if_read_refuted :
  exists pl inits st,
    some_initialised_read pl inits = false
    /\ run_block_when std_interp std_swap (some_initialised_read pl inits) 5 pl inits = Some st
    /\ ~ NoDup (rows st)
    /\ run_plan std_interp std_swap 5 pl (init_state (assign_inits inits)) <> Some st
    /\ ascent_run_code std_interp std_swap 5 pl inits = run_plan std_interp std_swap 5 pl (init_state (assign_inits inits)).
Proof.
  exists wo_plan, wo_inits. eexists. split; [reflexivity|]. split; [vm_compute; reflexivity|].
  split; [|split; [vm_compute; discriminate | apply init_is_input]].
  intros H. inversion H as [|x l Hnotin _]. apply Hnotin. right. left. reflexivity.
Qed.

(* ================================================================== examples *)

(* the vectors of the unit test of dedup_all_keep_last in ascent_macro/src/utils.rs *)
Example dedup_test_vectors :
  dedup_all_keep_last_by Nat.eqb [1;2;2;3;1;1;4;5;6;3;2]%nat = [1;4;5;6;3;2]%nat
  /\ dedup_all_keep_last_by Nat.eqb [1;1;2;2;1;3;3;3;4]%nat = [2;1;3;4]%nat
  /\ dedup_all_keep_last_by Nat.eqb ([] : list nat) = [].
Proof. vm_compute. repeat split. Qed.

(* relation r = e0; relation q; relation r = e1; relation r;   -> one field r, from the last declaration: no initialiser *)
Example redecl_example :
  let ds := [ {| d_name := 0; d_sig := 5; d_init := Some 0%nat |}; {| d_name := 1; d_sig := 5; d_init := None |};
              {| d_name := 0; d_sig := 5; d_init := Some 1%nat |}; {| d_name := 0; d_sig := 5; d_init := None |} ] in
  prog_get_relation 0 ds = Some {| d_name := 0; d_sig := 5; d_init := None |}
  /\ map d_init (fields_named 0 ds) = [None] /\ length (hir_relations ds) = 2%nat.
Proof. vm_compute. repeat split. Qed.

(* relation r = e0; relation r;   (initialised, then bare): nothing is assigned, r starts empty *)
Example redecl_init_then_bare :
  let ds := [ {| d_name := 0; d_sig := 5; d_init := Some 7%nat |}; {| d_name := 0; d_sig := 5; d_init := None |} ] in
  initialisers_emitted 0 ds = [] /\
  initialisers_emitted 0 (rev ds) = [7%nat].
Proof. vm_compute. split; reflexivity. Qed.

(* re-declaring a name with other column types is NOT a re-declaration for the HIR: both identities survive (two struct
   fields of one name: rustc rejects the expansion) *)
Example redecl_other_types_both_survive :
  let ds := [ {| d_name := 0; d_sig := 5; d_init := None |}; {| d_name := 0; d_sig := 6; d_init := None |} ] in
  length (fields_named 0 ds) = 2%nat.
Proof. vm_compute. reflexivity. Qed.

(* includes at the start, an adjacent pair with an empty source, at the end *)
Example splice_example :
  let srcs := fun p => match p with
                       | 0%nat => [{| t_span := 100; t_site := 1; t_sym := TOther 10 |}; {| t_span := 101; t_site := 1; t_sym := TOther 11 |}]
                       | 1%nat => []
                       | _ => [{| t_span := 120; t_site := 3; t_sym := TOther 12 |}]
                       end in
  let ts := [tk 1 (TInc 0); tk 2 (TOther 1); tk 3 (TInc 1); tk 4 (TInc 2); tk 5 (TOther 2); tk 6 (TInc 0)] in
  count_includes ts = 4%nat
  /\ option_map (map t_span) (expand 5 srcs ts) = Some [100; 101; 2; 120; 5; 100; 101]%nat.
Proof. vm_compute. repeat split. Qed.

(* the timeout guard is not vacuous: with timeout 0 the transitive-closure program is interrupted ... *)
Example timeout_fires : option_map fst (run_timeout_code std_interp std_swap (fun _ => 5) 20 tc_plan 0 (init_state tc_input)) = Some false.
Proof. vm_compute. reflexivity. Qed.
(* ... and the instrumented run of the same program reads the clock and reaches the same 25 rows *)
Example timed_run_example :
  match run_plan_timed std_interp std_swap (fun k => Z.of_nat k * 3) true true 20 tc_plan (init_state tc_input)
                       {| reads := 0; rule_times := []; scc_times := [] |} with
  | Some (st, tm) => length (rows st) = 25%nat /\ (reads tm > 4)%nat /\ length (scc_times tm) = 2%nat
  | None => False
  end.
Proof. vm_compute. repeat split; lia. Qed.
