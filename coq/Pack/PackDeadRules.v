(* C09 — programs with aggregates over relations that NEVER receive a tuple, under the ascent_run! packaging.

   1. ascent_run_strat_model: the run block of ascent_run! (Pack/PackModel.v ascent_run_code: initialisers assigned, one index build,
      the SCCs) on a validated plan of a program WITH aggregates / negation returns the stratified model over the initialisers'
      tuples — through init_is_input (Pack/PackProofs.v) and the stratified engine theorem (Engine/MainAgg.v).  Nothing in the
      statement asks a relation to have an initialiser or a producing rule: a relation that is declared and never filled is simply
      absent from `inits`, and count / sum / not() over it fire (0, 0, holds) because the specification says so.
   2. A computed instance (the plan is the one the macro computes for the program, dumped through the FRONT hook): optional inputs
      blk, w that nobody fills; nblk(0) and cost(x, 0) are derived, lo (min) is not, out — downstream of all three — is.
   3. NOT the code: a dead-rule elimination for ascent_run! (`prune`: walk the SCCs in order, keep the set of relations that may hold
      a tuple — initialised, or head of a surviving rule, or dynamic in the SCC at hand —, drop every rule with a body item over a
      relation outside the set, drop SCCs left without rules).  Which aggregates are exempt is the parameter `keep`.  With only
      negation exempt ("any other aggregate has nothing to aggregate" — the seeded change
      C09_ascent_run_dead_rule_elimination_count_sum) the pass is refuted on the instance: the rules of count and sum are deleted,
      nblk / cost / out stay empty.  With every aggregator that yields on the empty input exempt (yields_on_empty: count, sum, not of
      the vocabulary) the instance is unchanged; a general proof of that variant is NOT given here. *)
From Coq Require Import List ZArith Bool Arith.
From AV Require Import Engine.Core.
From AV Require Import Engine.Sem.
From AV Require Import Engine.Eval.
From AV Require Import Engine.Validate.
From AV Require Import Engine.Naive.
From AV Require Import Engine.Interface.
From AV Require Import Engine.InterfaceAgg.
From AV Require Import Engine.Strat.
From AV Require Import Engine.StratFixed.
From AV Require Import Engine.SemiNaiveAgg.
From AV Require Import Engine.MainAgg.
From AV Require Import Engine.Vocab.
From AV Require Import Pack.PackModel.
From AV Require Import Pack.PackProofs.
Import ListNotations.
Open Scope Z_scope.

(* ------------------------------------------------------------------ 1. ascent_run! of a program with aggregates *)

Theorem ascent_run_strat_model (I : interp) swap arities P pl fuel (inits : list (rel * list tuple)) st :
  arities_functional arities -> wf_facts arities (assign_inits inits) = true -> NoDup (assign_inits inits) ->
  agg_perm_invariant I ->
  validate arities P pl = true ->
  ascent_run_code I swap fuel pl inits = Some st ->
  stratified (plan_strata P pl) = true
  /\ (forall r, In r P <-> In r (concat (plan_strata P pl)))
  /\ strat_model_fixed I (plan_strata P pl) (assign_inits inits) (rows st)
  /\ NoDup (rows st)
  /\ exists added, rows st = assign_inits inits ++ added.
Proof.
  intros Har Hwf Hnd Hperm Hval Hrun. rewrite init_is_input in Hrun.
  exact (run_plan_strat_correct_full I swap arities P pl fuel (assign_inits inits) st Har Hwf Hnd Hperm Hval Hrun).
Qed.

(* an aggregator that produces a result for the empty input: a rule over it fires although the aggregated relation holds no tuple *)
Definition yields_on_empty (I : interp) (a : nat) : bool := match aint I a [] with [] => false | _ => true end.
(* the vocabulary: 0 count, 1 sum, 2 min, 3 max, 4 not *)
Lemma std_yields_on_empty : map (yields_on_empty std_interp) [0; 1; 2; 3; 4]%nat = [true; true; false; false; true].
Proof. vm_compute. reflexivity. Qed.

(* ------------------------------------------------------------------ 3. a dead-rule elimination (a VARIANT, not the code) *)

Definition rel_mem (r : rel) (l : list rel) : bool := existsb (Nat.eqb r) l.
Definition item_may_fire (keep : nat -> bool) (may : rel -> bool) (p : pitem) : bool :=
  match p with
  | PClause r _ _ _ _ => may r
  | PAgg _ a _ r _ _ => keep a || may r
  | PCond _ | PGen _ _ _ => true
  end.
Definition variant_may_fire (keep : nat -> bool) (may : rel -> bool) (v : variant) : bool := forallb (item_may_fire keep may) (v_items v).
Fixpoint prune (keep : nat -> bool) (populated : list rel) (pl : plan) : plan :=
  match pl with
  | [] => []
  | sc :: pl' =>
      let may := fun r => rel_mem r populated || rel_mem r (s_dyn sc) in
      let vs := filter (variant_may_fire keep may) (s_vars sc) in
      let populated' := flat_map (fun v => map fst (v_heads v)) vs ++ populated in
      match vs with
      | [] => prune keep populated' pl'
      | _ => {| s_vars := vs; s_dyn := s_dyn sc; s_loop := s_loop sc |} :: prune keep populated' pl'
      end
  end.
(* the ascent_run! block with the pass applied to the plan; `populated` starts from the relations that have an initialiser *)
Definition ascent_run_pruned (keep : nat -> bool) (I : interp) swap (fuel : nat) (pl : plan) (inits : list (rel * list tuple)) : option state :=
  run_sccs I swap fuel (prune keep (map fst inits) pl) (default_value inits).
Definition negation_only (a : nat) : bool := Nat.eqb a 4.

(* ------------------------------------------------------------------ 2. the instance *)
(* 0 start(i32) 1 blk(i32) 2 w(i32, i32) 3 nblk(i32) 4 cost(i32, i32) 5 lo(i32, i32) 6 out(i32, i32);  blk and w: optional inputs, never filled
     nblk(n as i32) <-- agg n = count() in blk(_);
     cost(x, t) <-- start(x), agg t = sum(wv) in w(x, wv);
     lo(x, m) <-- start(x), agg m = min(wv) in w(x, wv);
     out(x, k) <-- cost(x, t), nblk(k), !lo(x, _);                       ascent_run!: relation start(i32) = vec![(1,), (2,)]; *)
Definition opt_arities : list (rel * nat) := [(0%nat, 1%nat); (1%nat, 1%nat); (2%nat, 2%nat); (3%nat, 1%nat); (4%nat, 2%nat); (5%nat, 2%nat); (6%nat, 2%nat)].
Definition opt_rules : list rule :=
  [{| heads := [(3%nat, [TFun 5%nat [0%nat]])]; body := [BAgg (Some 0%nat) 0%nat [] 1%nat [AWild]] |};
   {| heads := [(4%nat, [TVar 0%nat; TVar 1%nat])]; body := [BClause 0%nat [TVar 0%nat] []; BAgg (Some 1%nat) 1%nat [2%nat] 2%nat [AKey (TVar 0%nat); ABound 2%nat]] |};
   {| heads := [(5%nat, [TVar 0%nat; TVar 1%nat])]; body := [BClause 0%nat [TVar 0%nat] []; BAgg (Some 1%nat) 2%nat [2%nat] 2%nat [AKey (TVar 0%nat); ABound 2%nat]] |};
   {| heads := [(6%nat, [TVar 0%nat; TVar 2%nat])]; body := [BClause 4%nat [TVar 0%nat; TVar 1%nat] []; BClause 3%nat [TVar 2%nat] []; BAgg None 4%nat [] 5%nat [AKey (TVar 0%nat); AWild]] |}].
(* the plan computed by the macro for it *)
Definition opt_plan : plan :=
  [{| s_vars := [{| v_rule := 1%nat; v_heads := [(4%nat, [TVar 0%nat; TVar 1%nat])]; v_items := [PClause 0%nat [TVar 0%nat] [] [] VTotal; PAgg (Some 1%nat) 1%nat [2%nat] 2%nat [AKey (TVar 0%nat); ABound 2%nat] [0%nat]]; v_sj := None; v_reord := false |}]; s_dyn := [4%nat]; s_loop := false |};
   {| s_vars := [{| v_rule := 0%nat; v_heads := [(3%nat, [TFun 5%nat [0%nat]])]; v_items := [PAgg (Some 0%nat) 0%nat [] 1%nat [AWild] []]; v_sj := None; v_reord := false |}]; s_dyn := [3%nat]; s_loop := false |};
   {| s_vars := [{| v_rule := 2%nat; v_heads := [(5%nat, [TVar 0%nat; TVar 1%nat])]; v_items := [PClause 0%nat [TVar 0%nat] [] [] VTotal; PAgg (Some 1%nat) 2%nat [2%nat] 2%nat [AKey (TVar 0%nat); ABound 2%nat] [0%nat]]; v_sj := None; v_reord := false |}]; s_dyn := [5%nat]; s_loop := false |};
   {| s_vars := [{| v_rule := 3%nat; v_heads := [(6%nat, [TVar 0%nat; TVar 2%nat])]; v_items := [PClause 4%nat [TVar 0%nat; TVar 1%nat] [] [] VTotal; PClause 3%nat [TVar 2%nat] [] [] VTotal; PAgg None 4%nat [] 5%nat [AKey (TVar 0%nat); AWild] [0%nat]]; v_sj := Some 0%nat; v_reord := true |}]; s_dyn := [6%nat]; s_loop := false |}].
Definition opt_inits : list (rel * list tuple) := [(0%nat, [[1]; [2]])].
Definition opt_result : list fact :=
  [(0%nat, [1]); (0%nat, [2]); (4%nat, [1; 0]); (4%nat, [2; 0]); (3%nat, [0]); (6%nat, [1; 0]); (6%nat, [2; 0])].

Lemma opt_hyps : validate opt_arities opt_rules opt_plan = true /\ wf_facts opt_arities (assign_inits opt_inits) = true.
Proof. vm_compute. split; reflexivity. Qed.

(* the block as generated: count over the never-filled blk = 0 -> nblk(0); sum over the never-filled w = 0 -> cost(x, 0); min over it
   yields nothing -> lo stays empty; out(x, 0) downstream.  The specification (strat_fix) derives the same facts *)
Lemma opt_example :
  option_map rows (ascent_run_code std_interp std_swap 20 opt_plan opt_inits) = Some opt_result
  /\ In (3%nat, [0]) opt_result /\ In (4%nat, [1; 0]) opt_result /\ In (6%nat, [2; 0]) opt_result
  /\ filter (fun f => Nat.eqb (fst f) 5) opt_result = []
  /\ option_map (fun fs => forallb (fun f => existsb (fact_eqb f) opt_result) fs && forallb (fun f => existsb (fact_eqb f) fs) opt_result)
                (strat_fix std_interp 20 (plan_strata opt_rules opt_plan) (assign_inits opt_inits)) = Some true.
Proof. vm_compute. repeat split; auto 10. Qed.

(* the pass with only negation exempt deletes the rules of count and sum; what is left derives nothing *)
Lemma dead_rules_negation_only_refuted :
  exists arities P pl inits,
    validate arities P pl = true /\ wf_facts arities (assign_inits inits) = true
    /\ option_map rows (ascent_run_code std_interp std_swap 20 pl inits) = Some opt_result
    /\ option_map rows (ascent_run_pruned negation_only std_interp std_swap 20 pl inits) = Some (assign_inits inits)
    /\ prune negation_only (map fst inits) pl = []
    /\ In (3%nat, [0]) opt_result /\ ~ In (3%nat, [0]) (assign_inits inits).
Proof.
  exists opt_arities, opt_rules, opt_plan, opt_inits.
  split; [apply opt_hyps|]. split; [apply opt_hyps|]. split; [vm_compute; reflexivity|]. split; [vm_compute; reflexivity|].
  split; [vm_compute; reflexivity|]. split; [vm_compute; auto 10|].
  vm_compute. intros [H|[H|[]]]; discriminate H.
Qed.

(* exempting every aggregator that yields on the empty input leaves the instance alone: only the rule of min goes (it cannot
   fire), and out's negation over lo keeps its rule *)
Lemma dead_rules_yielding_exempt_example :
  option_map rows (ascent_run_pruned (yields_on_empty std_interp) std_interp std_swap 20 opt_plan opt_inits) = Some opt_result
  /\ length (prune (yields_on_empty std_interp) (map fst opt_inits) opt_plan) = 3%nat.
Proof. vm_compute. split; reflexivity. Qed.
