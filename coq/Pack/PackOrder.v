(* C09 — SIZE and ORDER of the declaration list (Pack/PackModel.v, section 1).

   `redecl_last_wins` (Pack/PackProofs.v) is stated for declaration lists of any length.  This file adds what a pass that
   REORDERS the declarations (e.g. "keep them sorted by name so that the lookup can be a binary search") has to respect:
     - named n ds = the declarations of name n in their order; the relation a rule resolves n to (prog_get_relation) and the
       struct field / initialiser generated for n (fields_named, initialisers_emitted) depend on the list only through named n ds;
     - hence every reordering that keeps the relative order of the declarations of each name — in particular a STABLE sort by
       name, sort_by_name below (insertion sort; Rust's slice::sort_by) — leaves all of them unchanged, whatever the length;
     - a sort by name that may permute declarations of EQUAL name (Rust's sort_unstable_by: it is an insertion sort up to 20
       elements and partitions around pivots above) does not: `unstable_sort_by_name_refuted` gives a name-sorted permutation of
       a declaration list under which an overridden DECOY initialiser is emitted.
   Computed examples on a list of 30 declarations. *)
From Coq Require Import List Bool Arith Lia Permutation Sorted.
From AV Require Import Pack.PackModel.
From AV Require Import Pack.PackProofs.
Import ListNotations.

Definition is_named (n : nat) (d : decl) : bool := Nat.eqb (d_name d) n.
Definition named (n : nat) (ds : list decl) : list decl := filter (is_named n) ds.
(* every declaration of a name has the same column types (otherwise the identities differ and both survive) *)
Definition sig_consistent (ds : list decl) : Prop :=
  forall n a b, In a ds -> In b ds -> d_name a = n -> d_name b = n -> d_sig a = d_sig b.

Lemma find_filter_hd {A} (p : A -> bool) l : find p l = hd_error (filter p l).
Proof. induction l as [|a l IH]; cbn; [reflexivity|]. destruct (p a); [reflexivity | exact IH]. Qed.

Lemma filter_rev {A} (p : A -> bool) l : filter p (rev l) = rev (filter p l).
Proof.
  induction l as [|a l IH]; cbn; [reflexivity|].
  rewrite filter_app, IH. cbn. destruct (p a); cbn; [reflexivity | apply app_nil_r].
Qed.

(* the lookup sees only the declarations of that name *)
Lemma lookup_by_named n ds : prog_get_relation n ds = hd_error (rev (named n ds)).
Proof. unfold prog_get_relation, named, is_named. rewrite find_filter_hd, filter_rev. reflexivity. Qed.

Lemma named_in n ds d : In d (named n ds) <-> In d ds /\ d_name d = n.
Proof. unfold named, is_named. rewrite filter_In, Nat.eqb_eq. reflexivity. Qed.

Lemma sig_consistent_named ds ds' : (forall n, named n ds' = named n ds) -> sig_consistent ds -> sig_consistent ds'.
Proof.
  intros H Hs n a b Ha Hb Na Nb.
  assert (In a (named n ds')) as Ha' by (apply named_in; split; assumption).
  assert (In b (named n ds')) as Hb' by (apply named_in; split; assumption).
  rewrite H in Ha', Hb'. apply named_in in Ha' as [Ha' _], Hb' as [Hb' _]. exact (Hs n a b Ha' Hb' Na Nb).
Qed.

(* a reordering of the declaration list that keeps, for every name, the declarations of that name in their order changes
   neither the relation a rule resolves the name to, nor the generated field, nor the emitted initialiser *)
Theorem reorder_keeping_names ds ds' :
  sig_consistent ds ->
  (forall n, named n ds' = named n ds) ->
  forall n, prog_get_relation n ds' = prog_get_relation n ds
            /\ fields_named n ds' = fields_named n ds
            /\ initialisers_emitted n ds' = initialisers_emitted n ds.
Proof.
  intros Hs H n.
  assert (prog_get_relation n ds' = prog_get_relation n ds) as Hg by (rewrite !lookup_by_named, H; reflexivity).
  assert (fields_named n ds' = fields_named n ds) as Hf.
  { destruct (prog_get_relation n ds) as [z|] eqn:E.
    - rewrite (redecl_last_wins ds n z (Hs n) E).
      apply (redecl_last_wins ds' n z (sig_consistent_named ds ds' H Hs n)). rewrite Hg. reflexivity.
    - rewrite (redecl_undeclared ds n E). apply redecl_undeclared. rewrite Hg. reflexivity. }
  split; [exact Hg|]. split; [exact Hf|]. unfold initialisers_emitted. rewrite Hf. reflexivity.
Qed.

(* ------------------------------------------------------------------ a stable sort by name *)
Fixpoint insert_by_name (d : decl) (l : list decl) : list decl :=
  match l with
  | [] => [d]
  | x :: l' => if Nat.leb (d_name d) (d_name x) then d :: l else x :: insert_by_name d l'
  end.
Definition sort_by_name (ds : list decl) : list decl := fold_right insert_by_name [] ds.

Lemma named_insert n d l : named n (insert_by_name d l) = named n (d :: l).
Proof.
  induction l as [|x l IH]; [reflexivity|]. cbn [insert_by_name].
  destruct (Nat.leb (d_name d) (d_name x)) eqn:E; [reflexivity|].
  apply Nat.leb_gt in E. unfold named in *. cbn [filter] in *. rewrite IH.
  unfold is_named. destruct (Nat.eqb (d_name x) n) eqn:Ex, (Nat.eqb (d_name d) n) eqn:Ed; try reflexivity.
  apply Nat.eqb_eq in Ex, Ed. lia.
Qed.

Lemma named_sort n ds : named n (sort_by_name ds) = named n ds.
Proof.
  induction ds as [|d ds IH]; [reflexivity|]. cbn [sort_by_name fold_right]. rewrite named_insert.
  unfold named in *. cbn [filter]. fold (sort_by_name ds). rewrite IH. reflexivity.
Qed.

Lemma insert_perm d l : Permutation (d :: l) (insert_by_name d l).
Proof.
  induction l as [|x l IH]; cbn [insert_by_name]; [apply Permutation_refl|].
  destruct (Nat.leb (d_name d) (d_name x)); [apply Permutation_refl|].
  apply perm_trans with (x :: d :: l); [apply perm_swap | apply perm_skip; exact IH].
Qed.
Lemma sort_perm ds : Permutation ds (sort_by_name ds).
Proof.
  induction ds as [|d ds IH]; [apply perm_nil|]. cbn [sort_by_name fold_right]. fold (sort_by_name ds).
  apply perm_trans with (d :: sort_by_name ds); [apply perm_skip; exact IH | apply insert_perm].
Qed.

Definition name_le (a b : decl) : Prop := d_name a <= d_name b.
Lemma insert_sorted d l : Sorted name_le l -> Sorted name_le (insert_by_name d l).
Proof.
  induction l as [|x l IH]; intros Hs; cbn [insert_by_name]; [repeat constructor|].
  destruct (Nat.leb (d_name d) (d_name x)) eqn:E.
  - apply Nat.leb_le in E. constructor; [exact Hs | constructor; exact E].
  - apply Nat.leb_gt in E. inversion Hs as [|? ? Hs' Hhd]; subst. constructor; [apply IH; exact Hs'|].
    destruct l as [|y l]; cbn [insert_by_name].
    + constructor. unfold name_le. lia.
    + destruct (Nat.leb (d_name d) (d_name y)); constructor; [unfold name_le; lia|].
      inversion Hhd; subst. assumption.
Qed.
Lemma sort_sorted ds : Sorted name_le (sort_by_name ds).
Proof. induction ds as [|d ds IH]; [constructor|]. cbn [sort_by_name fold_right]. apply insert_sorted. exact IH. Qed.

(* sorting the declarations by name with a STABLE sort is invisible: for lists of any length and any order *)
Theorem stable_sort_by_name_transparent ds :
  sig_consistent ds ->
  Permutation ds (sort_by_name ds) /\ Sorted name_le (sort_by_name ds)
  /\ forall n, prog_get_relation n (sort_by_name ds) = prog_get_relation n ds
               /\ fields_named n (sort_by_name ds) = fields_named n ds
               /\ initialisers_emitted n (sort_by_name ds) = initialisers_emitted n ds.
Proof.
  intros Hs. split; [apply sort_perm|]. split; [apply sort_sorted|].
  apply reorder_keeping_names; [exact Hs | intros n; apply named_sort].
Qed.

(* ------------------------------------------------------------------ computed: 30 declarations *)
Definition dc (n : nat) (i : option nat) : decl := {| d_name := n; d_sig := n; d_init := i |}.
(* names in no particular order; 7 is declared three times (decoy 100, decoy 101, last: 77), 3 twice (decoy 102, last: bare),
   19 twice (bare, last: 55) *)
Definition big_decls : list decl :=
  [dc 12 None; dc 7 (Some 100); dc 25 None; dc 3 (Some 102); dc 18 None; dc 1 None; dc 22 (Some 40); dc 9 None; dc 14 None; dc 7 (Some 101);
   dc 30 None; dc 5 None; dc 19 None; dc 27 None; dc 2 None; dc 16 (Some 41); dc 11 None; dc 3 None; dc 24 None; dc 8 None;
   dc 21 None; dc 13 None; dc 7 (Some 77); dc 29 None; dc 4 None; dc 19 (Some 55); dc 17 None; dc 6 None; dc 26 None; dc 10 None].

Example big_last_wins :
  length big_decls = 30 /\ length (hir_relations big_decls) = 26
  /\ initialisers_emitted 7 big_decls = [77] /\ initialisers_emitted 3 big_decls = [] /\ initialisers_emitted 19 big_decls = [55]
  /\ prog_get_relation 7 big_decls = Some (dc 7 (Some 77)) /\ prog_get_relation 3 big_decls = Some (dc 3 None)
  /\ map d_name (sort_by_name big_decls) = [1;2;3;3;4;5;6;7;7;7;8;9;10;11;12;13;14;16;17;18;19;19;21;22;24;25;26;27;29;30]
  /\ map (fun n => initialisers_emitted n (sort_by_name big_decls)) [3; 7; 19; 22] = [[]; [77]; [55]; [40]]
  /\ map (fun n => initialisers_emitted n (rev big_decls)) [3; 7; 19] = [[102]; [100]; []].
Proof. vm_compute. repeat split; reflexivity. Qed.

(* a sort by name that does not keep the order of equal names: the list below is a name-sorted permutation of big_decls (what an
   unstable sort may return for more than 20 elements), and under it relation 7 starts from the decoy 101, relation 3 from the
   decoy 102 although its last declaration is bare, and 19 loses its initialiser *)
Definition big_unstable : list decl :=
  [dc 1 None; dc 2 None; dc 3 None; dc 3 (Some 102); dc 4 None; dc 5 None; dc 6 None; dc 7 (Some 77); dc 7 (Some 100); dc 7 (Some 101);
   dc 8 None; dc 9 None; dc 10 None; dc 11 None; dc 12 None; dc 13 None; dc 14 None; dc 16 (Some 41); dc 17 None; dc 18 None;
   dc 19 (Some 55); dc 19 None; dc 21 None; dc 22 (Some 40); dc 24 None; dc 25 None; dc 26 None; dc 27 None; dc 29 None; dc 30 None].

Lemma sig_consistent_dc ds : (forall d, In d ds -> d_sig d = d_name d) -> sig_consistent ds.
Proof. intros H n a b Ha Hb Na Nb. rewrite (H a Ha), (H b Hb), Na, Nb. reflexivity. Qed.

Fixpoint sortedb (l : list decl) : bool :=
  match l with
  | a :: ((b :: _) as l') => Nat.leb (d_name a) (d_name b) && sortedb l'
  | _ => true
  end.
Lemma sortedb_sorted l : sortedb l = true -> Sorted name_le l.
Proof.
  induction l as [|a l IH]; intros H; [constructor|]. destruct l as [|b l]; [repeat constructor|].
  cbn [sortedb] in H. apply andb_prop in H as [H1 H2]. constructor; [apply IH; exact H2 | constructor; apply Nat.leb_le; exact H1].
Qed.


Theorem unstable_sort_by_name_refuted :
  exists ds ds', (length ds > 20)%nat /\ sig_consistent ds /\ Permutation ds ds' /\ Sorted name_le ds'
                 /\ (forall n, Permutation (named n ds) (named n ds'))
                 /\ initialisers_emitted 7 ds = [77] /\ initialisers_emitted 7 ds' = [101]
                 /\ initialisers_emitted 3 ds = [] /\ initialisers_emitted 3 ds' = [102]
                 /\ initialisers_emitted 19 ds = [55] /\ initialisers_emitted 19 ds' = [].
Proof.
  exists big_decls, big_unstable.
  assert (Permutation big_decls big_unstable) as HP.
  { apply perm_trans with (sort_by_name big_decls); [apply sort_perm|].
    (* the stable result and the unstable one differ by swaps inside the groups of equal names *)
    assert (sort_by_name big_decls =
            [dc 1 None; dc 2 None] ++ [dc 3 (Some 102); dc 3 None] ++ [dc 4 None; dc 5 None; dc 6 None] ++ [dc 7 (Some 100); dc 7 (Some 101); dc 7 (Some 77)]
            ++ [dc 8 None; dc 9 None; dc 10 None; dc 11 None; dc 12 None; dc 13 None; dc 14 None; dc 16 (Some 41); dc 17 None; dc 18 None]
            ++ [dc 19 None; dc 19 (Some 55)] ++ [dc 21 None; dc 22 (Some 40); dc 24 None; dc 25 None; dc 26 None; dc 27 None; dc 29 None; dc 30 None]) as -> by (vm_compute; reflexivity).
    change big_unstable with
           ([dc 1 None; dc 2 None] ++ [dc 3 None; dc 3 (Some 102)] ++ [dc 4 None; dc 5 None; dc 6 None] ++ [dc 7 (Some 77); dc 7 (Some 100); dc 7 (Some 101)]
            ++ [dc 8 None; dc 9 None; dc 10 None; dc 11 None; dc 12 None; dc 13 None; dc 14 None; dc 16 (Some 41); dc 17 None; dc 18 None]
            ++ [dc 19 (Some 55); dc 19 None] ++ [dc 21 None; dc 22 (Some 40); dc 24 None; dc 25 None; dc 26 None; dc 27 None; dc 29 None; dc 30 None]).
    apply Permutation_app_head. apply Permutation_app; [apply perm_swap|].
    apply Permutation_app_head. apply Permutation_app.
    { apply perm_trans with [dc 7 (Some 100); dc 7 (Some 77); dc 7 (Some 101)]; [apply perm_skip; apply perm_swap | apply perm_swap]. }
    apply Permutation_app_head. apply Permutation_app; [apply perm_swap | apply Permutation_refl]. }
  split; [vm_compute; lia|].
  split. { apply sig_consistent_dc. intros d Hd. vm_compute in Hd. repeat (destruct Hd as [<-|Hd]; [reflexivity|]). destruct Hd. }
  split; [exact HP|].
  split; [apply sortedb_sorted; vm_compute; reflexivity|].
  split. { intros n. unfold named. induction HP; cbn [filter]; try destruct (is_named n x); try destruct (is_named n y); eauto using Permutation. }
  vm_compute. repeat split; reflexivity.
Qed.
