(* C09 — the run block of ascent_run! over the model of the generated code for programs with lattices
   (LatEngine/LatEval.v, no proofs here).  Same shape as Pack/PackModel.v section 3: the initialisers are assigned to the
   fields of a default value (rows set, every index empty), then `_self.update_indices_priv();`, then the SCCs; the
   block contains no other index build.  For a lattice relation the head update finds the row of a key through the
   stored key index (row numbers): an initial row that was never indexed is not found, and a second row is pushed for
   its key. *)
From Coq Require Import List ZArith Bool Arith.
From AV Require Import Engine.Core.
From AV Require Import Engine.Eval.
From AV Require Import LatEngine.LatSyntax.
From AV Require Import LatEngine.LatEval.
Import ListNotations.

Section LatRun.
Context {V : Type}.
Variable I : linterp V.
Variable islat : rel -> bool.
Variable jm : rel -> V -> V -> V * bool.
Variable shuffle : nat -> list nat -> list nat.
Variable swap_oracle : nat -> list nat -> list nat -> bool.

(* `_self.r = init; ...` on a default value: rows set, no row number in any index *)
Definition lat_assigned (R : rel -> list (vtuple V)) : @lstate V := {| l_rows := R; l_stored := fun _ => []; l_tick := 0 |}.
(* the precondition of the SCC code: every row is listed in the stored indices of its relation *)
Definition lat_indexed (st : @lstate V) : Prop := forall r, l_stored st r = seq 0 (length (l_rows st r)).

Definition lat_run_block_when (emit : bool) (fuel : nat) (pl : plan) (R : rel -> list (vtuple V)) : option (@lstate V) :=
  LatEval.run_sccs I islat jm shuffle swap_oracle fuel pl (if emit then LatEval.update_indices R else lat_assigned R).
(* ascent_run! as generated, for a program with at least one initialiser (R = the initialisers' rows) *)
Definition lat_ascent_run_code (fuel : nat) (pl : plan) (R : rel -> list (vtuple V)) : option (@lstate V) :=
  lat_run_block_when true fuel pl R.
End LatRun.
