(* C03 - non-vacuity: all-pairs shortest path over Dual<u32> with a downstream relation, with the plan the
   real macro produced for it (dumped by the FRONT hook).  The hypotheses of the C03 theorems hold for it
   (validator, plan check, lattice laws of the min-lattice, monotone program) and the model runs. *)
From Coq Require Import List ZArith Bool Arith Lia.
From AV Require Import Engine.Core.
From AV Require Import Engine.Eval.
From AV Require Import Engine.Validate.
From AV Require Import Engine.Naive.
From AV Require Import LatEngine.LatSyntax.
From AV Require Import LatEngine.LatEval.
From AV Require Import LatEngine.LatPlan.
From AV Require Import LatEngine.LatSem.
From AV Require Import LatEngine.LatEnv.
From AV Require Import LatEngine.LatMono.
From AV Require Import LatEngine.LatVocab.
Import ListNotations.

(* ---------- helpers to establish monotone_program ---------- *)
Section Helpers.
Context {V : Type}.
Variable I : linterp V.
Variable G : vorder (V:=V).

Lemma ele_lookup : forall (e e' : venv V) x a, ele G e e' -> vlookup e x = Some a -> exists a', vlookup e' x = Some a' /\ G x a a'.
Proof. intros e e' x a H Hx. specialize (H x). rewrite Hx in H. destruct (vlookup e' x) as [a'|]; [eauto | contradiction]. Qed.

Lemma mono_term_var : forall (ord : V -> V -> Prop) x, (forall a b, G x a b -> ord a b) -> mono_term I G ord (TVar x).
Proof. intros ord x H e e' v Hle Hv. cbn in *. destruct (ele_lookup e e' x v Hle Hv) as [v' [E Hg]]. eauto. Qed.

Lemma mono_term_const : forall (ord : V -> V -> Prop) c, ord (vconst I c) (vconst I c) -> mono_term I G ord (TConst c).
Proof. intros ord c H e e' v Hle Hv. cbn in *. injection Hv as <-. eauto. Qed.

Lemma mono_term_fun1 : forall (ord : V -> V -> Prop) f x,
  (forall a a', G x a a' -> ord (vfun I f [a]) (vfun I f [a'])) -> mono_term I G ord (TFun f [x]).
Proof.
  intros ord f x H e e' v Hle Hv. cbn in *. destruct (vlookup e x) as [a|] eqn:Ex; [|discriminate].
  destruct (ele_lookup e e' x a Hle Ex) as [a' [E Hg]]. rewrite E. cbn in *. injection Hv as <-. eauto.
Qed.

Lemma mono_term_fun2 : forall (ord : V -> V -> Prop) f x y,
  (forall a a' b b', G x a a' -> G y b b' -> ord (vfun I f [a; b]) (vfun I f [a'; b'])) -> mono_term I G ord (TFun f [x; y]).
Proof.
  intros ord f x y H e e' v Hle Hv. cbn in *. destruct (vlookup e x) as [a|] eqn:Ex; [|discriminate].
  destruct (vlookup e y) as [b|] eqn:Ey; [|discriminate].
  destruct (ele_lookup e e' x a Hle Ex) as [a' [E Hg]]. destruct (ele_lookup e e' y b Hle Ey) as [b' [E' Hg']].
  rewrite E, E'. cbn in *. injection Hv as <-. eauto.
Qed.

Lemma mono_cond_if1 : forall p x, (forall a a', G x a a' -> vpred I p [a] = true -> vpred I p [a'] = true) -> mono_cond I G (CIf p [x]).
Proof.
  intros p x H e e' e1 Hle Hs. cbn in *. destruct (vlookup e x) as [a|] eqn:Ex; [|discriminate].
  destruct (ele_lookup e e' x a Hle Ex) as [a' [E Hg]]. rewrite E.
  destruct (vpred I p [a]) eqn:Ep; [|discriminate]. injection Hs as <-. rewrite (H a a' Hg Ep). eauto.
Qed.
End Helpers.

(* ---------- the program ---------- *)
Open Scope Z_scope.

(* relation 0 = edge(i32, i32, i32), 1 = lattice sp(i32, i32, Dual<u32>), 2 = near(i32, i32):
     sp(x, y, Dual(w)) <-- edge(x, y, w);
     sp(x, z, Dual(l.0 + w)) <-- edge(x, y, w), sp(y, z, l);
     near(x, y) <-- sp(x, y, l) if l.0 <= 4; *)
Definition sp_arities : list (rel * nat) := [(0%nat, 3%nat); (1%nat, 3%nat); (2%nat, 2%nat)].
Definition sp_lats : list (rel * nat) := [(1%nat, 1%nat)].
Definition sp_prog : list rule :=
  [{| heads := [(1%nat, [TVar 0%nat; TVar 1%nat; TFun 200%nat [2%nat]])]; body := [BClause 0%nat [TVar 0%nat; TVar 1%nat; TVar 2%nat] []] |};
   {| heads := [(1%nat, [TVar 0%nat; TVar 3%nat; TFun 201%nat [4%nat; 2%nat]])];
      body := [BClause 0%nat [TVar 0%nat; TVar 1%nat; TVar 2%nat] []; BClause 1%nat [TVar 1%nat; TVar 3%nat; TVar 4%nat] []] |};
   {| heads := [(2%nat, [TVar 0%nat; TVar 1%nat])]; body := [BClause 1%nat [TVar 0%nat; TVar 1%nat; TVar 2%nat] [CIf 300%nat [2%nat]]] |}].
(* the plan dumped from the macro: sp is dynamic in two SCCs; the recursive rule is a reorderable simple join *)
Definition sp_plan : plan :=
  [{| s_vars := [{| v_rule := 0%nat; v_heads := [(1%nat, [TVar 0%nat; TVar 1%nat; TFun 200%nat [2%nat]])];
                    v_items := [PClause 0%nat [TVar 0%nat; TVar 1%nat; TVar 2%nat] [] [] VTotal]; v_sj := None; v_reord := false |}];
      s_dyn := [1%nat]; s_loop := false |};
   {| s_vars := [{| v_rule := 1%nat; v_heads := [(1%nat, [TVar 0%nat; TVar 3%nat; TFun 201%nat [4%nat; 2%nat]])];
                    v_items := [PClause 0%nat [TVar 0%nat; TVar 1%nat; TVar 2%nat] [] [1%nat] VTotal;
                                PClause 1%nat [TVar 1%nat; TVar 3%nat; TVar 4%nat] [] [0%nat] VDelta];
                    v_sj := (Some 0%nat); v_reord := true |}];
      s_dyn := [1%nat]; s_loop := true |};
   {| s_vars := [{| v_rule := 2%nat; v_heads := [(2%nat, [TVar 0%nat; TVar 1%nat])];
                    v_items := [PClause 1%nat [TVar 0%nat; TVar 1%nat; TVar 2%nat] [CIf 300%nat [2%nat]] [] VTotal]; v_sj := None; v_reord := false |}];
      s_dyn := [2%nat]; s_loop := false |}].
(* a chain 0 -> 1 -> 2 -> 3 -> 4 -> 0 of weight 1 with shortcuts 0 -> 2, 0 -> 3, 0 -> 4 of weights 4, 6, 8:
   the distances from 0 are improved over several iterations *)
Definition sp_input : rel -> list (list Z) :=
  fun r => if Nat.eqb r 0 then [[0; 1; 1]; [1; 2; 1]; [2; 3; 1]; [3; 4; 1]; [0; 2; 4]; [0; 3; 6]; [0; 4; 8]; [4; 0; 1]] else [].

Definition sp_islat := lv_islat sp_lats.
Definition sp_jm := lv_jm sp_lats.
(* the order of Dual: reversed; every integer is an element *)
Definition sp_lle (r : rel) (a b : Z) : Prop := b <= a.

Lemma sp_laws : forall r, sp_islat r = true -> lat_laws (sp_lle r) (sp_jm r).
Proof.
  intros r Hr. unfold sp_islat, lv_islat, sp_jm, lv_jm in *. destruct (lv_type sp_lats r) as [ty|] eqn:E; [|discriminate].
  unfold lv_type, sp_lats in E. cbn [find fst] in E. destruct (Nat.eqb 1 r); cbn in E; [|discriminate]. injection E as <-.
  unfold sp_lle, lat_jm, lat_join. constructor; cbn [fst snd]; intros; lia.
Qed.

Lemma sp_checks : validate sp_arities sp_prog sp_plan = true /\ lat_plan_ok sp_islat sp_arities sp_plan = true /\ no_agg sp_prog = true.
Proof. vm_compute. repeat split. Qed.

Lemma sp_arities_functional : arities_functional sp_arities.
Proof.
  intros r n m H1 H2. cbn in H1, H2.
  destruct H1 as [H1|[H1|[H1|[]]]], H2 as [H2|[H2|[H2|[]]]]; congruence.
Qed.

Lemma sp_eq : veqb_ok lv_interp.
Proof. intros a b. cbn. apply Z.eqb_eq. Qed.

(* variable orders: the lattice variable is ordered by the Dual order, all others by equality *)
Definition Gat (x : var) : vorder (V:=Z) := fun y a b => if Nat.eqb y x then b <= a else a = b.

Lemma Gat_plain : forall x y, y <> x -> plain_var (Gat x) y.
Proof. intros x y H a b. unfold Gat. apply Nat.eqb_neq in H. rewrite H. tauto. Qed.
Lemma Gat_dom : forall x, vorder_dom (Gat x).
Proof. intros x y a b. unfold Gat. destruct (Nat.eqb y x); intros; [lia | subst; auto]. Qed.
Lemma Gat_at : forall x a b, Gat x x a b <-> b <= a.
Proof. intros x a b. unfold Gat. rewrite Nat.eqb_refl. tauto. Qed.

Lemma plain_tvar : forall x y, y <> x -> plain_term (Gat x) (TVar y).
Proof. intros x y H z [<-|[]]. apply Gat_plain. exact H. Qed.

Lemma plain_tvars : forall x ys, (forall y, In y ys -> y <> x) -> Forall (plain_term (Gat x)) (map TVar ys).
Proof.
  intros x ys H. induction ys as [|y ys IH]; cbn [map]; constructor.
  - apply plain_tvar. apply H. left. reflexivity.
  - apply IH. intros z Hz. apply H. right. exact Hz.
Qed.
Ltac plain_vars x ys := apply (plain_tvars x ys); let y := fresh in let H := fresh in intros y H; cbn in H; intuition (subst; discriminate).

Lemma sp_islat_1 : sp_islat 1%nat = true. Proof. reflexivity. Qed.
Lemma sp_islat_0 : sp_islat 0%nat = false. Proof. reflexivity. Qed.
Lemma sp_islat_2 : sp_islat 2%nat = false. Proof. reflexivity. Qed.

Lemma sp_monotone : monotone_program lv_interp sp_islat sp_lle sp_prog.
Proof.
  intros ru Hin. cbn in Hin. destruct Hin as [<-|[<-|[<-|[]]]].
  - (* sp(x, y, Dual(w)) <-- edge(x, y, w): no lattice variable *)
    exists (Gat 9%nat). split; [apply Gat_dom|]. split; cbn [body heads].
    + constructor; [|constructor]. cbn [mono_item]. split; [|constructor].
      unfold mono_clause. rewrite sp_islat_0. plain_vars 9%nat [0%nat; 1%nat; 2%nat].
    + constructor; [|constructor]. unfold mono_head. cbn [fst snd]. rewrite sp_islat_1.
      exists [TVar 0%nat; TVar 1%nat], (TFun 200%nat [2%nat]). split; [reflexivity|]. split.
      * plain_vars 9%nat [0%nat; 1%nat].
      * apply mono_term_fun1. intros a a' Hg. assert (a = a') by (apply (Gat_plain 9%nat 2%nat); [discriminate | exact Hg]). subst. unfold sp_lle. apply Z.le_refl.
  - (* sp(x, z, Dual(l + w)) <-- edge(x, y, w), sp(y, z, l): l is variable 4 *)
    exists (Gat 4%nat). split; [apply Gat_dom|]. split; cbn [body heads].
    + constructor; [|constructor; [|constructor]]; cbn [mono_item]; (split; [|constructor]); unfold mono_clause.
      * rewrite sp_islat_0. plain_vars 4%nat [0%nat; 1%nat; 2%nat].
      * rewrite sp_islat_1. exists [TVar 1%nat; TVar 3%nat], 4%nat. split; [reflexivity|]. split.
        -- plain_vars 4%nat [1%nat; 3%nat].
        -- intros a b H. apply Gat_at. exact H.
    + constructor; [|constructor]. unfold mono_head. cbn [fst snd]. rewrite sp_islat_1.
      exists [TVar 0%nat; TVar 3%nat], (TFun 201%nat [4%nat; 2%nat]). split; [reflexivity|]. split.
      * plain_vars 4%nat [0%nat; 3%nat].
      * apply mono_term_fun2. intros a a' b b' Hg Hg'. apply Gat_at in Hg. assert (b = b') by (apply (Gat_plain 4%nat 2%nat); [discriminate | exact Hg']). subst.
        unfold sp_lle. change (a' + b' <= a + b'). lia.
  - (* near(x, y) <-- sp(x, y, l) if l <= 4: l is variable 2; the test is upward closed in the Dual order *)
    exists (Gat 2%nat). split; [apply Gat_dom|]. split; cbn [body heads].
    + constructor; [|constructor]. cbn [mono_item]. split.
      * unfold mono_clause. rewrite sp_islat_1. exists [TVar 0%nat; TVar 1%nat], 2%nat. split; [reflexivity|]. split.
        -- plain_vars 2%nat [0%nat; 1%nat].
        -- intros a b H. apply Gat_at. exact H.
      * constructor; [|constructor]. apply mono_cond_if1. intros a a' Hg Hp. apply Gat_at in Hg. change ((a <=? 4) = true) in Hp. change ((a' <=? 4) = true).
        apply Z.leb_le in Hp. apply Z.leb_le. lia.
    + constructor; [|constructor]. unfold mono_head. cbn [fst snd]. rewrite sp_islat_2.
      plain_vars 2%nat [0%nat; 1%nat].
Qed.

Lemma sp_shuffle_ok : forall n l x, In x (lv_shuffle n l) <-> In x l.
Proof. intros n l x. unfold lv_shuffle. destruct (Nat.even n); [tauto|]. symmetry. apply in_rev. Qed.

(* the run: 25 distances (every pair of the 5-cycle), 0 -> 4 improved from 8 to 4; 20 pairs are within distance 4 *)
Definition sp_result := option_map (fun st => (l_rows st 1%nat, length (l_rows st 2%nat)))
                                   (run_plan lv_interp sp_islat sp_jm lv_shuffle lv_swap 40 sp_plan sp_input).
Lemma sp_runs : exists rows, sp_result = Some (rows, 20%nat) /\ length rows = 25%nat /\ In [0; 4; 4] rows /\ In [0; 0; 5] rows.
Proof. eexists. split; [vm_compute; reflexivity|]. split; [reflexivity|]. split; cbn; tauto. Qed.
