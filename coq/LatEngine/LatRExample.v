(* C13 / C14, lattice half - non-vacuity on the shortest-path program of LatExample.v (plan dumped from the real macro),
   and the witness for the case EXCLUDED by the guard of the C13 theorems (a pushed row whose key is already present).

   REMARK (duplicate keys among caller-pushed rows - what the real code does).  update_indices inserts every row of a
   lattice relation into the key index with HashMap::insert (ascent/src/internal.rs, HashBrownRelFullIndexType::
   index_insert) - the LAST row of a key wins - and into every other index (a set of row numbers per index key) - ALL
   rows.  Nothing ever merges or removes rows.  So two rows with the same key stay two rows for good: head updates
   join into the last one only, rule bodies read both.  Consequences, observed on the real code (experiment crate
   below, /tmp/latrr/exp_dupkey):
     run();  sp.push(row with the key of an existing - here DERIVED - row);  run()
   leaves TWO rows for that key (1,2,4) and (1,2,1) - "one row per key" is lost - while a fresh run on the union of
   all inputs holds only (1,2,1): the relation differs from a fresh run (as a set of rows; the values derived FROM
   the two rows are right, because the stale row is dominated).  The same happens on a fresh program value when the
   caller pushes two rows with one key (C03's hypothesis input_ok excludes it).  The model of LatEval.v differs from
   the code on such inputs only in which of the equal-key rows a head update joins into (the first instead of the
   last); on the witness both leave exactly the same rows, so [lat_rerun_dupkey_refuted] below is a statement about
   the real code too.

   --- experiment crate (Cargo.toml: empty [workspace], ascent = {path="/repo/ascent"}; cp /repo/Cargo.lock .) ---
   use ascent::{ascent, Dual};
   ascent! { struct SP; relation edge(u32, u32, u32); lattice sp(u32, u32, Dual<u32>);
      sp(x, y, Dual( *w)) <-- edge(x, y, w);
      sp(x, z, Dual(l.0 + w)) <-- edge(x, y, w), sp(y, z, l); }
   fn main() {
      let mut p = SP::default(); p.edge = vec![(0, 1, 4), (1, 2, 4)]; p.run();
      // sp = {(0,1,4), (0,2,8), (1,2,4)}
      p.sp.push((1, 2, Dual(1))); p.run();
      // sp = {(0,1,4), (0,2,5), (1,2,1), (1,2,4)}      rows=4 keys=3
      let mut f = SP::default(); f.edge = vec![(0, 1, 4), (1, 2, 4)]; f.sp = vec![(1, 2, Dual(1))]; f.run();
      // sp = {(0,1,4), (0,2,5), (1,2,1)}
   } *)
From Coq Require Import List ZArith Bool Arith Lia.
From AV Require Import Engine.Core.
From AV Require Import Engine.Eval.
From AV Require Import Engine.Validate.
From AV Require Import LatEngine.LatSyntax.
From AV Require Import LatEngine.LatEval.
From AV Require Import LatEngine.LatSem.
From AV Require Import LatEngine.LatBase.
From AV Require Import LatEngine.LatMain.
From AV Require Import LatEngine.LatVocab.
From AV Require Import LatEngine.LatExample.
From AV Require Import LatEngine.LatRerun.
From AV Require Import LatEngine.LatTimeout.
Import ListNotations.
Open Scope Z_scope.

Definition sp_run := run_plan lv_interp sp_islat sp_jm lv_shuffle lv_swap 40%nat sp_plan.
Definition sp_run_t (n : nat) := run_timeout lv_interp sp_islat sp_jm lv_shuffle lv_swap (lfire_at n) 40%nat sp_plan.
(* observation: the rows of sp (lattice) and near (plain) *)
Definition sp_obs (R : rel -> list (list Z)) : list (list Z) * list (list Z) := (R 1%nat, R 2%nat).

Fixpoint zlist_eqb (a b : list Z) : bool :=
  match a, b with [], [] => true | x :: a', y :: b' => (x =? y) && zlist_eqb a' b' | _, _ => false end.
Definition same_rows (l1 l2 : list (list Z)) : bool :=
  Nat.eqb (length l1) (length l2) && forallb (fun t => existsb (zlist_eqb t) l2) l1 && forallb (fun t => existsb (zlist_eqb t) l1) l2.

(* the input of LatExample.sp_runs is a legal input *)
Lemma sp_input_ok : input_ok lv_interp sp_islat sp_lle sp_arities sp_input.
Proof.
  split; [|split].
  - intros r row Hin n Hn. unfold sp_input in Hin. destruct r as [|r]; [|destruct Hin].
    cbn in Hn. assert (n = 3%nat) by (destruct n as [|[|[|[|n]]]]; try discriminate; reflexivity). subst n.
    cbn in Hin. repeat (destruct Hin as [<-|Hin]; [reflexivity|]). destruct Hin.
  - intros r Hr. unfold sp_input. destruct r as [|r]; [discriminate|]. constructor.
  - intros r row _ _. unfold sp_lle. apply Z.le_refl.
Qed.

(* C13: the model runs; a second run changes nothing *)
Example sp_rerun_runs :
  match sp_run sp_input with
  | Some st1 => option_map (fun st2 => sp_obs (l_rows st2)) (sp_run (l_rows st1)) = Some (sp_obs (l_rows st1)) /\ length (l_rows st1 1%nat) = 25%nat
  | None => False
  end.
Proof. vm_compute. split; reflexivity. Qed.

(* C14: the third deadline reading fires in the middle of the recursive SCC: 21 of the 25 distances are there, the
   distance 0 -> 4 stands at 6 (final: 4), near is still empty; run() afterwards reaches the rows of an uninterrupted run *)
Example sp_timeout_runs :
  match sp_run_t 3 sp_input, sp_run sp_input with
  | Some (b, R), Some st0 =>
      b = false /\ length (R 1%nat) = 21%nat /\ In [0; 4; 6] (R 1%nat) /\ In [0; 4; 4] (l_rows st0 1%nat) /\ R 2%nat = [] /\
      option_map (fun st => sp_obs (l_rows st)) (sp_run R) = Some (sp_obs (l_rows st0))
  | _, _ => False
  end.
Proof. vm_compute. repeat split; auto 20. Qed.

(* two interruptions in a row, then run(): the same rows as an uninterrupted run, in a different order *)
Example sp_timeout_twice_runs :
  match sp_run_t 2 sp_input, sp_run sp_input with
  | Some (b1, R1), Some st0 =>
      match sp_run_t 2 R1 with
      | Some (b2, R2) =>
          match sp_run R2 with
          | Some st => b1 = false /\ b2 = false /\ same_rows (l_rows st 1%nat) (l_rows st0 1%nat) = true /\
                       same_rows (l_rows st 2%nat) (l_rows st0 2%nat) = true /\ l_rows st 2%nat <> l_rows st0 2%nat
          | None => False
          end
      | None => False
      end
  | _, _ => False
  end.
Proof. vm_compute. repeat split; try reflexivity. discriminate. Qed.

(* ---------- the excluded case: a pushed row whose key is already present ---------- *)
Definition dk_input : rel -> list (list Z) := fun r => if Nat.eqb r 0 then [[0; 1; 4]; [1; 2; 4]] else [].
Definition dk_push : rel -> list (list Z) := fun r => if Nat.eqb r 1 then [[1; 2; 1]] else [].

(* the key (1,2) of the pushed row is new w.r.t. the INPUT rows - the fresh input dk_input ++ dk_push is legal - but
   it is the key of a row DERIVED by the first run.  The further run leaves two rows with the key (1,2), among them
   the stale (1,2,4), which a fresh run on all inputs does not hold. *)
Theorem lat_rerun_dupkey_refuted :
  exists st1 st2 st3,
    sp_run dk_input = Some st1 /\ sp_run (appr (l_rows st1) dk_push) = Some st2 /\ sp_run (appr dk_input dk_push) = Some st3 /\
    NoDup (map tkey (appr dk_input dk_push 1%nat)) /\
    l_rows st2 1%nat = [[0; 1; 4]; [1; 2; 4]; [0; 2; 5]; [1; 2; 1]] /\
    l_rows st3 1%nat = [[1; 2; 1]; [0; 1; 4]; [0; 2; 5]] /\
    ~ NoDup (map tkey (l_rows st2 1%nat)) /\
    ~ (forall t, In t (l_rows st2 1%nat) -> In t (l_rows st3 1%nat)).
Proof.
  assert (N2 : match sp_run dk_input with Some s => sp_run (appr (l_rows s) dk_push) | None => None end <> None) by (vm_compute; discriminate).
  destruct (sp_run dk_input) as [st1|] eqn:E1; [|vm_compute in E1; discriminate].
  destruct (sp_run (appr (l_rows st1) dk_push)) as [st2|] eqn:E2; [|exfalso; apply N2; reflexivity].
  destruct (sp_run (appr dk_input dk_push)) as [st3|] eqn:E3; [|vm_compute in E3; discriminate].
  exists st1, st2, st3. split; [reflexivity|]. split; [exact E2|]. split; [first [reflexivity | exact E3]|].
  assert (R2 : l_rows st2 1%nat = [[0; 1; 4]; [1; 2; 4]; [0; 2; 5]; [1; 2; 1]]).
  { assert (H : option_map (fun st => l_rows st 1%nat) (match sp_run dk_input with Some s => sp_run (appr (l_rows s) dk_push) | None => None end)
               = Some [[0; 1; 4]; [1; 2; 4]; [0; 2; 5]; [1; 2; 1]]) by (vm_compute; reflexivity).
    rewrite E1, E2 in H. cbn [option_map] in H. injection H as H. exact H. }
  assert (R3 : l_rows st3 1%nat = [[1; 2; 1]; [0; 1; 4]; [0; 2; 5]]).
  { assert (H : option_map (fun st => l_rows st 1%nat) (sp_run (appr dk_input dk_push)) = Some [[1; 2; 1]; [0; 1; 4]; [0; 2; 5]]) by (vm_compute; reflexivity).
    rewrite E3 in H. cbn [option_map] in H. injection H as H. exact H. }
  split; [vm_compute; repeat constructor; cbn; tauto|]. split; [exact R2|]. split; [exact R3|]. split.
  - rewrite R2. cbn. intros H. inversion H as [|? ? _ H']; subst. inversion H' as [|? ? Hn _]; subst. apply Hn. cbn. tauto.
  - rewrite R2, R3. intros H. specialize (H [1; 2; 4] (or_intror (or_introl eq_refl))). cbn in H.
    destruct H as [H|[H|[H|[]]]]; discriminate.
Qed.
