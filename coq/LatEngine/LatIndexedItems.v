(* B13 - lock-step simulation, part 2: index reads (clause, first clause of a simple join, aggregate), rule bodies, rule
   variants, one evaluation of the rules of an SCC.  For a plan accepted by LatIndexedEval.xplan_ok the row numbers an
   index over key columns lists under a key are exactly those LatEval's view selects, so the two engines run in lock step. *)
From Coq Require Import List ZArith Bool Arith Lia.
From AV Require Import Engine.Core.
From AV Require Import Engine.Eval.
From AV Require Import LatEngine.LatSyntax.
From AV Require Import LatEngine.LatEval.
From AV Require Import LatEngine.LatClause.
From AV Require Import LatEngine.LatMono.
From AV Require Import LatEngine.LatBase.
From AV Require Import LatEngine.LatHead.
From AV Require Import LatEngine.LatKeys.
From AV Require Import LatEngine.LatAggEval.
From AV Require Import LatEngine.LatIndexedEval.
From AV Require Import LatEngine.LatIndexedBase.
From AV Require Import LatEngine.LatIndexedStore.
From AV Require Import LatEngine.LatIndexedSim.
Import ListNotations.
Local Open Scope nat_scope.

Lemma filter_nil_all : forall (A : Type) (p : A -> bool) l, (forall x, In x l -> p x = false) -> filter p l = [].
Proof.
  intros A p. induction l as [|a l IH]; intros H; [reflexivity|]. cbn [filter]. rewrite (H a (or_introl eq_refl)).
  apply IH. intros x Hx. apply H. right. exact Hx.
Qed.

Section Items.
Context {V : Type}.
Variable I : linterp V.
Hypothesis Heq : veqb_ok I.
Variable vagg : nat -> list (list V) -> list V.
Variable islat : rel -> bool.
Variable jm : rel -> V -> V -> V * bool.
Variable shuffle : nat -> list nat -> list nat.
Hypothesis Hshuf : forall n l x, In x (shuffle n l) -> In x l.
Variable ashuffle : nat -> list nat -> list nat.
Hypothesis Hashuf : forall n l x, In x (ashuffle n l) -> In x l.
Variable swap_oracle : nat -> list nat -> list nat -> bool.
Variable arities : list (rel * nat).
Variable ds : list xdecl.
Notation ar := (ar_of arities).
Hypothesis Hdecl : forall r, islat r = true -> xdecl_ok islat arities ds r = true.

Variable dyn : list rel.
Variables St' T' D' : rel -> list nat.
Variables St T D : rel -> list nat.
Variables XS XT XD : rel -> list (xidx (V:=V)).
Hypothesis Hplain : forall r, islat r = false -> St r = St' r /\ T r = T' r /\ D r = D' r.
Variable R0 : rel -> list (vtuple V).
Hypothesis Hcov0 : forall r i, is_dyn dyn r = true -> i < length (R0 r) -> In i (T' r) \/ In i (D' r).

Notation stinv := (stinv (V:=V) I arities ds).
Notation Sim := (sim I islat arities ds dyn St' T' D' XS XT XD R0).
Notation kread := (kread arities).

(* ---------- the versions a clause reads, paired with the view engine's lists ---------- *)
Definition vpairs (r : rel) (ver : version) : list (list (xidx (V:=V)) * list nat) :=
  if is_dyn dyn r then
    match ver with VTotal => [(XT r, T' r)] | VDelta => [(XD r, D' r)] | VTotalDelta => [(XT r, T' r); (XD r, D' r)] end
  else [(XS r, St' r)].

Lemma xver_pairs : forall r ver, xver dyn XS XT XD r ver = map fst (vpairs r ver).
Proof. intros r ver. unfold xver, vpairs. destruct (is_dyn dyn r); [destruct ver|]; reflexivity. Qed.

Lemma vrows_pairs : forall r ver, vrows dyn St' T' D' r ver = flat_map snd (vpairs r ver).
Proof.
  intros r ver. unfold vrows, vpairs. destruct (is_dyn dyn r); [destruct ver|]; cbn [flat_map snd]; rewrite ?app_nil_r; reflexivity.
Qed.

Lemma vrows_plain : forall r ver, islat r = false -> vrows dyn St T D r ver = vrows dyn St' T' D' r ver.
Proof. intros r ver Hl. destruct (Hplain r Hl) as [E1 [E2 E3]]. unfold vrows. rewrite E1, E2, E3. reflexivity. Qed.

Lemma pairs_inv : forall xs s r ver, Sim xs s -> islat r = true ->
  forall p, In p (vpairs r ver) -> stinv (i_rows s) r (fst p) (snd p).
Proof.
  intros xs s r ver Hs Hl p Hp. destruct (sm_all _ _ _ _ _ _ _ _ _ _ _ _ _ _ Hs r Hl) as [H1 H2]. unfold vpairs in Hp.
  destruct (is_dyn dyn r) eqn:Hd.
  - destruct (H2 eq_refl) as [A [B _]]. destruct ver; cbn in Hp; intuition (subst; cbn [fst snd]; auto).
  - destruct Hp as [<-|[]]. cbn [fst snd]. apply H1. reflexivity.
Qed.

Section Pairs.
Variable R : rel -> list (vtuple V).
Variable r : rel.
Hypothesis Hl : islat r = true.
Hypothesis Hlen : rows_len islat arities R.
Hypothesis Hnd : NoDup (map tkey (R r)).
Variable ps : list (list (xidx (V:=V)) * list nat).
Hypothesis Hps : forall p, In p ps -> stinv R r (fst p) (snd p).

Lemma pairs_U : flat_map (fun st => e_vals (kidx st)) (map fst ps) = flat_map snd ps.
Proof.
  induction ps as [|p ps' IH]; [reflexivity|]. cbn [map flat_map]. f_equal.
  - rewrite (stinv_kidx I islat arities ds Hdecl R r _ _ Hl (Hps p (or_introl eq_refl))). apply e_vals_keyform.
  - apply IH. intros q Hq. apply Hps. right. exact Hq.
Qed.

Variable cols : list nat.
Hypothesis Hdc : xdeclared ds r cols = true.
Hypothesis Hkr : kread r cols.

Lemma pairs_get : forall key i,
  In i (flat_map (fun st => e_get I key (xents st cols)) (map fst ps))
  <-> In i (flat_map snd ps) /\ exists row, nth_error (R r) i = Some row /\ vproj I cols row = key.
Proof.
  intros key i. rewrite !in_flat_map. split.
  - intros [st [Hst Hi]]. apply in_map_iff in Hst as [p [<- Hp]].
    pose proof (stinv_xents I Heq islat arities ds Hdecl R r _ _ cols Hl Hlen Hnd (Hps p Hp) Hdc Hkr) as Hok.
    apply (ix_ok_get I Heq _ _ _ _ key i Hok) in Hi. destruct Hi as [H1 H2]. split; [exists p; split; assumption | exact H2].
  - intros [[p [Hp Hi]] Hrow]. exists (fst p). split; [apply in_map; exact Hp|].
    pose proof (stinv_xents I Heq islat arities ds Hdecl R r _ _ cols Hl Hlen Hnd (Hps p Hp) Hdc Hkr) as Hok.
    apply (ix_ok_get I Heq _ _ _ _ key i Hok). split; assumption.
Qed.

Lemma pairs_all : forall k i,
  In (k, i) (flat_map (fun st => e_pairs (xents st cols)) (map fst ps))
  <-> In i (flat_map snd ps) /\ exists row, nth_error (R r) i = Some row /\ vproj I cols row = k.
Proof.
  intros k i. rewrite !in_flat_map. split.
  - intros [st [Hst Hi]]. apply in_map_iff in Hst as [p [<- Hp]].
    destruct (stinv_xents I Heq islat arities ds Hdecl R r _ _ cols Hl Hlen Hnd (Hps p Hp) Hdc Hkr) as [HS _].
    apply e_pairs_In in Hi as [l [H1 H2]]. destruct (HS k l i H1 H2) as [H3 H4]. split; [exists p; split; assumption | exact H4].
  - intros [[p [Hp Hi]] [row [Hn Hk]]]. exists (fst p). split; [apply in_map; exact Hp|].
    destruct (stinv_xents I Heq islat arities ds Hdecl R r _ _ cols Hl Hlen Hnd (Hps p Hp) Hdc Hkr) as [_ HC].
    pose proof (HC i row Hi Hn) as Hg. rewrite Hk in Hg. destruct (e_get_In I Heq _ _ _ Hg) as [l [H1 H2]].
    apply e_pairs_In. exists l. split; assumption.
Qed.
End Pairs.

(* what a state in the simulation knows about the reads of relation r *)
Lemma sim_facts : forall xs s r, Sim xs s -> islat r = true ->
  rows_len islat arities (i_rows s) /\ NoDup (map tkey (i_rows s r)).
Proof.
  intros xs s r Hs Hl. split; [exact (sm_len _ _ _ _ _ _ _ _ _ _ _ _ _ _ Hs)|].
  exact (ki_key _ _ _ _ (sm_kinv _ _ _ _ _ _ _ _ _ _ _ _ _ _ Hs) r Hl).
Qed.

Lemma sim_U : forall xs s r ver, Sim xs s -> islat r = true -> xU dyn XS XT XD r ver = vrows dyn St' T' D' r ver.
Proof.
  intros xs s r ver Hs Hl. unfold xU. rewrite xver_pairs, vrows_pairs.
  apply (pairs_U (i_rows s) r Hl). apply (pairs_inv xs s r ver Hs Hl).
Qed.

Lemma sim_urows : forall xs s r ver, Sim xs s -> urows islat dyn St T D XS XT XD r ver = vrows dyn St' T' D' r ver.
Proof.
  intros xs s r ver Hs. unfold urows. destruct (islat r) eqn:Hl; [apply (sim_U xs s); auto | apply vrows_plain; exact Hl].
Qed.

Lemma sim_get : forall xs s r cols ver key i, Sim xs s -> islat r = true -> xdeclared ds r cols = true -> kread r cols ->
  (In i (xget I dyn XS XT XD r cols ver key)
   <-> In i (vrows dyn St' T' D' r ver) /\ exists row, nth_error (i_rows s r) i = Some row /\ vproj I cols row = key).
Proof.
  intros xs s r cols ver key i Hs Hl Hdc Hkr. unfold xget. rewrite xver_pairs, vrows_pairs.
  destruct (sim_facts xs s r Hs Hl) as [F1 F2].
  apply (pairs_get (i_rows s) r Hl F1 F2 _ (pairs_inv xs s r ver Hs Hl) cols Hdc Hkr).
Qed.

Lemma sim_all : forall xs s r cols ver k i, Sim xs s -> islat r = true -> xdeclared ds r cols = true -> kread r cols ->
  (In (k, i) (xall dyn XS XT XD r cols ver)
   <-> In i (vrows dyn St' T' D' r ver) /\ exists row, nth_error (i_rows s r) i = Some row /\ vproj I cols row = k).
Proof.
  intros xs s r cols ver k i Hs Hl Hdc Hkr. unfold xall. rewrite xver_pairs, vrows_pairs.
  destruct (sim_facts xs s r Hs Hl) as [F1 F2].
  apply (pairs_all (i_rows s) r Hl F1 F2 _ (pairs_inv xs s r ver Hs Hl) cols Hdc Hkr).
Qed.

Lemma sim_range : forall xs s r ver i, Sim xs s -> islat r = true -> In i (vrows dyn St' T' D' r ver) -> i < length (i_rows s r).
Proof.
  intros xs s r ver i Hs Hl Hi. rewrite vrows_pairs in Hi. apply in_flat_map in Hi as [p [Hp Hi]].
  destruct (pairs_inv xs s r ver Hs Hl p Hp) as [_ [_ [_ [_ Hrg]]]]. apply Hrg. exact Hi.
Qed.

(* ---------- continuations ---------- *)
Definition krel (k' : venv V -> xstate (V:=V) -> xstate) (k : venv V -> @istate V -> istate) : Prop :=
  forall e xs s, Sim xs s -> Sim (k' e xs) (k e s).

Lemma fold_sim : forall (A : Type) (f' : xstate (V:=V) -> A -> xstate) (f : @istate V -> A -> istate) l xs s,
  (forall xs s a, Sim xs s -> Sim (f' xs a) (f s a)) -> Sim xs s -> Sim (fold_left f' l xs) (fold_left f l s).
Proof. intros A f' f. induction l as [|a l IH]; intros xs s Hf Hs; cbn [fold_left]; auto. Qed.

(* ---------- a clause read through its own index ---------- *)
Lemma fold_clause_lat : forall k' k e r args cs idx key content L, krel k' k -> islat r = true ->
  (forall xs s i, Sim xs s -> In i L ->
     (In i content <-> exists row, nth_error (i_rows s r) i = Some row /\ vproj I idx row = key)) ->
  forall l xs s, (forall i, In i l -> In i L) -> Sim xs s ->
  Sim (fold_left (xstep I k' e r args cs) (filter (fun i => nmem i content) l) xs)
      (fold_left (clause_step I k e r args cs idx key) l s).
Proof.
  intros k' k e r args cs idx key content L Hk Hl Hc. induction l as [|i l IH]; intros xs s HL Hs; [exact Hs|].
  cbn [filter fold_left]. assert (HiL : In i L) by (apply HL; left; reflexivity).
  assert (HL' : forall j, In j l -> In j L) by (intros j Hj; apply HL; right; exact Hj).
  destruct (nmem i content) eqn:E.
  - cbn [fold_left]. apply IH; [exact HL'|]. apply nmem_In in E. apply (Hc xs s i Hs HiL) in E. destruct E as [row [Hn Hkk]].
    unfold xstep, clause_step, xrows. rewrite (sm_rows _ _ _ _ _ _ _ _ _ _ _ _ _ _ Hs), Hn, Hkk, (veq_refl I Heq).
    destruct (vsat_conds I (vbind_new e args row) cs); [apply Hk; exact Hs | exact Hs].
  - apply IH; [exact HL'|]. unfold clause_step. destruct (nth_error (i_rows s r) i) as [row|] eqn:Hn; [|exact Hs].
    destruct (vlist_eqb I (vproj I idx row) key) eqn:Ek; [|exact Hs]. exfalso.
    apply (vlist_eqb_eq I Heq) in Ek. assert (Hin : In i content) by (apply (Hc xs s i Hs HiL); exists row; split; assumption).
    apply nmem_In in Hin. congruence.
Qed.

Lemma fold_clause_plain : forall k' k e r args cs idx key, krel k' k ->
  forall l xs s, Sim xs s ->
  Sim (fold_left (pstep I k' e r args cs idx key) l xs) (fold_left (clause_step I k e r args cs idx key) l s).
Proof.
  intros k' k e r args cs idx key Hk l xs s Hs. apply fold_sim; [|exact Hs]. clear xs s Hs. intros xs s i Hs.
  unfold pstep, clause_step, xrows. rewrite (sm_rows _ _ _ _ _ _ _ _ _ _ _ _ _ _ Hs).
  destruct (nth_error (i_rows s r) i) as [row|]; [|exact Hs]. destruct (vlist_eqb I (vproj I idx row) key); [|exact Hs].
  destruct (vsat_conds I (vbind_new e args row) cs); [apply Hk; exact Hs | exact Hs].
Qed.

Definition clause_side (r : rel) (idx : list nat) : Prop := islat r = true -> xdeclared ds r idx = true /\ kread r idx.

Lemma sim_clause : forall k' k e r args cs idx ver xs s, krel k' k -> Sim xs s -> clause_side r idx ->
  Sim (xeval_clause I islat shuffle dyn St T D XS XT XD k' e r args cs idx ver xs)
      (eval_clause I shuffle dyn St' T' D' k e r args cs idx ver s).
Proof.
  intros k' k e r args cs idx ver xs s Hk Hs Hside. unfold xeval_clause, eval_clause.
  destruct (veval_key I e args idx) as [key|]; [|exact Hs]. pose proof (sim_tick _ _ _ _ _ _ _ _ _ _ _ _ _ _ Hs) as Hst.
  unfold xtk. rewrite (sm_tk _ _ _ _ _ _ _ _ _ _ _ _ _ _ Hs). destruct (islat r) eqn:Hl.
  - destruct (Hside Hl) as [Hdc Hkr]. rewrite (sim_U xs s r ver Hs Hl).
    set (L := vrows dyn St' T' D' r ver). set (content := xget I dyn XS XT XD r idx ver key). unfold xorder.
    rewrite (filter_nil_all _ (fun i => negb (nmem i L)) content), app_nil_r.
    + apply (fold_clause_lat k' k e r args cs idx key content L Hk Hl).
      * intros xs1 s1 i H1 HiL. unfold content. rewrite (sim_get xs1 s1 r idx ver key i H1 Hl Hdc Hkr). fold L. tauto.
      * intros i Hi. apply Hshuf in Hi. exact Hi.
      * exact Hst.
    + intros i Hi. unfold content in Hi. apply (sim_get xs s r idx ver key i Hs Hl Hdc Hkr) in Hi. destruct Hi as [Hi _].
      fold L in Hi. apply nmem_In in Hi. rewrite Hi. reflexivity.
  - rewrite (vrows_plain r ver Hl). apply fold_clause_plain; auto.
Qed.

(* ---------- the first clause of a simple join: iter_all over its own index ---------- *)
Lemma overlay_self : forall cols (row : vtuple V), (forall c, In c cols -> c < length row) -> overlay cols (vproj I cols row) row = row.
Proof.
  induction cols as [|c cols IH]; intros row Hc; [reflexivity|]. cbn [vproj map overlay]. fold (vproj I cols row).
  assert (Hs : set_nth c (nth c row (vd I)) row = row).
  { apply set_nth_same. apply nth_error_nth'. apply Hc. left. reflexivity. }
  rewrite Hs. apply IH. intros c' Hc'. apply Hc. right. exact Hc'.
Qed.

Lemma kdedup_const : forall (K : list V) l, l <> [] -> (forall k, In k l -> k = K) -> kdedup I l = [K].
Proof.
  intros K. induction l as [|k l IH]; intros Hne Hall; [contradiction|]. cbn [kdedup].
  assert (k = K) by (apply Hall; left; reflexivity). subst k. destruct l as [|k2 l].
  - reflexivity.
  - assert (k2 = K) by (apply Hall; right; left; reflexivity). subst k2. cbn [existsb]. rewrite (veq_refl I Heq). cbn [orb].
    apply IH; [discriminate|]. intros k Hk. apply Hall. right. exact Hk.
Qed.

Lemma fold_all_lat : forall k' k e r args cs idx pairs L, krel k' k -> islat r = true -> kread r idx ->
  (forall xs s i kk, Sim xs s -> In i L ->
     (In (kk, i) pairs <-> exists row, nth_error (i_rows s r) i = Some row /\ vproj I idx row = kk)) ->
  (forall xs s i, Sim xs s -> In i L -> i < length (i_rows s r)) ->
  forall l xs s, (forall i, In i l -> In i L) -> Sim xs s ->
  Sim (fold_left (xstep_all I k' e r args cs idx) (flat_map (fun i => map (fun kk => (kk, i)) (keys_of I i pairs)) l) xs)
      (fold_left (clause_step I k e r args cs [] []) l s).
Proof.
  intros k' k e r args cs idx pairs L Hk Hl Hkr Hc Hrg. induction l as [|i l IH]; intros xs s HL Hs; [exact Hs|].
  cbn [flat_map]. rewrite fold_left_app. cbn [fold_left]. assert (HiL : In i L) by (apply HL; left; reflexivity).
  apply IH; [intros j Hj; apply HL; right; exact Hj|].
  pose proof (Hrg xs s i Hs HiL) as Hil. destruct (nth_error (i_rows s r) i) as [row|] eqn:Hn; [|apply nth_error_None in Hn; lia].
  assert (Hkeys : keys_of I i pairs = [vproj I idx row]).
  { unfold keys_of. apply kdedup_const.
    - assert (Hin : In (vproj I idx row, i) pairs) by (apply (Hc xs s i _ Hs HiL); exists row; split; [exact Hn | reflexivity]).
      intros E. assert (Hin2 : In (vproj I idx row) (map fst (filter (fun p => Nat.eqb (snd p) i) pairs))).
      { apply in_map_iff. exists (vproj I idx row, i). split; [reflexivity|]. apply filter_In. split; [exact Hin | apply Nat.eqb_refl]. }
      rewrite E in Hin2. destruct Hin2.
    - intros kk Hkk. apply in_map_iff in Hkk as [[k0 j] [<- Hp]]. apply filter_In in Hp as [Hp Ej]. cbn [fst snd] in *.
      apply Nat.eqb_eq in Ej. subst j. apply (Hc xs s i k0 Hs HiL) in Hp. destruct Hp as [row' [Hn' Hk']]. congruence. }
  rewrite Hkeys. cbn [map fold_left]. unfold xstep_all, clause_step, xrows. cbn [fst snd].
  rewrite (sm_rows _ _ _ _ _ _ _ _ _ _ _ _ _ _ Hs), Hn. cbn [vproj map vlist_eqb].
  rewrite overlay_self.
  - destruct (vsat_conds I (vbind_new e args row) cs); [apply Hk; exact Hs | exact Hs].
  - intros c Hcc. destruct Hkr as [Hk1 _]. specialize (Hk1 c Hcc).
    rewrite (sm_len _ _ _ _ _ _ _ _ _ _ _ _ _ _ Hs r Hl row) by (eapply nth_error_In; eauto). lia.
Qed.

Lemma sim_clause_all : forall k' k e r args cs idx ver xs s, krel k' k -> Sim xs s -> clause_side r idx ->
  Sim (xeval_clause_all I islat shuffle dyn St T D XS XT XD k' e r args cs idx ver xs)
      (eval_clause I shuffle dyn St' T' D' k e r args cs [] ver s).
Proof.
  intros k' k e r args cs idx ver xs s Hk Hs Hside. unfold xeval_clause_all, eval_clause. cbn [veval_key].
  pose proof (sim_tick _ _ _ _ _ _ _ _ _ _ _ _ _ _ Hs) as Hst.
  unfold xtk. rewrite (sm_tk _ _ _ _ _ _ _ _ _ _ _ _ _ _ Hs). destruct (islat r) eqn:Hl.
  - destruct (Hside Hl) as [Hdc Hkr]. rewrite (sim_U xs s r ver Hs Hl).
    set (L := vrows dyn St' T' D' r ver). set (pairs := xall dyn XS XT XD r idx ver). unfold xorder_all.
    rewrite (filter_nil_all _ (fun p => negb (nmem (snd p) L)) pairs), app_nil_r.
    + apply (fold_all_lat k' k e r args cs idx pairs L Hk Hl Hkr).
      * intros xs1 s1 i kk H1 HiL. unfold pairs. rewrite (sim_all xs1 s1 r idx ver kk i H1 Hl Hdc Hkr). fold L. tauto.
      * intros xs1 s1 i H1 HiL. apply (sim_range xs1 s1 r ver i H1 Hl). exact HiL.
      * intros i Hi. apply Hshuf in Hi. exact Hi.
      * exact Hst.
    + intros [kk i] Hi. unfold pairs in Hi. apply (sim_all xs s r idx ver kk i Hs Hl Hdc Hkr) in Hi. destruct Hi as [Hi _].
      fold L in Hi. apply nmem_In in Hi. cbn [snd]. rewrite Hi. reflexivity.
  - rewrite (vrows_plain r ver Hl). apply fold_clause_plain; auto.
Qed.

(* ---------- aggregates ---------- *)
Lemma agg_rows_lat : forall R idx key content L l,
  (forall i, In i L -> (In i content <-> exists row, nth_error R i = Some row /\ vproj I idx row = key)) ->
  (forall i, In i l -> In i L) ->
  filter_map (fun i => nth_error R i) (filter (fun i => nmem i content) l) = agg_matching I R idx key l.
Proof.
  intros R idx key content L. induction l as [|i l IH]; intros Hc HL; [reflexivity|].
  unfold agg_matching in *. cbn [filter filter_map].
  assert (HiL : In i L) by (apply HL; left; reflexivity).
  assert (IH' := IH Hc (fun j Hj => HL j (or_intror Hj))).
  destruct (nmem i content) eqn:E.
  - apply nmem_In in E. apply (Hc i HiL) in E. destruct E as [row [Hn Hk]]. cbn [filter_map]. rewrite Hn, Hk, (veq_refl I Heq). f_equal. exact IH'.
  - destruct (nth_error R i) as [row|] eqn:Hn; [|exact IH']. destruct (vlist_eqb I (vproj I idx row) key) eqn:Ek; [|exact IH'].
    exfalso. apply (vlist_eqb_eq I Heq) in Ek. assert (Hin : In i content) by (apply (Hc i HiL); exists row; split; assumption).
    apply nmem_In in Hin. congruence.
Qed.

Definition agg_side (r : rel) (idx : list nat) : Prop := islat r = true -> xdeclared ds r idx = true /\ kread r idx.

Lemma sim_agg_values : forall e xs s a bound r args idx, Sim xs s -> agg_side r idx ->
  xagg_values I vagg islat ashuffle dyn St T D XS XT XD e xs a bound r args idx
  = agg_values I vagg islat ashuffle dyn St' T' D' e s a bound r args idx.
Proof.
  intros e xs s a bound r args idx Hs Hside. unfold xagg_values, agg_values.
  destruct (vagg_key I e args idx) as [key|]; [|reflexivity]. f_equal. f_equal. f_equal.
  unfold xtk, xrows. rewrite (sm_tk _ _ _ _ _ _ _ _ _ _ _ _ _ _ Hs), (sm_rows _ _ _ _ _ _ _ _ _ _ _ _ _ _ Hs).
  destruct (islat r) eqn:Hl.
  - destruct (Hside Hl) as [Hdc Hkr]. unfold xagg_rows, agg_rows. cbn [negb andb].
    unfold xtk, xrows. rewrite (sm_tk _ _ _ _ _ _ _ _ _ _ _ _ _ _ Hs), (sm_rows _ _ _ _ _ _ _ _ _ _ _ _ _ _ Hs).
    rewrite (sim_U xs s r VTotal Hs Hl).
    set (L := vrows dyn St' T' D' r VTotal). set (content := xget I dyn XS XT XD r idx VTotal key). unfold xorder.
    rewrite (filter_nil_all _ (fun i => negb (nmem i L)) content), app_nil_r.
    + apply (agg_rows_lat (i_rows s r) idx key content L).
      * intros i HiL. unfold content. rewrite (sim_get xs s r idx VTotal key i Hs Hl Hdc Hkr). fold L. tauto.
      * intros i Hi. apply Hashuf in Hi. exact Hi.
    + intros i Hi. unfold content in Hi. apply (sim_get xs s r idx VTotal key i Hs Hl Hdc Hkr) in Hi. destruct Hi as [Hi _].
      fold L in Hi. apply nmem_In in Hi. rewrite Hi. reflexivity.
  - rewrite (vrows_plain r VTotal Hl). reflexivity.
Qed.

(* ---------- rule bodies ---------- *)
Definition item_side (p : pitem) : Prop :=
  match p with
  | PClause r _ _ idx _ => clause_side r idx
  | PAgg _ _ _ r _ idx => agg_side r idx
  | _ => True
  end.

Notation xeval_items := (xeval_items I vagg islat shuffle ashuffle dyn St T D XS XT XD).
Notation aeval_items := (aeval_items I vagg islat shuffle ashuffle dyn St' T' D').

Lemma sim_items : forall items k' k, Forall item_side items -> krel k' k -> krel (xeval_items items k') (aeval_items items k).
Proof.
  induction items as [|p rest IH]; intros k' k Hside Hk e xs s Hs; cbn [LatIndexedEval.xeval_items LatAggEval.aeval_items].
  - apply Hk. exact Hs.
  - inversion Hside as [|? ? Hp Hrest]; subst. destruct p as [r args cs idx ver|c|x g xs0|out a bound r args idx].
    + apply sim_clause; [apply IH; auto | exact Hs | exact Hp].
    + destruct (vsat_cond I e c); [apply IH; auto | exact Hs].
    + destruct (veval_vars e xs0); [|exact Hs]. apply fold_sim; [|exact Hs]. intros xs1 s1 v H1. apply IH; auto.
    + rewrite (sim_agg_values e xs s a bound r args idx Hs Hp).
      destruct (agg_values I vagg islat ashuffle dyn St' T' D' e s a bound r args idx); [|exact Hs].
      apply fold_sim; [|exact Hs]. intros xs1 s1 v H1. apply IH; auto.
Qed.

Notation xeval_simple_join := (xeval_simple_join I vagg islat shuffle ashuffle swap_oracle dyn St T D XS XT XD).
Notation aeval_simple_join := (aeval_simple_join I vagg islat shuffle ashuffle swap_oracle dyn St' T' D').

Lemma sim_sj : forall items reord k' k, Forall item_side items -> krel k' k ->
  krel (xeval_simple_join items reord k') (aeval_simple_join items reord k).
Proof.
  intros items reord k' k Hside Hk e xs s Hs. unfold LatIndexedEval.xeval_simple_join, LatAggEval.aeval_simple_join.
  destruct items as [|[r1 a1 c1 i1 v1|c|x g xs0|o a bd r args idx] items]; try (apply sim_items; auto).
  destruct items as [|[r2 a2 c2 i2 v2|c|x g xs0|o a bd r args idx] rest]; try (apply sim_items; auto).
  inversion Hside as [|? ? Hp1 Hr1]; subst. inversion Hr1 as [|? ? Hp2 Hr2]; subst.
  unfold xtk. rewrite (sm_tk _ _ _ _ _ _ _ _ _ _ _ _ _ _ Hs), (sim_urows xs s r1 v1 Hs), (sim_urows xs s r2 v2 Hs).
  destruct (reord && negb (swap_oracle (i_tick s) (vrows dyn St' T' D' r1 v1) (vrows dyn St' T' D' r2 v2))).
  - apply sim_clause_all; [|exact Hs | assumption]. intros e1 xs1 s1 H1. apply sim_clause; [apply sim_items; auto | exact H1 | assumption].
  - apply sim_clause_all; [|exact Hs | assumption]. intros e1 xs1 s1 H1. apply sim_clause; [apply sim_items; auto | exact H1 | assumption].
Qed.

Notation xeval_from := (xeval_from I vagg islat shuffle ashuffle swap_oracle dyn St T D XS XT XD).
Notation aeval_from := (aeval_from I vagg islat shuffle ashuffle swap_oracle dyn St' T' D').

Lemma sim_from : forall sj items reord k' k, Forall item_side items -> krel k' k ->
  krel (xeval_from items sj reord k') (aeval_from items sj reord k).
Proof.
  intros [n|]; [|intros items reord k' k Hside Hk; destruct items; cbn [LatIndexedEval.xeval_from LatAggEval.aeval_from]; apply sim_items; auto].
  induction n as [|n IH]; intros items reord k' k Hside Hk.
  - destruct items; cbn [LatIndexedEval.xeval_from LatAggEval.aeval_from]; apply sim_sj; auto.
  - intros e xs s Hs. destruct items as [|p rest]; cbn [LatIndexedEval.xeval_from LatAggEval.aeval_from]; [apply Hk; exact Hs|].
    inversion Hside as [|? ? Hp Hrest]; subst. destruct p as [r args cs idx ver|c|x g xs0|out a bound r args idx].
    + apply sim_clause; [apply IH; auto | exact Hs | exact Hp].
    + destruct (vsat_cond I e c); [apply IH; auto | exact Hs].
    + destruct (veval_vars e xs0); [|exact Hs]. apply fold_sim; [|exact Hs]. intros xs1 s1 v H1. apply IH; auto.
    + rewrite (sim_agg_values e xs s a bound r args idx Hs Hp).
      destruct (agg_values I vagg islat ashuffle dyn St' T' D' e s a bound r args idx); [|exact Hs].
      apply fold_sim; [|exact Hs]. intros xs1 s1 v H1. apply IH; auto.
Qed.

(* ---------- is_empty of the clause's own index ---------- *)
Lemma sim_empty : forall xs s p, Sim xs s -> item_side p ->
  xclause_empty islat dyn St T D XS XT XD p = clause_empty dyn St' T' D' p.
Proof.
  intros xs s p Hs Hside. destruct p as [r args cs idx ver|c|x g xs0|out a bound r args idx]; try reflexivity.
  cbn [xclause_empty clause_empty]. destruct (islat r) eqn:Hl; [|rewrite (vrows_plain r ver Hl); reflexivity].
  destruct (Hside Hl) as [Hdc Hkr].
  destruct (xall dyn XS XT XD r idx ver) as [|[kk i] pairs] eqn:Ex; destruct (vrows dyn St' T' D' r ver) as [|j L] eqn:Ev; try reflexivity.
  - exfalso. assert (Hj : In j (vrows dyn St' T' D' r ver)) by (rewrite Ev; left; reflexivity).
    pose proof (sim_range xs s r ver j Hs Hl Hj) as Hr. destruct (nth_error (i_rows s r) j) as [row|] eqn:Hn; [|apply nth_error_None in Hn; lia].
    assert (Hin : In (vproj I idx row, j) (xall dyn XS XT XD r idx ver)) by (apply (sim_all xs s r idx ver _ j Hs Hl Hdc Hkr); split; [exact Hj | exists row; auto]).
    rewrite Ex in Hin. destruct Hin.
  - exfalso. assert (Hin : In (kk, i) (xall dyn XS XT XD r idx ver)) by (rewrite Ex; left; reflexivity).
    apply (sim_all xs s r idx ver kk i Hs Hl Hdc Hkr) in Hin. destruct Hin as [Hin _]. rewrite Ev in Hin. destruct Hin.
Qed.

Lemma existsb_ext_in : forall (A : Type) (f g : A -> bool) l, (forall x, In x l -> f x = g x) -> existsb f l = existsb g l.
Proof.
  intros A f g. induction l as [|a l IH]; intros H; [reflexivity|]. cbn [existsb]. rewrite (H a (or_introl eq_refl)). f_equal.
  apply IH. intros x Hx. apply H. right. exact Hx.
Qed.

(* ---------- a rule variant, the rules of an SCC ---------- *)
Definition variant_side (v : variant) : Prop :=
  Forall item_side (v_items v) /\ forall h, In h (v_heads v) -> is_dyn dyn (fst h) = true /\ length (snd h) = ar (fst h).

Lemma sim_variant : forall v xs s, Sim xs s -> variant_side v ->
  Sim (xeval_variant I vagg islat jm shuffle ashuffle swap_oracle dyn St T D XS XT XD xs v)
      (aeval_variant I vagg islat jm shuffle ashuffle swap_oracle dyn St' T' D' s v).
Proof.
  intros v xs s Hs [Hitems Hheads]. unfold xeval_variant, aeval_variant.
  rewrite (existsb_ext_in _ (xclause_empty islat dyn St T D XS XT XD) (clause_empty dyn St' T' D') (v_items v)).
  - destruct (Nat.ltb 1 (length (filter is_clause (v_items v))) &&
              negb match v_sj v with Some _ => Nat.eqb (length (filter is_clause (v_items v))) 2 | None => false end &&
              existsb (clause_empty dyn St' T' D') (v_items v)); [exact Hs|].
    apply sim_from; auto. intros e xs1 s1 H1.
    apply (sim_heads I Heq islat jm arities ds Hdecl dyn St' T' D' St T D XS XT XD Hplain R0 Hcov0); auto.
  - intros p Hp. apply (sim_empty xs s p Hs). rewrite Forall_forall in Hitems. apply Hitems. exact Hp.
Qed.

Lemma sim_variants : forall vars xs s, Sim xs s -> (forall v, In v vars -> variant_side v) ->
  Sim (fold_left (xeval_variant I vagg islat jm shuffle ashuffle swap_oracle dyn St T D XS XT XD) vars xs)
      (fold_left (aeval_variant I vagg islat jm shuffle ashuffle swap_oracle dyn St' T' D') vars s).
Proof.
  induction vars as [|v vars IH]; intros xs s Hs Hv; cbn [fold_left]; [exact Hs|].
  apply IH; [|intros v' Hv'; apply Hv; right; exact Hv']. apply sim_variant; auto. apply Hv. left. reflexivity.
Qed.
End Items.
