(* C02, lattice half - ONE parallel iteration of an SCC (LatParModel.par_lat_iteration) satisfies the per-iteration
   specification of the serial engine (LatItems.inv + the coverage of LatScc.iteration_spec):
   1. by induction along the global schedule, every row value and every contribution whose head update has started is a
      well-formed fact below every directed closed set J above the rows at the start ([SI_all]; this is where [causal]
      is used: a contribution is derived from values seen EARLIER, which are below J by induction) - in particular all
      contributions are lattice elements, so the theorems of Engine/ParLatProofs.v apply to each lattice relation's
      projection of the schedule;
   2. from those theorems: one row per key, input rows in place and only raised, every raised or created row is in
      `new`, a false flag means nothing happened ([par_sinv]);
   3. every contribution is below the final rows (least upper bounds), and [exhaustive] + monotonicity: every head
      instance of a variant over the START rows is below the final rows ([par_cover]). *)
From Coq Require Import List ZArith Bool Arith Lia.
From AV Require Import Engine.Core.
From AV Require Import Engine.Eval.
From AV Require Import Engine.Validate.
From AV Require Import Engine.Naive.
From AV Require Import Engine.NaiveLemmas.
From AV Require Engine.Strata.
From AV Require Engine.ParLat.
From AV Require Engine.ParLatProofs.
From AV Require Import LatEngine.LatSyntax.
From AV Require Import LatEngine.LatEval.
From AV Require Import LatEngine.LatPlan.
From AV Require Import LatEngine.LatSem.
From AV Require Import LatEngine.LatEnv.
From AV Require Import LatEngine.LatClause.
From AV Require Import LatEngine.LatMono.
From AV Require Import LatEngine.LatBase.
From AV Require Import LatEngine.LatHead.
From AV Require Import LatEngine.LatItems.
From AV Require Import LatEngine.LatScc.
From AV Require Import LatEngine.LatMain.
From AV Require Import LatEngine.LatParModel.
From AV Require Import LatEngine.LatParHead.
From AV Require Import LatEngine.LatParItems.
Import ListNotations.
Local Open Scope nat_scope.

(* ---------- lists ---------- *)
Lemma nth_error_map_some : forall (A B : Type) (f : A -> B) l i b,
  nth_error (map f l) i = Some b -> exists a, nth_error l i = Some a /\ b = f a.
Proof.
  intros A B f l i b H. rewrite nth_error_map in H. destruct (nth_error l i) as [a|]; [|discriminate].
  cbn in H. injection H as <-. eauto.
Qed.

Lemma nil_no_elements : forall (A : Type) (l : list A), (forall x, ~ In x l) -> l = [].
Proof. intros A [|a l] H; [reflexivity|]. exfalso. apply (H a). left. reflexivity. Qed.

Lemma existsb_false_in : forall (A : Type) (p : A -> bool) l x, existsb p l = false -> In x l -> p x = false.
Proof.
  intros A p l x H Hin. destruct (p x) eqn:E; [|reflexivity].
  assert (existsb p l = true) by (apply existsb_exists; eauto). congruence.
Qed.

Lemma exists_last_or_nil : forall (A : Type) (l : list A), l = [] \/ exists l' a, l = l' ++ [a].
Proof.
  intros A l. destruct l as [|x l]; [left; reflexivity|]. right.
  destruct (exists_last (l := x :: l)) as [l' [a E]]; [discriminate|]. eauto.
Qed.

Section Iter.
Context {V : Type}.
Variable I : linterp V.
Hypothesis Heq : veqb_ok I.
Variable islat : rel -> bool.
Variable lle : rel -> V -> V -> Prop.
Variable jm : rel -> V -> V -> V * bool.
Hypothesis Hlaws : forall r, islat r = true -> lat_laws (lle r) (jm r).
Variable arities : list (rel * nat).
Hypothesis Hfun : arities_functional arities.
Hypothesis Hlat1 : forall r n, islat r = true -> arity_ok arities r n = true -> 0 < n.
Variable P : list rule.
Hypothesis Hnoagg : no_agg P = true.
Hypothesis Hmono : monotone_program I islat lle P.
Variable J : db (V:=V).
Hypothesis HJdir : directed I islat lle J.
Hypothesis HJcl : closedH I islat lle P J.
Variable sc : pscc.
Hypothesis Hok : scc_ok arities P sc = true.
Hypothesis Hlatok : forallb (lat_variant_ok islat) (s_vars sc) = true.

Let dyn := s_dyn sc.
Notation tle := (tle I islat lle).
Notation below := (below I islat lle).
Notation rle := (rle I islat lle).
Notation rows_ok := (rows_ok I islat lle arities J).
Notation torow := (@torow V).
Notation ofrow := (ofrow I).
Notation keqb := (vlist_eqb I).
Notation lkey := (list V).
Notation gstate := (@LatParModel.gstate V).
Notation fact_ok := (fact_ok I islat lle arities dyn).

Lemma keqb_spec : forall a b : list V, keqb a b = true <-> a = b.
Proof. apply (vlist_eqb_eq I Heq). Qed.

(* ---------- rows as (key, value) ---------- *)
Lemma ofrow_torow : forall kv, ofrow (torow kv) = kv.
Proof. intros [k v]. unfold LatParModel.ofrow, LatParModel.torow. cbn [fst snd]. rewrite tkey_app, tval_app. reflexivity. Qed.

Lemma torow_ofrow : forall t : vtuple V, 0 < length t -> torow (ofrow t) = t.
Proof. intros t H. unfold LatParModel.ofrow, LatParModel.torow. cbn [fst snd]. apply row_rebuild. exact H. Qed.

Lemma tkey_torow : forall kv : lkey * V, tkey (torow kv) = fst kv.
Proof. intros [k v]. apply tkey_app. Qed.
Lemma tval_torow : forall kv : lkey * V, tval I (torow kv) = snd kv.
Proof. intros [k v]. apply tval_app. Qed.
Lemma len_torow : forall kv : lkey * V, length (torow kv) = S (length (fst kv)).
Proof. intros [k v]. unfold LatParModel.torow. rewrite app_length. cbn. lia. Qed.

Lemma map_tkey_torow : forall L : list (lkey * V), map tkey (map torow L) = map fst L.
Proof. intros L. rewrite map_map. apply map_ext. intros kv. apply tkey_torow. Qed.

(* every dynamic relation has a declared arity (it is a head relation of a checked variant) *)
Lemma dyn_arity : forall q, is_dyn dyn q = true -> exists n, arity_ok arities q n = true.
Proof.
  intros q Hq. pose proof (dyn_in_heads arities P sc q Hok Hq) as Hh. unfold scc_head_rels in Hh. apply in_flat_map in Hh.
  destruct Hh as [j [Hj Hq']]. destruct (nth_error P j) as [ru|] eqn:Hru; [|destruct Hq'].
  unfold rules_of_scc in Hj. apply (proj1 (dedup_nat_In _ _)) in Hj. apply in_map_iff in Hj. destruct Hj as [v [Hvj Hv]].
  destruct (variant_hyps I islat lle arities P Hnoagg Hmono J HJcl sc Hok Hlatok v Hv) as [ru' [G [Bv [Hru' [_ [Hhd [_ [Hho _]]]]]]]].
  rewrite Hvj, Hru in Hru'. injection Hru' as <-. unfold head_rels in Hq'. apply in_map_iff in Hq'. destruct Hq' as [h [Hfh Hh]].
  rewrite <- Hhd in Hh. unfold heads_ok in Hho. rewrite forallb_forall in Hho. specialize (Hho h Hh).
  apply andb_true_iff in Hho. destruct Hho as [Ha _]. subst q. eauto.
Qed.

Notation latdyn := (latdyn islat sc).

Lemma latdyn_split : forall r, latdyn r = true -> islat r = true /\ is_dyn dyn r = true.
Proof. intros r H. unfold LatParModel.latdyn in H. apply andb_true_iff in H. exact H. Qed.

(* ---------- the frozen key indices of delta / total are sound and complete for the rows at the start ---------- *)
Section Keys.
Variables T D : rel -> list nat.
Variable R : rel -> list (vtuple V).
Hypothesis Hkeys : forall r, islat r = true -> NoDup (map tkey (R r)).
Hypothesis Hcov : forall r i, is_dyn dyn r = true -> i < length (R r) -> In i (T r) \/ In i (D r).
Notation kidx := (kidx I R).

Lemma start_hasrow : forall r i k, ParLatProofs.hasrow (map ofrow (R r)) i k <-> exists row, nth_error (R r) i = Some row /\ tkey row = k.
Proof.
  intros r i k. unfold ParLatProofs.hasrow. split.
  - intros [v H]. apply nth_error_map_some in H. destruct H as [row [Hn E]]. unfold LatParModel.ofrow in E. injection E as -> _. eauto.
  - intros [row [Hn <-]]. exists (tval I row). rewrite nth_error_map, Hn. reflexivity.
Qed.

Lemma find_key_total : forall Rr k l i row, In i l -> nth_error Rr i = Some row -> tkey row = k -> exists i', find_key I Rr k l = Some i'.
Proof.
  intros Rr k l i row Hin Hn Hk. destruct (find_key I Rr k l) as [i'|] eqn:E; [eauto|].
  exfalso. exact (find_key_none I Heq _ _ _ E i row Hin Hn Hk).
Qed.

Lemma start_fz : forall r, latdyn r = true -> forall k i,
  ParLatProofs.fz (kidx D r) (kidx T r) k = Some i <-> ParLatProofs.hasrow (map ofrow (R r)) i k.
Proof.
  intros r Hr k i. destruct (latdyn_split r Hr) as [Hl Hd]. rewrite start_hasrow. unfold ParLatProofs.fz, LatParModel.kidx. split.
  - intros H. apply orelse_some in H. destruct H as [H|[_ H]]; apply (find_key_some I Heq) in H; tauto.
  - intros [row [Hn Hk]].
    assert (Huniq : forall i' row', nth_error (R r) i' = Some row' -> tkey row' = k -> i' = i).
    { intros i' row' Hn' Hk'. assert (row' = row).
      { apply (nodup_map_inj _ _ tkey (R r)); [apply (Hkeys r Hl) | eapply nth_error_In; eauto | eapply nth_error_In; eauto | congruence]. }
      subst row'. pose proof (Hkeys r Hl) as N. apply (NoDup_map_inv tkey) in N.
      eapply NoDup_nth_error; eauto; [eapply nth_error_In_lt; eauto | congruence]. }
    assert (Hres : forall l i', find_key I (R r) k l = Some i' -> i' = i).
    { intros l i' H. apply (find_key_some I Heq) in H. destruct H as [_ [row' [Hn' Hk']]]. eapply Huniq; eauto. }
    destruct (find_key I (R r) k (D r)) as [i'|] eqn:ED; cbn [ParLat.orelse].
    + f_equal. eapply Hres; eauto.
    + destruct (Hcov r i Hd (nth_error_In_lt _ _ _ _ Hn)) as [HT|HD].
      * destruct (find_key_total (R r) k (T r) i row HT Hn Hk) as [i' E]. rewrite E. f_equal. eapply Hres; eauto.
      * exfalso. exact (find_key_none I Heq _ _ _ ED i row HD Hn Hk).
Qed.

(* every state a schedule reaches satisfies the structural invariant of ParLatProofs, whatever the contributions are;
   hence no deadlock among the head updates: an unfinished lattice relation has a worker that can move *)
Lemma run_inv1_any : forall (mx : list V -> nat) kfirst work sched r, latdyn r = true ->
  ParLatProofs.inv1 keqb mx kfirst (kidx D r) (kidx T r)
    (ParLat.run_sched keqb (jm r) mx kfirst true (kidx D r) (kidx T r) (ParLat.par_init (map ofrow (R r)) [] [] false work) sched).
Proof.
  intros mx kfirst work sched r Hr. destruct (latdyn_split r Hr) as [Hl Hd].
  apply (ParLatProofs.run_inv1 keqb keqb_spec). apply (fresh_inv1 keqb).
  - rewrite map_map. erewrite map_ext; [apply (Hkeys r Hl)|]. intros row. reflexivity.
  - apply start_fz. exact Hr.
Qed.
End Keys.

Section Start.
Variables St T D : rel -> list nat.
Variable R : rel -> list (vtuple V).
Hypothesis HR : rows_ok R.
Hypothesis Hcov : forall r i, is_dyn dyn r = true -> i < length (R r) -> In i (T r) \/ In i (D r).

Notation kidx := (kidx I R).

Lemma row_pos : forall r row, latdyn r = true -> In row (R r) -> 0 < length row.
Proof.
  intros r row Hr Hin. destruct (latdyn_split r Hr) as [Hl Hd]. destruct (dyn_arity r Hd) as [n Hn].
  rewrite (ro_ar _ _ _ _ _ _ HR r row Hin n Hn). eapply Hlat1; eauto.
Qed.

Lemma start_rows_back : forall r, latdyn r = true -> map torow (map ofrow (R r)) = R r.
Proof.
  intros r Hr. rewrite map_map. rewrite <- (map_id (R r)) at 2. apply map_ext_in. intros row Hin.
  apply torow_ofrow. eapply row_pos; eauto.
Qed.

Lemma start_fz_s : forall r, latdyn r = true -> forall k i,
  ParLatProofs.fz (kidx D r) (kidx T r) k = Some i <-> ParLatProofs.hasrow (map ofrow (R r)) i k.
Proof. exact (start_fz T D R (ro_key _ _ _ _ _ _ HR) Hcov). Qed.

(* ---------- a run ---------- *)
Section Run.
Variable mx : rel -> lkey -> nat.
Variable kfirst : rel -> bool.
Variable work : rel -> list (list (lkey * V)).
Variable Cp : rel -> list (vtuple V).
Variable sched : list (rel * nat).

Notation lstep := (lstep I jm T D R mx kfirst).
Notation gstep := (gstep I jm T D R mx kfirst).
Notation grun := (grun I jm T D R mx kfirst).
Notation ginit := (ginit I R work).
Notation cur := (cur islat sc R).
Notation seen := (seen I islat jm sc T D R mx kfirst work).
Notation derived := (derived I sc St T D).
Notation pinv1 r := (@ParLatProofs.inv1 lkey V keqb (mx r) (kfirst r) (kidx D r) (kidx T r)).
Notation prun r := (ParLat.run_sched keqb (jm r) (mx r) (kfirst r) true (kidx D r) (kidx T r)).

Hypothesis Hcausal : causal I islat jm sc St T D R mx kfirst work Cp sched.

Definition proj (r : rel) (s : list (rel * nat)) : list nat := map snd (filter (fun rj => Nat.eqb (fst rj) r) s).

Lemma grun_proj : forall s g r, grun g s r = prun r (g r) (proj r s).
Proof.
  induction s as [|[q j] s IH]; intros g r; [reflexivity|].
  cbn [LatParModel.grun fold_left]. fold (grun (gstep g (q, j)) s). rewrite IH. unfold proj. cbn [filter fst].
  destruct (Nat.eqb_spec q r) as [->|Hne].
  - cbn [map snd ParLat.run_sched fold_left]. unfold LatParModel.gstep. cbn [fst snd]. rewrite upd_same. reflexivity.
  - unfold LatParModel.gstep. cbn [fst snd]. rewrite upd_other by (intros E; apply Hne; symmetry; exact E). reflexivity.
Qed.

Lemma grun_app : forall s1 s2 g, grun g (s1 ++ s2) = grun (grun g s1) s2.
Proof. intros. unfold LatParModel.grun. apply fold_left_app. Qed.

(* ---------- good contributions ---------- *)
Definition goodkv (r : rel) (kv : lkey * V) : Prop := fact_ok (r, torow kv) /\ below J (r, torow kv).

Lemma join_good : forall r k c v, latdyn r = true -> goodkv r (k, c) -> goodkv r (k, v) -> goodkv r (k, fst (jm r c v)).
Proof.
  intros r k c v Hr [[F1 [F2 F3]] [t1 [J1 L1]]] [[G1 [G2 G3]] [t2 [J2 L2]]]. destruct (latdyn_split r Hr) as [Hl Hd].
  pose proof (Hlaws r Hl) as L. cbn [fst snd] in *.
  specialize (F3 Hl). specialize (G3 Hl). rewrite tval_torow in F3, G3. rewrite len_torow in F2, G2. cbn [fst snd] in *.
  split.
  - split; [exact Hd|]. cbn [fst snd]. split.
    + rewrite len_torow. exact F2.
    + intros _. rewrite tval_torow. cbn [snd]. pose proof (ll_ub_l _ _ L _ _ F3 G3) as Hu. apply (ll_dom _ _ L) in Hu. tauto.
  - pose proof L1 as L1'. pose proof L2 as L2'. unfold LatSem.tle in L1', L2'. rewrite Hl in L1', L2'.
    rewrite tkey_torow, tval_torow, len_torow in L1', L2'. cbn [fst snd] in *. destruct L1' as [K1 [N1 O1]]. destruct L2' as [K2 [N2 O2]].
    destruct (HJdir r t1 t2 Hl J1 J2) as [t3 [J3 [L13 L23]]]; [congruence | congruence |].
    exists t3. split; [exact J3|]. cbn [fst snd].
    pose proof L13 as L13'. pose proof L23 as L23'. unfold LatSem.tle in L13', L23'. rewrite Hl in L13', L23'.
    destruct L13' as [K13 [N13 O13]]. destruct L23' as [K23 [N23 O23]].
    unfold LatSem.tle. rewrite Hl, tkey_torow, tval_torow, len_torow. cbn [fst snd]. split; [congruence|]. split; [congruence|].
    apply (ll_least _ _ L); eapply (ll_trans _ _ L); eauto.
Qed.

Record SI (g : gstate) : Prop := {
  s_inv1 : forall r, latdyn r = true -> pinv1 r (g r);
  s_rows : forall r, latdyn r = true -> forall i kv, nth_error (ParLat.lrows (g r)) i = Some kv -> goodkv r kv;
  s_infl : forall r, latdyn r = true -> forall j w kv, nth_error (ParLat.lws (g r)) j = Some w ->
           In kv (ParLatProofs.inflight (ParLat.wpc w)) -> goodkv r kv;
  s_work : forall r, latdyn r = true -> forall kv, In kv (concat (work r)) ->
           goodkv r kv \/ exists j w, nth_error (ParLat.lws (g r)) j = Some w /\ In kv (ParLat.todo w)
}.

Lemma start_good : forall r row, latdyn r = true -> In row (R r) -> goodkv r (ofrow row).
Proof.
  intros r row Hr Hin. destruct (latdyn_split r Hr) as [Hl Hd]. unfold goodkv. rewrite torow_ofrow by (eapply row_pos; eauto).
  split; [|apply (ro_below _ _ _ _ _ _ HR r row Hin)].
  split; [exact Hd|]. cbn [fst snd]. split.
  - destruct (dyn_arity r Hd) as [n Hn]. rewrite (ro_ar _ _ _ _ _ _ HR r row Hin n Hn). exact Hn.
  - intros _. apply (ro_wf _ _ _ _ _ _ HR r row Hl Hin).
Qed.

Lemma SI_init : SI ginit.
Proof.
  constructor; intros r Hr; destruct (latdyn_split r Hr) as [Hl Hd]; unfold LatParModel.ginit.
  - apply (fresh_inv1 keqb).
    + rewrite <- map_tkey_torow, start_rows_back by exact Hr. apply (ro_key _ _ _ _ _ _ HR r Hl).
    + apply start_fz_s. exact Hr.
  - cbn [ParLat.par_init ParLat.lrows]. intros i kv H. apply nth_error_map_some in H. destruct H as [row [Hn ->]].
    apply start_good; [exact Hr | eapply nth_error_In; eauto].
  - intros j w kv H Hin. destruct (fresh_worker _ _ _ _ H) as [Hp _]. rewrite Hp in Hin. destruct Hin.
  - intros kv Hin. right. apply in_concat in Hin. destruct Hin as [l [Hl' Hin]]. apply In_nth_error in Hl'. destruct Hl' as [j Hj].
    exists j, {| ParLat.todo := l; ParLat.wpc := ParLat.PIdle |}. split; [|exact Hin].
    cbn [ParLat.par_init ParLat.lws]. rewrite nth_error_map, Hj. reflexivity.
Qed.

Lemma SI_step : forall g r j, SI g ->
  (latdyn r = true -> forall kv, pops (g r) j = Some kv -> goodkv r kv) ->
  SI (gstep g (r, j)).
Proof.
  intros g r j S Hpop.
  assert (Hother : forall q, q <> r -> gstep g (r, j) q = g q).
  { intros q Hq. unfold LatParModel.gstep. cbn [fst snd]. apply upd_other. exact Hq. }
  assert (Hsame : gstep g (r, j) r = lstep r (g r) j).
  { unfold LatParModel.gstep. cbn [fst snd]. apply upd_same. }
  destruct (latdyn r) eqn:Hr.
  2:{ constructor; intros q Hq; (assert (Hne : q <> r) by (intros ->; congruence)); rewrite (Hother q Hne).
      - apply (s_inv1 _ S q Hq). - apply (s_rows _ S q Hq). - apply (s_infl _ S q Hq). - apply (s_work _ S q Hq). }
  specialize (Hpop eq_refl).
  pose proof (s_inv1 _ S r Hr) as I1.
  destruct (@step_effect (list V) V keqb (jm r) (mx r) (kfirst r) true (kidx D r) (kidx T r) (g r) j I1) as [HRe HWe].
  pose proof (@step_lws_length (list V) V keqb (jm r) (mx r) (kfirst r) true (kidx D r) (kidx T r) (g r) j) as HLen.
  unfold LatParModel.lstep in Hsame. unfold rows_effect in HRe. unfold workers_effect, worker_effect in HWe.
  set (s' := ParLat.step keqb (jm r) (mx r) (kfirst r) true (kidx D r) (kidx T r) (g r) j) in *.
  assert (Hinfl' : forall j' w' kv, nth_error (ParLat.lws s') j' = Some w' -> In kv (ParLatProofs.inflight (ParLat.wpc w')) -> goodkv r kv).
  { intros j' w' kv Hw' Hin. destruct (HWe j' w' Hw') as [w [Hw [[_ Hincl] | [_ [kv' [Hp [_ Hfl]]]]]]].
    - eapply (s_infl _ S r Hr); eauto.
    - assert (E : In kv [kv']) by (rewrite <- Hfl; exact Hin). destruct E as [<-|[]]. apply Hpop. exact Hp. }
  constructor; intros q Hq; (destruct (Nat.eq_dec q r) as [->|Hne]; [rewrite Hsame | rewrite (Hother q Hne)]);
    try solve [apply (s_inv1 _ S q Hq) | apply (s_rows _ S q Hq) | apply (s_infl _ S q Hq) | apply (s_work _ S q Hq)].
  - apply (ParLatProofs.step_inv1 keqb keqb_spec). exact I1.
  - intros i kv Hn. destruct HRe as [E | [[w [k [v [i0 [c [Hw [Hin [Hc E]]]]]]]] | [w [k [v [Hw [Hin E]]]]]]]; rewrite E in Hn.
    + eapply (s_rows _ S r Hr); eauto.
    + rewrite ParLatProofs.nth_error_upd_nth in Hn. destruct (Nat.eqb_spec i i0) as [->|Hne].
      * rewrite Hc in Hn. injection Hn as <-. apply join_good; [exact Hr | eapply (s_rows _ S r Hr); eauto | eapply (s_infl _ S r Hr); eauto].
      * eapply (s_rows _ S r Hr); eauto.
    + apply ParLatProofs.nth_error_snoc in Hn. destruct Hn as [Hn | [_ ->]]; [eapply (s_rows _ S r Hr); eauto | eapply (s_infl _ S r Hr); eauto].
  - exact Hinfl'.
  - intros kv Hin. destruct (s_work _ S r Hr kv Hin) as [Hg | [j0 [w0 [Hw0 Ht0]]]]; [left; exact Hg|].
    assert (Hlt : j0 < length (ParLat.lws s')).
    { rewrite HLen. apply nth_error_Some. congruence. }
    destruct (nth_error (ParLat.lws s') j0) as [w0'|] eqn:Hw0'; [|apply nth_error_None in Hw0'; lia].
    destruct (HWe j0 w0' Hw0') as [w [Hw [[Htd _] | [_ [kv' [Hp [Htd _]]]]]]]; rewrite Hw0 in Hw; injection Hw as <-.
    + right. exists j0, w0'. split; [exact Hw0' | rewrite Htd; exact Ht0].
    + rewrite Htd in Ht0. destruct Ht0 as [<- | Ht0]; [left; apply Hpop; exact Hp | right; exists j0, w0'; auto].
Qed.

Lemma cur_below : forall g, SI g -> allbelow I islat lle J (cur g).
Proof.
  intros g S r row Hin. unfold LatParModel.cur in Hin. destruct (latdyn r) eqn:Hr.
  - apply in_map_iff in Hin. destruct Hin as [kv [<- Hin]]. apply In_nth_error in Hin. destruct Hin as [i Hi].
    apply (s_rows _ S r Hr i kv Hi).
  - apply (ro_below _ _ _ _ _ _ HR r row Hin).
Qed.

(* a contribution derived from reads below J is a well-formed fact below J *)
Lemma derived_good : forall (Obs : rel -> nat -> vtuple V -> Prop) f,
  (forall r i t, Obs r i t -> below J (r, t)) -> derived Obs f -> fact_ok f /\ below J f.
Proof.
  intros Obs f HObs [v [items [e [h [Hv [Hord [Hsat [Hh Hf]]]]]]]].
  destruct (variant_hyps I islat lle arities P Hnoagg Hmono J HJcl sc Hok Hlatok v Hv)
    as [ru [G [Bv [_ [_ [_ [Hck [Hho [Hlat [_ [Hmi [Hmh [Hdyn HJc]]]]]]]]]]]]].
  destruct (sound_from I Heq islat lle arities dyn St T D G Obs J HObs (v_sj v) (v_items v) (v_reord v) [] Bv items [] e [])
    as [_ [eJ [HsJ [Hle _]]]]; auto.
  { split; [apply vdom_nil | exact Logic.I]. }
  { apply ele_nil. }
  { exact Logic.I. }
  rewrite Forall_forall in Hmh. unfold heads_ok in Hho. rewrite forallb_forall in Hho.
  destruct (head_mono_eval I islat lle G h e eJ f (Hmh h Hh) Hle Hf) as [fJ [HfJ [E1 Ht]]].
  pose proof (HJc eJ h fJ HsJ Hh HfJ) as HbJ.
  assert (Hfst : fst f = fst h).
  { unfold veval_head in Hf. destruct (veval_terms I e (snd h)); [|discriminate]. injection Hf as <-. reflexivity. }
  assert (Hlen : length (snd f) = length (snd h)).
  { unfold veval_head in Hf. destruct (veval_terms I e (snd h)) as [vs|] eqn:Ev; [|discriminate]. injection Hf as <-. cbn.
    symmetry. eapply veval_terms_length; eauto. }
  split.
  - split; [rewrite Hfst; apply Hdyn; auto|]. split.
    + rewrite Hfst, Hlen. specialize (Hho h Hh). apply andb_true_iff in Hho. tauto.
    + intros Hl. eapply (tle_wf_l I islat lle jm Hlaws); eauto.
  - destruct f as [r t], fJ as [rJ tJ]. cbn [fst snd] in *. subst rJ. eapply (below_trans I islat lle jm Hlaws); eauto.
Qed.

Lemma SI_all : forall n pre post, length pre <= n -> sched = pre ++ post -> SI (grun ginit pre).
Proof.
  induction n as [|n IH]; intros pre post Hlen Hs.
  - destruct pre; [apply SI_init | cbn in Hlen; lia].
  - destruct (exists_last_or_nil _ pre) as [-> | [pre' [[r j] ->]]]; [apply SI_init|].
    rewrite app_length in Hlen. cbn in Hlen. rewrite grun_app. cbn [LatParModel.grun fold_left].
    assert (Hs' : sched = pre' ++ (r, j) :: post) by (rewrite Hs, <- app_assoc; reflexivity).
    apply SI_step; [apply (IH pre' ((r, j) :: post)); [lia | exact Hs']|].
    intros Hr kv Hp. destruct Hcausal as [Hc1 _]. pose proof (Hc1 pre' r j post kv Hs' Hr Hp) as Hd.
    apply (derived_good (seen pre') (r, torow kv)); [|exact Hd].
    intros q i t [p1 [p2 [Ep Hn]]]. apply (cur_below (grun ginit p1)); [|eapply nth_error_In; eauto].
    apply (IH p1 (p2 ++ (r, j) :: post)).
    + rewrite Ep, app_length in Hlen. lia.
    + rewrite Hs', Ep, <- app_assoc. reflexivity.
Qed.

(* ================= the end of the iteration ================= *)
Hypothesis Hexh : exhaustive I islat jm sc St T D R mx kfirst work Cp sched.
Variable A : rel -> list (vtuple V).
Variable R' : rel -> list (vtuple V).
Variable N' : rel -> list nat.
Variable ch' : bool.
Notation gf := (grun ginit sched).
Hypothesis Hlatf : forall r, latdyn r = true ->
  ParLat.finished (gf r) = true /\ R' r = map torow (ParLat.lrows (gf r)) /\ N' r = ParLat.lother (gf r).
Hypothesis Hplain : forall r, islat r = false -> is_dyn dyn r = true ->
  R' r = R r ++ A r /\ NoDup (A r)
  /\ (forall t, In t (A r) <-> In t (Cp r) /\ mem_row I (R r) t (T r) || mem_row I (R r) t (D r) = false)
  /\ N' r = seq (length (R r)) (length (A r)).
Hypothesis Hsta : forall r, is_dyn dyn r = false -> R' r = R r /\ N' r = [].
Hypothesis Hch : ch' = existsb (fun r => if islat r then ParLat.lchg (gf r) else negb (is_nil (A r))) dyn.

Lemma SI_prefix : forall p1 p2, sched = p1 ++ p2 -> SI (grun ginit p1).
Proof. intros p1 p2 E. apply (SI_all (length p1) p1 p2); [lia | exact E]. Qed.

Lemma SI_final : SI gf.
Proof. apply (SI_prefix sched []). rewrite app_nil_r. reflexivity. Qed.

Lemma seen_below : forall r i t, seen sched r i t -> below J (r, t).
Proof.
  intros r i t [p1 [p2 [E Hn]]]. apply (cur_below (grun ginit p1)); [eapply SI_prefix; eauto | eapply nth_error_In; eauto].
Qed.

Lemma work_good : forall r, latdyn r = true -> forall kv, In kv (concat (work r)) -> goodkv r kv.
Proof.
  intros r Hr kv Hin. destruct (s_work _ SI_final r Hr kv Hin) as [H | [j [w [Hw Ht]]]]; [exact H|].
  destruct (Hlatf r Hr) as [F _]. destruct (ParLatProofs.finished_wpend _ _ _ F Hw) as [Ht0 _]. rewrite Ht0 in Ht. destruct Ht.
Qed.

Lemma plain_good : forall r t, islat r = false -> In t (Cp r) -> fact_ok (r, t) /\ below J (r, t).
Proof.
  intros r t Hl Hin. destruct Hcausal as [_ Hc2]. apply (derived_good (seen sched) (r, t) seen_below). apply Hc2; auto.
Qed.

Lemma start_init_ok : forall r, latdyn r = true ->
  ParLatProofs.init_ok keqb (lle r) (kidx D r) (kidx T r) (map ofrow (R r)) [] [] false (work r).
Proof.
  intros r Hr. destruct (latdyn_split r Hr) as [Hl Hd]. apply ParLatProofs.fresh_init_ok.
  - rewrite <- map_tkey_torow, start_rows_back by exact Hr. apply (ro_key _ _ _ _ _ _ HR r Hl).
  - apply start_fz_s. exact Hr.
  - intros i k c H. apply nth_error_map_some in H. destruct H as [row [Hn E]]. unfold LatParModel.ofrow in E. injection E as -> ->.
    apply (ro_wf _ _ _ _ _ _ HR r row Hl). eapply nth_error_In; eauto.
  - intros k v Hin. destruct (work_good r Hr (k, v) Hin) as [[_ [_ Hw]] _]. specialize (Hw Hl). cbn [fst snd] in Hw. rewrite tval_torow in Hw. exact Hw.
Qed.

Lemma grun_init_proj : forall p r, grun ginit p r = prun r (ParLat.par_init (map ofrow (R r)) [] [] false (work r)) (proj r p).
Proof. intros p r. rewrite grun_proj. reflexivity. Qed.

(* rows seen during the iteration are above the rows at its start *)
Lemma seen_above : forall r i t t0, seen sched r i t -> nth_error (R r) i = Some t0 -> tle r t0 t.
Proof.
  intros r i t t0 [p1 [p2 [E Hn]]] H0. unfold LatParModel.cur in Hn. destruct (latdyn r) eqn:Hr.
  - destruct (latdyn_split r Hr) as [Hl Hd]. apply nth_error_map_some in Hn. destruct Hn as [kv [Hn ->]].
    rewrite grun_init_proj in Hn.
    destruct (ParLatProofs.parlat_rows_in_place keqb keqb_spec (lle r) (jm r) (Hlaws r Hl) (mx r) (kfirst r) true (kidx D r) (kidx T r)
                _ _ _ _ _ (start_init_ok r Hr) (proj r p1) i (tkey t0) (tval I t0)) as [c [Hc Hle]].
    { rewrite nth_error_map, H0. reflexivity. }
    rewrite Hc in Hn. injection Hn as <-. unfold LatSem.tle. rewrite Hl, tkey_torow, tval_torow, len_torow. cbn [fst snd].
    split; [reflexivity|]. split; [|exact Hle].
    assert (Hp : 0 < length t0) by (eapply row_pos; eauto; eapply nth_error_In; eauto).
    rewrite <- (len_row_upd I t0 c Hp), app_length. cbn. lia.
  - assert (t = t0) by congruence. subst t. apply (tle_refl I islat lle). intros Hl. apply (ro_wf _ _ _ _ _ _ HR r t0 Hl). eapply nth_error_In; eauto.
Qed.

(* ---------- what ParLatProofs says about the final state of a dynamic lattice relation ---------- *)
Lemma lat_final : forall r, latdyn r = true ->
  let sf := gf r in
  NoDup (map fst (ParLat.lrows sf))
  /\ (forall i row, nth_error (R r) i = Some row -> exists c, nth_error (ParLat.lrows sf) i = Some (tkey row, c) /\ lle r (tval I row) c)
  /\ (forall i k c, nth_error (ParLat.lrows sf) i = Some (k, c) -> nth_error (map ofrow (R r)) i = Some (k, c) \/ In i (ParLat.lother sf))
  /\ (ParLat.lchg sf = false -> ParLat.lother sf = [])
  /\ (forall i, In i (ParLat.lother sf) -> i < length (ParLat.lrows sf))
  /\ (forall k x, In (k, x) (concat (work r)) -> exists i c, nth_error (ParLat.lrows sf) i = Some (k, c) /\ lle r x c).
Proof.
  intros r Hr sf. destruct (latdyn_split r Hr) as [Hl Hd]. destruct (Hlatf r Hr) as [F _].
  pose proof (start_init_ok r Hr) as OK. pose proof (Hlaws r Hl) as L.
  unfold sf in *. rewrite grun_init_proj in *.
  split; [|split; [|split; [|split; [|split]]]].
  - apply (ParLatProofs.parlat_one_row_per_key keqb keqb_spec (lle r) (jm r) L _ _ _ _ _ _ _ _ _ _ OK).
  - intros i row Hn.
    apply (ParLatProofs.parlat_rows_in_place keqb keqb_spec (lle r) (jm r) L _ _ _ _ _ _ _ _ _ _ OK (proj r sched) i (tkey row) (tval I row)).
    rewrite nth_error_map, Hn. reflexivity.
  - intros i k c Hn.
    destruct (ParLatProofs.parlat_reindexed keqb keqb_spec (lle r) (jm r) L _ _ _ _ _ _ _ _ _ _ OK (proj r sched) F i k c Hn) as [H | [_ H]]; auto.
  - intros Hc. destruct (ParLatProofs.parlat_changed keqb keqb_spec (lle r) (jm r) L _ _ _ _ _ _ _ _ _ _ OK (proj r sched) F Hc) as [_ Hnk].
    apply nil_no_elements. intros i Hi.
    apply (parlat_views_agree keqb keqb_spec (jm r) (mx r) (kfirst r) true (kidx D r) (kidx T r) (lle r) L _ _ OK (proj r sched) F i) in Hi.
    destruct Hi as [k Hk]. rewrite Hnk in Hk. discriminate.
  - intros i Hi. eapply (parlat_other_valid keqb keqb_spec (jm r) (mx r) (kfirst r) true (kidx D r) (kidx T r) (lle r)); eauto.
  - intros k x Hin.
    destruct (ParLatProofs.parlat_values_lub keqb keqb_spec (lle r) (jm r) L _ _ _ _ _ _ _ _ _ _ OK (proj r sched) F) as [_ [Hlub [Hex _]]].
    destruct (Hex k x) as [i [c Hc]]; [right; exact Hin|]. exists i, c. split; [exact Hc|].
    destruct (Hlub i k c Hc) as [Hub _]. apply Hub. right. exact Hin.
Qed.

Lemma rel_cases : forall r,
  (latdyn r = true /\ islat r = true /\ is_dyn dyn r = true) \/ (islat r = false /\ is_dyn dyn r = true) \/ is_dyn dyn r = false.
Proof.
  intros r. unfold LatParModel.latdyn. fold dyn. destruct (is_dyn dyn r); [|right; right; reflexivity].
  destruct (islat r); [left; auto | right; left; auto].
Qed.

Lemma final_rows_cases : forall r row, In row (R' r) ->
  (latdyn r = true /\ exists i kv, nth_error (ParLat.lrows (gf r)) i = Some kv /\ row = torow kv)
  \/ (islat r = false /\ is_dyn dyn r = true /\ (In row (R r) \/ In row (Cp r)))
  \/ (is_dyn dyn r = false /\ In row (R r)).
Proof.
  intros r row Hin. destruct (rel_cases r) as [[Hr [Hl Hd]] | [[Hl Hd] | Hd]].
  - left. split; [exact Hr|]. destruct (Hlatf r Hr) as [_ [E _]]. rewrite E in Hin. apply in_map_iff in Hin.
    destruct Hin as [kv [<- Hin]]. apply In_nth_error in Hin. destruct Hin as [i Hi]. eauto.
  - right. left. split; [exact Hl|]. split; [exact Hd|]. destruct (Hplain r Hl Hd) as [E [_ [HA _]]]. rewrite E in Hin.
    apply in_app_or in Hin. destruct Hin as [Hin|Hin]; [left; exact Hin | right; apply HA; exact Hin].
  - right. right. split; [exact Hd|]. destruct (Hsta r Hd) as [E _]. rewrite E in Hin. exact Hin.
Qed.

Lemma final_good : forall r row, In row (R' r) ->
  (forall n, arity_ok arities r n = true -> length row = n) /\ (islat r = true -> lle r (tval I row) (tval I row)) /\ below J (r, row).
Proof.
  intros r row Hin. destruct (final_rows_cases r row Hin) as [[Hr [i [kv [Hn ->]]]] | [[Hl [Hd [Hin'|Hin']]] | [Hd Hin']]].
  - destruct (s_rows _ SI_final r Hr i kv Hn) as [[_ [Ha Hw]] Hb]. cbn [fst snd] in *. split; [|split; auto].
    intros n Hn'. eapply arity_ok_fun; eauto.
  - split; [intros n; apply (ro_ar _ _ _ _ _ _ HR r row Hin') |]. split; [intros E; congruence | apply (ro_below _ _ _ _ _ _ HR r row Hin')].
  - destruct (plain_good r row Hl Hin') as [[_ [Ha _]] Hb]. cbn [fst snd] in *. split; [|split; [intros E; congruence | exact Hb]].
    intros n Hn'. eapply arity_ok_fun; eauto.
  - split; [intros n; apply (ro_ar _ _ _ _ _ _ HR r row Hin') |].
    split; [intros E; apply (ro_wf _ _ _ _ _ _ HR r row E Hin') | apply (ro_below _ _ _ _ _ _ HR r row Hin')].
Qed.

Definition sfin : @istate V := {| i_rows := R'; i_new := N'; i_changed := ch'; i_tick := 0 |}.

Lemma par_sinv : sinv I islat lle arities dyn R sfin.
Proof.
  constructor; cbn [sfin i_rows i_new i_changed].
  - (* arity *) intros r row Hin. apply (final_good r row Hin).
  - (* new lists existing rows *) intros r i Hi. destruct (rel_cases r) as [[Hr [Hl Hd]] | [[Hl Hd] | Hd]].
    + destruct (Hlatf r Hr) as [_ [E1 E2]]. rewrite E1, map_length. rewrite E2 in Hi.
      destruct (lat_final r Hr) as [_ [_ [_ [_ [H _]]]]]. apply H. exact Hi.
    + destruct (Hplain r Hl Hd) as [E1 [_ [_ E2]]]. rewrite E1, app_length. rewrite E2 in Hi. apply in_seq in Hi. lia.
    + destruct (Hsta r Hd) as [_ E]. rewrite E in Hi. destruct Hi.
  - (* every row is old or in new *) intros r i Hd Hi. destruct (rel_cases r) as [[Hr [Hl _]] | [[Hl _] | Hd']]; [| |congruence].
    + destruct (Hlatf r Hr) as [_ [E1 E2]]. rewrite E1, map_length in Hi. rewrite E2.
      destruct (nth_error (ParLat.lrows (gf r)) i) as [[k c]|] eqn:Hn; [|apply nth_error_None in Hn; lia].
      destruct (lat_final r Hr) as [_ [_ [H _]]]. destruct (H i k c Hn) as [H0|H0]; [left | right; exact H0].
      apply nth_error_In_lt in H0. rewrite map_length in H0. exact H0.
    + destruct (Hplain r Hl Hd) as [E1 [_ [_ E2]]]. rewrite E1, app_length in Hi. rewrite E2.
      destruct (Nat.lt_ge_cases i (length (R r))); [left; assumption | right; apply in_seq; lia].
  - (* one row per key *) intros r Hl. destruct (rel_cases r) as [[Hr _] | [[Hl' _] | Hd]]; [| congruence |].
    + destruct (Hlatf r Hr) as [_ [E1 _]]. rewrite E1, map_tkey_torow. apply (lat_final r Hr).
    + destruct (Hsta r Hd) as [E _]. rewrite E. apply (ro_key _ _ _ _ _ _ HR r Hl).
  - (* unchanged or in new *) intros r i row Hn. destruct (rel_cases r) as [[Hr [Hl Hd]] | [[Hl Hd] | Hd]].
    + destruct (Hlatf r Hr) as [_ [E1 E2]]. rewrite E1, E2.
      destruct (lat_final r Hr) as [_ [Hpl [Hre _]]]. destruct (Hpl i row Hn) as [c [Hc _]].
      destruct (Hre i _ _ Hc) as [H0|H0]; [left | right; exact H0].
      rewrite nth_error_map, Hn in H0. cbn in H0. unfold LatParModel.ofrow in H0. injection H0 as <-.
      rewrite nth_error_map, Hc. cbn. f_equal. apply (torow_ofrow row). eapply row_pos; eauto. eapply nth_error_In; eauto.
    + destruct (Hplain r Hl Hd) as [E1 _]. left. rewrite E1. rewrite nth_error_app1; [exact Hn | eapply nth_error_In_lt; eauto].
    + destruct (Hsta r Hd) as [E1 _]. left. rewrite E1. exact Hn.
  - (* static relations *) intros r Hd. apply (Hsta r Hd).
  - (* the flag *) intros Hc r. destruct (rel_cases r) as [[Hr [Hl Hd]] | [[Hl Hd] | Hd]].
    + destruct (Hlatf r Hr) as [_ [_ E2]]. rewrite E2. destruct (lat_final r Hr) as [_ [_ [_ [H _]]]]. apply H.
      rewrite Hch in Hc. pose proof (existsb_false_in _ _ _ r Hc (proj1 (is_dyn_In dyn r) Hd)) as Hx. cbn in Hx. rewrite Hl in Hx. exact Hx.
    + destruct (Hplain r Hl Hd) as [_ [_ [_ E2]]]. rewrite E2.
      rewrite Hch in Hc. pose proof (existsb_false_in _ _ _ r Hc (proj1 (is_dyn_In dyn r) Hd)) as Hx. cbn in Hx. rewrite Hl in Hx.
      destruct (A r); [reflexivity | discriminate].
    + apply (Hsta r Hd).
  - (* lattice elements *) intros r row Hl Hin. apply (final_good r row Hin). exact Hl.
  - (* only raised *) intros r i row Hn. destruct (rel_cases r) as [[Hr [Hl Hd]] | [[Hl Hd] | Hd]].
    + destruct (Hlatf r Hr) as [_ [E1 _]]. destruct (lat_final r Hr) as [_ [Hpl _]]. destruct (Hpl i row Hn) as [c [Hc Hle]].
      exists (torow (tkey row, c)). split; [rewrite E1, nth_error_map, Hc; reflexivity|].
      unfold LatSem.tle. rewrite Hl, tkey_torow, tval_torow, len_torow. cbn [fst snd]. split; [reflexivity|]. split; [|exact Hle].
      assert (Hp : 0 < length row) by (eapply row_pos; eauto; eapply nth_error_In; eauto).
      rewrite <- (len_row_upd I row c Hp), app_length. cbn. lia.
    + destruct (Hplain r Hl Hd) as [E1 _]. exists row. split; [rewrite E1, nth_error_app1; [exact Hn | eapply nth_error_In_lt; eauto]|].
      unfold LatSem.tle. rewrite Hl. reflexivity.
    + destruct (Hsta r Hd) as [E1 _]. exists row. split; [rewrite E1; exact Hn|]. apply (tle_refl I islat lle).
      intros Hl. apply (ro_wf _ _ _ _ _ _ HR r row Hl). eapply nth_error_In; eauto.
Qed.

Lemma par_below : allbelow I islat lle J R'.
Proof. intros r row Hin. apply (final_good r row Hin). Qed.

(* every contribution is below the final rows *)
Lemma contributed_below : forall f, is_dyn dyn (fst f) = true -> arity_ok arities (fst f) (length (snd f)) = true ->
  contributed I islat work Cp f -> below (dbof R') f.
Proof.
  intros [r t] Hd Har Hc. cbn [fst snd] in *. unfold LatParModel.contributed in Hc. cbn [fst snd] in Hc.
  destruct (islat r) eqn:Hl.
  - assert (Hr : latdyn r = true) by (unfold LatParModel.latdyn; fold dyn; rewrite Hl, Hd; reflexivity).
    assert (Hp : 0 < length t) by (eapply Hlat1; eauto).
    destruct (lat_final r Hr) as [_ [_ [_ [_ [_ Habs]]]]]. unfold LatParModel.ofrow in Hc.
    destruct (Habs (tkey t) (tval I t) Hc) as [i [c [Hn Hle]]].
    destruct (Hlatf r Hr) as [_ [E1 _]].
    exists (torow (tkey t, c)). cbn [fst snd]. split.
    + unfold dbof. rewrite E1. apply in_map. eapply nth_error_In; eauto.
    + unfold LatSem.tle. rewrite Hl, tkey_torow, tval_torow, len_torow. cbn [fst snd]. split; [reflexivity|]. split; [|exact Hle].
      rewrite <- (len_row_upd I t c Hp), app_length. cbn. lia.
  - destruct (Hplain r Hl Hd) as [E1 [_ [HA _]]]. exists t. cbn [fst snd]. split; [|unfold LatSem.tle; rewrite Hl; reflexivity].
    unfold dbof. rewrite E1. apply in_or_app.
    destruct (mem_row I (R r) t (T r) || mem_row I (R r) t (D r)) eqn:Em.
    + left. apply orb_true_iff in Em. destruct Em as [Em|Em]; apply (mem_row_spec I Heq) in Em; destruct Em as [i [_ Hi]]; eapply nth_error_In; eauto.
    + right. apply HA. auto.
Qed.

(* every head instance of a variant over the rows at the start is below the final rows *)
Lemma par_cover : forall v (et : venv V) h f, In v (s_vars sc) -> satv I dyn St T D R (v_items v) [] et ->
  In h (v_heads v) -> veval_head I et h = Some f -> below (dbof R') f.
Proof.
  intros v et h f Hv Hsat Hh Hf.
  destruct (variant_hyps I islat lle arities P Hnoagg Hmono J HJcl sc Hok Hlatok v Hv)
    as [ru [G [Bv [_ [_ [_ [Hck [Hho [Hlat [_ [Hmi [Hmh [Hdyn _]]]]]]]]]]]]].
  assert (Hskip : skipped sc St T D v = false).
  { unfold LatParModel.skipped. fold dyn. rewrite (satv_nonempty I dyn St T D R _ _ _ Hsat). apply andb_false_r. }
  destruct (Hexh v Hv Hskip) as [items [Hord Hcov']].
  destruct (comp_from I Heq islat lle arities dyn St T D R G (seen sched) seen_above (v_sj v) (v_items v) (v_reord v) [] Bv items
              (fun e => forall h f, In h (v_heads v) -> veval_head I e h = Some f -> contributed I islat work Cp f) [] [] et
              Hck Hlat Hmi Hord) as [e' [Hleaf [Hle _]]]; auto.
  { split; [apply vdom_nil | exact Logic.I]. }
  { apply ele_nil. }
  { exact Logic.I. }
  rewrite Forall_forall in Hmh. unfold heads_ok in Hho. rewrite forallb_forall in Hho.
  destruct (head_mono_eval I islat lle G h et e' f (Hmh h Hh) Hle Hf) as [f' [Hf' [E1 Ht]]].
  assert (Hfst : fst f' = fst h).
  { unfold veval_head in Hf'. destruct (veval_terms I e' (snd h)); [|discriminate]. injection Hf' as <-. reflexivity. }
  assert (Hlen : length (snd f') = length (snd h)).
  { unfold veval_head in Hf'. destruct (veval_terms I e' (snd h)) as [vs|] eqn:Ev; [|discriminate]. injection Hf' as <-. cbn.
    symmetry. eapply veval_terms_length; eauto. }
  assert (Hb : below (dbof R') f').
  { apply contributed_below; [| | apply (Hleaf h f' Hh Hf')].
    - pose proof (Hdyn h Hh) as Hx. rewrite <- Hfst in Hx. exact Hx.
    - specialize (Hho h Hh). apply andb_true_iff in Hho. destruct Hho as [Ha _]. rewrite <- Hfst, <- Hlen in Ha. exact Ha. }
  destruct f as [r t], f' as [r' t']. cbn [fst snd] in *. subst r'. eapply (below_trans I islat lle jm Hlaws); eauto.
Qed.
End Run.
End Start.

(* no deadlock: in EVERY state an iteration can reach (any contributions, any schedule), a lattice relation whose head updates
   are not finished has a worker that can perform a step *)
Theorem par_lat_no_deadlock : forall T D R (mx : rel -> list V -> nat) kfirst work sched r,
  (forall r, islat r = true -> NoDup (map tkey (R r))) ->
  (forall r i, is_dyn dyn r = true -> i < length (R r) -> In i (T r) \/ In i (D r)) ->
  latdyn r = true ->
  let s := grun I jm T D R mx kfirst (ginit I R work) sched r in
  ParLat.finished s = false -> exists j, ParLat.enabled (mx r) s j = true.
Proof.
  intros T D R mx kfirst work sched r Hkeys Hcov Hr s F. unfold s in *. rewrite grun_proj in *.
  eapply ParLatProofs.progress1; [|exact F]. unfold LatParModel.ginit.
  apply (run_inv1_any T D R Hkeys Hcov (mx r) (kfirst r) (work r) (proj r sched) r Hr).
Qed.

(* one parallel iteration: the invariant of LatItems / LatHead holds of the final state, and every variant's instances over
   the start rows are covered - what LatScc.iteration_spec says of the serial scc_iteration *)
Theorem par_iteration_spec : forall St T D R R' N' ch', rows_ok R ->
  (forall r i, is_dyn dyn r = true -> i < length (R r) -> In i (T r) \/ In i (D r)) ->
  par_lat_iteration I islat jm sc St T D R R' N' ch' ->
  let s' := {| i_rows := R'; i_new := N'; i_changed := ch'; i_tick := 0 |} in
  inv I islat lle arities dyn R J s' /\
  forall v (et : venv V) h f, In v (s_vars sc) -> satv I dyn St T D R (v_items v) [] et -> In h (v_heads v) -> veval_head I et h = Some f ->
    below (dbof (i_rows s')) f.
Proof.
  intros St T D R R' N' ch' HR Hcov [mx [kfirst [work [Cp [sched [A [Hcausal [Hexh [Hlatf [Hplain [Hsta Hch]]]]]]]]]]] s'.
  split; [split|].
  - exact (par_sinv St T D R HR Hcov mx kfirst work Cp sched Hcausal A R' N' ch' Hlatf Hplain Hsta Hch).
  - exact (par_below St T D R HR Hcov mx kfirst work Cp sched Hcausal A R' N' Hlatf Hplain Hsta).
  - exact (par_cover St T D R HR Hcov mx kfirst work Cp sched Hcausal Hexh A R' N' Hlatf Hplain).
Qed.
End Iter.
