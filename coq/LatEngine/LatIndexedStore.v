(* B13 - the invariant of the indices of ONE lattice relation in ONE version ([stinv]): the key index holds one entry
   per row number of the version, under the key of its row; every index over key columns only lists exactly the row
   numbers of the version whose key projection matches (indices whose columns include the lattice column are left
   unconstrained: they are the stale ones).  Preserved by the in-place raise of a row, by the insertions of the head
   update, by merge_delta_to_total, established by update_indices. *)
From Coq Require Import List ZArith Bool Arith Lia.
From AV Require Import Engine.Core.
From AV Require Import Engine.Eval.
From AV Require Import LatEngine.LatSyntax.
From AV Require Import LatEngine.LatEval.
From AV Require Import LatEngine.LatClause.
From AV Require Import LatEngine.LatMono.
From AV Require Import LatEngine.LatBase.
From AV Require Import LatEngine.LatIndexedEval.
From AV Require Import LatEngine.LatIndexedBase.
Import ListNotations.
Local Open Scope nat_scope.

Lemma map_combine_fst : forall (A B C : Type) (g : A -> C) (l1 : list A) (l2 : list B), length l1 = length l2 ->
  map (fun p => g (fst p)) (combine l1 l2) = map g l1.
Proof.
  intros A B C g. induction l1 as [|a l1 IH]; destruct l2 as [|b l2]; cbn; intros H; try reflexivity; try discriminate.
  f_equal. apply IH. lia.
Qed.

Lemma combine_map_eq : forall (A B : Type) (f : A -> B) (l1 l2 : list A), map f l1 = map f l2 ->
  forall p, In p (combine l1 l2) -> f (fst p) = f (snd p).
Proof.
  intros A B f. induction l1 as [|a l1 IH]; destruct l2 as [|b l2]; cbn; intros H p Hp; try contradiction; try discriminate.
  injection H as H1 H2. destruct Hp as [<-|Hp]; [exact H1 | exact (IH l2 H2 p Hp)].
Qed.

Section Store.
Context {V : Type}.
Variable I : linterp V.
Hypothesis Heq : veqb_ok I.
Variable islat : rel -> bool.
Variable arities : list (rel * nat).
Variable ds : list xdecl.
Notation ar := (ar_of arities).
Notation decls := (decls_of ds).
Hypothesis Hdecl : forall r, islat r = true -> xdecl_ok islat arities ds r = true.

Definition kcols (r : rel) : list nat := seq 0 (pred (ar r)).
(* an index a plan accepted by xplan_ok reads: key columns only, and not mistaken for the all-columns index *)
Definition kread (r : rel) (cols : list nat) : Prop := (forall c, In c cols -> S c < ar r) /\ length cols <> ar r.
Definition kof (R : rel -> list (vtuple V)) (r : rel) (i : nat) : list V :=
  match nth_error (R r) i with Some row => tkey row | None => [] end.
Definition rows_len (R : rel -> list (vtuple V)) : Prop := forall r, islat r = true -> forall row, In row (R r) -> length row = ar r.

Lemma decl_unpack : forall r, islat r = true ->
  0 < ar r /\ (forall c, In c (decls r) -> snd c = ncols_eqb (fst c) (kcols r)) /\ exists c, In c (decls r) /\ fst c = kcols r.
Proof.
  intros r Hl. pose proof (Hdecl r Hl) as H. unfold xdecl_ok in H. rewrite Hl in H. cbn [negb orb] in H.
  apply andb_true_iff in H as [H H4]. apply andb_true_iff in H as [H H3]. apply andb_true_iff in H as [H1 _].
  apply Nat.ltb_lt in H1. split; [exact H1|]. split.
  - intros c Hc. rewrite forallb_forall in H3. specialize (H3 c Hc). apply eqb_prop in H3. exact H3.
  - unfold xdeclared in H4. apply existsb_exists in H4 as [c [Hc E]]. apply ncols_eqb_eq in E. exists c. split; assumption.
Qed.

Lemma decl_ar : forall r, islat r = true -> 0 < ar r.
Proof. intros r Hl. apply (decl_unpack r Hl). Qed.

Lemma kread_kcols : forall r, islat r = true -> kread r (kcols r).
Proof.
  intros r Hl. pose proof (decl_ar r Hl). unfold kread, kcols. split.
  - intros c Hc. apply in_seq in Hc. lia.
  - rewrite seq_length. lia.
Qed.

Lemma kof_inj : forall R r a b, NoDup (map tkey (R r)) -> a < length (R r) -> b < length (R r) -> kof R r a = kof R r b -> a = b.
Proof.
  intros R r a b Hn Ha Hb Hk. unfold kof in Hk.
  destruct (nth_error (R r) a) as [ra|] eqn:Ea; [|apply nth_error_None in Ea; lia].
  destruct (nth_error (R r) b) as [rb|] eqn:Eb; [|apply nth_error_None in Eb; lia].
  rewrite NoDup_nth_error in Hn. apply Hn; [rewrite map_length; exact Ha|].
  rewrite (map_nth_error tkey _ _ Ea), (map_nth_error tkey _ _ Eb). congruence.
Qed.

Lemma vproj_kcols_row : forall r (row : vtuple V), islat r = true -> length row = ar r -> vproj I (kcols r) row = tkey row.
Proof.
  intros r row Hl Hlen. pose proof (decl_ar r Hl). unfold kcols. apply vproj_kcols. lia.
Qed.

(* ---------- the invariant ---------- *)
Definition stinv (R : rel -> list (vtuple V)) (r : rel) (st : list (xidx (V:=V))) (L : list nat) : Prop :=
  map xc st = map fst (decls r)
  /\ (forall x, In x st -> xk x = ncols_eqb (xc x) (kcols r))
  /\ (forall x, In x st -> xk x = true -> xe x = keyform (kof R r) L)
  /\ (forall x, In x st -> xk x = false -> kread r (xc x) -> ix_ok I (R r) (xc x) L (xe x))
  /\ (forall i, In i L -> i < length (R r)).

Lemma stinv_ext : forall R R' q st L, R q = R' q -> stinv R q st L -> stinv R' q st L.
Proof. intros R R' q st L H Hs. unfold stinv, kof in *. rewrite <- H. exact Hs. Qed.

Lemma stinv_has : forall R r st L cols, stinv R r st L -> (exists c, In c (decls r) /\ fst c = cols) ->
  exists x, find (fun x => ncols_eqb (xc x) cols) st = Some x /\ In x st /\ xc x = cols.
Proof.
  intros R r st L cols [Hsh _] [c [Hc Ec]].
  assert (Hin : In cols (map xc st)) by (rewrite Hsh, <- Ec; apply in_map; exact Hc).
  apply in_map_iff in Hin as [x0 [E0 H0]].
  destruct (find (fun x => ncols_eqb (xc x) cols) st) as [x|] eqn:Ef.
  - apply find_some in Ef as [H1 H2]. apply ncols_eqb_eq in H2. exists x. auto.
  - exfalso. pose proof (find_none _ _ Ef x0 H0) as E. cbn in E. rewrite E0 in E.
    assert (ncols_eqb cols cols = true) by (apply ncols_eqb_eq; reflexivity). congruence.
Qed.

Lemma stinv_kidx : forall R r st L, islat r = true -> stinv R r st L -> kidx st = keyform (kof R r) L.
Proof.
  intros R r st L Hl Hs. destruct (decl_unpack r Hl) as [_ [_ Hk]].
  destruct (stinv_has R r st L (kcols r) Hs Hk) as [x0 [_ [H0 E0]]]. destruct Hs as [_ [Hfl [Hkey _]]].
  unfold kidx. destruct (find xk st) as [x|] eqn:Ef.
  - apply find_some in Ef as [H1 H2]. exact (Hkey x H1 H2).
  - exfalso. pose proof (find_none _ _ Ef x0 H0) as E. rewrite (Hfl x0 H0), E0 in E.
    assert (ncols_eqb (kcols r) (kcols r) = true) by (apply ncols_eqb_eq; reflexivity). congruence.
Qed.

Lemma stinv_xents : forall R r st L cols, islat r = true -> rows_len R -> NoDup (map tkey (R r)) -> stinv R r st L ->
  xdeclared ds r cols = true -> kread r cols -> ix_ok I (R r) cols L (xents st cols).
Proof.
  intros R r st L cols Hl Hlen Hnd Hs Hd Hkr.
  assert (Hex : exists c, In c (decls r) /\ fst c = cols).
  { unfold xdeclared in Hd. apply existsb_exists in Hd as [c [Hc E]]. apply ncols_eqb_eq in E. exists c. split; assumption. }
  destruct (stinv_has R r st L cols Hs Hex) as [x [Ef [Hx Ex]]]. unfold xents. rewrite Ef.
  destruct Hs as [_ [Hfl [Hkey [Hix Hrg]]]]. destruct (xk x) eqn:Ek.
  - rewrite (Hkey x Hx Ek). rewrite (Hfl x Hx), Ex in Ek. apply ncols_eqb_eq in Ek. rewrite Ek.
    apply (ix_ok_keyform I Heq).
    + intros i Hi. specialize (Hrg i Hi). destruct (nth_error (R r) i) as [row|] eqn:En; [|apply nth_error_None in En; lia].
      exists row. split; [reflexivity|]. unfold kof. rewrite En. apply vproj_kcols_row; auto. apply (Hlen r Hl). eapply nth_error_In; eauto.
    + intros a b Ha Hb. apply kof_inj; auto.
  - rewrite <- Ex. apply Hix; auto. rewrite Ex. exact Hkr.
Qed.

(* ---------- the rows change, the keys do not ---------- *)
Definition kext (R R' : rel -> list (vtuple V)) (r : rel) : Prop :=
  forall i row, nth_error (R r) i = Some row ->
    exists row', nth_error (R' r) i = Some row' /\ tkey row' = tkey row /\ length row' = length row.

Lemma kext_refl : forall R r, kext R R r.
Proof. intros R r i row H. exists row. auto. Qed.

Lemma stinv_kext : forall R R' r st L, islat r = true -> rows_len R -> kext R R' r -> stinv R r st L -> stinv R' r st L.
Proof.
  intros R R' r st L Hl Hlen Hk [Hsh [Hfl [Hkey [Hix Hrg]]]].
  assert (Hrow : forall i, In i L -> exists row row', nth_error (R r) i = Some row /\ nth_error (R' r) i = Some row'
                                       /\ tkey row' = tkey row /\ length row' = length row).
  { intros i Hi. specialize (Hrg i Hi). destruct (nth_error (R r) i) as [row|] eqn:En; [|apply nth_error_None in En; lia].
    destruct (Hk i row En) as [row' [H1 [H2 H3]]]. exists row, row'. auto. }
  split; [exact Hsh|]. split; [exact Hfl|]. split; [|split].
  - intros x Hx Ek. rewrite (Hkey x Hx Ek). apply keyform_ext. intros i Hi.
    destruct (Hrow i Hi) as [row [row' [H1 [H2 [H3 _]]]]]. unfold kof. rewrite H1, H2. symmetry. exact H3.
  - intros x Hx Ek Hkr. apply (ix_ok_rows I (R r)); [apply Hix; auto|]. intros j Hj.
    destruct (Hrow j Hj) as [row [row' [H1 [H2 [H3 H4]]]]]. rewrite H1, H2. cbn. f_equal.
    apply (vproj_tkey_eq I); auto. intros c Hc. rewrite H4. rewrite (Hlen r Hl row) by (eapply nth_error_In; eauto). apply Hkr. exact Hc.
  - intros i Hi. destruct (Hrow i Hi) as [row [row' [_ [H2 _]]]]. apply nth_error_Some. congruence.
Qed.

(* ---------- the insertions of the head update ---------- *)
Lemma xins_new_cols : forall t i (x : xidx (V:=V)), xc (xins_new I t i x) = xc x /\ xk (xins_new I t i x) = xk x.
Proof. intros t i x. unfold xins_new. destruct (Nat.eqb (length (xc x)) (length t)); split; reflexivity. Qed.

Lemma stinv_ins : forall R r st L i row t, islat r = true -> rows_len R -> NoDup (map tkey (R r)) ->
  stinv R r st L -> nth_error (R r) i = Some row -> tkey row = tkey t -> length t = ar r ->
  stinv R r (map (xins_new I t i) st) (nadd i L).
Proof.
  intros R r st L i row t Hl Hlen Hnd [Hsh [Hfl [Hkey [Hix Hrg]]]] Hn Hkt Hlt.
  pose proof (decl_ar r Hl) as Har.
  assert (Hil : i < length (R r)) by (apply nth_error_Some; congruence).
  assert (Hrl : length row = ar r) by (apply (Hlen r Hl); eapply nth_error_In; eauto).
  split; [|split; [|split; [|split]]].
  - rewrite map_map, <- Hsh. apply map_ext. intros x. apply xins_new_cols.
  - intros x' Hx'. apply in_map_iff in Hx' as [x [<- Hx]]. destruct (xins_new_cols t i x) as [-> ->]. apply Hfl. exact Hx.
  - intros x' Hx' Ek. apply in_map_iff in Hx' as [x [<- Hx]]. destruct (xins_new_cols t i x) as [_ E2]. rewrite E2 in Ek.
    pose proof Ek as Ec. rewrite (Hfl x Hx) in Ec. apply ncols_eqb_eq in Ec.
    unfold xins_new. rewrite Ec. unfold kcols at 1. rewrite seq_length, Hlt.
    destruct (Nat.eqb (pred (ar r)) (ar r)) eqn:E; [apply Nat.eqb_eq in E; lia|].
    cbn [xins xe xk xc]. rewrite Ek, Ec, (Hkey x Hx Ek).
    rewrite (vproj_kcols_row r t Hl Hlt). replace (tkey t) with (kof R r i) by (unfold kof; rewrite Hn; exact Hkt).
    apply (e_ins_true_keyform I Heq). intros j Hj Hk. apply (kof_inj R r); auto.
  - intros x' Hx' Ek Hkr. apply in_map_iff in Hx' as [x [<- Hx]]. destruct (xins_new_cols t i x) as [E1 E2]. rewrite E1 in Hkr. rewrite E2 in Ek.
    unfold xins_new. destruct Hkr as [Hc Hne]. rewrite Hlt.
    destruct (Nat.eqb (length (xc x)) (ar r)) eqn:E; [apply Nat.eqb_eq in E; contradiction|].
    cbn [xins xe xk xc]. rewrite Ek.
    replace (vproj I (xc x) t) with (vproj I (xc x) row).
    + apply (ix_ok_ins I Heq); [|exact Hn]. apply Hix; auto. split; assumption.
    + apply (vproj_tkey_eq I); [exact Hkt | congruence|]. intros c Hcc. rewrite Hrl. apply Hc. exact Hcc.
  - intros j Hj. apply nadd_In in Hj. destruct Hj as [->|Hj]; [exact Hil | apply Hrg; exact Hj].
Qed.

(* ---------- merge_delta_to_total ---------- *)
Lemma stinv_merge : forall R r XTr XDr LT LD, islat r = true -> NoDup (map tkey (R r)) ->
  stinv R r XTr LT -> stinv R r XDr LD ->
  stinv R r (map (fun p => xmerge_ix I (fst p) (snd p)) (combine XTr XDr)) (nunion LT LD).
Proof.
  intros R r XTr XDr LT LD Hl Hnd [Tsh [Tfl [Tkey [Tix Trg]]]] [Dsh [Dfl [Dkey [Dix Drg]]]].
  assert (Hcols : map xc XTr = map xc XDr) by congruence.
  assert (Hlen2 : length XTr = length XDr) by (rewrite <- (map_length xc XTr), Hcols, map_length; reflexivity).
  split; [|split; [|split; [|split]]].
  - rewrite map_map. cbn [xmerge_ix xc]. rewrite (map_combine_fst _ _ _ xc XTr XDr Hlen2). exact Tsh.
  - intros x' Hx'. apply in_map_iff in Hx' as [[a b] [<- Hp]]. cbn [xmerge_ix xc xk fst snd]. apply Tfl. exact (in_combine_l _ _ _ _ Hp).
  - intros x' Hx' Ek. apply in_map_iff in Hx' as [[a b] [<- Hp]]. cbn [xmerge_ix xc xk xe fst snd] in *.
    pose proof (in_combine_l _ _ _ _ Hp) as Ha. pose proof (in_combine_r _ _ _ _ Hp) as Hb.
    pose proof (combine_map_eq _ _ xc XTr XDr Hcols (a, b) Hp) as Ec. cbn [fst snd] in Ec.
    assert (Ekb : xk b = true) by (rewrite (Dfl b Hb), <- Ec, <- (Tfl a Ha); exact Ek).
    rewrite Ek, (Tkey a Ha Ek), (Dkey b Hb Ekb).
    apply (e_move_true_keyform I Heq (kof R r) (length (R r))); auto. intros x y. apply kof_inj; auto.
  - intros x' Hx' Ek Hkr. apply in_map_iff in Hx' as [[a b] [<- Hp]]. cbn [xmerge_ix xc xk xe fst snd] in *.
    pose proof (in_combine_l _ _ _ _ Hp) as Ha. pose proof (in_combine_r _ _ _ _ Hp) as Hb.
    pose proof (combine_map_eq _ _ xc XTr XDr Hcols (a, b) Hp) as Ec. cbn [fst snd] in Ec.
    assert (Ekb : xk b = false) by (rewrite (Dfl b Hb), <- Ec, <- (Tfl a Ha); exact Ek).
    rewrite Ek. apply (ix_ok_move I Heq); [apply Tix; auto|]. rewrite Ec. apply Dix; auto. rewrite <- Ec. exact Hkr.
  - intros i Hi. apply nunion_In in Hi. destruct Hi; auto.
Qed.

Lemma stinv_clear : forall R r st L, stinv R r st L -> stinv R r (map xclear st) [].
Proof.
  intros R r st L [Hsh [Hfl _]]. split; [|split; [|split; [|split]]].
  - rewrite map_map. exact Hsh.
  - intros x' Hx'. apply in_map_iff in Hx' as [x [<- Hx]]. cbn. apply Hfl. exact Hx.
  - intros x' Hx' _. apply in_map_iff in Hx' as [x [<- Hx]]. reflexivity.
  - intros x' Hx' _ _. apply in_map_iff in Hx' as [x [<- Hx]]. apply ix_ok_nil.
  - intros i [].
Qed.

(* ---------- update_indices ---------- *)
Lemma stinv_build : forall R r, islat r = true -> rows_len R -> NoDup (map tkey (R r)) ->
  stinv R r (map (xbuild I (R r)) (decls r)) (seq 0 (length (R r))).
Proof.
  intros R r Hl Hlen Hnd. destruct (decl_unpack r Hl) as [Har [Hflag _]].
  assert (Hb : forall d, let y := xbuild I (R r) d in
            xc y = fst d /\ xk y = snd d
            /\ xe y = fold_left (fun es (p : nat * vtuple V) => e_ins I (snd d) (vproj I (fst d) (snd p)) (fst p) es)
                                (combine (seq 0 (length (R r))) (R r)) []).
  { intros d. unfold xbuild. apply (xbuild_fold I). }
  assert (Hkc : forall i, i < length (R r) -> kcol I (R r) (kcols r) i = kof R r i).
  { intros i Hi. unfold kcol, kof. destruct (nth_error (R r) i) as [row|] eqn:En; [|reflexivity].
    apply vproj_kcols_row; auto. apply (Hlen r Hl). eapply nth_error_In; eauto. }
  split; [|split; [|split; [|split]]].
  - rewrite map_map. apply map_ext. intros d. apply (Hb d).
  - intros x' Hx'. apply in_map_iff in Hx' as [d [<- Hd]]. destruct (Hb d) as [-> [-> _]]. apply Hflag. exact Hd.
  - intros x' Hx' Ek. apply in_map_iff in Hx' as [d [<- Hd]]. destruct (Hb d) as [Ec [Ekk Ee]]. rewrite Ekk in Ek.
    pose proof Ek as Ecols. rewrite (Hflag d Hd) in Ecols. apply ncols_eqb_eq in Ecols.
    rewrite Ee, Ek, Ecols.
    pose proof (build_keyform I Heq (kcols r) (R r) []) as Hbk. cbn [app length] in Hbk. cbn [keyform map seq] in Hbk.
    rewrite Hbk.
    + apply keyform_ext. intros i Hi. apply in_seq in Hi. apply Hkc. lia.
    + intros a b Ha Hb2 Hk. rewrite (Hkc a Ha), (Hkc b Hb2) in Hk. apply (kof_inj R r); auto.
  - intros x' Hx' Ek Hkr. apply in_map_iff in Hx' as [d [<- Hd]]. destruct (Hb d) as [Ec [Ekk Ee]]. rewrite Ekk in Ek. rewrite Ec in *.
    rewrite Ee, Ek. pose proof (build_ix_ok I Heq (fst d) (R r) [] []) as Hbi. cbn [app length seq] in Hbi. apply Hbi. apply ix_ok_nil.
  - intros i Hi. apply in_seq in Hi. lia.
Qed.
End Store.
