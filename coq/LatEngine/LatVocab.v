(* C03 tie vocabulary: column values are Z; a value of a shipped lattice type is represented by an integer
   code (gen/c03_vocab.py uses the same coding):
     0 u32 (max)            n
     1 Dual<u32>            n, order reversed
     2 Option<u32>          None = 0, Some n = n + 1
     3 bool                 0 / 1
     4 (u32, u32)           a * 64 + b  (lexicographic order = order of the codes, components < 64)
     5 Product<(u32, Dual<u32>)>  a * 64 + b  (component-wise: a upwards, b downwards)
     6 Set<u32>             bit mask (elements < 16)
     7 BoundedSet<2, u32>   TOP = -1, else a bit mask with at most 2 bits
     8 ConstPropagation     Bottom = -1, Top = -2, Constant n = n
   The theorems never mention this file: they are about an arbitrary value type and arbitrary lattices. *)
From Coq Require Import List ZArith Bool Arith.
From AV Require Import Engine.Core.
From AV Require Import Engine.Vocab.
From AV Require Import LatEngine.LatSyntax.
Import ListNotations.
Open Scope Z_scope.

Fixpoint popc_aux (n : nat) (m : Z) : Z :=
  match n with O => 0 | S k => (if Z.testbit m (Z.of_nat k) then 1 else 0) + popc_aux k m end.
Definition popc (m : Z) : Z := popc_aux 16 m.

Definition lat_join (ty : nat) (a b : Z) : Z :=
  match ty with
  | 1%nat => Z.min a b
  | 5%nat => Z.max (a / 64) (b / 64) * 64 + Z.min (a mod 64) (b mod 64)
  | 6%nat => Z.lor a b
  | 7%nat => if (a =? -1) || (b =? -1) then -1 else let u := Z.lor a b in if popc u <=? 2 then u else -1
  | 8%nat => if a =? -1 then b else if b =? -1 then a else if (a =? -2) || (b =? -2) then -2 else if a =? b then a else -2
  | _ => Z.max a b
  end.
(* join_mut: the joined value and the flag `changed` (exact: C16) *)
Definition lat_jm (ty : nat) (a b : Z) : Z * bool := let j := lat_join ty a b in (j, negb (j =? a)).

Definition bit (x : Z) : Z := Z.shiftl 1 x.
Fixpoint set_elems_aux (n : nat) (m : Z) : list Z :=
  match n with O => [] | S k => set_elems_aux k m ++ (if Z.testbit m (Z.of_nat k) then [Z.of_nat k] else []) end.

Definition lv_fun (f : nat) (l : list Z) : Z :=
  match f with
  | 200%nat => arg 0 l
  | 201%nat => arg 0 l + arg 1 l
  | 202%nat => arg 0 l + arg 1 l
  | 203%nat => Z.min (arg 0 l) 3
  | 204%nat => arg 0 l + arg 1 l
  | 205%nat => arg 0 l + arg 1 l
  | 210%nat => arg 0 l
  | 211%nat => Z.min (arg 0 l + arg 1 l) 12
  | 212%nat => Z.max (arg 0 l) 2
  | 213%nat => arg 0 l
  | 214%nat => Z.min (arg 0 l) (arg 1 l)
  | 215%nat => Z.min (arg 0 l) (arg 1 l)
  | 220%nat => arg 0 l + 1
  | 221%nat => if arg 0 l =? 0 then 0 else Z.min (arg 0 l) 9 + 1
  | 222%nat => arg 0 l
  | 230%nat => bit (arg 0 l)
  | 231%nat => Z.lor (arg 0 l) (bit (arg 1 l))
  | 232%nat => Z.lor (arg 0 l) (arg 1 l)
  | 233%nat => arg 0 l
  | 240%nat => bit (arg 0 l)
  | 241%nat => arg 0 l
  | 250%nat => arg 0 l
  | 251%nat => let a := arg 0 l in let b := arg 1 l in
               if (a =? -1) || (b =? -1) then -1 else if (a =? -2) || (b =? -2) then -2 else Z.min (a + b) 9
  | 252%nat => arg 0 l
  | 261%nat => Z.max (arg 0 l) (arg 1 l)
  | 262%nat => Z.min (arg 0 l) (arg 1 l)
  | 263%nat => arg 0 l
  | 270%nat => arg 0 l * 64 + arg 1 l
  | 271%nat => arg 0 l
  | 280%nat => arg 0 l * 64 + arg 1 l
  | 281%nat => arg 0 l
  | _ => std_fint f l
  end.

Definition lv_pred (p : nat) (l : list Z) : bool :=
  match p with
  | 300%nat => arg 0 l <=? 4
  | 301%nat => arg 0 l <=? 2
  | 302%nat => arg 0 l <=? arg 1 l
  | 303%nat => arg 0 l <=? 3
  | 310%nat => 3 <=? arg 0 l
  | 311%nat => arg 1 l <=? arg 0 l
  | 320%nat => negb (arg 0 l =? 0)
  | 321%nat => 4 <=? arg 0 l
  | 330%nat => Z.testbit (arg 0 l) (arg 1 l)
  | 331%nat => 2 <=? popc (arg 0 l)
  | 340%nat => (arg 0 l =? -1) || Z.testbit (arg 0 l) (arg 1 l)
  | 341%nat => arg 0 l =? -1
  | 350%nat => arg 0 l =? -2
  | 351%nat => negb (arg 0 l =? -1)
  | 360%nat => arg 0 l =? 1
  | 370%nat => 128 <=? arg 0 l
  | 380%nat => 1 <=? arg 0 l / 64
  | 381%nat => (arg 0 l) mod 64 <=? 1
  | _ => std_pint p l
  end.

Definition lv_part (f : nat) (l : list Z) : option Z :=
  match f with
  | 400%nat => Some (arg 0 l)
  | 401%nat => if 0 <? arg 0 l then Some (arg 0 l - 1) else None
  | 100%nat | 101%nat | 102%nat => std_bint f l
  | _ => Some (lv_fun f l)
  end.

Definition lv_gen (g : nat) (l : list Z) : list Z :=
  match g with
  | 2%nat => set_elems_aux 16 (arg 0 l)
  | _ => std_gint g l
  end.

Definition lv_interp : linterp Z :=
  {| vconst := fun c => c; vfun := lv_fun; vpred := lv_pred; vpart := lv_part; vgen := lv_gen; veqb := Z.eqb |}.

(* lattice relations of a program: (relation, lattice type id) *)
Definition lv_type (lats : list (rel * nat)) (r : rel) : option nat :=
  option_map snd (find (fun p => Nat.eqb (fst p) r) lats).
Definition lv_islat (lats : list (rel * nat)) (r : rel) : bool := match lv_type lats r with Some _ => true | None => false end.
Definition lv_jm (lats : list (rel * nat)) (r : rel) : Z -> Z -> Z * bool :=
  match lv_type lats r with Some ty => lat_jm ty | None => fun a _ => (a, false) end.

(* identity order of iteration; the model's final answer does not depend on it (c03 theorems) *)
Definition lv_shuffle (n : nat) (l : list nat) : list nat := if Nat.even n then l else rev l.
Definition lv_swap (n : nat) (l1 l2 : list nat) : bool := Nat.leb (length l1) (length l2).

(* observation: the rows of the listed relations *)
Definition lv_show (rs : list rel) (R : rel -> list (list Z)) : list (rel * list (list Z)) := map (fun r => (r, R r)) rs.
