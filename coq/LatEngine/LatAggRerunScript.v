(* C13 over lattices WITH aggregation / negation - executable histories of the serial lattice + aggregate engine model
   (LatAggEval.v arun_plan), evaluated by the tie gen/c13_latagg.py with vm_compute next to the same histories on the
   real code.  Model only, no proofs.
     lat_agg_script     run(); [caller pushes rows]; run(); ...      snapshots of the rows after every run
   Between two runs the program value IS its rows: arun_plan starts with update_indices (every index rebuilt from the
   rows), nothing else of an earlier run is read. *)
From Coq Require Import List ZArith Bool Arith.
From AV Require Import Engine.Core.
From AV Require Import Engine.Eval.
From AV Require Import LatEngine.LatSyntax.
From AV Require Import LatEngine.LatEval.
From AV Require Import LatEngine.LatAggEval.
Import ListNotations.

Section AScript.
Context {V : Type}.
Variable I : linterp V.
Variable vagg : nat -> list (list V) -> list V.
Variable islat : rel -> bool.
Variable jm : rel -> V -> V -> V * bool.
Variable shuffle : nat -> list nat -> list nat.
Variable ashuffle : nat -> list nat -> list nat.
Variable swap_oracle : nat -> list nat -> list nat -> bool.

Inductive astep :=
| ARun
| APush (F : rel -> list (vtuple V)).                (* p.rel.push(row) for every row of F *)

Definition arows_t := rel -> list (vtuple V).
Definition ashow_t := list (rel * list (vtuple V)).
Definition ashow (rels : list rel) (R : arows_t) : ashow_t := map (fun r => (r, R r)) rels.

(* the same rows, stored as a table (keeps the closures of successive runs from piling up) *)
Definition afreeze (rels : list rel) (R : arows_t) : arows_t :=
  let tbl := ashow rels R in
  fun r => match find (fun p => Nat.eqb (fst p) r) tbl with Some p => snd p | None => R r end.

Definition apush (R F : arows_t) : arows_t := fun r => R r ++ F r.

Fixpoint lat_agg_script (fuel : nat) (pl : plan) (rels : list rel) (steps : list astep) (R : arows_t) : option (list ashow_t) :=
  match steps with
  | [] => Some []
  | ARun :: rest =>
      match arun_plan I vagg islat jm shuffle ashuffle swap_oracle fuel pl R with
      | Some st => let R' := afreeze rels (l_rows st) in option_map (cons (ashow rels R')) (lat_agg_script fuel pl rels rest R')
      | None => None
      end
  | APush F :: rest => lat_agg_script fuel pl rels rest (apush R F)
  end.
End AScript.
