(* C02, lattice half WITH aggregation - the REDUCTION of the parallel engine with aggregates to the parallel engine
   without: every iteration of LatParAggModel.par_lat_agg_iteration on an SCC of a validated plan IS an iteration of
   LatParModel.par_lat_iteration on the translated, aggregate-free SCC (LatAggTrans.tr_scc) under the interpretation
   tr_interp A that fixes the rows A of the relations the SCC does not write - with the SAME workers, contributions,
   global schedule and final rows.

   Why: an aggregated relation q is not dynamic in the SCC (Validate.scc_ok), so
   - the version the aggregate reads is the stored index of q: every row number of q exactly once (stored_exact);
   - a row of q read at any moment of the iteration has the value it had at SCC entry (LatParModel.cur: only the
     dynamic lattice relations change), whichever worker reads it and whenever;
   - the aggregators are permutation invariant, so the order of the traversal is immaterial.
   Hence [agg_reads] yields exactly agg_result A = what the generator standing for the aggregate yields under
   tr_interp A ([agg_reads_spec]).  The swap of a reorderable simple join is handled on position-tagged item lists
   (the positional generator symbols follow the item, not the place). *)
From Coq Require Import List ZArith Bool Arith Lia Permutation.
From AV Require Import Engine.Core.
From AV Require Import Engine.Eval.
From AV Require Import Engine.Validate.
From AV Require Engine.EnvLemmas.
From AV Require Engine.AggLemmas.
From AV Require Engine.StrataAgg.
From AV Require Engine.ParLat.
From AV Require Import LatEngine.LatSyntax.
From AV Require Import LatEngine.LatEval.
From AV Require Import LatEngine.LatAggEval.
From AV Require Import LatEngine.LatAggTrans.
From AV Require Import LatEngine.LatAggKey.
From AV Require Import LatEngine.LatAggInv.
From AV Require Import LatEngine.LatAggSemEq.
From AV Require Import LatEngine.LatAggSim.
From AV Require Import LatEngine.LatParModel.
From AV Require Import LatEngine.LatParAggModel.
Import ListNotations.
Local Open Scope nat_scope.

(* ---------- swap_at and position-tagged lists ---------- *)
Lemma swap_at_map : forall (X Y : Type) (f : X -> Y) n l, swap_at n (map f l) = map f (swap_at n l).
Proof.
  intros X Y f. induction n as [|n IH]; intros l.
  - destruct l as [|a [|b l]]; reflexivity.
  - destruct l as [|a l]; [reflexivity|]. cbn [map swap_at]. rewrite IH. reflexivity.
Qed.

Lemma swap_at_Forall : forall (X : Type) (Q : X -> Prop) n l, Forall Q l -> Forall Q (swap_at n l).
Proof.
  intros X Q. induction n as [|n IH]; intros l H.
  - destruct l as [|a [|b l]]; cbn [swap_at]; try exact H.
    inversion H as [|? ? Ha H1]; subst. inversion H1 as [|? ? Hb H2]; subst. constructor; [exact Hb|]. constructor; assumption.
  - destruct l as [|a l]; cbn [swap_at]; [exact H|]. inversion H as [|? ? Ha H1]; subst. constructor; [exact Ha | apply IH; exact H1].
Qed.

Definition tag (p : nat) (items : list pitem) : list (nat * pitem) := combine (seq p (length items)) items.

Lemma tag_cons : forall p it items, tag p (it :: items) = (p, it) :: tag (S p) items.
Proof. reflexivity. Qed.

Lemma map_snd_tag : forall items p, map snd (tag p items) = items.
Proof. induction items as [|it items IH]; intros p; [reflexivity|]. rewrite tag_cons. cbn [map snd]. rewrite IH. reflexivity. Qed.

Section Sim.
Context {V : Type}.
Variable I : linterp V.
Hypothesis Heq : veqb_ok I.
Variable vagg : nat -> list (list V) -> list V.
Hypothesis Hperm : forall a l l', Permutation l l' -> vagg a l = vagg a l'.
Variable islat : rel -> bool.
Variable jm : rel -> V -> V -> V * bool.
Variable arities : list (rel * nat).
Variable P : list rule.
Variable K : nat.
Variable N : var.
Hypothesis HK : body_bound K P = true.

Definition trp (j : nat) (l : list (nat * pitem)) : list pitem := map (fun pi => tr_pitem K N j (fst pi) (snd pi)) l.

Lemma trp_tag : forall j items p, trp j (tag p items) = tr_pitems K N j p items.
Proof.
  intros j. induction items as [|it items IH]; intros p; [reflexivity|].
  rewrite tag_cons. unfold trp. cbn [map fst snd tr_pitems]. f_equal. apply IH.
Qed.

(* the rows selected among rows read through their numbers = LatAggEval.agg_rows *)
Lemma agg_sel_rows : forall arity lat (R : list (vtuple V)) idx key ids rows,
  Forall2 (fun i t => nth_error R i = Some t) ids rows ->
  agg_sel I arity lat idx key rows = agg_rows I arity lat R idx key ids.
Proof.
  intros arity lat R idx key ids rows H. unfold agg_sel, agg_rows. cbv zeta.
  assert (E : filter (fun row => vlist_eqb I (vproj I idx row) key) rows = agg_matching I R idx key ids).
  { unfold agg_matching. induction H as [|i t ids rows Hi H IH]; cbn [filter filter_map]; [reflexivity|].
    rewrite Hi. destruct (vlist_eqb I (vproj I idx t) key); rewrite IH; reflexivity. }
  rewrite E. reflexivity.
Qed.

(* ---------- one iteration ---------- *)
Section Iter.
Variable dyn : list rel.
Variables St T D : rel -> list nat.
Variable A : rel -> list (vtuple V).
Hypothesis HSt : forall q, is_dyn dyn q = false -> Permutation (St q) (seq 0 (length (A q))).
Hypothesis HA : plain_nodup islat A.
Variable Obs : rel -> nat -> vtuple V -> Prop.
(* a relation the SCC does not write is read with its entry value *)
Hypothesis HObs : forall q i t, is_dyn dyn q = false -> Obs q i t -> nth_error (A q) i = Some t.

Notation I' := (tr_interp I vagg islat P K A).

Lemma agg_reads_spec : forall e a bound r args vals, is_dyn dyn r = false ->
  agg_reads I vagg islat dyn St T D Obs e a bound r args (keypos args) vals ->
  exists key, veval_terms I e (akey_terms args) = Some key
              /\ vals = vagg a (map (vagg_input bound args) (spec_rows I islat A r args key)).
Proof.
  intros e a bound r args vals Hd [key [ids [rows [Hk [Hp [Hr ->]]]]]].
  rewrite vagg_key_keypos in Hk. exists key. split; [exact Hk|].
  apply Hperm. apply Permutation_map. rewrite (spec_rows_filter I Heq islat A r args key (HA r)).
  assert (Hr' : Forall2 (fun i t => nth_error (A r) i = Some t) ids rows).
  { clear Hp. induction Hr as [|i t ids rows Hi H IH]; constructor; [exact (HObs r i t Hd Hi) | exact IH]. }
  rewrite (agg_sel_rows (length args) (islat r) (A r) (keypos args) key ids rows Hr').
  apply (agg_rows_perm I Heq).
  - unfold vrows in Hp. rewrite Hd in Hp. eapply Permutation_trans; [exact Hp | apply HSt; exact Hd].
  - apply HA.
Qed.

Definition wfp (ru : rule) (pi : nat * pitem) : Prop :=
  nth_error (body ru) (fst pi) = Some (item_of (snd pi)) /\ pitem_below N (snd pi) = true
  /\ match snd pi with PAgg _ _ _ r args idx => idx = keypos args /\ is_dyn dyn r = false | _ => True end.

Lemma wfi_wfp : forall ru items p, wfi N dyn ru p items -> Forall (wfp ru) (tag p items).
Proof.
  intros ru. induction items as [|it items IH]; intros p H; [constructor|].
  rewrite tag_cons. cbn [wfi] in H. destruct H as [H1 [H2 [H3 H4]]]. constructor; [|apply IH; exact H4].
  unfold wfp. cbn [fst snd]. auto.
Qed.

Section Rule.
Variable j : nat.
Variable ru : rule.
Hypothesis Hj : nth_error P j = Some ru.

Lemma pos_ltK : forall p b, nth_error (body ru) p = Some b -> p < K.
Proof.
  intros p b Hp. pose proof (body_bound_lt P K j ru HK Hj) as Hl.
  assert (p < length (body ru)) by (apply nth_error_Some; congruence). lia.
Qed.

(* the values of the generator standing for an aggregate *)
Lemma agg_gen_vals : forall p out a bound r args (e e' : venv V) vs key,
  nth_error (body ru) p = Some (BAgg out a bound r args) -> forallb (aarg_below N) args = true -> agree N e e' ->
  veval_vars e' (akey_vars args) = Some vs -> veval_terms I e (akey_terms args) = Some key ->
  tr_vgen I vagg islat P K A (j * K + p) vs = vagg a (map (vagg_input bound args) (spec_rows I islat A r args key)).
Proof.
  intros p out a bound r args e e' vs key Hp Hb Hag Hv Hk.
  rewrite (tr_vgen_agg I vagg islat P K A j p ru out a bound r args vs Hj Hp (pos_ltK p _ Hp)).
  unfold agg_result. rewrite akey_vars_eq in Hv |- *. rewrite (vbinds_terms I (akey_terms args) vs e' Hv).
  rewrite <- (agree_terms I N e e' (akey_terms args) (akey_terms_below N args Hb) Hag), Hk. reflexivity.
Qed.

Lemma asato_sato : forall l e0 e, asato I vagg islat dyn St T D Obs (map snd l) e0 e -> Forall (wfp ru) l ->
  forall e0', agree N e0 e0' -> exists e', agree N e e' /\ sato I' dyn St T D Obs (trp j l) e0' e'.
Proof.
  induction l as [|[p it] l IH]; intros e0 e Hs Hw e0' Hag.
  - cbn [map] in Hs. inversion Hs; subst. exists e0'. split; [exact Hag | constructor].
  - inversion Hw as [|? ? [Hp [Hb Hx]] Hw']; subst. cbn [fst snd] in Hp, Hb, Hx. cbn [map snd] in Hs.
    unfold trp. cbn [map fst snd]. fold (trp j l).
    destruct it as [r args cs idx ver|c|x g xs|out a bound r args idx]; cbn [tr_pitem].
    + inversion Hs as [|r0 args0 cs0 idx0 ver0 rest0 ea i t e1 e2 e3 Hi Ho Hm Hc Hrest| | |]; subst.
      cbn [pitem_below] in Hb. apply andb_true_iff in Hb as [Hba Hbc].
      pose proof (vmatch_agree I N args t e0 e0' Hba Hag) as Hm'. rewrite Hm in Hm'.
      destruct (vmatch_args I e0' args t) as [e1a|] eqn:Em; [|contradiction]. cbn [orel] in Hm'.
      pose proof (agree_conds I N cs e1 e1a Hbc Hm') as Hc'. rewrite Hc in Hc'.
      destruct (vsat_conds I e1a cs) as [e2a|] eqn:Ec; [|contradiction]. cbn [orel] in Hc'.
      destruct (IH e2 e Hrest Hw' e2a Hc') as [e' [Hag' Hs']].
      exists e'. split; [exact Hag'|]. eapply sato_clause; [exact Hi | exact Ho | exact Em | exact Ec | exact Hs'].
    + inversion Hs as [| |c0 rest0 ea e1 e2 Hc Hrest| |]; subst. cbn [pitem_below] in Hb.
      pose proof (agree_cond I N e0 e0' c Hb Hag) as Hc'. rewrite Hc in Hc'.
      destruct (vsat_cond I e0' c) as [e1a|] eqn:Ec; [|contradiction]. cbn [orel] in Hc'.
      destruct (IH e1 e Hrest Hw' e1a Hc') as [e' [Hag' Hs']].
      exists e'. split; [exact Hag'|]. eapply sato_cond; [exact Ec | exact Hs'].
    + inversion Hs as [| | |x0 g0 xs0 rest0 ea vs v e2 Hv Hin Hrest|]; subst.
      cbn [pitem_below] in Hb. apply andb_true_iff in Hb as [_ Hbx]. cbn [item_of] in Hp.
      rewrite (agree_vars N e0 e0' xs Hbx Hag) in Hv.
      destruct (IH _ e Hrest Hw' (vbind x v e0') (agree_bind N e0 e0' x v Hag)) as [e' [Hag' Hs']].
      exists e'. split; [exact Hag'|]. eapply sato_gen; [exact Hv | | exact Hs'].
      change (vgen I' (j * K + p) vs) with (tr_vgen I vagg islat P K A (j * K + p) vs).
      rewrite (tr_vgen_gen I vagg islat P K A j p ru x g xs vs Hj Hp (pos_ltK p _ Hp)). exact Hin.
    + inversion Hs as [| | | |out0 a0 bound0 r0 args0 idx0 rest0 ea vals v e2 Hrd Hin Hrest]; subst.
      cbn [pitem_below] in Hb. apply andb_true_iff in Hb as [_ Hba]. cbn [item_of] in Hp. destruct Hx as [-> Hd].
      destruct (agg_reads_spec e0 a bound r args vals Hd Hrd) as [key [Hk ->]].
      pose proof (akey_terms_below N args Hba) as Hbt.
      pose proof Hk as Hk'. rewrite (agree_terms I N e0 e0' (akey_terms args) Hbt Hag) in Hk'.
      destruct (proj1 (veval_terms_some_vars I e0' (akey_terms args)) (ex_intro _ key Hk')) as [vs Hv].
      destruct (IH _ e Hrest Hw' (vbind (outvar N p out) v e0') (agree_bind_out N p out v e0 e0' Hag)) as [e' [Hag' Hs']].
      exists e'. split; [exact Hag'|]. eapply sato_gen; [rewrite akey_vars_eq; exact Hv | | exact Hs'].
      change (vgen I' (j * K + p) vs) with (tr_vgen I vagg islat P K A (j * K + p) vs).
      rewrite (agg_gen_vals p out a bound r args e0 e0' vs key Hp Hba Hag Hv Hk). exact Hin.
Qed.

Lemma acovers_covers : forall (Leaf Leaf' : venv V -> Prop), (forall e e', agree N e e' -> Leaf e -> Leaf' e') ->
  forall l e, acovers I vagg islat dyn St T D Obs Leaf (map snd l) e -> Forall (wfp ru) l ->
  forall e', agree N e e' -> covers I' dyn St T D Obs Leaf' (trp j l) e'.
Proof.
  intros Leaf Leaf' HL. induction l as [|[p it] l IH]; intros e Hc Hw e' Hag.
  - cbn [map] in Hc. inversion Hc; subst. apply cov_nil. eapply HL; eauto.
  - inversion Hw as [|? ? [Hp [Hb Hx]] Hw']; subst. cbn [fst snd] in Hp, Hb, Hx. cbn [map snd] in Hc.
    unfold trp. cbn [map fst snd]. fold (trp j l).
    destruct it as [r args cs idx ver|c|x g xs|out a bound r args idx]; cbn [tr_pitem].
    + inversion Hc as [|r0 args0 cs0 idx0 ver0 rest0 ea Hall| | |]; subst.
      cbn [pitem_below] in Hb. apply andb_true_iff in Hb as [Hba Hbc].
      apply cov_clause. intros i Hi. destruct (Hall i Hi) as [t [Ho Hk]]. exists t. split; [exact Ho|].
      intros e1' e2' Hm' Hc'. change (vmatch_args I e' args t = Some e1') in Hm'. change (vsat_conds I e1' cs = Some e2') in Hc'.
      pose proof (vmatch_agree I N args t e e' Hba Hag) as Hm. rewrite Hm' in Hm.
      destruct (vmatch_args I e args t) as [e1|] eqn:Em; [|contradiction]. cbn [orel] in Hm.
      pose proof (agree_conds I N cs e1 e1' Hbc Hm) as Hcc. rewrite Hc' in Hcc.
      destruct (vsat_conds I e1 cs) as [e2|] eqn:Ec; [|contradiction]. cbn [orel] in Hcc.
      exact (IH e2 (Hk e1 e2 eq_refl Ec) Hw' e2' Hcc).
    + inversion Hc as [| |c0 rest0 ea Hall| |]; subst. cbn [pitem_below] in Hb.
      apply cov_cond. intros e1' Hc'. change (vsat_cond I e' c = Some e1') in Hc'.
      pose proof (agree_cond I N e e' c Hb Hag) as Hcc. rewrite Hc' in Hcc.
      destruct (vsat_cond I e c) as [e1|] eqn:Ec; [|contradiction]. cbn [orel] in Hcc.
      exact (IH e1 (Hall e1 eq_refl) Hw' e1' Hcc).
    + inversion Hc as [| | |x0 g0 xs0 rest0 ea Hall|]; subst.
      cbn [pitem_below] in Hb. apply andb_true_iff in Hb as [_ Hbx]. cbn [item_of] in Hp.
      apply cov_gen. intros vs v Hv Hin. rewrite <- (agree_vars N e e' xs Hbx Hag) in Hv.
      change (vgen I' (j * K + p) vs) with (tr_vgen I vagg islat P K A (j * K + p) vs) in Hin.
      rewrite (tr_vgen_gen I vagg islat P K A j p ru x g xs vs Hj Hp (pos_ltK p _ Hp)) in Hin.
      exact (IH _ (Hall vs v Hv Hin) Hw' _ (agree_bind N e e' x v Hag)).
    + inversion Hc as [| | | |out0 a0 bound0 r0 args0 idx0 rest0 ea Hall]; subst.
      cbn [pitem_below] in Hb. apply andb_true_iff in Hb as [_ Hba]. cbn [item_of] in Hp. destruct Hx as [-> Hd].
      apply cov_gen. intros vs v Hv Hin.
      pose proof Hv as Hv0. rewrite <- (agree_vars N e e' _ (akey_vars_below N args Hba) Hag) in Hv0.
      rewrite akey_vars_eq in Hv0.
      destruct (proj2 (veval_terms_some_vars I e (akey_terms args)) (ex_intro _ vs Hv0)) as [key Hk].
      pose proof Hk as Hk0. rewrite <- vagg_key_keypos in Hk0.
      destruct (Hall key Hk0) as [vals [Hrd Hk']].
      destruct (agg_reads_spec e a bound r args vals Hd Hrd) as [key' [Hk2 ->]].
      rewrite Hk in Hk2. injection Hk2 as <-.
      change (vgen I' (j * K + p) vs) with (tr_vgen I vagg islat P K A (j * K + p) vs) in Hin.
      rewrite (agg_gen_vals p out a bound r args e e' vs key Hp Hba Hag Hv Hk) in Hin.
      exact (IH _ (Hk' v Hin) Hw' _ (agree_bind_out N p out v e e' Hag)).
Qed.
End Rule.
End Iter.

(* ---------- one SCC of a validated plan ---------- *)
Section Scc.
Variable sc : pscc.
Hypothesis Hok : scc_ok arities P sc = true.
Hypothesis Hbelow : forallb (variant_below N) (s_vars sc) = true.
Variable St : rel -> list nat.
Variable A : rel -> list (vtuple V).
Hypothesis HSt : forall q, is_dyn (s_dyn sc) q = false -> Permutation (St q) (seq 0 (length (A q))).
Hypothesis HA : plain_nodup islat A.

Notation I' := (tr_interp I vagg islat P K A).
Notation dyn := (s_dyn sc).
Notation sc' := (tr_scc K N sc).

Lemma variant_facts : forall v, In v (s_vars sc) ->
  exists ru, nth_error P (v_rule v) = Some ru /\ wfi N dyn ru 0 (v_items v)
             /\ (forall h, In h (v_heads v) -> forallb (term_below N) (snd h) = true).
Proof.
  intros v Hv.
  pose proof (StrataAgg.scc_ok_variant_agg arities P sc Hok v Hv) as Hvo.
  destruct (StrataAgg.variant_ok_unpack_agg arities P sc v Hvo) as [ru [Hru [Hbody [Hheads _]]]].
  pose proof (StrataAgg.variant_rule_in_agg sc v Hv) as Hin.
  assert (Hvb : variant_below N v = true) by (pose proof Hbelow as Hb; rewrite forallb_forall in Hb; apply Hb; exact Hv).
  unfold variant_below in Hvb. apply andb_true_iff in Hvb as [Hits Hhds].
  exists ru. split; [exact Hru|]. split.
  - apply wfi_of; [cbn [skipn]; symmetry; exact Hbody | exact Hits |].
    intros q Hq. exact (StrataAgg.rule_aggs_static arities P sc Hok (v_rule v) ru q Hin Hru Hq).
  - intros h Hh. rewrite forallb_forall in Hhds. exact (Hhds h Hh).
Qed.

(* the order in which a variant is traversed, on tagged items *)
Lemma order_tr : forall v ru items, wfi N dyn ru 0 (v_items v) -> order_of v items ->
  exists l, items = map snd l /\ Forall (wfp dyn ru) l /\ order_of (tr_variant K N v) (trp (v_rule v) l).
Proof.
  intros v ru items Hw [->|[Hre [n [Hsj ->]]]].
  - exists (tag 0 (v_items v)). split; [symmetry; apply map_snd_tag|]. split; [apply wfi_wfp; exact Hw|].
    left. rewrite trp_tag. reflexivity.
  - exists (swap_at n (tag 0 (v_items v))). split; [rewrite <- swap_at_map, map_snd_tag; reflexivity|].
    split; [apply swap_at_Forall; apply wfi_wfp; exact Hw|].
    right. split; [exact Hre|]. exists n. split; [exact Hsj|].
    unfold trp. rewrite <- swap_at_map. fold (trp (v_rule v) (tag 0 (v_items v))). rewrite trp_tag. reflexivity.
Qed.

Lemma skipped_tr : forall T D v, skipped sc' St T D (tr_variant K N v) = skipped sc St T D v.
Proof.
  intros T D v. unfold skipped. cbn [tr_variant tr_scc v_items v_sj s_dyn].
  rewrite tr_filter_clause, tr_clause_empty. reflexivity.
Qed.

Section Obs.
Variables T D : rel -> list nat.
Variable Obs : rel -> nat -> vtuple V -> Prop.
Hypothesis HObs : forall q i t, is_dyn dyn q = false -> Obs q i t -> nth_error (A q) i = Some t.

Lemma aderived_derived : forall f, aderived I vagg islat sc St T D Obs f -> derived I' sc' St T D Obs f.
Proof.
  intros f [v [items [e [h [Hv [Hord [Hs [Hh Hf]]]]]]]].
  destruct (variant_facts v Hv) as [ru [Hru [Hw Hhd]]].
  destruct (order_tr v ru items Hw Hord) as [l [-> [Hwl Hord']]].
  destruct (asato_sato dyn St T D A HSt HA Obs HObs (v_rule v) ru Hru l [] e Hs Hwl [] (agree_refl N [])) as [e' [Hag Hs']].
  exists (tr_variant K N v), (trp (v_rule v) l), e', h.
  split; [cbn [tr_scc s_vars]; apply in_map; exact Hv|]. split; [exact Hord'|]. split; [exact Hs'|]. split; [exact Hh|].
  change (veval_head I e' h = Some f). rewrite <- (agree_head I N e e' h (Hhd h Hh) Hag). exact Hf.
Qed.

Lemma aexhaustive_variant : forall (Cf : vfact V -> Prop) v items, In v (s_vars sc) -> order_of v items ->
  acovers I vagg islat dyn St T D Obs (fun e => forall h f, In h (v_heads v) -> veval_head I e h = Some f -> Cf f) items [] ->
  exists items', order_of (tr_variant K N v) items' /\
    covers I' dyn St T D Obs (fun e => forall h f, In h (v_heads (tr_variant K N v)) -> veval_head I' e h = Some f -> Cf f) items' [].
Proof.
  intros Cf v items Hv Hord Hc.
  destruct (variant_facts v Hv) as [ru [Hru [Hw Hhd]]].
  destruct (order_tr v ru items Hw Hord) as [l [-> [Hwl Hord']]].
  exists (trp (v_rule v) l). split; [exact Hord'|].
  refine (acovers_covers dyn St T D A HSt HA Obs HObs (v_rule v) ru Hru _ _ _ l [] Hc Hwl [] (agree_refl N [])).
  intros e e' Hag HL h f Hh Hf. cbn [tr_variant v_heads] in Hh. change (veval_head I e' h = Some f) in Hf.
  apply (HL h f Hh). rewrite (agree_head I N e e' h (Hhd h Hh) Hag). exact Hf.
Qed.
End Obs.

(* a relation the SCC does not write is observed with its entry rows, whenever it is read *)
Lemma seen_static : forall T D R mx kfirst work sched q i t, (forall q, is_dyn dyn q = false -> R q = A q) ->
  is_dyn dyn q = false -> seen I islat jm sc T D R mx kfirst work sched q i t -> nth_error (A q) i = Some t.
Proof.
  intros T D R mx kfirst work sched q i t HR Hd [p1 [p2 [_ Hn]]]. unfold cur, latdyn in Hn.
  rewrite Hd, andb_false_r in Hn. rewrite <- (HR q Hd). exact Hn.
Qed.

Theorem par_iteration_tr : forall T D R R' N' ch', (forall q, is_dyn dyn q = false -> R q = A q) ->
  par_lat_agg_iteration I vagg islat jm sc St T D R R' N' ch' ->
  par_lat_iteration I' islat jm sc' St T D R R' N' ch'.
Proof.
  intros T D R R' N' ch' HR [mx [kfirst [work [Cp [sched [Ap [Hca [Hex [H1 [H2 [H3 H4]]]]]]]]]]].
  exists mx, kfirst, work, Cp, sched, Ap. cbv zeta.
  split; [|split; [|split; [exact H1|split; [exact H2|split; [exact H3|exact H4]]]]].
  - destruct Hca as [Hc1 Hc2]. split.
    + intros pre r j post kv Hs Hr Hp.
      apply (aderived_derived T D (seen I islat jm sc T D R mx kfirst work pre)
               (fun q i t Hd Ho => seen_static T D R mx kfirst work pre q i t HR Hd Ho)).
      exact (Hc1 pre r j post kv Hs Hr Hp).
    + intros r t Hl Hin.
      apply (aderived_derived T D (seen I islat jm sc T D R mx kfirst work sched)
               (fun q i t Hd Ho => seen_static T D R mx kfirst work sched q i t HR Hd Ho)).
      exact (Hc2 r t Hl Hin).
  - intros v' Hv' Hsk. cbn [tr_scc s_vars] in Hv'. apply in_map_iff in Hv' as [v [<- Hv]].
    rewrite skipped_tr in Hsk. destruct (Hex v Hv Hsk) as [items [Hord Hc]].
    exact (aexhaustive_variant T D (seen I islat jm sc T D R mx kfirst work sched)
             (fun q i t Hd Ho => seen_static T D R mx kfirst work sched q i t HR Hd Ho)
             (contributed I islat work Cp) v items Hv Hord Hc).
Qed.

(* the loop: the relations the SCC does not write keep their entry rows across iterations *)
Lemma par_loop_tr : forall T D R Tf Rf, par_lat_agg_loop I vagg islat jm sc St T D R Tf Rf ->
  (forall q, is_dyn dyn q = false -> R q = A q) -> par_lat_loop I' islat jm sc' St T D R Tf Rf.
Proof.
  intros T D R Tf Rf H. induction H as [T D R R' N' Hit | T D R R' N' Tf Rf Hit Hloop IH]; intros HR.
  - eapply pll_exit. exact (par_iteration_tr T D R R' N' false HR Hit).
  - eapply pll_step; [exact (par_iteration_tr T D R R' N' true HR Hit)|]. apply IH.
    intros q Hq. destruct Hit as [mx [kfirst [work [Cp [sched [Ap [_ [_ [_ [_ [H3 _]]]]]]]]]]].
    rewrite (proj1 (H3 q Hq)). exact (HR q Hq).
Qed.

Lemma par_loop_reach_tr : forall T D R T2 D2 R2, par_lat_agg_loop_reach I vagg islat jm sc St T D R T2 D2 R2 ->
  (forall q, is_dyn dyn q = false -> R q = A q) ->
  par_lat_loop_reach I' islat jm sc' St T D R T2 D2 R2 /\ (forall q, is_dyn dyn q = false -> R2 q = A q).
Proof.
  intros T D R T2 D2 R2 H. induction H as [T D R | T D R R' N' ch' T2 D2 R2 Hit Hr IH]; intros HR.
  - split; [apply pre_here | exact HR].
  - assert (HR' : forall q, is_dyn dyn q = false -> R' q = A q).
    { intros q Hq. destruct Hit as [mx [kfirst [work [Cp [sched [Ap [_ [_ [_ [_ [H3 _]]]]]]]]]]].
      rewrite (proj1 (H3 q Hq)). exact (HR q Hq). }
    destruct (IH HR') as [G1 G2]. split; [|exact G2].
    eapply pre_next; [exact (par_iteration_tr T D R R' N' ch' HR Hit) | exact G1].
Qed.
End Scc.

(* running an SCC with aggregates in parallel IS running the translated SCC in parallel, under the interpretation fixed by
   the rows at SCC entry *)
Theorem par_run_scc_tr : forall sc (st st' : @lstate V),
  scc_ok arities P sc = true -> forallb (variant_below N) (s_vars sc) = true ->
  stored_exact st -> plain_nodup islat (l_rows st) ->
  par_lat_agg_run_scc I vagg islat jm sc st st' ->
  par_lat_run_scc (tr_interp I vagg islat P K (l_rows st)) islat jm (tr_scc K N sc) st st'.
Proof.
  intros sc st st' Hok Hbelow Hst HP Hrun.
  assert (HSt : forall q, is_dyn (s_dyn sc) q = false -> Permutation (l_stored st q) (seq 0 (length (l_rows st q)))).
  { intros q _. destruct (Hst q) as [Hnd Hin]. apply NoDup_Permutation; [exact Hnd | apply seq_NoDup|].
    intros i. rewrite in_seq. rewrite Hin. lia. }
  unfold par_lat_agg_run_scc in Hrun. unfold par_lat_run_scc. cbv zeta in *.
  change (s_dyn (tr_scc K N sc)) with (s_dyn sc). change (s_loop (tr_scc K N sc)) with (s_loop sc).
  destruct (s_loop sc).
  - destruct Hrun as [Tf [Rf [Hl E]]]. exists Tf, Rf. split; [|exact E].
    apply (par_loop_tr sc Hok Hbelow (l_stored st) (l_rows st) HSt HP); [exact Hl | intros q _; reflexivity].
  - destruct Hrun as [R' [N' [b [Hit E]]]]. exists R', N', b. split; [|exact E].
    apply (par_iteration_tr sc Hok Hbelow (l_stored st) (l_rows st) HSt HP); [intros q _; reflexivity | exact Hit].
Qed.
End Sim.

Print Assumptions par_run_scc_tr.
