(* C02, lattice half - additions to the proofs about the parallel lattice head update (Engine/ParLat.v, ParLatProofs.v)
   needed to compose the iterations into an engine theorem (LatParIter.v), for an arbitrary key / value type:
   - fresh_inv1     the structural invariant holds at the start of an iteration without any assumption on the
                    contributions (they are only known to be lattice elements once the run has been analysed);
   - step_effect    what ONE atomic step does to the rows (nothing, a join of an in-flight contribution into the row of
                    its key, or the push of an in-flight contribution) and to the worker's in-flight / todo contributions;
   - parlat_views_agree   after every finishing schedule new's key index and new's other indices list the SAME row
                    numbers (a body clause may read delta through either), and they are numbers of existing rows. *)
From Coq Require Import List ZArith Bool Arith Lia.
From AV Require Import Engine.ParLat.
From AV Require Import Engine.ParLatProofs.
From AV Require Import LatEngine.LatSem.
From AV Require Import LatEngine.LatParModel.
Import ListNotations.
Local Open Scope nat_scope.

Section Head.
Context {K V : Type}.
Variable keqb : K -> K -> bool.
Hypothesis keqb_spec : forall a b, keqb a b = true <-> a = b.
Variable jm : V -> V -> V * bool.
Variable mx : K -> nat.
Variable kfirst : bool.
Variable setidx : bool.
Variables dl tt : K -> option nat.

Notation pstate := (@pstate K V).
Notation worker := (@worker K V).
Notation lpc := (@lpc K V).
Notation stepf := (step keqb jm mx kfirst setidx dl tt).
Notation klk := (klook keqb).
Notation inv1 := (@inv1 K V keqb mx kfirst dl tt).
Notation fz := (@fz K dl tt).

Lemma fresh_worker : forall R0 (work : list (list (K * V))) j w,
  nth_error (lws (par_init R0 [] [] false work)) j = Some w -> wpc w = PIdle /\ nth_error work j = Some (todo w).
Proof.
  intros R0 work j w H. cbn [par_init lws] in H. rewrite nth_error_map in H. destruct (nth_error work j) as [l|]; [|discriminate].
  cbn in H. injection H as <-. cbn. auto.
Qed.

Lemma fresh_inv1 : forall R0 work, NoDup (map fst R0) -> (forall k i, fz k = Some i <-> hasrow R0 i k) ->
  inv1 (par_init R0 [] [] false work).
Proof.
  intros R0 work N F. constructor; cbn [par_init lrows lnkey lheld].
  - apply uniq_NoDup. exact N.
  - intros k i H. discriminate.
  - intros k i H. apply F. exact H.
  - intros i k H. right. left. apply F. exact H.
  - intros j w H. destruct (fresh_worker _ _ _ _ H) as [-> _]. exact Logic.I.
  - intros j w m H Hh. destruct (fresh_worker _ _ _ _ H) as [Hp _]. rewrite Hp in Hh. discriminate.
  - intros j1 j2 w1 w2 m H1 _ Hh _. destruct (fresh_worker _ _ _ _ H1) as [Hp _]. rewrite Hp in Hh. discriminate.
  - intros m [].
Qed.

(* ---------- the effect of one step ---------- *)
Definition rows_effect (s s' : pstate) (j : nat) : Prop :=
  lrows s' = lrows s
  \/ (exists w k v i c, nth_error (lws s) j = Some w /\ In (k, v) (inflight (wpc w)) /\ nth_error (lrows s) i = Some (k, c)
        /\ lrows s' = upd_nth i (k, fst (jm c v)) (lrows s))
  \/ (exists w k v, nth_error (lws s) j = Some w /\ In (k, v) (inflight (wpc w)) /\ lrows s' = lrows s ++ [(k, v)]).

Definition worker_effect (s : pstate) (j : nat) (w w' : worker) (j' : nat) : Prop :=
  (todo w' = todo w /\ incl (inflight (wpc w')) (inflight (wpc w)))
  \/ (j' = j /\ exists kv, pops s j = Some kv /\ todo w = kv :: todo w' /\ inflight (wpc w') = [kv]).

Definition workers_effect (s s' : pstate) (j : nat) : Prop :=
  forall j' w', nth_error (lws s') j' = Some w' -> exists w, nth_error (lws s) j' = Some w /\ worker_effect s j w w' j'.

Lemma mk_workers_effect : forall s j w R' nk' ot' hd' ch' td' p',
  nth_error (lws s) j = Some w ->
  worker_effect s j w {| todo := td'; wpc := p' |} j ->
  workers_effect s (mk R' nk' ot' hd' ch' s j td' p') j.
Proof.
  intros s j w R' nk' ot' hd' ch' td' p' Hw He j' w' H. cbn [mk lws] in H.
  destruct (ws_upd_inv _ _ _ _ _ _ Hw H) as [[-> ->] | [Hne H0]].
  - exists w. split; [exact Hw | exact He].
  - exists w'. split; [exact H0|]. left. split; [reflexivity | apply incl_refl].
Qed.

Lemma same_workers_effect : forall s j, workers_effect s s j.
Proof. intros s j j' w' H. exists w'. split; [exact H|]. left. split; [reflexivity | apply incl_refl]. Qed.

Lemma step_effect : forall s j, inv1 s -> rows_effect s (stepf s j) j /\ workers_effect s (stepf s j) j.
Proof.
  intros s j I1. unfold step. destruct (nth_error (lws s) j) as [w|] eqn:Hw; [|split; [left; reflexivity | apply same_workers_effect]].
  pose proof (i_loc _ _ _ _ _ _ I1 _ _ Hw) as L. destruct w as [td p]. cbn [todo wpc] in *.
  assert (Hstay : forall p', incl (inflight p') (inflight p) -> worker_effect s j {| todo := td; wpc := p |} {| todo := td; wpc := p' |} j).
  { intros p' Hi. left. split; [reflexivity | exact Hi]. }
  destruct p; cbn [wlocal] in L.
  - (* PIdle *) destruct td as [|[k v] rest]; [split; [left; reflexivity | apply same_workers_effect]|].
    unfold goto. split; [left; reflexivity|]. eapply mk_workers_effect; [exact Hw|]. right. split; [reflexivity|].
    exists (k, v). split; [|split; reflexivity]. unfold pops. rewrite Hw. reflexivity.
  - (* PLook *) destruct (orelse r (orelse (dl k) (tt k))); unfold goto;
      (split; [left; reflexivity | eapply mk_workers_effect; [exact Hw | apply Hstay; cbn; apply incl_refl]]).
  - (* PJoin *) destruct L as [[c Hc] _]. unfold join_row. rewrite Hc. cbn [fst snd]. split.
    + right. left. exists {| todo := td; wpc := PJoin k v i nh |}, k, v, i, c. cbn [wpc inflight]. repeat split; auto. left. reflexivity.
    + eapply mk_workers_effect; [exact Hw | apply Hstay]. destruct (snd (jm c v) && negb nh); cbn; intros x [].
  - (* PIns1 *) destruct kfirst; (split; [left; reflexivity | eapply mk_workers_effect; [exact Hw | apply Hstay; cbn; apply incl_refl]]).
  - (* PIns2 *) destruct kfirst; (split; [left; reflexivity | eapply mk_workers_effect; [exact Hw | apply Hstay; cbn; apply incl_refl]]).
  - (* PFlag *) split; [left; reflexivity | eapply mk_workers_effect; [exact Hw | apply Hstay; destruct m; cbn; apply incl_refl]].
  - (* PLock *) destruct (nmem (mx k) (lheld s)); [split; [left; reflexivity | apply same_workers_effect]|].
    split; [left; reflexivity | eapply mk_workers_effect; [exact Hw | apply Hstay; cbn; apply incl_refl]].
  - (* PRecheck *) destruct (klk k (lnkey s)); unfold goto;
      (split; [left; reflexivity | eapply mk_workers_effect; [exact Hw | apply Hstay; cbn; apply incl_refl]]).
  - (* PJoinM *) destruct L as [[c Hc] _]. unfold join_row. rewrite Hc. cbn [fst snd]. split.
    + right. left. exists {| todo := td; wpc := PJoinM k v i |}, k, v, i, c. cbn [wpc inflight]. repeat split; auto. left. reflexivity.
    + eapply mk_workers_effect; [exact Hw | apply Hstay]. cbn. intros x [].
  - (* PPush *) split.
    + right. right. exists {| todo := td; wpc := PPush k v |}, k, v. cbn [wpc inflight]. repeat split; auto. left. reflexivity.
    + eapply mk_workers_effect; [exact Hw | apply Hstay]. cbn. intros x [].
  - (* PUnlock *) split; [left; reflexivity | eapply mk_workers_effect; [exact Hw | apply Hstay; cbn; apply incl_refl]].
Qed.

Lemma mk_lws_length : forall (s : pstate) R' nk' ot' hd' ch' j td' p', length (lws (mk R' nk' ot' hd' ch' s j td' p')) = length (lws s).
Proof. intros. cbn [mk lws]. apply upd_nth_length. Qed.

Lemma step_lws_length : forall s j, length (lws (stepf s j)) = length (lws s).
Proof.
  intros s j. unfold step. destruct (nth_error (lws s) j) as [w|]; [|reflexivity].
  destruct (wpc w); unfold goto; try apply mk_lws_length.
  - destruct (todo w) as [|[k v] rest]; [reflexivity | apply mk_lws_length].
  - destruct (orelse r (orelse (dl k) (tt k))); apply mk_lws_length.
  - destruct (join_row jm (lrows s) i v). apply mk_lws_length.
  - destruct kfirst; apply mk_lws_length.
  - destruct kfirst; apply mk_lws_length.
  - destruct (nmem (mx k) (lheld s)); [reflexivity | apply mk_lws_length].
  - destruct (klk k (lnkey s)); apply mk_lws_length.
Qed.

(* ---------- new's key index and new's other indices list the same rows ---------- *)
Notation pend_key := (@pend_key K V kfirst).
Notation keyok := (@keyok K V keqb kfirst).

Definition wl5 (nk : list (K * nat)) (p : lpc) : Prop :=
  match p with PIns2 k i _ => kfirst = true -> klk k nk = Some i | _ => True end.

Record inv5 (s : pstate) : Prop := {
  o_in : forall i, In i (lother s) -> exists k, hasrow (lrows s) i k /\ keyok s k i;
  o_loc : forall j w, nth_error (lws s) j = Some w -> wl5 (lnkey s) (wpc w)
}.

Lemma mk_inv5 : forall s j w R' nk' ot' hd' ch' td' p',
  inv5 s -> nth_error (lws s) j = Some w ->
  (forall i k, hasrow (lrows s) i k -> hasrow R' i k) ->
  (forall k i, klk k (lnkey s) = Some i -> klk k nk' = Some i) ->
  (forall k i, pend_key (wpc w) k i -> pend_key p' k i \/ klk k nk' = Some i) ->
  (forall i, In i ot' -> In i (lother s) \/ exists k, hasrow R' i k /\ (pend_key p' k i \/ klk k nk' = Some i)) ->
  wl5 nk' p' ->
  inv5 (mk R' nk' ot' hd' ch' s j td' p').
Proof.
  intros s j w R' nk' ot' hd' ch' td' p' I Hw HR HK HP HO HL.
  set (s' := mk R' nk' ot' hd' ch' s j td' p').
  assert (Hme : nth_error (lws s') j = Some {| todo := td'; wpc := p' |}) by (eapply ws_upd_same; eauto).
  assert (TK : forall k i, keyok s k i -> keyok s' k i).
  { intros k i [H | [j0 [w0 [H1 H2]]]]; [left; apply HK; exact H|].
    destruct (Nat.eq_dec j0 j) as [->|Hne].
    - rewrite Hw in H1. injection H1 as <-. destruct (HP _ _ H2) as [H|H]; [right; eauto | left; exact H].
    - right. exists j0, w0. split; [apply ws_upd_other; auto | exact H2]. }
  constructor.
  - intros i Hi. cbn [s' mk lother lrows] in *. destruct (HO i Hi) as [H | [k [H1 H2]]].
    + destruct (o_in _ I i H) as [k [Hk1 Hk2]]. exists k. split; [apply HR; exact Hk1 | apply TK; exact Hk2].
    + exists k. split; [exact H1|]. destruct H2 as [H2|H2]; [right; eauto | left; exact H2].
  - intros j' w' H. cbn [s' mk lws lnkey] in *. destruct (ws_upd_inv _ _ _ _ _ _ Hw H) as [[-> ->] | [Hne H0]]; [exact HL|].
    pose proof (o_loc _ I _ _ H0) as L0. destruct (wpc w'); cbn in *; auto.
Qed.

Lemma step_inv5 : forall s j, inv1 s -> inv5 s -> inv5 (stepf s j).
Proof.
  intros s j I1 I. unfold step. destruct (nth_error (lws s) j) as [w|] eqn:Hw; [|exact I].
  pose proof (i_loc _ _ _ _ _ _ I1 _ _ Hw) as L. pose proof (o_loc _ I _ _ Hw) as L5.
  destruct w as [td p]. cbn [todo wpc] in *.
  destruct p; cbn [wlocal wl5] in L, L5.
  - destruct td as [|[k v] rest]; [exact I|]. unfold goto. eapply mk_inv5; [exact I | exact Hw | ..]; cbn; auto; try contradiction.
  - destruct (orelse r (orelse (dl k) (tt k))); unfold goto; (eapply mk_inv5; [exact I | exact Hw | ..]; cbn; auto; try contradiction).
  - destruct (join_row jm (lrows s) i v) as [R' ch] eqn:E.
    assert (HR : R' = fst (join_row jm (lrows s) i v)) by (rewrite E; reflexivity).
    eapply mk_inv5; [exact I | exact Hw | ..]; cbn [wpc]; auto; try (cbn; contradiction).
    + intros i0 k0 H. rewrite HR. apply (join_row_keys jm mx dl tt). exact H.
    + destruct (ch && negb nh); cbn; auto.
  - destruct kfirst eqn:Ekf; (eapply mk_inv5; [exact I | exact Hw | ..]; cbn [wpc wl5]; auto).
    + eapply (klk_ins_stable keqb keqb_spec); [apply (i_uniq _ _ _ _ _ _ I1) | apply (i_ks _ _ _ _ _ _ I1) | exact L].
    + intros k0 i0 Hp. unfold ParLatProofs.pend_key in Hp. destruct Hp as [-> ->]. right. rewrite klk_cons, (keqb_refl keqb keqb_spec). reflexivity.
    + intros _. rewrite klk_cons, (keqb_refl keqb keqb_spec). reflexivity.
    + intros k0 i0 Hp. unfold ParLatProofs.pend_key in *. destruct Hp as [-> ->]. left. rewrite Ekf. auto.
    + intros i0 Hi. apply (oins_in setidx) in Hi. destruct Hi as [->|Hi]; [|left; exact Hi].
      right. exists k. split; [exact L|]. left. unfold ParLatProofs.pend_key. rewrite Ekf. auto.
    + intros H. rewrite Ekf in H. discriminate.
  - destruct kfirst eqn:Ekf; (eapply mk_inv5; [exact I | exact Hw | ..]; cbn [wpc wl5]; auto).
    + intros k0 i0 Hp. unfold ParLatProofs.pend_key in Hp. rewrite Ekf in Hp. destruct Hp as [Hp _]. discriminate.
    + intros i0 Hi. apply (oins_in setidx) in Hi. destruct Hi as [->|Hi]; [|left; exact Hi].
      right. exists k. split; [exact L|]. right. apply L5. reflexivity.
    + eapply (klk_ins_stable keqb keqb_spec); [apply (i_uniq _ _ _ _ _ _ I1) | apply (i_ks _ _ _ _ _ _ I1) | exact L].
    + intros k0 i0 Hp. unfold ParLatProofs.pend_key in Hp. rewrite Ekf in Hp. destruct Hp as [_ [-> ->]]. right. rewrite klk_cons, (keqb_refl keqb keqb_spec). reflexivity.
  - eapply mk_inv5; [exact I | exact Hw | ..]; cbn; auto; try contradiction. destruct m; exact Logic.I.
  - destruct (nmem (mx k) (lheld s)); [exact I|]. eapply mk_inv5; [exact I | exact Hw | ..]; cbn; auto; try contradiction.
  - destruct (klk k (lnkey s)); unfold goto; (eapply mk_inv5; [exact I | exact Hw | ..]; cbn; auto; try contradiction).
  - eapply mk_inv5; [exact I | exact Hw | ..]; cbn [wpc wl5]; auto; try (cbn; contradiction).
    intros i0 k0 H. apply (join_row_keys jm mx dl tt). exact H.
  - eapply mk_inv5; [exact I | exact Hw | ..]; cbn [wpc wl5]; auto; try (cbn; contradiction).
    intros i0 k0 [x H]. exists x. apply nth_error_snoc_old. exact H.
  - eapply mk_inv5; [exact I | exact Hw | ..]; cbn; auto; try contradiction.
Qed.

Lemma run_inv5 : forall sched s, inv1 s -> inv5 s -> inv5 (run_sched keqb jm mx kfirst setidx dl tt s sched).
Proof.
  induction sched as [|j sched IH]; intros s I1 I; cbn; [exact I|].
  apply IH; [apply (step_inv1 keqb keqb_spec); exact I1 | apply step_inv5; assumption].
Qed.

Lemma fresh_inv5 : forall R0 work, inv5 (par_init R0 [] [] false work).
Proof.
  intros R0 work. constructor; cbn [par_init lother lnkey].
  - intros i [].
  - intros j w H. destruct (fresh_worker _ _ _ _ H) as [-> _]. exact Logic.I.
Qed.

Section Fresh.
Variable le : V -> V -> Prop.
Hypothesis Hlaws : lat_laws le jm.
Variable R0 : list (K * V).
Variable work : list (list (K * V)).
Hypothesis OK : init_ok keqb le dl tt R0 [] [] false work.
Notation run := (run_sched keqb jm mx kfirst setidx dl tt (par_init R0 [] [] false work)).

Theorem parlat_views_agree : forall sched, finished (run sched) = true ->
  forall i, In i (lother (run sched)) <-> exists k, klk k (lnkey (run sched)) = Some i.
Proof.
  intros sched F i.
  pose proof (init_inv1 keqb le mx kfirst dl tt R0 [] [] false work OK) as I10.
  pose proof (run_inv1 keqb keqb_spec jm mx kfirst setidx dl tt sched _ I10) as I1.
  pose proof (run_inv5 sched _ I10 (fresh_inv5 R0 work)) as I5.
  split.
  - intros Hi. destruct (o_in _ I5 i Hi) as [k [_ [H | [j [w [H1 H2]]]]]]; [eauto|].
    destruct (finished_wpend _ _ _ F H1) as [_ Hp]. rewrite Hp in H2. destruct H2.
  - intros [k Hk]. destruct (reach_inv keqb keqb_spec le jm Hlaws mx kfirst setidx dl tt R0 [] [] false work OK sched) as [_ [_ [_ I4]]].
    destruct (r_key _ _ _ _ I4 k i Hk) as [H | [j [w [H1 H2]]]]; [exact H|].
    destruct (finished_wpend _ _ _ F H1) as [_ Hp]. rewrite Hp in H2. destruct H2.
Qed.

Theorem parlat_other_valid : forall sched i, In i (lother (run sched)) -> i < length (lrows (run sched)).
Proof.
  intros sched i Hi.
  pose proof (init_inv1 keqb le mx kfirst dl tt R0 [] [] false work OK) as I10.
  pose proof (run_inv5 sched _ I10 (fresh_inv5 R0 work)) as I5.
  destruct (o_in _ I5 i Hi) as [k [[x Hx] _]]. apply nth_error_Some. congruence.
Qed.
End Fresh.
End Head.
