(* C03 - the lattice hypothesis of the C03 theorems is discharged by C16 for every shipped lattice type:
   a LatImpl satisfying LatOK (Lattice/LatLaws.v; proved for every well-formed type in Lattice/LatMain.v)
   gives lat_laws for the order "both values are values of the type and a <= b" and the model's join_mut;
   and a lattice on T extends to the value universe Z + T (plain columns on the left). *)
From Coq Require Import List ZArith Bool.
From AV Require Import Lattice.LatModel.
From AV Require Import Lattice.LatLaws.
From AV Require Import Lattice.LatMain.
From AV Require Import LatEngine.LatSem.

Definition ok_le (L : LatImpl) (a b : carrier L) : Prop := wf L a /\ wf L b /\ le L a b.

Lemma latok_lat_laws : forall L, LatOK L -> lat_laws (ok_le L) (jm L).
Proof.
  intros L OK. unfold ok_le. constructor.
  - intros a b [Ha [Hb _]]. repeat split; auto; apply (LatLaws.le_refl L OK); auto.
  - intros a b c [Ha [Hb H1]] [_ [Hc H2]]. split; [|split]; auto. apply (ok_trans L OK a b c); auto.
  - intros a b [Ha [Hb H1]] [_ [_ H2]]. apply (LatLaws.le_antisym L OK); auto.
  - intros a b [Ha _] [Hb _]. rewrite (jm_value L OK) by auto. split; [|split]; auto.
    + apply (ok_j_wf L OK); auto.
    + apply (ok_j_ub_l L OK); auto.
  - intros a b [Ha _] [Hb _]. rewrite (jm_value L OK) by auto. split; [|split]; auto.
    + apply (ok_j_wf L OK); auto.
    + apply (ok_j_ub_r L OK); auto.
  - intros a b c [Ha [Hc H1]] [Hb [_ H2]]. rewrite (jm_value L OK) by auto. split; [|split]; auto.
    + apply (ok_j_wf L OK); auto.
    + apply (ok_j_least L OK); auto.
  - intros a b [Ha _] [Hb _] Hf. split; [|split]; auto. apply (jm_flag_le L OK); auto.
Qed.

Theorem shipped_lattices_ok : forall t, wf_lty t = true -> lat_laws (ok_le (denote t)) (jm (denote t)).
Proof. intros t H. apply latok_lat_laws. apply denote_ok. exact H. Qed.

(* plain values on the left, lattice values on the right *)
Section Sum.
Context {T : Type}.
Variable le : T -> T -> Prop.
Variable jmT : T -> T -> T * bool.

Definition sum_le (u v : Z + T) : Prop := match u, v with inr a, inr b => le a b | _, _ => False end.
Definition sum_jm (u v : Z + T) : (Z + T) * bool :=
  match u, v with inr a, inr b => (inr (fst (jmT a b)), snd (jmT a b)) | _, _ => (u, false) end.

Lemma sum_lat_laws : lat_laws le jmT -> lat_laws sum_le sum_jm.
Proof.
  intros L. constructor.
  - intros [z|a] [z'|b] H; cbn in *; try contradiction. apply (ll_dom _ _ L) in H. exact H.
  - intros [z|a] [z'|b] [z''|c] H1 H2; cbn in *; try contradiction. eapply (ll_trans _ _ L); eauto.
  - intros [z|a] [z'|b] H1 H2; cbn in *; try contradiction. f_equal. apply (ll_antisym _ _ L); auto.
  - intros [z|a] [z'|b] H1 H2; cbn in *; try contradiction. apply (ll_ub_l _ _ L); auto.
  - intros [z|a] [z'|b] H1 H2; cbn in *; try contradiction. apply (ll_ub_r _ _ L); auto.
  - intros [z|a] [z'|b] [z''|c] H1 H2; cbn in *; try contradiction. apply (ll_least _ _ L); auto.
  - intros [z|a] [z'|b] H1 H2 Hf; cbn in *; try contradiction. apply (ll_flag _ _ L); auto.
Qed.
End Sum.
