(* C02, lattice half - non-vacuity of the parallel lattice engine theorems: a concrete TWO-WORKER run.

   Program (relation 0 = e(i32, i32), relation 1 = lattice d(i32, Dual<u32>)):   d(y, v) <-- d(x, v), e(x, y);
   with the plan the real macro produces for it under ascent! and ascent_par! alike (dumped by the FRONT hook: one
   looping SCC, d dynamic, one variant [d delta; e total], a reorderable simple join), on the input
   e = {(0,1), (1,0)}, d = {0 -> 3, 1 -> 5} (Dual: smaller numbers are higher).

   Iteration 1 (delta = rows 0 and 1 of d).  Worker 0 reads row 0 = (0, 3), joins it with e(0, 1) and contributes d(1, 3);
   its head update finds key 1 in delta, joins (row 1 is RAISED from 5 to 3) and re-inserts row 1 into new (6 atomic
   steps).  Worker 1 reads row 1 AFTER that join - it observes the value 3 the row took during the iteration, not its
   value 5 at the start -, joins it with e(1, 0) and contributes d(0, 3); its head update changes nothing (3 steps).
   new = {row 1}, __changed = true.
   Iteration 2 (total = rows 0 1, delta = row 1): worker 0 contributes d(0, 3) again, nothing changes, the loop exits.
   Result d = {0 -> 3, 1 -> 3}: the least fixed point, and what the serial model computes (pex_serial). *)
From Coq Require Import List ZArith Bool Arith Lia.
From AV Require Import Engine.Core.
From AV Require Import Engine.Eval.
From AV Require Import Engine.Validate.
From AV Require Import Engine.Naive.
From AV Require Engine.ParLat.
From AV Require Import LatEngine.LatSyntax.
From AV Require Import LatEngine.LatEval.
From AV Require Import LatEngine.LatPlan.
From AV Require Import LatEngine.LatSem.
From AV Require Import LatEngine.LatEnv.
From AV Require Import LatEngine.LatMono.
From AV Require Import LatEngine.LatMain.
From AV Require Import LatEngine.LatVocab.
From AV Require Import LatEngine.LatExample.
From AV Require Import LatEngine.LatParModel.
Import ListNotations.
Open Scope Z_scope.

Definition px_arities : list (rel * nat) := [(0%nat, 2%nat); (1%nat, 2%nat)].
Definition px_prog : list rule :=
  [{| heads := [(1%nat, [TVar 2%nat; TVar 1%nat])];
      body := [BClause 1%nat [TVar 0%nat; TVar 1%nat] []; BClause 0%nat [TVar 0%nat; TVar 2%nat] []] |}].
Definition px_var : variant :=
  {| v_rule := 0%nat; v_heads := [(1%nat, [TVar 2%nat; TVar 1%nat])];
     v_items := [PClause 1%nat [TVar 0%nat; TVar 1%nat] [] [0%nat] VDelta; PClause 0%nat [TVar 0%nat; TVar 2%nat] [] [0%nat] VTotal];
     v_sj := Some 0%nat; v_reord := true |}.
Definition px_scc : pscc := {| s_vars := [px_var]; s_dyn := [1%nat]; s_loop := true |}.
Definition px_plan : plan := [px_scc].
Definition px_input : rel -> list (list Z) :=
  fun r => if Nat.eqb r 0 then [[0; 1]; [1; 0]] else if Nat.eqb r 1 then [[0; 3]; [1; 5]] else [].
(* the rows at the end *)
Definition px_rows : rel -> list (list Z) :=
  fun r => if Nat.eqb r 1 then [[0; 3]; [1; 3]] else px_input r.

(* ---------- the hypotheses of the theorems hold ---------- *)
Lemma px_checks : validate px_arities px_prog px_plan = true /\ lat_plan_ok sp_islat px_arities px_plan = true /\ no_agg px_prog = true.
Proof. vm_compute. repeat split. Qed.

Lemma px_arities_functional : arities_functional px_arities.
Proof. intros r n m H1 H2. cbn in H1, H2. destruct H1 as [H1|[H1|[]]], H2 as [H2|[H2|[]]]; congruence. Qed.

Lemma px_monotone : monotone_program lv_interp sp_islat sp_lle px_prog.
Proof.
  intros ru Hin. cbn in Hin. destruct Hin as [<-|[]].
  exists (Gat 1%nat). split; [apply Gat_dom|]. split; cbn [body heads].
  - constructor; [|constructor; [|constructor]]; cbn [mono_item]; (split; [|constructor]); unfold mono_clause.
    + rewrite sp_islat_1. exists [TVar 0%nat], 1%nat. split; [reflexivity|]. split.
      * plain_vars 1%nat [0%nat].
      * intros a b H. apply Gat_at. exact H.
    + rewrite sp_islat_0. plain_vars 1%nat [0%nat; 2%nat].
  - constructor; [|constructor]. unfold mono_head. cbn [fst snd]. rewrite sp_islat_1.
    exists [TVar 2%nat], (TVar 1%nat). split; [reflexivity|]. split.
    + plain_vars 1%nat [2%nat].
    + apply mono_term_var. intros a b H. apply Gat_at in H. exact H.
Qed.

Lemma px_input_ok : input_ok lv_interp sp_islat sp_lle px_arities px_input.
Proof.
  split; [|split].
  - intros r row Hin n Hn. unfold px_input in Hin. destruct r as [|[|r]]; cbn in Hin, Hn.
    + destruct n as [|[|[|n]]]; try discriminate. destruct Hin as [<-|[<-|[]]]; reflexivity.
    + destruct n as [|[|[|n]]]; try discriminate. destruct Hin as [<-|[<-|[]]]; reflexivity.
    + destruct Hin.
  - intros r Hl. unfold px_input. destruct r as [|[|r]]; cbn; repeat constructor; cbn; intuition discriminate.
  - intros r row Hl Hin. unfold sp_lle. apply Z.le_refl.
Qed.

(* the serial model on the same input *)
Lemma px_serial : option_map (fun st => l_rows st 1%nat) (run_plan lv_interp sp_islat sp_jm lv_shuffle lv_swap 10 px_plan px_input) = Some [[0; 3]; [1; 3]].
Proof. vm_compute. reflexivity. Qed.

(* ---------- the parallel run ---------- *)
Definition px_mx : rel -> list Z -> nat := fun _ _ => 0%nat.     (* one key mutex *)
Definition px_kfirst : rel -> bool := fun _ => true.
Definition px_Cp : rel -> list (list Z) := fun _ => [].
Definition px_A : rel -> list (list Z) := fun _ => [].
Definition px_St : rel -> list nat := l_stored (update_indices px_input).

(* iteration 1 *)
Definition T1 : rel -> list nat := fun _ => [].
Definition D1 : rel -> list nat := fun r => if is_dyn [1%nat] r then l_stored (update_indices px_input) r else [].
Definition work1 : rel -> list (list (list Z * Z)) := fun r => if Nat.eqb r 1 then [[([1], 3)]; [([0], 3)]] else [].
Definition sched1 : list (rel * nat) := repeat (1%nat, 0%nat) 6 ++ repeat (1%nat, 1%nat) 3.
Definition N1 : rel -> list nat := fun r => if Nat.eqb r 1 then [1%nat] else [].
(* iteration 2 *)
Definition T2 : rel -> list nat := merge T1 D1.
Definition work2 : rel -> list (list (list Z * Z)) := fun r => if Nat.eqb r 1 then [[([0], 3)]; []] else [].
Definition sched2 : list (rel * nat) := repeat (1%nat, 0%nat) 3.
Definition N2 : rel -> list nat := fun _ => [].

Lemma split_position : forall (A : Type) (l pre post : list A) x, l = pre ++ x :: post ->
  exists n, pre = firstn n l /\ nth_error l n = Some x.
Proof.
  intros A l pre post x ->. exists (length pre). split.
  - rewrite firstn_app, Nat.sub_diag, firstn_all. cbn. rewrite app_nil_r. reflexivity.
  - rewrite nth_error_app2 by lia. rewrite Nat.sub_diag. reflexivity.
Qed.

Lemma latdyn_is_1 : forall r, latdyn sp_islat px_scc r = true -> r = 1%nat.
Proof.
  intros r H. unfold latdyn in H. apply andb_true_iff in H. destruct H as [_ H]. cbn in H. rewrite orb_false_r in H.
  apply Nat.eqb_eq in H. exact H.
Qed.

Lemma dyn_is_1 : forall r, is_dyn (s_dyn px_scc) r = true -> r = 1%nat.
Proof. intros r H. cbn in H. rewrite orb_false_r in H. apply Nat.eqb_eq in H. exact H. Qed.

Lemma nondyn_not_1 : forall r, is_dyn (s_dyn px_scc) r = false -> Nat.eqb r 1 = false.
Proof. intros r H. cbn in H. rewrite orb_false_r in H. exact H. Qed.

Ltac positions n Hn Hp k :=
  lazymatch k with
  | O => idtac
  | S ?k' => destruct n as [|n]; [cbn in Hn; injection Hn as <-; vm_compute in Hp; try discriminate | positions n Hn Hp k']
  end.
Ltac one_head Hh Hf := destruct Hh as [<-|[]]; vm_compute in Hf; injection Hf as <-; vm_compute; auto 10.

Lemma px_iteration_1 : par_lat_iteration lv_interp sp_islat sp_jm px_scc px_St T1 D1 px_input px_rows N1 true.
Proof.
  exists px_mx, px_kfirst, work1, px_Cp, sched1, px_A. cbv zeta.
  split; [|split; [|split; [|split; [|split]]]].
  - (* causal *) split.
    + intros pre r j post kv Hs Hr Hp. apply latdyn_is_1 in Hr. subst r.
      destruct (split_position _ _ _ _ _ Hs) as [n [-> Hn]].
      positions n Hn Hp 9%nat.
      * (* worker 0 starts d(1, 3): derived from row 0 = (0, 3) at the start and e(0, 1) *)
        injection Hp as <-. exists px_var, (v_items px_var), [Some 0; Some 3; Some 1], (1%nat, [TVar 2%nat; TVar 1%nat]).
        split; [left; reflexivity|]. split; [left; reflexivity|]. split; [|split; [left; reflexivity | reflexivity]].
        eapply sato_clause with (i := 0%nat) (t := [0; 3]); [vm_compute; auto | | vm_compute; reflexivity | reflexivity |].
        { exists [], (firstn 0 sched1). split; reflexivity. }
        eapply sato_clause with (i := 0%nat) (t := [0; 1]); [vm_compute; auto | | vm_compute; reflexivity | reflexivity | apply sato_nil].
        exists [], (firstn 0 sched1). split; reflexivity.
      * (* worker 1 starts d(0, 3): derived from row 1 = (1, 3) as raised by worker 0, and e(1, 0) *)
        injection Hp as <-. exists px_var, (v_items px_var), [Some 1; Some 3; Some 0], (1%nat, [TVar 2%nat; TVar 1%nat]).
        split; [left; reflexivity|]. split; [left; reflexivity|]. split; [|split; [left; reflexivity | reflexivity]].
        eapply sato_clause with (i := 1%nat) (t := [1; 3]); [vm_compute; auto | | vm_compute; reflexivity | reflexivity |].
        { exists (firstn 3 sched1), (skipn 3 (firstn 6 sched1)). split; reflexivity. }
        eapply sato_clause with (i := 1%nat) (t := [1; 0]); [vm_compute; auto | | vm_compute; reflexivity | reflexivity | apply sato_nil].
        exists [], (firstn 6 sched1). split; reflexivity.
      * destruct n; discriminate.
    + intros r t _ [].
  - (* exhaustive *) intros v Hv _. destruct Hv as [<-|[]]. exists (v_items px_var). split; [left; reflexivity|].
    apply cov_clause. intros i Hi. vm_compute in Hi. destruct Hi as [<-|[<-|[]]].
    + exists [0; 3]. split; [exists [], sched1; split; reflexivity|].
      intros e1 e2 H1 H2. vm_compute in H1. injection H1 as <-. vm_compute in H2. injection H2 as <-.
      apply cov_clause. intros i Hi. vm_compute in Hi. destruct Hi as [<-|[<-|[]]].
      * exists [0; 1]. split; [exists [], sched1; split; reflexivity|].
        intros e1 e2 H1 H2. vm_compute in H1. injection H1 as <-. vm_compute in H2. injection H2 as <-.
        apply cov_nil. intros h f Hh Hf. one_head Hh Hf.
      * exists [1; 0]. split; [exists [], sched1; split; reflexivity|].
        intros e1 e2 H1 H2. vm_compute in H1. discriminate.
    + exists [1; 3]. split; [exists sched1, []; split; reflexivity|].
      intros e1 e2 H1 H2. vm_compute in H1. injection H1 as <-. vm_compute in H2. injection H2 as <-.
      apply cov_clause. intros i Hi. vm_compute in Hi. destruct Hi as [<-|[<-|[]]].
      * exists [0; 1]. split; [exists [], sched1; split; reflexivity|].
        intros e1 e2 H1 H2. vm_compute in H1. discriminate.
      * exists [1; 0]. split; [exists [], sched1; split; reflexivity|].
        intros e1 e2 H1 H2. vm_compute in H1. injection H1 as <-. vm_compute in H2. injection H2 as <-.
        apply cov_nil. intros h f Hh Hf. one_head Hh Hf.
  - intros r Hr. apply latdyn_is_1 in Hr. subst r. vm_compute. repeat split.
  - intros r Hl Hd. apply dyn_is_1 in Hd. subst r. discriminate.
  - intros r Hd. apply nondyn_not_1 in Hd. unfold px_rows, N1. rewrite Hd. split; reflexivity.
  - vm_compute. reflexivity.
Qed.

Lemma px_iteration_2 : par_lat_iteration lv_interp sp_islat sp_jm px_scc px_St T2 N1 px_rows px_rows N2 false.
Proof.
  exists px_mx, px_kfirst, work2, px_Cp, sched2, px_A. cbv zeta.
  split; [|split; [|split; [|split; [|split]]]].
  - split.
    + intros pre r j post kv Hs Hr Hp. apply latdyn_is_1 in Hr. subst r.
      destruct (split_position _ _ _ _ _ Hs) as [n [-> Hn]].
      positions n Hn Hp 3%nat.
      * injection Hp as <-. exists px_var, (v_items px_var), [Some 1; Some 3; Some 0], (1%nat, [TVar 2%nat; TVar 1%nat]).
        split; [left; reflexivity|]. split; [left; reflexivity|]. split; [|split; [left; reflexivity | reflexivity]].
        eapply sato_clause with (i := 1%nat) (t := [1; 3]); [vm_compute; auto | | vm_compute; reflexivity | reflexivity |].
        { exists [], (firstn 0 sched2). split; reflexivity. }
        eapply sato_clause with (i := 1%nat) (t := [1; 0]); [vm_compute; auto | | vm_compute; reflexivity | reflexivity | apply sato_nil].
        exists [], (firstn 0 sched2). split; reflexivity.
      * destruct n; discriminate.
    + intros r t _ [].
  - intros v Hv _. destruct Hv as [<-|[]]. exists (v_items px_var). split; [left; reflexivity|].
    apply cov_clause. intros i Hi. vm_compute in Hi. destruct Hi as [<-|[]].
    exists [1; 3]. split; [exists [], sched2; split; reflexivity|].
    intros e1 e2 H1 H2. vm_compute in H1. injection H1 as <-. vm_compute in H2. injection H2 as <-.
    apply cov_clause. intros i Hi. vm_compute in Hi. destruct Hi as [<-|[<-|[]]].
    + exists [0; 1]. split; [exists [], sched2; split; reflexivity|].
      intros e1 e2 H1 H2. vm_compute in H1. discriminate.
    + exists [1; 0]. split; [exists [], sched2; split; reflexivity|].
      intros e1 e2 H1 H2. vm_compute in H1. injection H1 as <-. vm_compute in H2. injection H2 as <-.
      apply cov_nil. intros h f Hh Hf. one_head Hh Hf.
  - intros r Hr. apply latdyn_is_1 in Hr. subst r. vm_compute. repeat split.
  - intros r Hl Hd. apply dyn_is_1 in Hd. subst r. discriminate.
  - intros r Hd. split; reflexivity.
  - vm_compute. reflexivity.
Qed.

(* the state a parallel run of the plan can end in *)
Definition px_final : @lstate Z :=
  {| l_rows := px_rows;
     l_stored := fun r => if is_dyn (s_dyn px_scc) r then merge T2 N1 r else l_stored (update_indices px_input) r;
     l_tick := 0%nat |}.

Lemma px_parallel_run : par_lat_run_plan lv_interp sp_islat sp_jm px_plan px_input px_final.
Proof.
  unfold par_lat_run_plan, px_plan. eapply plr_cons; [|apply plr_nil].
  unfold par_lat_run_scc. cbn [s_loop px_scc].
  exists (merge T2 N1), px_rows. split; [|reflexivity].
  eapply pll_step; [exact px_iteration_1|]. apply pll_exit with (N' := N2). exact px_iteration_2.
Qed.

Lemma px_result : l_rows px_final 1%nat = [[0; 3]; [1; 3]].
Proof. reflexivity. Qed.
