(* B13 - lock-step simulation, inside one evaluation of the rules of an SCC, between the per-index engine
   (LatIndexedEval.v) and the view engine (LatEval.v / LatAggEval.v): same rows, same flag, same tick; the `new` key index
   lists LatEval's `new` row numbers; every index over key columns satisfies [stinv].  Part 1: the head update. *)
From Coq Require Import List ZArith Bool Arith Lia.
From AV Require Import Engine.Core.
From AV Require Import Engine.Eval.
From AV Require Import LatEngine.LatSyntax.
From AV Require Import LatEngine.LatEval.
From AV Require Import LatEngine.LatClause.
From AV Require Import LatEngine.LatMono.
From AV Require Import LatEngine.LatBase.
From AV Require Import LatEngine.LatHead.
From AV Require Import LatEngine.LatKeys.
From AV Require Import LatEngine.LatAggEval.
From AV Require Import LatEngine.LatIndexedEval.
From AV Require Import LatEngine.LatIndexedBase.
From AV Require Import LatEngine.LatIndexedStore.
Import ListNotations.
Local Open Scope nat_scope.

Lemma find_ext_in : forall (A : Type) (f g : A -> bool) l, (forall x, In x l -> f x = g x) -> find f l = find g l.
Proof.
  intros A f g. induction l as [|a l IH]; intros H; [reflexivity|]. cbn [find]. rewrite (H a (or_introl eq_refl)).
  destruct (g a); [reflexivity|]. apply IH. intros x Hx. apply H. right. exact Hx.
Qed.

Section Sim.
Context {V : Type}.
Variable I : linterp V.
Hypothesis Heq : veqb_ok I.
Variable islat : rel -> bool.
Variable jm : rel -> V -> V -> V * bool.
Variable arities : list (rel * nat).
Variable ds : list xdecl.
Notation ar := (ar_of arities).
Hypothesis Hdecl : forall r, islat r = true -> xdecl_ok islat arities ds r = true.

Variable dyn : list rel.
Variables St' T' D' : rel -> list nat.              (* the view engine *)
Variables St T D : rel -> list nat.                 (* the per-index engine: plain relations *)
Variables XS XT XD : rel -> list (xidx (V:=V)).     (* the per-index engine: lattice relations *)
Hypothesis Hplain : forall r, islat r = false -> St r = St' r /\ T r = T' r /\ D r = D' r.
Variable R0 : rel -> list (vtuple V).
Hypothesis Hcov0 : forall r i, is_dyn dyn r = true -> i < length (R0 r) -> In i (T' r) \/ In i (D' r).

Notation stinv := (stinv (V:=V) I arities ds).
Notation rows_len := (rows_len (V:=V) islat arities).
Notation kext := (kext (V:=V)).

(* every version of every lattice relation, against the rows R *)
Definition allinv (R : rel -> list (vtuple V)) (N : rel -> list (xidx (V:=V))) (Ln : rel -> list nat) : Prop :=
  forall r, islat r = true ->
    (is_dyn dyn r = false -> stinv R r (XS r) (St' r))
    /\ (is_dyn dyn r = true -> stinv R r (XT r) (T' r) /\ stinv R r (XD r) (D' r) /\ stinv R r (N r) (Ln r)).

Record sim (xs : xstate (V:=V)) (s : @istate V) : Prop := {
  sm_rows : i_rows (x_s xs) = i_rows s;
  sm_ch : i_changed (x_s xs) = i_changed s;
  sm_tk : i_tick (x_s xs) = i_tick s;
  sm_pnew : forall r, islat r = false -> i_new (x_s xs) r = i_new s r;
  sm_all : allinv (i_rows s) (x_new xs) (i_new s);
  sm_len : rows_len (i_rows s);
  sm_kinv : kinv islat dyn R0 s
}.

Lemma allinv_rows : forall R R' N Ln r, allinv R N Ln -> rows_len R -> islat r = true ->
  (forall q, q <> r -> R' q = R q) -> kext R R' r -> allinv R' N Ln.
Proof.
  intros R R' N Ln r Ha Hlen Hl Hoth Hk q Hq. destruct (Ha q Hq) as [H1 H2].
  destruct (Nat.eq_dec q r) as [->|Hne].
  - split.
    + intros Hd. apply (stinv_kext I islat arities ds R R' r); auto.
    + intros Hd. destruct (H2 Hd) as [A [B C]]. split; [|split]; apply (stinv_kext I islat arities ds R R' r); auto.
  - pose proof (Hoth q Hne) as E. symmetry in E. split.
    + intros Hd. apply (stinv_ext I arities ds R R' q _ _ E); auto.
    + intros Hd. destruct (H2 Hd) as [A [B C]]. split; [|split]; apply (stinv_ext I arities ds R R' q _ _ E); auto.
Qed.

Lemma allinv_upd : forall R' N Ln r Nr' Lr', allinv R' N Ln -> islat r = true ->
  (is_dyn dyn r = true -> stinv R' r Nr' Lr') -> allinv R' (upd N r Nr') (upd Ln r Lr').
Proof.
  intros R' N Ln r Nr' Lr' Ha Hl Hn q Hq. destruct (Ha q Hq) as [H1 H2]. split; [exact H1|]. intros Hd.
  destruct (H2 Hd) as [A [B C]]. split; [exact A|]. split; [exact B|].
  destruct (Nat.eq_dec q r) as [->|Hne]; [rewrite !upd_same; apply Hn; exact Hd | rewrite !upd_other by exact Hne; exact C].
Qed.

Lemma kget_find : forall R r st L key, islat r = true -> stinv R r st L -> kget I st key = find_key I (R r) key L.
Proof.
  intros R r st L key Hl Hs. unfold kget. rewrite (stinv_kidx I islat arities ds Hdecl R r st L Hl Hs), e_get_keyform.
  unfold find_key. rewrite (find_ext_in _ (fun i => vlist_eqb I (kof R r i) key) (row_has_key I (R r) key) L).
  - destruct (find (row_has_key I (R r) key) L); reflexivity.
  - intros i Hi. destruct Hs as [_ [_ [_ [_ Hrg]]]]. specialize (Hrg i Hi). unfold kof, row_has_key.
    destruct (nth_error (R r) i) eqn:En; [reflexivity | apply nth_error_None in En; lia].
Qed.

Lemma kext_set : forall (R : rel -> list (vtuple V)) r i row v', nth_error (R r) i = Some row -> 0 < length row ->
  kext R (upd R r (set_nth i (tkey row ++ [v']) (R r))) r.
Proof.
  intros R r i row v' Hn Hpos j rowj Hj. rewrite upd_same. destruct (Nat.eq_dec j i) as [->|Hne].
  - assert (rowj = row) by congruence. subst. exists (tkey row ++ [v']). split; [|split].
    + apply nth_error_set_nth_eq. apply nth_error_Some. congruence.
    + apply tkey_app.
    + apply (len_row_upd I). exact Hpos.
  - exists rowj. split; [|split; reflexivity]. rewrite nth_error_set_nth_neq by auto. exact Hj.
Qed.

Lemma kext_push : forall (R : rel -> list (vtuple V)) r t, kext R (upd R r (R r ++ [t])) r.
Proof.
  intros R r t j rowj Hj. rewrite upd_same. exists rowj. split; [|split; reflexivity].
  rewrite nth_error_app1 by (apply nth_error_Some; congruence). exact Hj.
Qed.

Lemma sim_head : forall xs s f, sim xs s -> is_dyn dyn (fst f) = true ->
  (islat (fst f) = true -> length (snd f) = ar (fst f)) ->
  sim (xhead_update I islat jm T D XT XD xs f) (head_update I islat jm T' D' s f).
Proof.
  intros xs s [r t] Hs Hd Hlt. cbn [fst snd] in Hd, Hlt.
  pose proof (kinv_head I Heq islat jm (fun _ l => l) (fun _ _ _ => true) dyn St' T' D' R0 Hcov0 s (r, t) (sm_kinv _ _ Hs) Hd) as Hk'.
  destruct Hs as [Hrows Hch Htk Hpn Hall Hlen Hkinv].
  unfold xhead_update, head_update in *. cbn [fst snd] in *. destruct (islat r) eqn:Hl.
  - specialize (Hlt eq_refl). destruct (Hall r Hl) as [_ Hdy]. destruct (Hdy Hd) as [HsT [HsD HsN]].
    unfold xrows. rewrite Hrows.
    rewrite (kget_find _ r _ _ (tkey t) Hl HsN), (kget_find _ r _ _ (tkey t) Hl HsD), (kget_find _ r _ _ (tkey t) Hl HsT).
    destruct (orelse (find_key I (i_rows s r) (tkey t) (i_new s r))
                     (orelse (find_key I (i_rows s r) (tkey t) (D' r)) (find_key I (i_rows s r) (tkey t) (T' r)))) as [i|] eqn:Ef.
    + destruct (nth_error (i_rows s r) i) as [row|] eqn:En.
      * assert (Hkt : tkey row = tkey t).
        { assert (Hex : exists row', nth_error (i_rows s r) i = Some row' /\ tkey row' = tkey t).
          { apply orelse_some in Ef. destruct Ef as [Ef|[_ Ef]]; [apply (find_key_some I Heq) in Ef; tauto|].
            apply orelse_some in Ef. destruct Ef as [Ef|[_ Ef]]; apply (find_key_some I Heq) in Ef; tauto. }
          destruct Hex as [row' [E1 E2]]. congruence. }
        assert (Hrl : length row = ar r) by (apply (Hlen r Hl); eapply nth_error_In; eauto).
        pose proof (decl_ar islat arities ds Hdecl r Hl) as Har.
        destruct (jm r (tval I row) (tval I t)) as [v' ch].
        set (R' := upd (i_rows s) r (set_nth i (tkey row ++ [v']) (i_rows s r))) in *.
        assert (Hke : kext (i_rows s) R' r) by (apply kext_set; [exact En | lia]).
        assert (Hoth : forall q, q <> r -> R' q = i_rows s q) by (intros q Hq; unfold R'; apply upd_other; exact Hq).
        assert (Hlen' : rows_len R').
        { intros q Hq rowq Hin. destruct (Nat.eq_dec q r) as [->|Hne].
          - unfold R' in Hin. rewrite upd_same in Hin. apply In_set_nth in Hin. destruct Hin as [->|Hin]; [|apply (Hlen r Hl); exact Hin].
            rewrite (len_row_upd I) by lia. exact Hrl.
          - rewrite (Hoth q Hne) in Hin. apply (Hlen q Hq). exact Hin. }
        pose proof (allinv_rows _ R' _ _ r Hall Hlen Hl Hoth Hke) as Hall'.
        assert (Hn' : nth_error (R' r) i = Some (tkey row ++ [v'])).
        { unfold R'. rewrite upd_same. apply nth_error_set_nth_eq. exact (nth_error_In_lt _ _ _ _ En). }
        destruct ch.
        -- constructor; cbn [x_s x_new xset_rows i_rows i_new i_changed i_tick].
           ++ rewrite Hrows. reflexivity.
           ++ reflexivity.
           ++ exact Htk.
           ++ intros q Hq. assert (q <> r) by (intros ->; congruence). rewrite upd_other by auto. apply Hpn. exact Hq.
           ++ fold R'. apply allinv_upd; auto. intros _. destruct (Hall' r Hl) as [_ H2]. destruct (H2 Hd) as [_ [_ C]].
              apply (stinv_ins I Heq islat arities ds Hdecl R' r _ _ i (tkey row ++ [v']) t); auto.
              ** fold R' in Hk'. exact (ki_key _ _ _ _ Hk' r Hl).
              ** rewrite tkey_app. exact Hkt.
           ++ fold R'. exact Hlen'.
           ++ exact Hk'.
        -- constructor; cbn [x_s x_new xset_rows i_rows i_new i_changed i_tick].
           ++ rewrite Hrows. reflexivity.
           ++ exact Hch.
           ++ exact Htk.
           ++ exact Hpn.
           ++ fold R'. exact Hall'.
           ++ fold R'. exact Hlen'.
           ++ exact Hk'.
      * constructor; auto.
    + set (R' := upd (i_rows s) r (i_rows s r ++ [t])) in *.
      assert (Hke : kext (i_rows s) R' r) by apply kext_push.
      assert (Hoth : forall q, q <> r -> R' q = i_rows s q) by (intros q Hq; unfold R'; apply upd_other; exact Hq).
      assert (Hlen' : rows_len R').
      { intros q Hq rowq Hin. destruct (Nat.eq_dec q r) as [->|Hne].
        - unfold R' in Hin. rewrite upd_same in Hin. apply in_app_or in Hin. destruct Hin as [Hin|[<-|[]]]; [apply (Hlen r Hl); exact Hin | exact Hlt].
        - rewrite (Hoth q Hne) in Hin. apply (Hlen q Hq). exact Hin. }
      pose proof (allinv_rows _ R' _ _ r Hall Hlen Hl Hoth Hke) as Hall'.
      unfold push_row in Hk'. fold R' in Hk'.
      constructor; cbn [x_s x_new xset_rows push_row i_rows i_new i_changed i_tick].
      * rewrite Hrows. reflexivity.
      * reflexivity.
      * exact Htk.
      * intros q Hq. assert (q <> r) by (intros ->; congruence). rewrite upd_other by auto. apply Hpn. exact Hq.
      * fold R'. apply allinv_upd; auto. intros _. destruct (Hall' r Hl) as [_ H2]. destruct (H2 Hd) as [_ [_ C]].
        apply (stinv_ins I Heq islat arities ds Hdecl R' r _ _ (length (i_rows s r)) t t); auto.
        -- exact (ki_key _ _ _ _ Hk' r Hl).
        -- unfold R'. rewrite upd_same. apply nth_error_app_last.
      * fold R'. exact Hlen'.
      * exact Hk'.
  - (* a plain relation: the two engines run the same code on the same lists *)
    destruct (Hplain r Hl) as [_ [ET ED]]. rewrite ET, ED, Hrows, (Hpn r Hl).
    destruct (mem_row I (i_rows s r) t (T' r) || mem_row I (i_rows s r) t (D' r) || mem_row I (i_rows s r) t (i_new s r)).
    + constructor; auto.
    + unfold push_row in *. cbn [i_rows i_new i_changed i_tick] in *. rewrite Hrows, (Hpn r Hl).
      assert (Hoth : forall q, q <> r -> upd (i_rows s) r (i_rows s r ++ [t]) q = i_rows s q) by (intros q Hq; apply upd_other; exact Hq).
      constructor; cbn [x_s x_new i_rows i_new i_changed i_tick].
      * reflexivity.
      * reflexivity.
      * exact Htk.
      * intros q Hq. destruct (Nat.eq_dec q r) as [->|Hne]; [rewrite !upd_same; reflexivity | rewrite !upd_other by auto; apply Hpn; exact Hq].
      * intros q Hq. assert (Hne : q <> r) by (intros ->; congruence). destruct (Hall q Hq) as [H1 H2].
        pose proof (Hoth q Hne) as E. symmetry in E. split.
        -- intros Hdq. apply (stinv_ext I arities ds _ _ q _ _ E); auto.
        -- intros Hdq. destruct (H2 Hdq) as [A [B C]]. rewrite upd_other by exact Hne.
           split; [|split]; apply (stinv_ext I arities ds _ _ q _ _ E); auto.
      * intros q Hq rowq Hin. assert (Hne : q <> r) by (intros ->; congruence). apply (Hlen q Hq).
        unfold upd in Hin. destruct (Nat.eqb q r) eqn:Eq; [apply Nat.eqb_eq in Eq; contradiction | exact Hin].
      * exact Hk'.
Qed.

Lemma sim_tick : forall xs s, sim xs s -> sim (xtick xs) (tick s).
Proof.
  intros xs s [H1 H2 H3 H4 H5 H6 H7]. constructor; cbn [xtick x_s x_new tick i_rows i_new i_changed i_tick]; auto.
  apply kinv_tick. exact H7.
Qed.

Lemma sim_heads : forall hs (e : venv V) xs s, sim xs s ->
  (forall h, In h hs -> is_dyn dyn (fst h) = true /\ length (snd h) = ar (fst h)) ->
  sim (xheads_update I islat jm T D XT XD hs e xs) (heads_update I islat jm T' D' hs e s).
Proof.
  unfold xheads_update, heads_update. induction hs as [|h hs IH]; intros e xs s Hs Hh; cbn [fold_left]; [exact Hs|].
  apply IH; [|intros h' Hh'; apply Hh; right; exact Hh'].
  destruct (veval_head I e h) as [f|] eqn:Ef; [|exact Hs].
  unfold veval_head in Ef. destruct (veval_terms I e (snd h)) as [vs|] eqn:Et; [|discriminate]. cbn in Ef. injection Ef as <-.
  destruct (Hh h (or_introl eq_refl)) as [H1 H2]. apply sim_head; cbn [fst snd]; auto.
  intros _. rewrite <- H2. symmetry. eapply veval_terms_length; eauto.
Qed.
End Sim.
