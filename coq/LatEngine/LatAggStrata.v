(* C04 over lattices - one SCC of a plan with aggregates: by the reduction (LatAggSim.v: the run equals the run of
   the translated, aggregate-free SCC under the interpretation that fixes the aggregated rows) the per-SCC theorem of
   C03 (LatScc.v run_scc_spec) applies; translated back (LatAggSemEq.v) it says that the rows after the SCC are the
   least fixed point of the stratum over the rows before it (LatAggSem.v stratum_lfp). *)
From Coq Require Import List ZArith Bool Arith Lia Permutation.
From AV Require Import Engine.Core.
From AV Require Import Engine.Eval.
From AV Require Import Engine.Validate.
From AV Require Import Engine.Naive.
From AV Require Import Engine.NaiveLemmas.
From AV Require Import Engine.AggLemmas.
From AV Require Import Engine.StrataAgg.
From AV Require Import Engine.StratFixed.
From AV Require Import Engine.Strat.
From AV Require Import LatEngine.LatSyntax.
From AV Require Import LatEngine.LatEval.
From AV Require Import LatEngine.LatPlan.
From AV Require Import LatEngine.LatSem.
From AV Require Import LatEngine.LatBase.
From AV Require Import LatEngine.LatHead.
From AV Require Import LatEngine.LatScc.
From AV Require Import LatEngine.LatMain.
From AV Require Import LatEngine.LatKeys.
From AV Require Import LatEngine.LatAggEval.
From AV Require Import LatEngine.LatAggTrans.
From AV Require Import LatEngine.LatAggKey.
From AV Require Import LatEngine.LatAggInv.
From AV Require Import LatEngine.LatAggSem.
From AV Require Import LatEngine.LatAggSemEq.
From AV Require Import LatEngine.LatAggSim.
From AV Require Import LatEngine.LatAggValid.
Import ListNotations.
Local Open Scope nat_scope.

(* ---------- syntactic facts about the translation ---------- *)
Section TrFacts.
Variable P : list rule.
Variable K : nat.
Variable N : var.

Lemma tr_rules_nth : forall l j0 i, nth_error (tr_rules K N j0 l) i = option_map (tr_rule K N (j0 + i)) (nth_error l i).
Proof.
  induction l as [|ru l IH]; intros j0 i; destruct i; cbn [tr_rules nth_error option_map]; try reflexivity.
  - rewrite Nat.add_0_r. reflexivity.
  - rewrite IH. replace (S j0 + i) with (j0 + S i) by lia. reflexivity.
Qed.

Lemma tr_prog_nth : forall j, nth_error (tr_prog P K N) j = option_map (tr_rule K N j) (nth_error P j).
Proof. intros j. unfold tr_prog. rewrite tr_rules_nth. reflexivity. Qed.

Lemma map_seq_nth : forall (A : Type) (f : nat -> A) n j, j < n -> nth_error (map f (seq 0 n)) j = Some (f j).
Proof.
  intros A f n j H. rewrite (nth_error_nth' _ (f 0)) by (rewrite map_length, seq_length; exact H).
  f_equal. rewrite (map_nth f (seq 0 n) 0 j). rewrite seq_nth by exact H. reflexivity.
Qed.

Lemma existsb_nat_true : forall j l, existsb (Nat.eqb j) l = true <-> In j l.
Proof.
  intros j l. rewrite existsb_exists. split.
  - intros [x [Hx He]]. apply Nat.eqb_eq in He. subst. exact Hx.
  - intros H. exists j. split; [exact H | apply Nat.eqb_refl].
Qed.

Lemma scc_prog_in : forall sc j ru, In j (rules_of_scc sc) -> nth_error P j = Some ru ->
  nth_error (scc_prog P K N sc) j = Some (tr_rule K N j ru).
Proof.
  intros sc j ru Hj Hru. unfold scc_prog.
  rewrite map_seq_nth by (apply nth_error_Some; congruence).
  rewrite (proj2 (existsb_nat_true j _) Hj), tr_prog_nth, Hru. reflexivity.
Qed.

Lemma scc_prog_cases : forall sc ru', In ru' (scc_prog P K N sc) ->
  ru' = null_rule \/ exists j ru, In j (rules_of_scc sc) /\ nth_error P j = Some ru /\ ru' = tr_rule K N j ru.
Proof.
  intros sc ru' H. unfold scc_prog in H. apply in_map_iff in H as [j [E Hj]]. apply in_seq in Hj.
  destruct (existsb (Nat.eqb j) (rules_of_scc sc)) eqn:Ex; [|left; auto].
  rewrite tr_prog_nth in E. destruct (nth_error P j) as [ru|] eqn:Hru; cbn [option_map] in E; [|left; auto].
  right. exists j, ru. split; [apply existsb_nat_true; exact Ex|]. auto.
Qed.

Lemma tr_scc_rules : forall sc, rules_of_scc (tr_scc K N sc) = rules_of_scc sc.
Proof. intros sc. unfold rules_of_scc, tr_scc. cbn [s_vars]. rewrite map_map. reflexivity. Qed.

Lemma tr_body_no_agg : forall j l p, forallb no_agg_item (tr_body K N j p l) = true.
Proof. intros j. induction l as [|b l IH]; intros p; cbn [tr_body forallb]; [reflexivity|]. rewrite IH. destruct b; reflexivity. Qed.

Lemma scc_prog_no_agg : forall sc, no_agg (scc_prog P K N sc) = true.
Proof.
  intros sc. unfold no_agg. apply forallb_forall. intros ru' H.
  destruct (scc_prog_cases sc ru' H) as [->|[j [ru [_ [_ ->]]]]]; [reflexivity|].
  unfold no_agg_rule, tr_rule. cbn [body]. apply tr_body_no_agg.
Qed.

Lemma below_item_of : forall it, pitem_below N it = bitem_below N (item_of it).
Proof. intros [r args cs idx ver|c|x g xs|o a bd r args idx]; reflexivity. Qed.

Lemma variant_rule_below : forall v ru, variant_below N v = true -> map item_of (v_items v) = body ru -> v_heads v = heads ru ->
  rule_below N ru = true.
Proof.
  intros v ru Hb Hit Hhd. unfold variant_below in Hb. apply andb_true_iff in Hb as [H1 H2].
  unfold rule_below. rewrite <- Hit, <- Hhd, H2, andb_true_r. rewrite forallb_forall in H1. apply forallb_forall.
  intros b Hb. apply in_map_iff in Hb as [it [<- Hin]]. specialize (H1 it Hin). apply andb_true_iff in H1 as [H1 _].
  rewrite <- below_item_of. exact H1.
Qed.

Lemma tr_lat_variant_ok : forall islat v, alat_variant_ok islat v = true -> lat_variant_ok islat (tr_variant K N v) = true.
Proof.
  intros islat v H. unfold alat_variant_ok in H. unfold lat_variant_ok, tr_variant. cbn [v_items].
  generalize 0. induction (v_items v) as [|it items IH]; intros p; cbn [tr_pitems forallb]; [reflexivity|].
  cbn [forallb] in H. apply andb_true_iff in H as [H1 H2]. rewrite (IH H2), andb_true_r.
  destruct it; cbn [tr_pitem lat_item_ok alat_item_ok] in *; auto.
Qed.
End TrFacts.

Section AScc.
Context {V : Type}.
Variable I : linterp V.
Hypothesis Heq : veqb_ok I.
Variable vagg : nat -> list (list V) -> list V.
Hypothesis Hperm : forall a l l', Permutation l l' -> vagg a l = vagg a l'.
Variable islat : rel -> bool.
Variable lle : rel -> V -> V -> Prop.
Variable jm : rel -> V -> V -> V * bool.
Hypothesis Hlaws : forall r, islat r = true -> lat_laws (lle r) (jm r).
Variable shuffle : nat -> list nat -> list nat.
Hypothesis Hshuf : forall n l x, In x (shuffle n l) <-> In x l.
Variable ashuffle : nat -> list nat -> list nat.
Hypothesis Hashuf : forall n l, Permutation (ashuffle n l) l.
Variable swap_oracle : nat -> list nat -> list nat -> bool.
Variable arities : list (rel * nat).
Hypothesis Hfun : arities_functional arities.
Hypothesis Hlat1 : forall r n, islat r = true -> arity_ok arities r n = true -> 0 < n.
Variable P : list rule.
Variable K : nat.
Variable N : var.
Hypothesis HK : body_bound K P = true.
Hypothesis Hmono : amonotone_program I islat lle N P.
(*HYPS*)
Variable sc : pscc.
Hypothesis Hok : scc_ok arities P sc = true.
Hypothesis Hbelow : forallb (variant_below N) (s_vars sc) = true.
Hypothesis Halat : forallb (alat_variant_ok islat) (s_vars sc) = true.

(* the state between SCCs *)
Record AG (st : @lstate V) : Prop := {
  ag_ar : forall r row, In row (l_rows st r) -> forall n, arity_ok arities r n = true -> length row = n;
  ag_key : keys_ok islat (l_rows st);
  ag_wf : rows_wf I islat lle (l_rows st);
  ag_plain : plain_nodup islat (l_rows st);
  ag_stored : stored_exact st
}.

Let Htr : scc_ok arities (scc_prog P K N sc) (tr_scc K N sc) = true := scc_ok_tr arities P K N sc Hok Hbelow.
Let Pk := scc_prog P K N sc.
Let sc' := tr_scc K N sc.

Lemma rule_in_scc : forall j, In j (rules_of_scc sc) ->
  exists ru, nth_error P j = Some ru /\ rule_below N ru = true /\ length (body ru) < K.
Proof.
  intros j Hj. unfold rules_of_scc in Hj. apply (proj1 (dedup_nat_In _ _)) in Hj. apply in_map_iff in Hj as [v [<- Hv]].
  destruct (variant_ok_unpack_agg arities P sc v (scc_ok_variant_agg arities P sc Hok v Hv)) as [ru [Hru [Hit [Hhd _]]]].
  exists ru. split; [exact Hru|]. split.
  - pose proof Hbelow as Hb'. rewrite forallb_forall in Hb'. exact (variant_rule_below N v ru (Hb' v Hv) Hit Hhd).
  - exact (body_bound_lt P K _ ru HK Hru).
Qed.

Section WithA.
Variable A : rel -> list (vtuple V).
Let I' := tr_interp I vagg islat P K A.

Lemma Pk_mono : monotone_program I' islat lle Pk.
Proof.
  intros ru' Hin. destruct (scc_prog_cases P K N sc ru' Hin) as [->|[j [ru [Hj [Hru ->]]]]].
  - exists (fun _ a b => a = b). split; [intros x a b ->; auto|]. split; constructor.
  - destruct (rule_in_scc j Hj) as [ru0 [Hru0 [Hb HlK]]]. rewrite Hru in Hru0. injection Hru0 as <-.
    destruct (Hmono ru (nth_error_In _ _ Hru)) as [G [HG Hrefl]]. exists G.
    exact (tr_mono_rule I vagg islat lle P K N A j ru G Hru HlK Hb HG Hrefl).
Qed.

(* closedness under the translated program of the SCC = closedness under the stratum with aggregates over A *)
Lemma closed_tr : forall J : db, aclosedH I vagg islat lle A (stratum_of P sc) J -> closedH I' islat lle Pk J.
Proof.
  intros J Hcl f [ru' [e' [h [Hin [Hsat [Hh Hf]]]]]].
  destruct (scc_prog_cases P K N sc ru' Hin) as [->|[j [ru [Hj [Hru ->]]]]]; [destruct Hh|].
  destruct (rule_in_scc j Hj) as [ru0 [Hru0 [Hb HlK]]]. rewrite Hru in Hru0. injection Hru0 as <-.
  destruct (sat_asat I vagg islat P K N A j ru J Hru HlK Hb [] e' Hsat [] (agree_refl N [])) as [e [Hag Has]].
  cbn [tr_rule heads] in Hh.
  change (below I islat lle J f). apply Hcl. exists ru, e, h. split; [exact (stratum_in P sc j ru Hj Hru)|]. split; [exact Has|]. split; [exact Hh|].
  rewrite <- Hf. exact (head_agree I vagg islat P K N A ru h e e' Hb Hh Hag).
Qed.

Lemma closed_back : forall R : rel -> list (vtuple V), scc_closed I' islat lle Pk sc' R ->
  aclosedH I vagg islat lle A (stratum_of P sc) (dbof R).
Proof.
  intros R Hcl f [ru [e [h [Hin [Has [Hh Hf]]]]]].
  destruct (stratum_inv P sc ru Hin) as [j [Hj Hru]].
  destruct (rule_in_scc j Hj) as [ru0 [Hru0 [Hb HlK]]]. rewrite Hru in Hru0. injection Hru0 as <-.
  destruct (asat_sat I vagg islat P K N A j ru (dbof R) Hru HlK Hb [] e Has [] (agree_refl N [])) as [e' [Hag Hsat]].
  change (below I' islat lle (dbof R) f).
  assert (Hj' : In j (rules_of_scc sc')) by (unfold sc'; rewrite tr_scc_rules; exact Hj).
  apply (Hcl j (tr_rule K N j ru) Hj' (scc_prog_in P K N sc j ru Hj Hru) e' h f Hsat Hh).
  rewrite <- Hf. symmetry. exact (head_agree I vagg islat P K N A ru h e e' Hb Hh Hag).
Qed.
End WithA.

Lemma sc'_lat_ok : forallb (lat_variant_ok islat) (s_vars sc') = true.
Proof.
  unfold sc', tr_scc. cbn [s_vars]. apply forallb_forall. intros v' Hv'. apply in_map_iff in Hv' as [v [<- Hv]].
  apply tr_lat_variant_ok. pose proof Halat as Ha'. rewrite forallb_forall in Ha'. apply Ha'. exact Hv.
Qed.

Lemma rle_dble : forall R R' : rel -> list (vtuple V), rle I islat lle R R' -> dble I islat lle (dbof R) (dbof R').
Proof.
  intros R R' Hrle r t Ht. unfold dbof in Ht. apply In_nth_error in Ht. destruct Ht as [i Hi].
  destruct (Hrle r i t Hi) as [row' [E Hle]]. exists row'. split; [eapply nth_error_In; eauto | exact Hle].
Qed.

Theorem arun_scc_spec : forall fuel (st st' : @lstate V), AG st ->
  arun_scc I vagg islat jm shuffle ashuffle swap_oracle fuel sc st = Some st' ->
  AG st'
  /\ (forall r, is_dyn (s_dyn sc) r = false -> l_rows st' r = l_rows st r)
  /\ stratum_lfp I vagg islat lle (stratum_of P sc) (l_rows st) (l_rows st').
Proof.
  intros fuel st st' [Har Hkey Hwf Hpl Hst] Hrun.
  rewrite (arun_scc_tr I Heq vagg Hperm islat jm shuffle ashuffle Hashuf swap_oracle arities P K N HK sc fuel st Hok Hbelow Hst Hpl) in Hrun.
  set (A := l_rows st) in *. set (I' := tr_interp I vagg islat P K A) in *.
  assert (Heq' : veqb_ok I') by exact Heq.
  assert (Hna : no_agg Pk = true) by apply scc_prog_no_agg.
  assert (Hmk : monotone_program I' islat lle Pk) by apply Pk_mono.
  assert (Hcov : forall r i, i < length (l_rows st r) -> In i (l_stored st r)) by (intros r i Hi; apply (proj2 (Hst r)); exact Hi).
  (* the run over the set of all well-formed facts: structure of the result *)
  assert (HRwf : rows_ok I' islat lle arities (Jwf I' islat lle) A).
  { constructor; [exact Har | exact Hkey | exact Hwf | apply rows_wf_below_Jwf; exact Hwf]. }
  destruct (run_scc_spec I' Heq' islat lle jm Hlaws shuffle Hshuf swap_oracle arities Hfun Hlat1 Pk Hna Hmk (Jwf I' islat lle)
              (Jwf_directed I' islat lle jm Hlaws) (Jwf_closed I' islat lle jm Hlaws Pk Hmk) sc' Htr sc'_lat_ok fuel st st' HRwf Hcov Hrun)
    as [[Har' Hkey' Hwf' _] [Hrle [Hclosed [_ Hsta]]]].
  destruct (run_scc_exact I' Heq' islat jm shuffle swap_oracle arities Pk Hna sc' Htr fuel st st' Hkey Hpl Hst Hrun) as [Hpl' Hst'].
  split; [constructor; assumption|]. split; [exact Hsta|].
  split; [|split; [exact Hkey'|split; [exact Hpl'|split; [|split; [|split]]]]].
  - intros q Hq. apply Hsta. exact (aggs_static arities P sc Hok q Hq).
  - apply unique_directed; assumption.
  - apply closed_back. exact Hclosed.
  - apply rle_dble. exact Hrle.
  - intros J HJd HJc HJin.
    assert (HRJ : rows_ok I' islat lle arities J A).
    { constructor; [exact Har | exact Hkey | exact Hwf |]. intros q row Hq. apply HJin. exact Hq. }
    destruct (run_scc_spec I' Heq' islat lle jm Hlaws shuffle Hshuf swap_oracle arities Hfun Hlat1 Pk Hna Hmk J HJd (closed_tr A J HJc)
                sc' Htr sc'_lat_ok fuel st st' HRJ Hcov Hrun) as [[_ _ _ Hb] _].
    intros r t Ht. exact (Hb r t Ht).
Qed.
End AScc.
