(* B13 - the per-index lattice engine REFINES the view engine: for a plan accepted by LatIndexedEval.xplan_ok (arities
   respected, every index a clause / an aggregate reads on a lattice relation is declared and leaves the lattice column
   alone - the part that is LatAggEval.alat_plan_ok -, every lattice relation has its key index) and an input with one
   row per lattice key, a run of LatIndexedEval.xrun_plan is, SCC by SCC and iteration by iteration, a run of
   LatAggEval.arun_plan with the SAME oracles, the same rows (Leibniz-equal row functions), the same flags and ticks;
   the invariant is LatIndexedStore.stinv on every stored index field.  The C04 / C03 theorems about arun_plan /
   run_plan therefore hold for the per-index engine (corollaries below). *)
From Coq Require Import List ZArith Bool Arith Lia Permutation.
From AV Require Import Engine.Core.
From AV Require Import Engine.Eval.
From AV Require Import Engine.Validate.
From AV Require Import LatEngine.LatSyntax.
From AV Require Import LatEngine.LatEval.
From AV Require Import LatEngine.LatClause.
From AV Require Import LatEngine.LatBase.
From AV Require Import LatEngine.LatKeys.
From AV Require Import LatEngine.LatAggEval.
From AV Require Import LatEngine.LatIndexedEval.
From AV Require Import LatEngine.LatIndexedBase.
From AV Require Import LatEngine.LatIndexedStore.
From AV Require Import LatEngine.LatIndexedSim.
From AV Require Import LatEngine.LatIndexedItems.
Import ListNotations.
Local Open Scope nat_scope.

Section Refine.
Context {V : Type}.
Variable I : linterp V.
Hypothesis Heq : veqb_ok I.
Variable vagg : nat -> list (list V) -> list V.
Variable islat : rel -> bool.
Variable jm : rel -> V -> V -> V * bool.
Variable shuffle : nat -> list nat -> list nat.
Hypothesis Hshuf : forall n l x, In x (shuffle n l) -> In x l.
Variable ashuffle : nat -> list nat -> list nat.
Hypothesis Hashuf : forall n l x, In x (ashuffle n l) -> In x l.
Variable swap_oracle : nat -> list nat -> list nat -> bool.
Variable arities : list (rel * nat).
Variable ds : list xdecl.
Notation ar := (ar_of arities).
Hypothesis Hdecl : forall r, islat r = true -> xdecl_ok islat arities ds r = true.

Notation stinv := (stinv (V:=V) I arities ds).
Notation rows_len := (rows_len (V:=V) islat arities).
Notation keys_ok := (keys_ok (V:=V) islat).

(* ---------- the plan check gives the side conditions of the simulation ---------- *)
Lemma item_side_ok : forall p, xitem_ok islat arities ds p = true -> item_side islat arities ds p.
Proof.
  assert (Hgen : forall r n idx, Nat.eqb n (ar r) && (negb (islat r) || (xdeclared ds r idx && forallb (fun i => Nat.ltb (S i) (ar r)) idx && negb (Nat.eqb (length idx) (ar r)))) = true ->
            islat r = true -> xdeclared ds r idx = true /\ kread arities r idx).
  { intros r n idx H Hl. apply andb_true_iff in H as [_ H]. rewrite Hl in H. cbn [negb orb] in H.
    apply andb_true_iff in H as [H H3]. apply andb_true_iff in H as [H1 H2]. split; [exact H1|]. split.
    - intros c Hc. rewrite forallb_forall in H2. specialize (H2 c Hc). apply Nat.ltb_lt in H2. exact H2.
    - apply negb_true_iff in H3. apply Nat.eqb_neq in H3. exact H3. }
  intros [r args cs idx ver|c|x g xs|out a bound r args idx] H; cbn [item_side xitem_ok] in *; auto.
  - intros Hl. exact (Hgen r _ idx H Hl).
  - intros Hl. exact (Hgen r _ idx H Hl).
Qed.

Lemma variant_side_ok : forall dyn v, xvariant_ok islat arities ds dyn v = true -> variant_side islat arities ds dyn v.
Proof.
  intros dyn v H. unfold xvariant_ok in H. apply andb_true_iff in H as [H1 H2]. split.
  - apply Forall_forall. intros p Hp. apply item_side_ok. rewrite forallb_forall in H1. apply H1. exact Hp.
  - intros h Hh. rewrite forallb_forall in H2. specialize (H2 h Hh). apply andb_true_iff in H2 as [A B].
    apply Nat.eqb_eq in A. split; assumption.
Qed.

(* ---------- one SCC ---------- *)
Section Scc.
Variable sc : pscc.
Hypothesis Hsc : forallb (xvariant_ok islat arities ds (s_dyn sc)) (s_vars sc) = true.
Let dyn := s_dyn sc.

Record loopinv (St' T' D' St T D : rel -> list nat) (XS XT XD : rel -> list (xidx (V:=V))) (R : rel -> list (vtuple V)) : Prop := {
  li_plain : forall r, islat r = false -> St r = St' r /\ T r = T' r /\ D r = D' r;
  li_S : forall r, islat r = true -> is_dyn dyn r = false -> stinv R r (XS r) (St' r);
  li_TD : forall r, islat r = true -> is_dyn dyn r = true -> stinv R r (XT r) (T' r) /\ stinv R r (XD r) (D' r);
  li_len : rows_len R;
  li_key : keys_ok R;
  li_cov : forall r i, is_dyn dyn r = true -> i < length (R r) -> In i (T' r) \/ In i (D' r)
}.

Lemma iteration_sim : forall St' T' D' St T D XS XT XD R tk, loopinv St' T' D' St T D XS XT XD R ->
  sim I islat arities ds dyn St' T' D' XS XT XD R
      (xscc_iteration I vagg islat jm shuffle ashuffle swap_oracle dyn St T D XS XT XD sc R tk)
      (ascc_iteration I vagg islat jm shuffle ashuffle swap_oracle dyn St' T' D' sc R tk).
Proof.
  intros St' T' D' St T D XS XT XD R tk [Hp HS HTD Hlen Hkey Hcov]. unfold xscc_iteration, ascc_iteration.
  apply (sim_variants I Heq vagg islat jm shuffle Hshuf ashuffle Hashuf swap_oracle arities ds Hdecl dyn St' T' D' St T D XS XT XD Hp R Hcov).
  - constructor; cbn [x_s x_new i_rows i_new i_changed i_tick]; auto.
    + intros r Hl. split; [apply HS; exact Hl|]. intros Hd. destruct (HTD r Hl Hd) as [A B]. split; [exact A|]. split; [exact B|].
      apply (stinv_clear I arities ds R r _ _ A).
    + constructor; cbn [i_rows i_new i_changed]; auto. intros r i [].
  - intros v Hv. apply variant_side_ok. rewrite forallb_forall in Hsc. apply Hsc. exact Hv.
Qed.

(* the state after one evaluation of the rules, merged *)
Lemma loopinv_next : forall St' T' D' St T D XS XT XD R xs s, loopinv St' T' D' St T D XS XT XD R ->
  sim I islat arities ds dyn St' T' D' XS XT XD R xs s ->
  loopinv St' (merge T' D') (i_new s) St (merge T D) (i_new (x_s xs)) XS (xmerge I XT XD) (x_new xs) (i_rows s).
Proof.
  intros St' T' D' St T D XS XT XD R xs s [Hp HS HTD Hlen Hkey Hcov] Hs.
  destruct Hs as [Hrows Hch Htk Hpn Hall Hlen' Hkinv]. constructor.
  - intros r Hl. destruct (Hp r Hl) as [E1 [E2 E3]]. split; [exact E1|]. split; [unfold merge; rewrite E2, E3; reflexivity | apply Hpn; exact Hl].
  - intros r Hl Hd. apply (Hall r Hl). exact Hd.
  - intros r Hl Hd. destruct (Hall r Hl) as [_ H2]. destruct (H2 Hd) as [A [B C]]. split; [|exact C].
    unfold xmerge, merge. apply (stinv_merge I Heq islat arities ds); auto. exact (ki_key _ _ _ _ Hkinv r Hl).
  - exact Hlen'.
  - exact (ki_key _ _ _ _ Hkinv).
  - intros r i Hd Hi. unfold merge. rewrite nunion_In. destruct (ki_cov _ _ _ _ Hkinv r i Hd Hi) as [H|H]; [left; apply Hcov; auto | right; exact H].
Qed.

Record loopout (St' : rel -> list nat) (XS : rel -> list (xidx (V:=V))) (R : rel -> list (vtuple V)) (o : xloop_out (V:=V)) (Tf : rel -> list nat) (Rf : rel -> list (vtuple V)) : Prop := {
  lo_plain : forall r, islat r = false -> xo_T o r = Tf r;
  lo_T : forall r, islat r = true -> is_dyn dyn r = true -> stinv Rf r (xo_XT o r) (Tf r);
  lo_S : forall r, islat r = true -> is_dyn dyn r = false -> stinv Rf r (XS r) (St' r);
  lo_len : rows_len Rf;
  lo_key : keys_ok Rf;
  lo_cov : forall r i, is_dyn dyn r = true -> i < length (Rf r) -> In i (Tf r);
  lo_sta : forall r, is_dyn dyn r = false -> Rf r = R r
}.

Lemma loop_sim : forall fuel St' T' D' St T D XS XT XD R tk o, loopinv St' T' D' St T D XS XT XD R ->
  xscc_loop I vagg islat jm shuffle ashuffle swap_oracle fuel sc St XS T D XT XD R tk = Some o ->
  exists Tf, ascc_loop I vagg islat jm shuffle ashuffle swap_oracle fuel sc St' T' D' R tk = Some (Tf, xo_rows o, xo_tick o)
             /\ loopout St' XS R o Tf (xo_rows o).
Proof.
  induction fuel as [|fuel IH]; intros St' T' D' St T D XS XT XD R tk o Hli Hrun; [discriminate|].
  cbn [xscc_loop ascc_loop] in *. fold dyn. fold dyn in Hrun.
  pose proof (iteration_sim St' T' D' St T D XS XT XD R tk Hli) as Hs.
  set (xs := xscc_iteration I vagg islat jm shuffle ashuffle swap_oracle dyn St T D XS XT XD sc R tk) in *.
  set (s := ascc_iteration I vagg islat jm shuffle ashuffle swap_oracle dyn St' T' D' sc R tk) in *.
  pose proof (loopinv_next _ _ _ _ _ _ _ _ _ _ xs s Hli Hs) as Hnext.
  pose proof (sm_kinv _ _ _ _ _ _ _ _ _ _ _ _ _ _ Hs) as Hkinv.
  rewrite <- (sm_ch _ _ _ _ _ _ _ _ _ _ _ _ _ _ Hs). destruct (i_changed (x_s xs)) eqn:Ech.
  - rewrite <- (sm_tk _ _ _ _ _ _ _ _ _ _ _ _ _ _ Hs), <- (sm_rows _ _ _ _ _ _ _ _ _ _ _ _ _ _ Hs).
    rewrite (sm_rows _ _ _ _ _ _ _ _ _ _ _ _ _ _ Hs) in Hrun.
    destruct (IH _ _ _ _ _ _ _ _ _ _ _ o Hnext Hrun) as [Tf [Hrun' Hout]].
    rewrite (sm_rows _ _ _ _ _ _ _ _ _ _ _ _ _ _ Hs). exists Tf. split; [exact Hrun'|].
    destruct Hout as [A B C Dq E F G]. constructor; [exact A | exact B | | exact Dq | exact E | exact F |].
    + intros r Hl Hd. destruct (sm_all _ _ _ _ _ _ _ _ _ _ _ _ _ _ Hs r Hl) as [H1 _]. specialize (H1 Hd).
      apply (stinv_ext I arities ds (i_rows s) (xo_rows o) r); [symmetry; apply G; exact Hd|]. exact H1.
    + intros r Hd. rewrite (G r Hd). exact (ki_sta _ _ _ _ Hkinv r Hd).
  - injection Hrun as <-. cbn [xo_rows xo_tick xo_T xo_XT].
    rewrite (sm_tk _ _ _ _ _ _ _ _ _ _ _ _ _ _ Hs), (sm_rows _ _ _ _ _ _ _ _ _ _ _ _ _ _ Hs).
    exists (merge T' D'). split; [reflexivity|]. destruct Hnext as [Hp HS HTD Hlen Hkey Hcov].
    constructor; cbn [xo_rows xo_tick xo_T xo_XT]; [| | | exact Hlen | exact Hkey | |].
    + intros r Hl. destruct (Hp r Hl) as [_ [E _]]. exact E.
    + intros r Hl Hd. apply (HTD r Hl Hd).
    + intros r Hl Hd. destruct (sm_all _ _ _ _ _ _ _ _ _ _ _ _ _ _ Hs r Hl) as [H1 _]. exact (H1 Hd).
    + intros r i Hd Hi. destruct (Hcov r i Hd Hi) as [H|H]; [exact H|].
      assert (Ech' : i_changed s = false) by (rewrite <- (sm_ch _ _ _ _ _ _ _ _ _ _ _ _ _ _ Hs); exact Ech).
      rewrite (ki_flag _ _ _ _ Hkinv Ech' r) in H. destruct H.
    + intros r Hd. exact (ki_sta _ _ _ _ Hkinv r Hd).
Qed.

(* the program value between SCCs *)
Record lsim (xst : xlstate (V:=V)) (st : @lstate V) : Prop := {
  ls_rows : l_rows (xl_s xst) = l_rows st;
  ls_tk : l_tick (xl_s xst) = l_tick st;
  ls_plain : forall r, islat r = false -> l_stored (xl_s xst) r = l_stored st r;
  ls_ix : forall r, islat r = true -> stinv (l_rows st) r (xl_ix xst r) (l_stored st r);
  ls_len : rows_len (l_rows st);
  ls_key : keys_ok (l_rows st);
  ls_cov : forall r i, i < length (l_rows st r) -> In i (l_stored st r)
}.

Lemma start_inv : forall xst st, lsim xst st ->
  loopinv (l_stored st) (fun _ => []) (fun r => if is_dyn dyn r then l_stored st r else [])
          (l_stored (xl_s xst)) (fun _ => []) (fun r => if is_dyn dyn r then l_stored (xl_s xst) r else [])
          (xl_ix xst) (fun r => if is_dyn dyn r then map xclear (xl_ix xst r) else []) (fun r => if is_dyn dyn r then xl_ix xst r else [])
          (l_rows st).
Proof.
  intros xst st [H1 H2 H3 H4 H5 H6 H7]. constructor; auto.
  - intros r Hl. rewrite (H3 r Hl). auto.
  - intros r Hl Hd. rewrite Hd. split; [|apply H4; exact Hl]. apply (stinv_clear I arities ds _ r _ _ (H4 r Hl)).
  - intros r i Hd Hi. right. rewrite Hd. apply H7. exact Hi.
Qed.

Lemma run_scc_sim : forall fuel xst st xst', lsim xst st ->
  xrun_scc I vagg islat jm shuffle ashuffle swap_oracle fuel sc xst = Some xst' ->
  exists st', arun_scc I vagg islat jm shuffle ashuffle swap_oracle fuel sc st = Some st' /\ lsim xst' st'.
Proof.
  intros fuel xst st xst' Hls Hrun. pose proof (start_inv xst st Hls) as Hli.
  unfold xrun_scc, arun_scc in *. fold dyn. fold dyn in Hrun. destruct Hls as [H1 H2 H3 H4 H5 H6 H7]. destruct (s_loop sc).
  - rewrite H1, H2 in Hrun.
    destruct (xscc_loop I vagg islat jm shuffle ashuffle swap_oracle fuel sc (l_stored (xl_s xst)) (xl_ix xst) (fun _ => [])
                (fun r => if is_dyn dyn r then l_stored (xl_s xst) r else []) (fun r => if is_dyn dyn r then map xclear (xl_ix xst r) else [])
                (fun r => if is_dyn dyn r then xl_ix xst r else []) (l_rows st) (l_tick st)) as [o|] eqn:El; [|discriminate].
    injection Hrun as <-. destruct (loop_sim fuel _ _ _ _ _ _ _ _ _ _ _ o Hli El) as [Tf [Hrun' Hout]]. rewrite Hrun'.
    eexists. split; [reflexivity|]. destruct Hout as [A B C Dq E F G].
    constructor; cbn [xl_s xl_ix l_rows l_stored l_tick]; [reflexivity | reflexivity | | | exact Dq | exact E |].
    + intros r Hl. destruct (is_dyn dyn r); [apply A; exact Hl | apply H3; exact Hl].
    + intros r Hl. destruct (is_dyn dyn r) eqn:Hd; [apply B; auto | apply C; auto].
    + intros r i Hi. destruct (is_dyn dyn r) eqn:Hd; [apply F; auto|]. rewrite (G r Hd) in Hi. apply H7. exact Hi.
  - injection Hrun as <-. rewrite H1, H2.
    pose proof (iteration_sim _ _ _ _ _ _ _ _ _ (l_rows st) (l_tick st) Hli) as Hs.
    set (xs := xscc_iteration I vagg islat jm shuffle ashuffle swap_oracle dyn (l_stored (xl_s xst)) (fun _ => [])
                 (fun r => if is_dyn dyn r then l_stored (xl_s xst) r else []) (xl_ix xst) (fun r => if is_dyn dyn r then map xclear (xl_ix xst r) else [])
                 (fun r => if is_dyn dyn r then xl_ix xst r else []) sc (l_rows st) (l_tick st)) in *.
    set (s := ascc_iteration I vagg islat jm shuffle ashuffle swap_oracle dyn (l_stored st) (fun _ => [])
                (fun r => if is_dyn dyn r then l_stored st r else []) sc (l_rows st) (l_tick st)) in *.
    pose proof (loopinv_next _ _ _ _ _ _ _ _ _ _ xs s Hli Hs) as Hnext.
    pose proof (sm_kinv _ _ _ _ _ _ _ _ _ _ _ _ _ _ Hs) as Hkinv.
    eexists. split; [reflexivity|]. destruct Hnext as [Hp HS HTD Hlen Hkey Hcov].
    constructor; cbn [xl_s xl_ix l_rows l_stored l_tick].
    + exact (sm_rows _ _ _ _ _ _ _ _ _ _ _ _ _ _ Hs).
    + exact (sm_tk _ _ _ _ _ _ _ _ _ _ _ _ _ _ Hs).
    + intros r Hl. destruct (is_dyn dyn r); [|apply H3; exact Hl]. destruct (Hp r Hl) as [_ [E1 E2]]. unfold merge at 1 3. rewrite E1, E2. reflexivity.
    + intros r Hl. destruct (is_dyn dyn r) eqn:Hd.
      * destruct (HTD r Hl Hd) as [A B]. unfold xmerge at 1. unfold merge at 1.
        apply (stinv_merge I Heq islat arities ds); auto.
      * destruct (sm_all _ _ _ _ _ _ _ _ _ _ _ _ _ _ Hs r Hl) as [X _]. exact (X Hd).
    + exact Hlen.
    + exact Hkey.
    + intros r i Hi. destruct (is_dyn dyn r) eqn:Hd.
      * unfold merge at 1. rewrite nunion_In. exact (Hcov r i Hd Hi).
      * rewrite (ki_sta _ _ _ _ Hkinv r Hd) in Hi. apply H7. exact Hi.
Qed.
End Scc.

(* ---------- the whole run ---------- *)
Lemma run_sccs_sim : forall fuel pl xst st xst',
  forallb (fun sc => forallb (xvariant_ok islat arities ds (s_dyn sc)) (s_vars sc)) pl = true ->
  lsim xst st -> xrun_sccs I vagg islat jm shuffle ashuffle swap_oracle fuel pl xst = Some xst' ->
  exists st', arun_sccs I vagg islat jm shuffle ashuffle swap_oracle fuel pl st = Some st' /\ lsim xst' st'.
Proof.
  intros fuel. induction pl as [|sc pl IH]; intros xst st xst' Hpl Hls Hrun; cbn [xrun_sccs arun_sccs] in *.
  - injection Hrun as <-. exists st. split; [reflexivity | exact Hls].
  - cbn [forallb] in Hpl. apply andb_true_iff in Hpl as [Hsc Hpl].
    destruct (xrun_scc I vagg islat jm shuffle ashuffle swap_oracle fuel sc xst) as [xst1|] eqn:E1; [|discriminate].
    destruct (run_scc_sim sc Hsc fuel xst st xst1 Hls E1) as [st1 [E1' Hls1]]. rewrite E1'. exact (IH xst1 st1 xst' Hpl Hls1 Hrun).
Qed.

Lemma start_sim : forall Rin, rows_len Rin -> keys_ok Rin -> lsim (xupdate_indices I islat (decls_of ds) Rin) (update_indices Rin).
Proof.
  intros Rin Hlen Hkey. constructor; cbn [xupdate_indices update_indices xl_s xl_ix l_rows l_stored l_tick]; auto.
  - intros r Hl. rewrite Hl. reflexivity.
  - intros r Hl. rewrite Hl. apply (stinv_build I Heq islat arities ds Hdecl); auto.
  - intros r i Hi. apply in_seq. lia.
Qed.

Theorem xrun_refines_arun : forall fuel pl Rin xst,
  forallb (fun sc => forallb (xvariant_ok islat arities ds (s_dyn sc)) (s_vars sc)) pl = true ->
  rows_len Rin -> keys_ok Rin ->
  xrun_plan I vagg islat jm shuffle ashuffle swap_oracle (decls_of ds) fuel pl Rin = Some xst ->
  exists st, arun_plan I vagg islat jm shuffle ashuffle swap_oracle fuel pl Rin = Some st
             /\ l_rows st = l_rows (xl_s xst) /\ l_tick st = l_tick (xl_s xst)
             /\ (forall r, islat r = true -> stinv (l_rows st) r (xl_ix xst r) (l_stored st r)).
Proof.
  intros fuel pl Rin xst Hpl Hlen Hkey Hrun. unfold xrun_plan, arun_plan in *.
  destruct (run_sccs_sim fuel pl _ _ xst Hpl (start_sim Rin Hlen Hkey) Hrun) as [st [Hrun' Hls]].
  exists st. split; [exact Hrun'|]. split; [symmetry; exact (ls_rows _ _ Hls)|]. split; [symmetry; exact (ls_tk _ _ Hls) | exact (ls_ix _ _ Hls)].
Qed.
End Refine.
