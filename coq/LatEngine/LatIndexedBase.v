(* B13 - the algebra of one physical index of a lattice relation (lemmas about LatIndexedEval.v e_get / e_ins / e_move /
   xbuild): [keyform K L] is the content of the KEY index after the row numbers L were inserted (one entry per row
   number, under the key K i of its row), [ix_ok R cols L es] says that an index over the columns cols lists exactly
   the row numbers of L whose row has the key on these columns. *)
From Coq Require Import List ZArith Bool Arith Lia.
From AV Require Import Engine.Core.
From AV Require Import Engine.Eval.
From AV Require Import LatEngine.LatSyntax.
From AV Require Import LatEngine.LatEval.
From AV Require Import LatEngine.LatClause.
From AV Require Import LatEngine.LatMono.
From AV Require Import LatEngine.LatBase.
From AV Require Import LatEngine.LatIndexedEval.
Import ListNotations.
Local Open Scope nat_scope.

Lemma ncols_eqb_eq : forall a b, ncols_eqb a b = true <-> a = b.
Proof.
  induction a as [|x a IH]; destruct b as [|y b]; cbn [ncols_eqb]; split; intros H; try reflexivity; try discriminate.
  - apply andb_true_iff in H as [H1 H2]. apply Nat.eqb_eq in H1. apply IH in H2. congruence.
  - injection H as -> ->. rewrite Nat.eqb_refl. apply IH. reflexivity.
Qed.

Lemma nadd_fresh : forall i l, ~ In i l -> nadd i l = l ++ [i].
Proof. intros i l H. unfold nadd. destruct (nmem i l) eqn:E; [apply nmem_In in E; contradiction | reflexivity]. Qed.
Lemma nadd_old : forall i l, In i l -> nadd i l = l.
Proof. intros i l H. unfold nadd. apply nmem_In in H. rewrite H. reflexivity. Qed.
Lemma nadd_cons_neq : forall i j l, i <> j -> nadd i (j :: l) = j :: nadd i l.
Proof.
  intros i j l H. unfold nadd, nmem. cbn [existsb]. destruct (Nat.eqb i j) eqn:E; [apply Nat.eqb_eq in E; contradiction|].
  cbn [orb]. destruct (existsb (Nat.eqb i) l); reflexivity.
Qed.
Lemma nunion_cons : forall l1 i l2, nunion l1 (i :: l2) = nunion (nadd i l1) l2.
Proof. reflexivity. Qed.

Section Base.
Context {V : Type}.
Variable I : linterp V.
Hypothesis Heq : veqb_ok I.

Notation e_get := (e_get I).
Notation e_ins := (e_ins I).
Notation e_move := (e_move I).

Lemma veq_refl : forall a : list V, vlist_eqb I a a = true.
Proof. intros a. apply (vlist_eqb_eq I Heq). reflexivity. Qed.
Lemma veq_false : forall a b : list V, a <> b -> vlist_eqb I a b = false.
Proof. intros a b H. destruct (vlist_eqb I a b) eqn:E; [apply (vlist_eqb_eq I Heq) in E; contradiction | reflexivity]. Qed.

(* ---------- projections that leave the lattice column alone ---------- *)
Lemma nth_app_key : forall (k : list V) v c d, c < length k -> nth c (k ++ [v]) d = nth c k d.
Proof. intros. apply app_nth1. assumption. Qed.

Lemma vproj_tkey_eq : forall cols (a b : vtuple V), tkey a = tkey b -> length a = length b ->
  (forall c, In c cols -> S c < length a) -> vproj I cols a = vproj I cols b.
Proof.
  intros cols a b Hk Hl Hc. destruct (length a) as [|n] eqn:Ea.
  - destruct a; [|discriminate]. destruct b; [|discriminate]. reflexivity.
  - destruct (split_last I a n Ea) as [E1 L1]. destruct (split_last I b n (eq_sym Hl)) as [E2 L2].
    unfold vproj. apply map_ext_in. intros c Hin. specialize (Hc c Hin).
    rewrite E1, E2. rewrite !nth_app_key by lia. rewrite Hk. reflexivity.
Qed.

Lemma vproj_upd : forall cols (row : vtuple V) v, (forall c, In c cols -> S c < length row) ->
  vproj I cols (tkey row ++ [v]) = vproj I cols row.
Proof.
  intros cols row v Hc. destruct (length row) as [|n] eqn:El.
  - destruct cols as [|c cols]; [reflexivity|]. specialize (Hc c (or_introl eq_refl)). lia.
  - destruct (split_last I row n El) as [E1 L1]. apply vproj_tkey_eq.
    + apply tkey_app.
    + rewrite app_length. cbn. lia.
    + intros c Hin. specialize (Hc c Hin). rewrite app_length. cbn. lia.
Qed.

Lemma map_nth_seq_gen : forall (k pre post : list V) d, map (fun i => nth i (pre ++ k ++ post) d) (seq (length pre) (length k)) = k.
Proof.
  induction k as [|v k IH]; intros pre post d; [reflexivity|]. cbn [length seq map]. f_equal.
  - rewrite app_nth2 by lia. rewrite Nat.sub_diag. reflexivity.
  - specialize (IH (pre ++ [v]) post d). rewrite app_length in IH. cbn [length] in IH. rewrite <- app_assoc in IH. cbn [app] in IH.
    replace (length pre + 1) with (S (length pre)) in IH by lia. exact IH.
Qed.

Lemma vproj_kcols : forall (row : vtuple V) n, length row = S n -> vproj I (seq 0 n) row = tkey row.
Proof.
  intros row n El. destruct (split_last I row n El) as [E1 L1]. unfold vproj.
  pose proof (map_nth_seq_gen (tkey row) [] [tval I row] (vd I)) as H. cbn [app length] in H.
  rewrite <- E1 in H. rewrite L1 in H. exact H.
Qed.

(* ---------- e_get / e_ins ---------- *)
Lemma e_get_In : forall key es i, In i (e_get key es) -> exists l, In (key, l) es /\ In i l.
Proof.
  intros key es i. induction es as [|[k l] es IH]; cbn [LatIndexedEval.e_get fst snd]; intros H; [destruct H|].
  destruct (vlist_eqb I k key) eqn:E.
  - apply (vlist_eqb_eq I Heq) in E. subst. exists l. split; [left; reflexivity | exact H].
  - destruct (IH H) as [l0 [H1 H2]]. exists l0. split; [right; exact H1 | exact H2].
Qed.

Lemma e_get_ins_same : forall ow key i es, In i (e_get key (e_ins ow key i es)).
Proof.
  intros ow key i es. induction es as [|[k l] es IH]; cbn [LatIndexedEval.e_ins LatIndexedEval.e_get fst snd].
  - rewrite veq_refl. left. reflexivity.
  - destruct (vlist_eqb I k key) eqn:E; cbn [LatIndexedEval.e_get fst snd]; rewrite E.
    + destruct ow; [left; reflexivity | apply nadd_In; left; reflexivity].
    + exact IH.
Qed.

Lemma e_get_ins_mono : forall key i es q j, In j (e_get q es) -> In j (e_get q (e_ins false key i es)).
Proof.
  intros key i es q j. induction es as [|[k l] es IH]; cbn [LatIndexedEval.e_ins LatIndexedEval.e_get fst snd]; intros H; [destruct H|].
  destruct (vlist_eqb I k key) eqn:E; cbn [LatIndexedEval.e_get fst snd]; destruct (vlist_eqb I k q) eqn:E2; auto.
  apply nadd_In. right. exact H.
Qed.

Lemma e_ins_entries : forall ow key i es k l j, In (k, l) (e_ins ow key i es) -> In j l ->
  (exists l0, In (k, l0) es /\ In j l0) \/ (j = i /\ k = key).
Proof.
  intros ow key i es k l j. induction es as [|[k0 l0] es IH]; cbn [LatIndexedEval.e_ins fst snd]; intros Hin Hj.
  - destruct Hin as [Hin|[]]. injection Hin as <- <-. destruct Hj as [<-|[]]. right. split; reflexivity.
  - destruct (vlist_eqb I k0 key) eqn:E.
    + destruct Hin as [Hin|Hin].
      * injection Hin as <- <-. apply (vlist_eqb_eq I Heq) in E. destruct ow.
        -- destruct Hj as [<-|[]]. right. split; [reflexivity | exact E].
        -- apply nadd_In in Hj. destruct Hj as [->|Hj]; [right; split; [reflexivity | exact E]|].
           left. exists l0. split; [left; reflexivity | exact Hj].
      * left. exists l. split; [right; exact Hin | exact Hj].
    + destruct Hin as [Hin|Hin].
      * injection Hin as <- <-. left. exists l0. split; [left; reflexivity | exact Hj].
      * destruct (IH Hin Hj) as [[l1 [H1 H2]]|H]; [left; exists l1; split; [right; exact H1 | exact H2] | right; exact H].
Qed.

Lemma e_vals_In : forall (es : ents (V:=V)) i, In i (e_vals es) <-> exists k l, In (k, l) es /\ In i l.
Proof.
  intros es i. unfold e_vals. rewrite in_flat_map. split.
  - intros [[k l] [H1 H2]]. exists k, l. split; assumption.
  - intros [k [l [H1 H2]]]. exists (k, l). split; assumption.
Qed.

Lemma e_pairs_In : forall (es : ents (V:=V)) k i, In (k, i) (e_pairs es) <-> exists l, In (k, l) es /\ In i l.
Proof.
  intros es k i. unfold e_pairs. rewrite in_flat_map. split.
  - intros [[k0 l] [H1 H2]]. cbn [fst snd] in H2. apply in_map_iff in H2 as [j [Hj Hin]]. injection Hj as <- <-. exists l. split; assumption.
  - intros [l [H1 H2]]. exists (k, l). split; [exact H1|]. cbn [fst snd]. apply in_map. exact H2.
Qed.

(* ---------- the key index ---------- *)
Definition keyform (K : nat -> list V) (L : list nat) : ents (V:=V) := map (fun i => (K i, [i])) L.

Lemma e_vals_keyform : forall K L, e_vals (keyform K L) = L.
Proof. intros K L. unfold e_vals, keyform. induction L as [|i L IH]; [reflexivity|]. cbn [map flat_map snd app]. f_equal. exact IH. Qed.

Lemma e_get_keyform : forall K L key,
  e_get key (keyform K L) = match find (fun i => vlist_eqb I (K i) key) L with Some i => [i] | None => [] end.
Proof.
  intros K L key. unfold keyform. induction L as [|i L IH]; [reflexivity|]. cbn [map LatIndexedEval.e_get find fst snd].
  destruct (vlist_eqb I (K i) key); [reflexivity | exact IH].
Qed.

Lemma keyform_ext : forall K K' L, (forall i, In i L -> K i = K' i) -> keyform K L = keyform K' L.
Proof. intros K K' L H. unfold keyform. apply map_ext_in. intros i Hi. rewrite (H i Hi). reflexivity. Qed.

Lemma e_ins_true_keyform : forall K L i, (forall j, In j L -> K j = K i -> j = i) ->
  e_ins true (K i) i (keyform K L) = keyform K (nadd i L).
Proof.
  intros K L i. induction L as [|j L IH]; intros Hinj.
  - reflexivity.
  - cbn [keyform map LatIndexedEval.e_ins fst snd]. destruct (vlist_eqb I (K j) (K i)) eqn:E.
    + apply (vlist_eqb_eq I Heq) in E. assert (j = i) by (apply Hinj; [left; reflexivity | exact E]). subst j.
      rewrite nadd_old by (left; reflexivity). reflexivity.
    + assert (Hne : i <> j) by (intros ->; rewrite veq_refl in E; discriminate).
      rewrite nadd_cons_neq by exact Hne. cbn [keyform map]. f_equal. apply IH. intros j' Hj' Hk. apply Hinj; [right; exact Hj' | exact Hk].
Qed.

Lemma e_move_true_keyform : forall K n LD LT,
  (forall a b, a < n -> b < n -> K a = K b -> a = b) ->
  (forall i, In i LT -> i < n) -> (forall i, In i LD -> i < n) ->
  e_move true (keyform K LD) (keyform K LT) = keyform K (nunion LT LD).
Proof.
  intros K n LD. induction LD as [|i LD IH]; intros LT Hinj HT HD; [reflexivity|].
  unfold LatIndexedEval.e_move. cbn [keyform map fold_left fst snd]. fold (keyform K LD).
  rewrite e_ins_true_keyform by (intros j Hj Hk; apply (Hinj j i); auto; apply HD; left; reflexivity).
  rewrite nunion_cons. apply (IH (nadd i LT)); auto.
  - intros j Hj. apply nadd_In in Hj. destruct Hj as [->|Hj]; [apply HD; left; reflexivity | apply HT; exact Hj].
  - intros j Hj. apply HD. right. exact Hj.
Qed.

(* ---------- an index over key columns ---------- *)
Definition ix_ok (R : list (vtuple V)) (cols : list nat) (L : list nat) (es : ents (V:=V)) : Prop :=
  (forall k l i, In (k, l) es -> In i l -> In i L /\ exists row, nth_error R i = Some row /\ vproj I cols row = k)
  /\ (forall i row, In i L -> nth_error R i = Some row -> In i (e_get (vproj I cols row) es)).

Lemma ix_ok_nil : forall R cols, ix_ok R cols [] [].
Proof. intros R cols. split; [intros k l i [] | intros i row []]. Qed.

Lemma ix_ok_get : forall R cols L es key i, ix_ok R cols L es ->
  (In i (e_get key es) <-> In i L /\ exists row, nth_error R i = Some row /\ vproj I cols row = key).
Proof.
  intros R cols L es key i [HS HC]. split.
  - intros H. destruct (e_get_In key es i H) as [l [H1 H2]]. exact (HS key l i H1 H2).
  - intros [Hi [row [Hr Hk]]]. subst key. exact (HC i row Hi Hr).
Qed.

Lemma ix_ok_rows : forall R R' cols L es, ix_ok R cols L es ->
  (forall j, In j L -> option_map (vproj I cols) (nth_error R' j) = option_map (vproj I cols) (nth_error R j)) ->
  ix_ok R' cols L es.
Proof.
  intros R R' cols L es [HS HC] Hr. split.
  - intros k l i Hin Hi. destruct (HS k l i Hin Hi) as [HL [row [Hn Hk]]]. split; [exact HL|].
    specialize (Hr i HL). rewrite Hn in Hr. cbn in Hr. destruct (nth_error R' i) as [row'|]; [|discriminate].
    cbn in Hr. injection Hr as Hr. exists row'. split; [reflexivity | congruence].
  - intros i row' HL Hn. specialize (Hr i HL). rewrite Hn in Hr. cbn in Hr. destruct (nth_error R i) as [row|] eqn:En; [|discriminate].
    cbn in Hr. injection Hr as Hr. rewrite Hr. exact (HC i row HL En).
Qed.

Lemma ix_ok_ins : forall R cols L es i row, ix_ok R cols L es -> nth_error R i = Some row ->
  ix_ok R cols (nadd i L) (e_ins false (vproj I cols row) i es).
Proof.
  intros R cols L es i row [HS HC] Hn. split.
  - intros k l j Hin Hj. destruct (e_ins_entries _ _ _ _ _ _ _ Hin Hj) as [[l0 [H1 H2]]|[-> ->]].
    + destruct (HS k l0 j H1 H2) as [HL Hr]. split; [apply nadd_In; right; exact HL | exact Hr].
    + split; [apply nadd_In; left; reflexivity | exists row; split; [exact Hn | reflexivity]].
  - intros j row' Hj Hn'. apply nadd_In in Hj. destruct Hj as [->|Hj].
    + assert (row' = row) by congruence. subst. apply e_get_ins_same.
    + apply e_get_ins_mono. exact (HC j row' Hj Hn').
Qed.

Lemma ix_ok_keyform : forall R cols K L,
  (forall i, In i L -> exists row, nth_error R i = Some row /\ vproj I cols row = K i) ->
  (forall a b, In a L -> In b L -> K a = K b -> a = b) ->
  ix_ok R cols L (keyform K L).
Proof.
  intros R cols K L Hk Hinj. split.
  - intros k l i Hin Hi. unfold keyform in Hin. apply in_map_iff in Hin as [j [Hj Hin]]. injection Hj as <- <-.
    destruct Hi as [<-|[]]. split; [exact Hin | exact (Hk j Hin)].
  - intros i row Hi Hn. destruct (Hk i Hi) as [row' [Hn' Hk']]. assert (row' = row) by congruence. subst row'.
    rewrite Hk', e_get_keyform. destruct (find (fun j => vlist_eqb I (K j) (K i)) L) as [j|] eqn:Ef.
    + apply find_some in Ef as [Hj E]. apply (vlist_eqb_eq I Heq) in E. left. apply Hinj; auto.
    + exfalso. pose proof (find_none _ _ Ef i Hi) as E. cbn in E. rewrite veq_refl in E. discriminate.
Qed.

(* ---------- move_index_contents of a set index ---------- *)
Definition ins_all (key : list V) (l : list nat) (acc : ents (V:=V)) : ents := fold_left (fun acc i => e_ins false key i acc) l acc.

Lemma ins_all_entries : forall key l acc k l' j, In (k, l') (ins_all key l acc) -> In j l' ->
  (exists l0, In (k, l0) acc /\ In j l0) \/ (In j l /\ k = key).
Proof.
  intros key l. induction l as [|i l IH]; intros acc k l' j Hin Hj; cbn [ins_all fold_left] in Hin.
  - left. exists l'. split; assumption.
  - destruct (IH _ _ _ _ Hin Hj) as [[l0 [H1 H2]]|[H1 H2]].
    + destruct (e_ins_entries _ _ _ _ _ _ _ H1 H2) as [H|[-> ->]]; [left; exact H | right; split; [left; reflexivity | reflexivity]].
    + right. split; [right; exact H1 | exact H2].
Qed.

Lemma ins_all_mono : forall key l acc q j, In j (e_get q acc) -> In j (e_get q (ins_all key l acc)).
Proof.
  intros key l. induction l as [|i l IH]; intros acc q j H; cbn [ins_all fold_left]; [exact H|].
  apply IH. apply e_get_ins_mono. exact H.
Qed.

Lemma ins_all_new : forall key l acc j, In j l -> In j (e_get key (ins_all key l acc)).
Proof.
  intros key l. induction l as [|i l IH]; intros acc j H; [destruct H|]. cbn [ins_all fold_left]. destruct H as [->|H].
  - apply ins_all_mono. apply e_get_ins_same.
  - apply IH. exact H.
Qed.

Lemma e_move_false_unfold : forall from to, e_move false from to = fold_left (fun acc kl => ins_all (fst kl) (snd kl) acc) from to.
Proof. reflexivity. Qed.

Lemma e_move_entries : forall from to k l j, In (k, l) (e_move false from to) -> In j l ->
  (exists l0, In (k, l0) to /\ In j l0) \/ (exists l0, In (k, l0) from /\ In j l0).
Proof.
  intros from to. rewrite e_move_false_unfold. revert to. induction from as [|[k0 l0] from IH]; intros to k l j Hin Hj; cbn [fold_left fst snd] in Hin.
  - left. exists l. split; assumption.
  - destruct (IH _ _ _ _ Hin Hj) as [[l1 [H1 H2]]|[l1 [H1 H2]]].
    + destruct (ins_all_entries _ _ _ _ _ _ H1 H2) as [H|[H3 ->]]; [left; exact H|].
      right. exists l0. split; [left; reflexivity | exact H3].
    + right. exists l1. split; [right; exact H1 | exact H2].
Qed.

Lemma e_move_mono : forall from to q j, In j (e_get q to) -> In j (e_get q (e_move false from to)).
Proof.
  intros from to. rewrite e_move_false_unfold. revert to. induction from as [|[k0 l0] from IH]; intros to q j H; cbn [fold_left fst snd]; [exact H|].
  apply IH. apply ins_all_mono. exact H.
Qed.

Lemma e_move_new : forall from to k l0 j, In (k, l0) from -> In j l0 -> In j (e_get k (e_move false from to)).
Proof.
  intros from to. rewrite e_move_false_unfold. revert to. induction from as [|[k1 l1] from IH]; intros to k l0 j Hin Hj; [destruct Hin|].
  cbn [fold_left fst snd]. destruct Hin as [Hin|Hin].
  - injection Hin as -> ->. pose proof (e_move_mono from (ins_all k l0 to) k j) as Hm. rewrite e_move_false_unfold in Hm. apply Hm. apply ins_all_new. exact Hj.
  - exact (IH _ _ _ _ Hin Hj).
Qed.

Lemma ix_ok_move : forall R cols LT LD to from, ix_ok R cols LT to -> ix_ok R cols LD from ->
  ix_ok R cols (nunion LT LD) (e_move false from to).
Proof.
  intros R cols LT LD to from [ST CT] [SD CD]. split.
  - intros k l j Hin Hj. destruct (e_move_entries _ _ _ _ _ Hin Hj) as [[l0 [H1 H2]]|[l0 [H1 H2]]].
    + destruct (ST k l0 j H1 H2) as [HL Hr]. split; [apply nunion_In; left; exact HL | exact Hr].
    + destruct (SD k l0 j H1 H2) as [HL Hr]. split; [apply nunion_In; right; exact HL | exact Hr].
  - intros j row Hj Hn. apply nunion_In in Hj. destruct Hj as [Hj|Hj].
    + apply e_move_mono. exact (CT j row Hj Hn).
    + destruct (e_get_In _ _ _ (CD j row Hj Hn)) as [l0 [H1 H2]]. exact (e_move_new _ _ _ _ _ H1 H2).
Qed.

(* ---------- update_indices ---------- *)
Lemma xbuild_fold : forall ps (x : xidx (V:=V)),
  let y := fold_left (fun x p => xins I (snd p) (fst p) x) ps x in
  xc y = xc x /\ xk y = xk x
  /\ xe y = fold_left (fun es (p : nat * vtuple V) => e_ins (xk x) (vproj I (xc x) (snd p)) (fst p) es) ps (xe x).
Proof.
  induction ps as [|p ps IH]; intros x; cbn [fold_left]; [auto|].
  destruct (IH (xins I (snd p) (fst p) x)) as [H1 [H2 H3]]. cbn [xins xc xk xe] in *. auto.
Qed.

Definition kcol (R : list (vtuple V)) (cols : list nat) (i : nat) : list V :=
  match nth_error R i with Some row => vproj I cols row | None => [] end.

Lemma build_keyform : forall cols R2 R1,
  (forall a b, a < length (R1 ++ R2) -> b < length (R1 ++ R2) -> kcol (R1 ++ R2) cols a = kcol (R1 ++ R2) cols b -> a = b) ->
  fold_left (fun es (p : nat * vtuple V) => e_ins true (vproj I cols (snd p)) (fst p) es)
            (combine (seq (length R1) (length R2)) R2) (keyform (kcol (R1 ++ R2) cols) (seq 0 (length R1)))
  = keyform (kcol (R1 ++ R2) cols) (seq 0 (length (R1 ++ R2))).
Proof.
  intros cols R2. induction R2 as [|row R2 IH]; intros R1 Hinj.
  - rewrite app_nil_r. reflexivity.
  - cbn [length seq combine fold_left fst snd].
    assert (Hn : nth_error (R1 ++ row :: R2) (length R1) = Some row) by (rewrite nth_error_app2, Nat.sub_diag by lia; reflexivity).
    assert (Hk : vproj I cols row = kcol (R1 ++ row :: R2) cols (length R1)) by (unfold kcol; rewrite Hn; reflexivity).
    rewrite Hk. rewrite e_ins_true_keyform.
    + rewrite nadd_fresh by (rewrite in_seq; lia). rewrite <- seq_S.
      replace (R1 ++ row :: R2) with ((R1 ++ [row]) ++ R2) in * by (rewrite <- app_assoc; reflexivity).
      assert (El : length (R1 ++ [row]) = S (length R1)) by (rewrite app_length; cbn; lia).
      specialize (IH (R1 ++ [row])). rewrite El in IH. apply IH. exact Hinj.
    + intros j Hj Hkj. apply in_seq in Hj. apply Hinj; [rewrite app_length; cbn; lia | rewrite app_length; cbn; lia | exact Hkj].
Qed.

Lemma build_ix_ok : forall cols R2 R1 es, ix_ok (R1 ++ R2) cols (seq 0 (length R1)) es ->
  ix_ok (R1 ++ R2) cols (seq 0 (length (R1 ++ R2)))
        (fold_left (fun es (p : nat * vtuple V) => e_ins false (vproj I cols (snd p)) (fst p) es) (combine (seq (length R1) (length R2)) R2) es).
Proof.
  intros cols R2. induction R2 as [|row R2 IH]; intros R1 es H.
  - rewrite app_nil_r in *. exact H.
  - cbn [length seq combine fold_left fst snd].
    assert (Hn : nth_error (R1 ++ row :: R2) (length R1) = Some row) by (rewrite nth_error_app2, Nat.sub_diag by lia; reflexivity).
    pose proof (ix_ok_ins _ _ _ _ _ _ H Hn) as H1. rewrite nadd_fresh in H1 by (rewrite in_seq; lia). rewrite <- seq_S in H1.
    replace (R1 ++ row :: R2) with ((R1 ++ [row]) ++ R2) in * by (rewrite <- app_assoc; reflexivity).
    assert (El : length (R1 ++ [row]) = S (length R1)) by (rewrite app_length; cbn; lia).
    specialize (IH (R1 ++ [row])). rewrite El in IH. apply IH. exact H1.
Qed.
End Base.
