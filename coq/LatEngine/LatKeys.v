(* C03 - one row per key, for EVERY program (no monotonicity, no lattice laws): the head update finds the
   existing row of a key because every row number is in total, delta or new; nothing else writes rows. *)
From Coq Require Import List ZArith Bool Arith Lia.
From AV Require Import Engine.Core.
From AV Require Import Engine.Eval.
From AV Require Import Engine.Validate.
From AV Require Import Engine.Naive.
From AV Require Import Engine.NaiveLemmas.
From AV Require Engine.Strata.
From AV Require Engine.SemiNaive.
From AV Require Import LatEngine.LatSyntax.
From AV Require Import LatEngine.LatEval.
From AV Require Import LatEngine.LatClause.
From AV Require Import LatEngine.LatMono.
From AV Require Import LatEngine.LatBase.
From AV Require Import LatEngine.LatHead.
Import ListNotations.
Local Open Scope nat_scope.

Section Keys.
Context {V : Type}.
Variable I : linterp V.
Hypothesis Heq : veqb_ok I.
Variable islat : rel -> bool.
Variable jm : rel -> V -> V -> V * bool.
Variable shuffle : nat -> list nat -> list nat.
Variable swap_oracle : nat -> list nat -> list nat -> bool.

(* ---------- the evaluator changes the state only through head updates ---------- *)
Section Gen.
Variable dyn : list rel.
Variables St T D : rel -> list nat.
Variable Pst : @istate V -> Prop.
Hypothesis Ptick : forall s, Pst s -> Pst (tick s).

Lemma fold_P : forall (A : Type) (f : istate -> A -> istate) l s, (forall s a, Pst s -> Pst (f s a)) -> Pst s -> Pst (fold_left f l s).
Proof. intros A f. induction l as [|a l IH]; intros s Hf Hs; cbn; auto. Qed.

Lemma clause_P : forall k e r args cs idx ver s,
  (forall e s, Pst s -> Pst (k e s)) -> Pst s -> Pst (eval_clause I shuffle dyn St T D k e r args cs idx ver s).
Proof.
  intros k e r args cs idx ver s Hk Hs. unfold eval_clause. destruct (veval_key I e args idx); auto.
  apply fold_P; auto. intros s1 i H1. unfold clause_step. destruct (nth_error (i_rows s1 r) i); auto.
  destruct (vlist_eqb I (vproj I idx v) l); auto. destruct (vsat_conds I (vbind_new e args v) cs); auto.
Qed.

Lemma items_P : forall items k e s, (forall e s, Pst s -> Pst (k e s)) -> Pst s -> Pst (eval_items I shuffle dyn St T D items k e s).
Proof.
  induction items as [|p rest IH]; intros k e s Hk Hs; cbn [eval_items]; auto.
  destruct p as [r args cs idx ver|c|x g xs|o a bd r args idx]; auto.
  - apply clause_P; auto.
  - destruct (vsat_cond I e c); auto.
  - destruct (veval_vars e xs); auto. apply fold_P; auto.
Qed.

Lemma sj_P : forall items reord k e s, (forall e s, Pst s -> Pst (k e s)) -> Pst s -> Pst (eval_simple_join I shuffle swap_oracle dyn St T D items reord k e s).
Proof.
  intros items reord k e s Hk Hs. unfold eval_simple_join.
  destruct items as [|[r1 a1 c1 i1 v1|c|x g xs|o a bd r args idx] items]; try (apply items_P; auto).
  destruct items as [|[r2 a2 c2 i2 v2|c|x g xs|o a bd r args idx] rest]; try (apply items_P; auto).
  destruct (reord && negb (swap_oracle (i_tick s) (vrows dyn St T D r1 v1) (vrows dyn St T D r2 v2)));
    apply clause_P; auto; intros e1 s1 H1; apply clause_P; auto; intros e2 s2 H2; apply items_P; auto.
Qed.

Lemma from_P : forall sj items reord k e s, (forall e s, Pst s -> Pst (k e s)) -> Pst s -> Pst (eval_from I shuffle swap_oracle dyn St T D items sj reord k e s).
Proof.
  intros [n|]; [|intros items reord k e s Hk Hs; destruct items; cbn [eval_from]; apply items_P; auto].
  induction n as [|n IH]; intros items reord k e s Hk Hs.
  - destruct items; cbn [eval_from]; apply sj_P; auto.
  - destruct items as [|[r args cs idx ver|c|x g xs|o a bd r args idx] rest]; cbn [eval_from]; auto.
    + apply clause_P; auto.
    + destruct (vsat_cond I e c); auto.
    + destruct (veval_vars e xs); auto. apply fold_P; auto.
Qed.
End Gen.

(* ---------- the structural invariant ---------- *)
Variable dyn : list rel.
Variables St T D : rel -> list nat.
Variable R0 : rel -> list (vtuple V).
Hypothesis Hcov0 : forall r i, is_dyn dyn r = true -> i < length (R0 r) -> In i (T r) \/ In i (D r).

Record kinv (s : @istate V) : Prop := {
  ki_new : forall r i, In i (i_new s r) -> i < length (i_rows s r);
  ki_cov : forall r i, is_dyn dyn r = true -> i < length (i_rows s r) -> i < length (R0 r) \/ In i (i_new s r);
  ki_key : forall r, islat r = true -> NoDup (map tkey (i_rows s r));
  ki_sta : forall r, is_dyn dyn r = false -> i_rows s r = R0 r;
  ki_flag : i_changed s = false -> forall r, i_new s r = []
}.

Lemma kinv_tick : forall s, kinv s -> kinv (tick s).
Proof. intros s [H1 H2 H3 H4 H5]. constructor; auto. Qed.

Lemma kinv_push : forall s r t, kinv s -> is_dyn dyn r = true ->
  (islat r = true -> forall row, In row (i_rows s r) -> tkey row <> tkey t) -> kinv (push_row s r t).
Proof.
  intros s r t [H1 H2 H3 H4 H5] Hd Hkey. constructor; cbn [push_row i_rows i_new i_changed].
  - intros q i Hi. destruct (Nat.eq_dec q r) as [->|Hne].
    + rewrite upd_same in *. rewrite app_length. cbn. apply nadd_In in Hi. destruct Hi as [->|Hi]; [lia|]. pose proof (H1 r i Hi). lia.
    + rewrite upd_other in * by auto. apply H1; auto.
  - intros q i Hq Hi. destruct (Nat.eq_dec q r) as [->|Hne].
    + rewrite upd_same in *. rewrite app_length in Hi. cbn in Hi. rewrite nadd_In.
      destruct (Nat.eq_dec i (length (i_rows s r))) as [->|Hn]; [right; left; reflexivity|].
      destruct (H2 r i Hq) as [H|H]; [lia| |]; auto.
    + rewrite upd_other in * by auto. apply H2; auto.
  - intros q Hq. destruct (Nat.eq_dec q r) as [->|Hne].
    + rewrite upd_same. rewrite map_app. cbn. apply NoDup_app_intro_single; [apply H3; auto|].
      intros Hin. apply in_map_iff in Hin. destruct Hin as [row [Hk Hin]]. exact (Hkey Hq row Hin Hk).
    + rewrite upd_other by auto. apply H3; auto.
  - intros q Hq. assert (q <> r) by (intros ->; congruence). rewrite upd_other by auto. apply H4; auto.
  - discriminate.
Qed.

Lemma kinv_head : forall s f, kinv s -> is_dyn dyn (fst f) = true -> kinv (head_update I islat jm T D s f).
Proof.
  intros s [r t] Hs Hd. cbn [fst] in Hd. unfold head_update. cbn [fst snd]. destruct (islat r) eqn:Hl.
  - destruct (orelse (find_key I (i_rows s r) (tkey t) (i_new s r))
                     (orelse (find_key I (i_rows s r) (tkey t) (D r)) (find_key I (i_rows s r) (tkey t) (T r)))) as [i|] eqn:Ef.
    + assert (Hex : exists row, nth_error (i_rows s r) i = Some row /\ tkey row = tkey t).
      { apply orelse_some in Ef. destruct Ef as [Ef|[_ Ef]]; [apply (find_key_some I Heq) in Ef; tauto|].
        apply orelse_some in Ef. destruct Ef as [Ef|[_ Ef]]; apply (find_key_some I Heq) in Ef; tauto. }
      destruct Hex as [row [Hi Hk]]. rewrite Hi. pose proof (nth_error_In_lt _ _ _ _ Hi) as Hil.
      destruct (jm r (tval I row) (tval I t)) as [v' ch].
      assert (Hgen : forall N c, (forall q, q <> r -> N q = i_new s q) -> (forall j, In j (N r) -> j = i \/ In j (i_new s r)) ->
                (forall j, In j (i_new s r) -> In j (N r)) ->
                (c = true \/ (c = i_changed s /\ forall q, N q = i_new s q)) ->
                kinv {| i_rows := upd (i_rows s) r (set_nth i (tkey row ++ [v']) (i_rows s r)); i_new := N; i_changed := c; i_tick := i_tick s |}).
      { intros N c HN1 HN2 HN3 HN4. destruct Hs as [H1 H2 H3 H4 H5]. constructor; cbn [i_rows i_new i_changed].
        - intros q j Hj. destruct (Nat.eq_dec q r) as [->|Hne].
          + rewrite upd_same, set_nth_length. destruct (HN2 j Hj) as [->|H]; auto.
          + rewrite upd_other by auto. rewrite HN1 in Hj by auto. apply H1; auto.
        - intros q j Hq Hj. destruct (Nat.eq_dec q r) as [->|Hne].
          + rewrite upd_same, set_nth_length in Hj. destruct (H2 r j Hq Hj) as [H|H]; auto.
          + rewrite upd_other in Hj by auto. rewrite HN1 by auto. apply H2; auto.
        - intros q Hq. destruct (Nat.eq_dec q r) as [->|Hne].
          + rewrite upd_same, map_set_nth, tkey_app. rewrite set_nth_same; [apply H3; auto|]. apply map_nth_error. exact Hi.
          + rewrite upd_other by auto. apply H3; auto.
        - intros q Hq. assert (q <> r) by (intros ->; congruence). rewrite upd_other by auto. apply H4; auto.
        - intros Hc q. destruct HN4 as [->|[-> HN]]; [discriminate|]. rewrite HN. apply H5; auto. }
      destruct ch.
      * apply Hgen.
        -- intros q Hq. rewrite upd_other; auto.
        -- intros j Hj. rewrite upd_same in Hj. apply nadd_In in Hj. exact Hj.
        -- intros j Hj. rewrite upd_same. apply nadd_In. auto.
        -- left. reflexivity.
      * apply Hgen; auto.
    + apply orelse_none in Ef. destruct Ef as [E1 Ef]. apply orelse_none in Ef. destruct Ef as [E2 E3].
      apply kinv_push; auto. intros _ row Hin. apply In_nth_error in Hin. destruct Hin as [j Hj].
      pose proof (nth_error_In_lt _ _ _ _ Hj) as Hjl.
      destruct (ki_cov s Hs r j Hd Hjl) as [H|H].
      * destruct (Hcov0 r j Hd H) as [HT|HD].
        -- exact (find_key_none I Heq _ _ _ E3 j row HT Hj).
        -- exact (find_key_none I Heq _ _ _ E2 j row HD Hj).
      * exact (find_key_none I Heq _ _ _ E1 j row H Hj).
  - destruct (mem_row I (i_rows s r) t (T r) || mem_row I (i_rows s r) t (D r) || mem_row I (i_rows s r) t (i_new s r)); auto.
    apply kinv_push; auto. intros E. congruence.
Qed.

Lemma kinv_heads : forall hs (e : venv V) s, kinv s -> (forall h, In h hs -> is_dyn dyn (fst h) = true) -> kinv (heads_update I islat jm T D hs e s).
Proof.
  unfold heads_update. induction hs as [|h hs IH]; intros e s Hs Hd; cbn [fold_left]; auto.
  destruct (veval_head I e h) as [f|] eqn:Ef.
  - apply IH; [|intros h' Hh'; apply Hd; right; exact Hh']. apply kinv_head; auto.
    unfold veval_head in Ef. destruct (veval_terms I e (snd h)); [|discriminate]. injection Ef as <-. cbn. apply Hd. left. reflexivity.
  - apply IH; auto. intros h' Hh'. apply Hd. right. exact Hh'.
Qed.

Lemma kinv_variant : forall v s, kinv s -> (forall h, In h (v_heads v) -> is_dyn dyn (fst h) = true) ->
  kinv (eval_variant I islat jm shuffle swap_oracle dyn St T D s v).
Proof.
  intros v s Hs Hd. unfold eval_variant.
  destruct (Nat.ltb 1 (length (filter is_clause (v_items v))) &&
            negb match v_sj v with Some _ => Nat.eqb (length (filter is_clause (v_items v))) 2 | None => false end &&
            existsb (clause_empty dyn St T D) (v_items v)); auto.
  apply (from_P dyn St T D kinv kinv_tick); auto. intros e s1 H1. apply kinv_heads; auto.
Qed.
End Keys.

(* ---------- SCCs and the whole run ---------- *)
Section Run.
Context {V : Type}.
Variable I : linterp V.
Hypothesis Heq : veqb_ok I.
Variable islat : rel -> bool.
Variable jm : rel -> V -> V -> V * bool.
Variable shuffle : nat -> list nat -> list nat.
Variable swap_oracle : nat -> list nat -> list nat -> bool.
Variable arities : list (rel * nat).
Variable P : list rule.
Hypothesis Hnoagg : no_agg P = true.

Definition keys_ok (R : rel -> list (vtuple V)) : Prop := forall r, islat r = true -> NoDup (map tkey (R r)).

Section OneScc.
Variable sc : pscc.
Hypothesis Hok : scc_ok arities P sc = true.
Let dyn := s_dyn sc.

Lemma heads_dyn : forall v, In v (s_vars sc) -> forall h, In h (v_heads v) -> is_dyn dyn (fst h) = true.
Proof.
  intros v Hv h Hh.
  destruct (Strata.variant_ok_unpack arities P Hnoagg sc v (Strata.scc_ok_variant arities P sc Hok v Hv)) as [ru [Hru [_ [Hhd _]]]].
  apply (Strata.hr_dyn arities P sc Hok). unfold scc_head_rels. apply in_flat_map.
  exists (v_rule v). split; [apply Strata.variant_rule_in; exact Hv|]. rewrite Hru. unfold head_rels. apply in_map. rewrite <- Hhd. exact Hh.
Qed.

Lemma iteration_keys : forall St T D R tk, keys_ok R ->
  (forall r i, is_dyn dyn r = true -> i < length (R r) -> In i (T r) \/ In i (D r)) ->
  kinv islat dyn R (scc_iteration I islat jm shuffle swap_oracle dyn St T D sc R tk).
Proof.
  intros St T D R tk HK Hcov. unfold scc_iteration.
  assert (H0 : kinv islat dyn R {| i_rows := R; i_new := fun _ => []; i_changed := false; i_tick := tk |}).
  { constructor; cbn [i_rows i_new i_changed]; auto. intros r i []. }
  assert (Hgen : forall vars s, incl vars (s_vars sc) -> kinv islat dyn R s ->
            kinv islat dyn R (fold_left (eval_variant I islat jm shuffle swap_oracle dyn St T D) vars s)).
  { induction vars as [|v vars IH]; intros s Hincl Hs; cbn [fold_left]; auto.
    apply IH; [intros x Hx; apply Hincl; right; exact Hx|].
    apply (kinv_variant I Heq islat jm shuffle swap_oracle dyn St T D R Hcov); auto. apply heads_dyn. apply Hincl. left. reflexivity. }
  apply Hgen; auto. apply incl_refl.
Qed.

Lemma scc_loop_keys : forall fuel St T D R tk Tf Rf tkf, keys_ok R ->
  (forall r i, is_dyn dyn r = true -> i < length (R r) -> In i (T r) \/ In i (D r)) ->
  scc_loop I islat jm shuffle swap_oracle fuel sc St T D R tk = Some (Tf, Rf, tkf) ->
  keys_ok Rf /\ (forall r i, is_dyn dyn r = true -> i < length (Rf r) -> In i (Tf r))
  /\ (forall r, is_dyn dyn r = false -> Rf r = R r).
Proof.
  induction fuel as [|fuel IH]; intros St T D R tk Tf Rf tkf HK Hcov Hrun; [discriminate|].
  cbn [scc_loop] in Hrun. fold dyn in Hrun. pose proof (iteration_keys St T D R tk HK Hcov) as Hk.
  set (s := scc_iteration I islat jm shuffle swap_oracle dyn St T D sc R tk) in *.
  assert (Hcov' : forall r i, is_dyn dyn r = true -> i < length (i_rows s r) -> In i (merge T D r) \/ In i (i_new s r)).
  { intros r i Hr Hi. unfold merge. rewrite nunion_In. destruct (ki_cov _ _ _ _ Hk r i Hr Hi) as [H|H]; [left; apply Hcov; auto | right; exact H]. }
  destruct (i_changed s) eqn:Ech.
  - destruct (IH St (merge T D) (i_new s) (i_rows s) (i_tick s) Tf Rf tkf) as [H1 [H2 H3]]; auto.
    + exact (ki_key _ _ _ _ Hk).
    + split; [exact H1|]. split; [exact H2|]. intros r Hr. rewrite (H3 r Hr). apply (ki_sta _ _ _ _ Hk r Hr).
  - injection Hrun as <- <- <-. split; [exact (ki_key _ _ _ _ Hk)|]. split.
    + intros r i Hr Hi. destruct (Hcov' r i Hr Hi) as [H|H]; [exact H|]. rewrite (ki_flag _ _ _ _ Hk Ech r) in H. destruct H.
    + intros r Hr. apply (ki_sta _ _ _ _ Hk r Hr).
Qed.

Lemma run_scc_keys : forall fuel (st st' : @lstate V), keys_ok (l_rows st) ->
  (forall r i, i < length (l_rows st r) -> In i (l_stored st r)) ->
  run_scc I islat jm shuffle swap_oracle fuel sc st = Some st' ->
  keys_ok (l_rows st') /\ (forall r i, i < length (l_rows st' r) -> In i (l_stored st' r)).
Proof.
  intros fuel st st' HK Hst Hrun. unfold run_scc in Hrun. fold dyn in Hrun.
  assert (Hcov : forall r i, is_dyn dyn r = true -> i < length (l_rows st r) ->
            In i ((fun _ : rel => @nil nat) r) \/ In i ((fun r => if is_dyn dyn r then l_stored st r else []) r)).
  { intros r i Hr Hi. right. rewrite Hr. apply Hst; auto. }
  destruct (s_loop sc).
  - destruct (scc_loop I islat jm shuffle swap_oracle fuel sc (l_stored st) (fun _ => [])
               (fun r => if is_dyn dyn r then l_stored st r else []) (l_rows st) (l_tick st)) as [[[Tf Rf] tkf]|] eqn:El; [|discriminate].
    injection Hrun as <-. cbn [l_rows l_stored].
    destruct (scc_loop_keys fuel _ _ _ _ _ Tf Rf tkf HK Hcov El) as [H1 [H2 H3]].
    split; [exact H1|]. intros r i Hi. destruct (is_dyn dyn r) eqn:Hd; [apply H2; auto|]. rewrite (H3 r Hd) in Hi. apply Hst; auto.
  - injection Hrun as <-. cbn [l_rows l_stored].
    pose proof (iteration_keys (l_stored st) _ _ (l_rows st) (l_tick st) HK Hcov) as Hk.
    set (s := scc_iteration I islat jm shuffle swap_oracle dyn (l_stored st) (fun _ => [])
                (fun r => if is_dyn dyn r then l_stored st r else []) sc (l_rows st) (l_tick st)) in *.
    split; [exact (ki_key _ _ _ _ Hk)|]. intros r i Hi. destruct (is_dyn dyn r) eqn:Hd.
    + unfold merge. rewrite !nunion_In. destruct (ki_cov _ _ _ _ Hk r i Hd Hi) as [H|H]; [|right; exact H].
      left. right. rewrite Hd. apply Hst; auto.
    + rewrite (ki_sta _ _ _ _ Hk r Hd) in Hi. apply Hst; auto.
Qed.
End OneScc.

Variable pl : plan.
Hypothesis Hval : validate arities P pl = true.

Lemma run_sccs_keys : forall fuel rest pre st st', pl = pre ++ rest ->
  keys_ok (l_rows st) -> (forall r i, i < length (l_rows st r) -> In i (l_stored st r)) ->
  run_sccs I islat jm shuffle swap_oracle fuel rest st = Some st' -> keys_ok (l_rows st').
Proof.
  intros fuel. induction rest as [|sc rest IH]; intros pre st st' Hpl HK Hst Hrun.
  - cbn [run_sccs] in Hrun. injection Hrun as <-. exact HK.
  - cbn [run_sccs] in Hrun. destruct (run_scc I islat jm shuffle swap_oracle fuel sc st) as [st1|] eqn:H1; [|discriminate].
    assert (Hn : nth_error pl (length pre) = Some sc) by (rewrite Hpl, nth_error_app2, Nat.sub_diag; [reflexivity | lia]).
    destruct (run_scc_keys sc (SemiNaive.val_scc_ok arities P pl Hval _ sc Hn) fuel st st1 HK Hst H1) as [K1 K2].
    apply (IH (pre ++ [sc]) st1 st'); auto. rewrite <- app_assoc. exact Hpl.
Qed.

(* one row per key after the run, for every program accepted by the validator *)
Theorem lat_run_unique_key_all : forall fuel Rin st, keys_ok Rin ->
  run_plan I islat jm shuffle swap_oracle fuel pl Rin = Some st -> keys_ok (l_rows st).
Proof.
  intros fuel Rin st HK Hrun. unfold run_plan in Hrun.
  apply (run_sccs_keys fuel pl [] (update_indices Rin) st eq_refl); auto.
  intros r i Hi. cbn [update_indices l_rows l_stored] in *. apply in_seq. lia.
Qed.
End Run.
