(* C03 - the rule evaluator (nested index lookups threading the state) against the specification.

   A continuation k (the rest of the rule body, ending in the head update) is specified by [kspec]:
   started in environment e and state s satisfying the invariant, with
   - a COMPANION environment eJ above e over the closed directed set J (premise of the invariant part), and
   - optionally a TARGET environment et below e: a satisfying instance over the rows R0 at the start of the
     iteration, restricted to the versions the variant reads (premise of the coverage part),
   it preserves the invariant, only raises rows, and makes Q true (Q = the target's heads are below the state).
   Reads see the current value of a row, which is above the value in R0 and below J: monotonicity of the
   rule absorbs both gaps.  [clause_spec] is the one place where indices, versions, the validator's clause
   check and the state meet; items / simple join (both traversal orders) / prefix / variant follow. *)
From Coq Require Import List ZArith Bool Arith Lia.
From AV Require Import Engine.Core.
From AV Require Import Engine.Eval.
From AV Require Import Engine.Validate.
From AV Require Import Engine.Naive.
From AV Require Engine.EnvLemmas.
From AV Require Engine.EvalSpec.
From AV Require Import LatEngine.LatSyntax.
From AV Require Import LatEngine.LatEval.
From AV Require Import LatEngine.LatPlan.
From AV Require Import LatEngine.LatSem.
From AV Require Import LatEngine.LatEnv.
From AV Require Import LatEngine.LatClause.
From AV Require Import LatEngine.LatMono.
From AV Require Import LatEngine.LatBase.
From AV Require Import LatEngine.LatHead.
Import ListNotations.
Local Open Scope nat_scope.

Section Items.
Context {V : Type}.
Variable I : linterp V.
Hypothesis Heq : veqb_ok I.
Variable islat : rel -> bool.
Variable lle : rel -> V -> V -> Prop.
Variable jm : rel -> V -> V -> V * bool.
Hypothesis Hlaws : forall r, islat r = true -> lat_laws (lle r) (jm r).
Variable shuffle : nat -> list nat -> list nat.
Hypothesis Hshuf : forall n l x, In x (shuffle n l) <-> In x l.
Variable swap_oracle : nat -> list nat -> list nat -> bool.
Variable arities : list (rel * nat).
Hypothesis Hfun : arities_functional arities.
Hypothesis Hlat1 : forall r n, islat r = true -> arity_ok arities r n = true -> 0 < n.
Variable dyn : list rel.
Variables St T D : rel -> list nat.
Variable R0 : rel -> list (vtuple V).
Hypothesis HTD : forall r i, In i (T r) \/ In i (D r) -> i < length (R0 r).
Hypothesis Hcov0 : forall r i, is_dyn dyn r = true -> i < length (R0 r) -> In i (T r) \/ In i (D r).
Variable J : db (V:=V).
Hypothesis HJdir : directed I islat lle J.
Variable G : vorder (V:=V).

Notation tle := (tle I islat lle).
Notation below := (below I islat lle).
Notation rle := (rle I islat lle).
Notation sinv := (sinv I islat lle arities dyn R0).
Notation vrows := (vrows dyn St T D).

Definition inv (s : @istate V) : Prop := sinv s /\ allbelow I islat lle J (i_rows s).
Definition step_ok (s s' : @istate V) : Prop := inv s' /\ rle (i_rows s) (i_rows s').

Lemma step_ok_refl : forall s, inv s -> step_ok s s.
Proof. intros s H. split; auto. apply (sinv_rle_refl I islat lle arities dyn R0). apply H. Qed.

Lemma step_ok_trans : forall s1 s2 s3, step_ok s1 s2 -> step_ok s2 s3 -> step_ok s1 s3.
Proof. intros s1 s2 s3 [_ H1] [H2 H3]. split; auto. eapply (rle_trans I islat lle jm Hlaws); eauto. Qed.

Lemma inv_tick : forall s, inv s -> step_ok s (tick s).
Proof.
  intros s [Hs Hb]. split.
  - split; [|exact Hb]. destruct Hs. constructor; auto.
  - apply (sinv_rle_refl I islat lle arities dyn R0 s Hs).
Qed.

Lemma fold_step : forall (A : Type) (f : istate -> A -> istate) l s,
  (forall s1 a, In a l -> inv s1 -> step_ok s1 (f s1 a)) -> inv s -> step_ok s (fold_left f l s).
Proof.
  intros A f. induction l as [|a l IH]; intros s Hf Hs; cbn [fold_left].
  - apply step_ok_refl; auto.
  - assert (H1 : step_ok s (f s a)) by (apply Hf; [left; reflexivity | exact Hs]).
    eapply step_ok_trans; [exact H1|]. apply IH; [|apply H1]. intros s1 b Hb. apply Hf. right. exact Hb.
Qed.

Definition Qup (Q : @istate V -> Prop) : Prop := forall s s', Q s -> step_ok s s' -> Q s'.

Definition kspec (k : venv V -> @istate V -> @istate V) (Pe CJ Tg : venv V -> Prop) (Q : @istate V -> Prop) : Prop :=
  forall e s, Pe e -> inv s ->
    (exists eJ, ele G e eJ /\ vcanon eJ /\ CJ eJ) ->
    step_ok s (k e s) /\ ((exists et, ele G et e /\ vcanon et /\ Tg et) -> Q (k e s)).

Lemma kspec_weaken : forall k (Pe Pe' CJ CJ' Tg Tg' : venv V -> Prop) Q,
  kspec k Pe' CJ' Tg' Q ->
  (forall e, Pe e -> Pe' e) ->
  (forall e eJ, Pe e -> ele G e eJ -> vcanon eJ -> CJ eJ -> CJ' eJ) ->
  (forall e et, Pe e -> ele G et e -> vcanon et -> Tg et -> Tg' et) ->
  kspec k Pe CJ Tg Q.
Proof.
  intros k Pe Pe' CJ CJ' Tg Tg' Q Hk H1 H2 H3 e s Hpe Hinv [eJ [Hle [Hc HC]]].
  destruct (Hk e s (H1 e Hpe) Hinv) as [K1 K2]; [exists eJ; eauto|]. split; auto.
  intros [et [Hle' [Hc' HT]]]. apply K2. exists et. eauto.
Qed.

(* ---------- one clause ---------- *)
Lemma ele_bound_rev : forall (e e' : venv V) B, ele G e e' -> vdom e' B -> vdom e B.
Proof. intros e e' B H Hd x. rewrite (ele_bound G e e' x H). apply Hd. Qed.

Lemma lat_fresh : forall B r args cs idx B1 (e : venv V) (t : vtuple V),
  check_clause arities B r args cs idx = Some B1 ->
  (islat r = true -> forallb (fun i => Nat.ltb (S i) (length args)) idx = true) ->
  vdom e B ->
  islat r = true -> forall kargs x em, args = kargs ++ [TVar x] -> vmatch_args I e kargs (tkey t) = Some em -> vlookup em x = None.
Proof.
  intros B r args cs idx B1 e t Hck Hix Hd Hl kargs x em -> Hm.
  destruct (EvalSpec.check_clause_ok arities _ _ _ _ _ _ Hck) as [_ [nv [Hx _]]].
  eapply (fresh_last I Heq); eauto. intros Hin. specialize (Hix Hl). rewrite forallb_forall in Hix.
  specialize (Hix _ Hin). apply Nat.ltb_lt in Hix. rewrite app_length in Hix. cbn in Hix. lia.
Qed.

Lemma clause_filter : forall B r args cs idx B1 (e : venv V) (row : vtuple V) key,
  check_clause arities B r args cs idx = Some B1 -> vdom e B -> length args = length row ->
  veval_key I e args idx = Some key ->
  vmatch_args I e args row = if vlist_eqb I (vproj I idx row) key then Some (vbind_new e args row) else None.
Proof.
  intros B r args cs idx B1 e row key Hck Hd Hl Hk.
  destruct (EvalSpec.check_clause_ok arities _ _ _ _ _ _ Hck) as [_ [nv [Hx _]]].
  destruct (vclause_key I Heq B args row [] e e idx nv Hx Hd (fun _ _ => eq_refl) Hl) as [key' [K1 [K2 _]]].
  rewrite Hk in K1. injection K1 as <-. rewrite vmatch_args_chk, K2. reflexivity.
Qed.

Lemma clause_key_some : forall B r args cs idx B1 (e : venv V) (row : vtuple V),
  check_clause arities B r args cs idx = Some B1 -> vdom e B -> length args = length row ->
  exists key, veval_key I e args idx = Some key.
Proof.
  intros B r args cs idx B1 e row Hck Hd Hl.
  destruct (EvalSpec.check_clause_ok arities _ _ _ _ _ _ Hck) as [_ [nv [Hx _]]].
  destruct (vclause_key I Heq B args row [] e e idx nv Hx Hd (fun _ _ => eq_refl) Hl) as [key' [K1 _]]. eauto.
Qed.

Lemma clause_arity : forall B r args cs idx B1, check_clause arities B r args cs idx = Some B1 -> arity_ok arities r (length args) = true.
Proof. intros B r args cs idx B1 H. apply (EvalSpec.check_clause_ok arities _ _ _ _ _ _ H). Qed.

(* the environment above: a row read from the state has a tuple of J above it *)
Lemma companion_step : forall B r args cs idx B1 (e eJ e1 e2 : venv V) (row : vtuple V),
  check_clause arities B r args cs idx = Some B1 ->
  (islat r = true -> forallb (fun i => Nat.ltb (S i) (length args)) idx = true) ->
  mono_clause islat lle G r args -> Forall (mono_cond I G) cs ->
  vdom e B -> ele G e eJ -> vcanon eJ ->
  below J (r, row) ->
  vmatch_args I e args row = Some e1 -> vsat_conds I e1 cs = Some e2 ->
  exists tJ eJ1 eJ2, J r tJ /\ vmatch_args I eJ args tJ = Some eJ1 /\ vsat_conds I eJ1 cs = Some eJ2 /\ ele G e2 eJ2 /\ vcanon eJ2.
Proof.
  intros B r args cs idx B1 e eJ e1 e2 row Hck Hix Hmc Hmcs Hd Hle HcJ [tJ [HJ Ht]] Hm Hs. cbn [fst snd] in *.
  destruct (match_mono I islat lle G r args row tJ e eJ e1 Hmc Hle Ht) as [eJ1 [HmJ Hle1]]; auto.
  { intros Hl. eapply lat_fresh; eauto. }
  destruct (conds_mono I G cs e1 eJ1 e2 Hmcs Hle1 Hs) as [eJ2 [HsJ Hle2]].
  exists tJ, eJ1, eJ2. repeat split; auto.
  pose proof (EvalSpec.check_clause_clause_ok arities _ _ _ _ _ _ Hck) as Hok.
  destruct (vclause_sound I Heq B B1 args cs tJ eJ eJ1 eJ2 Hok (ele_dom G e eJ B Hle Hd) HcJ HmJ HsJ) as [_ [_ [_ Hc]]]. exact Hc.
Qed.

Lemma clause_spec : forall B B1 r args cs idx ver k (Pe Pe' CJ' Tg' : venv V -> Prop) Q,
  check_clause arities B r args cs idx = Some B1 ->
  (islat r = true -> forallb (fun i => Nat.ltb (S i) (length args)) idx = true) ->
  mono_clause islat lle G r args -> Forall (mono_cond I G) cs ->
  (forall e, Pe e -> vdom e B /\ vcanon e) ->
  (forall e row e1 e2, Pe e -> vmatch_args I e args row = Some e1 -> vsat_conds I e1 cs = Some e2 -> Pe' e2) ->
  Qup Q ->
  kspec k Pe' CJ' Tg' Q ->
  kspec (fun e s => eval_clause I shuffle dyn St T D k e r args cs idx ver s) Pe
        (fun eJ => forall tJ eJ1 eJ2, J r tJ -> vmatch_args I eJ args tJ = Some eJ1 -> vsat_conds I eJ1 cs = Some eJ2 -> CJ' eJ2)
        (fun et => exists i t et1 et2, In i (vrows r ver) /\ nth_error (R0 r) i = Some t /\
                                       vmatch_args I et args t = Some et1 /\ vsat_conds I et1 cs = Some et2 /\ Tg' et2)
        Q.
Proof.
  intros B B1 r args cs idx ver k Pe Pe' CJ' Tg' Q Hck Hix Hmc Hmcs HPe Htr HQ Hk e s Hpe Hinv [eJ [Hle [HcJ HCJ]]].
  destruct (HPe e Hpe) as [Hd Hc].
  pose proof (clause_arity _ _ _ _ _ _ Hck) as Har.
  pose proof (EvalSpec.check_clause_clause_ok arities _ _ _ _ _ _ Hck) as Hok.
  unfold eval_clause.
  destruct (veval_key I e args idx) as [key|] eqn:Ek.
  2:{ split; [apply step_ok_refl; auto|]. intros [et [Hle' [Hc' [i [t [et1 [et2 [_ [_ [Hm _]]]]]]]]]]. exfalso.
      destruct (clause_key_some B r args cs idx B1 e t Hck Hd (vmatch_args_length I _ _ _ _ Hm)) as [key Hk']. congruence. }
  (* one step of the loop *)
  assert (Hstep : forall s1 i, inv s1 -> step_ok s1 (clause_step I k e r args cs idx key s1 i)).
  { intros s1 i Hi1. unfold clause_step. destruct (nth_error (i_rows s1 r) i) as [row|] eqn:En; [|apply step_ok_refl; auto].
    assert (Hin : In row (i_rows s1 r)) by (eapply nth_error_In; eauto).
    assert (Hl : length args = length row) by (symmetry; eapply (si_ar _ _ _ _ _ _ s1 (proj1 Hi1)); eauto).
    pose proof (clause_filter B r args cs idx B1 e row key Hck Hd Hl Ek) as Hf.
    destruct (vlist_eqb I (vproj I idx row) key); [|apply step_ok_refl; auto].
    destruct (vsat_conds I (vbind_new e args row) cs) as [e2|] eqn:Es; [|apply step_ok_refl; auto].
    destruct (companion_step B r args cs idx B1 e eJ _ e2 row Hck Hix Hmc Hmcs Hd Hle HcJ (proj2 Hi1 r row Hin) Hf Es)
      as [tJ [eJ1 [eJ2 [HJ [HmJ [HsJ [Hle2 Hc2]]]]]]].
    apply (Hk e2 s1 (Htr e row _ e2 Hpe Hf Es) Hi1). exists eJ2. repeat split; auto. eapply HCJ; eauto. }
  pose proof (inv_tick s Hinv) as Htick.
  split.
  - eapply step_ok_trans; [exact Htick|]. apply fold_step; [|apply Htick]. intros s1 i _ H1. apply Hstep; auto.
  - intros [et [Hle' [Hc' [i [t [et1 [et2 [Hi [Ht [Hm [Hs HT]]]]]]]]]]].
    assert (Hil : In i (shuffle (i_tick s) (vrows r ver))) by (apply Hshuf; exact Hi).
    apply in_split in Hil. destruct Hil as [l1 [l2 El]]. rewrite El, fold_left_app. cbn [fold_left].
    set (sa := fold_left (clause_step I k e r args cs idx key) l1 (tick s)).
    assert (Hsa : step_ok (tick s) sa).
    { apply fold_step; [|apply Htick]. intros s1 j _ H1. apply Hstep; auto. }
    destruct Hsa as [Hia _].
    (* the row read now is above the row of the snapshot *)
    destruct (si_rle _ _ _ _ _ _ sa (proj1 Hia) r i t Ht) as [row [En Htle]].
    assert (Hin : In row (i_rows sa r)) by (eapply nth_error_In; eauto).
    assert (Hl : length args = length row) by (symmetry; eapply (si_ar _ _ _ _ _ _ sa (proj1 Hia)); eauto).
    pose proof (ele_bound_rev et e B Hle' Hd) as Hdt.
    destruct (match_mono I islat lle G r args t row et e et1 Hmc Hle' Htle) as [e1 [Hm1 Hle1]]; auto.
    { intros Hl'. eapply lat_fresh; eauto. }
    destruct (conds_mono I G cs et1 e1 et2 Hmcs Hle1 Hs) as [e2 [Hs2 Hle2]].
    pose proof (clause_filter B r args cs idx B1 e row key Hck Hd Hl Ek) as Hf. rewrite Hm1 in Hf.
    assert (Hstp : clause_step I k e r args cs idx key sa i = k e2 sa).
    { unfold clause_step. rewrite En. destruct (vlist_eqb I (vproj I idx row) key); [|discriminate]. injection Hf as ->. rewrite Hs2. reflexivity. }
    assert (Hf' : vmatch_args I e args row = Some e1) by exact Hm1.
    destruct (companion_step B r args cs idx B1 e eJ e1 e2 row Hck Hix Hmc Hmcs Hd Hle HcJ (proj2 Hia r row Hin) Hf' Hs2)
      as [tJ [eJ1 [eJ2 [HJ [HmJ [HsJ [HleJ Hc2]]]]]]].
    destruct (Hk e2 sa (Htr e row e1 e2 Hpe Hf' Hs2) Hia) as [K1 K2]; [exists eJ2; repeat split; auto; eapply HCJ; eauto|].
    rewrite Hstp.
    assert (HQb : Q (k e2 sa)).
    { apply K2. exists et2. split; [exact Hle2|]. split; [|exact HT].
      destruct (vclause_sound I Heq B B1 args cs t et et1 et2 Hok Hdt Hc' Hm Hs) as [_ [_ [_ Hc2']]]. exact Hc2'. }
    eapply HQ; [exact HQb|]. apply fold_step; [|apply K1]. intros s1 j _ H1. apply Hstep; auto.
Qed.

(* ---------- conditions and generators ---------- *)
Definition envok (B : list var) (e : venv V) : Prop := vdom e B /\ vcanon e.

Lemma cond_spec : forall B B1 c k (CJ' Tg' : venv V -> Prop) Q,
  check_cond B c = Some B1 -> mono_cond I G c ->
  kspec k (envok B1) CJ' Tg' Q ->
  kspec (fun e s => match vsat_cond I e c with Some e' => k e' s | None => s end) (envok B)
        (fun eJ => forall eJ1, vsat_cond I eJ c = Some eJ1 -> CJ' eJ1)
        (fun et => exists et1, vsat_cond I et c = Some et1 /\ Tg' et1)
        Q.
Proof.
  intros B B1 c k CJ' Tg' Q Hck Hm Hk e s [Hd Hc] Hinv [eJ [Hle [HcJ HCJ]]].
  destruct (vsat_cond I e c) as [e'|] eqn:Es.
  - destruct (vsat_cond_sound I e B B1 c e' Hd Hc Hck Es) as [_ [_ [Hd' Hc']]].
    destruct (Hm e eJ e' Hle Es) as [eJ' [EsJ Hle']].
    destruct (vsat_cond_sound I eJ B B1 c eJ' (ele_dom G e eJ B Hle Hd) HcJ Hck EsJ) as [_ [_ [_ HcJ']]].
    destruct (Hk e' s (conj Hd' Hc') Hinv) as [K1 K2]; [exists eJ'; auto|]. split; auto.
    intros [et [Hlt [Hct [et1 [Et HT]]]]]. apply K2.
    destruct (Hm et e et1 Hlt Et) as [e1 [Es1 Hle1]]. assert (e1 = e') by congruence. subst e1.
    exists et1. split; auto. split; auto.
    destruct (vsat_cond_sound I et B B1 c et1 (ele_bound_rev et e B Hlt Hd) Hct Hck Et) as [_ [_ [_ H]]]. exact H.
  - split; [apply step_ok_refl; auto|]. intros [et [Hlt [Hct [et1 [Et HT]]]]]. exfalso.
    destruct (Hm et e et1 Hlt Et) as [e1 [Es1 _]]. congruence.
Qed.

Lemma gen_spec : forall B x g xs k (CJ' Tg' : venv V -> Prop) Q,
  subv xs B = true -> memv x B = false -> mono_gen I G x g xs -> Qup Q ->
  kspec k (envok (x :: B)) CJ' Tg' Q ->
  kspec (fun e s => match veval_vars e xs with
                    | Some vs => fold_left (fun s v => k (vbind x v e) s) (vgen I g vs) s
                    | None => s end) (envok B)
        (fun eJ => forall vs v, veval_vars eJ xs = Some vs -> In v (vgen I g vs) -> CJ' (vbind x v eJ))
        (fun et => exists vs v, veval_vars et xs = Some vs /\ In v (vgen I g vs) /\ Tg' (vbind x v et))
        Q.
Proof.
  intros B x g xs k CJ' Tg' Q Hxs Hx Hm HQ Hk e s [Hd Hc] Hinv [eJ [Hle [HcJ HCJ]]].
  destruct (veval_vars e xs) as [vs|] eqn:Ev.
  2:{ split; [apply step_ok_refl; auto|]. intros [et [Hlt [Hct [vs [v [Ev' _]]]]]]. exfalso.
      destruct (veval_vars_defined e B xs Hd Hxs) as [vs' Hvs]. congruence. }
  assert (Hstep : forall s1 v, In v (vgen I g vs) -> inv s1 -> step_ok s1 (k (vbind x v e) s1)).
  { intros s1 v Hv H1. destruct (Hm e eJ vs v Hle Ev Hv) as [vsJ [vJ [EvJ [HvJ Hg]]]].
    apply (Hk (vbind x v e) s1); auto.
    - split; [apply vdom_bind; auto | apply vcanon_bind; auto].
    - exists (vbind x vJ eJ). split; [apply ele_bind; auto|]. split; [apply vcanon_bind; auto|]. eapply HCJ; eauto. }
  split.
  - apply fold_step; auto.
  - intros [et [Hlt [Hct [vst [vt [Evt [Hvt HT]]]]]]].
    destruct (Hm et e vst vt Hlt Evt Hvt) as [vs' [v [Ev' [Hv Hg]]]]. assert (vs' = vs) by congruence. subst vs'.
    apply in_split in Hv. destruct Hv as [l1 [l2 El]]. rewrite El, fold_left_app. cbn [fold_left].
    set (sa := fold_left (fun s v => k (vbind x v e) s) l1 s).
    assert (Hsa : step_ok s sa).
    { apply fold_step; auto. intros s1 v' Hv' H1. apply Hstep; auto. rewrite El. apply in_or_app. left. exact Hv'. }
    assert (Hvin : In v (vgen I g vs)) by (rewrite El; apply in_or_app; right; left; reflexivity).
    destruct (Hm e eJ vs v Hle Ev Hvin) as [vsJ [vJ [EvJ [HvJ HgJ]]]].
    destruct (Hk (vbind x v e) sa) as [K1 K2].
    + split; [apply vdom_bind; auto | apply vcanon_bind; auto].
    + apply Hsa.
    + exists (vbind x vJ eJ). split; [apply ele_bind; auto|]. split; [apply vcanon_bind; auto|]. eapply HCJ; eauto.
    + assert (HQb : Q (k (vbind x v e) sa)).
      { apply K2. exists (vbind x vt et). split; [apply ele_bind; auto|]. split; [apply vcanon_bind; auto | exact HT]. }
      eapply HQ; [exact HQb|]. apply fold_step; [|apply K1]. intros s1 v' Hv' H1. apply Hstep; auto.
      rewrite El. apply in_or_app. right. right. exact Hv'.
Qed.

(* ---------- item lists ---------- *)
Inductive satv : list pitem -> venv V -> venv V -> Prop :=
| satv_nil : forall e, satv [] e e
| satv_clause : forall r args cs idx ver rest e i t e1 e2 e3,
    In i (vrows r ver) -> nth_error (R0 r) i = Some t ->
    vmatch_args I e args t = Some e1 -> vsat_conds I e1 cs = Some e2 -> satv rest e2 e3 ->
    satv (PClause r args cs idx ver :: rest) e e3
| satv_cond : forall c rest e e1 e2, vsat_cond I e c = Some e1 -> satv rest e1 e2 -> satv (PCond c :: rest) e e2
| satv_gen : forall x g xs rest e vs v e2,
    veval_vars e xs = Some vs -> In v (vgen I g vs) -> satv rest (vbind x v e) e2 -> satv (PGen x g xs :: rest) e e2.

Definition wpJ (items : list bitem) (CJ' : venv V -> Prop) : venv V -> Prop :=
  fun eJ => forall eJ1, sat I J items eJ eJ1 -> CJ' eJ1.
Definition exT (items : list pitem) (Tg' : venv V -> Prop) : venv V -> Prop :=
  fun et => exists et1, satv items et et1 /\ Tg' et1.

Lemma items_spec : forall items B B' k (CJ' Tg' : venv V -> Prop) Q,
  check_items arities B items = Some B' -> forallb (lat_item_ok islat) items = true ->
  Forall (mono_item I islat lle G) (map item_of items) -> Qup Q ->
  kspec k (envok B') CJ' Tg' Q ->
  kspec (eval_items I shuffle dyn St T D items k) (envok B) (wpJ (map item_of items) CJ') (exT items Tg') Q.
Proof.
  induction items as [|p rest IH]; intros B B' k CJ' Tg' Q Hck Hlat Hmono HQ Hk.
  - cbn in Hck. injection Hck as <-. cbn [eval_items map].
    eapply kspec_weaken; [exact Hk | auto | |].
    + intros e eJ _ _ _ H. apply H. constructor.
    + intros e et _ _ _ [et1 [H HT]]. inversion H; subst. exact HT.
  - cbn [forallb] in Hlat. apply andb_true_iff in Hlat. destruct Hlat as [Hl1 Hlat].
    cbn [map] in Hmono. inversion Hmono as [|? ? Hm1 Hmr]; subst.
    destruct p as [r args cs idx ver|c|x g xs|o a bd r args idx]; cbn [check_items] in Hck; cbn [item_of] in Hm1; cbn [mono_item] in Hm1.
    + destruct (check_clause arities B r args cs idx) as [B1|] eqn:Ec; [|discriminate].
      destruct Hm1 as [Hmc Hmcs]. cbn [lat_item_ok] in Hl1.
      pose proof (IH B1 B' k CJ' Tg' Q Hck Hlat Hmr HQ Hk) as IHk.
      pose proof (clause_spec B B1 r args cs idx ver (eval_items I shuffle dyn St T D rest k) (envok B) (envok B1) (wpJ (map item_of rest) CJ') (exT rest Tg') Q Ec) as Hcs.
      assert (Hcs' : kspec (fun e s => eval_clause I shuffle dyn St T D (eval_items I shuffle dyn St T D rest k) e r args cs idx ver s) (envok B)
                (fun eJ => forall tJ eJ1 eJ2, J r tJ -> vmatch_args I eJ args tJ = Some eJ1 -> vsat_conds I eJ1 cs = Some eJ2 -> wpJ (map item_of rest) CJ' eJ2)
                (fun et => exists i t et1 et2, In i (vrows r ver) /\ nth_error (R0 r) i = Some t /\
                                               vmatch_args I et args t = Some et1 /\ vsat_conds I et1 cs = Some et2 /\ exT rest Tg' et2) Q).
      { apply Hcs; auto.
        - intros Hl. rewrite Hl in Hl1. exact Hl1.
        - intros e row e1 e2 [Hd Hc] Hm Hs.
          destruct (vclause_sound I Heq B B1 args cs row e e1 e2 (EvalSpec.check_clause_clause_ok arities _ _ _ _ _ _ Ec) Hd Hc Hm Hs) as [_ [_ [Hd2 Hc2]]].
          split; auto. }
      eapply kspec_weaken; [exact Hcs' | auto | |].
      * intros e eJ _ _ _ H tJ eJ1 eJ2 HJ HmJ HsJ eJ3 Hsat. apply H. cbn [map item_of]. econstructor; eauto.
      * intros e et _ _ _ [et3 [H HT]]. inversion H; subst. exists i, t, e1, e2. repeat split; auto. exists et3. auto.
    + destruct (check_cond B c) as [B1|] eqn:Ec; [|discriminate].
      pose proof (IH B1 B' k CJ' Tg' Q Hck Hlat Hmr HQ Hk) as IHk.
      pose proof (cond_spec B B1 c (eval_items I shuffle dyn St T D rest k) (wpJ (map item_of rest) CJ') (exT rest Tg') Q Ec Hm1 IHk) as Hcs.
      eapply kspec_weaken; [exact Hcs | auto | |].
      * intros e eJ _ _ _ H eJ1 Es eJ2 Hsat. apply H. cbn [map item_of]. econstructor; eauto.
      * intros e et _ _ _ [et2 [H HT]]. inversion H; subst. exists e1. split; auto. exists et2. auto.
    + destruct (subv xs B && negb (memv x B)) eqn:Eb; [|discriminate]. apply andb_true_iff in Eb. destruct Eb as [Exs Ex].
      apply negb_true_iff in Ex.
      pose proof (IH (x :: B) B' k CJ' Tg' Q Hck Hlat Hmr HQ Hk) as IHk.
      pose proof (gen_spec B x g xs (eval_items I shuffle dyn St T D rest k) (wpJ (map item_of rest) CJ') (exT rest Tg') Q Exs Ex Hm1 HQ IHk) as Hcs.
      eapply kspec_weaken; [exact Hcs | auto | |].
      * intros e eJ _ _ _ H vs v Ev Hv eJ2 Hsat. apply H. cbn [map item_of]. econstructor; eauto.
      * intros e et _ _ _ [et2 [H HT]]. inversion H; subst. exists vs, v. repeat split; auto. exists et2. auto.
    + discriminate.
Qed.

(* ---------- simple join, both traversal orders ---------- *)
Lemma csj_unpack : forall B r1 a1 c1 i1 v1 r2 a2 c2 i2 v2 rest reord B',
  check_simple_join arities B (PClause r1 a1 c1 i1 v1 :: PClause r2 a2 c2 i2 v2 :: rest) reord = Some B' ->
  exists B1 B2, check_clause arities B r1 a1 c1 [] = Some B1 /\ check_clause arities B1 r2 a2 c2 i2 = Some B2 /\
                check_items arities B2 rest = Some B' /\
                (reord = true -> exists C1 C2, check_clause arities B r2 a2 c2 [] = Some C1 /\ check_clause arities C1 r1 a1 c1 i1 = Some C2).
Proof.
  intros B r1 a1 c1 i1 v1 r2 a2 c2 i2 v2 rest reord B' H. cbn [check_simple_join] in H.
  destruct (check_clause arities B r1 a1 c1 []) as [B1|] eqn:E1; [|discriminate].
  destruct (check_clause arities B1 r2 a2 c2 i2) as [B2|] eqn:E2; [|discriminate].
  exists B1, B2. split; auto. split; auto.
  destruct reord.
  - destruct (check_clause arities B r2 a2 c2 []) as [C1|] eqn:E3; [|discriminate].
    destruct (check_clause arities C1 r1 a1 c1 i1) as [C2|] eqn:E4; [|discriminate].
    split; auto. intros _. exists C1, C2. auto.
  - split; auto. discriminate.
Qed.

Lemma satv_idx : forall r args cs idx idx' ver rest (e e' : venv V),
  satv (PClause r args cs idx ver :: rest) e e' -> satv (PClause r args cs idx' ver :: rest) e e'.
Proof. intros r args cs idx idx' ver rest e e' H. inversion H; subst. econstructor; eauto. Qed.

Lemma sj_spec : forall r1 a1 c1 i1 v1 r2 a2 c2 i2 v2 rest reord B B' k (CJ' Tg' : venv V -> Prop) Q,
  let items := PClause r1 a1 c1 i1 v1 :: PClause r2 a2 c2 i2 v2 :: rest in
  check_simple_join arities B items reord = Some B' -> forallb (lat_item_ok islat) items = true ->
  Forall (mono_item I islat lle G) (map item_of items) -> Qup Q ->
  kspec k (envok B') CJ' Tg' Q ->
  kspec (eval_simple_join I shuffle swap_oracle dyn St T D items reord k) (envok B) (wpJ (map item_of items) CJ') (exT items Tg') Q.
Proof.
  intros r1 a1 c1 i1 v1 r2 a2 c2 i2 v2 rest reord B B' k CJ' Tg' Q items Hck Hlat Hmono HQ Hk.
  destruct (csj_unpack _ _ _ _ _ _ _ _ _ _ _ _ _ _ Hck) as [B1 [B2 [E1 [E2 [E3 Hsw]]]]].
  pose proof Hlat as Hlat'. unfold items in Hlat'. cbn [forallb] in Hlat'.
  apply andb_true_iff in Hlat'. destruct Hlat' as [L1 Hlat']. apply andb_true_iff in Hlat'. destruct Hlat' as [L2 L3].
  pose proof Hmono as Hmono'. unfold items in Hmono'. cbn [map] in Hmono'.
  inversion Hmono' as [|? ? M1 Hm']; subst. inversion Hm' as [|? ? M2 M3]; subst.
  cbn [item_of mono_item] in M1, M2. destruct M1 as [M1a M1b]. destruct M2 as [M2a M2b].
  (* written order = eval_items on the list whose first clause is scanned completely *)
  assert (Hw : kspec (eval_items I shuffle dyn St T D (PClause r1 a1 c1 [] v1 :: PClause r2 a2 c2 i2 v2 :: rest) k)
                     (envok B) (wpJ (map item_of items) CJ') (exT items Tg') Q).
  { eapply kspec_weaken.
    - apply (items_spec (PClause r1 a1 c1 [] v1 :: PClause r2 a2 c2 i2 v2 :: rest) B B' k CJ' Tg' Q); auto.
      + cbn [check_items]. rewrite E1, E2. exact E3.
      + cbn [forallb]. rewrite L2, L3. cbn [lat_item_ok forallb]. rewrite orb_true_r. reflexivity.
    - auto.
    - intros e eJ _ _ _ H. exact H.
    - intros e et _ _ _ [et1 [H HT]]. exists et1. split; auto. eapply satv_idx; eauto. }
  intros e s Hpe Hinv Hcomp. unfold eval_simple_join. unfold items. cbn [eval_simple_join].
  destruct (reord && negb (swap_oracle (i_tick s) (vrows r1 v1) (vrows r2 v2))) eqn:Esw.
  2:{ exact (Hw e s Hpe Hinv Hcomp). }
  apply andb_true_iff in Esw. destruct Esw as [Er _]. destruct (Hsw Er) as [C1 [C2 [E4 E5]]].
  pose proof (EvalSpec.check_clause_clause_ok arities _ _ _ _ _ _ E1) as K1.
  pose proof (EvalSpec.check_clause_clause_ok arities _ _ _ _ _ _ E2) as K2.
  pose proof (EvalSpec.check_clause_clause_ok arities _ _ _ _ _ _ E4) as K3.
  pose proof (EvalSpec.check_clause_clause_ok arities _ _ _ _ _ _ E5) as K4.
  pose proof (items_spec rest B2 B' k CJ' Tg' Q E3 L3 M3 HQ Hk) as Hrest.
  set (Pmid := fun e1 : venv V => exists e0 row2 e1', envok B e0 /\ vmatch_args I e0 a2 row2 = Some e1' /\ vsat_conds I e1' c2 = Some e1).
  (* inner clause (the first one of the rule, looked up by its index) *)
  set (CJin := fun eJ : venv V => forall tJ eJ1 eJ2, J r1 tJ -> vmatch_args I eJ a1 tJ = Some eJ1 -> vsat_conds I eJ1 c1 = Some eJ2 -> wpJ (map item_of rest) CJ' eJ2).
  set (Tgin := fun et : venv V => exists i t et1 et2, In i (vrows r1 v1) /\ nth_error (R0 r1) i = Some t /\
                                                 vmatch_args I et a1 t = Some et1 /\ vsat_conds I et1 c1 = Some et2 /\ exT rest Tg' et2).
  assert (Hin : kspec (fun e1 s1 => eval_clause I shuffle dyn St T D (eval_items I shuffle dyn St T D rest k) e1 r1 a1 c1 i1 v1 s1) Pmid CJin Tgin Q).
  { apply (clause_spec C1 C2 r1 a1 c1 i1 v1 (eval_items I shuffle dyn St T D rest k) Pmid (envok B2)); auto.
    - intros Hl. cbn [lat_item_ok] in L1. rewrite Hl in L1. exact L1.
    - intros e1 [e0 [row2 [e1' [[Hd0 Hc0] [Hm Hs]]]]].
      destruct (vclause_sound I Heq B C1 a2 c2 row2 e0 e1' e1 K3 Hd0 Hc0 Hm Hs) as [_ [_ [Hd1 Hc1]]]. split; auto.
    - intros e1 row1 e1'' e2 [e0 [row2 [e1' [[Hd0 Hc0] [Hm Hs]]]]] Hm1 Hs1.
      assert (Hr : vrun2 I e0 a2 row2 c2 a1 row1 c1 e2) by (exists e1', e1, e1''; auto).
      pose proof (vrun2_swap I Heq B C1 C2 B1 B2 a2 row2 c2 a1 row1 c1 e0 e2 K3 K4 K1 K2 Hd0 Hc0 Hr) as Hr'.
      destruct (vrun2_sound I Heq B B1 B2 a1 row1 c1 a2 row2 c2 e0 e2 K1 K2 Hd0 Hc0 Hr') as [_ [_ [_ [Hd2 Hc2]]]]. split; auto. }
  (* outer clause (the second one of the rule, scanned completely) *)
  assert (Hout : kspec (fun e0 s0 => eval_clause I shuffle dyn St T D
                          (fun e1 s1 => eval_clause I shuffle dyn St T D (eval_items I shuffle dyn St T D rest k) e1 r1 a1 c1 i1 v1 s1) e0 r2 a2 c2 [] v2 s0)
                  (envok B) (wpJ (map item_of items) CJ') (exT items Tg') Q).
  { eapply kspec_weaken.
    - apply (clause_spec B C1 r2 a2 c2 [] v2 _ (envok B) Pmid CJin Tgin Q E4); auto.
      intros e0 row2 e1' e1 Hok Hm Hs. exists e0, row2, e1'. auto.
    - auto.
    - intros e0 eJ [Hd0 Hc0] Hle HcJ H tJ2 eJ1 eJ2 HJ2 Hm2 Hs2 tJ1 eJ3 eJ4 HJ1 Hm1 Hs1 eJ5 Hsat.
      assert (Hr : vrun2 I eJ a2 tJ2 c2 a1 tJ1 c1 eJ4) by (exists eJ1, eJ2, eJ3; auto).
      pose proof (vrun2_swap I Heq B C1 C2 B1 B2 a2 tJ2 c2 a1 tJ1 c1 eJ eJ4 K3 K4 K1 K2 (ele_dom G e0 eJ B Hle Hd0) HcJ Hr) as [x1 [x2 [x3 [A1 [A2 [A3 A4]]]]]].
      apply H. unfold items. cbn [map item_of]. econstructor; eauto. econstructor; eauto.
    - intros e0 et [Hd0 Hc0] Hle Hct [et5 [H HT]]. unfold items in H. inversion H; subst. clear H.
      match goal with H : satv (PClause r2 _ _ _ _ :: _) _ _ |- _ => inversion H; subst; clear H end.
      assert (Hr : vrun2 I et a1 t c1 a2 t0 c2 e5) by (eexists _, _, _; eauto).
      pose proof (vrun2_swap I Heq B B1 B2 C1 C2 a1 t c1 a2 t0 c2 et e5 K1 K2 K3 K4 (ele_bound_rev et e0 B Hle Hd0) Hct Hr) as [x1 [x2 [x3 [A1 [A2 [A3 A4]]]]]].
      exists i0, t0, x1, x2. repeat split; auto. exists i, t, x3, e5. repeat split; auto. exists et5. auto. }
  exact (Hout e s Hpe Hinv Hcomp).
Qed.

(* ---------- items before the simple join ---------- *)
Lemma from_spec : forall sj items reord B B' k (CJ' Tg' : venv V -> Prop) Q,
  check_from arities B items sj reord = Some B' -> forallb (lat_item_ok islat) items = true ->
  Forall (mono_item I islat lle G) (map item_of items) -> Qup Q ->
  kspec k (envok B') CJ' Tg' Q ->
  kspec (eval_from I shuffle swap_oracle dyn St T D items sj reord k) (envok B) (wpJ (map item_of items) CJ') (exT items Tg') Q.
Proof.
  intros [n|]; [|intros items reord B B' k CJ' Tg' Q Hck Hlat Hmono HQ Hk; destruct items; cbn [check_from] in Hck; cbn [eval_from]; eapply items_spec; eauto].
  induction n as [|n IH]; intros items reord B B' k CJ' Tg' Q Hck Hlat Hmono HQ Hk.
  - cbn [check_from] in Hck. cbn [eval_from].
    destruct items as [|[r1 a1 c1 i1 v1|c|x g xs|o a bd r args idx] items]; try discriminate.
    destruct items as [|[r2 a2 c2 i2 v2|c|x g xs|o a bd r args idx] rest]; try discriminate.
    apply sj_spec with (B' := B'); auto.
  - destruct items as [|p rest]; [discriminate|].
    cbn [forallb] in Hlat. apply andb_true_iff in Hlat. destruct Hlat as [Hl1 Hlat].
    cbn [map] in Hmono. inversion Hmono as [|? ? Hm1 Hmr]; subst.
    destruct p as [r args cs idx ver|c|x g xs|o a bd r args idx]; cbn [check_from] in Hck; cbn [item_of mono_item] in Hm1; try discriminate.
    + destruct (check_cond B c) as [B1|] eqn:Ec; [|discriminate].
      pose proof (IH rest reord B1 B' k CJ' Tg' Q Hck Hlat Hmr HQ Hk) as IHk.
      pose proof (cond_spec B B1 c (eval_from I shuffle swap_oracle dyn St T D rest (Some n) reord k) (wpJ (map item_of rest) CJ') (exT rest Tg') Q Ec Hm1 IHk) as Hcs.
      eapply kspec_weaken; [exact Hcs | auto | |].
      * intros e eJ _ _ _ H eJ1 Es eJ2 Hsat. apply H. cbn [map item_of]. econstructor; eauto.
      * intros e et _ _ _ [et2 [H HT]]. inversion H; subst. exists e1. split; auto. exists et2. auto.
    + destruct (subv xs B && negb (memv x B)) eqn:Eb; [|discriminate]. apply andb_true_iff in Eb. destruct Eb as [Exs Ex].
      apply negb_true_iff in Ex.
      pose proof (IH rest reord (x :: B) B' k CJ' Tg' Q Hck Hlat Hmr HQ Hk) as IHk.
      pose proof (gen_spec B x g xs (eval_from I shuffle swap_oracle dyn St T D rest (Some n) reord k) (wpJ (map item_of rest) CJ') (exT rest Tg') Q Exs Ex Hm1 HQ IHk) as Hcs.
      eapply kspec_weaken; [exact Hcs | auto | |].
      * intros e eJ _ _ _ H vs v Ev Hv eJ2 Hsat. apply H. cbn [map item_of]. econstructor; eauto.
      * intros e et _ _ _ [et2 [H HT]]. inversion H; subst. exists vs, v. repeat split; auto. exists et2. auto.
Qed.

(* ---------- a rule variant ---------- *)
Lemma satv_nonempty : forall items (e e' : venv V), satv items e e' -> existsb (clause_empty dyn St T D) items = false.
Proof.
  intros items e e' H. induction H; cbn [existsb clause_empty]; auto.
  destruct (vrows r ver) eqn:E; [contradiction|]. exact IHsatv.
Qed.

Lemma satv_sat : forall items (e e' : venv V), satv items e e' -> sat I (dbof R0) (map item_of items) e e'.
Proof.
  intros items e e' H. induction H; cbn [map item_of]; econstructor; eauto. unfold dbof. eapply nth_error_In; eauto.
Qed.

Lemma heads_spec : forall hs B (et : venv V),
  heads_ok arities B hs = true -> Forall (mono_head I islat lle G) hs ->
  (forall h, In h hs -> is_dyn dyn (fst h) = true) ->
  kspec (heads_update I islat jm T D hs) (envok B)
        (fun eJ => forall h f, In h hs -> veval_head I eJ h = Some f -> below J f)
        (fun et1 => et1 = et)
        (fun s => forall h f, In h hs -> veval_head I et h = Some f -> below (dbof (i_rows s)) f).
Proof.
  intros hs B et Hho Hmh Hdyn e s [Hd Hc] [Hs Hb] [eJ [Hle [HcJ HCJ]]].
  rewrite Forall_forall in Hmh. unfold heads_ok in Hho. rewrite forallb_forall in Hho.
  assert (Hfacts : forall h f, In h hs -> veval_head I e h = Some f -> fact_ok I islat lle arities dyn f /\ below J f).
  { intros h f Hin Hf.
    destruct (head_mono_eval I islat lle G h e eJ f (Hmh h Hin) Hle Hf) as [fJ [HfJ [E1 Ht]]].
    pose proof (HCJ h fJ Hin HfJ) as HbJ.
    assert (Hfst : fst f = fst h).
    { unfold veval_head in Hf. destruct (veval_terms I e (snd h)); [|discriminate]. injection Hf as <-. reflexivity. }
    assert (Hlen : length (snd f) = length (snd h)).
    { unfold veval_head in Hf. destruct (veval_terms I e (snd h)) as [vs|] eqn:Ev; [|discriminate]. injection Hf as <-. cbn.
      symmetry. eapply veval_terms_length; eauto. }
    split.
    - split; [rewrite Hfst; apply Hdyn; auto|]. split.
      + rewrite Hfst, Hlen. specialize (Hho h Hin). apply andb_true_iff in Hho. tauto.
      + intros Hl. eapply (tle_wf_l I islat lle jm Hlaws); eauto.
    - destruct f as [r t], fJ as [rJ tJ]. cbn [fst snd] in *. subst rJ. eapply (below_trans I islat lle jm Hlaws); eauto. }
  destruct (heads_update_ok I Heq islat lle jm Hlaws arities Hfun Hlat1 dyn T D R0 Hcov0 hs e s Hs) as [K1 [K2 [K3 K4]]].
  { intros h f Hin Hf. apply (Hfacts h f Hin Hf). }
  split.
  - split; [|exact K2]. split; [exact K1|].
    apply (heads_update_below I Heq islat lle jm Hlaws arities Hfun Hlat1 dyn T D R0 Hcov0 J hs e s HJdir Hs); auto.
  - intros [et1 [Hlt [_ ->]]] h f Hin Hf.
    destruct (head_mono_eval I islat lle G h et e f (Hmh h Hin) Hlt Hf) as [f' [Hf' [E1 Ht]]].
    pose proof (K4 h f' Hin Hf') as Hb'. destruct f as [r t], f' as [r' t']. cbn [fst snd] in *. subst r'.
    eapply (below_trans I islat lle jm Hlaws); eauto.
Qed.

Lemma variant_spec : forall v Bv s,
  check_from arities [] (v_items v) (v_sj v) (v_reord v) = Some Bv -> heads_ok arities Bv (v_heads v) = true ->
  lat_variant_ok islat v = true ->
  Forall (mono_item I islat lle G) (map item_of (v_items v)) -> Forall (mono_head I islat lle G) (v_heads v) ->
  (forall h, In h (v_heads v) -> is_dyn dyn (fst h) = true) ->
  (forall eJ h f, sat I J (map item_of (v_items v)) [] eJ -> In h (v_heads v) -> veval_head I eJ h = Some f -> below J f) ->
  inv s ->
  let s' := eval_variant I islat jm shuffle swap_oracle dyn St T D s v in
  step_ok s s' /\
  forall et h f, satv (v_items v) [] et -> In h (v_heads v) -> veval_head I et h = Some f -> below (dbof (i_rows s')) f.
Proof.
  intros v Bv s Hck Hho Hlat Hmi Hmh Hdyn HJcl Hinv s'. unfold s', eval_variant.
  destruct (Nat.ltb 1 (length (filter is_clause (v_items v))) &&
            negb match v_sj v with Some _ => Nat.eqb (length (filter is_clause (v_items v))) 2 | None => false end &&
            existsb (clause_empty dyn St T D) (v_items v)) eqn:Esk.
  - split; [apply step_ok_refl; auto|]. intros et h f Hsat _ _. exfalso.
    apply andb_true_iff in Esk. destruct Esk as [_ Esk]. rewrite (satv_nonempty _ _ _ Hsat) in Esk. discriminate.
  - assert (Hq : forall et, Qup (fun s => forall h f, In h (v_heads v) -> veval_head I et h = Some f -> below (dbof (i_rows s)) f)).
    { intros et s1 s2 H [_ Hr] h f Hin Hf. eapply (below_rle I islat lle jm Hlaws); eauto. }
    assert (Hen : envok [] ([] : venv V)) by (split; [apply vdom_nil | exact Logic.I]).
    assert (Hcomp : exists eJ : venv V, ele G [] eJ /\ vcanon eJ /\
              wpJ (map item_of (v_items v)) (fun eJ => forall h f, In h (v_heads v) -> veval_head I eJ h = Some f -> below J f) eJ).
    { exists []. split; [apply ele_nil|]. split; [exact Logic.I|]. intros eJ1 Hs1 h f Hin Hf. eapply HJcl; eauto. }
    split.
    + pose proof (from_spec (v_sj v) (v_items v) (v_reord v) [] Bv _ _ _ _ Hck Hlat Hmi (Hq []) (heads_spec (v_heads v) Bv [] Hho Hmh Hdyn)) as Hk.
      exact (proj1 (Hk [] s Hen Hinv Hcomp)).
    + intros et h f Hsat Hin Hf.
      pose proof (from_spec (v_sj v) (v_items v) (v_reord v) [] Bv _ _ _ _ Hck Hlat Hmi (Hq et) (heads_spec (v_heads v) Bv et Hho Hmh Hdyn)) as Hk.
      refine (proj2 (Hk [] s Hen Hinv Hcomp) _ h f Hin Hf).
      exists []. split; [apply ele_nil|]. split; [exact Logic.I|]. exists et. split; auto.
Qed.
End Items.
