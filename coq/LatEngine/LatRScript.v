(* C13 / C14, lattice half - executable histories of the lattice engine model, evaluated by the ties
   (gen/c13_lat.py, gen/c14_lat.py) with vm_compute next to the same histories on the real code.  Model only, no proofs.
     lat_script            run(); [caller pushes rows / raises the row of a key in place by join_mut]; run(); ...
     lat_timeout_script    run_timeout(k1); run_timeout(k2); ...; run()   (k = the deadline reading that fires)
     lat_timeout_sweep     for k = k0, k0+1, ...: a fresh program value, run_timeout(k), then run(); until `true` *)
From Coq Require Import List ZArith Bool Arith.
From AV Require Import Engine.Core.
From AV Require Import Engine.Eval.
From AV Require Import LatEngine.LatSyntax.
From AV Require Import LatEngine.LatEval.
From AV Require Import LatEngine.LatRerun.
From AV Require Import LatEngine.LatTimeout.
Import ListNotations.

Section Script.
Context {V : Type}.
Variable I : linterp V.
Variable islat : rel -> bool.
Variable jm : rel -> V -> V -> V * bool.
Variable shuffle : nat -> list nat -> list nat.
Variable swap_oracle : nat -> list nat -> list nat -> bool.

Inductive lstep :=
| LRun
| LPush (F : rel -> list (vtuple V))                 (* p.rel.push(row) for every row of F *)
| LRaise (r : rel) (key : list V) (v : V).           (* join_mut(&mut <the row of r with this key>.last, v) *)

Definition rows_t := rel -> list (vtuple V).
Definition show_t := list (rel * list (vtuple V)).
Definition show (rels : list rel) (R : rows_t) : show_t := map (fun r => (r, R r)) rels.

(* the same rows, stored as a table (keeps the closures of successive runs from piling up) *)
Definition freeze (rels : list rel) (R : rows_t) : rows_t :=
  let tbl := show rels R in
  fun r => match find (fun p => Nat.eqb (fst p) r) tbl with Some p => snd p | None => R r end.

Fixpoint key_index (R : list (vtuple V)) (key : list V) : option nat :=
  match R with
  | [] => None
  | row :: R' => if vlist_eqb I (tkey row) key then Some O else option_map S (key_index R' key)
  end.

Definition raise_key (r : rel) (key : list V) (v : V) (R : rows_t) : rows_t :=
  match key_index (R r) key with Some i => raise_at I jm r i v R | None => R end.

(* snapshots of the rows after every run *)
Fixpoint lat_script (fuel : nat) (pl : plan) (rels : list rel) (steps : list lstep) (R : rows_t) : option (list show_t) :=
  match steps with
  | [] => Some []
  | LRun :: rest =>
      match run_plan I islat jm shuffle swap_oracle fuel pl R with
      | Some st => let R' := freeze rels (l_rows st) in option_map (cons (show rels R')) (lat_script fuel pl rels rest R')
      | None => None
      end
  | LPush F :: rest => lat_script fuel pl rels rest (appr R F)
  | LRaise r key v :: rest => lat_script fuel pl rels rest (raise_key r key v R)
  end.

(* (flag, rows) after every interrupted call, rows after the final run() *)
Fixpoint lat_timeout_script (fuel : nat) (pl : plan) (rels : list rel) (ks : list nat) (R : rows_t) : option (list (bool * show_t) * show_t) :=
  match ks with
  | [] => option_map (fun st => ([], show rels (l_rows st))) (run_plan I islat jm shuffle swap_oracle fuel pl R)
  | k :: ks' =>
      match run_timeout I islat jm shuffle swap_oracle (lfire_at k) fuel pl R with
      | Some (b, R1) => let R' := freeze rels R1 in
                        option_map (fun r => ((b, show rels R') :: fst r, snd r)) (lat_timeout_script fuel pl rels ks' R')
      | None => None
      end
  end.

(* for k = k0, k0 + 1, ... (at most n values): (flag, rows after run_timeout(k) on the input, rows after a following run()) *)
Fixpoint lat_timeout_sweep (fuel : nat) (pl : plan) (rels : list rel) (n k : nat) (R : rows_t) : option (list (bool * show_t * show_t)) :=
  match n with
  | O => Some []
  | S n' =>
      match run_timeout I islat jm shuffle swap_oracle (lfire_at k) fuel pl R with
      | Some (b, R1) =>
          let R' := freeze rels R1 in
          match run_plan I islat jm shuffle swap_oracle fuel pl R' with
          | Some st =>
              let e := (b, show rels R', show rels (l_rows st)) in
              if b then Some [e] else option_map (cons e) (lat_timeout_sweep fuel pl rels n' (S k) R)
          | None => None
          end
      | None => None
      end
  end.
End Script.
