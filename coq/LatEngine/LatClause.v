(* C03 - one clause of a rule body over an arbitrary value type: conditions and argument matching are sound
   w.r.t. a model environment and can be replayed guided by one; a clause through its index (key test on the
   bound positions + unchecked assignment of the others) = full matching; the two traversal orders of a
   simple join reach the same environment.  (Engine/EvalSpec.v, first half, restated over V.) *)
From Coq Require Import List ZArith Bool Arith Lia.
From AV Require Import Engine.Core.
From AV Require Import Engine.Eval.
From AV Require Import Engine.Validate.
From AV Require Engine.EnvLemmas.
From AV Require Engine.EvalSpec.
From AV Require Import LatEngine.LatSyntax.
From AV Require Import LatEngine.LatEnv.
Import ListNotations.

Section Clause.
Context {V : Type}.
Variable I : linterp V.
Hypothesis Heq : veqb_ok I.

Lemma veqb_refl : forall a, veqb I a a = true.
Proof. intros a. apply Heq. reflexivity. Qed.
Lemma veqb_sym : forall a b, veqb I a b = veqb I b a.
Proof.
  intros a b. destruct (veqb I a b) eqn:E1; destruct (veqb I b a) eqn:E2; auto.
  - apply Heq in E1. subst. rewrite veqb_refl in E2. discriminate.
  - apply Heq in E2. subst. rewrite veqb_refl in E1. discriminate.
Qed.
Lemma vlist_eqb_eq : forall a b, vlist_eqb I a b = true <-> a = b.
Proof.
  induction a as [|x a IH]; intros b; destruct b as [|y b]; cbn; split; intros H; try congruence; auto.
  - apply andb_true_iff in H; destruct H as [H1 H2]. apply Heq in H1. apply IH in H2. congruence.
  - inversion H; subst. rewrite veqb_refl. cbn. apply IH; auto.
Qed.

(* ---------- conditions: soundness w.r.t. a model environment, model-guided evaluation ---------- *)
Definition vmcond (e' : venv V) (c : cond) : Prop :=
  match c with
  | CIf p xs => exists vs, veval_vars e' xs = Some vs /\ vpred I p vs = true
  | CBind z f xs => exists vs v, veval_vars e' xs = Some vs /\ vpart I f vs = Some v /\ vlookup e' z = Some v
  end.

Lemma vmcond_le : forall (e : venv V) (e' : venv V) c, vle e e' -> vmcond e c -> vmcond e' c.
Proof.
  intros e e' c Hle H; destruct c as [p xs|z f xs]; cbn in *.
  - destruct H as [vs [H1 H2]]. exists vs; split; auto. eapply veval_vars_le; eauto.
  - destruct H as [vs [v [H1 [H2 H3]]]]. exists vs, v; repeat split; auto. eapply veval_vars_le; eauto.
Qed.

Lemma vsat_cond_sound : forall (e : venv V) B B' c (e1 : venv V),
  vdom e B -> vcanon e -> check_cond B c = Some B' -> vsat_cond I e c = Some e1 ->
  vle e e1 /\ vmcond e1 c /\ vdom e1 B' /\ vcanon e1.
Proof.
  intros e B B' c e1 Hd Hc Hk Hs; destruct c as [p xs|z f xs]; cbn in *.
  - destruct (subv xs B); try discriminate. inversion Hk; subst B'.
    destruct (veval_vars e xs) as [vs|] eqn:Ev; try discriminate.
    destruct (vpred I p vs) eqn:Ep; try discriminate. inversion Hs; subst e1.
    repeat split; auto using vle_refl. exists vs; auto.
  - destruct (subv xs B && negb (memv z B)) eqn:Eb; try discriminate. inversion Hk; subst B'.
    apply andb_true_iff in Eb; destruct Eb as [_ Ez]. apply negb_true_iff in Ez.
    destruct (veval_vars e xs) as [vs|] eqn:Ev; try discriminate.
    destruct (vpart I f vs) as [v|] eqn:Ef; try discriminate. inversion Hs; subst e1.
    assert (vle e (vbind z v e)) as Hle by (apply vle_bind; eapply vdom_lookup_none; eauto).
    repeat split; auto using vdom_bind, vcanon_bind.
    exists vs, v; repeat split; auto using vlookup_bind_eq. eapply veval_vars_le; eauto.
Qed.

Lemma vsat_cond_guided : forall (e : venv V) B B' c (e' : venv V),
  vdom e B -> check_cond B c = Some B' -> vle e e' -> vmcond e' c ->
  exists e1, vsat_cond I e c = Some e1 /\ vle e1 e'.
Proof.
  intros e B B' c e' Hd Hk Hle Hm; destruct c as [p xs|z f xs]; cbn in *.
  - destruct (subv xs B) eqn:Es; try discriminate.
    destruct (veval_vars_defined e B xs Hd Es) as [vs Hvs].
    destruct Hm as [vs' [H1 H2]]. rewrite (veval_vars_le _ _ _ _ Hle Hvs) in H1. inversion H1; subst vs'.
    rewrite Hvs, H2. eauto.
  - destruct (subv xs B && negb (memv z B)) eqn:Eb; try discriminate.
    apply andb_true_iff in Eb; destruct Eb as [Es _].
    destruct (veval_vars_defined e B xs Hd Es) as [vs Hvs].
    destruct Hm as [vs' [v [H1 [H2 H3]]]]. rewrite (veval_vars_le _ _ _ _ Hle Hvs) in H1. inversion H1; subst vs'.
    rewrite Hvs, H2. eexists; split; eauto. apply vle_bind_l; auto.
Qed.

Lemma vsat_conds_sound : forall cs (e : venv V) B B' (e1 : venv V),
  vdom e B -> vcanon e -> check_conds B cs = Some B' -> vsat_conds I e cs = Some e1 ->
  vle e e1 /\ Forall (vmcond e1) cs /\ vdom e1 B' /\ vcanon e1.
Proof.
  induction cs as [|c cs IH]; intros e B B' e1 Hd Hc Hk Hs; cbn in *.
  - inversion Hk; inversion Hs; subst. repeat split; auto using vle_refl.
  - destruct (check_cond B c) as [B1|] eqn:Ek; try discriminate.
    destruct (vsat_cond I e c) as [e0|] eqn:Es; try discriminate.
    destruct (vsat_cond_sound _ _ _ _ _ Hd Hc Ek Es) as [L1 [M1 [D1 C1]]].
    destruct (IH _ _ _ _ D1 C1 Hk Hs) as [L2 [M2 [D2 C2]]].
    repeat split; auto. eapply vle_trans; eauto. constructor; auto. eapply vmcond_le; eauto.
Qed.

Lemma vsat_conds_guided : forall cs (e : venv V) B B' (e' : venv V),
  vdom e B -> vcanon e -> check_conds B cs = Some B' -> vle e e' -> Forall (vmcond e') cs ->
  exists e1, vsat_conds I e cs = Some e1 /\ vle e1 e'.
Proof.
  induction cs as [|c cs IH]; intros e B B' e' Hd Hc Hk Hle Hm; cbn in *.
  - eauto.
  - destruct (check_cond B c) as [B1|] eqn:Ek; try discriminate.
    inversion Hm as [|? ? Hm1 Hm2]; subst.
    destruct (vsat_cond_guided _ _ _ _ _ Hd Ek Hle Hm1) as [e0 [Es L0]].
    rewrite Es. destruct (vsat_cond_sound _ _ _ _ _ Hd Hc Ek Es) as [_ [_ [D1 C1]]].
    eapply IH; eauto.
Qed.

(* ---------- matching = key test + unchecked assignment ---------- *)
Fixpoint vchk (e : venv V) (args : list term) (tup : vtuple V) : bool :=
  match args, tup with
  | [], [] => true
  | a :: args', v :: tup' =>
      match a with
      | TVar x => match vlookup e x with
                  | Some w => veqb I w v && vchk e args' tup'
                  | None => vchk (vbind x v e) args' tup' end
      | _ => match veval_term I e a with Some w => veqb I w v && vchk e args' tup' | None => false end
      end
  | _, _ => false
  end.

Lemma vmatch_args_chk : forall args (tup : vtuple V) (e : venv V),
  vmatch_args I e args tup = if vchk e args tup then Some (vbind_new e args tup) else None.
Proof.
  induction args as [|a args IH]; intros tup e; destruct tup as [|v tup]; try reflexivity.
  destruct a as [x|c|f xs]; cbn [vmatch_args vchk vbind_new].
    + destruct (vlookup e x) as [w|]; [destruct (veqb I w v); cbn; auto|auto].
    + destruct (veval_term I e (TConst c)) as [w|]; [destruct (veqb I w v); cbn; auto|auto].
    + destruct (veval_term I e (TFun f xs)) as [w|]; [destruct (veqb I w v); cbn; auto|auto].
Qed.

Lemma vcanon_bind_new : forall args (tup : vtuple V) (e : venv V), vcanon e -> vcanon (vbind_new e args tup).
Proof.
  induction args as [|a args IH]; intros tup e Hc; destruct tup as [|v tup]; cbn; auto.
  - destruct a; auto.
  - destruct a as [x|c|f xs]; auto. destruct (vlookup e x); auto using vcanon_bind.
Qed.

Lemma veval_key_shift : forall (e : venv V) a args idx, veval_key I e (a :: args) (map S idx) = veval_key I e args idx.
Proof.
  intros e a args idx; induction idx as [|i idx IH]; cbn; auto.
  cbn in IH. rewrite IH. reflexivity.
Qed.

Lemma vproj_shift : forall idx v (tup : vtuple V), vproj I (map S idx) (v :: tup) = vproj I idx tup.
Proof. intros; unfold vproj; rewrite map_map; reflexivity. Qed.

Lemma vproj_cons0 : forall idx v (tup : vtuple V), vproj I (0%nat :: map S idx) (v :: tup) = v :: vproj I idx tup.
Proof. intros; unfold vproj; cbn [map]. f_equal. rewrite map_map. reflexivity. Qed.

Lemma vclause_key : forall B args (tup : vtuple V) newv (e : venv V) (e0 : venv V) idx nv,
  expected_idx B args 0 newv = Some (idx, nv) ->
  vdom e (newv ++ B) ->
  (forall x, memv x B = true -> vlookup e0 x = vlookup e x) ->
  length args = length tup ->
  exists key, veval_key I e0 args idx = Some key /\ vchk e args tup = vlist_eqb I (vproj I idx tup) key
              /\ vdom (vbind_new e args tup) (nv ++ B).
Proof.
  intros B; induction args as [|a args IH]; intros tup newv e e0 idx nv Hx Hd Ha Hl;
    destruct tup as [|v tup]; try discriminate.
  - cbn in Hx; cbn in Hx; injection Hx as Hi Hn; subst idx nv. exists []; cbn; auto.
  - cbn in Hl; injection Hl as Hl.
    assert (forall ix nv', subv (term_vars a) B = true -> (forall x, a <> TVar x) ->
              expected_idx B args 0 newv = Some (ix, nv') -> idx = 0%nat :: map S ix -> nv = nv' ->
              exists key, veval_key I e0 (a :: args) idx = Some key /\
                          (match veval_term I e a with Some w => veqb I w v && vchk e args tup | None => false end)
                            = vlist_eqb I (vproj I idx (v :: tup)) key
                          /\ vdom (vbind_new e args tup) (nv ++ B)) as Hgen.
    { intros ix nv' Hs _ Hx' -> ->.
      destruct (IH tup newv e e0 ix nv' Hx' Hd Ha Hl) as [key [K1 [K2 K3]]].
      destruct (veval_term_defined I e (newv ++ B) a Hd (EvalSpec.subv_app_r _ _ _ Hs)) as [w Hw].
      assert (veval_term I e0 a = Some w) as Hw0.
      { rewrite <- Hw. apply veval_term_agree. intros x Hin. apply Ha. eapply EnvLemmas.subv_In; eauto. }
      exists (w :: key). cbn [veval_key nth_error]. rewrite Hw0. rewrite veval_key_shift, K1.
      split; auto. rewrite Hw, K2. rewrite vproj_cons0. cbn [vlist_eqb]. rewrite veqb_sym. auto. }
    cbn in Hx. rewrite EvalSpec.expected_idx_shift in Hx. destruct a as [x|c|f xs].
    + destruct (memv x B) eqn:Ex.
      * destruct (expected_idx B args 0 newv) as [[ix nv']|] eqn:Ei; try discriminate. cbn in Hx; injection Hx as Hi Hn; subst idx nv.
        destruct (IH tup newv e e0 ix nv' Ei Hd Ha Hl) as [key [K1 [K2 K3]]].
        assert (memv x (newv ++ B) = true) as Hxm by (rewrite EnvLemmas.memv_app, Ex; apply orb_true_r).
        destruct (vdom_lookup_some _ _ _ Hd Hxm) as [w Hw].
        exists (w :: key). cbn [veval_key nth_error veval_term]. rewrite (Ha x Ex), Hw.
        rewrite veval_key_shift, K1. cbn [vchk vbind_new]. rewrite Hw. split; auto. split; auto.
        rewrite K2. rewrite vproj_cons0. cbn [vlist_eqb]. rewrite veqb_sym. auto.
      * destruct (memv x newv) eqn:Exn; try discriminate. rewrite EvalSpec.expected_idx_shift in Hx.
        destruct (expected_idx B args 0 (x :: newv)) as [[ix nv']|] eqn:Ei; try discriminate. cbn in Hx; injection Hx as Hi Hn; subst idx nv.
        assert (memv x (newv ++ B) = false) as Hxm by (rewrite EnvLemmas.memv_app, Ex, Exn; auto).
        pose proof (vdom_lookup_none _ _ _ Hd Hxm) as Hn.
        destruct (IH tup (x :: newv) (vbind x v e) e0 ix nv' Ei) as [key [K1 [K2 K3]]]; auto.
        { apply (vdom_bind e (newv ++ B) x v Hd). }
        { intros y Hy. rewrite vlookup_bind_neq; auto. intros ->. congruence. }
        exists key. rewrite veval_key_shift, vproj_shift. cbn [vchk vbind_new]. rewrite Hn. auto.
    + destruct (subv (term_vars (TConst c)) B) eqn:Es; try discriminate.
      destruct (expected_idx B args 0 newv) as [[ix nv']|] eqn:Ei; try discriminate. cbn in Hx; injection Hx as Hi Hn; subst idx nv.
      apply (Hgen ix nv'); auto; congruence.
    + destruct (subv (term_vars (TFun f xs)) B) eqn:Es; try discriminate.
      destruct (expected_idx B args 0 newv) as [[ix nv']|] eqn:Ei; try discriminate. cbn in Hx; injection Hx as Hi Hn; subst idx nv.
      apply (Hgen ix nv'); auto; congruence.
Qed.

(* ---------- matching: soundness w.r.t. a model environment, model-guided matching ---------- *)
Lemma vmatch_args_sound : forall args (tup : vtuple V) (e : venv V) (e1 : venv V),
  vmatch_args I e args tup = Some e1 -> vle e e1 /\ veval_terms I e1 args = Some tup.
Proof.
  induction args as [|a args IH]; intros tup e e1 H; destruct tup as [|v tup]; cbn in H; try discriminate.
  - inversion H; subst. split; auto using vle_refl.
  - assert (forall w, veval_term I e a = Some w -> (if veqb I w v then vmatch_args I e args tup else None) = Some e1 ->
              vle e e1 /\ veval_terms I e1 (a :: args) = Some (v :: tup)) as Hgen.
    { intros w Hw Hm. destruct (veqb I w v) eqn:E; try discriminate. apply Heq in E; subst w.
      destruct (IH _ _ _ Hm) as [L1 T1]. split; auto. cbn. rewrite (veval_term_le I _ _ _ _ L1 Hw), T1. reflexivity. }
    destruct a as [x|c|f xs].
    + destruct (vlookup e x) as [w|] eqn:Ex.
      * apply (Hgen w); auto.
      * destruct (IH _ _ _ H) as [L1 T1]. split.
        -- eapply vle_trans; [apply vle_bind; eauto|eauto].
        -- cbn. rewrite (L1 x v (vlookup_bind_eq x v e)), T1. reflexivity.
    + destruct (veval_term I e (TConst c)) as [w|] eqn:Ew; try discriminate. apply (Hgen w); auto.
    + destruct (veval_term I e (TFun f xs)) as [w|] eqn:Ew; try discriminate. apply (Hgen w); auto.
Qed.

Lemma veval_terms_length : forall (e : venv V) args (tup : vtuple V), veval_terms I e args = Some tup -> length args = length tup.
Proof.
  intros e; induction args as [|a args IH]; intros tup H; cbn in H.
  - inversion H; reflexivity.
  - destruct (veval_term I e a); try discriminate. destruct (veval_terms I e args) eqn:E; try discriminate.
    inversion H; subst. cbn. f_equal. apply IH; auto.
Qed.

Lemma vmatch_args_guided : forall B args (tup : vtuple V) pos newv (e : venv V) (e' : venv V),
  expected_idx B args pos newv <> None ->
  vdom e (newv ++ B) -> vle e e' -> veval_terms I e' args = Some tup ->
  exists e1, vmatch_args I e args tup = Some e1 /\ vle e1 e'.
Proof.
  intros B; induction args as [|a args IH]; intros tup pos newv e e' Hx Hd Hle Ht; cbn in Ht.
  - inversion Ht; subst. cbn. eauto.
  - destruct (veval_term I e' a) as [v|] eqn:Ea; try discriminate.
    destruct (veval_terms I e' args) as [tup'|] eqn:Ets; try discriminate. inversion Ht; subst tup. clear Ht.
    assert (subv (term_vars a) B = true -> expected_idx B args (S pos) newv <> None ->
            exists e1, match veval_term I e a with
                       | Some w => if veqb I w v then vmatch_args I e args tup' else None
                       | None => None end = Some e1 /\ vle e1 e') as Hgen.
    { intros Hs Hx'. destruct (veval_term_defined I e (newv ++ B) a Hd (EvalSpec.subv_app_r _ _ _ Hs)) as [w Hw].
      rewrite Hw. pose proof (veval_term_le I _ _ _ _ Hle Hw) as Hw'. rewrite Ea in Hw'. inversion Hw'; subst w.
      rewrite veqb_refl. eapply IH; eauto. }
    cbn in Hx. destruct a as [x|c|f xs].
    + cbn [vmatch_args]. cbn in Ea. destruct (vlookup e x) as [w|] eqn:Ex.
      * rewrite (Hle _ _ Ex) in Ea. inversion Ea; subst w. rewrite veqb_refl.
        destruct (memv x B) eqn:EB.
        -- apply (IH tup' (S pos) newv); auto. intros Hn; rewrite Hn in Hx; congruence.
        -- destruct (memv x newv) eqn:EN; try congruence.
           assert (vbound e x = true) as Hb by (unfold vbound; rewrite Ex; auto).
           rewrite Hd, EnvLemmas.memv_app in Hb. apply orb_true_iff in Hb. destruct Hb; congruence.
      * assert (memv x (newv ++ B) = false) as Hm.
        { rewrite <- Hd. unfold vbound. rewrite Ex. reflexivity. }
        rewrite EnvLemmas.memv_app in Hm. apply orb_false_iff in Hm; destruct Hm as [Hm1 Hm2].
        rewrite Hm1, Hm2 in Hx.
        apply (IH tup' (S pos) (x :: newv)); auto.
        -- apply (vdom_bind e (newv ++ B) x v Hd).
        -- apply vle_bind_l; auto.
    + destruct (subv (term_vars (TConst c)) B) eqn:Es; try congruence.
      apply Hgen; auto. intros Hn; rewrite Hn in Hx; congruence.
    + destruct (subv (term_vars (TFun f xs)) B) eqn:Es; try congruence.
      apply Hgen; auto. intros Hn; rewrite Hn in Hx; congruence.
Qed.

(* ---------- one clause step: match the arguments, then the conditions ---------- *)
Definition vclause_ok (B : list var) (args : list term) (cs : list cond) (B' : list var) : Prop :=
  exists idx nv, expected_idx B args 0 [] = Some (idx, nv) /\ check_conds (nv ++ B) cs = Some B'.

Definition vcmodel (e' : venv V) (args : list term) (tup : vtuple V) (cs : list cond) : Prop :=
  veval_terms I e' args = Some tup /\ Forall (vmcond e') cs.

Lemma vcmodel_le : forall (e : venv V) (e' : venv V) args (tup : vtuple V) cs, vle e e' -> vcmodel e args tup cs -> vcmodel e' args tup cs.
Proof.
  intros e e' args tup cs Hle [H1 H2]; split.
  - eapply veval_terms_le; eauto.
  - eapply Forall_impl; [|exact H2]. intros c; apply vmcond_le; auto.
Qed.

Lemma vclause_sound : forall B B' args cs (tup : vtuple V) (e : venv V) (e1 : venv V) (e2 : venv V),
  vclause_ok B args cs B' -> vdom e B -> vcanon e ->
  vmatch_args I e args tup = Some e1 -> vsat_conds I e1 cs = Some e2 ->
  vle e e2 /\ vcmodel e2 args tup cs /\ vdom e2 B' /\ vcanon e2.
Proof.
  intros B B' args cs tup e e1 e2 [idx [nv [Hx Hk]]] Hd Hc Hm Hs.
  destruct (vmatch_args_sound _ _ _ _ Hm) as [L1 T1].
  pose proof (veval_terms_length _ _ _ T1) as Hl.
  destruct (vclause_key B args tup [] e e idx nv Hx Hd (fun _ _ => eq_refl) Hl) as [key [_ [_ D1]]].
  rewrite vmatch_args_chk in Hm. destruct (vchk e args tup); try discriminate. inversion Hm; subst e1.
  pose proof (vcanon_bind_new args tup e Hc) as C1.
  destruct (vsat_conds_sound _ _ _ _ _ D1 C1 Hk Hs) as [L2 [M2 [D2 C2]]].
  repeat split; auto.
  - eapply vle_trans; eauto.
  - eapply veval_terms_le; eauto.
Qed.

Lemma vclause_guided : forall B B' args cs (tup : vtuple V) (e : venv V) (e' : venv V),
  vclause_ok B args cs B' -> vdom e B -> vcanon e -> vle e e' -> vcmodel e' args tup cs ->
  exists e1 e2, vmatch_args I e args tup = Some e1 /\ vsat_conds I e1 cs = Some e2 /\ vle e2 e'.
Proof.
  intros B B' args cs tup e e' [idx [nv [Hx Hk]]] Hd Hc Hle [T M].
  destruct (vmatch_args_guided B args tup 0%nat [] e e') as [e1 [Hm L1]]; auto; try congruence.
  pose proof (veval_terms_length _ _ _ T) as Hl.
  destruct (vclause_key B args tup [] e e idx nv Hx Hd (fun _ _ => eq_refl) Hl) as [key [_ [_ D1]]].
  pose proof Hm as Hm'. rewrite vmatch_args_chk in Hm'. destruct (vchk e args tup); try discriminate. inversion Hm'; subst e1.
  pose proof (vcanon_bind_new args tup e Hc) as C1.
  destruct (vsat_conds_guided cs _ _ _ e' D1 C1 Hk L1 M) as [e2 [Hs L2]].
  exists (vbind_new e args tup), e2; auto.
Qed.

(* two clause steps in sequence *)
Definition vrun2 (e : venv V) a1 t1 c1 a2 t2 c2 (e' : venv V) : Prop :=
  exists e1 e2 e3, vmatch_args I e a1 t1 = Some e1 /\ vsat_conds I e1 c1 = Some e2 /\
                   vmatch_args I e2 a2 t2 = Some e3 /\ vsat_conds I e3 c2 = Some e'.

Lemma vrun2_sound : forall B B1 B2 a1 (t1 : vtuple V) c1 a2 (t2 : vtuple V) c2 (e : venv V) (e' : venv V),
  vclause_ok B a1 c1 B1 -> vclause_ok B1 a2 c2 B2 -> vdom e B -> vcanon e ->
  vrun2 e a1 t1 c1 a2 t2 c2 e' ->
  vle e e' /\ vcmodel e' a1 t1 c1 /\ vcmodel e' a2 t2 c2 /\ vdom e' B2 /\ vcanon e'.
Proof.
  intros B B1 B2 a1 t1 c1 a2 t2 c2 e e' K1 K2 Hd Hc [e1 [e2 [e3 [M1 [S1 [M2 S2]]]]]].
  destruct (vclause_sound _ _ _ _ _ _ _ _ K1 Hd Hc M1 S1) as [L1 [CM1 [D1 C1]]].
  destruct (vclause_sound _ _ _ _ _ _ _ _ K2 D1 C1 M2 S2) as [L2 [CM2 [D2 C2]]].
  repeat split; auto; try apply CM2.
  - eapply vle_trans; eauto.
  - eapply veval_terms_le; eauto. apply CM1.
  - eapply Forall_impl; [|apply CM1]. intros c; apply vmcond_le; auto.
Qed.

Lemma vrun2_guided : forall B B1 B2 a1 (t1 : vtuple V) c1 a2 (t2 : vtuple V) c2 (e : venv V) (e' : venv V),
  vclause_ok B a1 c1 B1 -> vclause_ok B1 a2 c2 B2 -> vdom e B -> vcanon e ->
  vle e e' -> vcmodel e' a1 t1 c1 -> vcmodel e' a2 t2 c2 ->
  exists e'', vrun2 e a1 t1 c1 a2 t2 c2 e'' /\ vle e'' e'.
Proof.
  intros B B1 B2 a1 t1 c1 a2 t2 c2 e e' K1 K2 Hd Hc Hle CM1 CM2.
  destruct (vclause_guided _ _ _ _ _ _ _ K1 Hd Hc Hle CM1) as [e1 [e2 [M1 [S1 L1]]]].
  destruct (vclause_sound _ _ _ _ _ _ _ _ K1 Hd Hc M1 S1) as [_ [_ [D1 C1]]].
  destruct (vclause_guided _ _ _ _ _ _ _ K2 D1 C1 L1 CM2) as [e3 [e4 [M2 [S2 L2]]]].
  exists e4; split; auto. exists e1, e2, e3; auto.
Qed.

Lemma vrun2_det : forall (e : venv V) a1 (t1 : vtuple V) c1 a2 (t2 : vtuple V) c2 (e' : venv V) (e'' : venv V),
  vrun2 e a1 t1 c1 a2 t2 c2 e' -> vrun2 e a1 t1 c1 a2 t2 c2 e'' -> e' = e''.
Proof.
  intros e a1 t1 c1 a2 t2 c2 e' e'' [x1 [x2 [x3 [A1 [A2 [A3 A4]]]]]] [y1 [y2 [y3 [B1 [B2 [B3 B4]]]]]].
  congruence.
Qed.

(* the simple-join swap: both traversal orders reach the same environment *)
Lemma vrun2_swap : forall B B1 B2 C1 C2 a1 (t1 : vtuple V) c1 a2 (t2 : vtuple V) c2 (e : venv V) (e' : venv V),
  vclause_ok B a1 c1 B1 -> vclause_ok B1 a2 c2 B2 ->
  vclause_ok B a2 c2 C1 -> vclause_ok C1 a1 c1 C2 ->
  vdom e B -> vcanon e ->
  vrun2 e a1 t1 c1 a2 t2 c2 e' -> vrun2 e a2 t2 c2 a1 t1 c1 e'.
Proof.
  intros B B1 B2 C1 C2 a1 t1 c1 a2 t2 c2 e e' K1 K2 J1 J2 Hd Hc R.
  destruct (vrun2_sound _ _ _ _ _ _ _ _ _ _ _ K1 K2 Hd Hc R) as [L [M1 [M2 [_ Cn]]]].
  destruct (vrun2_guided _ _ _ _ _ _ _ _ _ _ e' J1 J2 Hd Hc L M2 M1) as [e'' [R' L']].
  destruct (vrun2_sound _ _ _ _ _ _ _ _ _ _ _ J1 J2 Hd Hc R') as [L2 [N2 [N1 [_ Cn']]]].
  destruct (vrun2_guided _ _ _ _ _ _ _ _ _ _ e'' K1 K2 Hd Hc L2 N1 N2) as [e3 [R3 L3]].
  pose proof (vrun2_det _ _ _ _ _ _ _ _ _ R R3); subst e3.
  assert (e'' = e') by (apply vle_antisym; auto). subst e''. exact R'.
Qed.

End Clause.
