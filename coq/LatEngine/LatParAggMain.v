(* C02, lattice half WITH aggregation / negation - the whole PARALLEL lattice engine: the SCCs in plan order, and the
   theorems about LatParAggModel.par_lat_agg_run_plan:
     par_lat_agg_run_stratified_model  every parallel run (any number of workers, any distribution of the rule evaluation,
                                       any moment at which a row is read, any traversal order of an aggregated index, any
                                       interleaving of the atomic steps of the head updates) of a validated plan computes
                                       the STRATIFIED LATTICE MODEL of LatAggSem.v - stratum after stratum the least fixed
                                       point, aggregates ranging over the completed lower strata -, one row per key, no
                                       duplicate rows;
     strat_lat_model_unique            the stratified lattice model is unique up to the order of the rows;
     par_lat_agg_equals_serial         hence every parallel run ends with the rows of the serial engine
                                       (LatAggEval.arun_plan, every oracle) - per relation a permutation of them;
     par_lat_agg_aggregated_final      the rows an aggregate ranges over are the final rows of the aggregated relation;
     par_lat_agg_intermediate / par_lat_agg_run_no_deadlock   at every iteration start a parallel run can reach: one row
                                       per key, total / delta list every row of the dynamic relations, and no state of the
                                       head updates of such an iteration is a deadlock. *)
From Coq Require Import List ZArith Bool Arith Lia Permutation.
From AV Require Import Engine.Core.
From AV Require Import Engine.Eval.
From AV Require Import Engine.Validate.
From AV Require Import Engine.Naive.
From AV Require Import Engine.NaiveLemmas.
From AV Require Import Engine.AggLemmas.
From AV Require Import Engine.SemiNaive.
From AV Require Import Engine.SemiNaiveAgg.
From AV Require Import Engine.StrataAgg.
From AV Require Import Engine.InterfaceAgg.
From AV Require Import Engine.StratFixed.
From AV Require Import Engine.Strat.
From AV Require Engine.ParLat.
From AV Require Import LatEngine.LatSyntax.
From AV Require Import LatEngine.LatEval.
From AV Require Import LatEngine.LatPlan.
From AV Require Import LatEngine.LatSem.
From AV Require Import LatEngine.LatBase.
From AV Require Import LatEngine.LatScc.
From AV Require Import LatEngine.LatMain.
From AV Require Import LatEngine.LatKeys.
From AV Require Import LatEngine.LatRBase.
From AV Require Import LatEngine.LatAggEval.
From AV Require Import LatEngine.LatAggTrans.
From AV Require Import LatEngine.LatAggInv.
From AV Require Import LatEngine.LatAggSem.
From AV Require Import LatEngine.LatAggSim.
From AV Require Import LatEngine.LatAggValid.
From AV Require Import LatEngine.LatAggStrata.
From AV Require Import LatEngine.LatAggMain.
From AV Require Import LatEngine.LatParModel.
From AV Require Import LatEngine.LatParIter.
From AV Require Import LatEngine.LatParMain.
From AV Require Import LatEngine.LatParAggModel.
From AV Require Import LatEngine.LatParAggSim.
From AV Require Import LatEngine.LatParAggScc.
Import ListNotations.
Local Open Scope nat_scope.

Lemma filter_perm : forall (X : Type) (f : X -> bool) l l', Permutation l l' -> Permutation (filter f l) (filter f l').
Proof.
  intros X f l l' H. induction H as [|x l l' H IH|x y l|l l' l'' H1 IH1 H2 IH2]; cbn [filter].
  - constructor.
  - destruct (f x); [constructor|]; exact IH.
  - destruct (f y), (f x); try apply Permutation_refl. apply perm_swap.
  - eapply Permutation_trans; eassumption.
Qed.

(* ---------- the stratified lattice model is unique up to the order of the rows ---------- *)
Section Unique.
Context {V : Type}.
Variable I : linterp V.
Hypothesis Heq : veqb_ok I.
Variable vagg : nat -> list (list V) -> list V.
Hypothesis Hperm : forall a l l', Permutation l l' -> vagg a l = vagg a l'.
Variable islat : rel -> bool.
Variable lle : rel -> V -> V -> Prop.
Variable jm : rel -> V -> V -> V * bool.
Hypothesis Hlaws : forall r, islat r = true -> lat_laws (lle r) (jm r).

Definition req (R R' : rel -> list (vtuple V)) : Prop := forall r, Permutation (R r) (R' r).

Lemma req_sym : forall R R', req R R' -> req R' R.
Proof. intros R R' H r. apply Permutation_sym. apply H. Qed.

Lemma asat_req : forall A A' (DB : db) items e e2, req A A' -> plain_nodup islat A -> plain_nodup islat A' ->
  asat I vagg islat A DB items e e2 -> asat I vagg islat A' DB items e e2.
Proof.
  intros A A' DB items e e2 Hr HA HA' H.
  induction H as [e|r args cs rest e t e1 e2 e3 Hdb Hm Hc Hrest IH|c rest e e1 e2 Hc Hrest IH
                  |x g xs rest e vs v e2 Hv Hin Hrest IH|out a bound r args rest e key v e2 Hk Hin Hrest IH].
  - constructor.
  - eapply asat_clause; eauto.
  - eapply asat_cond; eauto.
  - eapply asat_gen; eauto.
  - eapply asat_agg; [exact Hk | | exact IH].
    rewrite (Hperm a _ (map (vagg_input bound args) (spec_rows I islat A r args key))); [exact Hin|].
    apply Permutation_map. rewrite (spec_rows_filter I Heq islat A r args key (HA r)), (spec_rows_filter I Heq islat A' r args key (HA' r)).
    apply filter_perm. apply Permutation_sym. apply Hr.
Qed.

Lemma aclosed_req : forall A A' s (J : db), req A A' -> plain_nodup islat A -> plain_nodup islat A' ->
  aclosedH I vagg islat lle A s J -> aclosedH I vagg islat lle A' s J.
Proof.
  intros A A' s J Hr HA HA' Hc f [ru [e [h [Hin [Hs [Hh Hf]]]]]]. apply Hc. exists ru, e, h.
  split; [exact Hin|]. split; [|split; assumption]. exact (asat_req A' A J _ _ _ (req_sym _ _ Hr) HA' HA Hs).
Qed.

Lemma dble_req : forall A A' (J : db), req A A' -> dble I islat lle (dbof A) J -> dble I islat lle (dbof A') J.
Proof.
  intros A A' J Hr H r t Ht. apply H. unfold dbof in *. eapply Permutation_in; [apply Permutation_sym; apply Hr | exact Ht].
Qed.

Lemma stratum_lfp_unique : forall s R0 R0' R1 R1', req R0 R0' -> plain_nodup islat R0 -> plain_nodup islat R0' ->
  stratum_lfp I vagg islat lle s R0 R1 -> stratum_lfp I vagg islat lle s R0' R1' -> req R1 R1'.
Proof.
  intros s R0 R0' R1 R1' Hr HP HP' [_ [K1 [P1 [D1 [C1 [A1 L1]]]]]] [_ [K1' [P1' [D1' [C1' [A1' L1']]]]]].
  assert (H12 : dble I islat lle (dbof R1) (dbof R1')).
  { apply L1; [exact D1' | exact (aclosed_req R0' R0 s _ (req_sym _ _ Hr) HP' HP C1') | exact (dble_req R0' R0 _ (req_sym _ _ Hr) A1')]. }
  assert (H21 : dble I islat lle (dbof R1') (dbof R1)).
  { apply L1'; [exact D1 | exact (aclosed_req R0 R0' s _ Hr HP HP' C1) | exact (dble_req R0 R0' _ Hr A1)]. }
  destruct (mutual_dble_same I islat lle jm Hlaws R1 R1' K1 K1' H12 H21) as [Hs Hl].
  intros r. destruct (islat r) eqn:El; [apply Hl; exact El|].
  apply NoDup_Permutation; [apply P1; exact El | apply P1'; exact El | apply Hs].
Qed.

Theorem strat_lat_model_unique : forall strata R0 R0' R R', req R0 R0' -> plain_nodup islat R0 -> plain_nodup islat R0' ->
  strat_lat_model I vagg islat lle strata R0 R -> strat_lat_model I vagg islat lle strata R0' R' -> req R R'.
Proof.
  induction strata as [|s rest IH]; intros R0 R0' R R' Hr HP HP' H H'; cbn [strat_lat_model] in H, H'.
  - intros r. rewrite (H r), (H' r). apply Hr.
  - destruct H as [R1 [Hl Hm]]. destruct H' as [R1' [Hl' Hm']].
    apply (IH R1 R1' R R'); [exact (stratum_lfp_unique s R0 R0' R1 R1' Hr HP HP' Hl Hl') | | | exact Hm | exact Hm'].
    + destruct Hl as [_ [_ [Hp _]]]. exact Hp.
    + destruct Hl' as [_ [_ [Hp _]]]. exact Hp.
Qed.
End Unique.

Section PAMain.
Context {V : Type}.
Variable I : linterp V.
Hypothesis Heq : veqb_ok I.
Variable vagg : nat -> list (list V) -> list V.
Hypothesis Hperm : forall a l l', Permutation l l' -> vagg a l = vagg a l'.
Variable islat : rel -> bool.
Variable lle : rel -> V -> V -> Prop.
Variable jm : rel -> V -> V -> V * bool.
Hypothesis Hlaws : forall r, islat r = true -> lat_laws (lle r) (jm r).
Variable arities : list (rel * nat).
Hypothesis Hfun : arities_functional arities.
Variable P : list rule.
Variable N : var.
Let K := prog_K P.
Let HK : body_bound K P = true := prog_K_bound P.
Hypothesis Hmono : amonotone_program I islat lle N P.
Variable pl : plan.
Hypothesis Hval : validate arities P pl = true.
Hypothesis Halat : alat_plan_ok islat arities pl = true.
Hypothesis Hbelow : plan_below N pl = true.

Notation AG := (AG I islat lle arities).
Notation prun_sccs := (par_lat_agg_run_sccs I vagg islat jm).
Notation slm := (strat_lat_model I vagg islat lle).

Let Hlat1 := aHlat1 islat arities pl Halat.

(* SCCs in plan order: the invariant, the chain of least fixed points, and which relations are left alone *)
Lemma par_agg_run_sccs_model : forall todo pre post st st', pl = pre ++ todo ++ post -> AG st -> prun_sccs todo st st' ->
  AG st' /\ slm (plan_strata P todo) (l_rows st) (l_rows st')
  /\ (forall q, (forall sc, In sc todo -> is_dyn (s_dyn sc) q = false) -> l_rows st' q = l_rows st q).
Proof.
  intros todo pre post st st' Hpl HG Hrun. revert pre Hpl HG.
  induction Hrun as [st|sc todo st st1 st2 H1 Hrest IH]; intros pre Hpl HG.
  - split; [exact HG|]. split; [intros r; reflexivity | intros q _; reflexivity].
  - assert (Hn : nth_error pl (length pre) = Some sc).
    { rewrite Hpl, nth_error_app2, Nat.sub_diag; [reflexivity | lia]. }
    destruct (scc_side islat arities P N pl Hval Halat Hbelow _ sc Hn) as [Hok [Hb Hal]].
    destruct (par_agg_run_scc_spec I Heq vagg Hperm islat lle jm Hlaws arities Hfun Hlat1 P K N HK Hmono sc Hok Hb Hal st st1 HG H1)
      as [HG1 [Hsta Hlfp]].
    destruct (IH (pre ++ [sc])) as [HG' [Hm Hsame]]; [rewrite <- app_assoc; exact Hpl | exact HG1|].
    split; [exact HG'|]. split.
    + rewrite plan_strata_cons. cbn [strat_lat_model]. exists (l_rows st1). split; assumption.
    + intros q Hq. rewrite (Hsame q (fun sc' Hin => Hq sc' (or_intror Hin))). apply Hsta. apply Hq. left. reflexivity.
Qed.

(* ---------- the theorem ---------- *)
Theorem par_lat_agg_run_stratified_model : forall Rin st, ainput_ok I islat lle arities Rin ->
  par_lat_agg_run_plan I vagg islat jm pl Rin st ->
  stratified (plan_strata P pl) = true
  /\ (forall r, In r P <-> In r (concat (plan_strata P pl)))
  /\ strat_lat_model I vagg islat lle (plan_strata P pl) Rin (l_rows st)
  /\ keys_ok islat (l_rows st) /\ plain_nodup islat (l_rows st).
Proof.
  intros Rin st Hin Hrun. unfold par_lat_agg_run_plan in Hrun.
  destruct (par_agg_run_sccs_model pl [] [] (update_indices Rin) st (eq_sym (app_nil_r pl)) (AG_start I islat lle arities Rin Hin) Hrun)
    as [HG [Hm _]].
  split; [exact (plan_stratified arities P pl Hval)|]. split; [exact (plan_covers arities P pl Hval)|].
  split; [exact Hm|]. split; [exact (ag_key _ _ _ _ _ HG) | exact (ag_plain _ _ _ _ _ HG)].
Qed.

(* ... hence the rows of the serial engine with aggregates on the same input, for every oracle of the serial model: the same
   rows in every relation (a permutation: the row NUMBERS depend on the schedule, the rows do not) *)
Theorem par_lat_agg_equals_serial : forall shuffle ashuffle swap_oracle fuel Rin st_par st_ser,
  (forall n l x, In x (shuffle n l) <-> In x l) -> (forall n l, Permutation (ashuffle n l) l) ->
  ainput_ok I islat lle arities Rin ->
  par_lat_agg_run_plan I vagg islat jm pl Rin st_par ->
  arun_plan I vagg islat jm shuffle ashuffle swap_oracle fuel pl Rin = Some st_ser ->
  (forall r t, In t (l_rows st_par r) <-> In t (l_rows st_ser r))
  /\ (forall r, Permutation (l_rows st_par r) (l_rows st_ser r)).
Proof.
  intros shuffle ashuffle swap_oracle fuel Rin st_par st_ser Hshuf Hashuf Hin Hpar Hser.
  destruct (par_lat_agg_run_stratified_model Rin st_par Hin Hpar) as [_ [_ [Mp _]]].
  destruct (lat_agg_stratified_model I Heq vagg Hperm islat lle jm Hlaws shuffle Hshuf ashuffle Hashuf swap_oracle arities Hfun
              P N Hmono pl Hval Halat Hbelow fuel Rin st_ser Hin Hser) as [_ [_ [Ms _]]].
  assert (HP : plain_nodup islat Rin) by apply Hin.
  pose proof (strat_lat_model_unique I Heq vagg Hperm islat lle jm Hlaws (plan_strata P pl) Rin Rin _ _
                (fun r => Permutation_refl _) HP HP Mp Ms) as Hr.
  split; [|exact Hr]. intros r t. split; intros Ht; eapply Permutation_in; try exact Ht; [apply Hr | apply Permutation_sym; apply Hr].
Qed.

(* the rows an aggregate of an SCC ranges over are the FINAL rows of the aggregated relation: neither the SCC itself nor a
   later one writes it, in any parallel run *)
Theorem par_lat_agg_aggregated_final : forall pre sc rest st st', pl = pre ++ sc :: rest ->
  AG st -> prun_sccs (sc :: rest) st st' ->
  forall q, In q (stratum_agg_rels (stratum_of P sc)) -> l_rows st' q = l_rows st q.
Proof.
  intros pre sc rest st st' Hpl HG Hrun q Hq.
  assert (Hpl' : pl = pre ++ (sc :: rest) ++ []) by (rewrite app_nil_r; exact Hpl).
  destruct (par_agg_run_sccs_model (sc :: rest) pre [] st st' Hpl' HG Hrun) as [_ [_ Hsame]]. apply Hsame.
  intros sc' Hin. destruct (is_dyn (s_dyn sc') q) eqn:Hd; [exfalso | reflexivity].
  assert (Hn : nth_error pl (length pre) = Some sc) by (rewrite Hpl, nth_error_app2, Nat.sub_diag; [reflexivity | lia]).
  apply In_nth_error in Hin as [m Hm].
  assert (Hn' : nth_error pl (length pre + m) = Some sc').
  { rewrite Hpl, nth_error_app2 by lia. replace (length pre + m - length pre) with m by lia. exact Hm. }
  destruct (dyn_has_producer arities P pl Hval _ sc' q Hn' Hd) as [j' [r' [Hr' [Hk' Hh']]]].
  unfold stratum_agg_rels in Hq. apply in_flat_map in Hq as [r [Hr Hqr]].
  destruct (stratum_inv P sc r Hr) as [j [Hj Hrj]].
  assert (Hk : rule_scc pl j (length pre)) by (exists sc; split; assumption).
  pose proof (strat_order_agg arities P pl Hval j r j' r' (length pre) (length pre + m) q Hrj Hr' Hk Hk' Hqr Hh'). lia.
Qed.

(* ---------- inside a run: every iteration start a parallel run can reach ---------- *)
Variable Rin : rel -> list (vtuple V).
Hypothesis Hin : ainput_ok I islat lle arities Rin.

Theorem par_lat_agg_intermediate : forall pre sc rest st T2 D2 R2,
  pl = pre ++ sc :: rest ->
  prun_sccs pre (update_indices Rin) st ->
  par_lat_agg_loop_reach I vagg islat jm sc (l_stored st) (fun _ => []) (fun r => if is_dyn (s_dyn sc) r then l_stored st r else []) (l_rows st) T2 D2 R2 ->
  AG st
  /\ (forall r, islat r = true -> NoDup (map tkey (R2 r)))
  /\ (forall r i, is_dyn (s_dyn sc) r = true -> i < length (R2 r) -> In i (T2 r) \/ In i (D2 r))
  /\ (forall q, is_dyn (s_dyn sc) q = false -> R2 q = l_rows st q).
Proof.
  intros pre sc rest st T2 D2 R2 Hpl Hrun Hreach.
  assert (Hpl' : pl = [] ++ pre ++ sc :: rest) by exact Hpl.
  destruct (par_agg_run_sccs_model pre [] (sc :: rest) _ st Hpl' (AG_start I islat lle arities Rin Hin) Hrun) as [HG _].
  split; [exact HG|].
  assert (Hn : nth_error pl (length pre) = Some sc) by (rewrite Hpl, nth_error_app2, Nat.sub_diag; [reflexivity | lia]).
  destruct (scc_side islat arities P N pl Hval Halat Hbelow _ sc Hn) as [Hok [Hb Hal]].
  pose proof (par_agg_reach_tr I Heq vagg Hperm islat lle jm arities P K N HK sc Hok Hb st T2 D2 R2 HG Hreach) as Hreach'.
  destruct HG as [Har Hkey Hwf Hpl0 Hst].
  set (A := l_rows st) in *. set (I' := tr_interp I vagg islat P K A) in *.
  assert (Heq' : veqb_ok I') by exact Heq.
  assert (Hmk : monotone_program I' islat lle (scc_prog P K N sc)) by exact (Pk_mono I vagg islat lle arities P K N HK Hmono sc Hok Hb A).
  assert (Hcov : forall r i, i < length (l_rows st r) -> In i (l_stored st r)) by (intros r i Hi; apply (proj2 (Hst r)); exact Hi).
  assert (HRwf : rows_ok I' islat lle arities (Jwf I' islat lle) A).
  { constructor; [exact Har | exact Hkey | exact Hwf | apply rows_wf_below_Jwf; exact Hwf]. }
  pose proof (linv_start I' islat lle arities (scc_prog P K N sc) (Jwf I' islat lle) (tr_scc K N sc) st HRwf Hcov) as Hl.
  destruct (par_loop_reach_linv I' Heq' islat lle jm Hlaws arities Hfun Hlat1 (scc_prog P K N sc) (scc_prog_no_agg P K N sc) Hmk
              (Jwf I' islat lle) (Jwf_directed I' islat lle jm Hlaws) (Jwf_closed I' islat lle jm Hlaws _ Hmk)
              (tr_scc K N sc) (scc_ok_tr arities P K N sc Hok Hb) (sc'_lat_ok islat K N sc Hal)
              _ _ _ _ _ _ _ Hreach' _ _ Hl) as [O2 [HR2 Hcov2 _ _ Hsta2 _ _]].
  split; [apply (ro_key _ _ _ _ _ _ HR2)|]. split; [exact Hcov2|].
  intros q Hq. exact (proj1 (Hsta2 q Hq)).
Qed.

(* no deadlock anywhere in a parallel run of a program with aggregates: in every state of every iteration a run can reach -
   ANY contributions, ANY global schedule - a lattice relation whose head updates are not finished has a worker that can step *)
Theorem par_lat_agg_run_no_deadlock : forall pre sc rest st T2 D2 R2 (mx : rel -> list V -> nat) kfirst work sched r,
  pl = pre ++ sc :: rest ->
  prun_sccs pre (update_indices Rin) st ->
  par_lat_agg_loop_reach I vagg islat jm sc (l_stored st) (fun _ => []) (fun r => if is_dyn (s_dyn sc) r then l_stored st r else []) (l_rows st) T2 D2 R2 ->
  latdyn islat sc r = true ->
  let s := grun I jm T2 D2 R2 mx kfirst (ginit I R2 work) sched r in
  ParLat.finished s = false -> exists j, ParLat.enabled (mx r) s j = true.
Proof.
  intros pre sc rest st T2 D2 R2 mx kfirst work sched r Hpl Hrun Hreach Hr s F.
  destruct (par_lat_agg_intermediate pre sc rest st T2 D2 R2 Hpl Hrun Hreach) as [_ [Hk [Hc _]]].
  exact (par_lat_no_deadlock I Heq islat jm sc T2 D2 R2 mx kfirst work sched r Hk Hc Hr F).
Qed.
End PAMain.

Print Assumptions par_lat_agg_run_stratified_model.
Print Assumptions par_lat_agg_equals_serial.
Print Assumptions par_lat_agg_aggregated_final.
Print Assumptions par_lat_agg_run_no_deadlock.
