(* B13 - the C04 / C03 lattice theorems for the PER-INDEX engine (LatIndexedEval.xrun_plan), as corollaries of the
   refinement LatIndexedRefine.xrun_refines_arun:
     lat_indexed_refines              xplan_ok + one row per key + rows of the declared arity: xrun_plan is arun_plan (same rows)
     lat_indexed_agg_stratified_model the rows after run() are the stratified lattice model (LatAggMain.lat_agg_stratified_model)
     lat_indexed_run_least_fixed_point programs without aggregation: the least fixed point (LatMain.lat_run_least_fixed_point);
                                      arun_plan = run_plan on such plans (arun_noagg)
   The extra hypotheses over the view-engine theorems are decidable and evaluated by the tie on every dumped plan:
   xplan_ok (the plan reads lattice relations only through declared indices over key columns, heads / clauses have the
   declared arity) and `every lattice relation is listed in arities`. *)
From Coq Require Import List ZArith Bool Arith Lia Permutation.
From AV Require Import Engine.Core.
From AV Require Import Engine.Eval.
From AV Require Import Engine.Validate.
From AV Require Import Engine.Naive.
From AV Require Import Engine.StratFixed.
From AV Require Import Engine.Strat.
From AV Require Import Engine.InterfaceAgg.
From AV Require Import LatEngine.LatSyntax.
From AV Require Import LatEngine.LatEval.
From AV Require Import LatEngine.LatPlan.
From AV Require Import LatEngine.LatSem.
From AV Require Import LatEngine.LatBase.
From AV Require Import LatEngine.LatKeys.
From AV Require Import LatEngine.LatMain.
From AV Require Import LatEngine.LatAggEval.
From AV Require Import LatEngine.LatAggTrans.
From AV Require Import LatEngine.LatAggInv.
From AV Require Import LatEngine.LatAggSem.
From AV Require Import LatEngine.LatAggMain.
From AV Require Import LatEngine.LatIndexedEval.
From AV Require Import LatEngine.LatIndexedStore.
From AV Require Import LatEngine.LatIndexedRefine.
Import ListNotations.
Local Open Scope nat_scope.

(* ---------- the plan check, unpacked ---------- *)
Lemma xplan_ok_unpack : forall islat arities ds pl, xplan_ok islat arities ds pl = true ->
  (forall r, islat r = true -> In r (map fst arities)) ->
  forallb (fun sc => forallb (xvariant_ok islat arities ds (s_dyn sc)) (s_vars sc)) pl = true
  /\ forall r, islat r = true -> xdecl_ok islat arities ds r = true.
Proof.
  intros islat arities ds pl H Hdom. unfold xplan_ok in H. apply andb_true_iff in H as [H _]. apply andb_true_iff in H as [H1 H2].
  split; [exact H1|]. intros r Hl. apply Hdom in Hl. apply in_map_iff in Hl as [p [<- Hp]]. rewrite forallb_forall in H2. exact (H2 p Hp).
Qed.

Lemma ar_of_arity_ok : forall arities r, In r (map fst arities) -> arity_ok arities r (ar_of arities r) = true.
Proof.
  intros arities r Hin. unfold ar_of, arity_ok. apply in_map_iff in Hin as [p0 [E0 H0]].
  destruct (find (fun p => Nat.eqb (fst p) r) arities) as [p|] eqn:Ef.
  - apply find_some in Ef as [Hp E]. apply existsb_exists. exists p. split; [exact Hp|]. rewrite E, Nat.eqb_refl. reflexivity.
  - exfalso. pose proof (find_none _ _ Ef p0 H0) as E. cbv beta in E. apply Nat.eqb_neq in E. apply E. exact E0.
Qed.

Lemma rows_len_of_arity : forall (V : Type) (islat : rel -> bool) arities (Rin : rel -> list (vtuple V)),
  (forall r, islat r = true -> In r (map fst arities)) ->
  (forall r row, In row (Rin r) -> forall n, arity_ok arities r n = true -> length row = n) ->
  rows_len islat arities Rin.
Proof. intros V islat arities Rin Hdom H r Hl row Hin. apply (H r row Hin). apply ar_of_arity_ok. apply Hdom. exact Hl. Qed.

(* ---------- the refinement, under the boolean check ---------- *)
Theorem lat_indexed_refines : forall (V : Type) (I : linterp V), veqb_ok I ->
  forall (vagg : nat -> list (list V) -> list V) (islat : rel -> bool) (jm : rel -> V -> V -> V * bool)
         (shuffle : nat -> list nat -> list nat), (forall n l x, In x (shuffle n l) -> In x l) ->
  forall ashuffle : nat -> list nat -> list nat, (forall n l x, In x (ashuffle n l) -> In x l) ->
  forall (swap_oracle : nat -> list nat -> list nat -> bool) (arities : list (rel * nat)) (ds : list xdecl) (pl : plan),
  xplan_ok islat arities ds pl = true -> (forall r, islat r = true -> In r (map fst arities)) ->
  forall (fuel : nat) (Rin : rel -> list (vtuple V)) (xst : xlstate),
  rows_len islat arities Rin -> keys_ok islat Rin ->
  xrun_plan I vagg islat jm shuffle ashuffle swap_oracle (decls_of ds) fuel pl Rin = Some xst ->
  exists st, arun_plan I vagg islat jm shuffle ashuffle swap_oracle fuel pl Rin = Some st
             /\ l_rows st = l_rows (xl_s xst) /\ l_tick st = l_tick (xl_s xst)
             /\ (forall r, islat r = true -> stinv I arities ds (l_rows st) r (xl_ix xst r) (l_stored st r)).
Proof.
  intros V I Heq vagg islat jm shuffle Hshuf ashuffle Hashuf swap_oracle arities ds pl Hok Hdom fuel Rin xst Hlen Hkey Hrun.
  destruct (xplan_ok_unpack islat arities ds pl Hok Hdom) as [Hpl Hdecl].
  exact (xrun_refines_arun I Heq vagg islat jm shuffle Hshuf ashuffle Hashuf swap_oracle arities ds Hdecl fuel pl Rin xst Hpl Hlen Hkey Hrun).
Qed.

(* ---------- C04 over lattices ---------- *)
Theorem lat_indexed_agg_stratified_model : forall (V : Type) (I : linterp V), veqb_ok I ->
  forall vagg : nat -> list (list V) -> list V, (forall a l l', Permutation l l' -> vagg a l = vagg a l') ->
  forall (islat : rel -> bool) (lle : rel -> V -> V -> Prop) (jm : rel -> V -> V -> V * bool),
  (forall r, islat r = true -> lat_laws (lle r) (jm r)) ->
  forall shuffle : nat -> list nat -> list nat, (forall n l x, In x (shuffle n l) <-> In x l) ->
  forall ashuffle : nat -> list nat -> list nat, (forall n l, Permutation (ashuffle n l) l) ->
  forall (swap_oracle : nat -> list nat -> list nat -> bool) (arities : list (rel * nat)), arities_functional arities ->
  forall (P : list rule) (N : var), amonotone_program I islat lle N P ->
  forall pl : plan, validate arities P pl = true -> alat_plan_ok islat arities pl = true -> plan_below N pl = true ->
  forall ds : list xdecl, xplan_ok islat arities ds pl = true -> (forall r, islat r = true -> In r (map fst arities)) ->
  forall (fuel : nat) (Rin : rel -> list (vtuple V)) (xst : xlstate), ainput_ok I islat lle arities Rin ->
  xrun_plan I vagg islat jm shuffle ashuffle swap_oracle (decls_of ds) fuel pl Rin = Some xst ->
  stratified (plan_strata P pl) = true
  /\ (forall r, In r P <-> In r (concat (plan_strata P pl)))
  /\ strat_lat_model I vagg islat lle (plan_strata P pl) Rin (l_rows (xl_s xst))
  /\ keys_ok islat (l_rows (xl_s xst)) /\ plain_nodup islat (l_rows (xl_s xst)).
Proof.
  intros V I Heq vagg Hperm islat lle jm Hlaws shuffle Hshuf ashuffle Hashuf swap_oracle arities Hfun P N Hmono pl Hval Halat Hbelow
         ds Hok Hdom fuel Rin xst Hin Hrun.
  assert (Hlen : rows_len islat arities Rin) by (apply rows_len_of_arity; [exact Hdom | exact (proj1 Hin)]).
  assert (Hkey : keys_ok islat Rin) by exact (proj1 (proj2 Hin)).
  destruct (lat_indexed_refines V I Heq vagg islat jm shuffle (fun n l x H => proj1 (Hshuf n l x) H) ashuffle
              (fun n l x H => Permutation_in x (Hashuf n l) H) swap_oracle arities ds pl Hok Hdom fuel Rin xst Hlen Hkey Hrun)
    as [st [Hrun' [Hrows _]]].
  rewrite <- Hrows.
  exact (lat_agg_stratified_model I Heq vagg Hperm islat lle jm Hlaws shuffle Hshuf ashuffle Hashuf swap_oracle arities Hfun P N Hmono pl
           Hval Halat Hbelow fuel Rin st Hin Hrun').
Qed.

(* ---------- programs without aggregation: arun_plan is run_plan ---------- *)
Section NoAgg.
Context {V : Type}.
Variable I : linterp V.
Variable vagg : nat -> list (list V) -> list V.
Variable islat : rel -> bool.
Variable jm : rel -> V -> V -> V * bool.
Variable shuffle : nat -> list nat -> list nat.
Variable ashuffle : nat -> list nat -> list nat.
Variable swap_oracle : nat -> list nat -> list nat -> bool.

Lemma fold_left_ext_in : forall (A B : Type) (f g : A -> B -> A) l a, (forall a b, In b l -> f a b = g a b) -> fold_left f l a = fold_left g l a.
Proof.
  intros A B f g. induction l as [|b l IH]; intros a H; [reflexivity|]. cbn [fold_left]. rewrite (H a b (or_introl eq_refl)).
  apply IH. intros a' b' Hb'. apply H. right. exact Hb'.
Qed.

Definition noagg_item (p : pitem) : bool := match p with PAgg _ _ _ _ _ _ => false | _ => true end.

Lemma lat_item_noagg : forall p, lat_item_ok islat p = true -> noagg_item p = true.
Proof. intros [r args cs idx ver|c|x g xs|o a bd r args idx] H; cbn in *; auto. Qed.

Section Iter.
Variable dyn : list rel.
Variables St T D : rel -> list nat.

Notation eval_clause := (eval_clause I shuffle dyn St T D).
Notation aeval_items := (aeval_items I vagg islat shuffle ashuffle dyn St T D).
Notation eval_items := (eval_items I shuffle dyn St T D).

Lemma eval_clause_ext : forall k1 k2 e r args cs idx ver s, (forall e s, k1 e s = k2 e s) ->
  eval_clause k1 e r args cs idx ver s = eval_clause k2 e r args cs idx ver s.
Proof.
  intros k1 k2 e r args cs idx ver s Hk. unfold LatEval.eval_clause. destruct (veval_key I e args idx); [|reflexivity].
  apply fold_left_ext_in. intros s1 i _. unfold clause_step. destruct (nth_error (i_rows s1 r) i); [|reflexivity].
  destruct (vlist_eqb I (vproj I idx v) l); [|reflexivity]. destruct (vsat_conds I (vbind_new e args v) cs); [apply Hk | reflexivity].
Qed.

Lemma aeval_items_noagg : forall items k e s, forallb noagg_item items = true -> aeval_items items k e s = eval_items items k e s.
Proof.
  induction items as [|p rest IH]; intros k e s H; [reflexivity|]. cbn [forallb] in H. apply andb_true_iff in H as [Hp Hr].
  destruct p as [r args cs idx ver|c|x g xs|o a bd r args idx]; cbn [LatAggEval.aeval_items LatEval.eval_items]; try discriminate.
  - apply eval_clause_ext. intros e1 s1. apply IH. exact Hr.
  - destruct (vsat_cond I e c); [apply IH; exact Hr | reflexivity].
  - destruct (veval_vars e xs); [|reflexivity]. apply fold_left_ext_in. intros s1 v _. apply IH. exact Hr.
Qed.

Lemma aeval_sj_noagg : forall items reord k e s, forallb noagg_item items = true ->
  aeval_simple_join I vagg islat shuffle ashuffle swap_oracle dyn St T D items reord k e s
  = eval_simple_join I shuffle swap_oracle dyn St T D items reord k e s.
Proof.
  intros items reord k e s H. unfold aeval_simple_join, eval_simple_join.
  destruct items as [|[r1 a1 c1 i1 v1|c|x g xs|o a bd r args idx] items]; try (apply aeval_items_noagg; exact H).
  destruct items as [|[r2 a2 c2 i2 v2|c|x g xs|o a bd r args idx] rest]; try (apply aeval_items_noagg; exact H).
  cbn [forallb noagg_item andb] in H.
  destruct (reord && negb (swap_oracle (i_tick s) (vrows dyn St T D r1 v1) (vrows dyn St T D r2 v2)));
    apply eval_clause_ext; intros e1 s1; apply eval_clause_ext; intros e2 s2; apply aeval_items_noagg; exact H.
Qed.

Lemma aeval_from_noagg : forall sj items reord k e s, forallb noagg_item items = true ->
  aeval_from I vagg islat shuffle ashuffle swap_oracle dyn St T D items sj reord k e s
  = eval_from I shuffle swap_oracle dyn St T D items sj reord k e s.
Proof.
  intros [n|]; [|intros items reord k e s H; destruct items; cbn [aeval_from eval_from]; apply aeval_items_noagg; exact H].
  induction n as [|n IH]; intros items reord k e s H.
  - destruct items; cbn [aeval_from eval_from]; apply aeval_sj_noagg; exact H.
  - destruct items as [|p rest]; cbn [aeval_from eval_from]; [reflexivity|]. cbn [forallb] in H. apply andb_true_iff in H as [Hp Hr].
    destruct p as [r args cs idx ver|c|x g xs|o a bd r args idx]; try discriminate.
    + apply eval_clause_ext. intros e1 s1. apply IH. exact Hr.
    + destruct (vsat_cond I e c); [apply IH; exact Hr | reflexivity].
    + destruct (veval_vars e xs); [|reflexivity]. apply fold_left_ext_in. intros s1 v _. apply IH. exact Hr.
Qed.

Lemma aeval_variant_noagg : forall s v, lat_variant_ok islat v = true ->
  aeval_variant I vagg islat jm shuffle ashuffle swap_oracle dyn St T D s v = eval_variant I islat jm shuffle swap_oracle dyn St T D s v.
Proof.
  intros s v H. unfold aeval_variant, eval_variant.
  destruct (Nat.ltb 1 (length (filter is_clause (v_items v))) &&
            negb match v_sj v with Some _ => Nat.eqb (length (filter is_clause (v_items v))) 2 | None => false end &&
            existsb (clause_empty dyn St T D) (v_items v)); [reflexivity|].
  apply aeval_from_noagg. unfold lat_variant_ok in H. apply forallb_forall. intros p Hp. apply lat_item_noagg.
  rewrite forallb_forall in H. apply H. exact Hp.
Qed.

Lemma ascc_iteration_noagg : forall sc R tk, forallb (lat_variant_ok islat) (s_vars sc) = true ->
  ascc_iteration I vagg islat jm shuffle ashuffle swap_oracle dyn St T D sc R tk = scc_iteration I islat jm shuffle swap_oracle dyn St T D sc R tk.
Proof.
  intros sc R tk H. unfold ascc_iteration, scc_iteration. apply fold_left_ext_in. intros s v Hv. apply aeval_variant_noagg.
  rewrite forallb_forall in H. apply H. exact Hv.
Qed.
End Iter.

Lemma ascc_loop_noagg : forall fuel sc St T D R tk, forallb (lat_variant_ok islat) (s_vars sc) = true ->
  ascc_loop I vagg islat jm shuffle ashuffle swap_oracle fuel sc St T D R tk = scc_loop I islat jm shuffle swap_oracle fuel sc St T D R tk.
Proof.
  induction fuel as [|fuel IH]; intros sc St T D R tk H; [reflexivity|]. cbn [ascc_loop scc_loop].
  rewrite (ascc_iteration_noagg (s_dyn sc) St T D sc R tk H).
  destruct (i_changed (scc_iteration I islat jm shuffle swap_oracle (s_dyn sc) St T D sc R tk)); [apply IH; exact H | reflexivity].
Qed.

Lemma arun_noagg : forall fuel pl Rin, forallb (fun sc => forallb (lat_variant_ok islat) (s_vars sc)) pl = true ->
  arun_plan I vagg islat jm shuffle ashuffle swap_oracle fuel pl Rin = run_plan I islat jm shuffle swap_oracle fuel pl Rin.
Proof.
  intros fuel pl Rin. unfold arun_plan, run_plan. generalize (update_indices Rin). induction pl as [|sc pl IH]; intros st H; [reflexivity|].
  cbn [forallb] in H. apply andb_true_iff in H as [Hsc Hpl]. cbn [arun_sccs run_sccs].
  assert (E : arun_scc I vagg islat jm shuffle ashuffle swap_oracle fuel sc st = run_scc I islat jm shuffle swap_oracle fuel sc st).
  { unfold arun_scc, run_scc. rewrite (ascc_loop_noagg fuel sc _ _ _ _ _ Hsc), (ascc_iteration_noagg (s_dyn sc) _ _ _ sc _ _ Hsc). reflexivity. }
  rewrite E. destruct (run_scc I islat jm shuffle swap_oracle fuel sc st); [apply IH; exact Hpl | reflexivity].
Qed.
End NoAgg.

(* ---------- C03 ---------- *)
Theorem lat_indexed_run_least_fixed_point : forall (V : Type) (I : linterp V) islat lle jm shuffle swap_oracle arities P pl Rin fuel,
  veqb_ok I -> (forall r, islat r = true -> lat_laws (lle r) (jm r)) ->
  (forall n l x, In x (shuffle n l) <-> In x l) ->
  arities_functional arities -> no_agg P = true -> monotone_program I islat lle P ->
  validate arities P pl = true -> lat_plan_ok islat arities pl = true ->
  LatMain.input_ok I islat lle arities Rin ->
  forall (vagg : nat -> list (list V) -> list V) (ashuffle : nat -> list nat -> list nat), (forall n l x, In x (ashuffle n l) -> In x l) ->
  forall ds : list xdecl, xplan_ok islat arities ds pl = true -> (forall r, islat r = true -> In r (map fst arities)) ->
  forall xst : xlstate,
  xrun_plan I vagg islat jm shuffle ashuffle swap_oracle (decls_of ds) fuel pl Rin = Some xst ->
  let F := dbof (l_rows (xl_s xst)) in
  (directed I islat lle F /\ closedH I islat lle P F /\ dble I islat lle (dbof Rin) F /\
   forall J : db, directed I islat lle J -> closedH I islat lle P J -> dble I islat lle (dbof Rin) J -> dble I islat lle F J)
  /\ forall r, islat r = true -> NoDup (map tkey (l_rows (xl_s xst) r)).
Proof.
  intros V I islat lle jm shuffle swap_oracle arities P pl Rin fuel Heq Hlaws Hshuf Hfun Hnoagg Hmono Hval Hlat Hin vagg ashuffle Hashuf
         ds Hok Hdom xst Hrun.
  assert (Hlen : rows_len islat arities Rin) by (apply rows_len_of_arity; [exact Hdom | exact (proj1 Hin)]).
  assert (Hkey : keys_ok islat Rin) by exact (proj1 (proj2 Hin)).
  destruct (lat_indexed_refines V I Heq vagg islat jm shuffle (fun n l x H => proj1 (Hshuf n l x) H) ashuffle Hashuf
              swap_oracle arities ds pl Hok Hdom fuel Rin xst Hlen Hkey Hrun) as [st [Hrun' [Hrows _]]].
  assert (Hna : forallb (fun sc => forallb (lat_variant_ok islat) (s_vars sc)) pl = true).
  { unfold lat_plan_ok in Hlat. apply andb_true_iff in Hlat as [H _]. exact H. }
  rewrite (arun_noagg I vagg islat jm shuffle ashuffle swap_oracle fuel pl Rin Hna) in Hrun'.
  cbn zeta. rewrite <- Hrows. split.
  - exact (lat_run_least_fixed_point I Heq islat lle jm Hlaws shuffle Hshuf swap_oracle arities Hfun P Hnoagg Hmono pl Hval Hlat Rin Hin fuel st Hrun').
  - exact (lat_run_unique_key I Heq islat lle jm Hlaws shuffle Hshuf swap_oracle arities Hfun P Hnoagg Hmono pl Hval Hlat Rin Hin fuel st Hrun').
Qed.

Print Assumptions lat_indexed_refines.
Print Assumptions lat_indexed_agg_stratified_model.
Print Assumptions lat_indexed_run_least_fixed_point.
