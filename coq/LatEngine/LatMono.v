(* C03 - monotonicity at the level of environments: if a body item / head is evaluated in environment e and
   e' is above e (pointwise, in the orders G of the rule's variables), it can be evaluated in e' too and the
   results are again related.  This one simulation is used three times: engine -> any closed set (soundness),
   a satisfying instance over an earlier snapshot -> engine (closedness), and with e' = e (well-formedness). *)
From Coq Require Import List ZArith Bool Arith Lia.
From AV Require Import Engine.Core.
From AV Require Import Engine.Eval.
From AV Require Import Engine.Validate.
From AV Require Engine.EnvLemmas.
From AV Require Engine.EvalSpec.
From AV Require Import LatEngine.LatSyntax.
From AV Require Import LatEngine.LatEnv.
From AV Require Import LatEngine.LatClause.
From AV Require Import LatEngine.LatSem.
Import ListNotations.
Local Open Scope nat_scope.

Section Mono.
Context {V : Type}.
Variable I : linterp V.
Hypothesis Heq : veqb_ok I.
Variable islat : rel -> bool.
Variable lle : rel -> V -> V -> Prop.
Variable G : vorder (V:=V).

Lemma ele_nil : ele G [] [].
Proof. intros x. rewrite !vlookup_nil. exact Logic.I. Qed.

Lemma ele_bound : forall (e e' : venv V) x, ele G e e' -> vbound e x = vbound e' x.
Proof.
  intros e e' x H. specialize (H x). unfold vbound. destruct (vlookup e x), (vlookup e' x); auto; contradiction.
Qed.

Lemma ele_dom : forall (e e' : venv V) B, ele G e e' -> vdom e B -> vdom e' B.
Proof. intros e e' B H Hd x. rewrite <- (ele_bound e e' x H). apply Hd. Qed.

Lemma ele_none : forall (e e' : venv V) x, ele G e e' -> vlookup e x = None -> vlookup e' x = None.
Proof. intros e e' x H Hn. specialize (H x). rewrite Hn in H. destruct (vlookup e' x); [contradiction|reflexivity]. Qed.

Lemma ele_bind : forall (e e' : venv V) x v v', ele G e e' -> G x v v' -> ele G (vbind x v e) (vbind x v' e').
Proof.
  intros e e' x v v' H Hv y. destruct (Nat.eq_dec x y) as [->|Hne].
  - rewrite !vlookup_bind_eq. exact Hv.
  - rewrite !vlookup_bind_neq by assumption. apply H.
Qed.

Lemma ele_plain_lookup : forall (e e' : venv V) x, ele G e e' -> plain_var G x -> vlookup e x = vlookup e' x.
Proof.
  intros e e' x H Hp. specialize (H x). destruct (vlookup e x), (vlookup e' x); try contradiction; auto.
  apply Hp in H. congruence.
Qed.

Lemma ele_plain_vars : forall (e e' : venv V) xs, ele G e e' -> (forall x, In x xs -> plain_var G x) -> veval_vars e xs = veval_vars e' xs.
Proof.
  intros e e' xs H Hp. symmetry. apply veval_vars_agree. intros x Hx. symmetry. apply ele_plain_lookup; auto.
Qed.

Lemma ele_plain_term : forall (e e' : venv V) t, ele G e e' -> plain_term G t -> veval_term I e t = veval_term I e' t.
Proof.
  intros e e' t H Hp. symmetry. apply veval_term_agree. intros x Hx. symmetry. apply ele_plain_lookup; auto.
Qed.

Lemma plain_refl : forall x a, plain_var G x -> G x a a.
Proof. intros x a Hp. apply Hp. reflexivity. Qed.

(* ---------- conditions ---------- *)
Lemma conds_mono : forall cs (e e' e1 : venv V),
  Forall (mono_cond I G) cs -> ele G e e' -> vsat_conds I e cs = Some e1 ->
  exists e1', vsat_conds I e' cs = Some e1' /\ ele G e1 e1'.
Proof.
  induction cs as [|c cs IH]; intros e e' e1 Hm Hle Hs; cbn in *.
  - inversion Hs; subst. eauto.
  - inversion Hm as [|? ? Hc Hcs]; subst.
    destruct (vsat_cond I e c) as [e0|] eqn:Ec; try discriminate.
    destruct (Hc e e' e0 Hle Ec) as [e0' [Ec' Hle0]]. rewrite Ec'. eapply IH; eauto.
Qed.

(* ---------- matching ---------- *)
Lemma vmatch_args_length : forall args (t : vtuple V) (e e1 : venv V), vmatch_args I e args t = Some e1 -> length args = length t.
Proof.
  induction args as [|a args IH]; intros t e e1 H; destruct t as [|v t]; cbn in H; try discriminate; auto.
  cbn. f_equal. destruct a as [x|c|f xs].
  - destruct (vlookup e x) as [w|]; [destruct (veqb I w v); try discriminate|]; eapply IH; eauto.
  - destruct (veval_term I e (TConst c)) as [w|]; try discriminate. destruct (veqb I w v); try discriminate. eapply IH; eauto.
  - destruct (veval_term I e (TFun f xs)) as [w|]; try discriminate. destruct (veqb I w v); try discriminate. eapply IH; eauto.
Qed.

Lemma vmatch_args_app : forall a1 a2 (t1 t2 : vtuple V) (e : venv V), length a1 = length t1 ->
  vmatch_args I e (a1 ++ a2) (t1 ++ t2) = match vmatch_args I e a1 t1 with Some em => vmatch_args I em a2 t2 | None => None end.
Proof.
  induction a1 as [|a a1 IH]; intros a2 t1 t2 e Hl; destruct t1 as [|v t1]; try discriminate; auto.
  cbn in Hl. injection Hl as Hl. cbn [app vmatch_args]. destruct a as [x|c|f xs].
  - destruct (vlookup e x) as [w|]; [destruct (veqb I w v); auto|]; apply IH; auto.
  - destruct (veval_term I e (TConst c)) as [w|]; auto. destruct (veqb I w v); auto.
  - destruct (veval_term I e (TFun f xs)) as [w|]; auto. destruct (veqb I w v); auto.
Qed.

Lemma match_plain : forall args (t : vtuple V) (e e' e1 : venv V),
  Forall (plain_term G) args -> ele G e e' -> vmatch_args I e args t = Some e1 ->
  exists e1', vmatch_args I e' args t = Some e1' /\ ele G e1 e1'.
Proof.
  induction args as [|a args IH]; intros t e e' e1 Hp Hle Hm; destruct t as [|v t]; cbn in Hm; try discriminate.
  - inversion Hm; subst. cbn. eauto.
  - inversion Hp as [|? ? Ha Hargs]; subst.
    assert (Hgen : forall w, veval_term I e a = Some w -> (if veqb I w v then vmatch_args I e args t else None) = Some e1 ->
              exists e1', (match veval_term I e' a with Some w => if veqb I w v then vmatch_args I e' args t else None | None => None end) = Some e1'
                          /\ ele G e1 e1').
    { intros w Hw Hm'. rewrite <- (ele_plain_term e e' a Hle Ha), Hw. destruct (veqb I w v); try discriminate. eapply IH; eauto. }
    destruct a as [x|c|f xs].
    + cbn [vmatch_args]. assert (Hx : plain_var G x) by (apply Ha; left; reflexivity).
      rewrite <- (ele_plain_lookup e e' x Hle Hx). destruct (vlookup e x) as [w|] eqn:Ex.
      * destruct (veqb I w v); try discriminate. eapply IH; eauto.
      * eapply IH; eauto. apply ele_bind; auto. apply plain_refl; auto.
    + cbn [vmatch_args]. destruct (veval_term I e (TConst c)) as [w|] eqn:Ew; try discriminate. apply (Hgen w); auto.
    + cbn [vmatch_args]. destruct (veval_term I e (TFun f xs)) as [w|] eqn:Ew; try discriminate. apply (Hgen w); auto.
Qed.

Lemma split_last : forall (t : vtuple V) n, length t = S n -> t = tkey t ++ [tval I t] /\ length (tkey t) = n.
Proof.
  intros t n Hl. assert (Hne : t <> []) by (intros ->; discriminate).
  split.
  - unfold tkey, tval. apply app_removelast_last. exact Hne.
  - unfold tkey. pose proof (app_removelast_last (vd I) Hne) as H. rewrite H in Hl at 1. rewrite app_length in Hl. cbn in Hl. lia.
Qed.

Lemma tkey_app : forall (k : list V) v, tkey (k ++ [v]) = k.
Proof. intros. unfold tkey. apply removelast_last. Qed.
Lemma tval_app : forall (k : list V) v, tval I (k ++ [v]) = v.
Proof. intros. unfold tval. apply last_last. Qed.

(* a body clause: the tuple may be replaced by a bigger one of the same key *)
Lemma match_mono : forall r args (t t' : vtuple V) (e e' e1 : venv V),
  mono_clause islat lle G r args -> ele G e e' -> tle I islat lle r t t' ->
  (islat r = true -> forall kargs x em, args = kargs ++ [TVar x] -> vmatch_args I e kargs (tkey t) = Some em -> vlookup em x = None) ->
  vmatch_args I e args t = Some e1 ->
  exists e1', vmatch_args I e' args t' = Some e1' /\ ele G e1 e1'.
Proof.
  intros r args t t' e e' e1 Hmc Hle Ht Hfresh Hm. unfold mono_clause in Hmc. unfold tle in Ht.
  destruct (islat r) eqn:Hl.
  - destruct Hmc as [kargs [x [-> [Hk Hx]]]]. destruct Ht as [Hkey [Hlen Hv]].
    pose proof (vmatch_args_length _ _ _ _ Hm) as Hl1. rewrite app_length in Hl1. cbn in Hl1. rewrite Nat.add_1_r in Hl1.
    destruct (split_last t (length kargs) (eq_sym Hl1)) as [Et Hlk].
    assert (Hl2 : length t' = S (length kargs)) by congruence.
    destruct (split_last t' (length kargs) Hl2) as [Et' Hlk'].
    rewrite Et in Hm. rewrite vmatch_args_app in Hm by (symmetry; exact Hlk).
    destruct (vmatch_args I e kargs (tkey t)) as [em|] eqn:Em; try discriminate.
    pose proof (Hfresh eq_refl kargs x em eq_refl Em) as Hn.
    cbn in Hm. rewrite Hn in Hm. inversion Hm; subst e1. clear Hm.
    destruct (match_plain kargs (tkey t) e e' em Hk Hle Em) as [em' [Em' Hle']].
    rewrite Et'. rewrite vmatch_args_app by (symmetry; exact Hlk'). rewrite <- Hkey, Em'. cbn.
    rewrite (ele_none em em' x Hle' Hn). eexists. split; [reflexivity|]. apply ele_bind; auto.
  - subst t'. eapply match_plain; eauto.
Qed.

(* ---------- freshness of the lattice column variable, from the validator's index check ---------- *)
Lemma expected_idx_last : forall B kargs a pos newv idx nv,
  expected_idx B (kargs ++ [a]) pos newv = Some (idx, nv) -> ~ In (pos + length kargs) idx ->
  exists x idx0 nv0, a = TVar x /\ expected_idx B kargs pos newv = Some (idx0, nv0) /\ memv x B = false /\ memv x nv0 = false.
Proof.
  intros B; induction kargs as [|b ks IH]; intros a pos newv idx nv Hx Hni; cbn [app] in Hx.
  - cbn [length] in Hni. rewrite Nat.add_0_r in Hni. cbn in Hx. destruct a as [x|c|f xs].
    + destruct (memv x B) eqn:EB.
      * injection Hx as <- _. exfalso. apply Hni. left. reflexivity.
      * destruct (memv x newv) eqn:EN; try discriminate. exists x, [], newv. cbn. auto.
    + destruct (subv (term_vars (TConst c)) B); try discriminate. injection Hx as <- _. exfalso. apply Hni. left. reflexivity.
    + destruct (subv (term_vars (TFun f xs)) B); try discriminate. injection Hx as <- _. exfalso. apply Hni. left. reflexivity.
  - cbn [length] in Hni. replace (pos + S (length ks)) with (S pos + length ks) in Hni by lia.
    cbn [expected_idx] in Hx |- *. destruct b as [y|c|f xs].
    + destruct (memv y B) eqn:EB.
      * destruct (expected_idx B (ks ++ [a]) (S pos) newv) as [[ix nv']|] eqn:Ei; try discriminate. injection Hx as <- <-.
        destruct (IH a (S pos) newv ix nv' Ei) as [x [idx0 [nv0 [Ha [E0 [H1 H2]]]]]].
        { intros Hin. apply Hni. right. exact Hin. }
        exists x, (pos :: idx0), nv0. rewrite E0. auto.
      * destruct (memv y newv) eqn:EN; try discriminate.
        destruct (IH a (S pos) (y :: newv) idx nv Hx Hni) as [x [idx0 [nv0 [Ha [E0 [H1 H2]]]]]].
        exists x, idx0, nv0. auto.
    + destruct (subv (term_vars (TConst c)) B); try discriminate.
      destruct (expected_idx B (ks ++ [a]) (S pos) newv) as [[ix nv']|] eqn:Ei; try discriminate. injection Hx as <- <-.
      destruct (IH a (S pos) newv ix nv' Ei) as [x [idx0 [nv0 [Ha [E0 [H1 H2]]]]]].
      { intros Hin. apply Hni. right. exact Hin. }
      exists x, (pos :: idx0), nv0. rewrite E0. auto.
    + destruct (subv (term_vars (TFun f xs)) B); try discriminate.
      destruct (expected_idx B (ks ++ [a]) (S pos) newv) as [[ix nv']|] eqn:Ei; try discriminate. injection Hx as <- <-.
      destruct (IH a (S pos) newv ix nv' Ei) as [x [idx0 [nv0 [Ha [E0 [H1 H2]]]]]].
      { intros Hin. apply Hni. right. exact Hin. }
      exists x, (pos :: idx0), nv0. rewrite E0. auto.
Qed.

Lemma fresh_last : forall B kargs x idx nv (e em : venv V) (k : vtuple V),
  expected_idx B (kargs ++ [TVar x]) 0 [] = Some (idx, nv) -> ~ In (length kargs) idx ->
  vdom e B -> vmatch_args I e kargs k = Some em -> vlookup em x = None.
Proof.
  intros B kargs x idx nv e em k Hx Hni Hd Hm.
  destruct (expected_idx_last B kargs (TVar x) 0 [] idx nv Hx Hni) as [y [idx0 [nv0 [Ha [E0 [H1 H2]]]]]].
  injection Ha as <-.
  pose proof (vmatch_args_length _ _ _ _ Hm) as Hl.
  destruct (vclause_key I Heq B kargs k [] e e idx0 nv0 E0 Hd (fun _ _ => eq_refl) Hl) as [key [_ [_ Hd']]].
  rewrite vmatch_args_chk in Hm. destruct (vchk I e kargs k); try discriminate. inversion Hm; subst em.
  apply (vdom_lookup_none _ _ _ Hd'). rewrite EnvLemmas.memv_app, H2, H1. reflexivity.
Qed.

(* ---------- heads ---------- *)
Lemma veval_terms_app : forall (e : venv V) a b,
  veval_terms I e (a ++ b) = match veval_terms I e a, veval_terms I e b with Some x, Some y => Some (x ++ y) | _, _ => None end.
Proof.
  intros e a b. induction a as [|t a IH]; cbn [app veval_terms].
  - destruct (veval_terms I e b); reflexivity.
  - destruct (veval_term I e t); [|reflexivity]. rewrite IH.
    destruct (veval_terms I e a); [|reflexivity]. destruct (veval_terms I e b); reflexivity.
Qed.

Lemma ele_plain_terms : forall (e e' : venv V) ts, ele G e e' -> Forall (plain_term G) ts -> veval_terms I e ts = veval_terms I e' ts.
Proof.
  intros e e' ts H Hp. induction Hp as [|t ts Ht Hts IH]; cbn [veval_terms]; auto.
  rewrite (ele_plain_term e e' t H Ht), IH. reflexivity.
Qed.

Lemma head_mono_eval : forall h (e e' : venv V) f,
  mono_head I islat lle G h -> ele G e e' -> veval_head I e h = Some f ->
  exists f', veval_head I e' h = Some f' /\ fst f' = fst f /\ tle I islat lle (fst f) (snd f) (snd f').
Proof.
  intros [r args] e e' f Hm Hle Hf. unfold veval_head in *. cbn [fst snd] in *. unfold mono_head in Hm. cbn [fst snd] in Hm.
  destruct (veval_terms I e args) as [vs|] eqn:Ev; [|discriminate]. cbn in Hf. injection Hf as <-. cbn [fst snd].
  unfold tle. destruct (islat r) eqn:Hl.
  - destruct Hm as [kargs [t [-> [Hk Ht]]]]. rewrite veval_terms_app in Ev |- *.
    rewrite <- (ele_plain_terms e e' kargs Hle Hk).
    destruct (veval_terms I e kargs) as [ks|]; [|discriminate]. cbn [veval_terms] in Ev |- *.
    destruct (veval_term I e t) as [v|] eqn:Et; [|discriminate]. injection Ev as <-.
    destruct (Ht e e' v Hle Et) as [v' [Et' Hv]]. rewrite Et'. eexists. split; [reflexivity|]. cbn [fst snd]. split; [reflexivity|].
    rewrite !tkey_app, !tval_app. split; [reflexivity|]. split; [rewrite !app_length; reflexivity | exact Hv].
  - rewrite <- (ele_plain_terms e e' args Hle Hm), Ev. eexists. split; [reflexivity|]. cbn. auto.
Qed.
End Mono.
