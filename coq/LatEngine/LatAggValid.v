(* C04 over lattices - the translated SCCs pass the validator.

   [scc_ok_tr]: if an SCC of a plan passes [scc_ok] over the source program P and all its variables are
   below N, then its translation [tr_scc K N sc] (aggregates replaced by positional generators,
   LatAggTrans.v) passes [scc_ok] over the SCC's own translated program [scc_prog P K N sc].
   Hence [tr_plan_ok] follows from [validate] and [plan_below].

   The variable bookkeeping: the translated check runs with a list Bt of bound variables that agrees
   with the source list B below N and contains, above N, only the variables N + p' of output-less
   aggregates at earlier positions p' < p ([Bsim]). *)
From Coq Require Import List ZArith Bool Arith Lia.
From AV Require Import Engine.Core.
From AV Require Import Engine.Eval.
From AV Require Import Engine.Validate.
From AV Require Import Engine.NaiveLemmas.
From AV Require Import LatEngine.LatAggTrans.
Import ListNotations.
Local Open Scope nat_scope.

(* ---------- reflexivity of the boolean equalities ---------- *)
Lemma nats_eqb_refl : forall l, nats_eqb l l = true.
Proof.
  induction l as [|x l IH]; cbn [nats_eqb]; [reflexivity|]. rewrite Nat.eqb_refl, IH. reflexivity.
Qed.

Lemma list_eqb_refl : forall (A : Type) (eqb : A -> A -> bool),
  (forall x, eqb x x = true) -> forall l, list_eqb eqb l l = true.
Proof.
  intros A eqb H. induction l as [|x l IH]; cbn [list_eqb]; [reflexivity|]. rewrite H, IH. reflexivity.
Qed.

Lemma term_eqb_refl : forall t, term_eqb t t = true.
Proof.
  intros [x|c|f xs]; cbn [term_eqb].
  - apply Nat.eqb_refl.
  - apply Z.eqb_refl.
  - rewrite Nat.eqb_refl, nats_eqb_refl. reflexivity.
Qed.

Lemma cond_eqb_refl : forall c, cond_eqb c c = true.
Proof.
  intros [p xs|x f xs]; cbn [cond_eqb]; rewrite ?Nat.eqb_refl, nats_eqb_refl; reflexivity.
Qed.

Lemma aarg_eqb_refl : forall a, aarg_eqb a a = true.
Proof.
  intros [|x|t]; cbn [aarg_eqb]; [reflexivity | apply Nat.eqb_refl | apply term_eqb_refl].
Qed.

Lemma optnat_eqb_refl : forall o, optnat_eqb o o = true.
Proof. intros [x|]; cbn [optnat_eqb]; [apply Nat.eqb_refl | reflexivity]. Qed.

Lemma bitem_eqb_refl : forall b, bitem_eqb b b = true.
Proof.
  intros [r args cs|c|x g xs|o a bd r args]; cbn [bitem_eqb].
  - rewrite Nat.eqb_refl, (list_eqb_refl _ _ term_eqb_refl), (list_eqb_refl _ _ cond_eqb_refl). reflexivity.
  - apply cond_eqb_refl.
  - rewrite !Nat.eqb_refl, nats_eqb_refl. reflexivity.
  - rewrite optnat_eqb_refl, !Nat.eqb_refl, nats_eqb_refl, (list_eqb_refl _ _ aarg_eqb_refl). reflexivity.
Qed.

Lemma head_eqb_refl : forall h, head_eqb h h = true.
Proof.
  intros h. unfold head_eqb. rewrite Nat.eqb_refl, (list_eqb_refl _ _ term_eqb_refl). reflexivity.
Qed.

(* ---------- bound variables ---------- *)
Lemma memv_cons : forall x y B, memv x (y :: B) = Nat.eqb x y || memv x B.
Proof. reflexivity. Qed.

Lemma memv_notin : forall x B, (forall y, In y B -> y <> x) -> memv x B = false.
Proof.
  intros x B. induction B as [|y B IH]; intros H; [reflexivity|].
  rewrite memv_cons. rewrite IH by (intros z Hz; apply H; right; exact Hz).
  destruct (Nat.eqb_spec x y) as [E|E]; [|reflexivity].
  exfalso. apply (H y); [left; reflexivity | symmetry; exact E].
Qed.

Lemma subv_cons : forall x xs B, subv (x :: xs) B = memv x B && subv xs B.
Proof. reflexivity. Qed.

Lemma subv_app : forall xs ys B, subv (xs ++ ys) B = subv xs B && subv ys B.
Proof. intros xs ys B. unfold subv. apply forallb_app. Qed.

Lemma vars_below_cons : forall N x xs, vars_below N (x :: xs) = Nat.ltb x N && vars_below N xs.
Proof. reflexivity. Qed.

Lemma vars_below_app : forall N xs ys, vars_below N (xs ++ ys) = vars_below N xs && vars_below N ys.
Proof. intros N xs ys. unfold vars_below. apply forallb_app. Qed.

Lemma akey_vars_cons : forall a args,
  akey_vars (a :: args) = match a with AKey t => term_vars t ++ akey_vars args | _ => akey_vars args end.
Proof.
  intros a args. unfold akey_vars, akey_terms. destruct a as [|x|t]; cbn [flat_map app]; reflexivity.
Qed.

Lemma akey_vars_below : forall N args, forallb (aarg_below N) args = true -> vars_below N (akey_vars args) = true.
Proof.
  intros N. induction args as [|a args IH]; intros H; [reflexivity|].
  cbn [forallb] in H. apply andb_true_iff in H as [Ha H]. rewrite akey_vars_cons.
  destruct a as [|x|t]; try (apply IH; exact H).
  rewrite vars_below_app. cbn [aarg_below] in Ha. unfold term_below in Ha. rewrite Ha, (IH H). reflexivity.
Qed.

Lemma keys_ok_subv : forall B args,
  forallb (fun a => match a with AKey t => subv (term_vars t) B | _ => true end) args = true ->
  subv (akey_vars args) B = true.
Proof.
  intros B. induction args as [|a args IH]; intros H; [reflexivity|].
  cbn [forallb] in H. apply andb_true_iff in H as [Ha H]. rewrite akey_vars_cons.
  destruct a as [|x|t]; try (apply IH; exact H).
  rewrite subv_app, Ha, (IH H). reflexivity.
Qed.

(* ---------- shape facts ---------- *)
Section Shape.
Variable K : nat.
Variable N : var.

Lemma item_of_tr : forall j items p,
  map item_of (tr_pitems K N j p items) = tr_body K N j p (map item_of items).
Proof.
  intros j. induction items as [|it items IH]; intros p; [reflexivity|].
  cbn [tr_pitems map tr_body]. rewrite IH. f_equal. destruct it; reflexivity.
Qed.

Lemma static_total_tr : forall dyn j items p,
  static_total dyn (tr_pitems K N j p items) = static_total dyn items.
Proof.
  intros dyn j. unfold static_total. induction items as [|it items IH]; intros p; [reflexivity|].
  cbn [tr_pitems forallb]. rewrite IH. f_equal. destruct it; reflexivity.
Qed.

Lemma dyn_versions_tr : forall dyn j items p,
  dyn_versions dyn (tr_pitems K N j p items) = dyn_versions dyn items.
Proof.
  intros dyn j. unfold dyn_versions. induction items as [|it items IH]; intros p; [reflexivity|].
  cbn [tr_pitems flat_map]. rewrite IH. f_equal. destruct it; reflexivity.
Qed.

Lemma clause_rels_tr_body : forall j l p,
  flat_map (fun b => match b with BClause q _ _ => [q] | _ => [] end) (tr_body K N j p l)
  = flat_map (fun b => match b with BClause q _ _ => [q] | _ => [] end) l.
Proof.
  intros j. induction l as [|b l IH]; intros p; [reflexivity|].
  cbn [tr_body flat_map]. rewrite IH. f_equal. destruct b; reflexivity.
Qed.

Lemma agg_rels_tr_body : forall j l p,
  flat_map (fun b => match b with BAgg _ _ _ q _ => [q] | _ => [] end) (tr_body K N j p l) = [].
Proof.
  intros j. induction l as [|b l IH]; intros p; [reflexivity|].
  cbn [tr_body flat_map]. rewrite IH. destruct b; reflexivity.
Qed.

Lemma body_clause_rels_tr : forall j ru, body_clause_rels (tr_rule K N j ru) = body_clause_rels ru.
Proof. intros j ru. unfold body_clause_rels, tr_rule. cbn [body]. apply clause_rels_tr_body. Qed.

Lemma body_agg_rels_tr : forall j ru, body_agg_rels (tr_rule K N j ru) = [].
Proof. intros j ru. unfold body_agg_rels, tr_rule. cbn [body]. apply agg_rels_tr_body. Qed.

Lemma head_rels_tr : forall j ru, head_rels (tr_rule K N j ru) = head_rels ru.
Proof. reflexivity. Qed.

(* ---------- lookup in the SCC's program ---------- *)
Lemma nth_error_tr_rules : forall l j0 i,
  nth_error (tr_rules K N j0 l) i = option_map (tr_rule K N (j0 + i)) (nth_error l i).
Proof.
  induction l as [|ru l IH]; intros j0 i; destruct i as [|i]; cbn [tr_rules nth_error option_map]; try reflexivity.
  - rewrite Nat.add_0_r. reflexivity.
  - rewrite IH. replace (S j0 + i) with (j0 + S i) by lia. reflexivity.
Qed.

Lemma nth_error_seq_lt : forall n s j, j < n -> nth_error (seq s n) j = Some (s + j).
Proof.
  induction n as [|n IH]; intros s j Hj; [lia|].
  cbn [seq]. destruct j as [|j]; cbn [nth_error].
  - rewrite Nat.add_0_r. reflexivity.
  - rewrite IH by lia. f_equal. lia.
Qed.

Lemma rules_of_scc_tr : forall sc, rules_of_scc (tr_scc K N sc) = rules_of_scc sc.
Proof.
  intros sc. unfold rules_of_scc, tr_scc. cbn [s_vars]. rewrite map_map. reflexivity.
Qed.

Lemma scc_prog_nth : forall P sc j ru, nth_error P j = Some ru -> In j (rules_of_scc sc) ->
  nth_error (scc_prog P K N sc) j = Some (tr_rule K N j ru).
Proof.
  intros P sc j ru Hr Hj. unfold scc_prog.
  assert (Hlt : j < length P) by (apply nth_error_Some; rewrite Hr; discriminate).
  rewrite (map_nth_error _ j (seq 0 (length P)) (d := j)) by (rewrite nth_error_seq_lt by exact Hlt; reflexivity).
  assert (He : existsb (Nat.eqb j) (rules_of_scc sc) = true).
  { apply existsb_exists. exists j. split; [exact Hj | apply Nat.eqb_refl]. }
  rewrite He. unfold tr_prog. rewrite nth_error_tr_rules, Hr. reflexivity.
Qed.
End Shape.

(* ---------- the variable check ---------- *)
Section Sim.
Variable arities : list (rel * nat).
Variable K : nat.
Variable N : var.

Definition Bsim (p : nat) (B Bt : list var) : Prop :=
  (forall x, In x B -> x < N) /\ (forall x, x < N -> memv x Bt = memv x B) /\ (forall x, In x Bt -> x < N + p).

Lemma Bsim_nil : Bsim 0 [] [].
Proof. split; [|split]; [intros x [] | reflexivity | intros x []]. Qed.

Lemma Bsim_S : forall p B Bt, Bsim p B Bt -> Bsim (S p) B Bt.
Proof.
  intros p B Bt (H1 & H2 & H3). split; [exact H1|]. split; [exact H2|]. intros x Hx. apply H3 in Hx. lia.
Qed.

Lemma Bsim_cons : forall p x B Bt, x < N -> Bsim p B Bt -> Bsim p (x :: B) (x :: Bt).
Proof.
  intros p x B Bt Hx (H1 & H2 & H3). split; [|split].
  - intros y [<-|Hy]; [exact Hx | apply H1; exact Hy].
  - intros y Hy. rewrite !memv_cons, (H2 y Hy). reflexivity.
  - intros y [<-|Hy]; [lia | apply H3; exact Hy].
Qed.

Lemma Bsim_app : forall p nv B Bt, (forall x, In x nv -> x < N) -> Bsim p B Bt -> Bsim p (nv ++ B) (nv ++ Bt).
Proof.
  intros p. induction nv as [|x nv IH]; intros B Bt Hn HS; [exact HS|].
  cbn [app]. apply Bsim_cons; [apply Hn; left; reflexivity|].
  apply IH; [|exact HS]. intros y Hy. apply Hn. right. exact Hy.
Qed.

Lemma Bsim_fresh : forall p B Bt, Bsim p B Bt -> Bsim (S p) B ((N + p) :: Bt).
Proof.
  intros p B Bt (H1 & H2 & H3). split; [exact H1|]. split.
  - intros y Hy. rewrite memv_cons, (H2 y Hy). destruct (Nat.eqb_spec y (N + p)) as [E|E]; [lia|reflexivity].
  - intros y [<-|Hy]; [lia | apply H3 in Hy; lia].
Qed.

Lemma Bsim_fresh_mem : forall p B Bt, Bsim p B Bt -> memv (N + p) Bt = false.
Proof.
  intros p B Bt (_ & _ & H3). apply memv_notin. intros y Hy. apply H3 in Hy. lia.
Qed.

Lemma subv_sim : forall B Bt xs, (forall x, x < N -> memv x Bt = memv x B) ->
  vars_below N xs = true -> subv xs Bt = subv xs B.
Proof.
  intros B Bt xs H. induction xs as [|x xs IH]; intros Hb; [reflexivity|].
  rewrite vars_below_cons in Hb. apply andb_true_iff in Hb as [Hx Hb]. apply Nat.ltb_lt in Hx.
  rewrite !subv_cons, (H x Hx), (IH Hb). reflexivity.
Qed.

Lemma check_cond_sim : forall p B Bt c B1, cond_below N c = true -> Bsim p B Bt -> check_cond B c = Some B1 ->
  exists B1t, check_cond Bt c = Some B1t /\ Bsim p B1 B1t.
Proof.
  intros p B Bt c B1 Hc HS Hk. pose proof HS as (H1 & H2 & H3).
  destruct c as [q xs | x f xs]; cbn [cond_below] in Hc; cbn [check_cond] in Hk |- *.
  - rewrite (subv_sim B Bt xs H2 Hc). destruct (subv xs B); [|discriminate].
    injection Hk as <-. exists Bt. split; [reflexivity|exact HS].
  - apply andb_true_iff in Hc as [Hx Hc]. apply Nat.ltb_lt in Hx.
    rewrite (subv_sim B Bt xs H2 Hc), (H2 x Hx). destruct (subv xs B && negb (memv x B)); [|discriminate].
    injection Hk as <-. exists (x :: Bt). split; [reflexivity|]. apply Bsim_cons; assumption.
Qed.

Lemma check_conds_sim : forall p cs B Bt B1, forallb (cond_below N) cs = true -> Bsim p B Bt ->
  check_conds B cs = Some B1 -> exists B1t, check_conds Bt cs = Some B1t /\ Bsim p B1 B1t.
Proof.
  intros p. induction cs as [|c cs IH]; intros B Bt B1 Hc HS Hk.
  - cbn [check_conds] in Hk |- *. injection Hk as <-. exists Bt. split; [reflexivity|exact HS].
  - cbn [forallb] in Hc. apply andb_true_iff in Hc as [Hc Hcs]. cbn [check_conds] in Hk |- *.
    destruct (check_cond B c) as [B'|] eqn:E; [|discriminate].
    destruct (check_cond_sim p B Bt c B' Hc HS E) as (B't & Et & HS'). rewrite Et.
    exact (IH B' B't B1 Hcs HS' Hk).
Qed.

Lemma expected_idx_sim : forall B Bt, (forall x, x < N -> memv x Bt = memv x B) ->
  forall args pos newv, forallb (term_below N) args = true ->
  expected_idx Bt args pos newv = expected_idx B args pos newv.
Proof.
  intros B Bt H2. induction args as [|t args IH]; intros pos newv Hb; [reflexivity|].
  cbn [forallb] in Hb. apply andb_true_iff in Hb as [Ht Hb]. unfold term_below in Ht.
  destruct t as [x|c|f xs]; cbn [expected_idx].
  - cbn [term_vars] in Ht. rewrite vars_below_cons in Ht. apply andb_true_iff in Ht as [Ht _]. apply Nat.ltb_lt in Ht.
    rewrite (H2 x Ht). rewrite !IH by exact Hb. reflexivity.
  - rewrite (subv_sim B Bt _ H2 Ht). rewrite IH by exact Hb. reflexivity.
  - rewrite (subv_sim B Bt _ H2 Ht). rewrite IH by exact Hb. reflexivity.
Qed.

Lemma expected_idx_nv : forall B args pos newv ix nv, forallb (term_below N) args = true ->
  (forall x, In x newv -> x < N) -> expected_idx B args pos newv = Some (ix, nv) -> forall x, In x nv -> x < N.
Proof.
  intros B. induction args as [|t args IH]; intros pos newv ix nv Hb Hn He.
  - cbn [expected_idx] in He. injection He as _ <-. exact Hn.
  - cbn [forallb] in Hb. apply andb_true_iff in Hb as [Ht Hb]. unfold term_below in Ht.
    destruct t as [x|c|f xs]; cbn [expected_idx] in He.
    + cbn [term_vars] in Ht. rewrite vars_below_cons in Ht. apply andb_true_iff in Ht as [Ht _]. apply Nat.ltb_lt in Ht.
      destruct (memv x B).
      * destruct (expected_idx B args (S pos) newv) as [[ix' nv']|] eqn:E; [|discriminate].
        injection He as _ <-. exact (IH _ _ _ _ Hb Hn E).
      * destruct (memv x newv); [discriminate|].
        refine (IH _ _ _ _ Hb _ He). intros y [<-|Hy]; [exact Ht | apply Hn; exact Hy].
    + destruct (subv (term_vars (TConst c)) B); [|discriminate].
      destruct (expected_idx B args (S pos) newv) as [[ix' nv']|] eqn:E; [|discriminate].
      injection He as _ <-. exact (IH _ _ _ _ Hb Hn E).
    + destruct (subv (term_vars (TFun f xs)) B); [|discriminate].
      destruct (expected_idx B args (S pos) newv) as [[ix' nv']|] eqn:E; [|discriminate].
      injection He as _ <-. exact (IH _ _ _ _ Hb Hn E).
Qed.

Lemma check_clause_sim : forall p B Bt r args cs idx B1,
  forallb (term_below N) args = true -> forallb (cond_below N) cs = true -> Bsim p B Bt ->
  check_clause arities B r args cs idx = Some B1 ->
  exists B1t, check_clause arities Bt r args cs idx = Some B1t /\ Bsim p B1 B1t.
Proof.
  intros p B Bt r args cs idx B1 Ha Hc HS Hk. pose proof HS as (H1 & H2 & H3).
  unfold check_clause in Hk |- *. destruct (arity_ok arities r (length args)); [|discriminate].
  rewrite (expected_idx_sim B Bt H2 args 0 [] Ha).
  destruct (expected_idx B args 0 []) as [[ix nv]|] eqn:E; [|discriminate].
  destruct (nats_eqb ix idx); [|discriminate].
  refine (check_conds_sim p cs _ _ B1 Hc _ Hk). apply Bsim_app; [|exact HS].
  refine (expected_idx_nv B args 0 [] ix nv Ha _ E). intros x [].
Qed.

Lemma check_agg_sim : forall p B Bt out a bound r args idx B1,
  pitem_below N (PAgg out a bound r args idx) = true -> Bsim p B Bt ->
  check_agg arities B out bound r args idx = Some B1 ->
  subv (akey_vars args) Bt && negb (memv (outvar N p out) Bt) = true /\ Bsim (S p) B1 (outvar N p out :: Bt).
Proof.
  intros p B Bt out a bound r args idx B1 Hb HS Hk. pose proof HS as (H1 & H2 & H3).
  cbn [pitem_below] in Hb. apply andb_true_iff in Hb as [Hb Hargs]. apply andb_true_iff in Hb as [Hout _].
  unfold check_agg in Hk. cbv zeta in Hk.
  match type of Hk with (if ?c then _ else _) = _ => destruct c eqn:Ec; [|discriminate] end.
  apply andb_true_iff in Ec as [_ Hkeys]. apply keys_ok_subv in Hkeys.
  rewrite (subv_sim B Bt _ H2 (akey_vars_below N args Hargs)), Hkeys.
  destruct out as [x|]; cbn [outvar].
  - apply Nat.ltb_lt in Hout. rewrite (H2 x Hout).
    destruct (memv x B) eqn:Em; [discriminate|]. injection Hk as <-.
    split; [reflexivity|]. apply Bsim_S. apply Bsim_cons; assumption.
  - injection Hk as <-. rewrite (Bsim_fresh_mem p B Bt HS). split; [reflexivity|]. apply Bsim_fresh. exact HS.
Qed.

Definition items_below (items : list pitem) : bool :=
  forallb (fun it => pitem_below N it && pitem_keypos it) items.

Lemma items_below_cons : forall it items, items_below (it :: items) = true ->
  pitem_below N it = true /\ items_below items = true.
Proof.
  intros it items H. unfold items_below in H. cbn [forallb] in H. apply andb_true_iff in H as [H Hr].
  apply andb_true_iff in H as [H _]. split; assumption.
Qed.

Lemma gen_sim : forall p B Bt x xs, Nat.ltb x N && vars_below N xs = true -> Bsim p B Bt ->
  subv xs Bt && negb (memv x Bt) = subv xs B && negb (memv x B) /\ Bsim (S p) (x :: B) (x :: Bt).
Proof.
  intros p B Bt x xs Hb HS. pose proof HS as (H1 & H2 & H3).
  apply andb_true_iff in Hb as [Hx Hxs]. apply Nat.ltb_lt in Hx.
  rewrite (subv_sim B Bt xs H2 Hxs), (H2 x Hx). split; [reflexivity|]. apply Bsim_S. apply Bsim_cons; assumption.
Qed.

Lemma check_items_sim : forall j items p B Bt B1, items_below items = true -> Bsim p B Bt ->
  check_items arities B items = Some B1 ->
  exists B1t q, check_items arities Bt (tr_pitems K N j p items) = Some B1t /\ Bsim q B1 B1t.
Proof.
  intros j. induction items as [|it items IH]; intros p B Bt B1 Hb HS Hk.
  - cbn [check_items tr_pitems] in Hk |- *. injection Hk as <-. exists Bt, p. split; [reflexivity|exact HS].
  - apply items_below_cons in Hb as [Hit Hb].
    destruct it as [r args cs idx ver | c | x g xs | out a bound r args idx];
      cbn [tr_pitems tr_pitem check_items] in Hk |- *.
    + cbn [pitem_below] in Hit. apply andb_true_iff in Hit as [Ha Hc].
      destruct (check_clause arities B r args cs idx) as [B'|] eqn:E; [|discriminate].
      destruct (check_clause_sim p B Bt r args cs idx B' Ha Hc HS E) as (B't & Et & HS'). rewrite Et.
      exact (IH (S p) B' B't B1 Hb (Bsim_S _ _ _ HS') Hk).
    + cbn [pitem_below] in Hit.
      destruct (check_cond B c) as [B'|] eqn:E; [|discriminate].
      destruct (check_cond_sim p B Bt c B' Hit HS E) as (B't & Et & HS'). rewrite Et.
      exact (IH (S p) B' B't B1 Hb (Bsim_S _ _ _ HS') Hk).
    + cbn [pitem_below] in Hit. destruct (gen_sim p B Bt x xs Hit HS) as [Eg HS']. rewrite Eg.
      destruct (subv xs B && negb (memv x B)); [|discriminate].
      exact (IH (S p) _ _ B1 Hb HS' Hk).
    + destruct (check_agg arities B out bound r args idx) as [B'|] eqn:E; [|discriminate].
      destruct (check_agg_sim p B Bt out a bound r args idx B' Hit HS E) as [Eg HS']. rewrite Eg.
      exact (IH (S p) _ _ B1 Hb HS' Hk).
Qed.

Lemma check_simple_join_sim : forall j items p B Bt reord B1, items_below items = true -> Bsim p B Bt ->
  check_simple_join arities B items reord = Some B1 ->
  exists B1t q, check_simple_join arities Bt (tr_pitems K N j p items) reord = Some B1t /\ Bsim q B1 B1t.
Proof.
  intros j items p B Bt reord B1 Hb HS Hk.
  destruct items as [|it1 items]; [discriminate|].
  destruct it1 as [r1 a1 c1 i1 v1 | | |]; try discriminate.
  destruct items as [|it2 rest]; [discriminate|].
  destruct it2 as [r2 a2 c2 i2 v2 | | |]; try discriminate.
  apply items_below_cons in Hb as [Hit1 Hb]. apply items_below_cons in Hb as [Hit2 Hb].
  cbn [pitem_below] in Hit1, Hit2.
  apply andb_true_iff in Hit1 as [Ha1 Hc1]. apply andb_true_iff in Hit2 as [Ha2 Hc2].
  cbn [tr_pitems tr_pitem]. unfold check_simple_join in Hk |- *. cbv zeta in Hk |- *.
  destruct (check_clause arities B r1 a1 c1 []) as [Ba|] eqn:E1; [|discriminate].
  destruct (check_clause_sim p B Bt r1 a1 c1 [] Ba Ha1 Hc1 HS E1) as (Bat & E1t & HSa). rewrite E1t.
  destruct (check_clause arities Ba r2 a2 c2 i2) as [Bb|] eqn:E2; [|discriminate].
  destruct (check_clause_sim p Ba Bat r2 a2 c2 i2 Bb Ha2 Hc2 HSa E2) as (Bbt & E2t & HSb). rewrite E2t.
  destruct reord.
  - destruct (check_clause arities B r2 a2 c2 []) as [Bc|] eqn:E3; [|discriminate].
    destruct (check_clause_sim p B Bt r2 a2 c2 [] Bc Ha2 Hc2 HS E3) as (Bct & E3t & HSc). rewrite E3t.
    destruct (check_clause arities Bc r1 a1 c1 i1) as [Bd|] eqn:E4; [|discriminate].
    destruct (check_clause_sim p Bc Bct r1 a1 c1 i1 Bd Ha1 Hc1 HSc E4) as (Bdt & E4t & HSd). rewrite E4t.
    exact (check_items_sim j rest (S (S p)) Bb Bbt B1 Hb (Bsim_S _ _ _ (Bsim_S _ _ _ HSb)) Hk).
  - exact (check_items_sim j rest (S (S p)) Bb Bbt B1 Hb (Bsim_S _ _ _ (Bsim_S _ _ _ HSb)) Hk).
Qed.

Lemma check_from_None : forall B items reord, check_from arities B items None reord = check_items arities B items.
Proof. intros B items reord. destruct items; reflexivity. Qed.

Lemma check_from_O : forall B items reord,
  check_from arities B items (Some 0) reord = check_simple_join arities B items reord.
Proof. intros B items reord. destruct items; reflexivity. Qed.

Lemma check_from_sim : forall j reord sj items p B Bt B1, items_below items = true -> Bsim p B Bt ->
  check_from arities B items sj reord = Some B1 ->
  exists B1t q, check_from arities Bt (tr_pitems K N j p items) sj reord = Some B1t /\ Bsim q B1 B1t.
Proof.
  intros j reord [n|].
  - induction n as [|n IH]; intros items p B Bt B1 Hb HS Hk.
    + rewrite check_from_O in Hk |- *. exact (check_simple_join_sim j items p B Bt reord B1 Hb HS Hk).
    + destruct items as [|it items]; [discriminate|].
      apply items_below_cons in Hb as [Hit Hb].
      destruct it as [r args cs idx ver | c | x g xs | out a bound r args idx];
        cbn [tr_pitems tr_pitem check_from] in Hk |- *.
      * discriminate.
      * cbn [pitem_below] in Hit.
        destruct (check_cond B c) as [B'|] eqn:E; [|discriminate].
        destruct (check_cond_sim p B Bt c B' Hit HS E) as (B't & Et & HS'). rewrite Et.
        exact (IH items (S p) B' B't B1 Hb (Bsim_S _ _ _ HS') Hk).
      * cbn [pitem_below] in Hit. destruct (gen_sim p B Bt x xs Hit HS) as [Eg HS']. rewrite Eg.
        destruct (subv xs B && negb (memv x B)); [|discriminate].
        exact (IH items (S p) _ _ B1 Hb HS' Hk).
      * destruct (check_agg arities B out bound r args idx) as [B'|] eqn:E; [|discriminate].
        destruct (check_agg_sim p B Bt out a bound r args idx B' Hit HS E) as [Eg HS']. rewrite Eg.
        exact (IH items (S p) _ _ B1 Hb HS' Hk).
  - intros items p B Bt B1 Hb HS Hk. rewrite check_from_None in Hk |- *.
    exact (check_items_sim j items p B Bt B1 Hb HS Hk).
Qed.

Lemma terms_subv_sim : forall q B Bt ts, forallb (term_below N) ts = true -> Bsim q B Bt ->
  forallb (fun t => subv (term_vars t) Bt) ts = forallb (fun t => subv (term_vars t) B) ts.
Proof.
  intros q B Bt ts Hb (H1 & H2 & H3). induction ts as [|t ts IH]; [reflexivity|].
  cbn [forallb] in Hb |- *. apply andb_true_iff in Hb as [Ht Hb]. unfold term_below in Ht.
  rewrite (subv_sim B Bt _ H2 Ht), (IH Hb). reflexivity.
Qed.

Lemma heads_ok_sim : forall q B Bt hs, forallb (fun h => forallb (term_below N) (snd h)) hs = true ->
  Bsim q B Bt -> heads_ok arities Bt hs = heads_ok arities B hs.
Proof.
  intros q B Bt hs Hb HS. unfold heads_ok. induction hs as [|h hs IH]; [reflexivity|].
  cbn [forallb] in Hb |- *. apply andb_true_iff in Hb as [Hh Hb].
  rewrite (terms_subv_sim q B Bt _ Hh HS), (IH Hb). reflexivity.
Qed.
End Sim.

(* ---------- assembling the validator's per-SCC check ---------- *)
Lemma variant_ok_tr : forall arities P K N sc dyn v,
  In (v_rule v) (rules_of_scc sc) -> variant_below N v = true -> variant_ok arities P dyn v = true ->
  variant_ok arities (scc_prog P K N sc) dyn (tr_variant K N v) = true.
Proof.
  intros arities P K N sc dyn v Hin Hbel H. unfold variant_ok, rule_of_variant in H |- *.
  cbn [tr_variant v_rule v_items v_heads v_sj v_reord].
  destruct (nth_error P (v_rule v)) as [r|] eqn:Hr; [|discriminate].
  rewrite (scc_prog_nth K N P sc (v_rule v) r Hr Hin). cbn [tr_rule body heads].
  apply andb_true_iff in H as [H123 H4]. apply andb_true_iff in H123 as [H12 H3].
  apply andb_true_iff in H12 as [H1 H2].
  apply (list_eqb_eq _ _ bitem_eqb_eq) in H1. apply (list_eqb_eq _ _ head_eqb_eq) in H2.
  unfold variant_below in Hbel. apply andb_true_iff in Hbel as [Hitems Hheads].
  rewrite item_of_tr, H1, (list_eqb_refl _ _ bitem_eqb_refl).
  rewrite <- H2, (list_eqb_refl _ _ head_eqb_refl).
  rewrite static_total_tr, H3. cbn [andb].
  destruct (check_from arities [] (v_items v) (v_sj v) (v_reord v)) as [B|] eqn:Ec; [|discriminate].
  destruct (check_from_sim arities K N (v_rule v) (v_reord v) (v_sj v) (v_items v) 0 [] [] B Hitems (Bsim_nil N) Ec)
    as (Bt & q & Ect & HS).
  rewrite Ect. rewrite (heads_ok_sim arities N q B Bt _ Hheads HS). exact H4.
Qed.

Lemma flat_map_ext_In : forall (A B : Type) (f g : A -> list B) l,
  (forall a, In a l -> f a = g a) -> flat_map f l = flat_map g l.
Proof.
  intros A B f g. induction l as [|a l IH]; intros H; [reflexivity|].
  cbn [flat_map]. rewrite (H a) by (left; reflexivity). rewrite IH; [reflexivity|].
  intros b Hb. apply H. right. exact Hb.
Qed.

Lemma dyn_versions_filter_tr : forall K N dyn j vs,
  map (fun v => dyn_versions dyn (v_items v)) (filter (fun v => Nat.eqb (v_rule v) j) (map (tr_variant K N) vs))
  = map (fun v => dyn_versions dyn (v_items v)) (filter (fun v => Nat.eqb (v_rule v) j) vs).
Proof.
  intros K N dyn j. induction vs as [|v vs IH]; [reflexivity|].
  cbn [map filter]. cbn [tr_variant v_rule].
  destruct (Nat.eqb (v_rule v) j); [|exact IH].
  cbn [map]. rewrite IH. cbn [tr_variant v_items]. rewrite dyn_versions_tr. reflexivity.
Qed.

Theorem scc_ok_tr : forall (arities : list (rel * nat)) (P : list rule) (K : nat) (N : var) (sc : pscc),
  scc_ok arities P sc = true -> forallb (variant_below N) (s_vars sc) = true ->
  scc_ok arities (scc_prog P K N sc) (tr_scc K N sc) = true.
Proof.
  intros arities P K N sc Hok Hbel.
  unfold scc_ok in Hok. cbv zeta in Hok.
  apply andb_true_iff in Hok as [Hok H4]. apply andb_true_iff in Hok as [Hok H3].
  apply andb_true_iff in Hok as [H1 H2].
  rewrite forallb_forall in H1, H4, Hbel.
  assert (Hrules : forall j, In j (rules_of_scc sc) -> exists r, nth_error P j = Some r).
  { intros j Hj. specialize (H4 j Hj). destruct (nth_error P j) as [r|]; [|discriminate]. exists r. reflexivity. }
  assert (Hhr : scc_head_rels (scc_prog P K N sc) (tr_scc K N sc) = scc_head_rels P sc).
  { unfold scc_head_rels. rewrite rules_of_scc_tr. apply flat_map_ext_In. intros j Hj.
    destruct (Hrules j Hj) as [r Hr]. rewrite Hr, (scc_prog_nth K N P sc j r Hr Hj). reflexivity. }
  unfold scc_ok. cbv zeta. rewrite Hhr, rules_of_scc_tr. cbn [tr_scc s_dyn s_vars s_loop].
  rewrite H2, H3, !andb_true_r.
  apply andb_true_iff. split.
  - apply forallb_forall. intros v' Hv'. apply in_map_iff in Hv' as [v [<- Hv]].
    apply variant_ok_tr.
    + unfold rules_of_scc. apply dedup_nat_In. apply in_map. exact Hv.
    + exact (Hbel v Hv).
    + exact (H1 v Hv).
  - apply forallb_forall. intros j Hj. specialize (H4 j Hj).
    destruct (nth_error P j) as [r|] eqn:Hr; [|discriminate].
    rewrite (scc_prog_nth K N P sc j r Hr Hj).
    rewrite body_clause_rels_tr, body_agg_rels_tr, dyn_versions_filter_tr. cbn [forallb].
    rewrite andb_true_r. apply andb_true_iff in H4 as [H4 _]. exact H4.
Qed.

Corollary tr_plan_ok_of_validate : forall arities P K N pl,
  validate arities P pl = true -> plan_below N pl = true -> tr_plan_ok arities P K N pl = true.
Proof.
  intros arities P K N pl Hv Hb. unfold validate in Hv. apply andb_true_iff in Hv as [Hv _].
  unfold tr_plan_ok. unfold plan_below in Hb. rewrite forallb_forall in Hv, Hb |- *.
  intros sc Hsc. apply scc_ok_tr; [exact (Hv sc Hsc) | exact (Hb sc Hsc)].
Qed.

Print Assumptions scc_ok_tr.
Print Assumptions tr_plan_ok_of_validate.
