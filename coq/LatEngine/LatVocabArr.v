(* C03 tie vocabulary, part 2: COMPOSITE shipped lattice types as lattice columns - values with several components,
   whose join_mut has to move several components in one call - and the wrappers that delegate to them.
   Codes (gen/c03_vocab.py uses the same coding; components stay below 64):
      9 Product<[u32; 2]>               a * 64 + b                  both components upwards
     10 Product<[u32; 3]>               a * 4096 + b * 64 + c
     11 Dual<Product<[u32; 2]>>         a * 64 + b                  order reversed: the engine's join_mut is the array's meet_mut
     12 Option<Product<[u32; 2]>>       None = 0, Some v = code v + 1
     13 Product<[Dual<u32>; 2]>         a * 64 + b                  both components downwards
     14 Product<(u32, Dual<u32>, u32)>  a * 4096 + b * 64 + c       up, down, up (tuple flavour, arity 3)
     15 Rc<Product<[u32; 2]>>           a * 64 + b                  compare first, component-wise join only when incomparable
     16 Box<Product<[u32; 2]>>          a * 64 + b
     17 Reverse<Product<[u32; 2]>>      a * 64 + b                  order reversed (std::cmp::Reverse)
   Unlike part 1 (LatVocab.v: a formula per type), join_mut of these types is NOT written again here: it is the
   Gallina mirror of the shipped code, `jm (denote t)` of Lattice/LatModel.v (arr_op_mut = the loop
   `for (l, r) in self.0.iter_mut().zip(other.0) { changed |= l.join_mut(r) }`, cprod_jm, opt_join_mut, rc_join_mut ..),
   i.e. the model that C16 ties to ascent_base and proves to be a lattice, transported to codes.
   The monotone functions / upward-closed tests on these types work on the decoded component lists. *)
From Coq Require Import List ZArith Bool Arith.
From AV Require Import Engine.Core.
From AV Require Import Engine.Vocab.
From AV Require Import Lattice.LatModel.
From AV Require Import LatEngine.LatSyntax.
From AV Require Import LatEngine.LatVocab.
Import ListNotations.
Open Scope Z_scope.

Definition u32 : lty := LInt 0 4294967295.
Definition t_arr2 : lty := LProdArr 2 u32.
Definition t_arr3 : lty := LProdArr 3 u32.
Definition t_darr2 : lty := LDual t_arr2.
Definition t_oarr2 : lty := LOption t_arr2.
Definition t_arrd2 : lty := LProdArr 2 (LDual u32).
Definition t_prod3 : lty := LProd (LCons u32 (LCons (LDual u32) (LOne u32))).
Definition t_rcarr2 : lty := LRc t_arr2.
Definition t_boxarr2 : lty := LBox t_arr2.
Definition t_revarr2 : lty := LReverse t_arr2.

(* ---------------------------------------------------------------- codes *)
Definition dec2 (c : Z) : list Z := [c / 64; c mod 64].
Definition dec3 (c : Z) : list Z := [c / 4096; (c / 64) mod 64; c mod 64].
Definition enc (l : list Z) : Z := fold_left (fun acc x => acc * 64 + x) l 0.
Definition odec (c : Z) : option (list Z) := if c =? 0 then None else Some (dec2 (c - 1)).
Definition oenc (v : option (list Z)) : Z := match v with None => 0 | Some l => enc l + 1 end.
Definition trip (c : Z) : Z * (Z * Z) := (c / 4096, ((c / 64) mod 64, c mod 64)).
Definition untrip (v : Z * (Z * Z)) : Z := enc [fst v; fst (snd v); snd (snd v)].

(* an in-place join on T, seen on codes *)
Definition via {T : Type} (jmT : T -> T -> T * bool) (dec : Z -> T) (en : T -> Z) (a b : Z) : Z * bool :=
  let r := jmT (dec a) (dec b) in (en (fst r), snd r).

Definition lat2_jm (ty : nat) : Z -> Z -> Z * bool :=
  match ty with
  | 9%nat => via (T := list Z) (jm (denote t_arr2)) dec2 enc
  | 10%nat => via (T := list Z) (jm (denote t_arr3)) dec3 enc
  | 11%nat => via (T := list Z) (jm (denote t_darr2)) dec2 enc
  | 12%nat => via (T := option (list Z)) (jm (denote t_oarr2)) odec oenc
  | 13%nat => via (T := list Z) (jm (denote t_arrd2)) dec2 enc
  | 14%nat => via (T := Z * (Z * Z)) (jm (denote t_prod3)) trip untrip
  | 15%nat => via (T := list Z) (jm (denote t_rcarr2)) dec2 enc
  | 16%nat => via (T := list Z) (jm (denote t_boxarr2)) dec2 enc
  | 17%nat => via (T := list Z) (jm (denote t_revarr2)) dec2 enc
  | _ => lat_jm ty
  end.

(* ---------------------------------------------------------------- component-wise vocabulary *)
Definition ncomp (ty : nat) : nat := match ty with 10%nat | 14%nat => 3%nat | _ => 2%nat end.
Definition isopt (ty : nat) : bool := Nat.eqb ty 12.
(* direction of every component: true = upwards *)
Definition dirs (ty : nat) : list bool :=
  match ty with
  | 11%nat | 13%nat | 17%nat => [false; false]
  | 14%nat => [true; false; true]
  | 5%nat => [true; false]
  | 10%nat => [true; true; true]
  | _ => [true; true]
  end.
Definition cdec (ty : nat) (c : Z) : option (list Z) :=
  if isopt ty then odec c else Some (if Nat.eqb (ncomp ty) 3 then dec3 c else dec2 c).
Definition cenc (ty : nat) (v : option (list Z)) : Z :=
  match v with None => 0 | Some l => if isopt ty then enc l + 1 else enc l end.

Fixpoint map2 {A B C} (f : A -> B -> C) (a : list A) (b : list B) : list C :=
  match a, b with x :: a', y :: b' => f x y :: map2 f a' b' | _, _ => [] end.
Definition rotl (l : list Z) : list Z := match l with [] => [] | x :: t => t ++ [x] end.
Definition hi_in (d : bool) (c x : Z) : bool := if d then x <=? c else c <=? x.
Definition CAP : Z := 9.

(* the composite type number k of gen/c03_vocab.py COMPOSITE: the types above in order, then 5 (part 1's Product<(u32, Dual<u32>)>) *)
Definition cty (k : nat) : nat := if Nat.eqb k 9 then 5%nat else (9 + k)%nat.

Definition comp_fun (ty op : nat) (l : list Z) : Z :=
  match op with
  | 0%nat => cenc ty (Some (firstn (ncomp ty) l))
  | 2%nat => cenc ty (option_map (map2 (fun (d : bool) c => if d then Z.min (c + arg 1 l) CAP else Z.max (c - arg 1 l) 0) (dirs ty)) (cdec ty (arg 0 l)))
  | 3%nat => cenc ty (match cdec ty (arg 0 l), cdec ty (arg 1 l) with
                       | Some x, Some y => Some (map2 (fun c d => Z.min (c + d) CAP) x y)
                       | _, _ => None
                       end)
  | 4%nat => cenc ty (option_map rotl (cdec ty (arg 0 l)))
  | _ => arg 0 l
  end.
Definition comp_pred (ty op : nat) (l : list Z) : bool :=
  match cdec ty (arg 0 l) with
  | None => false
  | Some cs =>
      match op with
      | 0%nat => forallb (fun p => hi_in (fst p) (snd p) (arg 1 l)) (combine (dirs ty) cs)
      | 1%nat => hi_in (last (dirs ty) true) (last cs 0) 3
      | _ => hi_in (hd true (dirs ty)) (hd 0 cs) 3
      end
  end.

Definition lv2_fun (f : nat) (l : list Z) : Z :=
  if Nat.leb 500 f && Nat.ltb f 600 then comp_fun (cty (Nat.div (f - 500) 10)) (Nat.modulo (f - 500) 10) l else lv_fun f l.
Definition lv2_pred (p : nat) (l : list Z) : bool :=
  if Nat.leb 600 p && Nat.ltb p 700 then comp_pred (cty (Nat.div (p - 600) 10)) (Nat.modulo (p - 600) 10) l else lv_pred p l.
Definition lv2_part (f : nat) (l : list Z) : option Z :=
  if Nat.leb 500 f && Nat.ltb f 600 then Some (lv2_fun f l) else lv_part f l.

Definition lv2_interp : linterp Z :=
  {| vconst := fun c => c; vfun := lv2_fun; vpred := lv2_pred; vpart := lv2_part; vgen := lv_gen; veqb := Z.eqb |}.

Definition lv2_jm (lats : list (rel * nat)) (r : rel) : Z -> Z -> Z * bool :=
  match lv_type lats r with Some ty => lat2_jm ty | None => fun a _ => (a, false) end.
