(* C04 over lattices - the whole run: SCCs in plan order.  For a plan accepted by Engine/Validate.v validate (and
   the lattice index check alat_plan_ok) and a terminating run, the result of LatAggEval.arun_plan is the
   STRATIFIED LATTICE MODEL (LatAggSem.v strat_lat_model): stratum by stratum the least fixed point (C03's notion:
   closedH / directed / below) of the stratum's rules, every aggregate / negation evaluated over the rows of the
   completed lower strata - each row once, one row per key for a lattice relation -, and these rows are the FINAL
   rows of the aggregated relation (lat_agg_aggregated_final). *)
From Coq Require Import List ZArith Bool Arith Lia Permutation.
From AV Require Import Engine.Core.
From AV Require Import Engine.Eval.
From AV Require Import Engine.Validate.
From AV Require Import Engine.Naive.
From AV Require Import Engine.NaiveLemmas.
From AV Require Import Engine.AggLemmas.
From AV Require Import Engine.SemiNaive.
From AV Require Import Engine.SemiNaiveAgg.
From AV Require Import Engine.StrataAgg.
From AV Require Import Engine.InterfaceAgg.
From AV Require Import Engine.StratFixed.
From AV Require Import Engine.Strat.
From AV Require Import LatEngine.LatSyntax.
From AV Require Import LatEngine.LatEval.
From AV Require Import LatEngine.LatSem.
From AV Require Import LatEngine.LatBase.
From AV Require Import LatEngine.LatKeys.
From AV Require Import LatEngine.LatAggEval.
From AV Require Import LatEngine.LatAggTrans.
From AV Require Import LatEngine.LatAggInv.
From AV Require Import LatEngine.LatAggSem.
From AV Require Import LatEngine.LatAggStrata.
Import ListNotations.
Local Open Scope nat_scope.

(* a bound on the body lengths (the positional symbols of the reduction need one; it does not occur in the theorems) *)
Definition prog_K (P : list rule) : nat := S (list_max (map (fun ru => length (body ru)) P)).
Lemma prog_K_bound : forall P, body_bound (prog_K P) P = true.
Proof.
  intros P. unfold body_bound. apply forallb_forall. intros ru Hin. apply Nat.ltb_lt. unfold prog_K.
  assert (H : Forall (fun k => k <= list_max (map (fun ru => length (body ru)) P)) (map (fun ru => length (body ru)) P))
    by (apply list_max_le; apply Nat.le_refl).
  rewrite Forall_forall in H. specialize (H (length (body ru)) (in_map _ _ _ Hin)). lia.
Qed.

Section AMain.
Context {V : Type}.
Variable I : linterp V.
Hypothesis Heq : veqb_ok I.
Variable vagg : nat -> list (list V) -> list V.
Hypothesis Hperm : forall a l l', Permutation l l' -> vagg a l = vagg a l'.
Variable islat : rel -> bool.
Variable lle : rel -> V -> V -> Prop.
Variable jm : rel -> V -> V -> V * bool.
Hypothesis Hlaws : forall r, islat r = true -> lat_laws (lle r) (jm r).
Variable shuffle : nat -> list nat -> list nat.
Hypothesis Hshuf : forall n l x, In x (shuffle n l) <-> In x l.
Variable ashuffle : nat -> list nat -> list nat.
Hypothesis Hashuf : forall n l, Permutation (ashuffle n l) l.
Variable swap_oracle : nat -> list nat -> list nat -> bool.
Variable arities : list (rel * nat).
Hypothesis Hfun : arities_functional arities.
Variable P : list rule.
Variable N : var.
Let K := prog_K P.
Let HK : body_bound K P = true := prog_K_bound P.
Hypothesis Hmono : amonotone_program I islat lle N P.
Variable pl : plan.
Hypothesis Hval : validate arities P pl = true.
Hypothesis Halat : alat_plan_ok islat arities pl = true.
Hypothesis Hbelow : plan_below N pl = true.

Lemma aHlat1 : forall r n, islat r = true -> arity_ok arities r n = true -> 0 < n.
Proof.
  intros r n Hl Ha. unfold alat_plan_ok in Halat. apply andb_true_iff in Halat. destruct Halat as [_ H].
  rewrite forallb_forall in H. unfold arity_ok in Ha. apply existsb_exists in Ha. destruct Ha as [[q m] [Hin E]].
  cbn in E. apply andb_true_iff in E. destruct E as [E1 E2]. apply Nat.eqb_eq in E1, E2. subst.
  specialize (H _ Hin). cbn [fst snd] in H. rewrite Hl in H. cbn [negb orb] in H. apply Nat.ltb_lt in H. exact H.
Qed.

Lemma scc_side : forall k sc, nth_error pl k = Some sc ->
  scc_ok arities P sc = true /\ forallb (variant_below N) (s_vars sc) = true /\ forallb (alat_variant_ok islat) (s_vars sc) = true.
Proof.
  intros k sc Hn. pose proof (nth_error_In _ _ Hn) as Hin. split; [exact (val_scc_ok arities P pl Hval k sc Hn)|]. split.
  - unfold plan_below in Hbelow. rewrite forallb_forall in Hbelow. apply Hbelow. exact Hin.
  - unfold alat_plan_ok in Halat. apply andb_true_iff in Halat. destruct Halat as [H _]. rewrite forallb_forall in H. apply H. exact Hin.
Qed.

Notation AG := (AG I islat lle arities).
Notation arun_sccs := (arun_sccs I vagg islat jm shuffle ashuffle swap_oracle).
Notation arun_scc := (arun_scc I vagg islat jm shuffle ashuffle swap_oracle).
Notation slm := (strat_lat_model I vagg islat lle).

Lemma plan_strata_cons : forall sc rest, plan_strata P (sc :: rest) = stratum_of P sc :: plan_strata P rest.
Proof. reflexivity. Qed.

(* SCCs in plan order: the invariant, the chain of least fixed points, and which relations are left alone *)
Lemma arun_sccs_model : forall fuel rest pre st st', pl = pre ++ rest -> AG st -> arun_sccs fuel rest st = Some st' ->
  AG st' /\ slm (plan_strata P rest) (l_rows st) (l_rows st')
  /\ (forall q, (forall sc, In sc rest -> is_dyn (s_dyn sc) q = false) -> l_rows st' q = l_rows st q).
Proof.
  intros fuel. induction rest as [|sc rest IH]; intros pre st st' Hpl HG Hrun.
  - cbn [LatAggEval.arun_sccs] in Hrun. injection Hrun as <-. split; [exact HG|]. split; [intros r; reflexivity | intros q _; reflexivity].
  - cbn [LatAggEval.arun_sccs] in Hrun. destruct (arun_scc fuel sc st) as [st1|] eqn:H1; [|discriminate].
    assert (Hn : nth_error pl (length pre) = Some sc) by (rewrite Hpl, nth_error_app2, Nat.sub_diag; [reflexivity | lia]).
    destruct (scc_side _ sc Hn) as [Hok [Hb Hal]].
    destruct (arun_scc_spec I Heq vagg Hperm islat lle jm Hlaws shuffle Hshuf ashuffle Hashuf swap_oracle arities Hfun aHlat1 P K N HK Hmono
                sc Hok Hb Hal fuel st st1 HG H1) as [HG1 [Hsta Hlfp]].
    destruct (IH (pre ++ [sc]) st1 st') as [HG' [Hm Hsame]]; [rewrite <- app_assoc; exact Hpl | exact HG1 | exact Hrun|].
    split; [exact HG'|]. split.
    + rewrite plan_strata_cons. cbn [strat_lat_model]. exists (l_rows st1). split; assumption.
    + intros q Hq. rewrite (Hsame q (fun sc' Hin => Hq sc' (or_intror Hin))). apply Hsta. apply Hq. left. reflexivity.
Qed.

Definition ainput_ok (R : rel -> list (vtuple V)) : Prop :=
  (forall r row, In row (R r) -> forall n, arity_ok arities r n = true -> length row = n)
  /\ keys_ok islat R /\ rows_wf I islat lle R /\ plain_nodup islat R.

Lemma AG_start : forall Rin, ainput_ok Rin -> AG (update_indices Rin).
Proof.
  intros Rin [H1 [H2 [H3 H4]]]. constructor; cbn [update_indices l_rows]; auto. apply update_indices_exact.
Qed.

(* ---------- the theorem ---------- *)
Theorem lat_agg_stratified_model : forall fuel Rin st, ainput_ok Rin ->
  arun_plan I vagg islat jm shuffle ashuffle swap_oracle fuel pl Rin = Some st ->
  stratified (plan_strata P pl) = true
  /\ (forall r, In r P <-> In r (concat (plan_strata P pl)))
  /\ strat_lat_model I vagg islat lle (plan_strata P pl) Rin (l_rows st)
  /\ keys_ok islat (l_rows st) /\ plain_nodup islat (l_rows st).
Proof.
  intros fuel Rin st Hin Hrun. unfold arun_plan in Hrun.
  destruct (arun_sccs_model fuel pl [] (update_indices Rin) st eq_refl (AG_start Rin Hin) Hrun) as [HG [Hm _]].
  split; [exact (plan_stratified arities P pl Hval)|]. split; [exact (plan_covers arities P pl Hval)|].
  split; [exact Hm|]. split; [exact (ag_key _ _ _ _ _ HG) | exact (ag_plain _ _ _ _ _ HG)].
Qed.

(* the rows an aggregate of stratum k ranges over are the FINAL rows of the aggregated relation: no later SCC (nor
   the SCC itself) writes it *)
Lemma dyn_has_producer : forall k sc q, nth_error pl k = Some sc -> is_dyn (s_dyn sc) q = true ->
  exists j r, nth_error P j = Some r /\ rule_scc pl j k /\ In q (head_rels r).
Proof.
  intros k sc q Hn Hd. pose proof (val_scc_ok arities P pl Hval k sc Hn) as Hok.
  unfold scc_ok in Hok. apply andb_true_iff in Hok as [H123 _]. apply andb_true_iff in H123 as [_ H].
  rewrite forallb_forall in H. apply is_dyn_In in Hd. specialize (H q Hd). apply existsb_nat_In in H.
  unfold scc_head_rels in H. apply in_flat_map in H as [j [Hj Hq]].
  destruct (nth_error P j) as [r|] eqn:Hr; [|destruct Hq]. exists j, r. split; [exact Hr|]. split; [exists sc; split; assumption | exact Hq].
Qed.

Theorem lat_agg_aggregated_final : forall fuel pre sc rest st st', pl = pre ++ sc :: rest ->
  AG st -> arun_sccs fuel (sc :: rest) st = Some st' ->
  forall q, In q (stratum_agg_rels (stratum_of P sc)) -> l_rows st' q = l_rows st q.
Proof.
  intros fuel pre sc rest st st' Hpl HG Hrun q Hq.
  destruct (arun_sccs_model fuel (sc :: rest) pre st st' Hpl HG Hrun) as [_ [_ Hsame]]. apply Hsame.
  intros sc' Hin. destruct (is_dyn (s_dyn sc') q) eqn:Hd; [exfalso | reflexivity].
  assert (Hn : nth_error pl (length pre) = Some sc) by (rewrite Hpl, nth_error_app2, Nat.sub_diag; [reflexivity | lia]).
  apply In_nth_error in Hin as [m Hm].
  assert (Hn' : nth_error pl (length pre + m) = Some sc').
  { rewrite Hpl, nth_error_app2 by lia. replace (length pre + m - length pre) with m by lia. exact Hm. }
  destruct (dyn_has_producer _ sc' q Hn' Hd) as [j' [r' [Hr' [Hk' Hh']]]].
  unfold stratum_agg_rels in Hq. apply in_flat_map in Hq as [r [Hr Hqr]].
  destruct (stratum_inv P sc r Hr) as [j [Hj Hrj]].
  assert (Hk : rule_scc pl j (length pre)) by (exists sc; split; assumption).
  pose proof (strat_order_agg arities P pl Hval j r j' r' (length pre) (length pre + m) q Hrj Hr' Hk Hk' Hqr Hh'). lia.
Qed.
End AMain.

Print Assumptions lat_agg_stratified_model.
Print Assumptions lat_agg_aggregated_final.
