(* C04 over lattices - non-vacuity of LatAggMain.lat_agg_stratified_model: the shortest-path program of
   LatExample.v (edge, lattice sp over Dual<u32>, near) extended with an aggregate and a negation over the
   LATTICE relation sp, each in its own later SCC:
     deg(x, n) <-- edge(x, y, w), agg n = count() in sp(x, _, _);
     nosp(y)   <-- edge(x, y, w), !sp(y, x, _);
   All premises of the theorem hold for it (validator, lattice index check, variable bound, lattice laws,
   monotone program, well-formed input, permutation-invariant aggregators and oracles), the model runs, and
   the theorem is applied to the run (ag_instance). *)
From Coq Require Import List ZArith Bool Arith Lia Permutation.
From AV Require Import Engine.Core.
From AV Require Import Engine.Eval.
From AV Require Import Engine.Validate.
From AV Require Import Engine.Naive.
From AV Require Import Engine.Vocab.
From AV Require Import Engine.InterfaceAgg.
From AV Require Import Engine.MainAgg.
From AV Require Import LatEngine.LatSyntax.
From AV Require Import LatEngine.LatEval.
From AV Require Import LatEngine.LatPlan.
From AV Require Import LatEngine.LatSem.
From AV Require Import LatEngine.LatBase.
From AV Require Import LatEngine.LatKeys.
From AV Require Import LatEngine.LatEnv.
From AV Require Import LatEngine.LatMono.
From AV Require Import LatEngine.LatVocab.
From AV Require Import LatEngine.LatExample.
From AV Require Import LatEngine.LatAggEval.
From AV Require Import LatEngine.LatAggTrans.
From AV Require Import LatEngine.LatAggInv.
From AV Require Import LatEngine.LatAggSem.
From AV Require Import LatEngine.LatAggMain.
Import ListNotations.
Open Scope Z_scope.

(* relations 0 = edge(i32, i32, i32), 1 = lattice sp(i32, i32, Dual<u32>), 2 = near(i32, i32) as in LatExample.v;
   3 = deg(i32, usize), 4 = nosp(i32).  Rules 0..2 and their SCCs are sp_prog / sp_plan. *)
Definition ag_arities : list (rel * nat) := [(0%nat, 3%nat); (1%nat, 3%nat); (2%nat, 2%nat); (3%nat, 2%nat); (4%nat, 1%nat)].
Definition ag_prog : list rule :=
  sp_prog ++
  [{| heads := [(3%nat, [TVar 0%nat; TVar 3%nat])];
      body := [BClause 0%nat [TVar 0%nat; TVar 1%nat; TVar 2%nat] []; BAgg (Some 3%nat) 0%nat [] 1%nat [AKey (TVar 0%nat); AWild; AWild]] |};
   {| heads := [(4%nat, [TVar 1%nat])];
      body := [BClause 0%nat [TVar 0%nat; TVar 1%nat; TVar 2%nat] []; BAgg None 4%nat [] 1%nat [AKey (TVar 1%nat); AKey (TVar 0%nat); AWild]] |}].
Definition ag_plan : plan :=
  sp_plan ++
  [{| s_vars := [{| v_rule := 3%nat; v_heads := [(3%nat, [TVar 0%nat; TVar 3%nat])];
                    v_items := [PClause 0%nat [TVar 0%nat; TVar 1%nat; TVar 2%nat] [] [] VTotal;
                                PAgg (Some 3%nat) 0%nat [] 1%nat [AKey (TVar 0%nat); AWild; AWild] [0%nat]];
                    v_sj := None; v_reord := false |}];
      s_dyn := [3%nat]; s_loop := false |};
   {| s_vars := [{| v_rule := 4%nat; v_heads := [(4%nat, [TVar 1%nat])];
                    v_items := [PClause 0%nat [TVar 0%nat; TVar 1%nat; TVar 2%nat] [] [] VTotal;
                                PAgg None 4%nat [] 1%nat [AKey (TVar 1%nat); AKey (TVar 0%nat); AWild] [0%nat; 1%nat]];
                    v_sj := None; v_reord := false |}];
      s_dyn := [4%nat]; s_loop := false |}].
(* a DAG: 0 -> 1 -> 2 -> 3 of weight 1 and a shortcut 0 -> 2 of weight 4; no node reaches an earlier one *)
Definition ag_input : rel -> list (list Z) :=
  fun r => if Nat.eqb r 0 then [[0; 1; 1]; [1; 2; 1]; [0; 2; 4]; [2; 3; 1]] else [].


Lemma ag_checks : validate ag_arities ag_prog ag_plan = true /\ alat_plan_ok sp_islat ag_arities ag_plan = true /\ plan_below 5%nat ag_plan = true.
Proof. vm_compute. repeat split. Qed.

Lemma ag_arities_functional : arities_functional ag_arities.
Proof.
  intros r n m H1 H2. cbn in H1, H2.
  destruct H1 as [H1|[H1|[H1|[H1|[H1|[]]]]]], H2 as [H2|[H2|[H2|[H2|[H2|[]]]]]]; congruence.
Qed.

(* the oracles: iteration orders are permutations, the aggregators do not depend on the order of their input *)
Lemma ag_ashuffle_ok : forall n l, Permutation (lv_shuffle n l) l.
Proof. intros n l. unfold lv_shuffle. destruct (Nat.even n); [apply Permutation_refl | apply Permutation_sym, Permutation_rev]. Qed.

Lemma ag_agg_perm : forall a l l', Permutation l l' -> std_aint a l = std_aint a l'.
Proof. exact std_interp_agg_perm_invariant. Qed.

(* every variable order Gat k is reflexive (in particular on the variables 5, 6, ... the program does not use) *)
Lemma Gat_refl : forall k x a, Gat k x a a.
Proof. intros k x a. unfold Gat. destruct (Nat.eqb x k); [apply Z.le_refl | reflexivity]. Qed.

Lemma sp_islat_3 : sp_islat 3%nat = false. Proof. reflexivity. Qed.
Lemma sp_islat_4 : sp_islat 4%nat = false. Proof. reflexivity. Qed.

(* rules 0..2: the script of LatExample.sp_monotone; rules 3 and 4: no lattice variable (Gat 9), the key
   expressions and the output variable of the aggregate are plain, the heads are on plain relations *)
Lemma ag_monotone : amonotone_program lv_interp sp_islat sp_lle 5%nat ag_prog.
Proof.
  intros ru Hin. cbn in Hin. destruct Hin as [<-|[<-|[<-|[<-|[<-|[]]]]]].
  - exists (Gat 9%nat). split; [|intros x a _; apply Gat_refl]. split; [apply Gat_dom|]. split; cbn [body heads].
    + constructor; [|constructor]. cbn [amono_item]. split; [|constructor].
      unfold mono_clause. rewrite sp_islat_0. plain_vars 9%nat [0%nat; 1%nat; 2%nat].
    + constructor; [|constructor]. unfold mono_head. cbn [fst snd]. rewrite sp_islat_1.
      exists [TVar 0%nat; TVar 1%nat], (TFun 200%nat [2%nat]). split; [reflexivity|]. split.
      * plain_vars 9%nat [0%nat; 1%nat].
      * apply mono_term_fun1. intros a a' Hg. assert (a = a') by (apply (Gat_plain 9%nat 2%nat); [discriminate | exact Hg]). subst. unfold sp_lle. apply Z.le_refl.
  - exists (Gat 4%nat). split; [|intros x a _; apply Gat_refl]. split; [apply Gat_dom|]. split; cbn [body heads].
    + constructor; [|constructor; [|constructor]]; cbn [amono_item]; (split; [|constructor]); unfold mono_clause.
      * rewrite sp_islat_0. plain_vars 4%nat [0%nat; 1%nat; 2%nat].
      * rewrite sp_islat_1. exists [TVar 1%nat; TVar 3%nat], 4%nat. split; [reflexivity|]. split.
        -- plain_vars 4%nat [1%nat; 3%nat].
        -- intros a b H. apply Gat_at. exact H.
    + constructor; [|constructor]. unfold mono_head. cbn [fst snd]. rewrite sp_islat_1.
      exists [TVar 0%nat; TVar 3%nat], (TFun 201%nat [4%nat; 2%nat]). split; [reflexivity|]. split.
      * plain_vars 4%nat [0%nat; 3%nat].
      * apply mono_term_fun2. intros a a' b b' Hg Hg'. apply Gat_at in Hg. assert (b = b') by (apply (Gat_plain 4%nat 2%nat); [discriminate | exact Hg']). subst.
        unfold sp_lle. change (a' + b' <= a + b'). lia.
  - exists (Gat 2%nat). split; [|intros x a _; apply Gat_refl]. split; [apply Gat_dom|]. split; cbn [body heads].
    + constructor; [|constructor]. cbn [amono_item]. split.
      * unfold mono_clause. rewrite sp_islat_1. exists [TVar 0%nat; TVar 1%nat], 2%nat. split; [reflexivity|]. split.
        -- plain_vars 2%nat [0%nat; 1%nat].
        -- intros a b H. apply Gat_at. exact H.
      * constructor; [|constructor]. apply mono_cond_if1. intros a a' Hg Hp. apply Gat_at in Hg. change ((a <=? 4) = true) in Hp. change ((a' <=? 4) = true).
        apply Z.leb_le in Hp. apply Z.leb_le. lia.
    + constructor; [|constructor]. unfold mono_head. cbn [fst snd]. rewrite sp_islat_2.
      plain_vars 2%nat [0%nat; 1%nat].
  - (* deg(x, n) <-- edge(x, y, w), agg n = count() in sp(x, _, _) *)
    exists (Gat 9%nat). split; [|intros x a _; apply Gat_refl]. split; [apply Gat_dom|]. split; cbn [body heads].
    + constructor; [|constructor; [|constructor]]; cbn [amono_item].
      * split; [|constructor]. unfold mono_clause. rewrite sp_islat_0. plain_vars 9%nat [0%nat; 1%nat; 2%nat].
      * split.
        -- change (Forall (plain_term (Gat 9%nat)) (map TVar [0%nat])). plain_vars 9%nat [0%nat].
        -- intros x Hx. injection Hx as <-. apply Gat_plain. discriminate.
    + constructor; [|constructor]. unfold mono_head. cbn [fst snd]. rewrite sp_islat_3.
      plain_vars 9%nat [0%nat; 3%nat].
  - (* nosp(y) <-- edge(x, y, w), !sp(y, x, _) *)
    exists (Gat 9%nat). split; [|intros x a _; apply Gat_refl]. split; [apply Gat_dom|]. split; cbn [body heads].
    + constructor; [|constructor; [|constructor]]; cbn [amono_item].
      * split; [|constructor]. unfold mono_clause. rewrite sp_islat_0. plain_vars 9%nat [0%nat; 1%nat; 2%nat].
      * split.
        -- change (Forall (plain_term (Gat 9%nat)) (map TVar [1%nat; 0%nat])). plain_vars 9%nat [1%nat; 0%nat].
        -- intros x Hx. discriminate Hx.
    + constructor; [|constructor]. unfold mono_head. cbn [fst snd]. rewrite sp_islat_4.
      plain_vars 9%nat [1%nat].
Qed.

(* the input: rows for edge only, of arity 3, pairwise distinct; no lattice rows *)
Lemma ag_input_nonzero : forall r, r <> 0%nat -> ag_input r = [].
Proof. intros r Hr. unfold ag_input. apply Nat.eqb_neq in Hr. rewrite Hr. reflexivity. Qed.

Lemma ag_input_ok : ainput_ok lv_interp sp_islat sp_lle ag_arities ag_input.
Proof.
  split; [|split; [|split]].
  - intros r row Hin n Ha. destruct (Nat.eq_dec r 0%nat) as [->|Hr]; [|rewrite (ag_input_nonzero r Hr) in Hin; destruct Hin].
    assert (Hn : n = 3%nat) by (destruct n as [|[|[|[|n]]]]; try reflexivity; vm_compute in Ha; discriminate Ha).
    subst n. cbn in Hin. destruct Hin as [<-|[<-|[<-|[<-|[]]]]]; reflexivity.
  - intros r Hl. destruct (Nat.eq_dec r 0%nat) as [->|Hr]; [discriminate Hl|]. rewrite (ag_input_nonzero r Hr). constructor.
  - intros r row Hl Hin. destruct (Nat.eq_dec r 0%nat) as [->|Hr]; [discriminate Hl|]. rewrite (ag_input_nonzero r Hr) in Hin. destruct Hin.
  - intros r Hl. destruct (Nat.eq_dec r 0%nat) as [->|Hr]; [|rewrite (ag_input_nonzero r Hr); constructor].
    change (NoDup [[0; 1; 1]; [1; 2; 1]; [0; 2; 4]; [2; 3; 1]]).
    repeat constructor; cbn; intuition discriminate.
Qed.

(* the run.  sp: the 6 reachable pairs of the DAG, 0 -> 2 improved from 4 to 2.
   deg(x, n): n = the number of sp rows with first column x, for every x with an outgoing edge:
     0 reaches 1, 2, 3 (3 rows), 1 reaches 2, 3 (2 rows), 2 reaches 3 (1 row); 3 has no outgoing edge, so no deg row
     (the rule is evaluated once per edge row; deg is a plain relation, duplicates are dropped).
   nosp(y): y is the target of an edge x -> y and there is no sp row (y, x, _), i.e. y does not reach x: the graph
     is acyclic, so this holds for every edge: nosp = {1, 2, 3}. *)
Definition ag_result := option_map (fun st => (l_rows st 1%nat, l_rows st 3%nat, l_rows st 4%nat))
  (arun_plan lv_interp std_aint sp_islat sp_jm lv_shuffle lv_shuffle lv_swap 40 ag_plan ag_input).

Lemma ag_runs : ag_result = Some ([[0; 1; 1]; [1; 2; 1]; [0; 2; 2]; [2; 3; 1]; [0; 3; 3]; [1; 3; 2]],
                                  [[2; 1]; [0; 3]; [1; 2]], [[1]; [2]; [3]]).
Proof. vm_compute; reflexivity. Qed.

(* the theorem applied to the run: the final rows are the stratified lattice model of the five strata *)
Theorem ag_instance : exists st,
  arun_plan lv_interp std_aint sp_islat sp_jm lv_shuffle lv_shuffle lv_swap 40 ag_plan ag_input = Some st
  /\ strat_lat_model lv_interp std_aint sp_islat sp_lle (plan_strata ag_prog ag_plan) ag_input (l_rows st)
  /\ keys_ok sp_islat (l_rows st).
Proof.
  assert (Hne : ag_result <> None) by (rewrite ag_runs; discriminate).
  unfold ag_result in Hne.
  destruct (arun_plan lv_interp std_aint sp_islat sp_jm lv_shuffle lv_shuffle lv_swap 40 ag_plan ag_input) as [st|] eqn:Erun;
    [|exfalso; apply Hne; reflexivity].
  exists st. split; [reflexivity|].
  destruct ag_checks as [Hval [Halat Hbelow]].
  destruct (lat_agg_stratified_model lv_interp sp_eq std_aint ag_agg_perm sp_islat sp_lle sp_jm sp_laws lv_shuffle sp_shuffle_ok
              lv_shuffle ag_ashuffle_ok lv_swap ag_arities ag_arities_functional ag_prog 5%nat ag_monotone ag_plan Hval Halat Hbelow
              40%nat ag_input st ag_input_ok Erun) as [_ [_ [Hmodel [Hkeys _]]]].
  split; [exact Hmodel | exact Hkeys].
Qed.

Print Assumptions ag_instance.
