(* C04 over lattices - the statements PROPOSED for coq/Props/C04.v (names c04_lattice_...), kept here, compiled, until they are
   moved there centrally: `Theorem .. Proof. exact lemma. Qed.` only. *)
From Coq Require Import List ZArith Bool Permutation.
From AV Require Import Engine.Core.
From AV Require Import Engine.Eval.
From AV Require Import Engine.Validate.
From AV Require Import Engine.Naive.
From AV Require Import Engine.InterfaceAgg.
From AV Require Import Engine.Strat.
From AV Require Import Engine.StratFixed.
From AV Require Import Engine.StrataAgg.
From AV Require Import LatEngine.LatSyntax.
From AV Require Import LatEngine.LatEval.
From AV Require Import LatEngine.LatSem.
From AV Require Import LatEngine.LatKeys.
From AV Require Import LatEngine.LatAggEval.
From AV Require Import LatEngine.LatAggTrans.
From AV Require Import LatEngine.LatAggInv.
From AV Require Import LatEngine.LatAggSem.
From AV Require Import LatEngine.LatAggStrata.
From AV Require Import LatEngine.LatAggMain.
From AV Require Import Engine.Vocab.
From AV Require Import LatEngine.LatVocab.
From AV Require Import LatEngine.LatExample.
From AV Require Import LatEngine.LatAggExample.
Import ListNotations.

(* C04 over LATTICES.  For every value type V, interpretation, lattice (order + join_mut obeying lat_laws) per lattice
   relation, permutation-invariant aggregators, every iteration order of the hash indices (shuffle / ashuffle) and every
   len_estimate answer: for a plan accepted by the validator (producers of an aggregated relation in strictly earlier
   SCCs) and by the lattice index check, a monotone program whose aggregates have plain key expressions and a plain
   output variable, an input with one row per key / no duplicate rows, and a terminating run of the model of the
   generated code WITH the MirBodyItem::Agg arm (LatAggEval.arun_plan): the rules are grouped into strata respecting the
   dependencies, and the rows after run() are the STRATIFIED LATTICE MODEL - stratum after stratum R0 -> R1 with
   (LatAggSem.stratum_lfp): R1 leaves the aggregated relations untouched, holds one row per key of every lattice
   relation and no duplicate row, is closed under the stratum's rules where an aggregate / negation ranges over the
   rows of R0 whose key columns carry the key - EACH ROW ONCE, ONE ROW PER KEY FOR A LATTICE - (asat_agg / spec_rows),
   is above R0, and is below every per-key directed set with these two properties (least fixed point, C03's notion). *)
Theorem c04_lattice_stratified_model : forall (V : Type) (I : linterp V), veqb_ok I ->
  forall vagg : nat -> list (list V) -> list V, (forall a l l', Permutation l l' -> vagg a l = vagg a l') ->
  forall (islat : rel -> bool) (lle : rel -> V -> V -> Prop) (jm : rel -> V -> V -> V * bool),
  (forall r, islat r = true -> lat_laws (lle r) (jm r)) ->
  forall shuffle : nat -> list nat -> list nat, (forall n l x, In x (shuffle n l) <-> In x l) ->
  forall ashuffle : nat -> list nat -> list nat, (forall n l, Permutation (ashuffle n l) l) ->
  forall (swap_oracle : nat -> list nat -> list nat -> bool) (arities : list (rel * nat)), arities_functional arities ->
  forall (P : list rule) (N : var), amonotone_program I islat lle N P ->
  forall pl : plan, validate arities P pl = true -> alat_plan_ok islat arities pl = true -> plan_below N pl = true ->
  forall (fuel : nat) (Rin : rel -> list (vtuple V)) (st : lstate), ainput_ok I islat lle arities Rin ->
  arun_plan I vagg islat jm shuffle ashuffle swap_oracle fuel pl Rin = Some st ->
  stratified (plan_strata P pl) = true
  /\ (forall r, In r P <-> In r (concat (plan_strata P pl)))
  /\ strat_lat_model I vagg islat lle (plan_strata P pl) Rin (l_rows st)
  /\ keys_ok islat (l_rows st) /\ plain_nodup islat (l_rows st).
Proof. exact @lat_agg_stratified_model. Qed.

(* the rows an aggregate of a stratum ranges over are the FINAL rows of the aggregated relation: neither the SCC of the
   aggregate nor any later one changes them *)
Theorem c04_lattice_aggregated_final : forall (V : Type) (I : linterp V), veqb_ok I ->
  forall vagg : nat -> list (list V) -> list V, (forall a l l', Permutation l l' -> vagg a l = vagg a l') ->
  forall (islat : rel -> bool) (lle : rel -> V -> V -> Prop) (jm : rel -> V -> V -> V * bool),
  (forall r, islat r = true -> lat_laws (lle r) (jm r)) ->
  forall shuffle : nat -> list nat -> list nat, (forall n l x, In x (shuffle n l) <-> In x l) ->
  forall ashuffle : nat -> list nat -> list nat, (forall n l, Permutation (ashuffle n l) l) ->
  forall (swap_oracle : nat -> list nat -> list nat -> bool) (arities : list (rel * nat)), arities_functional arities ->
  forall (P : list rule) (N : var), amonotone_program I islat lle N P ->
  forall pl : plan, validate arities P pl = true -> alat_plan_ok islat arities pl = true -> plan_below N pl = true ->
  forall (fuel : nat) (pre : list pscc) (sc : pscc) (rest : list pscc) (st st' : lstate),
  pl = pre ++ sc :: rest -> AG I islat lle arities st ->
  arun_sccs I vagg islat jm shuffle ashuffle swap_oracle fuel (sc :: rest) st = Some st' ->
  forall q, In q (stratum_agg_rels (stratum_of P sc)) -> l_rows st' q = l_rows st q.
Proof. exact @lat_agg_aggregated_final. Qed.

(* the shipped aggregators (Agg/AggModel.v, C17) meet the permutation hypothesis *)
Theorem c04_lattice_shipped_aggregators : forall a l l', Permutation l l' -> std_aint a l = std_aint a l'.
Proof. exact ag_agg_perm. Qed.

(* non-vacuity: shortest paths over Dual (a lattice raised over several iterations) with a count and a negation over it, on
   the plan shape the macro produces: every hypothesis holds, the model runs, and the theorem applies *)
Theorem c04_lattice_example : exists st,
  arun_plan lv_interp std_aint sp_islat sp_jm lv_shuffle lv_shuffle lv_swap 40 ag_plan ag_input = Some st
  /\ strat_lat_model lv_interp std_aint sp_islat sp_lle (plan_strata ag_prog ag_plan) ag_input (l_rows st)
  /\ keys_ok sp_islat (l_rows st).
Proof. exact ag_instance. Qed.

Print Assumptions c04_lattice_stratified_model. Print Assumptions c04_lattice_aggregated_final.
Print Assumptions c04_lattice_shipped_aggregators. Print Assumptions c04_lattice_example.
