(* C02, lattice half - rule evaluation of the parallel lattice engine (LatParModel.sato / covers) against the specification.
   Two simulations, both by monotonicity of the rule (LatMono.v), for both traversal orders of a reorderable simple join:
   - sound_from: a path through the nested loops of a variant whose reads are all below a directed closed set J has a
     COMPANION satisfying instance of the rule body over J, above the environment at the head;
   - comp_from:  when the nested loops have been executed completely ([covers]) and every read saw a value above the
     value at the start of the iteration, then for every satisfying instance over the START rows (restricted to the
     index versions the variant reads) some environment that reached the end of the body is above it.
   Counterparts of LatItems.clause_spec / items_spec / sj_spec / from_spec (no state is threaded here). *)
From Coq Require Import List ZArith Bool Arith Lia.
From AV Require Import Engine.Core.
From AV Require Import Engine.Eval.
From AV Require Import Engine.Validate.
From AV Require Import Engine.Naive.
From AV Require Engine.EnvLemmas.
From AV Require Engine.EvalSpec.
From AV Require Import LatEngine.LatSyntax.
From AV Require Import LatEngine.LatEval.
From AV Require Import LatEngine.LatPlan.
From AV Require Import LatEngine.LatSem.
From AV Require Import LatEngine.LatEnv.
From AV Require Import LatEngine.LatClause.
From AV Require Import LatEngine.LatMono.
From AV Require Import LatEngine.LatBase.
From AV Require Import LatEngine.LatHead.
From AV Require Import LatEngine.LatItems.
From AV Require Import LatEngine.LatParModel.
Import ListNotations.
Local Open Scope nat_scope.

Section Items.
Context {V : Type}.
Variable I : linterp V.
Hypothesis Heq : veqb_ok I.
Variable islat : rel -> bool.
Variable lle : rel -> V -> V -> Prop.
Variable jm : rel -> V -> V -> V * bool.
Hypothesis Hlaws : forall r, islat r = true -> lat_laws (lle r) (jm r).
Variable arities : list (rel * nat).
Variable dyn : list rel.
Variables St T D : rel -> list nat.
Variable R0 : rel -> list (vtuple V).
Variable G : vorder (V:=V).
Variable Obs : rel -> nat -> vtuple V -> Prop.

Notation tle := (tle I islat lle).
Notation below := (below I islat lle).
Notation sato := (sato I dyn St T D Obs).
Notation covers := (covers I dyn St T D Obs).
Notation satv := (satv I dyn St T D R0).
Notation envok := (@envok V).

Definition order_ok (items : list pitem) (sj : option nat) (reord : bool) (items' : list pitem) : Prop :=
  items' = items \/ (reord = true /\ exists n, sj = Some n /\ items' = swap_at n items).


(* ---------- inversion ---------- *)
Lemma sato_nil_inv : forall (e e' : venv V), sato [] e e' -> e' = e.
Proof. intros e e' H. inversion H; subst. reflexivity. Qed.
Lemma sato_clause_inv : forall r args cs idx ver rest (e e3 : venv V), sato (PClause r args cs idx ver :: rest) e e3 ->
  exists i t e1 e2, In i (vrows dyn St T D r ver) /\ Obs r i t /\ vmatch_args I e args t = Some e1 /\ vsat_conds I e1 cs = Some e2 /\ sato rest e2 e3.
Proof. intros r args cs idx ver rest e e3 H. inversion H; subst. eauto 10. Qed.
Lemma sato_cond_inv : forall c rest (e e2 : venv V), sato (PCond c :: rest) e e2 -> exists e1, vsat_cond I e c = Some e1 /\ sato rest e1 e2.
Proof. intros c rest e e2 H. inversion H; subst. eauto. Qed.
Lemma sato_gen_inv : forall x g xs rest (e e2 : venv V), sato (PGen x g xs :: rest) e e2 ->
  exists vs v, veval_vars e xs = Some vs /\ In v (vgen I g vs) /\ sato rest (vbind x v e) e2.
Proof. intros x g xs rest e e2 H. inversion H; subst. eauto. Qed.

Lemma satv_nil_inv : forall (e e' : venv V), satv [] e e' -> e' = e.
Proof. intros e e' H. inversion H; subst. reflexivity. Qed.
Lemma satv_clause_inv : forall r args cs idx ver rest (e e3 : venv V), satv (PClause r args cs idx ver :: rest) e e3 ->
  exists i t e1 e2, In i (vrows dyn St T D r ver) /\ nth_error (R0 r) i = Some t /\ vmatch_args I e args t = Some e1 /\ vsat_conds I e1 cs = Some e2 /\ satv rest e2 e3.
Proof. intros r args cs idx ver rest e e3 H. inversion H; subst. eauto 10. Qed.
Lemma satv_cond_inv : forall c rest (e e2 : venv V), satv (PCond c :: rest) e e2 -> exists e1, vsat_cond I e c = Some e1 /\ satv rest e1 e2.
Proof. intros c rest e e2 H. inversion H; subst. eauto. Qed.
Lemma satv_gen_inv : forall x g xs rest (e e2 : venv V), satv (PGen x g xs :: rest) e e2 ->
  exists vs v, veval_vars e xs = Some vs /\ In v (vgen I g vs) /\ satv rest (vbind x v e) e2.
Proof. intros x g xs rest e e2 H. inversion H; subst. eauto. Qed.

Lemma covers_nil_inv : forall Leaf (e : venv V), covers Leaf [] e -> Leaf e.
Proof. intros Leaf e H. inversion H; subst. assumption. Qed.
Lemma covers_clause_inv : forall Leaf r args cs idx ver rest (e : venv V), covers Leaf (PClause r args cs idx ver :: rest) e ->
  forall i, In i (vrows dyn St T D r ver) -> exists t, Obs r i t /\
    forall e1 e2, vmatch_args I e args t = Some e1 -> vsat_conds I e1 cs = Some e2 -> covers Leaf rest e2.
Proof. intros Leaf r args cs idx ver rest e H. inversion H; subst. assumption. Qed.
Lemma covers_cond_inv : forall Leaf c rest (e : venv V), covers Leaf (PCond c :: rest) e -> forall e1, vsat_cond I e c = Some e1 -> covers Leaf rest e1.
Proof. intros Leaf c rest e H. inversion H; subst. assumption. Qed.
Lemma covers_gen_inv : forall Leaf x g xs rest (e : venv V), covers Leaf (PGen x g xs :: rest) e ->
  forall vs v, veval_vars e xs = Some vs -> In v (vgen I g vs) -> covers Leaf rest (vbind x v e).
Proof. intros Leaf x g xs rest e H. inversion H; subst. assumption. Qed.

Lemma sato_idx : forall r args cs idx idx' ver rest (e e' : venv V),
  sato (PClause r args cs idx ver :: rest) e e' -> sato (PClause r args cs idx' ver :: rest) e e'.
Proof. intros r args cs idx idx' ver rest e e' H. inversion H; subst. econstructor; eauto. Qed.

Lemma covers_idx : forall Leaf r args cs idx idx' ver rest (e : venv V),
  covers Leaf (PClause r args cs idx ver :: rest) e -> covers Leaf (PClause r args cs idx' ver :: rest) e.
Proof. intros Leaf r args cs idx idx' ver rest e H. inversion H; subst. constructor. assumption. Qed.

Lemma idx_nil_ok : forall r (args : list term), (islat r = true -> forallb (fun i => Nat.ltb (S i) (length args)) [] = true).
Proof. intros. reflexivity. Qed.

Lemma lat_item_idx : forall r args cs idx ver, lat_item_ok islat (PClause r args cs idx ver) = true ->
  (islat r = true -> forallb (fun i => Nat.ltb (S i) (length args)) idx = true).
Proof. intros r args cs idx ver H Hl. cbn [lat_item_ok] in H. rewrite Hl in H. exact H. Qed.

(* =============== soundness: a companion instance over J =============== *)
Section Sound.
Variable J : db (V:=V).
Hypothesis HObsJ : forall r i t, Obs r i t -> below J (r, t).

Lemma sound_clause_step : forall B B1 r args cs idx (e eJ e1 e2 : venv V) t,
  check_clause arities B r args cs idx = Some B1 ->
  (islat r = true -> forallb (fun i => Nat.ltb (S i) (length args)) idx = true) ->
  mono_clause islat lle G r args -> Forall (mono_cond I G) cs ->
  envok B e -> ele G e eJ -> vcanon eJ -> below J (r, t) ->
  vmatch_args I e args t = Some e1 -> vsat_conds I e1 cs = Some e2 ->
  envok B1 e2 /\ exists tJ eJ1 eJ2, J r tJ /\ vmatch_args I eJ args tJ = Some eJ1 /\ vsat_conds I eJ1 cs = Some eJ2
                                   /\ ele G e2 eJ2 /\ vcanon eJ2.
Proof.
  intros B B1 r args cs idx e eJ e1 e2 t Hck Hix Hmc Hmcs [Hd Hc] Hle HcJ Hb Hm Hs. split.
  - destruct (vclause_sound I Heq B B1 args cs t e e1 e2 (EvalSpec.check_clause_clause_ok arities _ _ _ _ _ _ Hck) Hd Hc Hm Hs) as [_ [_ [Hd2 Hc2]]].
    split; assumption.
  - exact (companion_step I Heq islat lle arities J G B r args cs idx B1 e eJ e1 e2 t Hck Hix Hmc Hmcs Hd Hle HcJ Hb Hm Hs).
Qed.

Lemma sound_items : forall items B B' (e e' eJ : venv V),
  check_items arities B items = Some B' -> forallb (lat_item_ok islat) items = true ->
  Forall (mono_item I islat lle G) (map item_of items) ->
  envok B e -> ele G e eJ -> vcanon eJ -> sato items e e' ->
  envok B' e' /\ exists eJ', sat I J (map item_of items) eJ eJ' /\ ele G e' eJ' /\ vcanon eJ'.
Proof.
  induction items as [|p rest IH]; intros B B' e e' eJ Hck Hlat Hmono Hok Hle HcJ Hs.
  - cbn in Hck. injection Hck as <-. apply sato_nil_inv in Hs. subst e'. split; [exact Hok|]. exists eJ. split; [constructor | auto].
  - cbn [forallb] in Hlat. apply andb_true_iff in Hlat. destruct Hlat as [Hl1 Hlat].
    cbn [map] in Hmono. inversion Hmono as [|? ? Hm1 Hmr]; subst.
    destruct p as [r args cs idx ver|c|x g xs|o a bd r args idx]; cbn [check_items] in Hck; cbn [item_of mono_item] in Hm1.
    + destruct (check_clause arities B r args cs idx) as [B1|] eqn:Ec; [|discriminate]. destruct Hm1 as [Hmc Hmcs].
      destruct (sato_clause_inv _ _ _ _ _ _ _ _ Hs) as [i [t [e1 [e2 [Hi [Ho [Hm [Hc Hrest]]]]]]]].
      destruct (sound_clause_step B B1 r args cs idx e eJ e1 e2 t Ec (lat_item_idx _ _ _ _ _ Hl1) Hmc Hmcs Hok Hle HcJ (HObsJ _ _ _ Ho) Hm Hc)
        as [Hok2 [tJ [eJ1 [eJ2 [HJ [HmJ [HsJ [Hle2 Hc2]]]]]]]].
      destruct (IH B1 B' e2 e' eJ2 Hck Hlat Hmr Hok2 Hle2 Hc2 Hrest) as [Hok' [eJ' [Hsat [Hle' Hc']]]].
      split; [exact Hok'|]. exists eJ'. split; [|auto]. cbn [map item_of]. econstructor; eauto.
    + destruct (check_cond B c) as [B1|] eqn:Ec; [|discriminate].
      destruct (sato_cond_inv _ _ _ _ Hs) as [e1 [H1 Hrest]]. destruct Hok as [Hd Hc].
      destruct (vsat_cond_sound I e B B1 c e1 Hd Hc Ec H1) as [_ [_ [Hd1 Hc1]]].
      destruct (Hm1 e eJ e1 Hle H1) as [eJ1 [EsJ Hle1]].
      destruct (vsat_cond_sound I eJ B B1 c eJ1 (ele_dom G e eJ B Hle Hd) HcJ Ec EsJ) as [_ [_ [_ HcJ1]]].
      destruct (IH B1 B' e1 e' eJ1 Hck Hlat Hmr (conj Hd1 Hc1) Hle1 HcJ1 Hrest) as [Hok' [eJ' [Hsat [Hle' Hc']]]].
      split; [exact Hok'|]. exists eJ'. split; [|auto]. cbn [map item_of]. econstructor; eauto.
    + destruct (subv xs B && negb (memv x B)) eqn:Eb; [|discriminate].
      destruct (sato_gen_inv _ _ _ _ _ _ Hs) as [vs [v [H2 [H4 Hrest]]]]. destruct Hok as [Hd Hc].
      destruct (Hm1 e eJ vs v Hle H2 H4) as [vsJ [vJ [EvJ [HvJ Hg]]]].
      destruct (IH (x :: B) B' (vbind x v e) e' (vbind x vJ eJ) Hck Hlat Hmr) as [Hok' [eJ' [Hsat [Hle' Hc']]]]; auto.
      * split; [apply vdom_bind; auto | apply vcanon_bind; auto].
      * apply ele_bind; auto.
      * apply vcanon_bind; auto.
      * split; [exact Hok'|]. exists eJ'. split; [|auto]. cbn [map item_of]. econstructor; eauto.
    + contradiction.
Qed.

Lemma order_cons : forall (p : pitem) rest n reord items', order_ok (p :: rest) (Some (S n)) reord items' ->
  exists rest', items' = p :: rest' /\ order_ok rest (Some n) reord rest'.
Proof.
  intros p rest n reord items' [->|[Er [m [Hm ->]]]].
  - exists rest. split; [reflexivity | left; reflexivity].
  - injection Hm as <-. cbn [swap_at]. exists (swap_at n rest). split; [reflexivity|]. right. split; [exact Er|]. exists n. auto.
Qed.

Lemma sound_from : forall sj items reord B B' items' (e e' eJ : venv V),
  check_from arities B items sj reord = Some B' -> forallb (lat_item_ok islat) items = true ->
  Forall (mono_item I islat lle G) (map item_of items) -> order_ok items sj reord items' ->
  envok B e -> ele G e eJ -> vcanon eJ -> sato items' e e' ->
  envok B' e' /\ exists eJ', sat I J (map item_of items) eJ eJ' /\ ele G e' eJ' /\ vcanon eJ'.
Proof.
  intros [n|].
  2:{ intros items reord B B' items' e e' eJ Hck Hlat Hmono [->|[_ [n [Hn _]]]] Hok Hle HcJ Hs; [|discriminate].
      destruct items; cbn [check_from] in Hck; eapply sound_items; eauto. }
  induction n as [|n IH]; intros items reord B B' items' e e' eJ Hck Hlat Hmono Hord Hok Hle HcJ Hs.
  - cbn [check_from] in Hck.
    destruct items as [|[r1 a1 c1 i1 v1|c|x g xs|o a bd r args idx] items]; try discriminate.
    destruct items as [|[r2 a2 c2 i2 v2|c|x g xs|o a bd r args idx] rest]; try discriminate.
    destruct (csj_unpack _ _ _ _ _ _ _ _ _ _ _ _ _ _ _ Hck) as [B1 [B2 [E1 [E2 [E3 Hsw]]]]].
    pose proof Hlat as Hlat'. cbn [forallb] in Hlat'.
    apply andb_true_iff in Hlat'. destruct Hlat' as [L1 Hlat']. apply andb_true_iff in Hlat'. destruct Hlat' as [L2 L3].
    pose proof Hmono as Hmono'. cbn [map] in Hmono'.
    inversion Hmono' as [|? ? M1 Hm']; subst. inversion Hm' as [|? ? M2 M3]; subst.
    cbn [item_of mono_item] in M1, M2. destruct M1 as [M1a M1b]. destruct M2 as [M2a M2b].
    destruct Hord as [->|[Er [n [Hn ->]]]].
    + (* written order *)
      destruct (sound_items (PClause r1 a1 c1 [] v1 :: PClause r2 a2 c2 i2 v2 :: rest) B B' e e' eJ) as [Hok' [eJ' [Hsat HH]]]; auto.
      * cbn [check_items]. rewrite E1, E2. exact E3.
      * cbn [forallb]. rewrite L2, L3. cbn [lat_item_ok forallb]. rewrite orb_true_r. reflexivity.
      * eapply sato_idx; eauto.
      * split; [exact Hok'|]. exists eJ'. split; [exact Hsat | exact HH].
    + (* swapped *)
      injection Hn as <-. cbn [swap_at] in Hs. destruct (Hsw Er) as [C1 [C2 [E4 E5]]].
      pose proof (EvalSpec.check_clause_clause_ok arities _ _ _ _ _ _ E1) as K1.
      pose proof (EvalSpec.check_clause_clause_ok arities _ _ _ _ _ _ E2) as K2.
      pose proof (EvalSpec.check_clause_clause_ok arities _ _ _ _ _ _ E4) as K3.
      pose proof (EvalSpec.check_clause_clause_ok arities _ _ _ _ _ _ E5) as K4.
      destruct (sato_clause_inv _ _ _ _ _ _ _ _ Hs) as [j2 [t2 [x1 [x2 [Hi2 [Ho2 [Hm2 [Hc2 Hs1]]]]]]]].
      destruct (sato_clause_inv _ _ _ _ _ _ _ _ Hs1) as [j1 [t1 [x3 [x4 [Hi1 [Ho1 [Hm1 [Hc1 Hrest]]]]]]]].
      destruct (sound_clause_step B C1 r2 a2 c2 [] e eJ x1 x2 t2 E4 (idx_nil_ok r2 a2) M2a M2b Hok Hle HcJ (HObsJ _ _ _ Ho2) Hm2 Hc2)
        as [Hok2 [tJ2 [eJ1 [eJ2 [HJ2 [HmJ2 [HsJ2 [Hle2 HcJ2]]]]]]]].
      destruct (sound_clause_step C1 C2 r1 a1 c1 i1 x2 eJ2 x3 x4 t1 E5 (lat_item_idx _ _ _ _ _ L1) M1a M1b Hok2 Hle2 HcJ2 (HObsJ _ _ _ Ho1) Hm1 Hc1)
        as [Hok4 [tJ1 [eJ3 [eJ4 [HJ1 [HmJ1 [HsJ1 [Hle4 HcJ4]]]]]]]].
      destruct Hok as [Hd Hc].
      (* the engine side: the same environment in the written order, hence bound as the validator says *)
      assert (Hr : vrun2 I e a2 t2 c2 a1 t1 c1 x4) by (exists x1, x2, x3; auto).
      pose proof (vrun2_swap I Heq B C1 C2 B1 B2 a2 t2 c2 a1 t1 c1 e x4 K3 K4 K1 K2 Hd Hc Hr) as Hr'.
      destruct (vrun2_sound I Heq B B1 B2 a1 t1 c1 a2 t2 c2 e x4 K1 K2 Hd Hc Hr') as [_ [_ [_ [Hd4 Hc4']]]].
      (* the companion in the written order *)
      assert (HrJ : vrun2 I eJ a2 tJ2 c2 a1 tJ1 c1 eJ4) by (exists eJ1, eJ2, eJ3; auto).
      pose proof (vrun2_swap I Heq B C1 C2 B1 B2 a2 tJ2 c2 a1 tJ1 c1 eJ eJ4 K3 K4 K1 K2 (ele_dom G e eJ B Hle Hd) HcJ HrJ) as [y1 [y2 [y3 [A1 [A2 [A3 A4]]]]]].
      destruct (sound_items rest B2 B' x4 e' eJ4 E3 L3 M3 (conj Hd4 Hc4') Hle4 HcJ4 Hrest) as [Hok' [eJ' [Hsat [Hle' Hc']]]].
      split; [exact Hok'|]. exists eJ'. split; [|auto]. cbn [map item_of]. econstructor; eauto. econstructor; eauto.
  - destruct items as [|p rest]; [discriminate|].
    cbn [forallb] in Hlat. apply andb_true_iff in Hlat. destruct Hlat as [Hl1 Hlat].
    cbn [map] in Hmono. inversion Hmono as [|? ? Hm1 Hmr]; subst.
    destruct (order_cons _ _ _ _ _ Hord) as [rest' [-> Hor]].
    destruct p as [r args cs idx ver|c|x g xs|o a bd r args idx]; cbn [check_from] in Hck; cbn [item_of mono_item] in Hm1; try discriminate; try contradiction.
    + destruct (check_cond B c) as [B1|] eqn:Ec; [|discriminate].
      destruct (sato_cond_inv _ _ _ _ Hs) as [e1 [H1 Hrest]]. destruct Hok as [Hd Hc].
      destruct (vsat_cond_sound I e B B1 c e1 Hd Hc Ec H1) as [_ [_ [Hd1 Hc1]]].
      destruct (Hm1 e eJ e1 Hle H1) as [eJ1 [EsJ Hle1]].
      destruct (vsat_cond_sound I eJ B B1 c eJ1 (ele_dom G e eJ B Hle Hd) HcJ Ec EsJ) as [_ [_ [_ HcJ1]]].
      destruct (IH rest reord B1 B' rest' e1 e' eJ1 Hck Hlat Hmr Hor (conj Hd1 Hc1) Hle1 HcJ1 Hrest) as [Hok' [eJ' [Hsat [Hle' Hc']]]].
      split; [exact Hok'|]. exists eJ'. split; [|auto]. cbn [map item_of]. econstructor; eauto.
    + destruct (subv xs B && negb (memv x B)) eqn:Eb; [|discriminate].
      destruct (sato_gen_inv _ _ _ _ _ _ Hs) as [vs [v [H2 [H4 Hrest]]]]. destruct Hok as [Hd Hc].
      destruct (Hm1 e eJ vs v Hle H2 H4) as [vsJ [vJ [EvJ [HvJ Hg]]]].
      destruct (IH rest reord (x :: B) B' rest' (vbind x v e) e' (vbind x vJ eJ) Hck Hlat Hmr Hor) as [Hok' [eJ' [Hsat [Hle' Hc']]]]; auto.
      * split; [apply vdom_bind; auto | apply vcanon_bind; auto].
      * apply ele_bind; auto.
      * apply vcanon_bind; auto.
      * split; [exact Hok'|]. exists eJ'. split; [|auto]. cbn [map item_of]. econstructor; eauto.
Qed.
End Sound.

(* =============== completeness: every instance over the start rows is dominated =============== *)
Section Complete.
Hypothesis HObsR : forall r i t t0, Obs r i t -> nth_error (R0 r) i = Some t0 -> tle r t0 t.

Lemma ele_bound_rev' : forall (e e' : venv V) B, ele G e e' -> vdom e' B -> vdom e B.
Proof. intros e e' B H Hd x. rewrite (ele_bound G e e' x H). apply Hd. Qed.

Lemma comp_clause_step : forall B B1 r args cs idx (e et et1 et2 : venv V) t0 t,
  check_clause arities B r args cs idx = Some B1 ->
  (islat r = true -> forallb (fun i => Nat.ltb (S i) (length args)) idx = true) ->
  mono_clause islat lle G r args -> Forall (mono_cond I G) cs ->
  envok B e -> ele G et e -> vcanon et -> tle r t0 t ->
  vmatch_args I et args t0 = Some et1 -> vsat_conds I et1 cs = Some et2 ->
  exists e1 e2, vmatch_args I e args t = Some e1 /\ vsat_conds I e1 cs = Some e2 /\ ele G et2 e2 /\ vcanon et2 /\ envok B1 e2.
Proof.
  intros B B1 r args cs idx e et et1 et2 t0 t Hck Hix Hmc Hmcs [Hd Hc] Hle Hct Htle Hm Hs.
  pose proof (EvalSpec.check_clause_clause_ok arities _ _ _ _ _ _ Hck) as Hok.
  pose proof (ele_bound_rev' et e B Hle Hd) as Hdt.
  destruct (match_mono I islat lle G r args t0 t et e et1 Hmc Hle Htle) as [e1 [Hm1 Hle1]]; auto.
  { intros Hl'. eapply (lat_fresh I Heq islat arities B r args cs idx B1 et t0); eauto. }
  destruct (conds_mono I G cs et1 e1 et2 Hmcs Hle1 Hs) as [e2 [Hs2 Hle2]].
  exists e1, e2. split; [exact Hm1|]. split; [exact Hs2|]. split; [exact Hle2|].
  destruct (vclause_sound I Heq B B1 args cs t0 et et1 et2 Hok Hdt Hct Hm Hs) as [_ [_ [_ Hc2']]].
  destruct (vclause_sound I Heq B B1 args cs t e e1 e2 Hok Hd Hc Hm1 Hs2) as [_ [_ [Hd2 Hc2]]].
  split; [exact Hc2' | split; assumption].
Qed.

Lemma comp_items : forall items B B' (Leaf : venv V -> Prop) (e et et' : venv V),
  check_items arities B items = Some B' -> forallb (lat_item_ok islat) items = true ->
  Forall (mono_item I islat lle G) (map item_of items) ->
  envok B e -> ele G et e -> vcanon et -> covers Leaf items e -> satv items et et' ->
  exists e', Leaf e' /\ ele G et' e' /\ vcanon et' /\ envok B' e'.
Proof.
  induction items as [|p rest IH]; intros B B' Leaf e et et' Hck Hlat Hmono Hok Hle Hct Hcov Hs.
  - cbn in Hck. injection Hck as <-. apply satv_nil_inv in Hs. subst et'. apply covers_nil_inv in Hcov. exists e. auto.
  - cbn [forallb] in Hlat. apply andb_true_iff in Hlat. destruct Hlat as [Hl1 Hlat].
    cbn [map] in Hmono. inversion Hmono as [|? ? Hm1 Hmr]; subst.
    destruct p as [r args cs idx ver|c|x g xs|o a bd r args idx]; cbn [check_items] in Hck; cbn [item_of mono_item] in Hm1.
    + destruct (check_clause arities B r args cs idx) as [B1|] eqn:Ec; [|discriminate]. destruct Hm1 as [Hmc Hmcs].
      destruct (satv_clause_inv _ _ _ _ _ _ _ _ Hs) as [i [t [e1 [e2 [Hi [Hn [Hm [Hc Hrest]]]]]]]].
      destruct (covers_clause_inv _ _ _ _ _ _ _ _ Hcov i Hi) as [t' [Ho Hk]].
      destruct (comp_clause_step B B1 r args cs idx e et e1 e2 t t' Ec (lat_item_idx _ _ _ _ _ Hl1) Hmc Hmcs Hok Hle Hct (HObsR _ _ _ _ Ho Hn) Hm Hc)
        as [x1 [x2 [Hm1' [Hs2 [Hle2 [Hc2 Hok2]]]]]].
      exact (IH B1 B' Leaf x2 e2 et' Hck Hlat Hmr Hok2 Hle2 Hc2 (Hk x1 x2 Hm1' Hs2) Hrest).
    + destruct (check_cond B c) as [B1|] eqn:Ec; [|discriminate].
      destruct (satv_cond_inv _ _ _ _ Hs) as [e1 [H1 Hrest]]. destruct Hok as [Hd Hc].
      destruct (Hm1 et e e1 Hle H1) as [x1 [Es1 Hle1]].
      destruct (vsat_cond_sound I e B B1 c x1 Hd Hc Ec Es1) as [_ [_ [Hd1 Hc1]]].
      destruct (vsat_cond_sound I et B B1 c e1 (ele_bound_rev' et e B Hle Hd) Hct Ec H1) as [_ [_ [_ Hct1]]].
      exact (IH B1 B' Leaf x1 e1 et' Hck Hlat Hmr (conj Hd1 Hc1) Hle1 Hct1 (covers_cond_inv _ _ _ _ Hcov x1 Es1) Hrest).
    + destruct (subv xs B && negb (memv x B)) eqn:Eb; [|discriminate].
      destruct (satv_gen_inv _ _ _ _ _ _ Hs) as [vs [v [H2 [H4 Hrest]]]]. destruct Hok as [Hd Hc].
      destruct (Hm1 et e vs v Hle H2 H4) as [vs' [v' [Ev' [Hv' Hg]]]].
      apply (IH (x :: B) B' Leaf (vbind x v' e) (vbind x v et) et' Hck Hlat Hmr); [| | | apply (covers_gen_inv _ _ _ _ _ _ Hcov vs' v' Ev' Hv') | exact Hrest].
      * split; [apply vdom_bind; auto | apply vcanon_bind; auto].
      * apply ele_bind; auto.
      * apply vcanon_bind; auto.
    + contradiction.
Qed.

Lemma comp_from : forall sj items reord B B' items' (Leaf : venv V -> Prop) (e et et' : venv V),
  check_from arities B items sj reord = Some B' -> forallb (lat_item_ok islat) items = true ->
  Forall (mono_item I islat lle G) (map item_of items) -> order_ok items sj reord items' ->
  envok B e -> ele G et e -> vcanon et -> covers Leaf items' e -> satv items et et' ->
  exists e', Leaf e' /\ ele G et' e' /\ vcanon et' /\ envok B' e'.
Proof.
  intros [n|].
  2:{ intros items reord B B' items' Leaf e et et' Hck Hlat Hmono [->|[_ [n [Hn _]]]] Hok Hle Hct Hcov Hs; [|discriminate].
      destruct items; cbn [check_from] in Hck; eapply comp_items; eauto. }
  induction n as [|n IH]; intros items reord B B' items' Leaf e et et' Hck Hlat Hmono Hord Hok Hle Hct Hcov Hs.
  - cbn [check_from] in Hck.
    destruct items as [|[r1 a1 c1 i1 v1|c|x g xs|o a bd r args idx] items]; try discriminate.
    destruct items as [|[r2 a2 c2 i2 v2|c|x g xs|o a bd r args idx] rest]; try discriminate.
    destruct (csj_unpack _ _ _ _ _ _ _ _ _ _ _ _ _ _ _ Hck) as [B1 [B2 [E1 [E2 [E3 Hsw]]]]].
    pose proof Hlat as Hlat'. cbn [forallb] in Hlat'.
    apply andb_true_iff in Hlat'. destruct Hlat' as [L1 Hlat']. apply andb_true_iff in Hlat'. destruct Hlat' as [L2 L3].
    pose proof Hmono as Hmono'. cbn [map] in Hmono'.
    inversion Hmono' as [|? ? M1 Hm']; subst. inversion Hm' as [|? ? M2 M3]; subst.
    cbn [item_of mono_item] in M1, M2. destruct M1 as [M1a M1b]. destruct M2 as [M2a M2b].
    destruct Hord as [->|[Er [n [Hn ->]]]].
    + apply (comp_items (PClause r1 a1 c1 [] v1 :: PClause r2 a2 c2 i2 v2 :: rest) B B' Leaf e et et'); auto.
      * cbn [check_items]. rewrite E1, E2. exact E3.
      * cbn [forallb]. rewrite L2, L3. cbn [lat_item_ok forallb]. rewrite orb_true_r. reflexivity.
      * eapply covers_idx; eauto.
      * eapply satv_idx; eauto.
    + injection Hn as <-. cbn [swap_at] in Hcov. destruct (Hsw Er) as [C1 [C2 [E4 E5]]].
      pose proof (EvalSpec.check_clause_clause_ok arities _ _ _ _ _ _ E1) as K1.
      pose proof (EvalSpec.check_clause_clause_ok arities _ _ _ _ _ _ E2) as K2.
      pose proof (EvalSpec.check_clause_clause_ok arities _ _ _ _ _ _ E4) as K3.
      pose proof (EvalSpec.check_clause_clause_ok arities _ _ _ _ _ _ E5) as K4.
      destruct Hok as [Hd Hc]. pose proof (ele_bound_rev' et e B Hle Hd) as Hdt.
      (* the target instance, in the swapped order *)
      destruct (satv_clause_inv _ _ _ _ _ _ _ _ Hs) as [j1 [u1 [y1 [y2 [Hi1 [Hn1 [Hma [Hsa Hs2]]]]]]]].
      destruct (satv_clause_inv _ _ _ _ _ _ _ _ Hs2) as [j2 [u2 [y3 [y4 [Hi2 [Hn2 [Hmb [Hsb Hrest]]]]]]]].
      assert (Hr : vrun2 I et a1 u1 c1 a2 u2 c2 y4) by (exists y1, y2, y3; auto).
      pose proof (vrun2_swap I Heq B B1 B2 C1 C2 a1 u1 c1 a2 u2 c2 et y4 K1 K2 K3 K4 Hdt Hct Hr) as [z1 [z2 [z3 [A1 [A2 [A3 A4]]]]]].
      destruct (covers_clause_inv _ _ _ _ _ _ _ _ Hcov j2 Hi2) as [t2' [Ho2 Hk2]].
      destruct (comp_clause_step B C1 r2 a2 c2 [] e et z1 z2 u2 t2' E4 (idx_nil_ok r2 a2) M2a M2b (conj Hd Hc) Hle Hct (HObsR _ _ _ _ Ho2 Hn2) A1 A2)
        as [x1 [x2 [Hm1' [Hs2' [Hle2 [Hc2 Hok2]]]]]].
      destruct (covers_clause_inv _ _ _ _ _ _ _ _ (Hk2 x1 x2 Hm1' Hs2') j1 Hi1) as [t1' [Ho1 Hk1]].
      destruct (comp_clause_step C1 C2 r1 a1 c1 i1 x2 z2 z3 y4 u1 t1' E5 (lat_item_idx _ _ _ _ _ L1) M1a M1b Hok2 Hle2 Hc2 (HObsR _ _ _ _ Ho1 Hn1) A3 A4)
        as [x3 [x4 [Hm3' [Hs4' [Hle4 [Hc4 _]]]]]].
      assert (Hre : vrun2 I e a2 t2' c2 a1 t1' c1 x4) by (exists x1, x2, x3; auto).
      pose proof (vrun2_swap I Heq B C1 C2 B1 B2 a2 t2' c2 a1 t1' c1 e x4 K3 K4 K1 K2 Hd Hc Hre) as Hre'.
      destruct (vrun2_sound I Heq B B1 B2 a1 t1' c1 a2 t2' c2 e x4 K1 K2 Hd Hc Hre') as [_ [_ [_ [Hd4 Hc4']]]].
      exact (comp_items rest B2 B' Leaf x4 y4 et' E3 L3 M3 (conj Hd4 Hc4') Hle4 Hc4 (Hk1 x3 x4 Hm3' Hs4') Hrest).
  - destruct items as [|p rest]; [discriminate|].
    cbn [forallb] in Hlat. apply andb_true_iff in Hlat. destruct Hlat as [Hl1 Hlat].
    cbn [map] in Hmono. inversion Hmono as [|? ? Hm1 Hmr]; subst.
    destruct (order_cons _ _ _ _ _ Hord) as [rest' [-> Hor]].
    destruct p as [r args cs idx ver|c|x g xs|o a bd r args idx]; cbn [check_from] in Hck; cbn [item_of mono_item] in Hm1; try discriminate; try contradiction.
    + destruct (check_cond B c) as [B1|] eqn:Ec; [|discriminate].
      destruct (satv_cond_inv _ _ _ _ Hs) as [e1 [H1 Hrest]]. destruct Hok as [Hd Hc].
      destruct (Hm1 et e e1 Hle H1) as [x1 [Es1 Hle1]].
      destruct (vsat_cond_sound I e B B1 c x1 Hd Hc Ec Es1) as [_ [_ [Hd1 Hc1]]].
      destruct (vsat_cond_sound I et B B1 c e1 (ele_bound_rev' et e B Hle Hd) Hct Ec H1) as [_ [_ [_ Hct1]]].
      exact (IH rest reord B1 B' rest' Leaf x1 e1 et' Hck Hlat Hmr Hor (conj Hd1 Hc1) Hle1 Hct1 (covers_cond_inv _ _ _ _ Hcov x1 Es1) Hrest).
    + destruct (subv xs B && negb (memv x B)) eqn:Eb; [|discriminate].
      destruct (satv_gen_inv _ _ _ _ _ _ Hs) as [vs [v [H2 [H4 Hrest]]]]. destruct Hok as [Hd Hc].
      destruct (Hm1 et e vs v Hle H2 H4) as [vs' [v' [Ev' [Hv' Hg]]]].
      apply (IH rest reord (x :: B) B' rest' Leaf (vbind x v' e) (vbind x v et) et' Hck Hlat Hmr Hor); [| | | apply (covers_gen_inv _ _ _ _ _ _ Hcov vs' v' Ev' Hv') | exact Hrest].
      * split; [apply vdom_bind; auto | apply vcanon_bind; auto].
      * apply ele_bind; auto.
      * apply vcanon_bind; auto.
Qed.
End Complete.
End Items.
