(* C03 - one SCC of the plan: an evaluation of all rule variants covers one naive step over the rows at its
   start; the loop keeps "rows not in delta are unchanged since the previous iteration" and exits only when
   an iteration changed nothing, at which point the rows are closed under the rules of the SCC. *)
From Coq Require Import List ZArith Bool Arith Lia.
From AV Require Import Engine.Core.
From AV Require Import Engine.Eval.
From AV Require Import Engine.Validate.
From AV Require Import Engine.Naive.
From AV Require Import Engine.NaiveLemmas.
From AV Require Engine.Interface.
From AV Require Engine.Strata.
From AV Require Import LatEngine.LatSyntax.
From AV Require Import LatEngine.LatEval.
From AV Require Import LatEngine.LatPlan.
From AV Require Import LatEngine.LatSem.
From AV Require Import LatEngine.LatEnv.
From AV Require Import LatEngine.LatClause.
From AV Require Import LatEngine.LatMono.
From AV Require Import LatEngine.LatBase.
From AV Require Import LatEngine.LatHead.
From AV Require Import LatEngine.LatItems.
Import ListNotations.
Local Open Scope nat_scope.

Section SatLemmas.
Context {V : Type}.
Variable I : linterp V.

Lemma sat_db_mono : forall (DB DB' : db) items (e e' : venv V),
  (forall r t, In r (clause_rels items) -> DB r t -> DB' r t) -> sat I DB items e e' -> sat I DB' items e e'.
Proof.
  intros DB DB' items e e' H Hs.
  induction Hs as [e|r args cs rest e t e1 e2 e3 Hdb Hm Hc Hs IH|c rest e e1 e2 Hc Hs IH|x g xs rest e vs v e2 Hv Hin Hs IH].
  - constructor.
  - eapply sat_clause; [apply H; [left; reflexivity | exact Hdb] | exact Hm | exact Hc |].
    apply IH. intros q u Hq. apply H. apply clause_rels_cons_incl. exact Hq.
  - eapply sat_cond; [exact Hc|]. apply IH. intros q u Hq. apply H. apply clause_rels_cons_incl. exact Hq.
  - eapply sat_gen; [exact Hv | exact Hin |]. apply IH. intros q u Hq. apply H. apply clause_rels_cons_incl. exact Hq.
Qed.

(* ---------- which dynamic clause reads a row of delta ---------- *)
Variable dyn : list rel.
Variable R : rel -> list (vtuple V).
Variable D : rel -> list nat.

Inductive sata : list bool -> list bitem -> venv V -> venv V -> Prop :=
| sata_nil : forall e, sata [] [] e e
| sata_dyn : forall r args cs rest e i t e1 e2 e3 (b : bool) a,
    is_dyn dyn r = true -> nth_error (R r) i = Some t -> (if b then In i (D r) else ~ In i (D r)) ->
    vmatch_args I e args t = Some e1 -> vsat_conds I e1 cs = Some e2 -> sata a rest e2 e3 ->
    sata (b :: a) (BClause r args cs :: rest) e e3
| sata_sta : forall r args cs rest e i t e1 e2 e3 a,
    is_dyn dyn r = false -> nth_error (R r) i = Some t ->
    vmatch_args I e args t = Some e1 -> vsat_conds I e1 cs = Some e2 -> sata a rest e2 e3 ->
    sata a (BClause r args cs :: rest) e e3
| sata_cond : forall c rest e e1 e2 a, vsat_cond I e c = Some e1 -> sata a rest e1 e2 -> sata a (BCond c :: rest) e e2
| sata_gen : forall x g xs rest e vs v e2 a,
    veval_vars e xs = Some vs -> In v (vgen I g vs) -> sata a rest (vbind x v e) e2 -> sata a (BGen x g xs :: rest) e e2.

Lemma sat_sata : forall items (e e' : venv V), sat I (dbof R) items e e' ->
  exists a, length a = ndyn_items dyn items /\ sata a items e e'.
Proof.
  intros items e e' H. induction H.
  - exists []. split; [reflexivity | constructor].
  - destruct IHsat as [a [Hl Ha]]. unfold dbof in H. apply In_nth_error in H. destruct H as [i Hi].
    rewrite ndyn_items_clause. destruct (is_dyn dyn r) eqn:Hd.
    + destruct (in_dec Nat.eq_dec i (D r)) as [Hin|Hni].
      * exists (true :: a). split; [cbn; lia|]. eapply sata_dyn; eauto.
      * exists (false :: a). split; [cbn; lia|]. eapply sata_dyn; eauto.
    + exists a. split; [lia|]. eapply sata_sta; eauto.
  - destruct IHsat as [a [Hl Ha]]. exists a. split; [rewrite ndyn_items_other; auto; exact Logic.I|]. econstructor; eauto.
  - destruct IHsat as [a [Hl Ha]]. exists a. split; [rewrite ndyn_items_other; auto; exact Logic.I|]. econstructor; eauto.
Qed.

(* no clause reads delta: the instance already existed over the older rows O *)
Lemma sata_old : forall (O : rel -> list (vtuple V)) a items (e e' : venv V),
  (forall r i row, nth_error (R r) i = Some row -> ~ In i (D r) -> nth_error (O r) i = Some row) ->
  (forall r, is_dyn dyn r = false -> D r = []) ->
  has_delta a = false -> sata a items e e' -> sat I (dbof O) items e e'.
Proof.
  intros O a items e e' Hold Hsta Hd H. induction H.
  - constructor.
  - cbn in Hd. apply orb_false_iff in Hd. destruct Hd as [-> Hd]. econstructor; eauto.
    unfold dbof. eapply nth_error_In. apply Hold; eauto.
  - econstructor; eauto. unfold dbof. eapply nth_error_In. apply Hold; eauto. rewrite (Hsta r H). intros [].
  - econstructor; eauto.
  - econstructor; eauto.
Qed.

(* an admitted assignment: every clause reads a row of the version the variant looks at *)
Variables St T : rel -> list nat.
Lemma sata_satv : forall pitems a (e e' : venv V),
  (forall r i, is_dyn dyn r = true -> i < length (R r) -> In i (T r) \/ In i (D r)) ->
  (forall r i, is_dyn dyn r = false -> i < length (R r) -> In i (St r)) ->
  admits (dyn_versions dyn pitems) a = true ->
  sata a (map item_of pitems) e e' -> satv I dyn St T D R pitems e e'.
Proof.
  induction pitems as [|p rest IH]; intros a e e' Hcov HSt Hadm H; cbn [map] in H.
  - inversion H; subst. constructor.
  - destruct p as [r args cs idx ver|c|x g xs|o ag bd r args idx]; cbn [item_of] in H.
    + unfold dyn_versions in Hadm. cbn [flat_map] in Hadm. fold (dyn_versions dyn rest) in Hadm.
      inversion H; subst.
      * match goal with Hd : is_dyn dyn r = true |- _ => rewrite Hd in Hadm end. cbn [app admits] in Hadm.
        apply andb_true_iff in Hadm. destruct Hadm as [Hv Hadm].
        econstructor; eauto.
        unfold vrows. match goal with Hd : is_dyn dyn r = true |- _ => rewrite Hd end.
        match goal with Hn : nth_error (R r) i = Some t |- _ => pose proof (nth_error_In_lt _ _ _ _ Hn) as Hlt end.
        destruct ver, b; cbn in Hv; try discriminate.
        -- match goal with Hd : is_dyn dyn r = true |- _ => destruct (Hcov r i Hd Hlt) as [HT|HD]; [exact HT | contradiction] end.
        -- assumption.
        -- apply in_or_app. right. assumption.
        -- apply in_or_app. match goal with Hd : is_dyn dyn r = true |- _ => destruct (Hcov r i Hd Hlt) as [HT|HD]; [left; exact HT | contradiction] end.
      * match goal with Hd : is_dyn dyn r = false |- _ => rewrite Hd in Hadm end. cbn [app] in Hadm.
        econstructor; eauto.
        unfold vrows. match goal with Hd : is_dyn dyn r = false |- _ => rewrite Hd end.
        match goal with Hd : is_dyn dyn r = false |- _ => apply (HSt r i Hd) end. eapply nth_error_In_lt; eauto.
    + unfold dyn_versions in Hadm. cbn [flat_map app] in Hadm. fold (dyn_versions dyn rest) in Hadm.
      inversion H; subst. econstructor; eauto.
    + unfold dyn_versions in Hadm. cbn [flat_map app] in Hadm. fold (dyn_versions dyn rest) in Hadm.
      inversion H; subst. econstructor; eauto.
    + inversion H.
Qed.
End SatLemmas.

Section Scc.
Context {V : Type}.
Variable I : linterp V.
Hypothesis Heq : veqb_ok I.
Variable islat : rel -> bool.
Variable lle : rel -> V -> V -> Prop.
Variable jm : rel -> V -> V -> V * bool.
Hypothesis Hlaws : forall r, islat r = true -> lat_laws (lle r) (jm r).
Variable shuffle : nat -> list nat -> list nat.
Hypothesis Hshuf : forall n l x, In x (shuffle n l) <-> In x l.
Variable swap_oracle : nat -> list nat -> list nat -> bool.
Variable arities : list (rel * nat).
Hypothesis Hfun : arities_functional arities.
Hypothesis Hlat1 : forall r n, islat r = true -> arity_ok arities r n = true -> 0 < n.
Variable P : list rule.
Hypothesis Hnoagg : no_agg P = true.
Hypothesis Hmono : monotone_program I islat lle P.
Variable J : db (V:=V).
Hypothesis HJdir : directed I islat lle J.
Hypothesis HJcl : closedH I islat lle P J.
Variable sc : pscc.
Hypothesis Hok : scc_ok arities P sc = true.
Hypothesis Hlatok : forallb (lat_variant_ok islat) (s_vars sc) = true.

Let dyn := s_dyn sc.
Notation below := (below I islat lle).
Notation rle := (rle I islat lle).

Record rows_ok (R : rel -> list (vtuple V)) : Prop := {
  ro_ar : forall r row, In row (R r) -> forall n, arity_ok arities r n = true -> length row = n;
  ro_key : forall r, islat r = true -> NoDup (map tkey (R r));
  ro_wf : rows_wf I islat lle R;
  ro_below : allbelow I islat lle J R
}.

Lemma variant_hyps : forall v, In v (s_vars sc) ->
  exists ru G Bv, nth_error P (v_rule v) = Some ru /\ map item_of (v_items v) = body ru /\ v_heads v = heads ru /\
    check_from arities [] (v_items v) (v_sj v) (v_reord v) = Some Bv /\ heads_ok arities Bv (v_heads v) = true /\
    lat_variant_ok islat v = true /\ static_total dyn (v_items v) = true /\
    Forall (mono_item I islat lle G) (map item_of (v_items v)) /\ Forall (mono_head I islat lle G) (v_heads v) /\
    (forall h, In h (v_heads v) -> is_dyn dyn (fst h) = true) /\
    (forall (eJ : venv V) h f, sat I J (map item_of (v_items v)) [] eJ -> In h (v_heads v) -> veval_head I eJ h = Some f -> below J f).
Proof.
  intros v Hv.
  destruct (Strata.variant_ok_unpack arities P Hnoagg sc v (Strata.scc_ok_variant arities P sc Hok v Hv)) as [ru [Hru [Hit [Hhd [Hwf _]]]]].
  assert (Hin : In ru P) by (eapply nth_error_In; eauto).
  destruct (Hmono ru Hin) as [G [_ [Hmi Hmh]]].
  unfold Interface.variant_wf in Hwf. apply andb_true_iff in Hwf. destruct Hwf as [Hwf Hck].
  apply andb_true_iff in Hwf. destruct Hwf as [Hst _].
  destruct (check_from arities [] (v_items v) (v_sj v) (v_reord v)) as [Bv|] eqn:Ec; [|discriminate].
  exists ru, G, Bv. rewrite Hit, Hhd. repeat split; auto.
  - rewrite <- Hhd. exact Hck.
  - rewrite forallb_forall in Hlatok. apply Hlatok. exact Hv.
  - intros h Hh. apply (Strata.hr_dyn arities P sc Hok). unfold scc_head_rels. apply in_flat_map.
    exists (v_rule v). split; [apply Strata.variant_rule_in; exact Hv|]. rewrite Hru. unfold head_rels. apply in_map. exact Hh.
  - intros eJ h f Hs Hh Hf. apply HJcl. exists ru, eJ, h. auto.
Qed.

Lemma init_inv : forall R tk, rows_ok R ->
  inv I islat lle arities dyn R J {| i_rows := R; i_new := fun _ => []; i_changed := false; i_tick := tk |}.
Proof.
  intros R tk [H1 H2 H3 H4]. split; [|exact H4]. constructor; cbn [i_rows i_new i_changed].
  - exact H1.
  - intros r i [].
  - intros r i _ Hi. left. exact Hi.
  - exact H2.
  - intros r i row Hi. left. exact Hi.
  - intros r Hr. split; reflexivity.
  - intros _ r. reflexivity.
  - exact H3.
  - apply (rle_refl I islat lle). exact H3.
Qed.

Lemma inv_rows_ok : forall R s, inv I islat lle arities dyn R J s -> rows_ok (i_rows s).
Proof. intros R s [Hs Hb]. constructor; [apply (si_ar _ _ _ _ _ _ s Hs) | apply (si_key _ _ _ _ _ _ s Hs) | apply (si_wf _ _ _ _ _ _ s Hs) | exact Hb]. Qed.

(* one evaluation of all variants: the invariant, and every variant's instances over the start rows are covered *)
Lemma iteration_spec : forall St T D R tk, rows_ok R ->
  (forall r i, is_dyn dyn r = true -> i < length (R r) -> In i (T r) \/ In i (D r)) ->
  let s' := scc_iteration I islat jm shuffle swap_oracle dyn St T D sc R tk in
  inv I islat lle arities dyn R J s' /\
  forall v (et : venv V) h f, In v (s_vars sc) -> satv I dyn St T D R (v_items v) [] et -> In h (v_heads v) -> veval_head I et h = Some f ->
    below (dbof (i_rows s')) f.
Proof.
  intros St T D R tk HR Hcov. unfold scc_iteration.
  set (s0 := {| i_rows := R; i_new := fun _ => []; i_changed := false; i_tick := tk |}).
  assert (H0 : inv I islat lle arities dyn R J s0) by (apply init_inv; auto).
  assert (Hgen : forall vars s, incl vars (s_vars sc) -> inv I islat lle arities dyn R J s ->
            let s' := fold_left (eval_variant I islat jm shuffle swap_oracle dyn St T D) vars s in
            step_ok I islat lle arities dyn R J s s' /\
            forall v (et : venv V) h f, In v vars -> satv I dyn St T D R (v_items v) [] et -> In h (v_heads v) -> veval_head I et h = Some f ->
              below (dbof (i_rows s')) f).
  { induction vars as [|v vars IH]; intros s Hincl Hs; cbn [fold_left].
    - split; [apply step_ok_refl; auto | intros v et h f []].
    - assert (Hv : In v (s_vars sc)) by (apply Hincl; left; reflexivity).
      destruct (variant_hyps v Hv) as [ru [G [Bv [_ [_ [_ [Hck [Hho [Hlat [_ [Hmi [Hmh [Hdyn HJc]]]]]]]]]]]]].
      destruct (variant_spec I Heq islat lle jm Hlaws shuffle Hshuf swap_oracle arities Hfun Hlat1 dyn St T D R Hcov J HJdir G v Bv s
                  Hck Hho Hlat Hmi Hmh Hdyn HJc Hs) as [K1 K2].
      destruct (IH _ (fun x Hx => Hincl x (or_intror Hx)) (proj1 K1)) as [L1 L2].
      split; [eapply (step_ok_trans I islat lle jm Hlaws); eauto|].
      intros v' et h f [<-|Hin] Hsat Hh Hf.
      + eapply (below_rle I islat lle jm Hlaws); [apply L1 | eapply K2; eauto].
      + eapply L2; eauto. }
  destruct (Hgen (s_vars sc) s0 (incl_refl _) H0) as [[K1 _] K2]. split; auto.
Qed.

(* ---------- one naive step is covered ---------- *)
Definition onestep (R R' : rel -> list (vtuple V)) : Prop :=
  forall j ru, In j (rules_of_scc sc) -> nth_error P j = Some ru ->
  forall (e : venv V) h f, sat I (dbof R) (body ru) [] e -> In h (heads ru) -> veval_head I e h = Some f -> below (dbof R') f.
(* the same for rules reading a dynamic relation only (the others are re-evaluated in every iteration) *)
Definition oldstep (O R : rel -> list (vtuple V)) : Prop :=
  forall j ru, In j (rules_of_scc sc) -> nth_error P j = Some ru -> ndyn_items dyn (body ru) <> 0 ->
  forall (e : venv V) h f, sat I (dbof O) (body ru) [] e -> In h (heads ru) -> veval_head I e h = Some f -> below (dbof R) f.

Lemma iteration_onestep : forall St T D O R tk, rows_ok R ->
  (forall r i, is_dyn dyn r = true -> i < length (R r) -> In i (T r) \/ In i (D r)) ->
  (forall r i, is_dyn dyn r = false -> i < length (R r) -> In i (St r)) ->
  (forall r i row, nth_error (R r) i = Some row -> ~ In i (D r) -> nth_error (O r) i = Some row) ->
  (forall r, is_dyn dyn r = false -> D r = []) ->
  oldstep O R ->
  onestep R (i_rows (scc_iteration I islat jm shuffle swap_oracle dyn St T D sc R tk)).
Proof.
  intros St T D O R tk HR Hcov HSt Hold Hsta Hos j ru Hj Hru e h f Hsat Hh Hf.
  destruct (iteration_spec St T D R tk HR Hcov) as [Hinv Hcover].
  destruct (sat_sata I dyn R D (body ru) [] e Hsat) as [a [Hlen Ha]].
  assert (Hcase : (has_delta a = true \/ ndyn_items dyn (body ru) = 0) \/ (has_delta a = false /\ ndyn_items dyn (body ru) <> 0)).
  { destruct (has_delta a); [left; left; reflexivity|]. destruct (Nat.eq_dec (ndyn_items dyn (body ru)) 0); [left; right; assumption | right; auto]. }
  destruct Hcase as [Hc|[Hd Hn]].
  - destruct (Strata.cover_variant arities P Hnoagg sc Hok j ru a Hj Hru Hlen Hc) as [v [Hv [Hvj Hadm]]].
    destruct (variant_hyps v Hv) as [ru' [G [Bv [Hru' [Hit [Hhd _]]]]]].
    rewrite Hvj, Hru in Hru'. injection Hru' as <-.
    apply (Hcover v e h f Hv).
    + apply (sata_satv I dyn R D St T (v_items v) a [] e Hcov HSt Hadm). rewrite Hit. exact Ha.
    + rewrite Hhd. exact Hh.
    + exact Hf.
  - pose proof (sata_old I dyn R D O a (body ru) [] e Hold Hsta Hd Ha) as Hso.
    eapply (below_rle I islat lle jm Hlaws); [apply (si_rle _ _ _ _ _ _ _ (proj1 Hinv))|].
    eapply Hos; eauto.
Qed.

(* ---------- the loop ---------- *)
Record linv (St : rel -> list nat) (Rinit O R : rel -> list (vtuple V)) (T D : rel -> list nat) : Prop := {
  li_rows : rows_ok R;
  li_cov : forall r i, is_dyn dyn r = true -> i < length (R r) -> In i (T r) \/ In i (D r);
  li_St : forall r i, is_dyn dyn r = false -> i < length (R r) -> In i (St r);
  li_old : forall r i row, nth_error (R r) i = Some row -> ~ In i (D r) -> nth_error (O r) i = Some row;
  li_sta : forall r, is_dyn dyn r = false -> R r = Rinit r /\ D r = [];
  li_step : oldstep O R;
  li_rle : rle Rinit R
}.

Lemma linv_next : forall St Rinit O R T D tk, linv St Rinit O R T D ->
  let s := scc_iteration I islat jm shuffle swap_oracle dyn St T D sc R tk in
  linv St Rinit R (i_rows s) (merge T D) (i_new s) /\ onestep R (i_rows s)
  /\ (i_changed s = false -> forall r t, In t (i_rows s r) -> In t (R r)).
Proof.
  intros St Rinit O R T D tk [HR Hcov HSt Hold Hsta Hstep Hrle] s.
  destruct (iteration_spec St T D R tk HR Hcov) as [Hinv _]. fold s in Hinv. destruct Hinv as [Hs Hb].
  assert (Hone : onestep R (i_rows s)).
  { unfold s. eapply iteration_onestep; eauto. intros r Hr. apply (Hsta r Hr). }
  split; [|split; [exact Hone|]].
  - constructor.
    + apply (inv_rows_ok R s). split; auto.
    + intros r i Hr Hi. unfold merge. rewrite nunion_In.
      destruct (si_cov _ _ _ _ _ _ s Hs r i Hr Hi) as [H|H]; [left; apply Hcov; auto | right; exact H].
    + intros r i Hr Hi. destruct (si_sta _ _ _ _ _ _ s Hs r Hr) as [E _]. rewrite E in Hi. apply HSt; auto.
    + intros r i row Hi Hn.
      destruct (nth_error (R r) i) as [row0|] eqn:E0.
      * destruct (si_chg _ _ _ _ _ _ s Hs r i row0 E0) as [H|H]; [congruence | contradiction].
      * exfalso. apply nth_error_None in E0. pose proof (nth_error_In_lt _ _ _ _ Hi) as Hl.
        destruct (is_dyn dyn r) eqn:Hd.
        -- destruct (si_cov _ _ _ _ _ _ s Hs r i Hd Hl) as [H|H]; [lia | contradiction].
        -- destruct (si_sta _ _ _ _ _ _ s Hs r Hd) as [E _]. rewrite E in Hl. lia.
    + intros r Hr. destruct (si_sta _ _ _ _ _ _ s Hs r Hr) as [E1 E2]. split; [|exact E2]. rewrite E1. apply (proj1 (Hsta r Hr)).
    + intros j ru Hj Hru _ e h f. exact (Hone j ru Hj Hru e h f).
    + eapply (rle_trans I islat lle jm Hlaws); [exact Hrle | apply (si_rle _ _ _ _ _ _ s Hs)].
  - intros Hch r t Hin. pose proof (si_flag _ _ _ _ _ _ s Hs Hch) as Hnew.
    apply In_nth_error in Hin. destruct Hin as [i Hi]. pose proof (nth_error_In_lt _ _ _ _ Hi) as Hl.
    assert (Hlt : i < length (R r)).
    { destruct (is_dyn dyn r) eqn:Hd.
      - destruct (si_cov _ _ _ _ _ _ s Hs r i Hd Hl) as [H|H]; [exact H | rewrite Hnew in H; destruct H].
      - destruct (si_sta _ _ _ _ _ _ s Hs r Hd) as [E _]. rewrite E in Hl. exact Hl. }
    destruct (nth_error (R r) i) as [row0|] eqn:E0; [|apply nth_error_None in E0; lia].
    destruct (si_chg _ _ _ _ _ _ s Hs r i row0 E0) as [H|H]; [|rewrite Hnew in H; destruct H].
    assert (row0 = t) by congruence. subst. eapply nth_error_In; eauto.
Qed.

(* closedness of the rows under the rules of this SCC *)
Definition scc_closed (R : rel -> list (vtuple V)) : Prop := onestep R R.

Lemma scc_loop_spec : forall fuel St Rinit O R T D tk Tf Rf tkf,
  linv St Rinit O R T D ->
  scc_loop I islat jm shuffle swap_oracle fuel sc St T D R tk = Some (Tf, Rf, tkf) ->
  rows_ok Rf /\ rle Rinit Rf /\ scc_closed Rf /\
  (forall r i, is_dyn dyn r = true -> i < length (Rf r) -> In i (Tf r)) /\
  (forall r, is_dyn dyn r = false -> Rf r = Rinit r).
Proof.
  induction fuel as [|fuel IH]; intros St Rinit O R T D tk Tf Rf tkf Hl Hrun; [discriminate|].
  cbn [scc_loop] in Hrun. fold dyn in Hrun.
  destruct (linv_next St Rinit O R T D tk Hl) as [Hn [Hone Hexit]].
  set (s := scc_iteration I islat jm shuffle swap_oracle dyn St T D sc R tk) in *.
  destruct (i_changed s) eqn:Ech.
  - eapply IH; eauto.
  - injection Hrun as <- <- <-. destruct Hn as [HR Hcov HSt Hold Hsta Hstep Hrle].
    split; [exact HR|]. split; [exact Hrle|]. split; [|split].
    + intros j ru Hj Hru e h f Hsat. apply (Hone j ru Hj Hru e h f).
      eapply sat_db_mono; [|exact Hsat]. intros r t _ Hin. apply (Hexit eq_refl r t Hin).
    + intros r i Hr Hi. destruct (Hcov r i Hr Hi) as [H|H]; [exact H|].
      (* nothing changed: new is empty *)
      exfalso. destruct (iteration_spec St T D R tk (li_rows _ _ _ _ _ _ Hl) (li_cov _ _ _ _ _ _ Hl)) as [[Hs _] _]. fold s in Hs.
      rewrite (si_flag _ _ _ _ _ _ s Hs Ech r) in H. destruct H.
    + intros r Hr. apply (Hsta r Hr).
Qed.

(* every state reached by the loop, whether or not it terminates within the fuel (a deadline may stop it
   after any iteration: C14): the rows after 0, 1, 2, ... evaluations of the rules satisfy rows_ok - in particular
   they are below J - and are above the rows at the start *)
Inductive loop_reach (St : rel -> list nat) :
  (rel -> list nat) -> (rel -> list nat) -> (rel -> list (vtuple V)) -> nat -> (rel -> list (vtuple V)) -> Prop :=
| lr_here : forall T D R tk, loop_reach St T D R tk R
| lr_next : forall T D R tk R',
    loop_reach St (merge T D) (i_new (scc_iteration I islat jm shuffle swap_oracle dyn St T D sc R tk))
               (i_rows (scc_iteration I islat jm shuffle swap_oracle dyn St T D sc R tk))
               (i_tick (scc_iteration I islat jm shuffle swap_oracle dyn St T D sc R tk)) R' ->
    loop_reach St T D R tk R'.

Lemma loop_reach_ok : forall St Rinit T D R tk R', loop_reach St T D R tk R' ->
  forall O, linv St Rinit O R T D -> rows_ok R' /\ rle Rinit R'.
Proof.
  intros St Rinit T D R tk R' H. induction H as [T D R tk|T D R tk R' H IH]; intros O Hl.
  - split; [apply (li_rows _ _ _ _ _ _ Hl) | apply (li_rle _ _ _ _ _ _ Hl)].
  - destruct (linv_next St Rinit O R T D tk Hl) as [Hn _]. exact (IH R Hn).
Qed.

(* ---------- the whole SCC ---------- *)
Lemma sat_empty_dyn : forall (DB : db) items (e e' : venv V),
  (forall r t, is_dyn dyn r = true -> ~ DB r t) -> ndyn_items dyn items <> 0 -> sat I DB items e e' -> False.
Proof.
  intros DB items e e' Hemp Hn Hs.
  induction Hs as [e|r args cs rest e t e1 e2 e3 Hdb Hm Hc Hs IH|c rest e e1 e2 Hc Hs IH|x g xs rest e vs v e2 Hv Hin Hs IH].
  - apply Hn. reflexivity.
  - rewrite ndyn_items_clause in Hn. destruct (is_dyn dyn r) eqn:Hd.
    + eapply Hemp; eauto.
    + apply IH. exact Hn.
  - apply IH. rewrite ndyn_items_other in Hn; [exact Hn | exact Logic.I].
  - apply IH. rewrite ndyn_items_other in Hn; [exact Hn | exact Logic.I].
Qed.

Lemma linv_start : forall (st : @lstate V), rows_ok (l_rows st) ->
  (forall r i, i < length (l_rows st r) -> In i (l_stored st r)) ->
  linv (l_stored st) (l_rows st) (fun r => if is_dyn dyn r then [] else l_rows st r) (l_rows st)
       (fun _ => []) (fun r => if is_dyn dyn r then l_stored st r else []).
Proof.
  intros st HR Hst. constructor; auto.
  - intros r i Hr Hi. right. rewrite Hr. apply Hst; auto.
  - intros r i row Hi Hn. destruct (is_dyn dyn r) eqn:Hd; [|exact Hi].
    exfalso. apply Hn. apply Hst. eapply nth_error_In_lt; eauto.
  - intros r Hr. rewrite Hr. split; reflexivity.
  - intros j ru Hj Hru Hn e h f Hsat. exfalso. eapply (sat_empty_dyn _ (body ru) [] e); eauto.
    intros r t Hr. unfold dbof. rewrite Hr. intros [].
  - apply (rle_refl I islat lle). apply (ro_wf _ HR).
Qed.

Lemma run_scc_spec : forall fuel (st st' : @lstate V), rows_ok (l_rows st) ->
  (forall r i, i < length (l_rows st r) -> In i (l_stored st r)) ->
  run_scc I islat jm shuffle swap_oracle fuel sc st = Some st' ->
  rows_ok (l_rows st') /\ rle (l_rows st) (l_rows st') /\ scc_closed (l_rows st') /\
  (forall r i, i < length (l_rows st' r) -> In i (l_stored st' r)) /\
  (forall r, is_dyn dyn r = false -> l_rows st' r = l_rows st r).
Proof.
  intros fuel st st' HR Hst Hrun. pose proof (linv_start st HR Hst) as Hl. unfold run_scc in Hrun. fold dyn in Hrun.
  destruct (s_loop sc) eqn:Hloop.
  - destruct (scc_loop I islat jm shuffle swap_oracle fuel sc (l_stored st) (fun _ => [])
               (fun r => if is_dyn dyn r then l_stored st r else []) (l_rows st) (l_tick st)) as [[[Tf Rf] tkf]|] eqn:El; [|discriminate].
    injection Hrun as <-. cbn [l_rows l_stored].
    destruct (scc_loop_spec fuel _ _ _ _ _ _ _ Tf Rf tkf Hl El) as [H1 [H2 [H3 [H4 H5]]]].
    split; [exact H1|]. split; [exact H2|]. split; [exact H3|]. split; [|exact H5].
    intros r i Hi. destruct (is_dyn dyn r) eqn:Hd; [apply H4; auto|]. rewrite (H5 r Hd) in Hi. apply Hst; auto.
  - injection Hrun as <-. cbn [l_rows l_stored].
    destruct (linv_next _ _ _ _ _ _ (l_tick st) Hl) as [Hn [Hone _]].
    set (s := scc_iteration I islat jm shuffle swap_oracle dyn (l_stored st) (fun _ => [])
                (fun r => if is_dyn dyn r then l_stored st r else []) sc (l_rows st) (l_tick st)) in *.
    destruct Hn as [HR' Hcov HSt Hold Hsta Hstep Hrle].
    split; [exact HR'|]. split; [exact Hrle|]. split; [|split].
    + intros j ru Hj Hru e h f Hsat. apply (Hone j ru Hj Hru e h f).
      destruct (Strata.scc_ok_rule arities P sc Hok j Hj) as [ru' [Hru' [_ Hz]]]. rewrite Hru in Hru'. injection Hru' as <-.
      destruct Hz as [Hz|Hz]; [congruence|].
      eapply sat_db_mono; [|exact Hsat]. intros r t Hr Hin. unfold dbof in *.
      pose proof (ndyn_zero_static (s_dyn sc) (body ru) r Hz Hr) as Hd. rewrite (proj1 (Hsta r Hd)) in Hin. exact Hin.
    + intros r i Hi. destruct (is_dyn dyn r) eqn:Hd.
      * unfold merge. rewrite nunion_In. destruct (Hcov r i Hd Hi) as [H|H]; auto.
      * rewrite (proj1 (Hsta r Hd)) in Hi. apply Hst; auto.
    + intros r Hd. apply (proj1 (Hsta r Hd)).
Qed.
End Scc.
