(* C03 - the composite lattice columns of the tie vocabulary (LatVocabArr.v) satisfy the lattice hypothesis of the C03
   theorems ON CODES: for every composite type id, (code_le .., lat2_jm id) is a lat_laws structure on Z, where
   a <= b iff both codes are in range and the decoded values are elements of the shipped type with dec a <= dec b.
   Obtained by transporting C16's result (LatC16.shipped_lattices_ok: the Gallina mirror `jm (denote t)` of the shipped
   join_mut is a lattice) along the coding: via_lat_laws needs (1) codes in range round-trip and (2) the join of two
   decoded codes is again the decoding of a code in range - which holds because the mirrored join_mut / meet_mut of
   Product<[T; N]> / Product<(..)> picks every component of its result from one of the two arguments. *)
From Coq Require Import List ZArith Bool Lia.
From AV Require Import Lattice.LatModel.
From AV Require Import Lattice.LatLaws.
From AV Require Import Lattice.LatMain.
From AV Require Import LatEngine.LatSem.
From AV Require Import LatEngine.LatC16.
From AV Require Import LatEngine.LatVocab.
From AV Require Import LatEngine.LatVocabArr.
Import ListNotations.
Open Scope Z_scope.

Section Via.
Context {T : Type}.
Variable le : T -> T -> Prop.
Variable jmT : T -> T -> T * bool.
Variable dec : Z -> T.
Variable en : T -> Z.
Variable R : Z -> Prop.

Definition code_le (a b : Z) : Prop := R a /\ R b /\ le (dec a) (dec b).

Lemma via_lat_laws :
  lat_laws le jmT ->
  (forall c, R c -> en (dec c) = c) ->
  (forall a b, R a -> R b -> le (dec a) (dec a) -> le (dec b) (dec b) ->
     R (en (fst (jmT (dec a) (dec b)))) /\ dec (en (fst (jmT (dec a) (dec b)))) = fst (jmT (dec a) (dec b))) ->
  lat_laws code_le (via jmT dec en).
Proof.
  intros L RT CL. unfold code_le, via. constructor; cbn [fst snd].
  - intros a b [Ra [Rb H]]. destruct (ll_dom _ _ L _ _ H). auto.
  - intros a b c [Ra [Rb H1]] [_ [Rc H2]]. repeat split; auto. eapply (ll_trans _ _ L); eauto.
  - intros a b [Ra [Rb H1]] [_ [_ H2]]. rewrite <- (RT a Ra), <- (RT b Rb). f_equal. apply (ll_antisym _ _ L); auto.
  - intros a b [Ra [_ Ha]] [Rb [_ Hb]]. destruct (CL a b Ra Rb Ha Hb) as [C1 C2]. repeat split; auto. rewrite C2. apply (ll_ub_l _ _ L); auto.
  - intros a b [Ra [_ Ha]] [Rb [_ Hb]]. destruct (CL a b Ra Rb Ha Hb) as [C1 C2]. repeat split; auto. rewrite C2. apply (ll_ub_r _ _ L); auto.
  - intros a b c [Ra [Rc H1]] [Rb [_ H2]]. destruct (ll_dom _ _ L _ _ H1) as [Ha _]. destruct (ll_dom _ _ L _ _ H2) as [Hb _].
    destruct (CL a b Ra Rb Ha Hb) as [C1 C2]. repeat split; auto. rewrite C2. apply (ll_least _ _ L); auto.
  - intros a b [Ra [_ Ha]] [Rb [_ Hb]] F. repeat split; auto. apply (ll_flag _ _ L); auto.
Qed.
End Via.

Definition R2 (c : Z) : Prop := 0 <= c < 4096.

Lemma enc_dec2 c : R2 c -> enc (dec2 c) = c.
Proof. unfold R2, enc, dec2. cbn. intros H. pose proof (Z.div_mod c 64). lia. Qed.
Lemma dec2_enc u v : 0 <= u < 64 -> 0 <= v < 64 -> R2 (enc [u; v]) /\ dec2 (enc [u; v]) = [u; v].
Proof.
  intros Hu Hv. unfold R2, enc, dec2. cbn. split; [lia|].
  replace ((0 * 64 + u) * 64 + v) with (u * 64 + v) by lia.
  assert (E1 : (u * 64 + v) / 64 = u) by (symmetry; apply (Z.div_unique _ _ _ v); lia).
  assert (E2 : (u * 64 + v) mod 64 = v) by (symmetry; apply (Z.mod_unique _ _ u); lia).
  rewrite E1, E2. reflexivity.
Qed.
Lemma dec2_range c : R2 c -> 0 <= c / 64 < 64 /\ 0 <= c mod 64 < 64.
Proof.
  unfold R2. intros H. split; [|apply Z.mod_pos_bound; lia].
  split; [apply Z.div_pos; lia | apply Z.div_lt_upper_bound; lia].
Qed.

(* the array's join_mut / meet_mut picks every component from one of the two arguments *)
Lemma arr2_jm_pick x1 x2 y1 y2 : exists u v : Z, fst (jm (denote t_arr2) [x1; x2] [y1; y2]) = [u; v] /\ (u = x1 \/ u = y1) /\ (v = x2 \/ v = y2).
Proof.
  cbn. unfold ord_join_mut, zcmp, oge. destruct (x1 ?= y1), (x2 ?= y2); cbn; eauto 10.
Qed.
Lemma arr2_mm_pick x1 x2 y1 y2 : exists u v : Z, fst (mm (denote t_arr2) [x1; x2] [y1; y2]) = [u; v] /\ (u = x1 \/ u = y1) /\ (v = x2 \/ v = y2).
Proof.
  cbn. unfold ord_meet_mut, zcmp, ople. destruct (x1 ?= y1), (x2 ?= y2); cbn; eauto 10.
Qed.

(* ---------------------------------------------------------------- two components *)
Ltac two_components t pick :=
  apply via_lat_laws;
  [ exact (shipped_lattices_ok t eq_refl)
  | apply enc_dec2
  | let a := fresh "a" in let b := fresh "b" in let Ra := fresh "Ra" in let Rb := fresh "Rb" in
    intros a b Ra Rb _ _; change (dec2 a) with [a / 64; a mod 64]; change (dec2 b) with [b / 64; b mod 64];
    destruct (pick (a / 64) (a mod 64) (b / 64) (b mod 64)) as [u [v [E [Hu Hv]]]];
    assert (E' : @fst (list Z) bool (jm (denote t) [a / 64; a mod 64] [b / 64; b mod 64]) = [u; v]) by exact E;
    rewrite E'; destruct (dec2_range a Ra), (dec2_range b Rb);
    apply dec2_enc; [destruct Hu; subst; assumption | destruct Hv; subst; assumption] ].

Theorem arr2_codes_lattice : lat_laws (code_le (T := list Z) (ok_le (denote t_arr2)) dec2 R2) (lat2_jm 9).
Proof. change (lat2_jm 9) with (via (T := list Z) (jm (denote t_arr2)) dec2 enc). two_components t_arr2 arr2_jm_pick. Qed.

Lemma darr2_jm_pick x1 x2 y1 y2 : exists u v : Z, fst (jm (denote t_darr2) [x1; x2] [y1; y2]) = [u; v] /\ (u = x1 \/ u = y1) /\ (v = x2 \/ v = y2).
Proof. exact (arr2_mm_pick x1 x2 y1 y2). Qed.
Lemma revarr2_jm_pick x1 x2 y1 y2 : exists u v : Z, fst (jm (denote t_revarr2) [x1; x2] [y1; y2]) = [u; v] /\ (u = x1 \/ u = y1) /\ (v = x2 \/ v = y2).
Proof. exact (arr2_mm_pick x1 x2 y1 y2). Qed.
Lemma boxarr2_jm_pick x1 x2 y1 y2 : exists u v : Z, fst (jm (denote t_boxarr2) [x1; x2] [y1; y2]) = [u; v] /\ (u = x1 \/ u = y1) /\ (v = x2 \/ v = y2).
Proof. exact (arr2_jm_pick x1 x2 y1 y2). Qed.
Lemma arrd2_jm_pick x1 x2 y1 y2 : exists u v : Z, fst (jm (denote t_arrd2) [x1; x2] [y1; y2]) = [u; v] /\ (u = x1 \/ u = y1) /\ (v = x2 \/ v = y2).
Proof. exact (arr2_mm_pick x1 x2 y1 y2). Qed.
Lemma rcarr2_jm_pick x1 x2 y1 y2 : exists u v : Z, fst (jm (denote t_rcarr2) [x1; x2] [y1; y2]) = [u; v] /\ (u = x1 \/ u = y1) /\ (v = x2 \/ v = y2).
Proof.
  cbn. unfold rc_join_mut. cbn. unfold ord_join_mut, zcmp, oge. destruct (x1 ?= y1), (x2 ?= y2); cbn; eauto 10.
Qed.

Theorem darr2_codes_lattice : lat_laws (code_le (T := list Z) (ok_le (denote t_darr2)) dec2 R2) (lat2_jm 11).
Proof. change (lat2_jm 11) with (via (T := list Z) (jm (denote t_darr2)) dec2 enc). two_components t_darr2 darr2_jm_pick. Qed.
Theorem arrd2_codes_lattice : lat_laws (code_le (T := list Z) (ok_le (denote t_arrd2)) dec2 R2) (lat2_jm 13).
Proof. change (lat2_jm 13) with (via (T := list Z) (jm (denote t_arrd2)) dec2 enc). two_components t_arrd2 arrd2_jm_pick. Qed.
Theorem rcarr2_codes_lattice : lat_laws (code_le (T := list Z) (ok_le (denote t_rcarr2)) dec2 R2) (lat2_jm 15).
Proof. change (lat2_jm 15) with (via (T := list Z) (jm (denote t_rcarr2)) dec2 enc). two_components t_rcarr2 rcarr2_jm_pick. Qed.
Theorem boxarr2_codes_lattice : lat_laws (code_le (T := list Z) (ok_le (denote t_boxarr2)) dec2 R2) (lat2_jm 16).
Proof. change (lat2_jm 16) with (via (T := list Z) (jm (denote t_boxarr2)) dec2 enc). two_components t_boxarr2 boxarr2_jm_pick. Qed.
Theorem revarr2_codes_lattice : lat_laws (code_le (T := list Z) (ok_le (denote t_revarr2)) dec2 R2) (lat2_jm 17).
Proof. change (lat2_jm 17) with (via (T := list Z) (jm (denote t_revarr2)) dec2 enc). two_components t_revarr2 revarr2_jm_pick. Qed.

(* ---------------------------------------------------------------- three components *)
Definition R3 (c : Z) : Prop := 0 <= c < 262144.

Lemma enc_dec3 c : R3 c -> enc (dec3 c) = c.
Proof.
  unfold R3, enc, dec3. cbn. intros H.
  pose proof (Z.div_mod c 64). pose proof (Z.div_mod (c / 64) 64).
  assert (E : c / 4096 = c / 64 / 64) by (rewrite Z.div_div by lia; reflexivity). lia.
Qed.
Lemma dec3_enc u v w : 0 <= u < 64 -> 0 <= v < 64 -> 0 <= w < 64 -> R3 (enc [u; v; w]) /\ dec3 (enc [u; v; w]) = [u; v; w].
Proof.
  intros Hu Hv Hw. unfold R3, enc, dec3. cbn. split; [lia|].
  replace (((0 * 64 + u) * 64 + v) * 64 + w) with ((u * 64 + v) * 64 + w) by lia.
  assert (E1 : ((u * 64 + v) * 64 + w) / 4096 = u) by (symmetry; apply (Z.div_unique _ _ _ (v * 64 + w)); lia).
  assert (E2 : ((u * 64 + v) * 64 + w) / 64 = u * 64 + v) by (symmetry; apply (Z.div_unique _ _ _ w); lia).
  assert (E3 : (u * 64 + v) mod 64 = v) by (symmetry; apply (Z.mod_unique _ _ u); lia).
  assert (E4 : ((u * 64 + v) * 64 + w) mod 64 = w) by (symmetry; apply (Z.mod_unique _ _ (u * 64 + v)); lia).
  rewrite E1, E2, E3, E4. reflexivity.
Qed.
Lemma dec3_range c : R3 c -> 0 <= c / 4096 < 64 /\ 0 <= (c / 64) mod 64 < 64 /\ 0 <= c mod 64 < 64.
Proof.
  unfold R3. intros H. split; [|split; apply Z.mod_pos_bound; lia].
  split; [apply Z.div_pos; lia | apply Z.div_lt_upper_bound; lia].
Qed.

Lemma arr3_jm_pick x1 x2 x3 y1 y2 y3 : exists u v w : Z, fst (jm (denote t_arr3) [x1; x2; x3] [y1; y2; y3]) = [u; v; w] /\
  (u = x1 \/ u = y1) /\ (v = x2 \/ v = y2) /\ (w = x3 \/ w = y3).
Proof.
  cbn. unfold ord_join_mut, zcmp, oge. destruct (x1 ?= y1), (x2 ?= y2), (x3 ?= y3); cbn; do 3 eexists; (split; [reflexivity|]); auto.
Qed.
Lemma prod3_jm_pick x1 x2 x3 y1 y2 y3 : exists u v w : Z, fst (jm (denote t_prod3) (x1, (x2, x3)) (y1, (y2, y3))) = (u, (v, w)) /\
  (u = x1 \/ u = y1) /\ (v = x2 \/ v = y2) /\ (w = x3 \/ w = y3).
Proof.
  cbn. unfold ord_join_mut, ord_meet_mut, zcmp, oge, ople. destruct (x1 ?= y1), (x2 ?= y2), (x3 ?= y3); cbn; do 3 eexists; (split; [reflexivity|]); auto.
Qed.

Theorem arr3_codes_lattice : lat_laws (code_le (T := list Z) (ok_le (denote t_arr3)) dec3 R3) (lat2_jm 10).
Proof.
  change (lat2_jm 10) with (via (T := list Z) (jm (denote t_arr3)) dec3 enc).
  apply via_lat_laws; [exact (shipped_lattices_ok t_arr3 eq_refl) | apply enc_dec3 |].
  intros a b Ra Rb _ _. change (dec3 a) with [a / 4096; (a / 64) mod 64; a mod 64]. change (dec3 b) with [b / 4096; (b / 64) mod 64; b mod 64].
  destruct (arr3_jm_pick (a / 4096) ((a / 64) mod 64) (a mod 64) (b / 4096) ((b / 64) mod 64) (b mod 64)) as [u [v [w [E [Hu [Hv Hw]]]]]].
  assert (E' : @fst (list Z) bool (jm (denote t_arr3) [a / 4096; (a / 64) mod 64; a mod 64] [b / 4096; (b / 64) mod 64; b mod 64]) = [u; v; w]) by exact E.
  rewrite E'. destruct (dec3_range a Ra) as [A1 [A2 A3]], (dec3_range b Rb) as [B1 [B2 B3]].
  apply dec3_enc; [destruct Hu | destruct Hv | destruct Hw]; subst; assumption.
Qed.

Theorem prod3_codes_lattice : lat_laws (code_le (T := Z * (Z * Z)) (ok_le (denote t_prod3)) trip R3) (lat2_jm 14).
Proof.
  change (lat2_jm 14) with (via (T := Z * (Z * Z)) (jm (denote t_prod3)) trip untrip).
  apply via_lat_laws; [exact (shipped_lattices_ok t_prod3 eq_refl) | exact enc_dec3 |].
  intros a b Ra Rb _ _. change (trip a) with (a / 4096, ((a / 64) mod 64, a mod 64)). change (trip b) with (b / 4096, ((b / 64) mod 64, b mod 64)).
  destruct (prod3_jm_pick (a / 4096) ((a / 64) mod 64) (a mod 64) (b / 4096) ((b / 64) mod 64) (b mod 64)) as [u [v [w [E [Hu [Hv Hw]]]]]].
  assert (E' : @fst (Z * (Z * Z)) bool (jm (denote t_prod3) (a / 4096, ((a / 64) mod 64, a mod 64)) (b / 4096, ((b / 64) mod 64, b mod 64))) = (u, (v, w))) by exact E.
  rewrite E'. destruct (dec3_range a Ra) as [A1 [A2 A3]], (dec3_range b Rb) as [B1 [B2 B3]].
  assert (U : 0 <= u < 64) by (destruct Hu; subst; assumption).
  assert (V : 0 <= v < 64) by (destruct Hv; subst; assumption).
  assert (W : 0 <= w < 64) by (destruct Hw; subst; assumption).
  destruct (dec3_enc u v w U V W) as [D1 D2]. split; [exact D1|].
  change (untrip (u, (v, w))) with (enc [u; v; w]). unfold trip. unfold dec3 in D2. injection D2 as D2a D2b D2c. rewrite D2a, D2b, D2c. reflexivity.
Qed.

(* ---------------------------------------------------------------- Option around two components *)
Definition RO (c : Z) : Prop := 0 <= c < 4097.
Lemma oenc_odec c : RO c -> oenc (odec c) = c.
Proof.
  unfold RO, oenc, odec. intros H. destruct (c =? 0) eqn:E; [apply Z.eqb_eq in E; lia|]. apply Z.eqb_neq in E.
  rewrite enc_dec2 by (unfold R2; lia). lia.
Qed.
Lemma odec_some u v : 0 <= u < 64 -> 0 <= v < 64 -> RO (oenc (Some [u; v])) /\ odec (oenc (Some [u; v])) = Some [u; v].
Proof.
  intros Hu Hv. destruct (dec2_enc u v Hu Hv) as [D1 D2]. unfold RO, oenc, odec. unfold R2 in D1. split; [lia|].
  destruct (enc [u; v] + 1 =? 0) eqn:E; [apply Z.eqb_eq in E; lia|].
  replace (enc [u; v] + 1 - 1) with (enc [u; v]) by lia. rewrite D2. reflexivity.
Qed.

Theorem oarr2_codes_lattice : lat_laws (code_le (T := option (list Z)) (ok_le (denote t_oarr2)) odec RO) (lat2_jm 12).
Proof.
  change (lat2_jm 12) with (via (T := option (list Z)) (jm (denote t_oarr2)) odec oenc).
  apply via_lat_laws; [exact (shipped_lattices_ok t_oarr2 eq_refl) | apply oenc_odec |].
  intros a b Ra Rb _ _.
  assert (Keep : forall c, RO c -> RO (oenc (odec c)) /\ odec (oenc (odec c)) = odec c) by (intros c Rc; rewrite (oenc_odec c Rc); auto).
  destruct (odec b) as [y|] eqn:Eb.
  - destruct (odec a) as [x|] eqn:Ea.
    + unfold odec in Ea, Eb. destruct (a =? 0) eqn:Za; [discriminate|]. destruct (b =? 0) eqn:Zb; [discriminate|].
      injection Ea as <-. injection Eb as <-. apply Z.eqb_neq in Za, Zb.
      assert (Ra' : R2 (a - 1)) by (unfold RO in Ra; unfold R2; lia). assert (Rb' : R2 (b - 1)) by (unfold RO in Rb; unfold R2; lia).
      change (dec2 (a - 1)) with [(a - 1) / 64; (a - 1) mod 64]. change (dec2 (b - 1)) with [(b - 1) / 64; (b - 1) mod 64].
      destruct (arr2_jm_pick ((a - 1) / 64) ((a - 1) mod 64) ((b - 1) / 64) ((b - 1) mod 64)) as [u [v [E [Hu Hv]]]].
      assert (E' : @fst (option (list Z)) bool (jm (denote t_oarr2) (Some [(a - 1) / 64; (a - 1) mod 64]) (Some [(b - 1) / 64; (b - 1) mod 64])) = Some [u; v]).
      { cbn in E |- *. f_equal. exact E. }
      rewrite E'. destruct (dec2_range _ Ra'), (dec2_range _ Rb').
      apply odec_some; [destruct Hu | destruct Hv]; subst; assumption.
    + assert (F : @fst (option (list Z)) bool (jm (denote t_oarr2) (@None (list Z)) (@Some (list Z) y)) = Some y) by reflexivity.
      rewrite F, <- Eb. exact (Keep b Rb).
  - destruct (odec a) as [x|] eqn:Ea.
    + assert (F : @fst (option (list Z)) bool (jm (denote t_oarr2) (@Some (list Z) x) (@None (list Z))) = Some x) by reflexivity.
      rewrite F, <- Ea. exact (Keep a Ra).
    + assert (F : @fst (option (list Z)) bool (jm (denote t_oarr2) (@None (list Z)) (@None (list Z))) = None) by reflexivity.
      rewrite F, <- Ea. exact (Keep a Ra).
Qed.
