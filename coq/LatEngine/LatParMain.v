(* C02, lattice half - the whole PARALLEL lattice engine: the SCC loop over parallel iterations, the SCCs in plan order,
   and the theorems about LatParModel.par_lat_run_plan:
     par_lat_run_least_fixed_point   every parallel run of a validated plan of a monotone program (lattice laws, input with
                                     one row per key) ends with one row per key holding THE least fixed point - the four
                                     conjuncts of LatMain.lat_run_least_fixed_point (C03), for every number of workers, every
                                     distribution of the rule evaluation over them, every moment at which a row is read and
                                     every interleaving of the atomic steps of the head updates;
     par_lat_equals_serial           hence the same rows (as sets; lattice relations: the same key -> value map) as the
                                     serial LatEval.run_plan on the same input, for all of the serial model's oracles;
     par_lat_run_unique_key / _sound / _closed / _grows   the parts.
   The loop and plan level arguments are those of LatScc.v / LatMain.v with the serial scc_iteration replaced by any final
   state satisfying LatParIter.par_iteration_spec (invariant + coverage of one naive step over the start rows). *)
From Coq Require Import List ZArith Bool Arith Lia Permutation.
From AV Require Import Engine.Core.
From AV Require Import Engine.Eval.
From AV Require Import Engine.Validate.
From AV Require Import Engine.Naive.
From AV Require Import Engine.NaiveLemmas.
From AV Require Engine.Interface.
From AV Require Engine.Strata.
From AV Require Engine.SemiNaive.
From AV Require Import LatEngine.LatSyntax.
From AV Require Import LatEngine.LatEval.
From AV Require Import LatEngine.LatPlan.
From AV Require Import LatEngine.LatSem.
From AV Require Import LatEngine.LatEnv.
From AV Require Import LatEngine.LatClause.
From AV Require Import LatEngine.LatMono.
From AV Require Import LatEngine.LatBase.
From AV Require Import LatEngine.LatHead.
From AV Require Import LatEngine.LatItems.
From AV Require Import LatEngine.LatScc.
From AV Require Import LatEngine.LatKeys.
From AV Require Import LatEngine.LatMain.
From AV Require Import LatEngine.LatRBase.
From AV Require Import LatEngine.LatParModel.
From AV Require Import LatEngine.LatParIter.
Import ListNotations.
Local Open Scope nat_scope.

Section Scc.
Context {V : Type}.
Variable I : linterp V.
Hypothesis Heq : veqb_ok I.
Variable islat : rel -> bool.
Variable lle : rel -> V -> V -> Prop.
Variable jm : rel -> V -> V -> V * bool.
Hypothesis Hlaws : forall r, islat r = true -> lat_laws (lle r) (jm r).
Variable arities : list (rel * nat).
Hypothesis Hfun : arities_functional arities.
Hypothesis Hlat1 : forall r n, islat r = true -> arity_ok arities r n = true -> 0 < n.
Variable P : list rule.
Hypothesis Hnoagg : no_agg P = true.
Hypothesis Hmono : monotone_program I islat lle P.
Variable J : db (V:=V).
Hypothesis HJdir : directed I islat lle J.
Hypothesis HJcl : closedH I islat lle P J.
Variable sc : pscc.
Hypothesis Hok : scc_ok arities P sc = true.
Hypothesis Hlatok : forallb (lat_variant_ok islat) (s_vars sc) = true.

Let dyn := s_dyn sc.
Notation below := (below I islat lle).
Notation rle := (rle I islat lle).
Notation rows_ok := (rows_ok I islat lle arities J).
Notation linv := (linv I islat lle arities P J sc).
Notation onestep := (onestep I islat lle P sc).
Notation oldstep := (oldstep I islat lle P sc).
Notation inv := (inv I islat lle arities dyn).

(* the final state of an iteration covers the instances of the variants over the start rows *)
Definition covered (St T D : rel -> list nat) (R : rel -> list (vtuple V)) (s' : @istate V) : Prop :=
  forall v (et : venv V) h f, In v (s_vars sc) -> satv I dyn St T D R (v_items v) [] et -> In h (v_heads v) -> veval_head I et h = Some f ->
    below (dbof (i_rows s')) f.

Lemma gen_onestep : forall St T D O R s', rows_ok R ->
  (forall r i, is_dyn dyn r = true -> i < length (R r) -> In i (T r) \/ In i (D r)) ->
  (forall r i, is_dyn dyn r = false -> i < length (R r) -> In i (St r)) ->
  (forall r i row, nth_error (R r) i = Some row -> ~ In i (D r) -> nth_error (O r) i = Some row) ->
  (forall r, is_dyn dyn r = false -> D r = []) ->
  oldstep O R ->
  inv R J s' -> covered St T D R s' ->
  onestep R (i_rows s').
Proof.
  intros St T D O R s' HR Hcov HSt Hold Hsta Hos Hinv Hcover j ru Hj Hru e h f Hsat Hh Hf.
  destruct (sat_sata I dyn R D (body ru) [] e Hsat) as [a [Hlen Ha]].
  assert (Hcase : (has_delta a = true \/ ndyn_items dyn (body ru) = 0) \/ (has_delta a = false /\ ndyn_items dyn (body ru) <> 0)).
  { destruct (has_delta a); [left; left; reflexivity|]. destruct (Nat.eq_dec (ndyn_items dyn (body ru)) 0); [left; right; assumption | right; auto]. }
  destruct Hcase as [Hc|[Hd Hn]].
  - destruct (Strata.cover_variant arities P Hnoagg sc Hok j ru a Hj Hru Hlen Hc) as [v [Hv [Hvj Hadm]]].
    destruct (variant_hyps I islat lle arities P Hnoagg Hmono J HJcl sc Hok Hlatok v Hv) as [ru' [G [Bv [Hru' [Hit [Hhd _]]]]]].
    rewrite Hvj, Hru in Hru'. injection Hru' as <-.
    apply (Hcover v e h f Hv).
    + apply (sata_satv I dyn R D St T (v_items v) a [] e Hcov HSt Hadm). rewrite Hit. exact Ha.
    + rewrite Hhd. exact Hh.
    + exact Hf.
  - pose proof (sata_old I dyn R D O a (body ru) [] e Hold Hsta Hd Ha) as Hso.
    eapply (below_rle I islat lle jm Hlaws); [apply (si_rle _ _ _ _ _ _ _ (proj1 Hinv))|].
    eapply Hos; eauto.
Qed.

Lemma gen_linv_next : forall St Rinit O R T D s', linv St Rinit O R T D ->
  inv R J s' -> covered St T D R s' ->
  linv St Rinit R (i_rows s') (merge T D) (i_new s') /\ onestep R (i_rows s')
  /\ (i_changed s' = false -> forall r t, In t (i_rows s' r) -> In t (R r)).
Proof.
  intros St Rinit O R T D s [HR Hcov HSt Hold Hsta Hstep Hrle] Hinv Hcover.
  assert (Hone : onestep R (i_rows s)).
  { eapply gen_onestep; eauto. intros r Hr. apply (Hsta r Hr). }
  destruct Hinv as [Hs Hb].
  split; [|split; [exact Hone|]].
  - constructor.
    + apply (inv_rows_ok I islat lle arities J sc R s). split; auto.
    + intros r i Hr Hi. unfold merge. rewrite nunion_In.
      destruct (si_cov _ _ _ _ _ _ s Hs r i Hr Hi) as [H|H]; [left; apply Hcov; auto | right; exact H].
    + intros r i Hr Hi. destruct (si_sta _ _ _ _ _ _ s Hs r Hr) as [E _]. rewrite E in Hi. apply HSt; auto.
    + intros r i row Hi Hn.
      destruct (nth_error (R r) i) as [row0|] eqn:E0.
      * destruct (si_chg _ _ _ _ _ _ s Hs r i row0 E0) as [H|H]; [congruence | contradiction].
      * exfalso. apply nth_error_None in E0. pose proof (nth_error_In_lt _ _ _ _ Hi) as Hl.
        destruct (is_dyn dyn r) eqn:Hd.
        -- destruct (si_cov _ _ _ _ _ _ s Hs r i Hd Hl) as [H|H]; [lia | contradiction].
        -- destruct (si_sta _ _ _ _ _ _ s Hs r Hd) as [E _]. rewrite E in Hl. lia.
    + intros r Hr. destruct (si_sta _ _ _ _ _ _ s Hs r Hr) as [E1 E2]. split; [|exact E2]. rewrite E1. apply (proj1 (Hsta r Hr)).
    + intros j ru Hj Hru _ e h f. exact (Hone j ru Hj Hru e h f).
    + eapply (rle_trans I islat lle jm Hlaws); [exact Hrle | apply (si_rle _ _ _ _ _ _ s Hs)].
  - intros Hch r t Hin. pose proof (si_flag _ _ _ _ _ _ s Hs Hch) as Hnew.
    apply In_nth_error in Hin. destruct Hin as [i Hi]. pose proof (nth_error_In_lt _ _ _ _ Hi) as Hl.
    assert (Hlt : i < length (R r)).
    { destruct (is_dyn dyn r) eqn:Hd.
      - destruct (si_cov _ _ _ _ _ _ s Hs r i Hd Hl) as [H|H]; [exact H | rewrite Hnew in H; destruct H].
      - destruct (si_sta _ _ _ _ _ _ s Hs r Hd) as [E _]. rewrite E in Hl. exact Hl. }
    destruct (nth_error (R r) i) as [row0|] eqn:E0; [|apply nth_error_None in E0; lia].
    destruct (si_chg _ _ _ _ _ _ s Hs r i row0 E0) as [H|H]; [|rewrite Hnew in H; destruct H].
    assert (row0 = t) by congruence. subst. eapply nth_error_In; eauto.
Qed.

(* one parallel iteration from a loop state *)
Lemma par_linv_next : forall St Rinit O R T D R' N' ch', linv St Rinit O R T D ->
  par_lat_iteration I islat jm sc St T D R R' N' ch' ->
  linv St Rinit R R' (merge T D) N' /\ onestep R R'
  /\ (ch' = false -> (forall r t, In t (R' r) -> In t (R r)) /\ (forall r, N' r = [])).
Proof.
  intros St Rinit O R T D R' N' ch' Hl Hit.
  destruct (par_iteration_spec I Heq islat lle jm Hlaws arities Hfun Hlat1 P Hnoagg Hmono J HJdir HJcl sc Hok Hlatok
              St T D R R' N' ch' (li_rows _ _ _ _ _ _ _ _ _ _ _ _ _ Hl) (li_cov _ _ _ _ _ _ _ _ _ _ _ _ _ Hl) Hit) as [Hinv Hcover].
  destruct (gen_linv_next St Rinit O R T D _ Hl Hinv Hcover) as [H1 [H2 H3]]. cbn [i_rows i_new i_changed] in *.
  split; [exact H1|]. split; [exact H2|]. intros Hc. split; [exact (H3 Hc)|].
  apply (si_flag _ _ _ _ _ _ _ (proj1 Hinv)). exact Hc.
Qed.

Definition scc_closed (R : rel -> list (vtuple V)) : Prop := onestep R R.

Lemma par_loop_spec : forall St T D R Tf Rf, par_lat_loop I islat jm sc St T D R Tf Rf ->
  forall Rinit O, linv St Rinit O R T D ->
  rows_ok Rf /\ rle Rinit Rf /\ scc_closed Rf /\
  (forall r i, is_dyn dyn r = true -> i < length (Rf r) -> In i (Tf r)) /\
  (forall r, is_dyn dyn r = false -> Rf r = Rinit r).
Proof.
  intros St T D R Tf Rf H. induction H as [T D R R' N' Hit | T D R R' N' Tf Rf Hit Hloop IH]; intros Rinit O Hl.
  - destruct (par_linv_next St Rinit O R T D R' N' false Hl Hit) as [Hn [Hone Hexit]]. destruct (Hexit eq_refl) as [Hsame Hnew].
    destruct Hn as [HR Hcov HSt Hold Hsta Hstep Hrle].
    split; [exact HR|]. split; [exact Hrle|]. split; [|split].
    + intros j ru Hj Hru e h f Hsat. apply (Hone j ru Hj Hru e h f).
      eapply sat_db_mono; [|exact Hsat]. intros r t _ Hin. apply (Hsame r t Hin).
    + intros r i Hr Hi. destruct (Hcov r i Hr Hi) as [H|H]; [exact H|]. rewrite Hnew in H. destruct H.
    + intros r Hr. apply (Hsta r Hr).
  - destruct (par_linv_next St Rinit O R T D R' N' true Hl Hit) as [Hn _]. exact (IH Rinit R Hn).
Qed.

(* every iteration start the loop can reach satisfies the loop invariant *)
Lemma par_loop_reach_linv : forall St T D R T2 D2 R2, par_lat_loop_reach I islat jm sc St T D R T2 D2 R2 ->
  forall Rinit O, linv St Rinit O R T D -> exists O2, linv St Rinit O2 R2 T2 D2.
Proof.
  intros St T D R T2 D2 R2 H. induction H as [T D R | T D R R' N' ch' T2 D2 R2 Hit Hr IH]; intros Rinit O Hl; [eauto|].
  destruct (par_linv_next St Rinit O R T D R' N' ch' Hl Hit) as [Hn _]. exact (IH Rinit R Hn).
Qed.

Lemma par_run_scc_spec : forall (st st' : @lstate V), rows_ok (l_rows st) ->
  (forall r i, i < length (l_rows st r) -> In i (l_stored st r)) ->
  par_lat_run_scc I islat jm sc st st' ->
  rows_ok (l_rows st') /\ rle (l_rows st) (l_rows st') /\ scc_closed (l_rows st') /\
  (forall r i, i < length (l_rows st' r) -> In i (l_stored st' r)) /\
  (forall r, is_dyn dyn r = false -> l_rows st' r = l_rows st r).
Proof.
  intros st st' HR Hst Hrun. pose proof (linv_start I islat lle arities P J sc st HR Hst) as Hl.
  unfold par_lat_run_scc in Hrun. fold dyn in Hrun. destruct (s_loop sc) eqn:Hloop.
  - destruct Hrun as [Tf [Rf [Hlp ->]]]. cbn [l_rows l_stored].
    destruct (par_loop_spec _ _ _ _ Tf Rf Hlp _ _ Hl) as [H1 [H2 [H3 [H4 H5]]]].
    split; [exact H1|]. split; [exact H2|]. split; [exact H3|]. split; [|exact H5].
    intros r i Hi. destruct (is_dyn dyn r) eqn:Hd; [apply H4; auto|]. rewrite (H5 r Hd) in Hi. apply Hst; auto.
  - destruct Hrun as [R' [N' [b [Hit ->]]]]. cbn [l_rows l_stored].
    destruct (par_linv_next _ _ _ _ _ _ R' N' b Hl Hit) as [Hn [Hone _]].
    destruct Hn as [HR' Hcov HSt Hold Hsta Hstep Hrle].
    split; [exact HR'|]. split; [exact Hrle|]. split; [|split].
    + intros j ru Hj Hru e h f Hsat. apply (Hone j ru Hj Hru e h f).
      destruct (Strata.scc_ok_rule arities P sc Hok j Hj) as [ru' [Hru' [_ Hz]]]. rewrite Hru in Hru'. injection Hru' as <-.
      destruct Hz as [Hz|Hz]; [congruence|].
      eapply sat_db_mono; [|exact Hsat]. intros r t Hr Hin. unfold dbof in *.
      pose proof (ndyn_zero_static (s_dyn sc) (body ru) r Hz Hr) as Hd. rewrite (proj1 (Hsta r Hd)) in Hin. exact Hin.
    + intros r i Hi. destruct (is_dyn dyn r) eqn:Hd.
      * unfold merge. rewrite nunion_In. destruct (Hcov r i Hd Hi) as [H|H]; auto.
      * rewrite (proj1 (Hsta r Hd)) in Hi. apply Hst; auto.
    + intros r Hd. apply (proj1 (Hsta r Hd)).
Qed.
End Scc.

Section Main.
Context {V : Type}.
Variable I : linterp V.
Hypothesis Heq : veqb_ok I.
Variable islat : rel -> bool.
Variable lle : rel -> V -> V -> Prop.
Variable jm : rel -> V -> V -> V * bool.
Hypothesis Hlaws : forall r, islat r = true -> lat_laws (lle r) (jm r).
Variable arities : list (rel * nat).
Hypothesis Hfun : arities_functional arities.
Variable P : list rule.
Hypothesis Hnoagg : no_agg P = true.
Hypothesis Hmono : monotone_program I islat lle P.
Variable pl : plan.
Hypothesis Hval : validate arities P pl = true.
Hypothesis Hlatplan : lat_plan_ok islat arities pl = true.

Notation tle := (tle I islat lle).
Notation below := (below I islat lle).
Notation rle := (rle I islat lle).
Notation GI := (GI I islat lle arities P pl).
Notation input_ok := (input_ok I islat lle arities).
Notation prun := (par_lat_run_plan I islat jm).

Section WithJ.
Variable J : db (V:=V).
Hypothesis HJdir : directed I islat lle J.
Hypothesis HJcl : closedH I islat lle P J.
Variable Rin : rel -> list (vtuple V).

Lemma par_GI_step : forall k sc st st',
  nth_error pl k = Some sc -> GI J Rin k st -> par_lat_run_scc I islat jm sc st st' -> GI J Rin (S k) st'.
Proof.
  intros k sc st st' Hn [HR [Hst [Hrle Hcl]]] Hrun.
  pose proof (SemiNaive.val_scc_ok arities P pl Hval k sc Hn) as Hok.
  destruct (par_run_scc_spec I Heq islat lle jm Hlaws arities Hfun (Hlat1 islat arities pl Hlatplan) P Hnoagg Hmono J HJdir HJcl sc Hok
              (Hlatok islat arities pl Hlatplan k sc Hn) st st' HR Hst Hrun) as [H1 [H2 [H3 [H4 H5]]]].
  split; [exact H1|]. split; [exact H4|]. split; [eapply (rle_trans I islat lle jm Hlaws); eauto|].
  intros j ru i Hru Hi Hlt e h f Hsat Hh Hf.
  destruct (Nat.eq_dec i k) as [->|Hne].
  - destruct Hi as [sc' [Hn' Hin]]. rewrite Hn in Hn'. injection Hn' as <-. exact (H3 j ru Hin Hru e h f Hsat Hh Hf).
  - assert (Hik : i < k) by lia.
    eapply (below_rle I islat lle jm Hlaws); [exact H2|]. apply (Hcl j ru i Hru Hi Hik e h f); auto.
    eapply sat_db_mono; [|exact Hsat]. intros q t Hq Hin. unfold dbof in *.
    destruct (is_dyn (s_dyn sc) q) eqn:Hd; [|rewrite <- (H5 q Hd); exact Hin].
    exfalso. pose proof (dyn_in_heads arities P sc q Hok Hd) as Hh'. unfold scc_head_rels in Hh'. apply in_flat_map in Hh'.
    destruct Hh' as [j' [Hj' Hq']]. destruct (nth_error P j') as [ru'|] eqn:Hru'; [|destruct Hq'].
    assert (Hk' : SemiNaive.rule_scc pl j' k) by (exists sc; split; assumption).
    rewrite <- body_clause_rels_eq in Hq.
    pose proof (SemiNaive.strat_order arities P pl Hval j ru j' ru' i k q Hru Hru' Hi Hk' Hq Hq'). lia.
Qed.

Lemma par_run_sccs_GI : forall rest pre st st',
  pl = pre ++ rest -> GI J Rin (length pre) st -> par_lat_run_sccs I islat jm rest st st' -> GI J Rin (length pl) st'.
Proof.
  intros rest pre st st' Hpl HG Hrun. revert pre Hpl HG.
  induction Hrun as [st|sc rest st st1 st2 H1 Hrest IH]; intros pre Hpl HG.
  - assert (E : length pl = length pre) by (rewrite Hpl, app_nil_r; reflexivity). rewrite E. exact HG.
  - apply (IH (pre ++ [sc])).
    + rewrite <- app_assoc. exact Hpl.
    + rewrite app_length. cbn [length]. replace (length pre + 1) with (S (length pre)) by lia.
      apply (par_GI_step (length pre) sc st st1); [|exact HG | exact H1].
      rewrite Hpl, nth_error_app2, Nat.sub_diag; [reflexivity | lia].
Qed.

Lemma par_run_plan_GI : forall st,
  input_ok Rin -> allbelow I islat lle J Rin -> prun pl Rin st -> GI J Rin (length pl) st.
Proof.
  intros st [A1 [A2 A3]] Hb Hrun. unfold par_lat_run_plan in Hrun.
  apply (par_run_sccs_GI pl [] (update_indices Rin) st eq_refl); [|exact Hrun].
  unfold LatMain.GI, update_indices. cbn [l_rows l_stored length]. split; [constructor; auto|]. split; [|split].
  - intros r i Hi. apply in_seq. lia.
  - apply (rle_refl I islat lle). exact A3.
  - intros j ru i _ _ Hlt. lia.
Qed.

Lemma par_run_sccs_prefix_GI : forall todo done rest st st',
  pl = done ++ todo ++ rest -> GI J Rin (length done) st -> par_lat_run_sccs I islat jm todo st st' ->
  GI J Rin (length (done ++ todo)) st'.
Proof.
  intros todo done rest st st' Hpl HG Hrun. revert done Hpl HG.
  induction Hrun as [st|sc todo st st1 st2 H1 Hrest IH]; intros done Hpl HG.
  - rewrite app_nil_r. exact HG.
  - replace (done ++ sc :: todo) with ((done ++ [sc]) ++ todo) by (rewrite <- app_assoc; reflexivity).
    apply (IH (done ++ [sc])).
    + rewrite <- app_assoc. exact Hpl.
    + rewrite app_length. cbn [length]. replace (length done + 1) with (S (length done)) by lia.
      apply (par_GI_step (length done) sc st st1); [|exact HG | exact H1].
      rewrite Hpl, nth_error_app2, Nat.sub_diag; [reflexivity | lia].
Qed.
End WithJ.

Variable Rin : rel -> list (vtuple V).
Hypothesis Hin : input_ok Rin.

(* every iteration start a parallel run can reach (after any number of completed SCCs and any number of parallel iterations of
   the next one): the rows are below every directed closed set above the input, there is one row per key and total / delta
   list every row of the dynamic relations - the preconditions of LatParIter.par_lat_no_deadlock *)
Theorem par_lat_intermediate : forall (J : db) pre sc rest st T2 D2 R2,
  directed I islat lle J -> closedH I islat lle P J -> allbelow I islat lle J Rin ->
  pl = pre ++ sc :: rest ->
  par_lat_run_sccs I islat jm pre (update_indices Rin) st ->
  par_lat_loop_reach I islat jm sc (l_stored st) (fun _ => []) (fun r => if is_dyn (s_dyn sc) r then l_stored st r else []) (l_rows st) T2 D2 R2 ->
  allbelow I islat lle J R2
  /\ (forall r, islat r = true -> NoDup (map tkey (R2 r)))
  /\ (forall r i, is_dyn (s_dyn sc) r = true -> i < length (R2 r) -> In i (T2 r) \/ In i (D2 r)).
Proof.
  intros J pre sc rest st T2 D2 R2 HJd HJc Hb Hpl Hrun Hreach. destruct Hin as [A1 [A2 A3]].
  assert (H0 : GI J Rin (length (@nil pscc)) (update_indices Rin)).
  { unfold LatMain.GI, update_indices. cbn [l_rows l_stored length]. split; [constructor; auto|]. split; [|split].
    - intros r i Hi. apply in_seq. lia.
    - apply (rle_refl I islat lle). exact A3.
    - intros j ru i _ _ Hlt. lia. }
  pose proof (par_run_sccs_prefix_GI J HJd HJc Rin pre [] (sc :: rest) _ st Hpl H0 Hrun) as [HR [Hst _]].
  assert (Hn : nth_error pl (length pre) = Some sc) by (rewrite Hpl, nth_error_app2, Nat.sub_diag; [reflexivity | lia]).
  pose proof (SemiNaive.val_scc_ok arities P pl Hval _ sc Hn) as Hok.
  pose proof (linv_start I islat lle arities P J sc st HR Hst) as Hl.
  destruct (par_loop_reach_linv I Heq islat lle jm Hlaws arities Hfun (Hlat1 islat arities pl Hlatplan) P Hnoagg Hmono J HJd HJc sc Hok
              (Hlatok islat arities pl Hlatplan _ sc Hn) _ _ _ _ _ _ _ Hreach _ _ Hl) as [O2 [HR2 Hcov2 _ _ _ _ _]].
  split; [apply (ro_below _ _ _ _ _ _ HR2)|]. split; [apply (ro_key _ _ _ _ _ _ HR2) | exact Hcov2].
Qed.

(* ... hence no deadlock anywhere in a parallel run: in every state of every iteration a run can reach - any contributions, any
   schedule - a lattice relation whose head updates are not finished has a worker that can perform a step *)
Theorem par_lat_run_no_deadlock : forall pre sc rest st T2 D2 R2 (mx : rel -> list V -> nat) kfirst work sched r,
  pl = pre ++ sc :: rest ->
  par_lat_run_sccs I islat jm pre (update_indices Rin) st ->
  par_lat_loop_reach I islat jm sc (l_stored st) (fun _ => []) (fun r => if is_dyn (s_dyn sc) r then l_stored st r else []) (l_rows st) T2 D2 R2 ->
  latdyn islat sc r = true ->
  let s := grun I jm T2 D2 R2 mx kfirst (ginit I R2 work) sched r in
  ParLat.finished s = false -> exists j, ParLat.enabled (mx r) s j = true.
Proof.
  intros pre sc rest st T2 D2 R2 mx kfirst work sched r Hpl Hrun Hreach Hr s F.
  destruct (par_lat_intermediate (Jwf I islat lle) pre sc rest st T2 D2 R2 (Jwf_directed I islat lle jm Hlaws) (Jwf_closed I islat lle jm Hlaws P Hmono)
              (rows_wf_below_Jwf I islat lle Rin (proj2 (proj2 Hin))) Hpl Hrun Hreach) as [_ [Hk Hc]].
  exact (par_lat_no_deadlock I Heq islat jm sc T2 D2 R2 mx kfirst work sched r Hk Hc Hr F).
Qed.

Theorem par_lat_run_sound : forall (J : db) st,
  directed I islat lle J -> closedH I islat lle P J -> allbelow I islat lle J Rin ->
  prun pl Rin st -> allbelow I islat lle J (l_rows st).
Proof.
  intros J st HJd HJc Hb Hrun. destruct (par_run_plan_GI J HJd HJc Rin st Hin Hb Hrun) as [HR _]. apply (ro_below _ _ _ _ _ _ HR).
Qed.

Lemma par_run_GI_wf : forall st, prun pl Rin st -> GI (Jwf I islat lle) Rin (length pl) st.
Proof.
  intros st Hrun. apply (par_run_plan_GI (Jwf I islat lle) (Jwf_directed I islat lle jm Hlaws) (Jwf_closed I islat lle jm Hlaws P Hmono) Rin st Hin); auto.
  apply rows_wf_below_Jwf. apply Hin.
Qed.

Theorem par_lat_run_unique_key : forall st, prun pl Rin st -> forall r, islat r = true -> NoDup (map tkey (l_rows st r)).
Proof. intros st Hrun. destruct (par_run_GI_wf st Hrun) as [HR _]. apply (ro_key _ _ _ _ _ _ HR). Qed.

Theorem par_lat_run_grows : forall st, prun pl Rin st -> rle Rin (l_rows st).
Proof. intros st Hrun. destruct (par_run_GI_wf st Hrun) as [_ [_ [H _]]]. exact H. Qed.

Theorem par_lat_run_closed : forall st, prun pl Rin st -> closedH I islat lle P (dbof (l_rows st)).
Proof.
  intros st Hrun [r t] [ru [e [h [Hru [Hsat [Hh Hf]]]]]]. destruct (par_run_GI_wf st Hrun) as [_ [_ [_ Hcl]]].
  apply In_nth_error in Hru. destruct Hru as [j Hj].
  assert (Hlt : j < length P) by (apply nth_error_Some; congruence).
  destruct (SemiNaive.val_rule_scc arities P pl Hval j Hlt) as [k Hk].
  assert (Hk' : k < length pl). { destruct Hk as [sc [Hn _]]. apply nth_error_Some. congruence. }
  exact (Hcl j ru k Hj Hk Hk' e h (r, t) Hsat Hh Hf).
Qed.

Theorem par_lat_run_input_ok : forall st, prun pl Rin st -> input_ok (l_rows st).
Proof.
  intros st Hrun. destruct (par_run_GI_wf st Hrun) as [HR _].
  split; [exact (ro_ar _ _ _ _ _ _ HR)|]. split; [exact (ro_key _ _ _ _ _ _ HR) | exact (ro_wf _ _ _ _ _ _ HR)].
Qed.

Theorem par_lat_run_least_fixed_point : forall st, prun pl Rin st ->
  let F := dbof (l_rows st) in
  directed I islat lle F /\ closedH I islat lle P F /\ dble I islat lle (dbof Rin) F /\
  forall J : db, directed I islat lle J -> closedH I islat lle P J -> dble I islat lle (dbof Rin) J -> dble I islat lle F J.
Proof.
  intros st Hrun F. destruct (par_run_GI_wf st Hrun) as [HR [_ [Hrle _]]].
  split; [|split; [|split]].
  - apply (unique_directed I islat lle); [apply (ro_wf _ _ _ _ _ _ HR) | apply (ro_key _ _ _ _ _ _ HR)].
  - apply (par_lat_run_closed st Hrun).
  - intros r t Ht. unfold dbof in Ht. apply In_nth_error in Ht. destruct Ht as [i Hi].
    destruct (Hrle r i t Hi) as [row' [E Hle]]. exists row'. split; [eapply nth_error_In; eauto | exact Hle].
  - intros J HJd HJc HJin r t Ht.
    assert (Hb : allbelow I islat lle J Rin) by (intros q row Hq; apply HJin; exact Hq).
    exact (par_lat_run_sound J st HJd HJc Hb Hrun r t Ht).
Qed.

(* ... hence the rows of the serial engine on the same input, for every iteration order / len_estimate oracle of the serial model *)
Theorem par_lat_equals_serial : forall shuffle swap_oracle fuel st_par st_ser,
  (forall n l x, In x (shuffle n l) <-> In x l) ->
  prun pl Rin st_par ->
  run_plan I islat jm shuffle swap_oracle fuel pl Rin = Some st_ser ->
  (forall r t, In t (l_rows st_par r) <-> In t (l_rows st_ser r))
  /\ (forall r, islat r = true -> Permutation (l_rows st_par r) (l_rows st_ser r)).
Proof.
  intros shuffle swap_oracle fuel st_par st_ser Hshuf Hpar Hser.
  destruct (par_lat_run_least_fixed_point st_par Hpar) as [P1 [P2 [P3 P4]]].
  destruct (lat_run_least_fixed_point I Heq islat lle jm Hlaws shuffle Hshuf swap_oracle arities Hfun P Hnoagg Hmono pl Hval Hlatplan Rin Hin fuel st_ser Hser)
    as [S1 [S2 [S3 S4]]].
  apply (mutual_dble_same I islat lle jm Hlaws).
  - intros r. apply (par_lat_run_unique_key st_par Hpar).
  - intros r. apply (lat_run_unique_key I Heq islat lle jm Hlaws shuffle Hshuf swap_oracle arities Hfun P Hnoagg Hmono pl Hval Hlatplan Rin Hin fuel st_ser Hser).
  - apply P4; assumption.
  - apply S4; assumption.
Qed.
End Main.
