(* C03 - the whole run: SCCs in plan order; the three theorems about run_plan. *)
From Coq Require Import List ZArith Bool Arith Lia.
From AV Require Import Engine.Core.
From AV Require Import Engine.Eval.
From AV Require Import Engine.Validate.
From AV Require Import Engine.Naive.
From AV Require Import Engine.NaiveLemmas.
From AV Require Engine.Strata.
From AV Require Engine.SemiNaive.
From AV Require Import LatEngine.LatSyntax.
From AV Require Import LatEngine.LatEval.
From AV Require Import LatEngine.LatPlan.
From AV Require Import LatEngine.LatSem.
From AV Require Import LatEngine.LatEnv.
From AV Require Import LatEngine.LatClause.
From AV Require Import LatEngine.LatMono.
From AV Require Import LatEngine.LatBase.
From AV Require Import LatEngine.LatHead.
From AV Require Import LatEngine.LatItems.
From AV Require Import LatEngine.LatScc.
Import ListNotations.
Local Open Scope nat_scope.

Section Main.
Context {V : Type}.
Variable I : linterp V.
Hypothesis Heq : veqb_ok I.
Variable islat : rel -> bool.
Variable lle : rel -> V -> V -> Prop.
Variable jm : rel -> V -> V -> V * bool.
Hypothesis Hlaws : forall r, islat r = true -> lat_laws (lle r) (jm r).

Notation tle := (tle I islat lle).
Notation below := (below I islat lle).
Notation rle := (rle I islat lle).

(* ---------- a satisfying instance over well-formed facts binds well-formed values ---------- *)
Section Self.
Variable G : vorder (V:=V).
Hypothesis HGdom : vorder_dom G.

Lemma match_self : forall r args (t : vtuple V) (e e1 : venv V),
  mono_clause islat lle G r args -> ele G e e -> (islat r = true -> lle r (tval I t) (tval I t)) ->
  vmatch_args I e args t = Some e1 -> ele G e1 e1.
Proof.
  intros r args t e e1 Hmc Hle Hwf Hm. unfold mono_clause in Hmc. destruct (islat r) eqn:Hl.
  - destruct Hmc as [kargs [x [-> [Hk Hx]]]].
    pose proof (vmatch_args_length I _ _ _ _ Hm) as Hl1. rewrite app_length in Hl1. cbn in Hl1. rewrite Nat.add_1_r in Hl1.
    destruct (split_last I t (length kargs) (eq_sym Hl1)) as [Et Hlk].
    rewrite Et in Hm. rewrite (vmatch_args_app I) in Hm by (symmetry; exact Hlk).
    destruct (vmatch_args I e kargs (tkey t)) as [em|] eqn:Em; [|discriminate].
    destruct (match_plain I G kargs (tkey t) e e em Hk Hle Em) as [em' [Em' Hle']].
    assert (em' = em) by congruence. subst em'.
    cbn in Hm. destruct (vlookup em x) as [w|] eqn:Ex.
    + destruct (veqb I w (tval I t)); [|discriminate]. injection Hm as <-. exact Hle'.
    + injection Hm as <-. apply ele_bind; auto.
  - destruct (match_plain I G args t e e e1 Hmc Hle Hm) as [e1' [Em' Hle']]. assert (e1' = e1) by congruence. subst. exact Hle'.
Qed.

Lemma conds_self : forall cs (e e1 : venv V), Forall (mono_cond I G) cs -> ele G e e -> vsat_conds I e cs = Some e1 -> ele G e1 e1.
Proof.
  intros cs e e1 Hm Hle Hs. destruct (conds_mono I G cs e e e1 Hm Hle Hs) as [e1' [Hs' Hle']].
  assert (e1' = e1) by congruence. subst. exact Hle'.
Qed.

Lemma sat_self : forall (DB : db) items (e e1 : venv V),
  Forall (mono_item I islat lle G) items ->
  (forall r t, DB r t -> islat r = true -> lle r (tval I t) (tval I t)) ->
  sat I DB items e e1 -> ele G e e -> ele G e1 e1.
Proof.
  intros DB items e e1 Hm Hwf Hs.
  induction Hs as [e|r args cs rest e t e1 e2 e3 Hdb Hma Hc Hs IH|c rest e e1 e2 Hc Hs IH|x g xs rest e vs v e2 Hv Hin Hs IH]; intros Hle.
  - exact Hle.
  - inversion Hm as [|? ? Hmi Hmr]; subst. cbn in Hmi. destruct Hmi as [Hmc Hmcs]. apply IH; auto.
    apply (conds_self cs e1 e2 Hmcs); [|exact Hc]. apply (match_self r args t e e1 Hmc Hle); [|exact Hma]. intros Hl. apply (Hwf r t Hdb Hl).
  - inversion Hm as [|? ? Hmc Hmr]; subst. apply IH; auto. cbn in Hmc.
    destruct (Hmc e e e1 Hle Hc) as [e1' [Hc' Hle']]. assert (e1' = e1) by congruence. subst. exact Hle'.
  - inversion Hm as [|? ? Hmg Hmr]; subst. apply IH; auto. cbn in Hmg.
    destruct (Hmg e e vs v Hle Hv Hin) as [vs' [v' [_ [_ Hg]]]]. apply ele_bind; auto. apply (HGdom x v v' Hg).
Qed.
End Self.

(* the set of all well-formed facts: directed, and closed under every monotone program *)
Definition Jwf : db (V:=V) := fun r t => islat r = true -> lle r (tval I t) (tval I t).

Lemma Jwf_directed : directed I islat lle Jwf.
Proof.
  intros r t1 t2 Hl H1 H2 Hk Hlen. pose proof (Hlaws r Hl) as L. specialize (H1 Hl). specialize (H2 Hl).
  destruct (length t1) as [|n] eqn:E1.
  - exists t1. destruct t1; [|discriminate]. destruct t2; [|discriminate].
    split; [intros _; exact H1|]. split; unfold LatSem.tle; rewrite Hl; auto.
  - exists (tkey t1 ++ [fst (jm r (tval I t1) (tval I t2))]).
    assert (Hl1 : length (tkey t1 ++ [fst (jm r (tval I t1) (tval I t2))]) = length t1).
    { destruct (split_last I t1 n E1) as [_ H]. rewrite app_length, H. cbn. lia. }
    split; [|split].
    + intros _. rewrite tval_app. pose proof (ll_ub_l _ _ L _ _ H1 H2) as Hu. apply (ll_dom _ _ L) in Hu. tauto.
    + unfold LatSem.tle. rewrite Hl, tkey_app, tval_app. split; [reflexivity|]. split; [congruence|]. apply (ll_ub_l _ _ L); auto.
    + unfold LatSem.tle. rewrite Hl, tkey_app, tval_app. split; [congruence|]. split; [congruence|]. apply (ll_ub_r _ _ L); auto.
Qed.

Lemma Jwf_closed : forall P, monotone_program I islat lle P -> closedH I islat lle P Jwf.
Proof.
  intros P Hmono [r t] [ru [e [h [Hin [Hsat [Hh Hf]]]]]]. destruct (Hmono ru Hin) as [G [Hdom [Hmi Hmh]]].
  assert (Hle : ele G e e).
  { eapply (sat_self G Hdom Jwf (body ru) [] e); eauto. apply ele_nil. }
  rewrite Forall_forall in Hmh.
  destruct (head_mono_eval I islat lle G h e e (r, t) (Hmh h Hh) Hle Hf) as [f' [Hf' [_ Ht]]].
  assert (f' = (r, t)) by congruence. subst f'. cbn [fst snd] in Ht.
  exists t. cbn [fst snd]. split; [|exact Ht]. intros Hl. eapply (tle_wf_l I islat lle jm Hlaws); eauto.
Qed.

Lemma rows_wf_below_Jwf : forall R, rows_wf I islat lle R -> allbelow I islat lle Jwf R.
Proof.
  intros R Hwf r row Hin. exists row. cbn [fst snd]. split.
  - intros Hl. apply (Hwf r row Hl Hin).
  - apply (tle_refl I islat lle). intros Hl. apply (Hwf r row Hl Hin).
Qed.

(* ---------- SCCs in plan order ---------- *)
Variable shuffle : nat -> list nat -> list nat.
Hypothesis Hshuf : forall n l x, In x (shuffle n l) <-> In x l.
Variable swap_oracle : nat -> list nat -> list nat -> bool.
Variable arities : list (rel * nat).
Hypothesis Hfun : arities_functional arities.
Variable P : list rule.
Hypothesis Hnoagg : no_agg P = true.
Hypothesis Hmono : monotone_program I islat lle P.
Variable pl : plan.
Hypothesis Hval : validate arities P pl = true.
Hypothesis Hlatplan : lat_plan_ok islat arities pl = true.

Lemma Hlat1 : forall r n, islat r = true -> arity_ok arities r n = true -> 0 < n.
Proof.
  intros r n Hl Ha. unfold lat_plan_ok in Hlatplan. apply andb_true_iff in Hlatplan. destruct Hlatplan as [_ H].
  rewrite forallb_forall in H. unfold arity_ok in Ha. apply existsb_exists in Ha. destruct Ha as [[q m] [Hin E]].
  cbn in E. apply andb_true_iff in E. destruct E as [E1 E2]. apply Nat.eqb_eq in E1, E2. subst.
  specialize (H _ Hin). cbn [fst snd] in H. rewrite Hl in H. cbn [negb orb] in H. apply Nat.ltb_lt in H. exact H.
Qed.

Lemma Hlatok : forall k sc, nth_error pl k = Some sc -> forallb (lat_variant_ok islat) (s_vars sc) = true.
Proof.
  intros k sc Hn. unfold lat_plan_ok in Hlatplan. apply andb_true_iff in Hlatplan. destruct Hlatplan as [H _].
  rewrite forallb_forall in H. apply H. eapply nth_error_In; eauto.
Qed.

Section WithJ.
Variable J : db (V:=V).
Hypothesis HJdir : directed I islat lle J.
Hypothesis HJcl : closedH I islat lle P J.
Variable Rin : rel -> list (vtuple V).

Definition rule_closed (ru : rule) (R : rel -> list (vtuple V)) : Prop :=
  forall (e : venv V) h f, sat I (dbof R) (body ru) [] e -> In h (heads ru) -> veval_head I e h = Some f -> below (dbof R) f.

Definition GI (k : nat) (st : @lstate V) : Prop :=
  rows_ok I islat lle arities J (l_rows st)
  /\ (forall r i, i < length (l_rows st r) -> In i (l_stored st r))
  /\ rle Rin (l_rows st)
  /\ (forall j ru i, nth_error P j = Some ru -> SemiNaive.rule_scc pl j i -> i < k -> rule_closed ru (l_rows st)).

Lemma dyn_in_heads : forall sc q, scc_ok arities P sc = true -> is_dyn (s_dyn sc) q = true -> In q (scc_head_rels P sc).
Proof.
  intros sc q Hok Hq. unfold scc_ok in Hok. apply andb_true_iff in Hok. destruct Hok as [H _].
  apply andb_true_iff in H. destruct H as [_ H]. rewrite forallb_forall in H.
  apply is_dyn_In in Hq. specialize (H q Hq). apply existsb_nat_In in H. exact H.
Qed.

Lemma GI_step : forall fuel k sc st st',
  nth_error pl k = Some sc -> GI k st -> run_scc I islat jm shuffle swap_oracle fuel sc st = Some st' -> GI (S k) st'.
Proof.
  intros fuel k sc st st' Hn [HR [Hst [Hrle Hcl]]] Hrun.
  pose proof (SemiNaive.val_scc_ok arities P pl Hval k sc Hn) as Hok.
  destruct (run_scc_spec I Heq islat lle jm Hlaws shuffle Hshuf swap_oracle arities Hfun Hlat1 P Hnoagg Hmono J HJdir HJcl sc Hok (Hlatok k sc Hn)
              fuel st st' HR Hst Hrun) as [H1 [H2 [H3 [H4 H5]]]].
  split; [exact H1|]. split; [exact H4|]. split; [eapply (rle_trans I islat lle jm Hlaws); eauto|].
  intros j ru i Hru Hi Hlt e h f Hsat Hh Hf.
  destruct (Nat.eq_dec i k) as [->|Hne].
  - destruct Hi as [sc' [Hn' Hin]]. rewrite Hn in Hn'. injection Hn' as <-. exact (H3 j ru Hin Hru e h f Hsat Hh Hf).
  - assert (Hik : i < k) by lia.
    eapply (below_rle I islat lle jm Hlaws); [exact H2|]. apply (Hcl j ru i Hru Hi Hik e h f); auto.
    eapply sat_db_mono; [|exact Hsat]. intros q t Hq Hin. unfold dbof in *.
    destruct (is_dyn (s_dyn sc) q) eqn:Hd; [|rewrite <- (H5 q Hd); exact Hin].
    exfalso. pose proof (dyn_in_heads sc q Hok Hd) as Hh'. unfold scc_head_rels in Hh'. apply in_flat_map in Hh'.
    destruct Hh' as [j' [Hj' Hq']]. destruct (nth_error P j') as [ru'|] eqn:Hru'; [|destruct Hq'].
    assert (Hk' : SemiNaive.rule_scc pl j' k) by (exists sc; split; assumption).
    rewrite <- body_clause_rels_eq in Hq.
    pose proof (SemiNaive.strat_order arities P pl Hval j ru j' ru' i k q Hru Hru' Hi Hk' Hq Hq'). lia.
Qed.

Lemma run_sccs_GI : forall fuel rest pre st st',
  pl = pre ++ rest -> GI (length pre) st -> run_sccs I islat jm shuffle swap_oracle fuel rest st = Some st' -> GI (length pl) st'.
Proof.
  intros fuel. induction rest as [|sc rest IH]; intros pre st st' Hpl HG Hrun.
  - cbn [run_sccs] in Hrun. injection Hrun as <-. rewrite Hpl, app_nil_r. exact HG.
  - cbn [run_sccs] in Hrun. destruct (run_scc I islat jm shuffle swap_oracle fuel sc st) as [st1|] eqn:H1; [|discriminate].
    apply (IH (pre ++ [sc]) st1 st').
    + rewrite <- app_assoc. exact Hpl.
    + rewrite app_length. cbn [length]. replace (length pre + 1) with (S (length pre)) by lia.
      apply (GI_step fuel (length pre) sc st st1); [|exact HG | exact H1].
      rewrite Hpl, nth_error_app2, Nat.sub_diag; [reflexivity | lia].
    + exact Hrun.
Qed.

Lemma run_sccs_prefix_GI : forall fuel todo done rest st st',
  pl = done ++ todo ++ rest -> GI (length done) st -> run_sccs I islat jm shuffle swap_oracle fuel todo st = Some st' ->
  GI (length (done ++ todo)) st'.
Proof.
  intros fuel. induction todo as [|sc todo IH]; intros done rest st st' Hpl HG Hrun.
  - cbn [run_sccs] in Hrun. injection Hrun as <-. rewrite app_nil_r. exact HG.
  - cbn [run_sccs] in Hrun. destruct (run_scc I islat jm shuffle swap_oracle fuel sc st) as [st1|] eqn:H1; [|discriminate].
    replace (done ++ sc :: todo) with ((done ++ [sc]) ++ todo) by (rewrite <- app_assoc; reflexivity).
    apply (IH (done ++ [sc]) rest st1 st').
    + rewrite <- app_assoc. exact Hpl.
    + rewrite app_length. cbn [length]. replace (length done + 1) with (S (length done)) by lia.
      apply (GI_step fuel (length done) sc st st1); [|exact HG | exact H1].
      rewrite Hpl, nth_error_app2, Nat.sub_diag; [reflexivity | lia].
    + exact Hrun.
Qed.

Definition input_ok (R : rel -> list (vtuple V)) : Prop :=
  (forall r row, In row (R r) -> forall n, arity_ok arities r n = true -> length row = n)
  /\ (forall r, islat r = true -> NoDup (map tkey (R r)))
  /\ rows_wf I islat lle R.

Lemma run_plan_GI : forall fuel st,
  input_ok Rin -> allbelow I islat lle J Rin ->
  run_plan I islat jm shuffle swap_oracle fuel pl Rin = Some st -> GI (length pl) st.
Proof.
  intros fuel st [A1 [A2 A3]] Hb Hrun. unfold run_plan in Hrun.
  apply (run_sccs_GI fuel pl [] (update_indices Rin) st eq_refl); [|exact Hrun].
  unfold GI, update_indices. cbn [l_rows l_stored length]. split; [constructor; auto|]. split; [|split].
  - intros r i Hi. apply in_seq. lia.
  - apply (rle_refl I islat lle). exact A3.
  - intros j ru i _ _ Hlt. lia.
Qed.
End WithJ.

(* ---------- the theorems ---------- *)
Variable Rin : rel -> list (vtuple V).
Hypothesis Hin : input_ok Rin.

Theorem lat_run_sound : forall (J : db) fuel st,
  directed I islat lle J -> closedH I islat lle P J -> allbelow I islat lle J Rin ->
  run_plan I islat jm shuffle swap_oracle fuel pl Rin = Some st ->
  allbelow I islat lle J (l_rows st).
Proof.
  intros J fuel st HJd HJc Hb Hrun. destruct (run_plan_GI J HJd HJc Rin fuel st Hin Hb Hrun) as [HR _]. apply (ro_below _ _ _ _ _ _ HR).
Qed.

(* soundness at every intermediate state (used by C14): after any number of completed SCCs, and after any
   number of evaluations of the rules of the next SCC, the rows are below every directed closed J above the input *)
Theorem lat_sound_intermediate : forall (J : db) fuel pre sc rest st R',
  directed I islat lle J -> closedH I islat lle P J -> allbelow I islat lle J Rin ->
  pl = pre ++ sc :: rest ->
  run_sccs I islat jm shuffle swap_oracle fuel pre (update_indices Rin) = Some st ->
  loop_reach I islat jm shuffle swap_oracle sc (l_stored st) (fun _ => []) (fun r => if is_dyn (s_dyn sc) r then l_stored st r else [])
             (l_rows st) (l_tick st) R' ->
  allbelow I islat lle J R'.
Proof.
  intros J fuel pre sc rest st R' HJd HJc Hb Hpl Hrun Hreach. destruct Hin as [A1 [A2 A3]].
  assert (H0 : GI J Rin (length (@nil pscc)) (update_indices Rin)).
  { unfold GI, update_indices. cbn [l_rows l_stored length]. split; [constructor; auto|]. split; [|split].
    - intros r i Hi. apply in_seq. lia.
    - apply (rle_refl I islat lle). exact A3.
    - intros j ru i _ _ Hlt. lia. }
  pose proof (run_sccs_prefix_GI J HJd HJc Rin fuel pre [] (sc :: rest) _ st Hpl H0 Hrun) as [HR [Hst _]].
  assert (Hn : nth_error pl (length pre) = Some sc) by (rewrite Hpl, nth_error_app2, Nat.sub_diag; [reflexivity | lia]).
  pose proof (SemiNaive.val_scc_ok arities P pl Hval _ sc Hn) as Hok.
  pose proof (linv_start I islat lle arities P J sc st HR Hst) as Hl.
  destruct (loop_reach_ok I Heq islat lle jm Hlaws shuffle Hshuf swap_oracle arities Hfun Hlat1 P Hnoagg Hmono J HJd HJc sc Hok (Hlatok _ sc Hn)
              _ _ _ _ _ _ _ Hreach _ Hl) as [HR' _].
  apply (ro_below _ _ _ _ _ _ HR').
Qed.

Lemma run_GI_wf : forall fuel st, run_plan I islat jm shuffle swap_oracle fuel pl Rin = Some st -> GI Jwf Rin (length pl) st.
Proof.
  intros fuel st Hrun. apply (run_plan_GI Jwf Jwf_directed (Jwf_closed P Hmono) Rin fuel st Hin); auto.
  apply rows_wf_below_Jwf. apply Hin.
Qed.

Theorem lat_run_unique_key : forall fuel st,
  run_plan I islat jm shuffle swap_oracle fuel pl Rin = Some st ->
  forall r, islat r = true -> NoDup (map tkey (l_rows st r)).
Proof. intros fuel st Hrun. destruct (run_GI_wf fuel st Hrun) as [HR _]. apply (ro_key _ _ _ _ _ _ HR). Qed.

Theorem lat_run_grows : forall fuel st,
  run_plan I islat jm shuffle swap_oracle fuel pl Rin = Some st -> rle Rin (l_rows st).
Proof. intros fuel st Hrun. destruct (run_GI_wf fuel st Hrun) as [_ [_ [H _]]]. exact H. Qed.

Theorem lat_run_closed : forall fuel st,
  run_plan I islat jm shuffle swap_oracle fuel pl Rin = Some st -> closedH I islat lle P (dbof (l_rows st)).
Proof.
  intros fuel st Hrun [r t] [ru [e [h [Hru [Hsat [Hh Hf]]]]]]. destruct (run_GI_wf fuel st Hrun) as [_ [_ [_ Hcl]]].
  apply In_nth_error in Hru. destruct Hru as [j Hj].
  assert (Hlt : j < length P) by (apply nth_error_Some; congruence).
  destruct (SemiNaive.val_rule_scc arities P pl Hval j Hlt) as [k Hk].
  assert (Hk' : k < length pl). { destruct Hk as [sc [Hn _]]. apply nth_error_Some. congruence. }
  exact (Hcl j ru k Hj Hk Hk' e h (r, t) Hsat Hh Hf).
Qed.

(* the final rows are themselves a directed set (one row per key), above the input: with soundness and
   closedness they are THE least fixed point among the directed closed sets above the input *)
Lemma nodup_map_inj : forall (A B : Type) (f : A -> B) l a b, NoDup (map f l) -> In a l -> In b l -> f a = f b -> a = b.
Proof.
  intros A B f l. induction l as [|x l IH]; intros a b Hn Ha Hb Hf; [destruct Ha|].
  cbn in Hn. inversion Hn as [|? ? Hx Hn']; subst. destruct Ha as [->|Ha], Hb as [->|Hb]; auto.
  - exfalso. apply Hx. rewrite Hf. apply in_map. exact Hb.
  - exfalso. apply Hx. rewrite <- Hf. apply in_map. exact Ha.
Qed.

Lemma unique_directed : forall R, rows_wf I islat lle R -> (forall r, islat r = true -> NoDup (map tkey (R r))) -> directed I islat lle (dbof R).
Proof.
  intros R Hwf Hk r t1 t2 Hl H1 H2 Hkey _. unfold dbof in *.
  assert (t1 = t2) by (eapply nodup_map_inj; eauto). subst t2.
  exists t1. split; [exact H1|]. split; apply (tle_refl I islat lle); intros _; apply (Hwf r t1 Hl H1).
Qed.

Theorem lat_run_least_fixed_point : forall fuel st,
  run_plan I islat jm shuffle swap_oracle fuel pl Rin = Some st ->
  let F := dbof (l_rows st) in
  directed I islat lle F /\ closedH I islat lle P F /\ dble I islat lle (dbof Rin) F /\
  forall J : db, directed I islat lle J -> closedH I islat lle P J -> dble I islat lle (dbof Rin) J -> dble I islat lle F J.
Proof.
  intros fuel st Hrun F. destruct (run_GI_wf fuel st Hrun) as [HR [_ [Hrle _]]].
  split; [|split; [|split]].
  - apply unique_directed; [apply (ro_wf _ _ _ _ _ _ HR) | apply (ro_key _ _ _ _ _ _ HR)].
  - apply (lat_run_closed fuel st Hrun).
  - intros r t Ht. unfold dbof in Ht. apply In_nth_error in Ht. destruct Ht as [i Hi].
    destruct (Hrle r i t Hi) as [row' [E Hle]]. exists row'. split; [eapply nth_error_In; eauto | exact Hle].
  - intros J HJd HJc HJin r t Ht.
    assert (Hb : allbelow I islat lle J Rin) by (intros q row Hq; apply HJin; exact Hq).
    exact (lat_run_sound J fuel st HJd HJc Hb Hrun r t Ht).
Qed.
End Main.
