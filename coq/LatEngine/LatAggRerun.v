(* C13 over lattices WITH aggregation / negation - re-run idempotence of the serial lattice + aggregate engine
   (LatAggEval.v arun_plan; the program value between two runs IS its rows: arun_plan starts with update_indices).

     lat_agg_run_closed            the rows left by a terminated run are closed under the rules of EVERY stratum, the
                                   aggregates / negations of the stratum evaluated over those same final rows
     lat_agg_closed_rows_unchanged a run started from legal rows that are closed in this sense leaves every relation the
                                   same rows (a permutation: same set, same number of rows, equal lattice values)
     lat_agg_rerun_idempotent      run(); run(): the second run leaves every relation unchanged

   Route: the rows R1 of a terminated run are the stratified lattice model of the input (LatAggMain.v); along the run,
   stratum k's result is closed under stratum k (stratum_lfp), its aggregated relations are final, and no later SCC
   writes a relation that stratum k reads (Engine/SemiNaive.v strat_order, SemiNaiveAgg.v strat_order_agg), so the
   closure survives to the end.  Rows closed under every stratum are their OWN stratified lattice model
   (self_model), the second run computes a stratified lattice model of them (lat_agg_stratified_model), and the model is
   unique up to the order of the rows (LatParAggMain.v strat_lat_model_unique). *)
From Coq Require Import List ZArith Bool Arith Lia Permutation.
From AV Require Import Engine.Core.
From AV Require Import Engine.Eval.
From AV Require Import Engine.Validate.
From AV Require Import Engine.Naive.
From AV Require Import Engine.SemiNaive.
From AV Require Import Engine.SemiNaiveAgg.
From AV Require Import Engine.StrataAgg.
From AV Require Import Engine.InterfaceAgg.
From AV Require Import Engine.StratFixed.
From AV Require Import Engine.Strat.
From AV Require Import LatEngine.LatSyntax.
From AV Require Import LatEngine.LatEval.
From AV Require Import LatEngine.LatSem.
From AV Require Import LatEngine.LatBase.
From AV Require Import LatEngine.LatKeys.
From AV Require Import LatEngine.LatMain.
From AV Require Import LatEngine.LatRBase.
From AV Require Import LatEngine.LatAggEval.
From AV Require Import LatEngine.LatAggTrans.
From AV Require Import LatEngine.LatAggInv.
From AV Require Import LatEngine.LatAggSem.
From AV Require Import LatEngine.LatAggStrata.
From AV Require Import LatEngine.LatAggMain.
From AV Require Import LatEngine.LatParAggMain.
Import ListNotations.
Local Open Scope nat_scope.

Section ARerun.
Context {V : Type}.
Variable I : linterp V.
Hypothesis Heq : veqb_ok I.
Variable vagg : nat -> list (list V) -> list V.
Hypothesis Hperm : forall a l l', Permutation l l' -> vagg a l = vagg a l'.
Variable islat : rel -> bool.
Variable lle : rel -> V -> V -> Prop.
Variable jm : rel -> V -> V -> V * bool.
Hypothesis Hlaws : forall r, islat r = true -> lat_laws (lle r) (jm r).
Variable shuffle : nat -> list nat -> list nat.
Hypothesis Hshuf : forall n l x, In x (shuffle n l) <-> In x l.
Variable ashuffle : nat -> list nat -> list nat.
Hypothesis Hashuf : forall n l, Permutation (ashuffle n l) l.
Variable swap_oracle : nat -> list nat -> list nat -> bool.
Variable arities : list (rel * nat).
Hypothesis Hfun : arities_functional arities.
Variable P : list rule.
Variable N : var.
Hypothesis Hmono : amonotone_program I islat lle N P.
Variable pl : plan.
Hypothesis Hval : validate arities P pl = true.
Hypothesis Halat : alat_plan_ok islat arities pl = true.
Hypothesis Hbelow : plan_below N pl = true.

Notation AG := (AG I islat lle arities).
Notation arun_sccs := (arun_sccs I vagg islat jm shuffle ashuffle swap_oracle).
Notation arun_scc := (arun_scc I vagg islat jm shuffle ashuffle swap_oracle).
Notation arun_plan := (arun_plan I vagg islat jm shuffle ashuffle swap_oracle).
Notation asat := (asat I vagg islat).
Notation below := (below I islat lle).
Notation dble := (dble I islat lle).

(* the rows R are closed under the rules s, aggregates evaluated over R itself *)
Definition sclosed (R : rel -> list (vtuple V)) (s : list rule) : Prop := aclosedH I vagg islat lle R s (dbof R).

Definition items_clause_rels (items : list bitem) : list rel :=
  flat_map (fun b => match b with BClause q _ _ => [q] | _ => [] end) items.
Definition items_agg_rels (items : list bitem) : list rel :=
  flat_map (fun b => match b with BAgg _ _ _ q _ => [q] | _ => [] end) items.

(* satisfaction of a body only looks at the relations of its clauses (in DB) and of its aggregates (in A) *)
Lemma asat_agree : forall A A' (DB DB' : db) items e e2,
  (forall q, In q (items_clause_rels items) -> forall t, DB q t -> DB' q t) ->
  (forall q, In q (items_agg_rels items) -> A q = A' q) ->
  asat A DB items e e2 -> asat A' DB' items e e2.
Proof.
  intros A A' DB DB' items e e2 HC HA H.
  induction H as [e|r args cs rest e t e1 e2 e3 Hdb Hm Hc Hrest IH|c rest e e1 e2 Hc Hrest IH
                  |x g xs rest e vs v e2 Hv Hin Hrest IH|out a bound r args rest e key v e2 Hk Hin Hrest IH].
  - constructor.
  - eapply asat_clause; [apply HC; [left; reflexivity | exact Hdb] | exact Hm | exact Hc |].
    apply IH; [intros q Hq; apply HC; right; exact Hq | intros q Hq; apply HA; exact Hq].
  - eapply asat_cond; [exact Hc|]. apply IH; [intros q Hq; apply HC; exact Hq | intros q Hq; apply HA; exact Hq].
  - eapply asat_gen; [exact Hv | exact Hin |]. apply IH; [intros q Hq; apply HC; exact Hq | intros q Hq; apply HA; exact Hq].
  - eapply asat_agg; [exact Hk | |].
    + unfold spec_rows in *. rewrite <- (HA r (or_introl eq_refl)). exact Hin.
    + apply IH; [intros q Hq; apply HC; exact Hq | intros q Hq; apply HA; right; exact Hq].
Qed.

(* the result of a stratum is closed under the stratum, its aggregates read over the RESULT (they are unchanged) *)
Lemma step_closed_self : forall s R0 R1, stratum_lfp I vagg islat lle s R0 R1 -> sclosed R1 s.
Proof.
  intros s R0 R1 [Hagg [_ [_ [_ [Hc _]]]]] f [ru [e [h [Hin [Hs [Hh Hf]]]]]]. apply Hc. exists ru, e, h.
  split; [exact Hin|]. split; [|split; assumption].
  apply (asat_agree R1 R0 (dbof R1) (dbof R1)); [intros q _ t Ht; exact Ht | | exact Hs].
  intros q Hq. apply Hagg. unfold stratum_agg_rels. apply in_flat_map. exists ru. split; [exact Hin | exact Hq].
Qed.

(* a later SCC does not disturb the closure of an earlier stratum: it writes nothing that the stratum reads *)
Lemma step_closed_old : forall i sci k sc (R R1 : rel -> list (vtuple V)),
  nth_error pl i = Some sci -> nth_error pl k = Some sc -> i < k ->
  (forall q, is_dyn (s_dyn sc) q = false -> R1 q = R q) -> dble (dbof R) (dbof R1) ->
  sclosed R (stratum_of P sci) -> sclosed R1 (stratum_of P sci).
Proof.
  intros i sci k sc R R1 Hi Hk Hlt Hsta Hle Hcl [r t] [ru [e [h [Hin [Hs [Hh Hf]]]]]].
  destruct (stratum_inv P sci ru Hin) as [j [Hj Hru]].
  assert (Hji : rule_scc pl j i) by (exists sci; split; assumption).
  assert (Hun : forall q, In q (body_clause_rels ru) \/ In q (body_agg_rels ru) -> R1 q = R q).
  { intros q Hq. apply Hsta. destruct (is_dyn (s_dyn sc) q) eqn:Hd; [exfalso | reflexivity].
    destruct (dyn_has_producer arities P pl Hval k sc q Hk Hd) as [j' [r' [Hr' [Hk' Hh']]]].
    destruct Hq as [Hq|Hq].
    - pose proof (strat_order arities P pl Hval j ru j' r' i k q Hru Hr' Hji Hk' Hq Hh'). lia.
    - pose proof (strat_order_agg arities P pl Hval j ru j' r' i k q Hru Hr' Hji Hk' Hq Hh'). lia. }
  assert (Hb : below (dbof R) (r, t)).
  { apply Hcl. exists ru, e, h. split; [exact Hin|]. split; [|split; assumption].
    apply (asat_agree R1 R (dbof R1) (dbof R)); [| | exact Hs].
    - intros q Hq t0 Ht0. unfold dbof in *. rewrite <- (Hun q (or_introl Hq)). exact Ht0.
    - intros q Hq. apply Hun. right. exact Hq. }
  destruct Hb as [t' [Hin' Hle']]. cbn [fst snd] in *.
  apply (below_trans I islat lle jm Hlaws (dbof R1) r t t' Hle'). apply Hle. exact Hin'.
Qed.

(* along a run: the strata of the SCCs already executed stay closed *)
Lemma arun_sccs_closed : forall fuel rest pre st st', pl = pre ++ rest -> AG st ->
  (forall i sci, nth_error pre i = Some sci -> sclosed (l_rows st) (stratum_of P sci)) ->
  arun_sccs fuel rest st = Some st' ->
  AG st' /\ forall i sci, nth_error pl i = Some sci -> sclosed (l_rows st') (stratum_of P sci).
Proof.
  intros fuel. induction rest as [|sc rest IH]; intros pre st st' Hpl HG Hcl Hrun.
  - cbn [LatAggEval.arun_sccs] in Hrun. injection Hrun as <-. split; [exact HG|]. rewrite Hpl, app_nil_r. exact Hcl.
  - cbn [LatAggEval.arun_sccs] in Hrun. destruct (arun_scc fuel sc st) as [st1|] eqn:H1; [|discriminate].
    assert (Hn : nth_error pl (length pre) = Some sc) by (rewrite Hpl, nth_error_app2, Nat.sub_diag; [reflexivity | lia]).
    destruct (scc_side islat arities P N pl Hval Halat Hbelow _ sc Hn) as [Hok [Hb Hal]].
    destruct (arun_scc_spec I Heq vagg Hperm islat lle jm Hlaws shuffle Hshuf ashuffle Hashuf swap_oracle arities Hfun
                (aHlat1 islat arities pl Halat) P (prog_K P) N (prog_K_bound P) Hmono sc Hok Hb Hal fuel st st1 HG H1) as [HG1 [Hsta Hlfp]].
    apply (IH (pre ++ [sc]) st1 st'); [rewrite <- app_assoc; exact Hpl | exact HG1 | | exact Hrun].
    intros i sci Hi. destruct (lt_dec i (length pre)) as [Hlt|Hge].
    + rewrite nth_error_app1 in Hi by exact Hlt.
      assert (Hi' : nth_error pl i = Some sci) by (rewrite Hpl, nth_error_app1 by exact Hlt; exact Hi).
      apply (step_closed_old i sci (length pre) sc (l_rows st) (l_rows st1) Hi' Hn Hlt Hsta).
      * destruct Hlfp as [_ [_ [_ [_ [_ [Hle _]]]]]]. exact Hle.
      * exact (Hcl i sci Hi).
    + rewrite nth_error_app2 in Hi by lia. destruct (i - length pre) as [|m] eqn:Em; cbn in Hi.
      * injection Hi as <-. exact (step_closed_self _ _ _ Hlfp).
      * destruct m; discriminate.
Qed.

Theorem lat_agg_run_closed : forall fuel Rin st, ainput_ok I islat lle arities Rin -> arun_plan fuel pl Rin = Some st ->
  ainput_ok I islat lle arities (l_rows st) /\ forall s, In s (plan_strata P pl) -> sclosed (l_rows st) s.
Proof.
  intros fuel Rin st Hin Hrun. unfold LatAggEval.arun_plan in Hrun.
  destruct (arun_sccs_closed fuel pl [] (update_indices Rin) st eq_refl (AG_start I islat lle arities Rin Hin)) as [HG Hcl];
    [intros i sci Hi; destruct i; discriminate | exact Hrun |].
  split.
  - destruct HG as [A1 A2 A3 A4 _]. repeat split; assumption.
  - intros s Hs. unfold plan_strata in Hs. apply in_map_iff in Hs as [sc [<- Hsc]].
    apply In_nth_error in Hsc as [i Hi]. exact (Hcl i sc Hi).
Qed.

(* rows closed under every stratum are their own stratified lattice model *)
Lemma self_model : forall R, ainput_ok I islat lle arities R ->
  forall strata, (forall s, In s strata -> sclosed R s) -> strat_lat_model I vagg islat lle strata R R.
Proof.
  intros R [_ [Hk [Hwf Hp]]]. induction strata as [|s rest IH]; intros Hcl; cbn [strat_lat_model].
  - intros r. reflexivity.
  - exists R. split; [|apply IH; intros s' Hs'; apply Hcl; right; exact Hs'].
    unfold stratum_lfp. split; [intros q _; reflexivity|]. split; [exact Hk|]. split; [exact Hp|].
    split; [apply unique_directed; assumption|]. split; [apply Hcl; left; reflexivity|].
    split; [apply dble_rows_refl; exact Hwf|]. intros J _ _ HJ. exact HJ.
Qed.

Theorem lat_agg_closed_rows_unchanged : forall fuel R st,
  ainput_ok I islat lle arities R -> (forall s, In s (plan_strata P pl) -> sclosed R s) ->
  arun_plan fuel pl R = Some st -> forall r, Permutation (l_rows st r) (R r).
Proof.
  intros fuel R st Hin Hcl Hrun.
  destruct (lat_agg_stratified_model I Heq vagg Hperm islat lle jm Hlaws shuffle Hshuf ashuffle Hashuf swap_oracle arities Hfun P N Hmono
              pl Hval Halat Hbelow fuel R st Hin Hrun) as [_ [_ [Hm _]]].
  pose proof Hin as [_ [_ [_ Hp]]].
  apply (strat_lat_model_unique I Heq vagg Hperm islat lle jm Hlaws (plan_strata P pl) R R (l_rows st) R); auto.
  - intros r. apply Permutation_refl.
  - apply self_model; assumption.
Qed.

(* the statement needs the first run to have TERMINATED (within the fuel); the second run then leaves every relation
   unchanged whenever it terminates *)
Theorem lat_agg_rerun_idempotent : forall fuel fuel' Rin st1 st2, ainput_ok I islat lle arities Rin ->
  arun_plan fuel pl Rin = Some st1 -> arun_plan fuel' pl (l_rows st1) = Some st2 ->
  forall r, Permutation (l_rows st2 r) (l_rows st1 r).
Proof.
  intros fuel fuel' Rin st1 st2 Hin H1 H2.
  destruct (lat_agg_run_closed fuel Rin st1 Hin H1) as [Hin1 Hcl].
  exact (lat_agg_closed_rows_unchanged fuel' (l_rows st1) st2 Hin1 Hcl H2).
Qed.
End ARerun.

Print Assumptions lat_agg_rerun_idempotent.
